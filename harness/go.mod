module verifharness

go 1.19

require (
	github.com/docker/docker v20.10.7+incompatible
	github.com/google/gopacket v1.1.20-0.20210304165259-20562ffb40f8
	github.com/mailru/easyjson v0.7.7
	github.com/v-byte-cpu/sx v0.0.0
	github.com/vishvananda/netlink v1.1.0
	go.uber.org/ratelimit v0.2.0
	golang.org/x/net v0.0.0-20210813160813-60bc85c4be6d
)

require (
	github.com/andres-erbsen/clock v0.0.0-20160526145045-9e14626cd129 // indirect
	github.com/containerd/containerd v1.4.4 // indirect
	github.com/docker/distribution v2.7.1+incompatible // indirect
	github.com/docker/go-connections v0.4.0 // indirect
	github.com/docker/go-units v0.4.0 // indirect
	github.com/gogo/protobuf v1.3.2 // indirect
	github.com/golang/protobuf v1.5.2 // indirect
	github.com/josharian/intern v1.0.0 // indirect
	github.com/moby/moby v20.10.7+incompatible // indirect
	github.com/opencontainers/go-digest v1.0.0 // indirect
	github.com/opencontainers/image-spec v1.0.1 // indirect
	github.com/pkg/errors v0.9.1 // indirect
	github.com/sirupsen/logrus v1.4.2 // indirect
	github.com/spf13/cobra v1.5.0 // indirect
	github.com/spf13/pflag v1.0.5 // indirect
	github.com/vishvananda/netns v0.0.0-20191106174202-0a2b9b5464df // indirect
	github.com/yl2chen/cidranger v1.0.2 // indirect
	go.uber.org/atomic v1.7.0 // indirect
	go.uber.org/multierr v1.6.0 // indirect
	go.uber.org/zap v1.23.0 // indirect
	golang.org/x/sys v0.0.0-20211205182925-97ca703d548d // indirect
	google.golang.org/genproto v0.0.0-20211208223120-3a66f561d7aa // indirect
	google.golang.org/grpc v1.42.0 // indirect
	google.golang.org/protobuf v1.27.1 // indirect
)

replace github.com/v-byte-cpu/sx => /repo
