module verifharness

go 1.19

require github.com/v-byte-cpu/sx v0.0.0

require (
	github.com/google/gopacket v1.1.20-0.20210304165259-20562ffb40f8 // indirect
	github.com/josharian/intern v1.0.0 // indirect
	github.com/mailru/easyjson v0.7.7 // indirect
)

replace github.com/v-byte-cpu/sx => /repo
