package main

// Overlapping-scans stage of C10: scan.GenericEngine drives ONE Scanner from many worker goroutines.
// Here one real docker.Scanner and one real elastic.Scanner are each shared by G goroutines probing a
// mix of persistent loopback peers: well-behaved APIs (each serving its OWN name, so that data of a
// neighbour is recognisable), peers answering 200 with non-JSON, peers answering 404 text/plain, and
// slow variants whose first response is delayed so that probes of different targets overlap.
// Every probe is judged on its own by the property: reported iff ITS peer served JSON info, the
// record's host is ITS address and the info (and version / index list) are ITS peer's.

import (
	"compress/gzip"
	"context"
	"errors"
	"fmt"
	"net"
	"net/http"
	"os"
	"strings"
	"sync"
	"sync/atomic"
	"time"

	"github.com/v-byte-cpu/sx/pkg/scan"
	"github.com/v-byte-cpu/sx/pkg/scan/docker"
	"github.com/v-byte-cpu/sx/pkg/scan/elastic"
	"verifharness/hlib"
)

type ovPeer struct {
	IP       string `json:"ip"`
	Port     int    `json:"port"`
	Behave   string `json:"behaviour"` // good | good-slow | nonjson | nonjson-slow | notfound | notfound-slow
	Tag      string `json:"tag"`
	SlowMS   int    `json:"slow_ms"`
	Gzip     bool   `json:"gzip"` // honours Accept-Encoding: gzip
	srv      *http.Server
	requests atomic.Int64
}

type gzipResponseWriter struct {
	http.ResponseWriter
	zw *gzip.Writer
}

func (g gzipResponseWriter) Write(b []byte) (int, error) { return g.zw.Write(b) }

type ovBad struct {
	Probe     int    `json:"probe"`
	Target    string `json:"target"`
	Behave    string `json:"target_behaviour"`
	TargetTag string `json:"target_tag"`
	Reported  bool   `json:"reported"`
	Err       string `json:"err"`
	RecHost   string `json:"rec_host"`
	RecInfo   string `json:"rec_info_name"`
	RecSec    string `json:"rec_secondary"`
	Neighbour string `json:"data_belongs_to"` // the peer whose data the record carries, if it is another one
	What      string `json:"what"`
}

type ovRow struct {
	Class      string    `json:"class"`
	Kind       string    `json:"kind"`
	Goroutines int       `json:"goroutines"`
	TimeoutMS  int       `json:"timeout_ms"`
	Peers      []*ovPeer `json:"peers"`
	Probes     int64     `json:"probes"`
	Judged     int64     `json:"judged"`
	Errors     int64     `json:"deadline_errors"`
	Reported   int64     `json:"reported"`
	Bad        []ovBad   `json:"bad"`
	ElapsedMS  float64   `json:"elapsed_ms"`
	Seed       int64     `json:"seed"`
	Decoy      string    `json:"environment,omitempty"`
}

func (p *ovPeer) handler(kind string) http.Handler {
	return http.HandlerFunc(func(w http.ResponseWriter, r *http.Request) {
		p.requests.Add(1)
		first := r.URL.Path == "/" || strings.HasSuffix(r.URL.Path, "/_ping")
		if p.SlowMS > 0 && first {
			time.Sleep(time.Duration(p.SlowMS) * time.Millisecond)
		}
		switch {
		case strings.HasPrefix(p.Behave, "notfound"):
			w.Header().Set("Content-Type", "text/plain; charset=utf-8")
			w.WriteHeader(404)
			fmt.Fprintln(w, "404 page not found")
		case strings.HasPrefix(p.Behave, "nonjson"):
			w.Header().Set("Content-Type", "text/html")
			fmt.Fprintf(w, "<html><body>It works! %s</body></html>", p.Tag)
		case kind == "docker":
			if p.Gzip && strings.Contains(r.Header.Get("Accept-Encoding"), "gzip") && !strings.HasSuffix(r.URL.Path, "/_ping") {
				w.Header().Set("Content-Encoding", "gzip")
				zw := gzip.NewWriter(w)
				defer zw.Close()
				w = gzipResponseWriter{ResponseWriter: w, zw: zw}
			}
			w.Header().Set("API-Version", "1.40")
			w.Header().Set("Content-Type", "application/json")
			switch {
			case strings.HasSuffix(r.URL.Path, "/_ping"):
				w.Header().Set("Content-Type", "text/plain")
				if r.Method != "HEAD" {
					fmt.Fprint(w, "OK")
				}
			case strings.HasSuffix(r.URL.Path, "/info"):
				fmt.Fprintf(w, `{"ID":"ID-%s","Name":%q,"OperatingSystem":"VerifOS","Containers":2}`, p.Tag, p.Tag)
			case strings.HasSuffix(r.URL.Path, "/version"):
				fmt.Fprintf(w, `{"Version":"20.10.7+%s","ApiVersion":"1.40","Os":"linux"}`, p.Tag)
			default:
				w.WriteHeader(404)
				fmt.Fprint(w, `{"message":"page not found"}`)
			}
		default: // elastic
			if p.Gzip && strings.Contains(r.Header.Get("Accept-Encoding"), "gzip") {
				w.Header().Set("Content-Encoding", "gzip")
				zw := gzip.NewWriter(w)
				defer zw.Close()
				w = gzipResponseWriter{ResponseWriter: w, zw: zw}
			}
			w.Header().Set("Content-Type", "application/json")
			switch r.URL.Path {
			case "/":
				fmt.Fprintf(w, `{"name":"node","cluster_name":%q,"version":{"number":"7.10.2"}}`, p.Tag)
			case "/_aliases":
				fmt.Fprintf(w, `{"idx-%s":{"aliases":{}}}`, p.Tag)
			default:
				w.WriteHeader(404)
				fmt.Fprint(w, `{"error":"no such index"}`)
			}
		}
	})
}

var ovMix = []struct {
	behave string
	slow   int
}{
	{"good", 0}, {"notfound", 0}, {"good-slow", 40}, {"nonjson", 0}, {"good", 0}, {"notfound-slow", 60},
	{"nonjson-slow", 30}, {"good", 0}, {"notfound", 0}, {"good-slow", 25}, {"nonjson", 0}, {"good", 0},
}

func isDeadline(err error) bool {
	if err == nil {
		return false
	}
	if errors.Is(err, context.DeadlineExceeded) || errors.Is(err, context.Canceled) {
		return true
	}
	var ne net.Error
	if errors.As(err, &ne) && ne.Timeout() {
		return true
	}
	s := err.Error()
	return strings.Contains(s, "deadline exceeded") || strings.Contains(s, "Cannot connect to the Docker daemon")
}

func overlapStage(kind string, seed int64, goroutines int, maxProbes int64, maxDur time.Duration, timeoutMS int) ovRow {
	r := hlib.NewRand(seed + int64(len(kind)))
	row := ovRow{Class: "overlap:" + kind, Kind: kind, Goroutines: goroutines, TimeoutMS: timeoutMS, Seed: seed}
	var peers []*ovPeer
	byTag := map[string]*ovPeer{}
	for i := 0; i < 2*len(ovMix); i++ {
		m := ovMix[i%len(ovMix)]
		ip := fmt.Sprintf("127.%d.%d.%d", 1+r.Intn(200), r.Intn(250), 1+r.Intn(250))
		l, err := net.Listen("tcp4", net.JoinHostPort(ip, "0"))
		if err != nil {
			continue
		}
		p := &ovPeer{IP: ip, Port: l.Addr().(*net.TCPAddr).Port, Behave: m.behave, SlowMS: m.slow, Gzip: i%2 == 1}
		p.Tag = fmt.Sprintf("peer%d-%d", i, p.Port)
		p.srv = &http.Server{Handler: p.handler(kind)}
		go p.srv.Serve(l)
		peers = append(peers, p)
		byTag[p.Tag] = p
	}
	// The operator's environment must not matter: DOCKER_HOST (exported by remote docker contexts, CI runners, rootless
	// docker) names a DECOY daemon that no probe is aimed at; a probe whose requests end up there is recognisable by
	// the decoy's name in its record.  DOCKER_API_VERSION pins a version no peer announces.
	if kind == "docker" {
		if l, err := net.Listen("tcp4", "127.0.0.1:0"); err == nil {
			d := &ovPeer{IP: "127.0.0.1", Port: l.Addr().(*net.TCPAddr).Port, Behave: "good (DOCKER_HOST decoy, never probed)"}
			d.Tag = fmt.Sprintf("peerDECOY-%d", d.Port)
			d.srv = &http.Server{Handler: d.handler(kind)}
			go d.srv.Serve(l)
			defer d.srv.Close()
			byTag[d.Tag] = d
			row.Decoy = fmt.Sprintf("DOCKER_HOST=tcp://127.0.0.1:%d DOCKER_API_VERSION=1.31", d.Port)
			os.Setenv("DOCKER_HOST", fmt.Sprintf("tcp://127.0.0.1:%d", d.Port))
			os.Setenv("DOCKER_API_VERSION", "1.31")
			defer os.Unsetenv("DOCKER_HOST")
			defer os.Unsetenv("DOCKER_API_VERSION")
		}
	}
	to := time.Duration(timeoutMS) * time.Millisecond
	// exactly what command/{docker,elastic}.go do with --proto http --timeout T
	var s scan.Scanner
	if kind == "docker" {
		s = docker.NewScanner("http", docker.WithDataTimeout(to))
	} else {
		s = elastic.NewScanner("http", elastic.WithDataTimeout(to))
	}
	hostOf := func(p *ovPeer) string {
		if kind == "docker" {
			return fmt.Sprintf("tcp://%s:%d", p.IP, p.Port)
		}
		return fmt.Sprintf("%s:%d", p.IP, p.Port)
	}
	tagIn := func(s string) string {
		if i := strings.Index(s, "peer"); i >= 0 {
			return s[i:]
		}
		return ""
	}
	// the scanners' transports allow ONE connection per host at a time (MaxConnsPerHost: 1), so two probes of the
	// same target would queue behind each other; like a real scan, give every target to one worker at a time
	free := make(chan *ovPeer, len(peers))
	for _, i := range func() []int {
		idx := make([]int, len(peers))
		for i := range idx {
			idx[i] = i
		}
		for i := len(idx) - 1; i > 0; i-- {
			j := r.Intn(i + 1)
			idx[i], idx[j] = idx[j], idx[i]
		}
		return idx
	}() {
		free <- peers[i]
	}
	var next atomic.Int64
	var stop atomic.Bool
	var mu sync.Mutex
	var wg sync.WaitGroup
	start := time.Now()
	deadline := start.Add(maxDur)
	for g := 0; g < goroutines; g++ {
		wg.Add(1)
		go func(g int) {
			defer wg.Done()
			rr := hlib.NewRand(seed*977 + int64(g))
			for !stop.Load() {
				n := next.Add(1)
				if n > maxProbes || time.Now().After(deadline) {
					return
				}
				p := <-free
				if rr.Intn(3) == 0 { // shuffle the rotation a little
					free <- p
					p = <-free
				}
				res, err := s.Scan(context.Background(), &scan.Request{DstIP: net.ParseIP(p.IP), DstPort: uint16(p.Port)})
				free <- p
				atomic.AddInt64(&row.Probes, 1)
				if isDeadline(err) {
					atomic.AddInt64(&row.Errors, 1)
					continue
				}
				atomic.AddInt64(&row.Judged, 1)
				good := strings.HasPrefix(p.Behave, "good")
				b := ovBad{Probe: int(n), Target: hostOf(p), Behave: p.Behave, TargetTag: p.Tag, Reported: res != nil}
				if err != nil {
					b.Err = err.Error()
					if len(b.Err) > 160 {
						b.Err = b.Err[:160]
					}
				}
				if res != nil {
					atomic.AddInt64(&row.Reported, 1)
					switch v := res.(type) {
					case *docker.ScanResult:
						b.RecHost, b.RecInfo, b.RecSec = v.Host, v.Info.Name, v.Version.Version
					case *elastic.ScanResult:
						b.RecHost = v.Host
						b.RecInfo, _ = v.Info["cluster_name"].(string)
						for k := range v.Indexes {
							b.RecSec = k
						}
					}
				}
				switch {
				case res != nil && !good:
					b.What = fmt.Sprintf("reported although its peer (%s) never served JSON info", p.Behave)
				case res == nil && good:
					b.What = "not reported (" + b.Err + ") although its peer served JSON info"
				case res != nil && b.RecHost != hostOf(p):
					b.What = "the record's host is not the probed target"
				case res != nil && b.RecInfo != p.Tag:
					b.What = "the record's info is not what the probed target served"
				case res != nil && b.RecSec != "" && tagIn(b.RecSec) != p.Tag:
					b.What = "the record's version / index list is not what the probed target served"
				}
				if b.What != "" {
					for _, t := range []string{b.RecInfo, tagIn(b.RecSec)} {
						if q, ok := byTag[t]; ok && q != p && b.Neighbour == "" {
							b.Neighbour = fmt.Sprintf("%s (%s)", hostOf(q), q.Behave)
						}
					}
					mu.Lock()
					if len(row.Bad) < 8 {
						row.Bad = append(row.Bad, b)
					}
					if len(row.Bad) >= 4 {
						stop.Store(true)
					}
					mu.Unlock()
				}
			}
		}(g)
	}
	wg.Wait()
	row.ElapsedMS = float64(time.Since(start).Microseconds()) / 1000
	for _, p := range peers {
		p.srv.Close()
	}
	row.Peers = peers
	return row
}
