// Driver for C10: runs the real elastic.Scanner.Scan and docker.Scanner.Scan against scripted
// loopback HTTP / HTTPS peers (raw TCP, hand-written HTTP so that stalls, truncation and endless
// bodies are under control) and records what a caller observes and which requests the peer saw.
package main

import (
	"bufio"
	"bytes"
	"compress/gzip"
	"context"
	"crypto/ecdsa"
	"crypto/elliptic"
	"crypto/rand"
	"crypto/tls"
	"crypto/x509"
	"crypto/x509/pkix"
	"encoding/json"
	"errors"
	"flag"
	"fmt"
	"math/big"
	"net"
	"os"
	"os/exec"
	"strconv"
	"strings"
	"sync"
	"syscall"
	"time"

	sxlog "github.com/v-byte-cpu/sx/command/log"
	"github.com/v-byte-cpu/sx/pkg/scan"
	"github.com/v-byte-cpu/sx/pkg/scan/docker"
	"github.com/v-byte-cpu/sx/pkg/scan/elastic"
	"verifharness/hlib"
)

// resp scripts what the peer does with one request (after having read its head).
type resp struct {
	Kind   string `json:"kind"`   // resp | close | rst | stall
	Delay  int    `json:"delay"`  // ms before acting
	Status int    `json:"status"` // resp
	Body   string `json:"body"`   // resp: body class
	APIVer string `json:"api_version,omitempty"`
	CType  string `json:"ctype,omitempty"`
	Gzip   bool   `json:"gzip,omitempty"` // the peer honours Accept-Encoding: gzip (as real servers do)
}

type rec struct {
	Scan      string `json:"scan"`
	Proto     string `json:"proto"`
	Host      string `json:"host"`
	InfoNil   bool   `json:"info_nil"`  // elastic: Info == nil; docker: Info.ID == ""
	Secondary bool   `json:"secondary"` // elastic: Indexes != nil; docker: Version.Version != ""
	InfoName  string `json:"info_name"` // cluster_name / Name as decoded
}

type tcase struct {
	ID        int             `json:"id"`
	Class     string          `json:"class"`
	Kind      string          `json:"kind"`   // elastic | docker
	Scheme    string          `json:"scheme"` // what the scanner is told
	ServerTLS bool            `json:"server_tls"`
	Timeout   int             `json:"timeout"` // ms
	Cancel    int             `json:"cancel"`  // ms, -1 never
	Mode      string          `json:"mode"`    // accept | refuse | blackhole
	Slots     map[string]resp `json:"slots"`
	IP        string          `json:"ip"`
	Port      int             `json:"port"`
	// observations
	Obs         int      `json:"obs"`
	Err         string   `json:"err"`
	DurMS       float64  `json:"dur_ms"`
	Reqs        []string `json:"reqs"`
	Rec         *rec     `json:"rec"`
	JitterMS    float64  `json:"jitter_ms"`    // largest scheduling overshoot of a 5 ms sleep while the case ran
	CPUSlowdown float64  `json:"cpu_slowdown"` // wall / CPU time of a 2 ms burn: 1.0 when quiet (see jitter.go)
	Tries       int      `json:"tries"`
	// end-to-end: run this sx binary (`sx elastic|docker --proto S -p PORT IP/32 --json -t <timeout>ms`)
	E2E string `json:"e2e,omitempty"`
	// what the plain-text logger printed for the record, and the panic (if any) that printing it raised
	Plain      string `json:"plain,omitempty"`
	PrintPanic string `json:"print_panic,omitempty"`
	PlainCLI   bool   `json:"plain_cli,omitempty"` // e2e without --json (the CLI's default output mode)
	Stderr     string `json:"stderr,omitempty"`
}

// cliResult is what the command line printed, projected like a ScanResult.
type cliResult struct {
	r rec
}

func (c *cliResult) String() string               { return c.r.Host }
func (c *cliResult) ID() string                   { return c.r.Host }
func (c *cliResult) MarshalJSON() ([]byte, error) { return json.Marshal(c.r) }

type cliProbe struct {
	plain             bool
	bin, kind, scheme string
	timeout           int
	stderr            string
}

func (p *cliProbe) Scan(ctx context.Context, r *scan.Request) (scan.Result, error) {
	args := []string{p.kind, "--proto", p.scheme, "-p", strconv.Itoa(int(r.DstPort)),
		r.DstIP.String() + "/32", "-t", fmt.Sprintf("%dms", p.timeout), "--exit-delay", "20ms"}
	if !p.plain {
		args = append(args, "--json")
	}
	cmd := exec.CommandContext(ctx, p.bin, args...)
	var so, se bytes.Buffer
	cmd.Stdout, cmd.Stderr = &so, &se
	err := cmd.Run()
	p.stderr = se.String()
	if len(p.stderr) > 300 {
		p.stderr = p.stderr[len(p.stderr)-300:]
	}
	if err != nil {
		if i := strings.Index(se.String(), "panic:"); i >= 0 { // the process died: say why
			msg := se.String()[i:]
			if j := strings.Index(msg, "\n"); j > 0 {
				msg = msg[:j]
			}
			return nil, fmt.Errorf("sx %s crashed (%v): %s", p.kind, err, msg)
		}
		return nil, err
	}
	line := strings.TrimSpace(so.String())
	if line == "" {
		return nil, errors.New("no record printed")
	}
	if p.plain { // elastic: "<proto>://<host> <cluster_name> <number of indexes>"
		f := strings.Fields(strings.Split(line, "\n")[0])
		res := &cliResult{}
		if len(f) < 2 || !strings.Contains(f[0], "://") {
			return nil, fmt.Errorf("unparsable plain output %q", line)
		}
		res.r.Scan = p.kind
		res.r.Proto, res.r.Host, _ = strings.Cut(f[0], "://")
		res.r.Secondary = f[len(f)-1] != "0"
		if len(f) >= 3 {
			res.r.InfoName = f[1]
		}
		return res, nil
	}
	var m map[string]interface{}
	if err := json.Unmarshal([]byte(strings.Split(line, "\n")[0]), &m); err != nil {
		return nil, fmt.Errorf("unparsable output %q", line)
	}
	res := &cliResult{}
	res.r.Scan, _ = m["scan"].(string)
	res.r.Proto, _ = m["proto"].(string)
	res.r.Host, _ = m["host"].(string)
	info, _ := m["info"].(map[string]interface{})
	if p.kind == "elastic" {
		res.r.InfoNil = info == nil
		res.r.Secondary = m["indexes"] != nil
		res.r.InfoName, _ = info["cluster_name"].(string)
	} else {
		id, _ := info["ID"].(string)
		res.r.InfoNil = id == ""
		res.r.InfoName, _ = info["Name"].(string)
		ver, _ := m["version"].(map[string]interface{})
		v, _ := ver["Version"].(string)
		res.r.Secondary = v != ""
	}
	return res, nil
}

const (
	obsError = 4
	obsHang  = 11
)

// ---------------------------------------------------------------- bodies
func bodyBytes(kind, slot, class string) []byte {
	obj := map[string]string{
		"elastic/info":    `{"name":"node-1","cluster_name":"verif-cluster","version":{"number":"7.10.2"},"tagline":"You Know, for Search"}`,
		"elastic/indexes": `{"idx-a":{"aliases":{}},"idx-b":{"aliases":{"b":{}}}}`,
		"docker/info":     `{"ID":"ABCD:EFGH","Containers":3,"Name":"verif-host","OperatingSystem":"VerifOS","KernelVersion":"6.1","Architecture":"x86_64"}`,
		"docker/version":  `{"Version":"20.10.7","ApiVersion":"1.41","Os":"linux","Arch":"amd64"}`,
		"docker/ping_get": `OK`,
	}[kind+"/"+slot]
	if obj == "" {
		obj = `{"k":"v"}`
	}
	switch class {
	case "object":
		return []byte(obj)
	case "object_trailing":
		return []byte(obj + " trailing garbage }{")
	case "object_ill_typed":
		if kind == "docker" {
			if slot == "version" {
				return []byte(`{"Version":20,"Os":"linux"}`)
			}
			return []byte(`{"ID":5,"Name":"verif-host"}`)
		}
		return []byte(`{"cluster_name":5,"version":"x"}`)
	case "huge_object":
		return []byte(obj[:len(obj)-1] + `,"pad":"` + strings.Repeat("x", 2<<20) + `"}`)
	case "object_version_number": // known fields with another type than a real node serves
		return []byte(`{"version":5,"cluster_name":["a","b"]}`)
	case "object_version_nested":
		return []byte(`{"version":{"number":7},"cluster_name":null}`)
	case "object_unrelated":
		return []byte(`{"ok":true}`)
	case "object_secured":
		return []byte(`{"error":{"root_cause":[{"type":"security_exception","reason":"missing authentication credentials"}],"type":"security_exception"},"status":401}`)
	case "empty_object":
		return []byte("{}")
	case "empty_object_ws":
		return []byte(" { \n } \n")
	case "null":
		return []byte("null")
	case "array":
		return []byte(`[{"k":"v"},2]`)
	case "string":
		return []byte(`"just a string"`)
	case "number":
		return []byte("42")
	case "true":
		return []byte("true")
	case "empty":
		return nil
	case "truncated":
		return []byte(obj[:len(obj)/2])
	case "garbage":
		return []byte("<html><body>It works!</body></html>")
	}
	return []byte(obj)
}

// ---------------------------------------------------------------- peer
type peer struct {
	c    *tcase
	mu   sync.Mutex
	reqs []string
	done chan struct{}
	wg   sync.WaitGroup
	tls  *tls.Config
}

func (p *peer) slotOf(method, path string) string {
	switch {
	case strings.HasSuffix(path, "/_ping"):
		if method == "HEAD" {
			return "ping_head"
		}
		return "ping_get"
	case strings.HasSuffix(path, "/info"):
		return "info"
	case strings.HasSuffix(path, "/version"):
		return "version"
	case path == "/_aliases":
		return "indexes"
	case path == "/":
		return "info"
	}
	return ""
}

func (p *peer) sleep(ms int) bool {
	if ms <= 0 {
		return true
	}
	select {
	case <-time.After(time.Duration(ms) * time.Millisecond):
		return true
	case <-p.done:
		return false
	}
}

func (p *peer) handle(raw net.Conn) {
	defer p.wg.Done()
	tcp := raw.(*net.TCPConn)
	var conn net.Conn = raw
	defer func() { conn.Close() }()
	br := bufio.NewReader(raw)
	if p.c.ServerTLS {
		tc := tls.Server(raw, p.tls)
		raw.SetDeadline(time.Now().Add(2 * time.Second))
		if err := tc.Handshake(); err != nil {
			return
		}
		raw.SetDeadline(time.Time{})
		conn = tc
		br = bufio.NewReader(tc)
	} else {
		raw.SetReadDeadline(time.Now().Add(2 * time.Second))
		b, err := br.Peek(1)
		if err != nil || b[0] == 0x16 { // a TLS ClientHello on a plain-text port: hang up
			return
		}
	}
	// request head
	raw.SetReadDeadline(time.Now().Add(2 * time.Second))
	line, err := br.ReadString('\n')
	if err != nil {
		return
	}
	acceptsGzip := false
	for {
		h, err := br.ReadString('\n')
		if err != nil {
			return
		}
		if h == "\r\n" || h == "\n" {
			break
		}
		if lh := strings.ToLower(h); strings.HasPrefix(lh, "accept-encoding:") && strings.Contains(lh, "gzip") {
			acceptsGzip = true
		}
	}
	raw.SetReadDeadline(time.Time{})
	f := strings.Fields(line)
	if len(f) < 2 {
		return
	}
	method, path := f[0], f[1]
	p.mu.Lock()
	p.reqs = append(p.reqs, method+" "+path)
	p.mu.Unlock()
	slot := p.slotOf(method, path)
	r, ok := p.c.Slots[slot]
	if !ok {
		fmt.Fprintf(conn, "HTTP/1.1 404 Not Found\r\nContent-Length: 0\r\nConnection: close\r\n\r\n")
		return
	}
	if !p.sleep(r.Delay) {
		return
	}
	switch r.Kind {
	case "close":
		return
	case "rst":
		tcp.SetLinger(0)
		raw.Close()
		return
	case "stall":
		<-p.done
		return
	}
	ct := r.CType
	if ct == "" {
		ct = "application/json"
	}
	head := fmt.Sprintf("HTTP/1.1 %d Status\r\nContent-Type: %s\r\nConnection: close\r\n", r.Status, ct)
	if r.APIVer != "" {
		head += "API-Version: " + r.APIVer + "\r\n"
	}
	conn.SetWriteDeadline(time.Now().Add(5 * time.Second))
	if method == "HEAD" {
		fmt.Fprintf(conn, "%sContent-Length: 0\r\n\r\n", head)
		return
	}
	switch r.Body {
	case "endless": // a JSON string inside an object that never ends; throttled to ~10 MB/s
		fmt.Fprintf(conn, "%s\r\n{\"a\":\"", head)
		chunk := []byte(strings.Repeat("x", 32<<10))
		for {
			if _, err := conn.Write(chunk); err != nil {
				return
			}
			if !p.sleep(3) {
				return
			}
		}
	case "stall_mid":
		fmt.Fprintf(conn, "%sContent-Length: 4096\r\n\r\n{\"a\":", head)
		<-p.done
		return
	case "truncated_conn": // announced length never delivered: unexpected EOF
		b := bodyBytes(p.c.Kind, slot, "truncated")
		fmt.Fprintf(conn, "%sContent-Length: %d\r\n\r\n", head, len(b)+500)
		conn.Write(b)
		return
	}
	b := bodyBytes(p.c.Kind, slot, r.Body)
	if r.Gzip && acceptsGzip { // like a real server: the content coding the client asked for
		var zb bytes.Buffer
		zw := gzip.NewWriter(&zb)
		zw.Write(b)
		zw.Close()
		b = zb.Bytes()
		head += "Content-Encoding: gzip\r\nVary: Accept-Encoding\r\n"
	}
	fmt.Fprintf(conn, "%sContent-Length: %d\r\n\r\n", head, len(b))
	conn.Write(b)
	if tc, ok := conn.(*tls.Conn); ok {
		tc.CloseWrite()
	}
	// let the client finish reading before the deferred Close (which could turn into a reset if the
	// client sent more)
	raw.SetReadDeadline(time.Now().Add(200 * time.Millisecond))
	var tmp [64]byte
	conn.Read(tmp[:])
}

func (p *peer) serve(l net.Listener) {
	defer p.wg.Done()
	for {
		conn, err := l.Accept()
		if err != nil {
			return
		}
		p.wg.Add(1)
		go p.handle(conn)
	}
}

// ---------------------------------------------------------------- infrastructure shared with c09
func reservePort(ip net.IP) (int, func(), error) {
	fd, err := syscall.Socket(syscall.AF_INET, syscall.SOCK_STREAM, 0)
	if err != nil {
		return 0, nil, err
	}
	var a [4]byte
	copy(a[:], ip.To4())
	if err := syscall.Bind(fd, &syscall.SockaddrInet4{Port: 0, Addr: a}); err != nil {
		syscall.Close(fd)
		return 0, nil, err
	}
	sa, err := syscall.Getsockname(fd)
	if err != nil {
		syscall.Close(fd)
		return 0, nil, err
	}
	return sa.(*syscall.SockaddrInet4).Port, func() { syscall.Close(fd) }, nil
}

type blackhole struct {
	port  int
	conns []net.Conn
}

func newBlackhole() (*blackhole, error) {
	fd, err := syscall.Socket(syscall.AF_INET, syscall.SOCK_STREAM, 0)
	if err != nil {
		return nil, err
	}
	if err := syscall.Bind(fd, &syscall.SockaddrInet4{Port: 0, Addr: [4]byte{127, 0, 0, 1}}); err != nil {
		return nil, err
	}
	if err := syscall.Listen(fd, 1); err != nil {
		return nil, err
	}
	sa, _ := syscall.Getsockname(fd)
	b := &blackhole{port: sa.(*syscall.SockaddrInet4).Port}
	addr := fmt.Sprintf("127.0.0.1:%d", b.port)
	full := false
	for i := 0; i < 16; i++ {
		c, err := net.DialTimeout("tcp", addr, 250*time.Millisecond)
		if err != nil {
			full = true
			break
		}
		b.conns = append(b.conns, c)
	}
	if !full {
		return nil, errors.New("accept queue never filled")
	}
	return b, nil
}

func selfSigned() (*tls.Config, error) {
	key, err := ecdsa.GenerateKey(elliptic.P256(), rand.Reader)
	if err != nil {
		return nil, err
	}
	tmpl := &x509.Certificate{SerialNumber: big.NewInt(1), Subject: pkix.Name{CommonName: "verif"},
		NotBefore: time.Now().Add(-time.Hour), NotAfter: time.Now().Add(24 * time.Hour),
		KeyUsage: x509.KeyUsageDigitalSignature, ExtKeyUsage: []x509.ExtKeyUsage{x509.ExtKeyUsageServerAuth}}
	der, err := x509.CreateCertificate(rand.Reader, tmpl, tmpl, &key.PublicKey, key)
	if err != nil {
		return nil, err
	}
	return &tls.Config{Certificates: []tls.Certificate{{Certificate: [][]byte{der}, PrivateKey: key}}}, nil
}

var (
	bh      *blackhole
	bhErr   error
	tlsConf *tls.Config
)

func runCase(c *tcase) {
	startJitterMonitor()
	caseStart := time.Now()
	defer func() { c.JitterMS, c.CPUSlowdown = loadBetween(caseStart, time.Now()) }()
	c.Tries++
	c.Reqs, c.Rec, c.Err, c.Plain, c.PrintPanic = nil, nil, "", "", ""
	ip := net.ParseIP(c.IP)
	p := &peer{c: c, done: make(chan struct{}), tls: tlsConf}
	var listener net.Listener
	var release func()
	switch c.Mode {
	case "accept":
		l, err := net.Listen("tcp4", net.JoinHostPort(c.IP, "0"))
		if err != nil {
			c.Obs, c.Err = 98, "harness: "+err.Error()
			return
		}
		c.Port = l.Addr().(*net.TCPAddr).Port
		listener = l
		p.wg.Add(1)
		go p.serve(l)
	case "refuse":
		port, rel, err := reservePort(ip)
		if err != nil {
			c.Obs, c.Err = 98, "harness: "+err.Error()
			return
		}
		c.Port, release = port, rel
	case "blackhole":
		if bh == nil {
			c.Obs, c.Err = 98, "harness: no blackhole: "+fmt.Sprint(bhErr)
			return
		}
		c.IP = "127.0.0.1"
		ip = net.ParseIP(c.IP)
		c.Port = bh.port
	}
	to := time.Duration(c.Timeout) * time.Millisecond
	var s scan.Scanner
	if c.Kind == "elastic" {
		s = elastic.NewScanner(c.Scheme, elastic.WithDataTimeout(to))
	} else {
		s = docker.NewScanner(c.Scheme, docker.WithDataTimeout(to))
	}
	var cli *cliProbe
	if c.E2E != "" {
		cli = &cliProbe{bin: c.E2E, kind: c.Kind, scheme: c.Scheme, timeout: c.Timeout, plain: c.PlainCLI}
		s = cli
	}
	ctx, cancel := context.WithCancel(context.Background())
	defer cancel()
	req := &scan.Request{DstIP: ip, DstPort: uint16(c.Port)}
	type out struct {
		res scan.Result
		err error
		dur time.Duration
	}
	ch := make(chan out, 1)
	if c.Cancel == 0 {
		cancel()
	}
	start := time.Now()
	if c.Cancel > 0 {
		t := time.AfterFunc(time.Duration(c.Cancel)*time.Millisecond, cancel)
		defer t.Stop()
	}
	go func() {
		res, err := s.Scan(ctx, req)
		ch <- out{res, err, time.Since(start)}
	}()
	limit := 2*time.Duration(maxInt(c.Timeout, 0))*time.Millisecond + 2*time.Second
	if c.E2E != "" {
		limit += 3 * time.Second
	}
	var o out
	hang := false
	select {
	case o = <-ch:
	case <-time.After(limit):
		hang = true
		cancel()
		select {
		case o = <-ch:
		case <-time.After(3 * time.Second):
		}
		o.dur = time.Since(start)
	}
	close(p.done)
	if listener != nil {
		listener.Close()
	}
	if release != nil {
		release()
	}
	p.wg.Wait()
	c.DurMS = float64(o.dur.Microseconds()) / 1000
	if cli != nil {
		c.Stderr = cli.stderr
	}
	p.mu.Lock()
	c.Reqs = append([]string{}, p.reqs...)
	p.mu.Unlock()
	switch {
	case hang:
		c.Obs, c.Err = obsHang, "no return within "+limit.String()
	case o.err != nil:
		c.Obs, c.Err = obsError, o.err.Error()
		if o.res != nil {
			c.Obs, c.Err = 97, "result AND error: "+o.err.Error()
		}
	case o.res == nil:
		c.Obs, c.Err = 96, "nil result without error"
	default:
		r := &rec{}
		switch v := o.res.(type) {
		case *elastic.ScanResult:
			r.Scan, r.Proto, r.Host = v.ScanType, v.Proto, v.Host
			r.InfoNil = v.Info == nil
			r.Secondary = v.Indexes != nil
			if n, ok := v.Info["cluster_name"].(string); ok {
				r.InfoName = n
			}
		case *cliResult:
			*r = v.r
		case *docker.ScanResult:
			r.Scan, r.Proto, r.Host = v.ScanType, v.Proto, v.Host
			r.InfoNil = v.Info.ID == ""
			r.Secondary = v.Version.Version != ""
			r.InfoName = v.Info.Name
		default:
			r.Scan = fmt.Sprintf("%T", o.res)
		}
		c.Rec = r
		if _, isCLI := o.res.(*cliResult); !isCLI {
			c.Plain, _, c.PrintPanic = printRecord(o.res, c.Kind)
		}
		c.Obs = 0
		if !r.Secondary {
			c.Obs++
		}
		if r.InfoNil {
			c.Obs += 2
		}
	}
}

// printRecord pushes the record through the loggers the command line uses (command/log, plain = the default output
// mode, and JSON) the way startScanEngine does, and calls its String / ID / MarshalJSON methods.  A panic anywhere in
// there kills the whole scan process in reality (the result-logging goroutine has no recover): it is reported.
func printRecord(res scan.Result, label string) (plain, js, panicked string) {
	run := func(what string, f func()) {
		defer func() {
			if r := recover(); r != nil && panicked == "" {
				panicked = fmt.Sprintf("%s: %v", what, r)
			}
		}()
		f()
	}
	for _, mode := range []string{"plain", "json"} {
		var buf bytes.Buffer
		run("printing the record in "+mode+" output mode (command/log LogResults)", func() {
			opt := sxlog.Plain()
			if mode == "json" {
				opt = sxlog.JSON()
			}
			l, err := sxlog.NewLogger(&buf, label, opt)
			if err != nil {
				panic(err)
			}
			ch := make(chan scan.Result, 1)
			ch <- res
			close(ch)
			l.LogResults(context.Background(), ch)
		})
		if mode == "plain" {
			plain = strings.TrimSpace(buf.String())
		} else {
			js = strings.TrimSpace(buf.String())
		}
	}
	run("String()", func() { _ = res.String() })
	run("ID()", func() { _ = res.ID() })
	run("MarshalJSON()", func() { _, _ = res.MarshalJSON() })
	if len(js) > 300 {
		js = js[:300]
	}
	if len(plain) > 300 {
		plain = plain[:300]
	}
	return
}

func maxInt(a, b int) int {
	if a > b {
		return a
	}
	return b
}

// ---------------------------------------------------------------- generation
type gen struct {
	r     *hlib.SplitMix64
	cases []*tcase
}

func (g *gen) loopIP() string {
	return fmt.Sprintf("127.%d.%d.%d", g.r.Intn(200), g.r.Intn(250), 1+g.r.Intn(250))
}

var bodyClasses = []string{"object", "object_trailing", "object_ill_typed", "huge_object", "null", "array", "string",
	"number", "true", "empty", "truncated", "truncated_conn", "garbage", "endless", "stall_mid"}

func ok(body string) resp { return resp{Kind: "resp", Status: 200, Body: body, APIVer: "1.40"} }

func (g *gen) fault(slot string) resp {
	switch g.r.Intn(8) {
	case 0:
		return resp{Kind: "close", Delay: g.r.Intn(20)}
	case 1:
		return resp{Kind: "rst", Delay: g.r.Intn(20)}
	case 2:
		return resp{Kind: "stall"}
	case 3:
		return resp{Kind: "resp", Status: []int{400, 401, 404, 500, 503}[g.r.Intn(5)], Body: []string{"object", "garbage", "empty"}[g.r.Intn(3)], CType: []string{"application/json", "text/plain"}[g.r.Intn(2)]}
	default:
		return resp{Kind: "resp", Status: 200, Body: bodyClasses[g.r.Intn(len(bodyClasses))], Delay: g.r.Intn(3) * 10, APIVer: "1.39"}
	}
}

func (g *gen) base(kind string) *tcase {
	tls := g.r.Bool()
	scheme := "http"
	if tls {
		scheme = "https"
	}
	c := &tcase{ID: len(g.cases), Kind: kind, Scheme: scheme, ServerTLS: tls, Timeout: 150 + g.r.Intn(80), Cancel: -1,
		Mode: "accept", IP: g.loopIP(), Slots: map[string]resp{}}
	if kind == "elastic" {
		c.Slots["info"], c.Slots["indexes"] = ok("object"), ok("object")
	} else {
		c.Slots["ping_head"], c.Slots["ping_get"] = ok("object"), ok("object")
		c.Slots["info"], c.Slots["version"] = ok("object"), ok("object")
	}
	g.cases = append(g.cases, c)
	return c
}

func slotsOf(kind string) []string {
	if kind == "elastic" {
		return []string{"info", "indexes"}
	}
	return []string{"ping_head", "ping_get", "info", "version"}
}

func (g *gen) generate(n int) {
	for _, kind := range []string{"elastic", "docker"} {
		// every body class at every request of the probe, both schemes, plain 200
		for _, slot := range slotsOf(kind) {
			if slot == "ping_head" {
				continue
			}
			for _, b := range []string{"object", "huge_object"} {
				c := g.base(kind)
				c.Class = kind + ":" + slot + "=" + b + "+gzip"
				r := ok(b)
				r.Gzip = true
				c.Slots[slot] = r
				if kind == "docker" && slot == "ping_get" {
					c.Slots["ping_head"] = resp{Kind: "resp", Status: 404}
				}
			}
			classes := bodyClasses
			if kind == "elastic" {
				// the empty object is an object (for docker it is indistinguishable from null in the decoded struct)
				classes = append(append([]string{}, bodyClasses...), "empty_object", "empty_object_ws",
					"object_version_number", "object_version_nested", "object_unrelated", "object_secured")
			}
			for _, b := range classes {
				for k := 0; k < 2; k++ {
					c := g.base(kind)
					c.Class = kind + ":" + slot + "=" + b
					r := ok(b)
					r.Delay = k * (c.Timeout / 5)
					c.Slots[slot] = r
					if kind == "docker" && slot == "ping_get" { // make the HEAD ping fall through to GET
						c.Slots["ping_head"] = resp{Kind: "resp", Status: 404}
					}
				}
			}
			// transport faults and error statuses at every request
			faults := []resp{}
			if kind == "elastic" {
				faults = append(faults, resp{Kind: "resp", Status: 401, Body: "object_secured"}, resp{Kind: "resp", Status: 401, Body: "empty_object"},
					resp{Kind: "resp", Status: 403, Body: "empty_object_ws", CType: "text/plain"})
			}
			for _, f := range append(faults, []resp{{Kind: "close"}, {Kind: "rst"}, {Kind: "stall"}, {Kind: "close", Delay: 30},
				{Kind: "resp", Status: 404, Body: "object"}, {Kind: "resp", Status: 500, Body: "object"},
				{Kind: "resp", Status: 503, Body: "garbage", CType: "text/html"}, {Kind: "resp", Status: 401, Body: "empty"},
				{Kind: "resp", Status: 201, Body: "object"}, {Kind: "resp", Status: 400, Body: "endless"},
				{Kind: "resp", Status: 200, Body: "object", Delay: 100000}}...) {
				if slot == "ping_get" && f.Body == "endless" {
					// an error status makes the client read up to 1 MiB of the body: duration depends on throughput
					continue
				}
				c := g.base(kind)
				c.Class = fmt.Sprintf("%s:%s:%s/%d", kind, slot, f.Kind, f.Status)
				if strings.HasPrefix(f.Body, "empty_object") || f.Body == "object_secured" {
					c.Class += "/" + f.Body
				}
				if f.Delay == 100000 { // headers arrive after the deadline
					f.Delay = c.Timeout + 60
					c.Class = kind + ":" + slot + ":late"
				}
				c.Slots[slot] = f
				if kind == "docker" && slot == "ping_get" {
					c.Slots["ping_head"] = resp{Kind: "resp", Status: 404}
				}
			}
		}
		if kind == "docker" {
			for _, f := range []resp{{Kind: "close"}, {Kind: "rst"}, {Kind: "stall"}, {Kind: "resp", Status: 200, APIVer: "1.30"},
				{Kind: "resp", Status: 500}, {Kind: "resp", Status: 404}, {Kind: "resp", Status: 400}, {Kind: "resp", Status: 200, APIVer: ""},
				{Kind: "resp", Status: 200, APIVer: "1.99"}, {Kind: "resp", Status: 200, APIVer: "junk"}} {
				c := g.base(kind)
				c.Class = fmt.Sprintf("docker:ping_head:%s/%d", f.Kind, f.Status)
				c.Slots["ping_head"] = f
			}
		}
		// whole-target behaviours
		for k := 0; k < 3; k++ {
			c := g.base(kind)
			c.Class, c.Mode = kind+":refused", "refuse"
			c = g.base(kind)
			c.Class, c.Mode = kind+":never-accepts", "blackhole"
			c = g.base(kind)
			c.Class = kind + ":scheme-mismatch"
			c.ServerTLS = !c.ServerTLS
		}
		// timeouts <= 0
		for _, t := range []int{0, -50} {
			c := g.base(kind)
			c.Class, c.Timeout = kind+":nonpositive-timeout", t
		}
		// cancellation: before, during each request (the peer stalls there), long after
		c := g.base(kind)
		c.Class, c.Cancel = kind+":cancel-before", 0
		for _, slot := range slotsOf(kind) {
			for k := 0; k < 2; k++ {
				c := g.base(kind)
				c.Class = kind + ":cancel-during-" + slot
				c.Timeout = 700
				c.Cancel = 40 + g.r.Intn(60)
				c.Slots[slot] = resp{Kind: "stall"}
				if kind == "docker" && slot == "ping_get" {
					c.Slots["ping_head"] = resp{Kind: "resp", Status: 404}
				}
			}
		}
		c = g.base(kind)
		c.Class, c.Cancel = kind+":cancel-late", 900
		// random combinations
		for i := 0; i < n; i++ {
			c := g.base(kind)
			c.Class = kind + ":random"
			for _, slot := range slotsOf(kind) {
				if g.r.Intn(3) == 0 {
					c.Slots[slot] = g.fault(slot)
				}
			}
		}
	}
}

func main() {
	out := flag.String("out", "cases.jsonl", "output file")
	seed := flag.Int64("seed", 1, "seed")
	n := flag.Int("n", 60, "number of random slot combinations per probe kind")
	par := flag.Int("par", 24, "probes in flight")
	e2e := flag.String("e2e", "", "path of an sx binary: add end-to-end cases through the command line")
	replay := flag.String("replay", "", "JSON file with a list of cases to run again")
	slow := flag.Bool("slow", false, "add cases whose info is served late but inside a configured timeout ABOVE the scanners' built-in defaults (takes ~11 s)")
	slowOnly := flag.Bool("slow-only", false, "only the -slow cases")
	overlap := flag.Int64("overlap", 0, "run ONLY the overlapping-scans stage: at most this many probes per scanner kind")
	overlapMS := flag.Int("overlap-ms", 3000, "overlapping-scans stage: at most this long")
	overlapG := flag.Int("overlap-g", 20, "overlapping-scans stage: goroutines per scanner")
	flag.Parse()

	if *overlap > 0 {
		rows := make([]ovRow, 2)
		var wg sync.WaitGroup
		for i, kind := range []string{"docker", "elastic"} {
			wg.Add(1)
			go func(i int, kind string) {
				defer wg.Done()
				rows[i] = overlapStage(kind, *seed, *overlapG, *overlap, time.Duration(*overlapMS)*time.Millisecond, 2000)
			}(i, kind)
		}
		wg.Wait()
		w := hlib.NewOut(*out)
		for _, r := range rows {
			w.Put(r)
		}
		w.Close()
		return
	}
	bh, bhErr = newBlackhole()
	var err error
	if tlsConf, err = selfSigned(); err != nil {
		fmt.Fprintln(os.Stderr, "tls:", err)
		os.Exit(2)
	}
	g := &gen{r: hlib.NewRand(*seed)}
	if *replay != "" {
		data, err := os.ReadFile(*replay)
		if err != nil {
			fmt.Fprintln(os.Stderr, err)
			os.Exit(2)
		}
		if err := json.Unmarshal(data, &g.cases); err != nil {
			fmt.Fprintln(os.Stderr, err)
			os.Exit(2)
		}
	} else {
		if !*slowOnly {
			g.generate(*n)
		}
		if *slow || *slowOnly {
			// configured timeout above docker's defaultDataTimeout (10 s) / elastic's (5 s) and the CLI default (5 s);
			// the answer comes after those but inside the configured one: must be reported
			for k := 0; k < 2; k++ {
				c := g.base("docker")
				c.Class, c.Timeout = "docker:slow-info-within-timeout", 12500
				r := ok("object")
				r.Delay = 10600
				c.Slots["info"] = r
				c = g.base("docker")
				c.Class, c.Timeout = "docker:slow-ping-within-timeout", 12500
				r = ok("object")
				r.Delay = 10400
				c.Slots["ping_head"] = r
				c = g.base("elastic")
				c.Class, c.Timeout = "elastic:slow-info-within-timeout", 7500
				r = ok("object")
				r.Delay = 5600
				c.Slots["info"] = r
				c = g.base("elastic")
				c.Class, c.Timeout = "elastic:slow-info-within-timeout", 12500
				r = ok("object")
				r.Delay = 10600
				c.Slots["info"] = r
			}
		}
		if *e2e != "" {
			for _, kind := range []string{"elastic", "docker"} {
				sec := "indexes"
				if kind == "docker" {
					sec = "version"
				}
				for k := 0; k < 2; k++ {
					mk := func(class string, f func(c *tcase)) {
						c := g.base(kind)
						c.Class, c.E2E, c.Timeout = "e2e:"+kind+":"+class, *e2e, 300
						f(c)
					}
					mk("object", func(c *tcase) {})
					if kind == "elastic" && k == 0 {
						// the CLI's DEFAULT output mode (no --json): the record goes through ScanResult.String()
						for _, b := range []string{"object", "object_ill_typed", "object_version_number", "object_version_nested",
							"object_unrelated", "empty_object"} {
							b := b
							mk("plain:"+b, func(c *tcase) { c.PlainCLI = true; c.Slots["info"] = ok(b) })
						}
						mk("plain:401-secured", func(c *tcase) {
							c.PlainCLI = true
							c.Slots["info"] = resp{Kind: "resp", Status: 401, Body: "object_secured"}
						})
					}
					mk("null", func(c *tcase) { c.Slots["info"] = ok("null") })
					mk("array", func(c *tcase) { c.Slots["info"] = ok("array") })
					mk("garbage", func(c *tcase) { c.Slots["info"] = ok("garbage") })
					mk("info-404-object", func(c *tcase) { c.Slots["info"] = resp{Kind: "resp", Status: 404, Body: "object"} })
					mk("secondary-fails", func(c *tcase) { c.Slots[sec] = resp{Kind: "close"} })
					mk("secondary-stalls", func(c *tcase) { c.Slots[sec] = resp{Kind: "stall"} })
					mk("info-stalls", func(c *tcase) { c.Slots["info"] = resp{Kind: "stall"} })
					mk("info-endless", func(c *tcase) { c.Slots["info"] = ok("endless") })
					mk("never-accepts", func(c *tcase) { c.Mode = "blackhole" })
					mk("scheme-mismatch", func(c *tcase) { c.ServerTLS = !c.ServerTLS })
				}
			}
		}
		// warm-up (thread creation, TLS session machinery)
		var ww sync.WaitGroup
		for i := 0; i < *par; i++ {
			ww.Add(1)
			go func(i int) {
				defer ww.Done()
				kind := []string{"elastic", "docker"}[i%2]
				w := (&gen{r: hlib.NewRand(int64(i))}).base(kind)
				w.Timeout = 500
				runCase(w)
			}(i)
		}
		ww.Wait()
	}
	jobs := make(chan *tcase)
	var wg sync.WaitGroup
	for i := 0; i < *par; i++ {
		wg.Add(1)
		go func() {
			defer wg.Done()
			for c := range jobs {
				runCase(c)
			}
		}()
	}
	for _, c := range g.cases {
		jobs <- c
	}
	close(jobs)
	wg.Wait()
	w := hlib.NewOut(*out)
	defer w.Close()
	for _, c := range g.cases {
		w.Put(c)
	}
}
