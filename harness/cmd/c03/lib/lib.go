package lib

import (
	"net"

	"github.com/google/gopacket/layers"
	"github.com/v-byte-cpu/sx/pkg/packet"
	"github.com/v-byte-cpu/sx/pkg/scan"
	"github.com/v-byte-cpu/sx/pkg/scan/arp"
	"github.com/v-byte-cpu/sx/pkg/scan/icmp"
	"github.com/v-byte-cpu/sx/pkg/scan/tcp"
	"github.com/v-byte-cpu/sx/pkg/scan/udp"
)

// wiring of one command as translated by tools/gen/wiring.go (Gen/Wiring.v), evaluated by the check
type Wiring struct {
	Cmd       string `json:"cmd"`
	Method    string `json:"method"` // tcp | udp | icmp | arp
	PF        string `json:"pf"`     // tcp: 512 chars '0'/'1', result filter on 256*NS + byte 13
	AllFlags  bool   `json:"allflags"`
	Filter    int    `json:"filter"` // 0 tcp.BPFFilter 1 tcp.SYNACKBPFFilter 2 icmp.BPFFilter 3 arp.BPFFilter
	Chunked   bool   `json:"chunked"`
	VPNSource bool   `json:"vpn_source"`
	VPNMethod bool   `json:"vpn_method"`
}

func BuildRange(subnet string, ports [][2]int) *scan.Range {
	r := &scan.Range{}
	if subnet != "" {
		_, n, err := net.ParseCIDR(subnet)
		if err != nil {
			panic(err)
		}
		r.DstSubnet = n
	}
	for _, p := range ports {
		r.Ports = append(r.Ports, &scan.PortRange{StartPort: uint16(p[0]), EndPort: uint16(p[1])})
	}
	return r
}

func FilterText(which int, r *scan.Range) (string, int) {
	switch which {
	case 0:
		return tcp.BPFFilter(r)
	case 1:
		return tcp.SYNACKBPFFilter(r)
	case 2:
		return icmp.BPFFilter(r)
	}
	return arp.BPFFilter(r)
}

// Processor is what every scan method offers to the receive path.
type Processor interface {
	packet.Processor
	scan.Resulter
}

func NewProcessor(w Wiring, raw bool, rc scan.ResultChan) Processor {
	switch w.Method {
	case "tcp":
		table := w.PF
		pf := func(pkt *layers.TCP) bool {
			k := 0
			for i, b := range []bool{pkt.FIN, pkt.SYN, pkt.RST, pkt.PSH, pkt.ACK, pkt.URG, pkt.ECE, pkt.CWR, pkt.NS} {
				if b {
					k |= 1 << uint(i)
				}
			}
			return table[k] == '1'
		}
		fl := tcp.EmptyFlags
		if w.AllFlags {
			fl = tcp.AllFlags
		}
		return tcp.NewScanMethod("tcp", nil, rc, tcp.WithScanVPNmode(raw), tcp.WithPacketFilterFunc(pf), tcp.WithPacketFlagsFunc(fl))
	case "udp":
		return udp.NewScanMethod(nil, rc, raw)
	case "icmp":
		return icmp.NewScanMethod(nil, rc, raw)
	}
	return arp.NewScanMethod(nil, rc)
}
