// Package lib holds what the C03 drivers (VM driver cmd/c03, end-to-end driver cmd/c03e2e) share: the wiring
// record, the real filter builders and processors, and the frame generator.
package lib

import (
	"encoding/binary"
	"fmt"
	"net"

	"verifharness/cmd/c06/fr"
	"verifharness/hlib"
)

// gen draws a scan range and then frames RELATIVE to it: valid replies of the wiring's scan and
// mutants that differ from a valid reply in one respect.
type Gen struct {
	g   fr.Gen
	w   Wiring
	raw bool // link type of the frames: raw IPv4 (VPN mode) or Ethernet

	bigPayload bool
	// when set, frames are addressed to this IP / MAC instead of random ones
	FixDstIP  *[4]byte
	FixDstMAC []byte
	hasNet    bool
	net       uint32
	bits      int
	ports     [][2]int
}

func NewGen(r *hlib.SplitMix64, w Wiring, raw bool) *Gen {
	return &Gen{g: fr.Gen{R: r}, w: w, raw: raw}
}

func (c *Gen) RandomRange(i int) (string, [][2]int) {
	r := c.g.R
	subnet := ""
	if r.Intn(4) != 0 {
		c.hasNet = true
		c.bits = fr.Pick(c.g, 8, 16, 24, 24, 27, 30, 31, 32, 32, 1+r.Intn(32))
		a := uint32(r.Uint64())
		if c.bits < 32 {
			a &^= (1 << uint(32-c.bits)) - 1
		}
		c.net = a
		subnet = fmt.Sprintf("%d.%d.%d.%d/%d", a>>24, a>>16&255, a>>8&255, a&255, c.bits)
	}
	if c.w.Filter <= 1 || c.w.Method == "udp" {
		k := fr.Pick(c.g, 0, 1, 1, 2, 3, 5)
		if i%97 == 96 {
			k = 200 // a full chunk
		}
		for j := 0; j < k; j++ {
			a := r.Intn(65536)
			b := a
			switch r.Intn(3) {
			case 0:
				b = a + r.Intn(65536-a)
			case 1:
				b = a + r.Intn(20)
				if b > 65535 {
					b = 65535
				}
			}
			c.ports = append(c.ports, [2]int{a, b})
		}
	}
	return subnet, c.ports
}

func (c *Gen) l2(etype uint16, l3 []byte) []byte {
	if c.raw {
		return fr.Exact(l3)
	}
	return fr.Cat(fr.Eth(c.dstMAC(), c.g.MAC(), etype), l3)
}

// srcIn / srcOut: an address inside the subnet (or anything when there is none) / just outside it
func (c *Gen) srcIn() (a [4]byte) {
	v := uint32(c.g.R.Uint64())
	if c.hasNet {
		if c.bits == 32 {
			v = c.net
		} else {
			v = c.net | v&((1<<uint(32-c.bits))-1)
		}
	}
	binary.BigEndian.PutUint32(a[:], v)
	return
}

func (c *Gen) srcOut() (a [4]byte) {
	v := uint32(c.g.R.Uint64())
	if c.hasNet {
		// flip one network bit (the lowest one: the neighbouring network; or a random one)
		k := 32 - c.bits
		if c.g.R.Bool() && c.bits > 1 {
			k = 32 - 1 - c.g.R.Intn(c.bits)
		}
		in := c.srcIn()
		v = binary.BigEndian.Uint32(in[:]) ^ (1 << uint(k))
	}
	binary.BigEndian.PutUint32(a[:], v)
	return
}

func (c *Gen) portIn() uint16 {
	if len(c.ports) == 0 {
		return c.g.U16()
	}
	p := c.ports[c.g.R.Intn(len(c.ports))]
	switch c.g.R.Intn(3) {
	case 0:
		return uint16(p[0])
	case 1:
		return uint16(p[1])
	}
	return uint16(p[0] + c.g.R.Intn(p[1]-p[0]+1))
}

func (c *Gen) portOut() uint16 {
	if len(c.ports) == 0 {
		return c.g.U16()
	}
	for try := 0; try < 50; try++ {
		p := c.ports[c.g.R.Intn(len(c.ports))]
		v := p[0] - 1
		if c.g.R.Bool() {
			v = p[1] + 1
		}
		if try > 20 {
			v = c.g.R.Intn(65536)
		}
		ok := v >= 0 && v <= 65535
		for _, q := range c.ports {
			if v >= q[0] && v <= q[1] {
				ok = false
			}
		}
		if ok {
			return uint16(v)
		}
	}
	return c.g.U16()
}

// ipOptBlock / tcpOptBlock: well-formed option blocks of exactly n bytes (n a multiple of 4, at most 40)
func (c *Gen) ipOptBlock(n int) []byte {
	if n == 0 {
		return nil
	}
	b := make([]byte, n)
	if c.g.R.Bool() {
		for i := range b {
			b[i] = 1 // NOPs
		}
		return b
	}
	b[0], b[1], b[2] = 7, byte(n-1), 4 // record route filling the block, then end of list
	return b
}

func (c *Gen) tcpOptBlock(n int) []byte {
	if n == 0 {
		return nil
	}
	b := make([]byte, n)
	switch c.g.R.Intn(3) {
	case 0:
		for i := range b {
			b[i] = 1
		}
	case 1:
		b[0], b[1] = 254, byte(n-1) // one long experimental option, then end of list
	default:
		copy(b, []byte{2, 4, 5, 0xb4})
		for i := 4; i < n; i++ {
			b[i] = 1
		}
	}
	return b
}

type tcpSpec struct {
	src     [4]byte
	sport   uint16
	flags   uint16
	ipOpts  []byte
	tcpOpts []byte
	payload []byte
	ff      uint16
	version int
	proto   uint8
	pad     int
}

func (c *Gen) goodTCP() tcpSpec {
	fl := uint16(0x12)
	if c.w.Filter != 1 {
		fl = fr.Pick[uint16](c.g, 0x12, 0x14, 0x04, 0x10, 0x11, 0x00, 0x29, 0x112, 0x1ff, uint16(c.g.R.Intn(512)))
	}
	return tcpSpec{src: c.srcIn(), sport: c.portIn(), flags: fl, ff: fr.Pick[uint16](c.g, 0, 0x4000, 0x4000), proto: 6}
}

func (c *Gen) buildTCP(s tcpSpec) []byte {
	seg := fr.TCP(fr.TCPOpt{Sport: s.sport, Dport: c.g.U16(), Seq: uint32(c.g.R.Uint64()), Ack: uint32(c.g.R.Uint64()),
		Flags: s.flags, Window: c.g.U16(), Csum: c.g.U16(), Urg: c.g.U16(), Options: s.tcpOpts}, s.payload)
	ip := fr.IP(fr.IPOpt{Version: s.version, TotalLen: -1, TOS: c.g.U8(), ID: c.g.U16(), FlagsFrag: s.ff, TTL: c.g.U8(), Proto: s.proto,
		Src: s.src, Dst: c.dstIP(), Options: s.ipOpts}, seg)
	f := c.l2(0x0800, ip)
	if s.pad > 0 && !c.raw {
		f = fr.Pad(f, len(f)+s.pad)
	}
	return f
}

func (c *Gen) buildICMP(src [4]byte, typ, code uint8, ipOpts []byte, ff uint16, proto uint8) []byte {
	pl := c.g.R.Intn(20)
	if c.bigPayload {
		pl = 1500 - 20 - len(ipOpts) - 8 - c.g.R.Intn(300)
	}
	msg := fr.ICMP(typ, code, c.g.U16(), c.g.U16(), c.g.R.Bytes(pl))
	return c.l2(0x0800, fr.IP(fr.IPOpt{TotalLen: -1, TOS: c.g.U8(), ID: c.g.U16(), FlagsFrag: ff, TTL: c.g.U8(), Proto: proto,
		Src: src, Dst: c.dstIP(), Options: ipOpts}, msg))
}

func (c *Gen) buildARP(spa [4]byte, hl, pl uint8, pad bool) []byte {
	sha := c.g.R.Bytes(int(hl))
	if hl == 6 {
		sha = c.g.SenderMAC()
	}
	addrs := fr.Cat(sha, spa[:], c.g.R.Bytes(int(hl)), c.g.R.Bytes(int(pl)))
	if pl != 4 {
		addrs = c.g.R.Bytes(2*int(hl) + 2*int(pl))
	}
	f := fr.Cat(fr.Eth(c.dstMAC(), c.g.MAC(), 0x0806), fr.ARP(fr.ARPOpt{HType: 1, PType: 0x0800, HLen: hl, PLen: pl,
		Op: fr.Pick[uint16](c.g, 1, 2, 2), Addrs: addrs}))
	if pad {
		f = fr.Pad(f, 60)
	}
	return f
}

func (c *Gen) ipv6(nh uint8, inner []byte, frag bool) []byte {
	h := make([]byte, 40)
	h[0] = 0x60
	h[7] = 64
	copy(h[8:24], c.g.R.Bytes(16))
	copy(h[24:40], c.g.R.Bytes(16))
	body := inner
	h[6] = nh
	if frag {
		h[6] = 44
		body = fr.Cat([]byte{nh, 0, 0, 0, 1, 2, 3, 4}, inner)
	}
	binary.BigEndian.PutUint16(h[4:], uint16(len(body)))
	return c.l2(0x86dd, fr.Cat(h, body))
}

// one frame of the TCP scans
func (c *Gen) tcpFrame() ([]byte, string) {
	s := c.goodTCP()
	switch c.g.R.Intn(28) {
	case 24, 25: // header sizes swept over everything a well-formed reply can carry
		s.ipOpts, s.tcpOpts = c.ipOptBlock(4*c.g.R.Intn(11)), c.tcpOptBlock(4*c.g.R.Intn(11))
		return c.buildTCP(s), "valid+header-sweep"
	case 26: // the largest headers
		s.ipOpts, s.tcpOpts = c.ipOptBlock(40), c.tcpOptBlock(40)
		s.payload = c.g.R.Bytes(c.g.R.Intn(40))
		return c.buildTCP(s), "valid+max-headers"
	case 27: // payload up to the MTU
		s.ipOpts, s.tcpOpts = c.ipOptBlock(4*c.g.R.Intn(3)), c.tcpOptBlock(4*c.g.R.Intn(4))
		s.payload = c.g.R.Bytes(1500 - 20 - len(s.ipOpts) - 20 - len(s.tcpOpts) - c.g.R.Intn(200))
		return c.buildTCP(s), "valid+mtu-payload"
	case 0, 1, 2, 3:
		return c.buildTCP(s), "valid"
	case 4:
		s.ipOpts = fr.Pick(c.g, []byte{1, 1, 1, 0}, []byte{7, 3, 4, 0}, []byte{0x94, 4, 0, 0, 1, 1, 1, 1})
		return c.buildTCP(s), "valid+ipopts"
	case 5:
		s.tcpOpts = fr.Pick(c.g, []byte{2, 4, 5, 0xb4}, []byte{2, 4, 5, 0xb4, 4, 2, 1, 3, 3, 7, 0, 0}, []byte{1, 1, 8, 10, 0, 0, 0, 1, 0, 0, 0, 2})
		return c.buildTCP(s), "valid+tcpopts"
	case 6:
		s.payload = c.g.R.Bytes(1 + c.g.R.Intn(30))
		return c.buildTCP(s), "valid+payload"
	case 7:
		s.pad = 1 + c.g.R.Intn(8)
		return c.buildTCP(s), "valid+padding"
	case 8:
		s.src = c.srcOut()
		return c.buildTCP(s), "src-outside"
	case 9:
		s.sport = c.portOut()
		return c.buildTCP(s), "port-outside"
	case 10:
		s.flags = fr.Pick[uint16](c.g, 0x112, 0x02, 0x10, 0x13, 0x16, 0x1a, 0x32, 0x52, 0x92, 0x14, 0x00, 0x1ff, uint16(c.g.R.Intn(512)))
		return c.buildTCP(s), "flags"
	case 11:
		s.flags ^= 1 << uint(c.g.R.Intn(9))
		return c.buildTCP(s), "flags-one-bit"
	case 12:
		s.ff = fr.Pick[uint16](c.g, 0x2000, 0x2001, 0x0001, 0x00b9, 0x1fff, 0x6000)
		return c.buildTCP(s), "fragment"
	case 13:
		s.proto = fr.Pick[uint8](c.g, 17, 132, 1, 4, 47, 255)
		return c.buildTCP(s), "other-proto"
	case 14:
		return c.ipv6(fr.Pick[uint8](c.g, 6, 6, 17, 58), fr.TCP(fr.TCPOpt{Sport: s.sport, Flags: s.flags}, nil), c.g.R.Intn(3) == 0), "ipv6"
	case 15: // IP-in-IP: outer source inside, inner complete
		inner := fr.IP(fr.IPOpt{TotalLen: -1, Proto: 6, Src: c.srcIn(), Dst: c.dstIP()}, fr.TCP(fr.TCPOpt{Sport: s.sport, Flags: s.flags}, nil))
		return c.l2(0x0800, fr.IP(fr.IPOpt{TotalLen: -1, Proto: fr.Pick[uint8](c.g, 4, 94), Src: c.srcIn(), Dst: c.dstIP()}, inner)), "ip-in-ip"
	case 16: // VLAN
		if c.raw {
			return c.buildTCP(s), "valid"
		}
		in := c.buildTCP(s)
		return fr.Cat(in[:12], []byte{0x81, 0x00, 0, 5}, in[12:]), "vlan"
	case 17:
		f := c.buildTCP(s)
		return fr.Exact(f[:c.g.R.Intn(len(f)+1)]), "truncated"
	case 18:
		return c.buildICMP(c.srcIn(), 3, 3, nil, 0, 1), "icmp"
	case 19:
		if c.raw {
			return c.buildTCP(s), "valid"
		}
		return c.buildARP(c.srcIn(), 6, 4, true), "arp"
	case 20:
		s.version = fr.Pick(c.g, 5, 6, 15)
		return c.buildTCP(s), "ip-version"
	case 21:
		s.src, s.sport = c.srcOut(), c.portOut()
		return c.buildTCP(s), "src+port-outside"
	case 22:
		s.tcpOpts = fr.Pick(c.g, []byte{2, 0, 0, 0}, []byte{2, 1, 0, 0}, []byte{5, 255, 1, 1})
		return c.buildTCP(s), "bad-tcpopts"
	}
	s.ipOpts = fr.Pick(c.g, []byte{7, 1, 0, 0}, []byte{7, 2, 0, 0}, []byte{68, 40, 0, 0})
	return c.buildTCP(s), "bad-ipopts"
}

func (c *Gen) icmpFrame() ([]byte, string) {
	typ := fr.Pick[uint8](c.g, 0, 3, 3, 11, 13, 14, 5, 12, c.g.U8())
	code := c.g.U8()
	switch c.g.R.Intn(19) {
	case 16, 17:
		return c.buildICMP(c.srcIn(), typ, code, c.ipOptBlock(4*c.g.R.Intn(11)), 0, 1), "valid+header-sweep"
	case 18:
		c.bigPayload = true
		f := c.buildICMP(c.srcIn(), typ, code, c.ipOptBlock(4*c.g.R.Intn(11)), 0, 1)
		c.bigPayload = false
		return f, "valid+mtu-payload"
	case 0, 1, 2, 3:
		return c.buildICMP(c.srcIn(), typ, code, nil, fr.Pick[uint16](c.g, 0, 0x4000), 1), "valid"
	case 4:
		return c.buildICMP(c.srcIn(), typ, code, []byte{1, 1, 1, 0}, 0, 1), "valid+ipopts"
	case 5:
		return c.buildICMP(c.srcIn(), 8, code, nil, 0, 1), "echo-request"
	case 6:
		return c.buildICMP(c.srcOut(), typ, code, nil, 0, 1), "src-outside"
	case 7:
		return c.buildICMP(c.srcIn(), typ, code, nil, fr.Pick[uint16](c.g, 0x2000, 0x0001, 0x1fff, 0x2010), 1), "fragment"
	case 8:
		return c.buildICMP(c.srcIn(), typ, code, nil, 0, fr.Pick[uint8](c.g, 6, 17, 58, 2)), "other-proto"
	case 9:
		return c.ipv6(58, fr.ICMP(129, 0, 1, 1, nil), false), "ipv6"
	case 10:
		inner := fr.IP(fr.IPOpt{TotalLen: -1, Proto: 1, Src: c.srcIn(), Dst: c.dstIP()}, fr.ICMP(typ, code, 1, 1, nil))
		return c.l2(0x0800, fr.IP(fr.IPOpt{TotalLen: -1, Proto: 4, Src: c.srcIn(), Dst: c.dstIP()}, inner)), "ip-in-ip"
	case 11:
		f := c.buildICMP(c.srcIn(), typ, code, nil, 0, 1)
		return fr.Exact(f[:c.g.R.Intn(len(f)+1)]), "truncated"
	case 12:
		s := c.goodTCP()
		return c.buildTCP(s), "tcp"
	case 13:
		if c.raw {
			return c.buildICMP(c.srcIn(), typ, code, nil, 0, 1), "valid"
		}
		in := c.buildICMP(c.srcIn(), typ, code, nil, 0, 1)
		return fr.Cat(in[:12], []byte{0x81, 0x00, 0, 5}, in[12:]), "vlan"
	case 14:
		return c.buildICMP(c.srcIn(), typ, code, []byte{7, 2, 0, 0}, 0, 1), "bad-ipopts"
	}
	return c.buildICMP(c.srcIn(), fr.Pick[uint8](c.g, 8, 9, 7, 0), code, nil, 0, 1), "type-near-8"
}

func (c *Gen) arpFrame() ([]byte, string) {
	switch c.g.R.Intn(11) {
	case 10: // trailer longer than the minimum frame
		return fr.Pad(c.buildARP(c.srcIn(), 6, 4, true), 61+c.g.R.Intn(200)), "valid+long-trailer"
	case 0, 1, 2:
		return c.buildARP(c.srcIn(), 6, 4, c.g.R.Bool()), "valid"
	case 3, 4:
		return c.buildARP(c.srcOut(), 6, 4, c.g.R.Bool()), "src-outside"
	case 5:
		return c.buildARP(c.srcIn(), fr.Pick[uint8](c.g, 0, 3, 8, 16), fr.Pick[uint8](c.g, 4, 4, 0, 16), true), "arp-sizes"
	case 6:
		f := c.buildARP(c.srcIn(), 6, 4, false)
		return fr.Exact(f[:c.g.R.Intn(len(f)+1)]), "truncated"
	case 7:
		s := c.goodTCP()
		return c.buildTCP(s), "tcp"
	case 8:
		in := c.buildARP(c.srcIn(), 6, 4, false)
		return fr.Cat(in[:12], []byte{0x81, 0x00, 0, 5}, in[12:]), "vlan"
	}
	f := c.buildARP(c.srcIn(), 6, 4, true)
	binary.BigEndian.PutUint16(f[12:], fr.Pick[uint16](c.g, 0x8035, 0x0800, 0x0805, 0x0807))
	return f, "other-ethertype"
}

func (c *Gen) Frames(n int) ([][]byte, []string) {
	var fs [][]byte
	var cl []string
	for i := 0; i < n; i++ {
		var f []byte
		var k string
		switch {
		case c.w.Filter <= 1:
			f, k = c.tcpFrame()
		case c.w.Filter == 2:
			f, k = c.icmpFrame()
		default:
			f, k = c.arpFrame()
		}
		fs = append(fs, f)
		cl = append(cl, k)
	}
	if c.w.Filter == 3 && n >= 3 {
		// two stations answering for ONE address (address conflict, gratuitous ARP + reply, proxy ARP): each of
		// the frames is a reply of its own, with its own sender MAC
		spa := c.srcIn()
		fs[0], cl[0] = c.buildARP(spa, 6, 4, true), "valid"
		fs[1], cl[1] = c.buildARP(spa, 6, 4, c.g.R.Bool()), "valid+same-ip-other-mac"
		fs[n-1], cl[n-1] = c.buildARP(spa, 6, 4, true), "valid+same-ip-other-mac"
	}
	return fs, cl
}

func (c *Gen) dstIP() [4]byte {
	if c.FixDstIP != nil {
		return *c.FixDstIP
	}
	return c.g.IP4()
}

func (c *Gen) dstMAC() []byte {
	if c.FixDstMAC != nil {
		return c.FixDstMAC
	}
	return c.g.MAC()
}

// E2ERange draws a range for the end-to-end driver: no subnet or a /8../24 one, at most three port ranges.
func (c *Gen) E2ERange() (string, [][2]int) {
	r := c.g.R
	subnet := ""
	if r.Intn(4) != 0 {
		c.hasNet = true
		c.bits = fr.Pick(c.g, 8, 16, 24, 24, 20)
		c.net = uint32(r.Uint64()) &^ ((1 << uint(32-c.bits)) - 1)
		if c.net>>24 == 0 || c.net>>24 >= 224 || c.net>>24 == 127 {
			c.net = 10<<24 | c.net&0x00ffffff
		}
		subnet = fmt.Sprintf("%d.%d.%d.%d/%d", c.net>>24, c.net>>16&255, c.net>>8&255, c.net&255, c.bits)
	}
	if c.w.Filter <= 1 || c.w.Method == "udp" {
		for j := r.Intn(4); j > 0; j-- {
			a := 1 + r.Intn(65000)
			c.ports = append(c.ports, [2]int{a, a + r.Intn(30)})
		}
	}
	return subnet, c.ports
}

// Sentinel builds a plain reply-shaped frame of the wiring's scan from host number k (250, 251) of the
// subnet (or of 198.18.0.0/24 when there is none); its record is recognised by that source address.
func (c *Gen) Sentinel(k byte) ([]byte, string) {
	base := uint32(198<<24 | 18<<16)
	if c.hasNet {
		base = c.net
	}
	v := base&^0xff | uint32(k)
	if c.hasNet && c.bits > 24 {
		// small subnet: its last two hosts
		size := uint32(1) << uint(32-c.bits)
		v = base | (size - 2 + uint32(k-250))
	}
	src := [4]byte{byte(v >> 24), byte(v >> 16), byte(v >> 8), byte(v)}
	ip := fmt.Sprintf("%d.%d.%d.%d", src[0], src[1], src[2], src[3])
	switch {
	case c.w.Filter <= 1:
		return c.buildTCP(tcpSpec{src: src, sport: c.portIn(), flags: 0x12, proto: 6, ff: 0x4000}), ip
	case c.w.Filter == 2:
		return c.buildICMP(src, 0, 0, nil, 0, 1), ip
	}
	return c.buildARP(src, 6, 4, true), ip
}

// EdgePortFrames builds plain replies of a TCP scan (source inside the subnet, the scan's own flags) whose SOURCE PORT
// sits at the ends of the port space (0, 1, 2, 65534, 65535) and at/next to every edge of the scanned ranges
// (start-1, start, start+1, end-1, end, end+1). At most max frames; 0, 1, 65535 are always among them. The class
// names the port's place ("sport-0", "sport-1", "sport-65535", "sport-edge") and whether it is a scanned port.
func (c *Gen) EdgePortFrames(max int) ([][]byte, []string) {
	var vs []int
	seen := map[int]bool{}
	add := func(v int) {
		if v >= 0 && v <= 65535 && !seen[v] {
			seen[v] = true
			vs = append(vs, v)
		}
	}
	for _, v := range []int{0, 1, 65535} {
		add(v)
	}
	var rest []int
	for _, p := range c.ports {
		rest = append(rest, p[0]-1, p[0], p[0]+1, p[1]-1, p[1], p[1]+1)
	}
	rest = append(rest, 2, 65534)
	// random order, so that a cap keeps a different part of a long list in every run
	for i := len(rest) - 1; i > 0; i-- {
		j := c.g.R.Intn(i + 1)
		rest[i], rest[j] = rest[j], rest[i]
	}
	for _, v := range rest {
		if len(vs) < max {
			add(v)
		}
	}
	var fs [][]byte
	var cl []string
	for _, v := range vs {
		s := c.goodTCP()
		s.sport = uint16(v)
		switch c.g.R.Intn(4) {
		case 0:
			s.tcpOpts = []byte{2, 4, 5, 0xb4}
		case 1:
			s.payload = c.g.R.Bytes(c.g.R.Intn(12))
		}
		name := "sport-edge"
		switch v {
		case 0, 1, 65535:
			name = fmt.Sprintf("sport-%d", v)
		}
		in := len(c.ports) == 0
		for _, p := range c.ports {
			if v >= p[0] && v <= p[1] {
				in = true
			}
		}
		if in {
			name += "-scanned"
		} else {
			name += "-not-scanned"
		}
		fs = append(fs, c.buildTCP(s))
		cl = append(cl, name)
	}
	return fs, cl
}

// SetRange makes the generator work relative to an explicit range (replays).
func (c *Gen) SetRange(subnet string, ports [][2]int) {
	c.ports = ports
	if subnet == "" {
		return
	}
	_, n, err := net.ParseCIDR(subnet)
	if err != nil {
		panic(err)
	}
	ip4 := n.IP.To4()
	c.hasNet = true
	c.net = uint32(ip4[0])<<24 | uint32(ip4[1])<<16 | uint32(ip4[2])<<8 | uint32(ip4[3])
	c.bits, _ = n.Mask.Size()
}
