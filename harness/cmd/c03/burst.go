package main

// Burst stage: more reply frames than the result channel of a scan method can buffer (the commands use
// scan.NewResultChan(ctx, 1000): two buffers of 1000 records) are processed while the consumer of
// Results() is stalled; every frame's record must come out exactly once when the consumer resumes.
// The consumer resumes on a positive event (the producer has finished, or has completed more calls than
// the buffers hold, i.e. it is blocked in Put as it must be) or after 3 s at the latest; resuming early
// can only hide a loss, never create one.

import (
	"context"
	"encoding/hex"
	"fmt"
	"sync/atomic"
	"time"

	"github.com/v-byte-cpu/sx/pkg/scan"
	"github.com/v-byte-cpu/sx/pkg/scan/arp"
	"github.com/v-byte-cpu/sx/pkg/scan/icmp"
	"github.com/v-byte-cpu/sx/pkg/scan/tcp"
	"verifharness/cmd/c03/lib"
	"verifharness/cmd/c06/fr"
	"verifharness/hlib"
)

type burstOut struct {
	Burst    bool   `json:"burst"`
	Cmd      string `json:"cmd"`
	W        int    `json:"w"`
	N        int    `json:"n"`
	Records  int    `json:"records"`
	Missing  int    `json:"missing"`
	Dups     int    `json:"dups"`
	Foreign  int    `json:"foreign"`
	First    string `json:"first_missing,omitempty"` // hex of the first frame without a record
	FirstKey string `json:"first_missing_key,omitempty"`
	Err      string `json:"err,omitempty"`
}

// burstFrame: the i-th of n distinct plain replies of the wiring's scan, and the key of its record
func burstFrame(w lib.Wiring, i int) ([]byte, string) {
	src := [4]byte{10, 77, byte(i >> 8), byte(i)}
	ip := fmt.Sprintf("10.77.%d.%d", i>>8, i&255)
	mac := []byte{2, 0, 0, 0, byte(i >> 8), byte(i)}
	eth := fr.Eth([]byte{2, 0, 0, 0, 0, 1}, mac, 0x0800)
	switch {
	case w.Filter <= 1:
		port := 1000 + i
		p := fr.IP(fr.IPOpt{TotalLen: -1, TTL: 64, Proto: 6, Src: src, Dst: [4]byte{192, 0, 2, 1}},
			fr.TCP(fr.TCPOpt{Sport: uint16(port), Dport: 40000, Flags: 0x12}, nil))
		return fr.Cat(eth, p), fmt.Sprint(ip, ":", port)
	case w.Filter == 2:
		p := fr.IP(fr.IPOpt{TotalLen: -1, TTL: 64, Proto: 1, Src: src, Dst: [4]byte{192, 0, 2, 1}}, fr.ICMP(3, 3, 1, 1, nil))
		return fr.Cat(eth, p), ip
	}
	a := fr.ARP(fr.ARPOpt{HType: 1, PType: 0x0800, HLen: 6, PLen: 4, Op: 2, Addrs: fr.Cat(mac, src[:], make([]byte, 10))})
	return fr.Cat(fr.Eth([]byte{2, 0, 0, 0, 0, 1}, mac, 0x0806), a), ip
}

func recKey(r scan.Result) string {
	switch x := r.(type) {
	case *tcp.ScanResult:
		return fmt.Sprint(x.IP, ":", x.Port)
	case *icmp.ScanResult:
		return x.IP
	case *arp.ScanResult:
		return x.IP
	}
	return "?"
}

func runBurst(wi int, w lib.Wiring, n int) burstOut {
	o := burstOut{Burst: true, Cmd: w.Cmd, W: wi, N: n}
	ctx, cancel := context.WithCancel(context.Background())
	defer cancel()
	rc := scan.NewResultChan(ctx, 1000) // as every command/*.go does
	p := lib.NewProcessor(w, false, rc)
	frames := make([][]byte, n)
	want := map[string]int{}
	for i := range frames {
		var k string
		frames[i], k = burstFrame(w, i)
		want[k] = i
	}
	var calls int64
	done := make(chan struct{})
	go func() {
		defer close(done)
		for _, f := range frames {
			_ = p.ProcessPacketData(fr.Exact(f), nil)
			atomic.AddInt64(&calls, 1)
		}
	}()
	// stalled consumer
	deadline := time.After(3 * time.Second)
W:
	for {
		select {
		case <-done:
			break W
		case <-deadline:
			break W
		case <-time.After(5 * time.Millisecond):
			if atomic.LoadInt64(&calls) > 2000 {
				break W
			}
		}
	}
	got := map[string]int{}
	finished := false
	doneC := (<-chan struct{})(done)
	overall := time.After(60 * time.Second)
R:
	for o.Records < n {
		var idle <-chan time.Time
		if finished {
			// the producer is through: whatever is still buffered arrives promptly; stop after 1 s of silence
			idle = time.After(time.Second)
		}
		select {
		case r := <-p.Results():
			o.Records++
			k := recKey(r)
			if _, ok := want[k]; !ok {
				o.Foreign++
			}
			got[k]++
		case <-doneC:
			finished, doneC = true, nil
		case <-idle:
			break R
		case <-overall:
			o.Err = "the producer neither finished nor delivered all records within 60 s"
			break R
		}
	}
	for _, c := range got {
		if c > 1 {
			o.Dups += c - 1
		}
	}
	first := -1
	for k, i := range want {
		if got[k] == 0 {
			o.Missing++
			if first < 0 || i < first {
				first, o.FirstKey = i, k
			}
		}
	}
	if first >= 0 {
		o.First = hex.EncodeToString(frames[first])
	}
	return o
}

func burstStage(w *hlib.Out, ws []lib.Wiring, n int) {
	seen := map[string]bool{}
	for i, x := range ws {
		if seen[x.Method] {
			continue
		}
		seen[x.Method] = true
		w.Put(runBurst(i, x, n))
	}
}
