package main

import (
	"fmt"

	"github.com/v-byte-cpu/sx/command"
	"verifharness/cmd/c03/lib"
	"verifharness/hlib"
)

// edgeStage: port specifications at the ends of the port space (the whole space written with and without port 0,
// one short of it at either end, the single ports 0, 1 and 65535, a whole-space range mixed with other ranges, several
// ranges that only together cover everything), each parsed by the REAL -p parser, and replies whose source port is 0, 1,
// 65535 or at / next to an edge of a scanned range. Same path as every other case of the VM stage: real filter builder
// -> libpcap -> BPF VM -> real ProcessPacketData.
func edgeStage(w *hlib.Out, ws []lib.Wiring, seed int64, per int) {
	r := hlib.NewRand(seed ^ 0x0c03ed6e)
	var plain, syn []int
	for i, x := range ws {
		if x.Method != "tcp" {
			continue
		}
		if x.Filter == 0 {
			plain = append(plain, i)
		} else if x.Filter == 1 {
			syn = append(syn, i)
		}
	}
	p := func() int { return 2 + r.Intn(65532) } // 2..65533
	lo, hi := p(), p()
	if lo > hi {
		lo, hi = hi, lo
	}
	specs := []string{
		"1-65535", "0-65535", "2-65535", "1-65534", "0-65534", "65535", "1", "0",
		fmt.Sprintf("1-%d,%d-65535", lo, lo+1),
		fmt.Sprintf("0-%d,%d-65535", lo, lo+1),
		fmt.Sprintf("%d,1-65535", p()),
		fmt.Sprintf("1-65535,%d-%d", lo, hi),
		fmt.Sprintf("%d,1-65535,%d", p(), p()),
		fmt.Sprintf("%d,0-65535", p()),
		fmt.Sprintf("%d,2-65535", p()),
		fmt.Sprintf("%d,1-65534", p()),
		fmt.Sprintf("%d-65535", p()),
		fmt.Sprintf("1-%d", p()),
		fmt.Sprintf("0-%d", p()),
		fmt.Sprintf("0,%d", p()),
		fmt.Sprintf("1,%d,65535", p()),
	}
	id := 0
	for _, spec := range specs {
		prs, err := command.VerifC18ParsePortRanges(spec)
		if err != nil {
			// a specification the command line does not accept is not a scan: nothing to judge
			w.Put(caseOut{ID: id, Cmd: "-p " + spec, Spec: spec, CompErr: "the -p parser rejects it: " + err.Error(), Ports: [][2]int{}})
			id++
			continue
		}
		var ports [][2]int
		for _, pr := range prs {
			ports = append(ports, [2]int{int(pr.StartPort), int(pr.EndPort)})
		}
		for _, group := range [][]int{plain, syn} {
			if len(group) == 0 {
				continue
			}
			wi := group[r.Intn(len(group))]
			wr := ws[wi]
			vpn := r.Intn(3) == 0
			subnet := ""
			if r.Intn(4) != 0 {
				bits := []int{8, 16, 24, 24, 27, 30, 32, 1 + r.Intn(32)}[r.Intn(8)]
				a := uint32(r.Uint64())
				if bits < 32 {
					a &^= (1 << uint(32-bits)) - 1
				}
				subnet = fmt.Sprintf("%d.%d.%d.%d/%d", a>>24, a>>16&255, a>>8&255, a&255, bits)
			}
			g := lib.NewGen(r, wr, wr.VPNSource && vpn)
			g.SetRange(subnet, ports)
			frames, classes := g.EdgePortFrames(per)
			c := runCase(id, wi, wr, vpn, []int{0, 0, 1, 2}[r.Intn(4)], subnet, ports, frames, classes)
			c.Spec = spec
			w.Put(c)
			id++
		}
	}
}
