// Driver for C03: for every packet-scan command wiring (translated from command/*.go, passed in by
// the check as JSON), random scan ranges and both link modes it
//   - asks the REAL filter builder (tcp.BPFFilter, tcp.SYNACKBPFFilter, icmp.BPFFilter, arp.BPFFilter)
//     for the filter text of the range,
//   - compiles that text with the real libpcap (pcap.CompileBPFFilter, the call afpacket.SetBPFFilter
//     makes) for the link type of the packet source and runs the program in the x/net/bpf VM on
//     generated frames (valid replies of the scan and single-field mutants),
//   - feeds every frame the program accepts to the REAL ProcessPacketData of the wiring's scan method
//     (one processor per case, so decoder state persists as in a scan) and records whether a record
//     appears on Results() and what it carries.
package main

import (
	"context"
	"encoding/hex"
	"encoding/json"
	"flag"
	"fmt"
	"net"
	"os"

	"github.com/google/gopacket/layers"
	"github.com/google/gopacket/macs"
	"github.com/google/gopacket/pcap"
	"github.com/v-byte-cpu/sx/pkg/packet"
	"github.com/v-byte-cpu/sx/pkg/scan"
	"github.com/v-byte-cpu/sx/pkg/scan/arp"
	"github.com/v-byte-cpu/sx/pkg/scan/icmp"
	"github.com/v-byte-cpu/sx/pkg/scan/tcp"
	"golang.org/x/net/bpf"
	"verifharness/cmd/c03/lib"
	"verifharness/cmd/c06/fr"
	"verifharness/hlib"
)

type frameObs struct {
	Frame    string `json:"frame"`
	Class    string `json:"class"`
	VM       bool   `json:"vm"`     // the compiled filter accepts the frame
	Cap      int    `json:"cap"`    // number of bytes the kernel hands over (the program's accept value, at most the frame)
	Record   bool   `json:"record"` // ... and ProcessPacketData emits a record
	N        int    `json:"n"`
	Err      string `json:"err,omitempty"`
	Crash    string `json:"crash,omitempty"`
	IP       string `json:"ip,omitempty"`
	Port     int    `json:"port"`
	Flags    string `json:"flags"`
	TTL      int    `json:"ttl"`
	Type     int    `json:"type"`
	Code     int    `json:"code"`
	MAC      string `json:"mac,omitempty"`
	Vendor   string `json:"vendor,omitempty"`
	VendorOK bool   `json:"vendor_ok"`

	recs []scan.Result
}

type caseOut struct {
	ID      int        `json:"id"`
	Cmd     string     `json:"cmd"`
	W       int        `json:"w"`
	VPN     bool       `json:"vpn"`
	RawSrc  bool       `json:"raw_source"`
	RawMeth bool       `json:"raw_method"`
	Filter  int        `json:"filter"`
	Subnet  string     `json:"subnet"` // "" = nil
	Net     int64      `json:"net"`
	Bits    int        `json:"bits"`
	Ports   [][2]int   `json:"ports"`
	Text    string     `json:"text"`
	Snap    int        `json:"snap"`
	Ring    int        `json:"ring"` // 0 fresh buffers; n > 0: accepted frames are delivered through a ring of n reused slots
	CompErr string     `json:"comperr,omitempty"`
	Spec    string     `json:"spec,omitempty"` // edge stage: the -p text the port ranges were parsed from
	Frames  []frameObs `json:"frames"`
}

type marker struct{ i int }

func (m *marker) String() string               { return "marker" }
func (m *marker) ID() string                   { return fmt.Sprint("marker", m.i) }
func (m *marker) MarshalJSON() ([]byte, error) { return []byte("null"), nil }

type runner struct {
	vm    *bpf.VM
	p     packet.Processor
	rc    scan.ResultChan
	nmark int
	ring  [][]byte
	pos   int
}

func (rn *runner) feed(f []byte, class string) frameObs {
	o := frameObs{Frame: hex.EncodeToString(f), Class: class}
	n, err := rn.vm.Run(f)
	if err != nil {
		o.Err = "vm: " + err.Error()
		return o
	}
	o.VM = n > 0
	if !o.VM {
		return o
	}
	// the kernel copies at most the program's accept value (the snapshot length compiled into the
	// filter) of an accepted frame into the ring
	o.Cap = len(f)
	if n < o.Cap {
		o.Cap = n
	}
	var data []byte
	if len(rn.ring) == 0 {
		data = fr.Exact(f[:o.Cap])
	} else {
		slot := rn.ring[rn.pos%len(rn.ring)]
		rn.pos++
		k := copy(slot, f[:o.Cap])
		data = slot[:k:k]
	}
	func() {
		defer func() {
			if r := recover(); r != nil {
				o.Crash = fmt.Sprint(r)
			}
		}()
		if err := rn.p.ProcessPacketData(data, nil); err != nil {
			o.Err = err.Error()
		}
	}()
	rn.nmark++
	rn.rc.Put(&marker{rn.nmark})
	var recs []scan.Result
	for r := range rn.rc.Chan() {
		if m, ok := r.(*marker); ok && m.i == rn.nmark {
			break
		}
		recs = append(recs, r)
	}
	o.N = len(recs)
	o.Record = o.N > 0
	o.recs = recs // read after the last frame of the case (readRecords), as the real consumer does
	return o
}

func readRecords(o *frameObs) {
	for _, r := range o.recs {
		switch x := r.(type) {
		case *tcp.ScanResult:
			o.IP, o.Port, o.Flags = x.IP, int(x.Port), x.Flags
		case *icmp.ScanResult:
			o.IP, o.TTL = x.IP, int(x.TTL)
			if x.ICMP != nil {
				o.Type, o.Code = int(x.ICMP.Type), int(x.ICMP.Code)
			}
		case *arp.ScanResult:
			o.IP, o.MAC, o.Vendor = x.IP, x.MAC, x.Vendor
			o.VendorOK = false
			if hw, err := net.ParseMAC(x.MAC); err == nil && len(hw) == 6 {
				o.VendorOK = macs.ValidMACPrefixMap[[3]byte{hw[0], hw[1], hw[2]}] == x.Vendor
			}
		}
	}
	o.recs = nil
}

func compile(raw bool, snap int, text string) (*bpf.VM, error) {
	lt := layers.LinkTypeEthernet
	if raw {
		lt = layers.LinkTypeIPv4
	}
	ins, err := pcap.CompileBPFFilter(lt, snap, text)
	if err != nil {
		return nil, err
	}
	rawIns := make([]bpf.RawInstruction, len(ins))
	for i, in := range ins {
		rawIns[i] = bpf.RawInstruction{Op: in.Code, Jt: in.Jt, Jf: in.Jf, K: in.K}
	}
	prog, ok := bpf.Disassemble(rawIns)
	if !ok {
		return nil, fmt.Errorf("cannot disassemble the compiled filter")
	}
	return bpf.NewVM(prog)
}

func runCase(id int, wi int, w lib.Wiring, vpn bool, ring int, subnet string, ports [][2]int, frames [][]byte, classes []string) caseOut {
	c := caseOut{ID: id, Cmd: w.Cmd, W: wi, VPN: vpn, RawSrc: w.VPNSource && vpn, RawMeth: w.VPNMethod && vpn,
		Filter: w.Filter, Subnet: subnet, Ports: ports, Ring: ring}
	if c.Ports == nil {
		c.Ports = [][2]int{}
	}
	r := lib.BuildRange(subnet, ports)
	if r.DstSubnet != nil {
		ip4 := r.DstSubnet.IP.To4()
		c.Net = int64(ip4[0])<<24 | int64(ip4[1])<<16 | int64(ip4[2])<<8 | int64(ip4[3])
		c.Bits, _ = r.DstSubnet.Mask.Size()
	}
	c.Text, c.Snap = lib.FilterText(w.Filter, r)
	vm, err := compile(c.RawSrc, c.Snap, c.Text)
	if err != nil {
		c.CompErr = err.Error()
		return c
	}
	ctx, cancel := context.WithCancel(context.Background())
	defer cancel()
	rc := scan.NewResultChan(ctx, 64)
	rn := &runner{vm: vm, p: lib.NewProcessor(w, c.RawMeth, rc), rc: rc}
	for i := 0; i < ring; i++ {
		rn.ring = append(rn.ring, make([]byte, 4096))
	}
	for i, f := range frames {
		c.Frames = append(c.Frames, rn.feed(f, classes[i]))
	}
	for i := range c.Frames {
		readRecords(&c.Frames[i])
	}
	return c
}

type replayIn struct {
	W      int      `json:"w"`
	VPN    bool     `json:"vpn"`
	Ring   int      `json:"ring"`
	Subnet string   `json:"subnet"`
	Ports  [][2]int `json:"ports"`
	Frames []string `json:"frames"`
}

func main() {
	out := flag.String("out", "cases.jsonl", "output file")
	seed := flag.Int64("seed", 1, "seed")
	n := flag.Int("n", 300, "number of cases")
	per := flag.Int("per", 10, "frames per case")
	wfile := flag.String("wiring", "", "JSON file with the translated wirings")
	replay := flag.String("replay", "", "replay cases from a JSON file")
	burst := flag.Int("burst", 0, "burst stage: number of reply frames processed while the consumer of the results is stalled")
	edges := flag.Bool("edges", false, "edge stage: port specifications and source ports at the ends of the port space")
	dump := flag.String("dump", "", "dump the compiled program of a filter expression")
	rawf := flag.Bool("raw", false, "with -dump: raw IPv4 link type")
	flag.Parse()
	if *dump != "" {
		lt := layers.LinkTypeEthernet
		if *rawf {
			lt = layers.LinkTypeIPv4
		}
		fmt.Println(*dump)
		dumpFilter(lt, 1518, *dump)
		return
	}
	var ws []lib.Wiring
	raw, err := os.ReadFile(*wfile)
	if err != nil {
		panic(err)
	}
	if err := json.Unmarshal(raw, &ws); err != nil {
		panic(err)
	}
	w := hlib.NewOut(*out)
	defer w.Close()
	if *burst > 0 {
		burstStage(w, ws, *burst)
		return
	}
	if *edges {
		edgeStage(w, ws, *seed, *per)
		return
	}
	if *replay != "" {
		raw, err := os.ReadFile(*replay)
		if err != nil {
			panic(err)
		}
		var ins []replayIn
		if err := json.Unmarshal(raw, &ins); err != nil {
			panic(err)
		}
		for i, in := range ins {
			var fs [][]byte
			var cl []string
			for _, h := range in.Frames {
				b, err := hex.DecodeString(h)
				if err != nil {
					panic(err)
				}
				fs = append(fs, b)
				cl = append(cl, "replay")
			}
			w.Put(runCase(i, in.W, ws[in.W], in.VPN, in.Ring, in.Subnet, in.Ports, fs, cl))
		}
		return
	}
	r := hlib.NewRand(*seed)
	for i := 0; i < *n; i++ {
		wi := i % len(ws)
		wr := ws[wi]
		vpn := wr.Method != "arp" && r.Intn(3) == 0
		g := lib.NewGen(r, wr, wr.VPNSource && vpn)
		subnet, ports := g.RandomRange(i)
		frames, classes := g.Frames(*per)
		w.Put(runCase(i, wi, wr, vpn, []int{0, 0, 1, 1, 2, 3}[r.Intn(6)], subnet, ports, frames, classes))
	}
}
