package main

import (
	"fmt"

	"github.com/google/gopacket/layers"
	"github.com/google/gopacket/pcap"
	"golang.org/x/net/bpf"
)

// dumpFilter prints the classic BPF program libpcap compiles for expr on the link type.
func dumpFilter(link layers.LinkType, snap int, expr string) {
	ins, err := pcap.CompileBPFFilter(link, snap, expr)
	if err != nil {
		fmt.Println("error:", err)
		return
	}
	raw := make([]bpf.RawInstruction, len(ins))
	for i, in := range ins {
		raw[i] = bpf.RawInstruction{Op: in.Code, Jt: in.Jt, Jf: in.Jf, K: in.K}
	}
	dis, _ := bpf.Disassemble(raw)
	for i, d := range dis {
		fmt.Printf("%3d: %v\n", i, d)
	}
}
