// Driver for C14: runs the REAL JSON output path of sx on generated values and records what it
// produced, for comparison with the Coq model (coq/Spec/C14.v) and for the property judged on the
// implementation alone (field "spec": empty, or why the property fails on this input).
//
//	rec   one result of one of the seven result types -> MarshalJSON bytes, ID()
//	str   one raw string through easyjson's jwriter.Writer.String and through json.Marshal
//	dec   one JSON text through Go's encoding/json (the independent decoder) -> tree
//	log   a result sequence through log.NewLogger(w, .., log.JSON()).LogResults -> Write calls
//	uniq  a result sequence with repetitions through log.NewUniqueLogger -> what is passed on
//
// Every case is generated from its own seed ("gen" field) so that it can be replayed alone.
package main

import (
	"bytes"
	"context"
	"encoding/hex"
	"encoding/json"
	"flag"
	"fmt"
	"io"
	"math"
	"net"
	"os"
	"reflect"
	"sort"
	"strconv"
	"strings"
	"sync"
	"time"
	"unicode/utf8"

	dtypes "github.com/docker/docker/api/types"
	"github.com/google/gopacket"
	"github.com/google/gopacket/layers"
	"github.com/google/gopacket/macs"
	"github.com/mailru/easyjson/jwriter"
	"github.com/v-byte-cpu/sx/command"
	"github.com/v-byte-cpu/sx/command/log"
	"github.com/v-byte-cpu/sx/pkg/scan"
	"github.com/v-byte-cpu/sx/pkg/scan/arp"
	"github.com/v-byte-cpu/sx/pkg/scan/docker"
	"github.com/v-byte-cpu/sx/pkg/scan/elastic"
	"github.com/v-byte-cpu/sx/pkg/scan/icmp"
	"github.com/v-byte-cpu/sx/pkg/scan/socks5"
	"github.com/v-byte-cpu/sx/pkg/scan/tcp"
	"verifharness/hlib"
)

// ---------------------------------------------------------------- wire format of a case

type val map[string]interface{} // {"s":hex} {"n":"123"} {"b":true} {"nil":true} {"ptr":[val]} {"tree":tree}
type tree []interface{}         // ["null"] ["bool",b] ["num",hex] ["str",hex] ["arr",[..]] ["obj",[[hex,tree]..]] ["map",..]

type resDesc struct {
	Kind int   `json:"kind"` // index into Gen.schemas: 0 arp 1 tcp 2 icmp 3 socks 4 elastic 5 docker
	Vals []val `json:"vals"`
}

type row struct {
	T     string `json:"t"`
	Gen   string `json:"gen"`
	Class string `json:"class"`
	Spec  string `json:"spec"` // property judged on the implementation alone: "" = holds
	// rec
	Kind int    `json:"kind,omitempty"`
	Vals []val  `json:"vals,omitempty"`
	ID   string `json:"id,omitempty"`
	Out  string `json:"out,omitempty"`
	// str
	Std bool   `json:"std,omitempty"`
	S   string `json:"s,omitempty"`
	// dec
	Txt    string `json:"txt,omitempty"`
	GoOK   bool   `json:"go_ok,omitempty"`
	UTF8OK bool   `json:"utf8_ok,omitempty"`
	Tree   tree   `json:"tree,omitempty"`
	// log / uniq
	Rs         []resDesc `json:"rs,omitempty"`
	Stop       int       `json:"stop,omitempty"`
	Ticks      bool      `json:"ticks,omitempty"`
	Writes     []string  `json:"writes,omitempty"`
	Drop       bool      `json:"drop,omitempty"`
	Outs       []int     `json:"outs,omitempty"`
	Nontrivial bool      `json:"nontrivial"`
	ReplayGen  string    `json:"replay_gen,omitempty"`
	// sweep
	Sweep *sweepInfo `json:"sweep,omitempty"`
}

func hx(b []byte) string { return hex.EncodeToString(b) }
func sval(s string) val  { return val{"s": hx([]byte(s))} }
func nval(n int64) val   { return val{"n": strconv.FormatInt(n, 10)} }
func bval(b bool) val    { return val{"b": b} }

// sanitizeGo is what a reader can get back at best: every byte that does not start a valid UTF-8
// sequence becomes U+FFFD (Go's own string->[]rune conversion; independent of the model).
func sanitizeGo(s string) string { return string([]rune(s)) }

// ---------------------------------------------------------------- nasty strings

var edgeRunes = []rune{0x7f, 0x80, 0x7ff, 0x800, 0xfff, 0x1000, 0xd7ff, 0xe000, 0xfffd, 0xfffe, 0xffff, 0x10000,
	0x10ffff, 0x2028, 0x2029, 0x2027, 0x202a, 0xe9, 0x4e2d, 0x1f600, 0xfeff}

var badSeqs = []string{"\xff", "\xfe", "\x80", "\xbf", "\xc0\x80", "\xc1\xbf", "\xc2", "\xe0\x80\x80", "\xe0\x9f\xbf",
	"\xed\xa0\x80", "\xed\xbf\xbf", "\xf0\x80\x80\x80", "\xf0\x8f\xbf\xbf", "\xf4\x90\x80\x80", "\xf5\x80\x80\x80",
	"\xe2\x80", "\xe2", "\xf0\x9f\x98", "\xf0\x9f", "\xf8\x88\x80\x80\x80", "\xe2\x28\xa1", "\xc3\x28"}

var specials = []string{`"`, `\`, "\n", "\r", "\t", "\b", "\f", "\x00", "\x01", "\x1f", "\x7f", "<", ">", "&", "/", "'",
	"\u2028", "\u2029", `\n`, `\u0041`, `\u0026`, `\u003c`, `\u003e`, `\u003C`, `\\u0026`, `\u2028`, `\ufffd`, `\ud83d\ude00`, `\u00`, `\"\u003e`, `\"`, "{", "}", "[", "]", ",", ":", " ", `","x":"`, `"}` + "\n" + `{"ip":"6.6.6.6`}

func nasty(r *hlib.SplitMix64) (string, string) {
	switch r.Intn(13) {
	case 0:
		return "", "empty"
	case 1: // plain printable
		n := 1 + r.Intn(24)
		b := make([]byte, n)
		for i := range b {
			b[i] = byte(32 + r.Intn(95))
		}
		return string(b), "printable"
	case 2: // address-like
		return fmt.Sprintf("%d.%d.%d.%d", r.Intn(256), r.Intn(256), r.Intn(256), r.Intn(256)), "address"
	case 3: // arbitrary bytes
		return string(r.Bytes(1 + r.Intn(40))), "random-bytes"
	case 4: // all control characters and specials
		var sb strings.Builder
		for i := 0; i < 1+r.Intn(12); i++ {
			sb.WriteString(specials[r.Intn(len(specials))])
			if r.Bool() {
				sb.WriteByte(byte(r.Intn(128)))
			}
		}
		return sb.String(), "specials"
	case 5: // valid multi-byte text
		var sb strings.Builder
		for i := 0; i < 1+r.Intn(16); i++ {
			if r.Bool() {
				sb.WriteRune(edgeRunes[r.Intn(len(edgeRunes))])
			} else {
				c := rune(r.Intn(0x110000))
				if c >= 0xd800 && c < 0xe000 {
					c = 0x41
				}
				sb.WriteRune(c)
			}
		}
		return sb.String(), "valid-utf8"
	case 6: // broken UTF-8 between valid text
		var sb strings.Builder
		for i := 0; i < 1+r.Intn(8); i++ {
			switch r.Intn(3) {
			case 0:
				sb.WriteString(badSeqs[r.Intn(len(badSeqs))])
			case 1:
				sb.WriteRune(edgeRunes[r.Intn(len(edgeRunes))])
			default:
				sb.WriteByte(byte(32 + r.Intn(95)))
			}
		}
		return sb.String(), "broken-utf8"
	case 7: // mixture of everything
		var sb strings.Builder
		for i := 0; i < 1+r.Intn(20); i++ {
			switch r.Intn(5) {
			case 0:
				sb.WriteString(badSeqs[r.Intn(len(badSeqs))])
			case 1:
				sb.WriteRune(edgeRunes[r.Intn(len(edgeRunes))])
			case 2:
				sb.WriteString(specials[r.Intn(len(specials))])
			case 3:
				sb.WriteByte(byte(r.Intn(256)))
			default:
				sb.WriteByte(byte(32 + r.Intn(95)))
			}
		}
		return sb.String(), "mixture"
	case 8: // single byte
		return string([]byte{byte(r.Intn(256))}), "one-byte"
	case 9: // all bytes in order from a random start
		b := make([]byte, 1+r.Intn(300))
		st := r.Intn(256)
		for i := range b {
			b[i] = byte(st + i)
		}
		return string(b), "byte-run"
	case 10: // vendor-like
		v := []string{"TP-LINK TECHNOLOGIES CO.,LTD.", "Apple, Inc.", "AzureWave Technology Inc.", "Hewlett Packard", "D&M Holdings Inc.", "AT&T", "Hon Hai Precision Ind. Co.,Ltd.", "IEEE Registration Authority"}
		return v[r.Intn(len(v))], "vendor"
	case 11:
		return "aa:bb:cc:00:11:" + fmt.Sprintf("%02x", r.Intn(256)), "mac"
	default:
		// text that LOOKS like JSON escapes: a literal backslash followed by uXXXX / n / " ... (a value
		// such as a Windows path or a regular expression); any post-processing of the encoded bytes that
		// matches escape sequences textually confuses these with real escapes
		var sb strings.Builder
		for i := 0; i < 1+r.Intn(4); i++ {
			switch r.Intn(4) {
			case 0:
				sb.WriteString([]string{"a", "index-", "C:", " ", "<", "&"}[r.Intn(6)])
			default:
				sb.WriteByte('\\')
				sb.WriteString([]string{"u0026", "u003c", "u003e", "u003C", "u2028", "u2029", "ufffd", "u0000", "u0022", "n", "t", `"`, "\\", "/", "u00e9", "ud800", "x41"}[r.Intn(17)])
			}
		}
		return sb.String(), "escape-lookalike"
	}
}

func longString(r *hlib.SplitMix64, n int) string {
	var sb strings.Builder
	for sb.Len() < n {
		s, _ := nasty(r)
		sb.WriteString(s)
	}
	return sb.String()
}

// ---------------------------------------------------------------- trees for the reflective types

// genAny builds a value of the kinds encoding/json's decoder produces for interface{} (plus strings
// with broken UTF-8, which MarshalJSON must survive as well) together with its description.
func genAny(r *hlib.SplitMix64, depth int) (interface{}, tree) {
	k := r.Intn(9)
	if depth <= 0 && k >= 6 {
		k = r.Intn(6)
	}
	switch k {
	case 0:
		return nil, tree{"null"}
	case 1:
		b := r.Bool()
		return b, tree{"bool", b}
	case 2, 3:
		f := genFloat(r)
		txt, err := json.Marshal(f) // the oracle text of a float64 (strconv shortest form, ES6 exponent rules)
		if err != nil {
			panic(err)
		}
		return f, tree{"num", hx(txt)}
	case 4, 5:
		s, _ := nasty(r)
		return s, tree{"str", hx([]byte(s))}
	case 6:
		n := r.Intn(4)
		l := make([]interface{}, 0, n)
		tl := make([]interface{}, 0, n)
		for i := 0; i < n; i++ {
			v, t := genAny(r, depth-1)
			l = append(l, v)
			tl = append(tl, t)
		}
		return l, tree{"arr", tl}
	default:
		m, t := genMap(r, depth-1, r.Intn(5))
		return m, t
	}
}

func genFloat(r *hlib.SplitMix64) float64 {
	switch r.Intn(8) {
	case 0:
		return 0
	case 1:
		return float64(int64(r.Intn(100000)) - 50000)
	case 2:
		return float64(r.Int63())
	case 3:
		return math.Float64frombits(r.Uint64()&^(0x7ff<<52) | uint64(r.Intn(2046)+1)<<52) // any finite normal
	case 4:
		return 1e21 * float64(1+r.Intn(9))
	case 5:
		return 1e-7 * float64(1+r.Intn(9))
	case 6:
		return -float64(r.Intn(1000)) / 8
	default:
		return float64(r.Intn(1<<20)) / 1024
	}
}

// genMap builds a Go map with n distinct keys (keys are valid UTF-8: two keys that differ only in
// broken bytes would collide after U+FFFD replacement, which no reader could tell apart).
func genMap(r *hlib.SplitMix64, depth, n int) (map[string]interface{}, tree) {
	m := map[string]interface{}{}
	desc := map[string]tree{}
	for i := 0; i < n; i++ {
		var k string
		for {
			k, _ = nasty(r)
			k = sanitizeGo(k)
			if _, dup := m[k]; !dup {
				break
			}
		}
		v, t := genAny(r, depth)
		m[k] = v
		desc[k] = t
	}
	// described in a seeded shuffled order: the model has to sort
	keys := make([]string, 0, len(m))
	for k := range m {
		keys = append(keys, k)
	}
	sort.Strings(keys)
	for i := len(keys) - 1; i > 0; i-- {
		j := r.Intn(i + 1)
		keys[i], keys[j] = keys[j], keys[i]
	}
	ents := make([]interface{}, 0, len(keys))
	for _, k := range keys {
		ents = append(ents, []interface{}{hx([]byte(k)), desc[k]})
	}
	return m, tree{"map", ents}
}

// fillValue sets every settable string / bool / integer / slice / array / map[string]T / struct
// reachable from v to generated content (pointers and interfaces stay nil).
func fillValue(r *hlib.SplitMix64, v reflect.Value, depth int) {
	switch v.Kind() {
	case reflect.String:
		if r.Intn(4) > 0 {
			s, _ := nasty(r)
			v.SetString(s)
		}
	case reflect.Bool:
		v.SetBool(r.Bool())
	case reflect.Int, reflect.Int8, reflect.Int16, reflect.Int32, reflect.Int64:
		n := r.Int63()>>uint(r.Intn(63)) - int64(r.Intn(3))
		if !v.OverflowInt(n) {
			v.SetInt(n)
		}
	case reflect.Uint, reflect.Uint8, reflect.Uint16, reflect.Uint32, reflect.Uint64:
		n := r.Uint64() >> uint(r.Intn(64))
		if !v.OverflowUint(n) {
			v.SetUint(n)
		}
	case reflect.Struct:
		if v.Type().PkgPath() == "time" {
			return
		}
		for i := 0; i < v.NumField(); i++ {
			if v.Type().Field(i).PkgPath == "" { // exported
				fillValue(r, v.Field(i), depth-1)
			}
		}
	case reflect.Array:
		for i := 0; i < v.Len(); i++ {
			fillValue(r, v.Index(i), depth-1)
		}
	case reflect.Slice:
		if depth <= 0 || r.Intn(3) == 0 {
			return // nil
		}
		if v.Type().Elem().Kind() == reflect.Uint8 {
			return // []byte is base64: left nil
		}
		n := 1 + r.Intn(3)
		s := reflect.MakeSlice(v.Type(), n, n)
		for i := 0; i < n; i++ {
			fillValue(r, s.Index(i), depth-1)
		}
		v.Set(s)
	case reflect.Map:
		if depth <= 0 || r.Intn(3) == 0 || v.Type().Key().Kind() != reflect.String {
			return
		}
		if v.Type().Elem().Kind() == reflect.Interface {
			return
		}
		m := reflect.MakeMap(v.Type())
		for i := 0; i < 1+r.Intn(3); i++ {
			k, _ := nasty(r)
			e := reflect.New(v.Type().Elem()).Elem()
			fillValue(r, e, depth-1)
			m.SetMapIndex(reflect.ValueOf(sanitizeGo(k)).Convert(v.Type().Key()), e)
		}
		v.Set(m)
	}
}

// sanitizeDeep returns a copy of v in which every string (also map keys) is sanitizeGo'd.
func sanitizeDeep(v reflect.Value) reflect.Value {
	switch v.Kind() {
	case reflect.String:
		n := reflect.New(v.Type()).Elem()
		n.SetString(sanitizeGo(v.String()))
		return n
	case reflect.Struct:
		n := reflect.New(v.Type()).Elem()
		n.Set(v)
		for i := 0; i < v.NumField(); i++ {
			if v.Type().Field(i).PkgPath == "" {
				n.Field(i).Set(sanitizeDeep(v.Field(i)))
			}
		}
		return n
	case reflect.Array:
		n := reflect.New(v.Type()).Elem()
		for i := 0; i < v.Len(); i++ {
			n.Index(i).Set(sanitizeDeep(v.Index(i)))
		}
		return n
	case reflect.Slice:
		if v.IsNil() {
			return v
		}
		n := reflect.MakeSlice(v.Type(), v.Len(), v.Len())
		for i := 0; i < v.Len(); i++ {
			n.Index(i).Set(sanitizeDeep(v.Index(i)))
		}
		return n
	case reflect.Map:
		if v.IsNil() {
			return v
		}
		n := reflect.MakeMap(v.Type())
		it := v.MapRange()
		for it.Next() {
			n.SetMapIndex(sanitizeDeep(it.Key()), sanitizeDeep(it.Value()))
		}
		return n
	case reflect.Interface, reflect.Ptr:
		if v.IsNil() {
			return v
		}
		if v.Kind() == reflect.Interface {
			n := reflect.New(v.Type()).Elem()
			n.Set(sanitizeDeep(v.Elem()))
			return n
		}
		n := reflect.New(v.Type().Elem())
		n.Elem().Set(sanitizeDeep(v.Elem()))
		return n
	}
	return v
}

// treeOfValue describes a Go value the way encoding/json walks it (struct members in declaration
// order under their tag names, omitempty, nil pointers/slices/maps/interfaces as null, maps as
// unordered member lists), with the ORIGINAL strings.  It is harness code (trusted): it only has to
// cover the shapes that occur in docker's types.Info / types.Version and panics on anything else.
func treeOfValue(v reflect.Value) tree {
	t := v.Type()
	if t.Implements(reflect.TypeOf((*json.Marshaler)(nil)).Elem()) || t.Implements(reflect.TypeOf((*interface{ MarshalText() ([]byte, error) })(nil)).Elem()) {
		if !(v.Kind() == reflect.Ptr && v.IsNil()) {
			panic("treeOfValue: custom marshaler " + t.String())
		}
	}
	switch v.Kind() {
	case reflect.String:
		return tree{"str", hx([]byte(v.String()))}
	case reflect.Bool:
		return tree{"bool", v.Bool()}
	case reflect.Int, reflect.Int8, reflect.Int16, reflect.Int32, reflect.Int64:
		return tree{"num", hx([]byte(strconv.FormatInt(v.Int(), 10)))}
	case reflect.Uint, reflect.Uint8, reflect.Uint16, reflect.Uint32, reflect.Uint64:
		return tree{"num", hx([]byte(strconv.FormatUint(v.Uint(), 10)))}
	case reflect.Ptr, reflect.Interface:
		if v.IsNil() {
			return tree{"null"}
		}
		return treeOfValue(v.Elem())
	case reflect.Slice:
		if v.IsNil() {
			return tree{"null"}
		}
		if t.Elem().Kind() == reflect.Uint8 {
			panic("treeOfValue: []byte")
		}
		fallthrough
	case reflect.Array:
		l := []interface{}{}
		for i := 0; i < v.Len(); i++ {
			l = append(l, treeOfValue(v.Index(i)))
		}
		return tree{"arr", l}
	case reflect.Map:
		if v.IsNil() {
			return tree{"null"}
		}
		if t.Key().Kind() != reflect.String {
			panic("treeOfValue: map key " + t.Key().String())
		}
		keys := v.MapKeys()
		sort.Slice(keys, func(i, j int) bool { return keys[i].String() > keys[j].String() }) // any order: the model sorts
		l := []interface{}{}
		for _, k := range keys {
			l = append(l, []interface{}{hx([]byte(k.String())), treeOfValue(v.MapIndex(k))})
		}
		return tree{"map", l}
	case reflect.Struct:
		l := []interface{}{}
		for i := 0; i < t.NumField(); i++ {
			f := t.Field(i)
			if f.PkgPath != "" {
				continue
			}
			if f.Anonymous {
				panic("treeOfValue: embedded field in " + t.String())
			}
			tag := f.Tag.Get("json")
			if tag == "-" {
				continue
			}
			parts := strings.Split(tag, ",")
			name := f.Name
			if parts[0] != "" {
				name = parts[0]
			}
			omit := false
			for _, o := range parts[1:] {
				if o == "omitempty" {
					omit = true
				} else if o != "" {
					panic("treeOfValue: tag option " + o)
				}
			}
			fv := v.Field(i)
			if omit {
				empty := false
				switch fv.Kind() {
				case reflect.Array, reflect.Map, reflect.Slice, reflect.String:
					empty = fv.Len() == 0
				case reflect.Bool, reflect.Int, reflect.Int8, reflect.Int16, reflect.Int32, reflect.Int64,
					reflect.Uint, reflect.Uint8, reflect.Uint16, reflect.Uint32, reflect.Uint64, reflect.Float32, reflect.Float64:
					empty = fv.IsZero()
				case reflect.Interface, reflect.Ptr:
					empty = fv.IsNil()
				}
				if empty {
					continue
				}
			}
			l = append(l, []interface{}{hx([]byte(name)), treeOfValue(fv)})
		}
		return tree{"obj", l}
	}
	panic("treeOfValue: kind " + v.Kind().String())
}

// parseTree reads one JSON text with encoding/json's token stream (UseNumber) into an ordered tree.
func parseTree(txt []byte) (tree, error) {
	dec := json.NewDecoder(bytes.NewReader(txt))
	dec.UseNumber()
	t, err := parseTok(dec)
	if err != nil {
		return nil, err
	}
	if _, err := dec.Token(); err != io.EOF {
		return nil, fmt.Errorf("trailing data")
	}
	return t, nil
}

func parseTok(dec *json.Decoder) (tree, error) {
	tok, err := dec.Token()
	if err != nil {
		return nil, err
	}
	switch x := tok.(type) {
	case nil:
		return tree{"null"}, nil
	case bool:
		return tree{"bool", x}, nil
	case json.Number:
		return tree{"num", hx([]byte(x.String()))}, nil
	case string:
		return tree{"str", hx([]byte(x))}, nil
	case json.Delim:
		switch x {
		case '[':
			l := []interface{}{}
			for dec.More() {
				e, err := parseTok(dec)
				if err != nil {
					return nil, err
				}
				l = append(l, e)
			}
			if _, err := dec.Token(); err != nil {
				return nil, err
			}
			return tree{"arr", l}, nil
		case '{':
			l := []interface{}{}
			for dec.More() {
				kt, err := dec.Token()
				if err != nil {
					return nil, err
				}
				k, ok := kt.(string)
				if !ok {
					return nil, fmt.Errorf("key is not a string")
				}
				e, err := parseTok(dec)
				if err != nil {
					return nil, err
				}
				l = append(l, []interface{}{hx([]byte(k)), e})
			}
			if _, err := dec.Token(); err != nil {
				return nil, err
			}
			return tree{"obj", l}, nil
		}
	}
	return nil, fmt.Errorf("unexpected token %v", tok)
}

// ---------------------------------------------------------------- results

type genRes struct {
	desc  resDesc
	real  scan.Result
	class string
	// shadow: a pointer to a method-less copy type for decoding with encoding/json, and the expected
	// (sanitized) content as the same type
	fresh  func() interface{}
	expect interface{}
}

type shArp arp.ScanResult
type shTCP tcp.ScanResult
type shICMP icmp.ScanResult
type shSocks socks5.ScanResult
type shElastic elastic.ScanResult
type shDocker docker.ScanResult

var tcpScans = []string{tcp.SYNScanType, tcp.FINScanType, tcp.NULLScanType, tcp.XmasScanType, tcp.FlagsScanType}

func pickStr(r *hlib.SplitMix64, classes *[]string, usual func() string) string {
	if r.Intn(3) == 0 {
		return usual()
	}
	s, c := nasty(r)
	*classes = append(*classes, c)
	return s
}

func genResult(r *hlib.SplitMix64, kind int, long bool) genRes {
	var cl []string
	ip := func() string { return fmt.Sprintf("10.%d.%d.%d", r.Intn(4), r.Intn(3), r.Intn(256)) }
	g := genRes{}
	switch kind {
	case 0:
		x := &arp.ScanResult{IP: pickStr(r, &cl, ip), MAC: pickStr(r, &cl, func() string { return "00:11:22:33:44:55" }),
			Vendor: pickStr(r, &cl, func() string { return "Apple, Inc." })}
		if long {
			x.Vendor = longString(r, 1<<16)
			cl = append(cl, "64KiB")
		}
		g.real = x
		g.desc = resDesc{0, []val{sval(x.IP), sval(x.MAC), sval(x.Vendor)}}
		g.fresh = func() interface{} { return &shArp{} }
		e := shArp(*x)
		g.expect = &e
	case 1:
		x := &tcp.ScanResult{ScanType: pickStr(r, &cl, func() string { return tcpScans[r.Intn(len(tcpScans))] }),
			IP: pickStr(r, &cl, ip), Port: uint16(r.Intn(65536)), Flags: pickStr(r, &cl, func() string { return []string{"", "sa", "ar", "r"}[r.Intn(4)] })}
		if long {
			x.Flags = longString(r, 1<<16)
			cl = append(cl, "64KiB")
		}
		if r.Intn(8) == 0 {
			x.Port = []uint16{0, 1, 9, 10, 99, 100, 65535, 65530}[r.Intn(8)]
		}
		g.real = x
		g.desc = resDesc{1, []val{sval(x.ScanType), sval(x.IP), nval(int64(x.Port)), sval(x.Flags)}}
		g.fresh = func() interface{} { return &shTCP{} }
		e := shTCP(*x)
		g.expect = &e
	case 2:
		x := &icmp.ScanResult{ScanType: pickStr(r, &cl, func() string { return []string{"icmp", "udp"}[r.Intn(2)] }),
			IP: pickStr(r, &cl, ip), TTL: uint8(r.Intn(256))}
		pv := val{"nil": true}
		if r.Intn(5) > 0 {
			x.ICMP = &icmp.Response{Type: uint8(r.Intn(256)), Code: uint8(r.Intn(256))}
			pv = val{"ptr": []val{nval(int64(x.ICMP.Type)), nval(int64(x.ICMP.Code))}}
		} else {
			cl = append(cl, "nil-pointer")
		}
		g.real = x
		g.desc = resDesc{2, []val{sval(x.ScanType), sval(x.IP), nval(int64(x.TTL)), pv}}
		g.fresh = func() interface{} { return &shICMP{} }
		e := shICMP(*x)
		if x.ICMP != nil {
			c := *x.ICMP
			e.ICMP = &c
		}
		g.expect = &e
	case 3:
		x := &socks5.ScanResult{ScanType: pickStr(r, &cl, func() string { return socks5.ScanType }), Version: 5,
			IP: pickStr(r, &cl, ip), Port: uint16(r.Intn(65536)), Auth: r.Bool()}
		switch r.Intn(6) {
		case 0:
			x.Version = int(r.Int63()) - int(r.Int63())
		case 1:
			x.Version = []int{0, -1, math.MaxInt64, math.MinInt64, 4, 10, -10}[r.Intn(7)]
		}
		g.real = x
		g.desc = resDesc{3, []val{sval(x.ScanType), nval(int64(x.Version)), sval(x.IP), nval(int64(x.Port)), bval(x.Auth)}}
		g.fresh = func() interface{} { return &shSocks{} }
		e := shSocks(*x)
		g.expect = &e
	case 4:
		x := &elastic.ScanResult{ScanType: pickStr(r, &cl, func() string { return elastic.ScanType }),
			Proto: pickStr(r, &cl, func() string { return "http" }), Host: pickStr(r, &cl, func() string { return ip() + ":9200" })}
		var ti, tx tree = tree{"null"}, tree{"null"}
		if r.Intn(6) > 0 {
			x.Info, ti = genMap(r, 3, r.Intn(6))
		} else {
			cl = append(cl, "nil-map")
		}
		if r.Intn(6) > 0 {
			x.Indexes, tx = genMap(r, 2, r.Intn(4))
		}
		cl = append(cl, "server-tree")
		g.real = x
		g.desc = resDesc{4, []val{sval(x.ScanType), sval(x.Proto), sval(x.Host), {"tree": ti}, {"tree": tx}}}
		g.fresh = func() interface{} { return &shElastic{} }
		e := shElastic(*x)
		g.expect = &e
	default:
		x := &docker.ScanResult{ScanType: pickStr(r, &cl, func() string { return docker.ScanType }),
			Proto: pickStr(r, &cl, func() string { return "https" }), Host: pickStr(r, &cl, func() string { return ip() + ":2376" })}
		fillValue(r, reflect.ValueOf(&x.Info).Elem(), 4)
		fillValue(r, reflect.ValueOf(&x.Version).Elem(), 4)
		cl = append(cl, "server-struct")
		g.real = x
		g.desc = resDesc{5, []val{sval(x.ScanType), sval(x.Proto), sval(x.Host),
			{"tree": treeOfValue(reflect.ValueOf(x.Info))}, {"tree": treeOfValue(reflect.ValueOf(x.Version))}}}
		g.fresh = func() interface{} { return &shDocker{} }
		e := shDocker(*x)
		g.expect = &e
	}
	sort.Strings(cl)
	g.class = []string{"arp", "tcp", "icmp", "socks", "elastic", "docker"}[kind] + ":" + strings.Join(uniqStrings(cl), "+")
	return g
}

func uniqStrings(l []string) []string {
	var o []string
	for i, s := range l {
		if i == 0 || s != l[i-1] {
			o = append(o, s)
		}
	}
	return o
}

// judge applies the property to one MarshalJSON output using only Go's own decoder.
func judge(g genRes, out []byte) string {
	if bytes.IndexByte(out, '\n') >= 0 {
		return "the encoded result contains a line feed: it is not one line"
	}
	if !utf8.Valid(out) {
		return "the encoded result is not valid UTF-8"
	}
	if !json.Valid(out) {
		var v interface{}
		err := json.Unmarshal(out, &v)
		where := ""
		if se, ok := err.(*json.SyntaxError); ok {
			lo, hi := int(se.Offset)-24, int(se.Offset)+8
			if lo < 0 {
				lo = 0
			}
			if hi > len(out) {
				hi = len(out)
			}
			where = fmt.Sprintf(" (%v at byte %d: ...%s...)", err, se.Offset, out[lo:hi])
		}
		return "the encoded result is not valid JSON" + where
	}
	if len(out) == 0 || out[0] != '{' {
		return "the encoded result is not a JSON object"
	}
	got := g.fresh()
	dec := json.NewDecoder(bytes.NewReader(out))
	dec.DisallowUnknownFields()
	if err := dec.Decode(got); err != nil {
		return "encoding/json cannot decode the line into the result type (unknown or ill-typed member): " + err.Error()
	}
	want := sanitizeDeep(reflect.ValueOf(g.expect)).Interface()
	if !reflect.DeepEqual(got, want) {
		return fmt.Sprintf("the line does not decode back to the result's fields: got %+v want %+v", trunc(got), trunc(want))
	}
	// the documented keys, all present unless omitempty
	var generic map[string]json.RawMessage
	if err := json.Unmarshal(out, &generic); err != nil {
		return "not an object"
	}
	rt := reflect.TypeOf(g.expect).Elem()
	rv := reflect.ValueOf(g.expect).Elem()
	for i := 0; i < rt.NumField(); i++ {
		tag := rt.Field(i).Tag.Get("json")
		name := strings.Split(tag, ",")[0]
		omit := strings.Contains(tag, ",omitempty")
		_, present := generic[name]
		if !present && !(omit && rv.Field(i).IsZero()) {
			return "documented member " + name + " is missing"
		}
	}
	return ""
}

func trunc(v interface{}) string {
	s := fmt.Sprintf("%+v", reflect.Indirect(reflect.ValueOf(v)).Interface())
	if len(s) > 300 {
		s = s[:300] + "..."
	}
	return s
}

func recCase(g genRes, gen string) row {
	out, err := g.real.MarshalJSON()
	rw := row{T: "rec", Gen: gen, Class: g.class, Kind: g.desc.Kind, Vals: g.desc.Vals, ID: hx([]byte(g.real.ID())), Out: hx(out), Nontrivial: true}
	if err != nil {
		rw.Spec = "MarshalJSON fails: " + err.Error()
		return rw
	}
	rw.Spec = judge(g, out)
	return rw
}

// ---------------------------------------------------------------- raw strings

func strCase(s string, std bool, class, gen string) row {
	var out []byte
	if std {
		var err error
		out, err = json.Marshal(s)
		if err != nil {
			panic(err)
		}
	} else {
		w := jwriter.Writer{}
		w.String(s)
		out = w.Buffer.BuildBytes()
	}
	rw := row{T: "str", Gen: gen, Class: class, Std: std, S: hx([]byte(s)), Out: hx(out), Nontrivial: len(s) > 0}
	var back string
	switch {
	case bytes.IndexByte(out, '\n') >= 0:
		rw.Spec = "escaped string contains a line feed"
	case json.Unmarshal(out, &back) != nil:
		rw.Spec = "escaped string is not a JSON string"
	case back != sanitizeGo(s):
		rw.Spec = fmt.Sprintf("escaped string decodes to %q, not to %q", back, sanitizeGo(s))
	}
	return rw
}

// ---------------------------------------------------------------- JSON texts for the decoder tie

func genText(r *hlib.SplitMix64, depth int, sb *bytes.Buffer) {
	ws := func() {
		for r.Intn(4) == 0 {
			sb.WriteByte(" \t\n\r"[r.Intn(4)])
		}
	}
	ws()
	k := r.Intn(8)
	if depth <= 0 && k >= 6 {
		k = r.Intn(6)
	}
	switch k {
	case 0:
		sb.WriteString([]string{"null", "true", "false"}[r.Intn(3)])
	case 1, 2:
		sb.WriteString(genNumText(r))
	case 3, 4, 5:
		genStrText(r, sb)
	case 6:
		sb.WriteByte('[')
		n := r.Intn(4)
		for i := 0; i < n; i++ {
			if i > 0 {
				sb.WriteByte(',')
			}
			genText(r, depth-1, sb)
		}
		ws()
		sb.WriteByte(']')
	default:
		sb.WriteByte('{')
		n := r.Intn(4)
		for i := 0; i < n; i++ {
			if i > 0 {
				sb.WriteByte(',')
			}
			ws()
			genStrText(r, sb)
			ws()
			sb.WriteByte(':')
			genText(r, depth-1, sb)
		}
		ws()
		sb.WriteByte('}')
	}
	ws()
}

func genNumText(r *hlib.SplitMix64) string {
	var sb strings.Builder
	if r.Intn(3) == 0 {
		sb.WriteByte('-')
	}
	if r.Intn(4) == 0 {
		sb.WriteByte('0')
	} else {
		sb.WriteByte(byte('1' + r.Intn(9)))
		for i := 0; i < r.Intn(22); i++ {
			sb.WriteByte(byte('0' + r.Intn(10)))
		}
	}
	if r.Intn(3) == 0 {
		sb.WriteByte('.')
		for i := 0; i < 1+r.Intn(8); i++ {
			sb.WriteByte(byte('0' + r.Intn(10)))
		}
	}
	if r.Intn(3) == 0 {
		sb.WriteByte("eE"[r.Intn(2)])
		if r.Intn(2) == 0 {
			sb.WriteByte("+-"[r.Intn(2)])
		}
		for i := 0; i < 1+r.Intn(3); i++ {
			sb.WriteByte(byte('0' + r.Intn(10)))
		}
	}
	return sb.String()
}

func genStrText(r *hlib.SplitMix64, sb *bytes.Buffer) {
	sb.WriteByte('"')
	for i := 0; i < r.Intn(12); i++ {
		switch r.Intn(9) {
		case 0:
			sb.WriteString([]string{`\"`, `\\`, `\/`, `\b`, `\f`, `\n`, `\r`, `\t`}[r.Intn(8)])
		case 1: // \uXXXX of a BMP scalar
			c := rune(r.Intn(0x10000))
			fmt.Fprintf(sb, []string{`\u%04x`, `\u%04X`}[r.Intn(2)], c)
		case 2: // surrogate pair
			c := rune(0x10000 + r.Intn(0x100000))
			c -= 0x10000
			fmt.Fprintf(sb, `\u%04x\u%04x`, 0xd800+(c>>10), 0xdc00+(c&0x3ff))
		case 3: // lone or reversed surrogates
			fmt.Fprintf(sb, `\u%04x`, 0xd800+r.Intn(0x800))
		case 4:
			sb.WriteRune(edgeRunes[r.Intn(len(edgeRunes))])
		case 5:
			c := rune(r.Intn(0x110000))
			if c >= 0xd800 && c < 0xe000 || c < 0x20 || c == '"' || c == '\\' {
				c = 'x'
			}
			sb.WriteRune(c)
		default:
			c := byte(32 + r.Intn(95))
			if c == '"' || c == '\\' {
				c = '_'
			}
			sb.WriteByte(c)
		}
	}
	sb.WriteByte('"')
}

var breakers = []string{"\x00", "\x1f", "\x7f", "\xff", "\xc0\x80", "\xed\xa0\x80", `\x`, `\u12`, `\u12G4`, `\ud800\u`, "01", "1.", ".5", "1e", "+1", "-", "--1",
	"tru", "nul", "True", ",", ":", "]", "}", "[", "{", `"`, "'", "/*", "NaN", "Infinity", "0x10", "1_0", " ", "\n", "\ufeff", "\u00a0"}

func decCase(r *hlib.SplitMix64, gen string) row {
	var sb bytes.Buffer
	genText(r, 3, &sb)
	txt := sb.Bytes()
	class := "valid-text"
	if r.Intn(3) == 0 && len(txt) > 0 { // damage it
		class = "damaged-text"
		for i := 0; i < 1+r.Intn(2); i++ {
			p := r.Intn(len(txt) + 1)
			switch r.Intn(4) {
			case 0: // insert
				b := breakers[r.Intn(len(breakers))]
				txt = append(txt[:p:p], append([]byte(b), txt[p:]...)...)
			case 1: // delete a byte
				if p < len(txt) {
					txt = append(txt[:p:p], txt[p+1:]...)
				}
			case 2: // truncate
				txt = txt[:p]
			default: // overwrite
				if p < len(txt) {
					txt = append([]byte{}, txt...)
					txt[p] = byte(r.Intn(256))
				}
			}
			if len(txt) == 0 {
				break
			}
		}
	}
	rw := row{T: "dec", Gen: gen, Class: class, Txt: hx(txt), GoOK: json.Valid(txt), UTF8OK: utf8.Valid(txt)}
	if rw.GoOK {
		t, err := parseTree(txt)
		if err != nil {
			// json.Valid and the token stream must agree; if they do not the tie cannot be made
			rw.Spec = ""
			rw.GoOK = false
			rw.Class = "token-stream-disagrees"
			return rw
		}
		rw.Tree = t
		rw.Nontrivial = true
	}
	return rw
}

// ---------------------------------------------------------------- logger

type recWriter struct {
	mu     sync.Mutex
	writes [][]byte
}

func (w *recWriter) Write(p []byte) (int, error) {
	w.mu.Lock()
	defer w.mu.Unlock()
	w.writes = append(w.writes, append([]byte{}, p...))
	return len(p), nil
}

// hostKey is what "one distinct host" (endpoint) means for each result type, taken from the
// result's fields and NOT from ID(): the specification side of de-duplication.
func hostKey(x scan.Result) string {
	switch v := x.(type) {
	case *arp.ScanResult:
		return "arp|" + v.IP
	case *icmp.ScanResult:
		return "icmp|" + v.IP
	case *tcp.ScanResult:
		return "tcp|" + v.IP + "|" + strconv.Itoa(int(v.Port))
	case *socks5.ScanResult:
		return "socks|" + v.IP + "|" + strconv.Itoa(int(v.Port))
	case *elastic.ScanResult:
		return "elastic|" + v.Host
	case *docker.ScanResult:
		return "docker|" + v.Host
	}
	return "?"
}

func isNilICMP(g genRes) bool {
	x, ok := g.real.(*icmp.ScanResult)
	return ok && x.ICMP == nil
}

func smallResult(r *hlib.SplitMix64, pool int) genRes {
	kind := []int{0, 0, 1, 2, 3, 4}[r.Intn(6)]
	g := genResult(r, kind, false)
	for isNilICMP(g) { // never produced by the scanners; String() of such a value panics (plain mode)
		g = genResult(r, kind, false)
	}
	return g
}

func logCase(r *hlib.SplitMix64, gen string) row {
	n := r.Intn(9)
	var gs []genRes
	for i := 0; i < n; i++ {
		gs = append(gs, smallResult(r, 0))
	}
	stop := -1
	class := "closed"
	if r.Intn(3) == 0 {
		stop = r.Intn(n + 1)
		class = "cancelled"
	}
	ticks := r.Intn(3) == 0
	if ticks {
		class += "+ticks"
	}
	w := &recWriter{}
	opts := []log.LoggerOption{log.JSON()}
	if ticks {
		opts = append(opts, log.FlushInterval(time.Nanosecond))
	}
	// the logger as the commands build it in JSON mode (their unexported getLogger, through the hook
	// command/verif_export_c14.go), or built directly
	var lg log.Logger
	var err error
	switch r.Intn(3) {
	case 0:
		lg, err = log.NewLogger(w, "c14", opts...)
	case 1:
		lg, err = command.VerifC14PacketLogger("c14", w, true)
		class += "+packet-cmd"
		ticks = false
	default:
		lg, err = command.VerifC14GenericLogger("c14", w, true)
		class += "+generic-cmd"
		ticks = false
	}
	if err != nil {
		panic(err)
	}
	ctx, cancel := context.WithCancel(context.Background())
	defer cancel()
	ch := make(chan scan.Result) // unbuffered: a completed send means the logger took the result
	done := make(chan struct{})
	go func() {
		lg.LogResults(ctx, ch)
		close(done)
	}()
	upto := n
	if stop >= 0 {
		upto = stop
	}
	for i := 0; i < upto; i++ {
		select {
		case ch <- gs[i].real:
		case <-time.After(5 * time.Second):
			cancel()
			return row{T: "log", Gen: gen, Class: class, Spec: fmt.Sprintf("LogResults stops taking results after %d of %d", i, upto)}
		}
	}
	if stop >= 0 {
		cancel()
	} else {
		close(ch)
	}
	select {
	case <-done:
	case <-time.After(20 * time.Second):
		return row{T: "log", Gen: gen, Class: class, Spec: "LogResults does not return after its input ended"}
	}
	rw := row{T: "log", Gen: gen, Class: class, Stop: stop, Ticks: ticks, Nontrivial: upto > 0}
	for _, g := range gs {
		rw.Rs = append(rw.Rs, g.desc)
	}
	w.mu.Lock()
	defer w.mu.Unlock()
	for _, p := range w.writes {
		rw.Writes = append(rw.Writes, hx(p))
	}
	// the property on the implementation alone, judged on the byte stream (how it is cut into Write
	// calls does not matter): the lines, in order, are the encodings of the taken results
	var stream, want []byte
	for _, p := range w.writes {
		stream = append(stream, p...)
	}
	for i := 0; i < upto; i++ {
		enc, err := gs[i].real.MarshalJSON()
		if err != nil {
			continue
		}
		want = append(append(want, enc...), '\n')
	}
	if !bytes.Equal(stream, want) {
		lines := bytes.Count(stream, []byte{'\n'})
		switch {
		case lines != upto:
			rw.Spec = fmt.Sprintf("%d results were taken but the output has %d lines", upto, lines)
		case len(stream) > 0 && stream[len(stream)-1] != '\n':
			rw.Spec = "the last line is not terminated"
		default:
			rw.Spec = "the lines written are not the encodings of the taken results in order"
		}
	}
	return rw
}

// ---------------------------------------------------------------- unique logger

type sinkLogger struct {
	got     []scan.Result
	limit   int           // stop receiving after this many (-1: never stop)
	paused  chan struct{} // closed when the limit is reached
	resume  chan struct{} // wait for this before draining the rest
	finised chan struct{}
}

func (s *sinkLogger) Error(error) {}

func (s *sinkLogger) LogResults(ctx context.Context, results <-chan scan.Result) {
	defer close(s.finised)
	if s.limit == 0 {
		close(s.paused)
		<-s.resume
	}
	for r := range results {
		s.got = append(s.got, r)
		if s.limit >= 0 && len(s.got) == s.limit {
			close(s.paused)
			<-s.resume
		}
	}
}

// set when the cancel-while-offering scenario could not be staged (the implementation passes on a
// different number of results than ID() predicts): the scenario is then no longer attempted
var stagingBroken bool

func uniqCase(r *hlib.SplitMix64, gen string) row {
	n := 1 + r.Intn(14)
	pool := 1 + r.Intn(5)
	var base []genRes
	// one result type per history (a logger only ever sees the results of one scan type; IDs of different
	// types are not meant to be comparable)
	kind := []int{0, 0, 0, 1, 2, 3}[r.Intn(6)]
	for i := 0; i < pool; i++ {
		g := genResult(r, kind, false)
		for isNilICMP(g) { // the scanners never produce it, and String() of such a value panics
			g = genResult(r, kind, false)
		}
		base = append(base, g)
	}
	var gs []genRes
	for i := 0; i < n; i++ {
		b := base[r.Intn(pool)]
		// a NEW value with the same ID but (sometimes) different other fields: de-duplication is by ID
		g := b
		switch x := b.real.(type) {
		case *arp.ScanResult:
			c := *x
			if r.Bool() {
				c.MAC = fmt.Sprintf("02:00:00:00:00:%02x", r.Intn(256))
			}
			g.real = &c
			g.desc = resDesc{0, []val{sval(c.IP), sval(c.MAC), sval(c.Vendor)}}
		case *tcp.ScanResult:
			c := *x
			if r.Bool() {
				c.Flags = []string{"", "sa", "r"}[r.Intn(3)]
			}
			g.real = &c
			g.desc = resDesc{1, []val{sval(c.ScanType), sval(c.IP), nval(int64(c.Port)), sval(c.Flags)}}
		case *icmp.ScanResult:
			c := *x
			c.TTL = uint8(r.Intn(256))
			g.real = &c
			d := append([]val{}, b.desc.Vals...)
			d[2] = nval(int64(c.TTL))
			g.desc = resDesc{2, d}
		case *socks5.ScanResult:
			c := *x
			g.real = &c
		}
		gs = append(gs, g)
	}
	drop := r.Intn(4) == 0 && !stagingBroken
	class := "closed"
	sink := &sinkLogger{limit: -1, paused: make(chan struct{}), resume: make(chan struct{}), finised: make(chan struct{})}
	capIn := r.Intn(4)
	if drop {
		// stage: everything but the last result flows through; the sink then stops receiving, the
		// last result is offered and the context is cancelled while nobody receives
		class = "cancel-while-offering"
		capIn = 0
		seen := map[string]bool{}
		cnt := 0
		for _, g := range gs[:n-1] {
			if !seen[g.real.ID()] {
				seen[g.real.ID()] = true
				cnt++
			}
		}
		sink.limit = cnt
	}
	ul := log.NewUniqueLogger(sink)
	ctx, cancel := context.WithCancel(context.Background())
	defer cancel()
	in := make(chan scan.Result, capIn)
	go ul.LogResults(ctx, in)
	// every blocking step is bounded: a changed implementation must not hang the driver
	offer := func(x scan.Result) bool {
		select {
		case in <- x:
			return true
		case <-time.After(3 * time.Second):
			return false
		}
	}
	stuck := func(what string) row {
		cancel()
		select {
		case <-sink.resume:
		default:
			close(sink.resume)
		}
		if drop {
			stagingBroken = true
			return row{T: "skip", Gen: gen, Class: "staging-failed", Spec: ""}
		}
		return row{T: "uniq", Gen: gen, Class: class, Spec: what}
	}
	if drop {
		for _, g := range gs[:n-1] {
			if !offer(g.real) {
				return stuck("")
			}
		}
		select {
		case <-sink.paused:
		case <-time.After(3 * time.Second):
			return stuck("")
		}
		if !offer(gs[n-1].real) { // taken by the de-duplicating goroutine (unbuffered)
			return stuck("")
		}
		time.Sleep(2 * time.Millisecond)
		cancel()
		time.Sleep(20 * time.Millisecond)
		close(sink.resume)
	} else {
		for i, g := range gs {
			if !offer(g.real) {
				return stuck(fmt.Sprintf("the unique logger stops taking results after %d of %d", i, n))
			}
		}
		close(in)
	}
	select {
	case <-sink.finised:
	case <-time.After(20 * time.Second):
		return row{T: "uniq", Gen: gen, Class: class, Spec: "the unique logger does not finish after its input ended"}
	}
	rw := row{T: "uniq", Gen: gen, Class: class, Nontrivial: n > pool}
	for _, g := range gs {
		rw.Rs = append(rw.Rs, g.desc)
	}
	rw.Outs = []int{}
	for _, got := range sink.got {
		idx := -1
		for i, g := range gs {
			if g.real == got {
				idx = i
			}
		}
		rw.Outs = append(rw.Outs, idx)
	}
	// the history bit of the model: was the last result, if fresh, dropped by the cancellation?
	if drop {
		lastFresh := true
		for _, g := range gs[:n-1] {
			if g.real.ID() == gs[n-1].real.ID() {
				lastFresh = false
			}
		}
		gotLast := len(rw.Outs) > 0 && rw.Outs[len(rw.Outs)-1] == n-1
		rw.Drop = lastFresh && !gotLast
	}
	// the property on the implementation alone (complete histories): exactly the first sightings, in order
	if !drop {
		seen := map[string]bool{}
		var want []int
		for i, g := range gs {
			if !seen[hostKey(g.real)] {
				seen[hostKey(g.real)] = true
				want = append(want, i)
			}
		}
		if fmt.Sprint(want) != fmt.Sprint(rw.Outs) && !(len(want) == 0 && len(rw.Outs) == 0) {
			rw.Spec = fmt.Sprintf("passed on results %v, first sightings are %v", rw.Outs, want)
		}
	}
	return rw
}

// ---------------------------------------------------------------- live ARP scan: the command's own logger

// liveCase feeds a result sequence with repetitions to the logger `sx arp --json --live` builds
// (arpCmdOpts.getLogger: JSON logger on os.Stdout wrapped in the unique logger) and records the
// bytes that reach standard output.
func liveCase(r *hlib.SplitMix64, gen string) row {
	n := 1 + r.Intn(12)
	pool := 1 + r.Intn(4)
	var ips []string
	for i := 0; i < pool; i++ {
		s := fmt.Sprintf("192.168.0.%d", 1+r.Intn(250))
		if r.Intn(5) == 0 {
			s, _ = nasty(r)
		}
		ips = append(ips, s)
	}
	var gs []genRes
	for i := 0; i < n; i++ {
		x := &arp.ScanResult{IP: ips[r.Intn(pool)], MAC: fmt.Sprintf("02:00:00:00:%02x:%02x", r.Intn(256), r.Intn(256)), Vendor: []string{"", "Apple, Inc.", "A&B <C>"}[r.Intn(3)]}
		gs = append(gs, genRes{real: x, desc: resDesc{0, []val{sval(x.IP), sval(x.MAC), sval(x.Vendor)}}})
	}
	return liveRun(gs, gen, "arp-live-json", r.Intn(3), n > pool)
}

// hostsCase: an explicit list of addresses (a minimised failing history), each seen in the given order,
// through the same logger.
func hostsCase(list string, gen string) row {
	var gs []genRes
	for i, ip := range strings.Split(list, ",") {
		x := &arp.ScanResult{IP: ip, MAC: fmt.Sprintf("02:00:00:00:00:%02x", i%256), Vendor: ""}
		gs = append(gs, genRes{real: x, desc: resDesc{0, []val{sval(x.IP), sval(x.MAC), sval(x.Vendor)}}})
	}
	return liveRun(gs, gen, "minimal-history", 0, true)
}

// liveRun feeds gs to the logger `sx arp --json --live` builds and records standard output.
func liveRun(gs []genRes, gen, class string, capIn int, nontrivial bool) row {
	n := len(gs)
	pr, pw, err := os.Pipe()
	if err != nil {
		panic(err)
	}
	old := os.Stdout
	os.Stdout = pw
	lg, err := command.VerifC14ARPLogger(true, time.Second)
	os.Stdout = old
	if err != nil {
		panic(err)
	}
	var got bytes.Buffer
	rd := make(chan struct{})
	go func() { io.Copy(&got, pr); close(rd) }()
	ctx, cancel := context.WithCancel(context.Background())
	defer cancel()
	in := make(chan scan.Result, capIn)
	done := make(chan struct{})
	go func() { lg.LogResults(ctx, in); close(done) }()
	rw := row{T: "live", Gen: gen, Class: class, Nontrivial: nontrivial}
	for i, g := range gs {
		select {
		case in <- g.real:
		case <-time.After(5 * time.Second):
			cancel()
			pw.Close()
			rw.Spec = fmt.Sprintf("the live ARP logger stops taking results after %d of %d", i, n)
			return rw
		}
	}
	close(in)
	select {
	case <-done:
	case <-time.After(20 * time.Second):
		pw.Close()
		rw.Spec = "the live ARP logger does not finish after its input ended"
		return rw
	}
	pw.Close()
	<-rd
	pr.Close()
	for _, g := range gs {
		rw.Rs = append(rw.Rs, g.desc)
	}
	rw.Writes = []string{hx(got.Bytes())}
	// the property on the implementation alone: one line per distinct address, at its first sighting
	seen := map[string]bool{}
	var want []byte
	for _, g := range gs {
		if k := hostKey(g.real); !seen[k] {
			seen[k] = true
			enc, _ := g.real.MarshalJSON()
			want = append(append(want, enc...), '\n')
		}
	}
	if !bytes.Equal(got.Bytes(), want) {
		rw.Spec = fmt.Sprintf("standard output has %d lines, expected the %d first sightings in order (JSON mode, live)", bytes.Count(got.Bytes(), []byte{'\n'}), len(seen))
	}
	return rw
}

// ---------------------------------------------------------------- big history: lossy de-duplication keys

type ipSink struct {
	ips  []string
	done chan struct{}
}

func (s *ipSink) Error(error) {}
func (s *ipSink) LogResults(ctx context.Context, results <-chan scan.Result) {
	defer close(s.done)
	for r := range results {
		if a, ok := r.(*arp.ScanResult); ok {
			s.ips = append(s.ips, a.IP)
		} else {
			s.ips = append(s.ips, "?")
		}
	}
}

func bigIP(i int) string { return fmt.Sprintf("10.%d.%d.%d", (i>>16)&255, (i>>8)&255, i&255) }

// runUnique feeds the hosts produced by next (until it returns -1) through a fresh real unique
// logger and returns the addresses passed on, in order (nil if it got stuck).
func runUnique(next func() int) []string {
	sink := &ipSink{done: make(chan struct{})}
	ul := log.NewUniqueLogger(sink)
	ctx, cancel := context.WithCancel(context.Background())
	defer cancel()
	in := make(chan scan.Result, 1024)
	go ul.LogResults(ctx, in)
	stuck := time.After(60 * time.Second)
	for i := next(); i >= 0; i = next() {
		select {
		case in <- &arp.ScanResult{IP: bigIP(i), MAC: "02:00:00:00:00:01"}:
		case <-stuck:
			return nil
		}
	}
	close(in)
	select {
	case <-sink.done:
	case <-stuck:
		return nil
	}
	return sink.ips
}

func listNext(l []int) func() int {
	k := 0
	return func() int {
		if k >= len(l) {
			return -1
		}
		k++
		return l[k-1]
	}
}

// bigCase: n distinct hosts 10.0.0.0 upwards (the addresses of a /13 for n = 2^19), every host seen three
// times with other hosts in between, through the real unique logger; judged on the implementation alone:
// every distinct host is passed on exactly once, in first-sighting order.  It does not depend on how the
// logger remembers hosts, so any lossy key (digest, prefix, ...) that confuses two of these hosts shows.
// When a host is lost, the earlier host it is confused with is isolated and a two-host history is returned too.
func bigCase(n int, gen string) []row {
	rw := row{T: "big", Gen: gen, Class: "big-history", Nontrivial: true}
	// history: i, i-1, i-7 (as a live scan re-sees hosts of earlier passes)
	i, phase := 0, 0
	got := runUnique(func() int {
		for i < n {
			switch phase {
			case 0:
				phase = 1
				return i
			case 1:
				phase = 2
				if i >= 1 {
					return i - 1
				}
			default:
				phase = 0
				i++
				if i-1 >= 7 {
					return i - 1 - 7
				}
			}
		}
		return -1
	})
	if got == nil {
		rw.Spec = "the unique logger does not finish a history of many hosts"
		return []row{rw}
	}
	count := make(map[string]int, n)
	for _, ip := range got {
		count[ip]++
	}
	missing, twice := -1, -1
	nmiss, ntwice := 0, 0
	for k := 0; k < n; k++ {
		switch c := count[bigIP(k)]; {
		case c == 0:
			nmiss++
			if missing < 0 {
				missing = k
			}
		case c > 1:
			ntwice++
			if twice < 0 {
				twice = k
			}
		}
	}
	order := -1
	if nmiss == 0 && ntwice == 0 {
		for k := 0; k < n; k++ {
			if got[k] != bigIP(k) {
				order = k
				break
			}
		}
	}
	switch {
	case twice >= 0:
		rw.Spec = fmt.Sprintf("%d of %d distinct hosts are printed more than once, first %s (each host was seen three times)", ntwice, n, bigIP(twice))
		return []row{rw, hostsCase(bigIP(twice)+","+bigIP(twice+1)+","+bigIP(twice), "hosts:"+bigIP(twice)+","+bigIP(twice+1)+","+bigIP(twice))}
	case order >= 0:
		rw.Spec = fmt.Sprintf("hosts are not printed in first-sighting order: position %d has %s, expected %s", order, got[order], bigIP(order))
		return []row{rw}
	case missing < 0:
		return []row{rw}
	}
	h := missing
	// which earlier host is h confused with?  Candidates: the hosts that get lost when the order is reversed.
	partner := -1
	drops := func(g int) bool {
		out := runUnique(listNext([]int{g, h}))
		return out != nil && len(out) == 1 && out[0] == bigIP(g)
	}
	k := n
	rev := runUnique(func() int { k--; return k })
	if rev != nil {
		rc := make(map[string]bool, n)
		for _, ip := range rev {
			rc[ip] = true
		}
		tried := 0
		for g := 0; g < h && tried < 4096; g++ {
			if !rc[bigIP(g)] {
				tried++
				if drops(g) {
					partner = g
					break
				}
			}
		}
	}
	if partner < 0 { // bisect: the shortest prefix of the hosts after which h is no longer printed
		lo, hi := 0, h // invariant: prefix [0,lo) keeps h, prefix [0,hi) loses h
		lost := func(m int) bool {
			j := 0
			out := runUnique(func() int {
				if j < m {
					j++
					return j - 1
				}
				if j == m {
					j++
					return h
				}
				return -1
			})
			return out != nil && (len(out) == 0 || out[len(out)-1] != bigIP(h))
		}
		if lost(hi) {
			for hi-lo > 1 {
				mid := (lo + hi) / 2
				if lost(mid) {
					hi = mid
				} else {
					lo = mid
				}
			}
			if drops(hi - 1) {
				partner = hi - 1
			}
		}
	}
	rw.Spec = fmt.Sprintf("%d of %d distinct hosts are never printed, first %s", nmiss, n, bigIP(h))
	if partner < 0 {
		return []row{rw}
	}
	rw.Spec += fmt.Sprintf(": it is taken for the earlier host %s (the history %s, %s prints only the first)", bigIP(partner), bigIP(partner), bigIP(h))
	list := bigIP(partner) + "," + bigIP(h) + "," + bigIP(partner) + "," + bigIP(h)
	rw.ReplayGen = "hosts:" + list
	return []row{rw, hostsCase(list, "hosts:"+list)}
}

// ---------------------------------------------------------------- producer bursts: faithful from the producer through the queue

func serialize(ls ...gopacket.SerializableLayer) []byte {
	buf := gopacket.NewSerializeBuffer()
	if err := gopacket.SerializeLayers(buf, gopacket.SerializeOptions{FixLengths: true, ComputeChecksums: true}, ls...); err != nil {
		panic(err)
	}
	return append([]byte{}, buf.Bytes()...)
}

// burstCase drives a REAL producer (arp ScanMethod, tcp ScanMethod, icmp/udp PacketProcessor) with a burst of
// distinct reply frames (with repeats: A,B,A,C,...) into the real result channel, waits until the whole burst is
// queued, and only then lets the real logger (plain JSON, or the unique logger around it) print it.  Judged on
// the implementation alone: the printed lines are the records of the frames, in order (unique: first sightings).
// The expected records are built by this driver from the frame fields, never read from the queued values.
func burstCase(r *hlib.SplitMix64, gen string) row {
	producer := []string{"arp", "tcp", "icmp"}[r.Intn(3)]
	unique := r.Intn(2) == 0
	class := "burst-" + producer
	if unique {
		class += "+unique"
	} else {
		class += "+plain"
	}
	rw := row{T: "log", Gen: gen, Class: class, Stop: -1, Nontrivial: true}
	if unique {
		rw.T = "live"
	}
	ctx, cancel := context.WithCancel(context.Background())
	defer cancel()
	results := scan.NewResultChan(ctx, 64)
	myMAC, myIP := net.HardwareAddr{2, 0, 0, 0, 0, 1}, net.IP{192, 168, 0, 254}
	var process func(frame []byte) error
	scanType := ""
	switch producer {
	case "arp":
		sm := arp.NewScanMethod(nil, results)
		process = func(f []byte) error { return sm.ProcessPacketData(f, nil) }
	case "tcp":
		scanType = tcp.SYNScanType
		sm := tcp.NewScanMethod(scanType, nil, results)
		process = func(f []byte) error { return sm.ProcessPacketData(f, nil) }
	default:
		scanType = []string{"icmp", "udp"}[r.Intn(2)]
		pp := icmp.NewPacketProcessor(scanType, results, false)
		process = func(f []byte) error { return pp.ProcessPacketData(f, nil) }
	}
	// hosts of the burst
	npool := 2 + r.Intn(4)
	type host struct {
		ip   net.IP
		mac  net.HardwareAddr
		port uint16
		ttl  uint8
		typ  uint8
		code uint8
		syn  bool
		ack  bool
		rst  bool
	}
	var pool []host
	for i := 0; i < npool; i++ {
		h := host{ip: net.IP{10, byte(r.Intn(3)), byte(r.Intn(250)), byte(1 + i)}, mac: net.HardwareAddr(r.Bytes(6)), port: uint16(1 + r.Intn(65535)),
			ttl: uint8(1 + r.Intn(255)), typ: []uint8{0, 3, 11}[r.Intn(3)], code: uint8(r.Intn(4)), syn: r.Bool(), ack: true, rst: r.Bool()}
		if r.Intn(2) == 0 {
			copy(h.mac, [][]byte{{0xb0, 0xbe, 0x76}, {0x80, 0xc5, 0xf2}, {0x88, 0x53, 0x95}, {0x00, 0x00, 0x0c}}[r.Intn(4)])
		}
		pool = append(pool, h)
	}
	n := 2 + r.Intn(11)
	var want []genRes
	for i := 0; i < n; i++ {
		h := pool[r.Intn(npool)]
		if i < npool {
			h = pool[i] // every host at least once when the burst is long enough, repeats after that
		}
		var frame []byte
		var g genRes
		switch producer {
		case "arp":
			frame = serialize(&layers.Ethernet{SrcMAC: h.mac, DstMAC: myMAC, EthernetType: layers.EthernetTypeARP},
				&layers.ARP{AddrType: layers.LinkTypeEthernet, Protocol: layers.EthernetTypeIPv4, HwAddressSize: 6, ProtAddressSize: 4,
					Operation: layers.ARPReply, SourceHwAddress: h.mac, SourceProtAddress: h.ip.To4(), DstHwAddress: myMAC, DstProtAddress: myIP.To4()})
			var pfx [3]byte
			copy(pfx[:], h.mac[:3])
			x := &arp.ScanResult{IP: h.ip.String(), MAC: h.mac.String(), Vendor: macs.ValidMACPrefixMap[pfx]}
			g = genRes{real: x, desc: resDesc{0, []val{sval(x.IP), sval(x.MAC), sval(x.Vendor)}}}
		case "tcp":
			ipl := &layers.IPv4{Version: 4, TTL: h.ttl, Protocol: layers.IPProtocolTCP, SrcIP: h.ip.To4(), DstIP: myIP.To4()}
			tl := &layers.TCP{SrcPort: layers.TCPPort(h.port), DstPort: 40000, SYN: h.syn, ACK: h.ack, RST: h.rst, Window: 1000}
			if err := tl.SetNetworkLayerForChecksum(ipl); err != nil {
				panic(err)
			}
			frame = serialize(&layers.Ethernet{SrcMAC: h.mac, DstMAC: myMAC, EthernetType: layers.EthernetTypeIPv4}, ipl, tl)
			x := &tcp.ScanResult{ScanType: scanType, IP: h.ip.String(), Port: h.port, Flags: tcp.AllFlags(&layers.TCP{SYN: h.syn, ACK: h.ack, RST: h.rst})}
			g = genRes{real: x, desc: resDesc{1, []val{sval(x.ScanType), sval(x.IP), nval(int64(x.Port)), sval(x.Flags)}}}
		default:
			ipl := &layers.IPv4{Version: 4, TTL: h.ttl, Protocol: layers.IPProtocolICMPv4, SrcIP: h.ip.To4(), DstIP: myIP.To4()}
			il := &layers.ICMPv4{TypeCode: layers.CreateICMPv4TypeCode(h.typ, h.code), Id: 1, Seq: uint16(i)}
			frame = serialize(&layers.Ethernet{SrcMAC: h.mac, DstMAC: myMAC, EthernetType: layers.EthernetTypeIPv4}, ipl, il, gopacket.Payload([]byte("abcdefgh")))
			x := &icmp.ScanResult{ScanType: scanType, IP: h.ip.String(), TTL: h.ttl, ICMP: &icmp.Response{Type: h.typ, Code: h.code}}
			g = genRes{real: x, desc: resDesc{2, []val{sval(x.ScanType), sval(x.IP), nval(int64(x.TTL)), {"ptr": []val{nval(int64(h.typ)), nval(int64(h.code))}}}}}
		}
		if err := process(frame); err != nil {
			rw.Spec = "the " + producer + " processor rejects a well-formed reply frame: " + err.Error()
			return rw
		}
		want = append(want, g)
	}
	// the whole burst is queued before anything is printed: take it off the real result channel only now
	// (the queued values are not looked at) and hand it to the real logger as a closed channel
	queued := make(chan scan.Result, n)
	for i := 0; i < n; i++ {
		select {
		case x := <-results.Chan():
			queued <- x
		case <-time.After(5 * time.Second):
			rw.Spec = fmt.Sprintf("the %s processor reported %d of %d well-formed reply frames", producer, i, n)
			return rw
		}
	}
	close(queued)
	w := &recWriter{}
	lg, err := log.NewLogger(w, producer, log.JSON())
	if err != nil {
		panic(err)
	}
	var lgr log.Logger = lg
	if unique {
		lgr = log.NewUniqueLogger(lg)
	}
	done := make(chan struct{})
	go func() { lgr.LogResults(ctx, queued); close(done) }()
	select {
	case <-done:
	case <-time.After(20 * time.Second):
		rw.Spec = "the logger does not finish a closed burst"
		return rw
	}
	var stream []byte
	w.mu.Lock()
	for _, p := range w.writes {
		stream = append(stream, p...)
	}
	w.mu.Unlock()
	rw.Writes = []string{hx(stream)}
	var expect [][]byte
	seen := map[string]bool{}
	for _, g := range want {
		rw.Rs = append(rw.Rs, g.desc)
		if unique {
			if seen[hostKey(g.real)] {
				continue
			}
			seen[hostKey(g.real)] = true
		}
		enc, _ := g.real.MarshalJSON()
		expect = append(expect, enc)
	}
	lines := bytes.Split(bytes.TrimSuffix(stream, []byte{'\n'}), []byte{'\n'})
	if len(stream) == 0 {
		lines = nil
	}
	for i := 0; i < len(expect) || i < len(lines); i++ {
		switch {
		case i >= len(lines):
			rw.Spec = fmt.Sprintf("burst of %d %s replies: line %d is missing, expected %s", n, producer, i+1, expect[i])
		case i >= len(expect):
			rw.Spec = fmt.Sprintf("burst of %d %s replies: unexpected extra line %d: %s", n, producer, i+1, lines[i])
		case !bytes.Equal(lines[i], expect[i]):
			rw.Spec = fmt.Sprintf("burst of %d %s replies queued before printing: line %d is %s, the frame's record is %s", n, producer, i+1, lines[i], expect[i])
		default:
			continue
		}
		break
	}
	return rw
}

// ---------------------------------------------------------------- back-pressure: the result channel is a FIFO

type gatedWriter struct {
	gate chan struct{}
	mu   sync.Mutex
	buf  bytes.Buffer
	n    int
}

func (w *gatedWriter) Write(p []byte) (int, error) {
	<-w.gate
	w.mu.Lock()
	defer w.mu.Unlock()
	w.buf.Write(p)
	w.n += bytes.Count(p, []byte{'\n'})
	return len(p), nil
}

func (w *gatedWriter) lines() int {
	w.mu.Lock()
	defer w.mu.Unlock()
	return w.n
}

// queueCase: ONE producer puts n results (n > 2 x capacity + what is in flight) into the real
// scan.NewResultChan while the writer behind the real JSON logger is stalled, then the writer is
// released.  capacity 4 and the commands' capacity 1000.  Judged on the implementation alone: all n
// lines, in production order.
func queueCase(r *hlib.SplitMix64, gen string, capacity int) row {
	n := 2*capacity + 10 + r.Intn(3*capacity+20)
	if capacity >= 100 {
		n = 2*capacity + 200 + r.Intn(400)
	}
	rw := row{T: "log", Gen: gen, Class: fmt.Sprintf("backpressure-cap%d", capacity), Stop: -1, Nontrivial: true}
	ctx, cancel := context.WithCancel(context.Background())
	defer cancel()
	results := scan.NewResultChan(ctx, capacity)
	w := &gatedWriter{gate: make(chan struct{})}
	lg, err := log.NewLogger(w, "queue", log.JSON())
	if err != nil {
		panic(err)
	}
	lctx, lcancel := context.WithCancel(context.Background())
	defer lcancel()
	ldone := make(chan struct{})
	go func() { lg.LogResults(lctx, results.Chan()); close(ldone) }()
	var gs []genRes
	for i := 0; i < n; i++ {
		x := &tcp.ScanResult{ScanType: tcp.SYNScanType, IP: fmt.Sprintf("10.9.%d.%d", i/250, i%250), Port: uint16(1 + i%65535)}
		gs = append(gs, genRes{real: x, desc: resDesc{1, []val{sval(x.ScanType), sval(x.IP), nval(int64(x.Port)), sval(x.Flags)}}})
	}
	pdone := make(chan struct{})
	go func() { // the one producer (the packet receive loop)
		for _, g := range gs {
			results.Put(g.real)
		}
		close(pdone)
	}()
	// let the queue fill up behind the stalled writer (the producer blocks in Put, or has spilled everything)
	select {
	case <-pdone:
	case <-time.After(30 * time.Millisecond):
	}
	close(w.gate)
	select {
	case <-pdone:
	case <-time.After(20 * time.Second):
		rw.Spec = "the producer is still blocked in Put although the writer runs"
		return rw
	}
	for dl := time.Now().Add(10 * time.Second); w.lines() < n && time.Now().Before(dl); {
		time.Sleep(time.Millisecond)
	}
	lcancel()
	<-ldone
	w.mu.Lock()
	stream := append([]byte{}, w.buf.Bytes()...)
	w.mu.Unlock()
	rw.Writes = []string{hx(stream)}
	lines := bytes.Split(bytes.TrimSuffix(stream, []byte{'\n'}), []byte{'\n'})
	if len(stream) == 0 {
		lines = nil
	}
	for i, g := range gs {
		rw.Rs = append(rw.Rs, g.desc)
		if rw.Spec != "" {
			continue
		}
		enc, _ := g.real.MarshalJSON()
		switch {
		case i >= len(lines):
			rw.Spec = fmt.Sprintf("%d results produced by one producer into NewResultChan(ctx, %d) behind a stalled writer: only %d lines are printed", n, capacity, len(lines))
		case !bytes.Equal(lines[i], enc):
			rw.Spec = fmt.Sprintf("%d results produced by one producer into NewResultChan(ctx, %d) behind a stalled writer: line %d is %s but the result produced %d-th is %s (lines are not in production order)",
				n, capacity, i+1, lines[i], i+1, enc)
		}
	}
	if rw.Spec == "" && len(lines) > n {
		rw.Spec = fmt.Sprintf("%d results produced, %d lines printed", n, len(lines))
	}
	return rw
}

// ---------------------------------------------------------------- slow standard output while the flush timer fires

type slowWriter struct {
	recWriter
	delay time.Duration
}

func (w *slowWriter) Write(p []byte) (int, error) {
	time.Sleep(w.delay) // a terminal, a pipe into a slow consumer
	return w.recWriter.Write(p)
}

// slowCase: a steady stream of results into the real JSON logger whose writer takes a while per Write
// and whose flush interval is shorter than that, so that flushes and result writes overlap in time all
// the time.  Judged on the implementation alone: every result exactly one line, in order.
func slowCase(r *hlib.SplitMix64, gen string) row {
	n := 20 + r.Intn(40)
	rw := row{T: "log", Gen: gen, Class: "closed+slow-writer+ticks", Stop: -1, Nontrivial: true}
	w := &slowWriter{delay: time.Duration(200+r.Intn(400)) * time.Microsecond}
	lg, err := log.NewLogger(w, "slow", log.JSON(), log.FlushInterval(time.Duration(50+r.Intn(200))*time.Microsecond))
	if err != nil {
		panic(err)
	}
	ctx, cancel := context.WithCancel(context.Background())
	defer cancel()
	ch := make(chan scan.Result, 8)
	done := make(chan struct{})
	go func() { lg.LogResults(ctx, ch); close(done) }()
	var gs []genRes
	for i := 0; i < n; i++ {
		x := &tcp.ScanResult{ScanType: tcp.SYNScanType, IP: fmt.Sprintf("10.8.0.%d", i), Port: uint16(1 + i)}
		gs = append(gs, genRes{real: x, desc: resDesc{1, []val{sval(x.ScanType), sval(x.IP), nval(int64(x.Port)), sval(x.Flags)}}})
		select {
		case ch <- x:
		case <-time.After(5 * time.Second):
			rw.Spec = fmt.Sprintf("LogResults stops taking results after %d of %d", i, n)
			return rw
		}
		if r.Intn(3) == 0 {
			time.Sleep(time.Duration(r.Intn(150)) * time.Microsecond)
		}
	}
	close(ch)
	select {
	case <-done:
	case <-time.After(20 * time.Second):
		rw.Spec = "LogResults does not return after its input ended"
		return rw
	}
	time.Sleep(2 * w.delay) // a straggling background flush, if any
	var stream, want []byte
	w.mu.Lock()
	for _, p := range w.writes {
		stream = append(stream, p...)
	}
	w.mu.Unlock()
	rw.Writes = []string{hx(stream)}
	for _, g := range gs {
		rw.Rs = append(rw.Rs, g.desc)
		enc, _ := g.real.MarshalJSON()
		want = append(append(want, enc...), '\n')
	}
	if !bytes.Equal(stream, want) {
		lines := bytes.Count(stream, []byte{'\n'})
		rw.Spec = fmt.Sprintf("%d results through the JSON logger while its writer takes %v per write and the flush timer fires every few hundred microseconds: the output has %d lines", n, w.delay, lines)
		if lines == n {
			rw.Spec += " but they are not the results' encodings in order (merged, split or reordered)"
		}
	}
	return rw
}

// ---------------------------------------------------------------- standard output holds whole lines at any moment

// linesCase: the logger exactly as the packet / generic commands build it in JSON mode (their getLogger, hook
// command/verif_export_c14.go) on a writer that stands for standard output and records every Write; more than
// 4 KiB of results are taken while the result channel stays OPEN (the scan is still running).  Judged on the
// implementation alone: at that moment -- where a SIGKILL, SIGPIPE or an observer of the file may strike --
// standard output consists of whole lines, each the JSON object of the next result; and every single Write
// that ever reaches it carries whole lines.
func linesCase(r *hlib.SplitMix64, gen string) row {
	which := 0
	if p := strings.Split(gen, ":"); len(p) == 3 {
		which, _ = strconv.Atoi(p[1])
	}
	name := []string{"packet", "generic"}[which%2]
	n := 150 + r.Intn(350)
	rw := row{T: "log", Gen: gen, Class: "whole-lines+" + name + "-cmd", Nontrivial: true}
	w := &recWriter{}
	var lg log.Logger
	var err error
	if which%2 == 0 {
		lg, err = command.VerifC14PacketLogger("tcp", w, true)
	} else {
		lg, err = command.VerifC14GenericLogger("socks", w, true)
	}
	if err != nil {
		panic(err)
	}
	ctx, cancel := context.WithCancel(context.Background())
	defer cancel()
	ch := make(chan scan.Result) // unbuffered: a completed send means the logger took the result
	done := make(chan struct{})
	go func() { lg.LogResults(ctx, ch); close(done) }()
	var gs []genRes
	var want []byte
	for i := 0; i < n; i++ {
		x := &tcp.ScanResult{ScanType: tcp.SYNScanType, IP: fmt.Sprintf("10.%d.%d.%d", r.Intn(4), r.Intn(256), r.Intn(256)), Port: uint16(1 + r.Intn(65535))}
		gs = append(gs, genRes{real: x, desc: resDesc{1, []val{sval(x.ScanType), sval(x.IP), nval(int64(x.Port)), sval(x.Flags)}}})
		enc, _ := x.MarshalJSON()
		want = append(append(want, enc...), '\n')
		select {
		case ch <- x:
		case <-time.After(5 * time.Second):
			rw.Spec = fmt.Sprintf("LogResults stops taking results after %d of %d", i, n)
			return rw
		}
	}
	// the scan is still running (channel open); give the logger a moment to finish the write of the last result
	snapshot := func() (stream []byte, torn int) {
		w.mu.Lock()
		defer w.mu.Unlock()
		torn = -1
		for i, p := range w.writes {
			stream = append(stream, p...)
			if torn < 0 && (len(p) == 0 || p[len(p)-1] != '\n') {
				torn = i
			}
		}
		return
	}
	var now []byte
	torn := -1
	for dl := time.Now().Add(40 * time.Millisecond); time.Now().Before(dl); time.Sleep(time.Millisecond) {
		if now, torn = snapshot(); len(now) == len(want) {
			break
		}
	}
	switch {
	case len(now) > 0 && now[len(now)-1] != '\n':
		tail := now[bytes.LastIndexByte(now, '\n')+1:]
		rw.Spec = fmt.Sprintf("%d results (%d bytes) taken by the %s commands' JSON logger, scan still running: standard output ends with a torn line (%d bytes, no newline): %s",
			n, len(want), name, len(tail), tail)
	case !bytes.HasPrefix(want, now):
		rw.Spec = fmt.Sprintf("%d results taken by the %s commands' JSON logger, scan still running: standard output is not a sequence of the results' lines", n, name)
	case torn >= 0:
		rw.Spec = fmt.Sprintf("%d results taken by the %s commands' JSON logger: Write call %d to standard output does not end at a line boundary", n, name, torn+1)
	}
	cancel()
	select {
	case <-done:
	case <-time.After(20 * time.Second):
		rw.Spec = "LogResults does not return after cancellation"
		return rw
	}
	final, torn2 := snapshot()
	if rw.Spec == "" && torn2 >= 0 {
		rw.Spec = fmt.Sprintf("%d results taken by the %s commands' JSON logger: Write call %d to standard output does not end at a line boundary", n, name, torn2+1)
	}
	rw.Stop = n
	rw.Writes = []string{hx(final)}
	for _, g := range gs {
		rw.Rs = append(rw.Rs, g.desc)
	}
	return rw
}

// ---------------------------------------------------------------- record-length sweep

var lenKindNames = []string{"arp", "tcp", "icmp", "socks", "elastic", "docker"}

// asciiFill: n printable ASCII bytes that both escapers copy unchanged (one output byte each)
func asciiFill(r *hlib.SplitMix64, n int) string {
	const plain = "abcdefghijklmnopqrstuvwxyzABCDEFGHIJKLMNOPQRSTUVWXYZ0123456789 -_.:,;/()[]{}=+*#@!?~|^%$'`"
	b := make([]byte, n)
	for i := range b {
		b[i] = plain[r.Intn(len(plain))]
	}
	return string(b)
}

// sizedResult builds a result of the given type whose MarshalJSON output is EXACTLY want bytes long: the
// string its peer controls (arp vendor, tcp flags, icmp/socks address text, elastic cluster name inside the
// server's info map, docker daemon name inside the server's info struct) is a seeded prefix (one time in
// three a nasty string: escapes, multi-byte runes, broken UTF-8) padded with plain characters.  ok = false
// if the type's smallest record is longer than want.
func sizedResult(r *hlib.SplitMix64, kind, want int) (genRes, bool) {
	ip := fmt.Sprintf("10.%d.%d.%d", r.Intn(4), r.Intn(256), r.Intn(256))
	port := uint16(1 + r.Intn(65535))
	ttl := uint8(r.Intn(256))
	withIdx := r.Bool()
	prefix := ""
	if r.Intn(3) == 0 {
		prefix, _ = nasty(r)
		if len(prefix) > 160 {
			prefix = prefix[:160]
		}
	}
	build := func(f string) genRes {
		g := genRes{class: lenKindNames[kind] + ":sized"}
		switch kind {
		case 0:
			x := &arp.ScanResult{IP: ip, MAC: "00:11:22:33:44:55", Vendor: f}
			g.real, g.desc = x, resDesc{0, []val{sval(x.IP), sval(x.MAC), sval(x.Vendor)}}
			g.fresh = func() interface{} { return &shArp{} }
			e := shArp(*x)
			g.expect = &e
		case 1:
			x := &tcp.ScanResult{ScanType: tcp.FlagsScanType, IP: ip, Port: port, Flags: f}
			g.real, g.desc = x, resDesc{1, []val{sval(x.ScanType), sval(x.IP), nval(int64(x.Port)), sval(x.Flags)}}
			g.fresh = func() interface{} { return &shTCP{} }
			e := shTCP(*x)
			g.expect = &e
		case 2:
			x := &icmp.ScanResult{ScanType: "icmp", IP: f, TTL: ttl, ICMP: &icmp.Response{Type: 3, Code: 1}}
			g.real, g.desc = x, resDesc{2, []val{sval(x.ScanType), sval(x.IP), nval(int64(x.TTL)), {"ptr": []val{nval(3), nval(1)}}}}
			g.fresh = func() interface{} { return &shICMP{} }
			e := shICMP(*x)
			c := *x.ICMP
			e.ICMP = &c
			g.expect = &e
		case 3:
			x := &socks5.ScanResult{ScanType: socks5.ScanType, Version: 5, IP: f, Port: port, Auth: withIdx}
			g.real, g.desc = x, resDesc{3, []val{sval(x.ScanType), nval(5), sval(x.IP), nval(int64(x.Port)), bval(x.Auth)}}
			g.fresh = func() interface{} { return &shSocks{} }
			e := shSocks(*x)
			g.expect = &e
		case 4:
			x := &elastic.ScanResult{ScanType: elastic.ScanType, Proto: "http", Host: fmt.Sprintf("%s:%d", ip, port),
				Info: map[string]interface{}{"cluster_name": f}}
			ti := tree{"map", []interface{}{[]interface{}{hx([]byte("cluster_name")), tree{"str", hx([]byte(f))}}}}
			var tx tree = tree{"null"}
			if withIdx {
				x.Indexes = map[string]interface{}{"logs-1": true}
				tx = tree{"map", []interface{}{[]interface{}{hx([]byte("logs-1")), tree{"bool", true}}}}
			}
			g.real, g.desc = x, resDesc{4, []val{sval(x.ScanType), sval(x.Proto), sval(x.Host), {"tree": ti}, {"tree": tx}}}
			g.fresh = func() interface{} { return &shElastic{} }
			e := shElastic(*x)
			g.expect = &e
		default:
			x := &docker.ScanResult{ScanType: docker.ScanType, Proto: "https", Host: fmt.Sprintf("%s:%d", ip, port)}
			x.Info.Name = f
			x.Info.Containers = int(port)
			x.Version.Version = "20.10.7"
			g.real = x
			g.desc = resDesc{5, []val{sval(x.ScanType), sval(x.Proto), sval(x.Host),
				{"tree": treeOfValue(reflect.ValueOf(x.Info))}, {"tree": treeOfValue(reflect.ValueOf(x.Version))}}}
			g.fresh = func() interface{} { return &shDocker{} }
			e := shDocker(*x)
			g.expect = &e
		}
		return g
	}
	size := func(g genRes) int {
		out, err := g.real.MarshalJSON()
		if err != nil {
			panic(err)
		}
		return len(out)
	}
	// at least one padding character (an omitempty member appears only then); else the smallest record
	try := func(pre string) (genRes, bool) {
		if b1 := size(build(pre + "a")); b1 <= want {
			return build(pre + "a" + asciiFill(r, want-b1)), true
		}
		return genRes{}, false
	}
	g, ok := try(prefix)
	if !ok {
		g, ok = try("")
	}
	if !ok {
		g = build("")
		return g, size(g) == want
	}
	if size(g) != want {
		panic(fmt.Sprintf("harness: sized %s record is %d bytes, wanted %d", lenKindNames[kind], size(g), want))
	}
	return g, true
}

// lenSeed: the seed of the j-th record of length l in a sweep / length history with the given seed
func lenSeed(seed int64, l, j int) int64 { return derive(seed, l*16+j) }

type streamWriter struct {
	mu     sync.Mutex
	buf    bytes.Buffer
	writes int
}

func (w *streamWriter) Write(p []byte) (int, error) {
	w.mu.Lock()
	defer w.mu.Unlock()
	w.writes++
	return w.buf.Write(p) // copies p
}

func lenLogger(which int, w io.Writer) (log.Logger, string) {
	var lg log.Logger
	var err error
	name := "log.NewLogger(JSON())"
	switch which % 3 {
	case 0:
		lg, err = log.NewLogger(w, "c14", log.JSON())
	case 1:
		lg, err = command.VerifC14PacketLogger("c14", w, true)
		name = "the packet commands' JSON logger"
	default:
		lg, err = command.VerifC14GenericLogger("c14", w, true)
		name = "the generic commands' JSON logger"
	}
	if err != nil {
		panic(err)
	}
	return lg, name
}

// judgeLines is the property on the bytes standard output received for the results gs, judged on the
// implementation alone: as many lines as results, every line terminated, line i one complete JSON object
// that decodes back to the fields of result i (judge).  Returns "" or why not, and the index of the
// first result whose line is wrong.
func judgeLines(gs []genRes, stream []byte) (string, int) {
	rest := stream
	for i, g := range gs {
		enc, err := g.real.MarshalJSON()
		if err != nil {
			panic(err)
		}
		what := fmt.Sprintf("result %d of %d (%s record of %d bytes)", i+1, len(gs), strings.Split(g.class, ":")[0], len(enc))
		nl := bytes.IndexByte(rest, '\n')
		if nl < 0 {
			if len(rest) == 0 {
				return what + " has no line: the output ends after " + strconv.Itoa(i) + " lines", i
			}
			if len(rest) > len(enc) && bytes.Equal(rest[:len(enc)], enc) {
				return fmt.Sprintf("%s is not on a line of its own: no newline follows it, the next result continues the same line (...%s|%s...), which is not one JSON object (json.Valid = %v); the output has %d lines for %d results",
					what, tailOf(enc, 24), headOf(rest[len(enc):], 40), json.Valid(rest), bytes.Count(stream, []byte{'\n'}), len(gs)), i
			}
			return fmt.Sprintf("%s: its line is not terminated by a newline (output ends ...%s)", what, tailOf(rest, 40)), i
		}
		line := rest[:nl]
		rest = rest[nl+1:]
		if !bytes.Equal(line, enc) {
			if len(line) > len(enc) && bytes.Equal(line[:len(enc)], enc) && i+1 < len(gs) {
				return fmt.Sprintf("%s is not on a line of its own: its line continues with the next result (%d bytes: ...%s|%s...), which is not one JSON object (json.Valid = %v); the output has %d lines for %d results",
					what, len(line), tailOf(enc, 24), headOf(line[len(enc):], 40), json.Valid(line), bytes.Count(stream, []byte{'\n'}), len(gs)), i
			}
			if why := judge(g, line); why != "" {
				return what + ": " + why, i
			}
			return what + ": its line differs from its MarshalJSON encoding", i
		}
		if why := judge(g, line); why != "" {
			return what + ": " + why, i
		}
	}
	if len(rest) > 0 {
		return fmt.Sprintf("%d extra bytes after the line of the last result", len(rest)), len(gs) - 1
	}
	return "", -1
}

func tailOf(b []byte, n int) string {
	if len(b) > n {
		b = b[len(b)-n:]
	}
	return string(b)
}

func headOf(b []byte, n int) string {
	if len(b) > n {
		b = b[:n]
	}
	return string(b)
}

// runLen feeds gs through the real JSON logger (one goroutine, unbuffered channel, then close) and
// returns everything the writer received.
func runLen(which int, gs []genRes) (stream []byte, logger string, stuck string) {
	w := &streamWriter{}
	lg, name := lenLogger(which, w)
	ctx, cancel := context.WithCancel(context.Background())
	defer cancel()
	ch := make(chan scan.Result)
	done := make(chan struct{})
	go func() { lg.LogResults(ctx, ch); close(done) }()
	for i, g := range gs {
		select {
		case ch <- g.real:
		case <-time.After(5 * time.Second):
			return nil, name, fmt.Sprintf("LogResults stops taking results after %d of %d", i, len(gs))
		}
	}
	close(ch)
	select {
	case <-done:
	case <-time.After(20 * time.Second):
		return nil, name, "LogResults does not return after its input ended"
	}
	w.mu.Lock()
	defer w.mu.Unlock()
	return append([]byte{}, w.buf.Bytes()...), name, ""
}

// lenHistCase (lenhist:<kind>:<logger>:<seed>:<len>.<j>,<len>.<j>,...): a short history of records of the given
// exact encoded lengths through the real JSON logger; judged on the implementation (judgeLines) and handed to
// the model as a KLog case.
func lenHistCase(gen string) row {
	p := strings.Split(gen, ":")
	if len(p) != 5 {
		panic("bad gen string " + gen)
	}
	kind, _ := strconv.Atoi(p[1])
	which, _ := strconv.Atoi(p[2])
	seed, _ := strconv.ParseInt(p[3], 10, 64)
	var gs []genRes
	for _, it := range strings.Split(p[4], ",") {
		var l, j int
		if _, err := fmt.Sscanf(it, "%d.%d", &l, &j); err != nil {
			panic("bad gen string " + gen)
		}
		if g, ok := sizedResult(hlib.NewRand(lenSeed(seed, l, j)), kind, l); ok {
			gs = append(gs, g)
		}
	}
	rw := row{T: "log", Gen: gen, Class: "record-lengths+" + lenKindNames[kind], Stop: -1, Nontrivial: len(gs) > 0}
	stream, name, stuck := runLen(which, gs)
	if stuck != "" {
		rw.Spec = stuck
		return rw
	}
	for _, g := range gs {
		rw.Rs = append(rw.Rs, g.desc)
	}
	rw.Writes = []string{hx(stream)}
	if why, _ := judgeLines(gs, stream); why != "" {
		rw.Spec = fmt.Sprintf("%d %s records with encoded lengths %s through %s: %s", len(gs), lenKindNames[kind], lengthsOf(gs), name, why)
	}
	return rw
}

func lengthsOf(gs []genRes) string {
	var l []string
	for _, g := range gs {
		enc, _ := g.real.MarshalJSON()
		l = append(l, strconv.Itoa(len(enc)))
	}
	return strings.Join(l, ", ")
}

type sweepInfo struct {
	Lo, Hi, Records, Bytes, Lines int
}

// lenSweepCase (lensweep:<kind>:<logger>:<lo>:<hi>:<rep>:<seed>): records of ONE result type whose encoded JSON
// takes EVERY length lo..hi the type can have (rep records in a row per length, different contents), in
// increasing order through the real JSON logger; judged on the implementation alone (judgeLines: one complete
// JSON object per result, each on its own line, in order, decoding back to the result).  When a length fails,
// the three-record history around it is returned as a second row (replayable alone, also given to the model).
func lenSweepCase(gen string) []row {
	p := strings.Split(gen, ":")
	if len(p) != 7 {
		panic("bad gen string " + gen)
	}
	num := func(i int) int { n, _ := strconv.Atoi(p[i]); return n }
	kind, which, lo, hi, rep := num(1), num(2), num(3), num(4), num(5)
	seed, _ := strconv.ParseInt(p[6], 10, 64)
	type slot struct{ l, j int }
	var gs []genRes
	var slots []slot
	for l := lo; l <= hi; l++ {
		for j := 0; j < rep; j++ {
			if g, ok := sizedResult(hlib.NewRand(lenSeed(seed, l, j)), kind, l); ok {
				gs = append(gs, g)
				slots = append(slots, slot{l, j})
			}
		}
	}
	rw := row{T: "sweep", Gen: gen, Class: "record-length-sweep+" + lenKindNames[kind], Nontrivial: len(gs) > 0}
	if len(gs) == 0 {
		return []row{rw}
	}
	stream, name, stuck := runLen(which, gs)
	rw.Sweep = &sweepInfo{Lo: slots[0].l, Hi: slots[len(slots)-1].l, Records: len(gs), Bytes: len(stream), Lines: bytes.Count(stream, []byte{'\n'})}
	if stuck != "" {
		rw.Spec = stuck
		return []row{rw}
	}
	why, at := judgeLines(gs, stream)
	if why == "" {
		return []row{rw}
	}
	rw.Spec = fmt.Sprintf("%d %s records of every encoded length %d..%d (%d in a row per length) through %s: %s", len(gs), lenKindNames[kind],
		slots[0].l, slots[len(slots)-1].l, rep, name, why)
	// the short history around the failing record: its predecessor, itself, its successor
	var items []string
	for k := at - 1; k <= at+1; k++ {
		if k >= 0 && k < len(slots) {
			items = append(items, fmt.Sprintf("%d.%d", slots[k].l, slots[k].j))
		}
	}
	hist := fmt.Sprintf("lenhist:%d:%d:%d:%s", kind, which, seed, strings.Join(items, ","))
	small := lenHistCase(hist)
	if small.Spec != "" {
		rw.ReplayGen = hist
		return []row{rw, small}
	}
	return []row{rw}
}

// ---------------------------------------------------------------- driver

func derive(seed int64, i int) int64 {
	r := hlib.NewRand(seed ^ int64(uint64(i+1)*0x9E3779B97F4A7C15>>1))
	return r.Int63()
}

// one case from its generator string
func genCase(gen string) row {
	parts := strings.Split(gen, ":")
	num := func(i int) int64 {
		n, err := strconv.ParseInt(parts[i], 10, 64)
		if err != nil {
			panic("bad gen string " + gen)
		}
		return n
	}
	switch parts[0] {
	case "hosts": // hosts:<ip>,<ip>,...
		return hostsCase(strings.TrimPrefix(gen, "hosts:"), gen)
	case "big": // big:<n>
		return bigCase(int(num(1)), gen)[0]
	case "rec": // rec:<kind>:<long>:<seed>
		r := hlib.NewRand(num(3))
		return recCase(genResult(r, int(num(1)), num(2) == 1), gen)
	case "byte": // byte:<std>:<b>
		return strCase(string([]byte{byte(num(2))}), num(1) == 1, "one-byte-sweep", gen)
	case "pair": // pair:<std>:<b0>:<b1>
		return strCase(string([]byte{byte(num(2)), byte(num(3))}), num(1) == 1, "two-byte-sweep", gen)
	case "tri": // tri:<std>:<b0>:<b1>:<b2>
		return strCase(string([]byte{byte(num(2)), byte(num(3)), byte(num(4))}), num(1) == 1, "three-byte", gen)
	case "str": // str:<std>:<seed>
		r := hlib.NewRand(num(2))
		s, c := nasty(r)
		if r.Intn(40) == 0 {
			s, c = longString(r, 1<<14), "16KiB"
		}
		return strCase(s, num(1) == 1, "string:"+c, gen)
	case "dec":
		return decCase(hlib.NewRand(num(1)), gen)
	case "log":
		return logCase(hlib.NewRand(num(1)), gen)
	case "uniq":
		return uniqCase(hlib.NewRand(num(1)), gen)
	case "live":
		return liveCase(hlib.NewRand(num(1)), gen)
	case "burst":
		return burstCase(hlib.NewRand(num(1)), gen)
	case "slow":
		return slowCase(hlib.NewRand(num(1)), gen)
	case "lines": // lines:<0 packet|1 generic>:<seed>
		return linesCase(hlib.NewRand(num(2)), gen)
	case "queue": // queue:<capacity>:<seed>
		return queueCase(hlib.NewRand(num(2)), gen, int(num(1)))
	case "lenhist": // lenhist:<kind>:<logger>:<seed>:<len>.<j>,...
		return lenHistCase(gen)
	case "lensweep": // lensweep:<kind>:<logger>:<lo>:<hi>:<rep>:<seed>
		return lenSweepCase(gen)[0]
	}
	panic("bad gen string " + gen)
}

func main() {
	out := flag.String("out", "cases.jsonl", "output file")
	seed := flag.Int64("seed", 1, "seed")
	n := flag.Int("n", 2000, "number of generated result cases")
	hist := flag.Int("hist", 200, "number of logger / unique-logger histories (each)")
	ndec := flag.Int("dec", 400, "number of JSON texts for the decoder tie")
	nstr := flag.Int("str", 600, "number of raw strings")
	nburst := flag.Int("burst", 150, "number of producer bursts (arp/tcp/icmp processors -> result channel -> logger)")
	pairs := flag.Bool("pairs", false, "all 65536 two-byte strings, both escapers")
	big := flag.Int("big", 0, "number of distinct hosts of the big unique-logger history (0 = none)")
	one := flag.String("replay", "", "replay one case from its generator string")
	nsweep := flag.Int("sweep", 9000, "record-length sweep: every encoded length 1..sweep through the JSON logger (0 = none)")
	flag.Parse()
	w := hlib.NewOut(*out)
	defer w.Close()
	if *one != "" {
		w.Put(genCase(*one))
		return
	}
	if *big > 0 {
		for _, rw := range bigCase(*big, fmt.Sprintf("big:%d", *big)) {
			w.Put(rw)
		}
	}
	// all 256 one-byte strings through both escapers (the finite sweep of the theorem's byte classes)
	for std := 0; std < 2; std++ {
		for b := 0; b < 256; b++ {
			w.Put(genCase(fmt.Sprintf("byte:%d:%d", std, b)))
		}
	}
	if *pairs {
		for std := 0; std < 2; std++ {
			for b0 := 0; b0 < 256; b0++ {
				for b1 := 0; b1 < 256; b1++ {
					w.Put(genCase(fmt.Sprintf("pair:%d:%d:%d", std, b0, b1)))
				}
			}
		}
	} else {
		r := hlib.NewRand(derive(*seed, -7))
		for i := 0; i < 512; i++ {
			w.Put(genCase(fmt.Sprintf("pair:%d:%d:%d", r.Intn(2), 0xc0+r.Intn(0x40), 0x70+r.Intn(0x60))))
		}
	}
	// every 3-byte lead with its boundary second bytes (E0 A0, ED 9F/A0, F0 90, F4 8F/90 ...)
	for std := 0; std < 2; std++ {
		for _, b0 := range []int{0xe0, 0xe1, 0xec, 0xed, 0xee, 0xef, 0xf0, 0xf1, 0xf3, 0xf4, 0xf5} {
			for _, b1 := range []int{0x7f, 0x80, 0x8f, 0x90, 0x9f, 0xa0, 0xbf, 0xc0} {
				w.Put(genCase(fmt.Sprintf("tri:%d:%d:%d:%d", std, b0, b1, 0x80)))
			}
		}
	}
	k := 0
	for i := 0; i < *nstr; i++ {
		w.Put(genCase(fmt.Sprintf("str:%d:%d", i%2, derive(*seed, k))))
		k++
	}
	for i := 0; i < *n; i++ {
		kind := i % 6
		long := 0
		if i%97 == 5 && kind < 2 {
			long = 1
		}
		w.Put(genCase(fmt.Sprintf("rec:%d:%d:%d", kind, long, derive(*seed, k))))
		k++
	}
	for i := 0; i < *ndec; i++ {
		w.Put(genCase(fmt.Sprintf("dec:%d", derive(*seed, k))))
		k++
	}
	if *nburst > 0 {
		for i := 0; i < 8; i++ {
			w.Put(genCase(fmt.Sprintf("queue:4:%d", derive(*seed, k))))
			k++
		}
		w.Put(genCase(fmt.Sprintf("queue:1000:%d", derive(*seed, k))))
		k++
		for i := 0; i < 12; i++ {
			w.Put(genCase(fmt.Sprintf("slow:%d", derive(*seed, k))))
			k++
		}
		for i := 0; i < 6; i++ {
			w.Put(genCase(fmt.Sprintf("lines:%d:%d", i%2, derive(*seed, k))))
			k++
		}
	}
	if *nsweep > 0 {
		// record-length sweep (own seed space, so that the other stages keep their cases)
		rs := hlib.NewRand(derive(*seed, -11))
		ks := 1 << 20
		// the sweeps are independent of each other: four at a time, rows written in generation order
		var sweeps []chan []row
		slots := make(chan struct{}, 4)
		put := func(gen string) {
			c := make(chan []row, 1)
			sweeps = append(sweeps, c)
			go func() {
				slots <- struct{}{}
				c <- lenSweepCase(gen)
				<-slots
			}()
		}
		next := func() int64 { ks++; return derive(*seed, ks) }
		// every length of the window: the two server-sized types, and one packet type chosen by the seed
		put(fmt.Sprintf("lensweep:4:%d:1:%d:2:%d", rs.Intn(3), *nsweep, next()))
		put(fmt.Sprintf("lensweep:5:%d:1:%d:1:%d", rs.Intn(3), *nsweep, next()))
		put(fmt.Sprintf("lensweep:%d:%d:1:%d:1:%d", rs.Intn(4), rs.Intn(3), *nsweep, next()))
		// around the powers of two and page / buffer sizes: every type, three in a row per length
		for kind := 0; kind < 6; kind++ {
			for c := 512; c <= 65536; c *= 2 {
				put(fmt.Sprintf("lensweep:%d:%d:%d:%d:3:%d", kind, rs.Intn(3), c-2, c+2, next()))
			}
		}
		for _, c := range sweeps {
			for _, rw := range <-c {
				w.Put(rw)
			}
		}
		// short histories at such sizes, also evaluated by the model
		for i := 0; i < 6; i++ {
			c := 512 << uint(rs.Intn(4))
			w.Put(genCase(fmt.Sprintf("lenhist:%d:%d:%d:%d.0,%d.0,%d.1,%d.0,%d.0", []int{0, 1, 2, 3, 4, 4}[i], rs.Intn(3), next(), c-1, c, c, c+1, 60+rs.Intn(100))))
		}
	}
	for i := 0; i < *nburst; i++ {
		w.Put(genCase(fmt.Sprintf("burst:%d", derive(*seed, k))))
		k++
	}
	for i := 0; i < *hist; i++ {
		w.Put(genCase(fmt.Sprintf("log:%d", derive(*seed, k))))
		k++
		w.Put(genCase(fmt.Sprintf("uniq:%d", derive(*seed, k))))
		k++
		if i%4 == 0 {
			w.Put(genCase(fmt.Sprintf("live:%d", derive(*seed, k))))
			k++
		}
	}
	_ = os.Stdout
	_ = dtypes.Info{}
}
