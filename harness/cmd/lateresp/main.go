// lateresp: a "slow service" on the far end of a veth pair. It listens on an interface with an
// AF_PACKET socket and answers the first TCP SYN addressed to -port with a SYN+ACK after -delay.
// Used by the end-to-end stages that need a reply arriving late (C12, C16).
package main

import (
	"flag"
	"fmt"
	"os"
	"time"

	"github.com/google/gopacket"
	"github.com/google/gopacket/afpacket"
	"github.com/google/gopacket/layers"
)

func main() {
	iface := flag.String("i", "v1", "interface")
	port := flag.Int("port", 1, "answer SYNs to this destination port")
	delay := flag.Duration("delay", 100*time.Millisecond, "reply delay")
	count := flag.Int("count", 1, "number of SYNs to answer")
	life := flag.Duration("life", 3*time.Second, "exit after this time")
	flag.Parse()
	h, err := afpacket.NewTPacket(afpacket.SocketRaw, afpacket.OptInterface(*iface), afpacket.OptPollTimeout(50*time.Millisecond))
	if err != nil {
		fmt.Fprintln(os.Stderr, "lateresp:", err)
		os.Exit(2)
	}
	defer h.Close()
	fmt.Println("ready")
	deadline := time.Now().Add(*life)
	answered := 0
	var eth layers.Ethernet
	var ip layers.IPv4
	var tcp layers.TCP
	parser := gopacket.NewDecodingLayerParser(layers.LayerTypeEthernet, &eth, &ip, &tcp)
	parser.IgnoreUnsupported = true
	var decoded []gopacket.LayerType
	for time.Now().Before(deadline) {
		data, _, err := h.ZeroCopyReadPacketData()
		if err != nil {
			continue
		}
		if parser.DecodeLayers(data, &decoded) != nil || len(decoded) != 3 {
			continue
		}
		if !tcp.SYN || tcp.ACK || int(tcp.DstPort) != *port || answered >= *count {
			continue
		}
		answered++
		reth := &layers.Ethernet{SrcMAC: append([]byte(nil), eth.DstMAC...), DstMAC: append([]byte(nil), eth.SrcMAC...), EthernetType: layers.EthernetTypeIPv4}
		rip := &layers.IPv4{Version: 4, TTL: 64, Protocol: layers.IPProtocolTCP, SrcIP: append([]byte(nil), ip.DstIP...), DstIP: append([]byte(nil), ip.SrcIP...)}
		rtcp := &layers.TCP{SrcPort: tcp.DstPort, DstPort: tcp.SrcPort, SYN: true, ACK: true, Ack: tcp.Seq + 1, Seq: 1000, Window: 1024}
		rtcp.SetNetworkLayerForChecksum(rip)
		buf := gopacket.NewSerializeBuffer()
		if err := gopacket.SerializeLayers(buf, gopacket.SerializeOptions{FixLengths: true, ComputeChecksums: true}, reth, rip, rtcp); err != nil {
			fmt.Fprintln(os.Stderr, "lateresp:", err)
			os.Exit(2)
		}
		frame := append([]byte(nil), buf.Bytes()...)
		go func() {
			time.Sleep(*delay)
			h.WritePacketData(frame)
			fmt.Println("sent")
		}()
	}
}
