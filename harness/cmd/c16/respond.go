package main

// Responder mode for the end-to-end runs: `c16 -respond v1 -ip 10.78.0.2 -after 200ms` listens on the
// peer end of a veth pair inside the private network namespace the check created, prints "ready",
// counts the ARP requests it sees (the probes of `sx arp`), remembers the kernel timestamp of the
// last one, and answers the request for -ip with an ARP reply sent -after later.

import (
	"encoding/binary"
	"fmt"
	"net"
	"os"
	"sync"
	"time"

	afp "github.com/google/gopacket/afpacket"
	"verifharness/hlib"
)

type respRow struct {
	Kind        string `json:"kind"`
	Probes      int    `json:"probes"`
	LastProbe   int64  `json:"last_probe_unix_ns"`
	ReplySent   int64  `json:"reply_sent_unix_ns"`
	ReplyMAC    string `json:"reply_mac"`
	RequestSeen int64  `json:"request_seen_unix_ns"`
	RepliedIP   string `json:"replied_ip,omitempty"`
	LastReply   int64  `json:"last_reply_unix_ns"`
	Replies     int    `json:"replies"`
}

func respond(out, iface, ipStr string, after, total time.Duration, skip, repeat int, every time.Duration) {
	var ip net.IP // nil: answer the skip-th request seen, whatever address it asks for
	if ipStr != "any" {
		if ip = net.ParseIP(ipStr).To4(); ip == nil {
			fmt.Fprintln(os.Stderr, "respond: bad ip")
			os.Exit(2)
		}
	}
	h, err := afp.NewTPacket(afp.SocketRaw, afp.OptInterface(iface), afp.OptPollTimeout(20*time.Millisecond))
	if err != nil {
		fmt.Fprintln(os.Stderr, "respond:", err)
		os.Exit(2)
	}
	defer h.Close()
	fmt.Println("ready")
	os.Stdout.Sync()
	mac := net.HardwareAddr{0x02, 0x00, 0x00, 0xc1, 0x60, 0x02}
	row := respRow{Kind: "resp", ReplyMAC: mac.String()}
	var mu sync.Mutex
	scheduled := false
	deadline := time.Now().Add(total)
	for time.Now().Before(deadline) {
		mu.Lock()
		sent := row.LastReply
		done := row.Replies >= repeat || (row.ReplySent != 0 && repeat == 1)
		mu.Unlock()
		if sent != 0 && done && time.Since(time.Unix(0, sent)) > 1500*time.Millisecond {
			break
		}
		data, ci, err := h.ZeroCopyReadPacketData()
		if err != nil {
			continue
		}
		if len(data) < 42 || binary.BigEndian.Uint16(data[12:14]) != 0x0806 || binary.BigEndian.Uint16(data[20:22]) != 1 {
			continue
		}
		mu.Lock()
		row.Probes++
		row.LastProbe = ci.Timestamp.UnixNano()
		mu.Unlock()
		if !scheduled && ((ip == nil && row.Probes > skip) || (ip != nil && net.IP(data[38:42]).Equal(ip))) {
			scheduled = true
			if ip == nil {
				ip = append(net.IP(nil), data[38:42]...)
				row.RepliedIP = ip.String()
			}
			row.RequestSeen = ci.Timestamp.UnixNano()
			sha := append([]byte(nil), data[22:28]...)
			spa := append([]byte(nil), data[28:32]...)
			go func() {
				time.Sleep(after)
				f := make([]byte, 60)
				copy(f[0:6], sha)
				copy(f[6:12], mac)
				binary.BigEndian.PutUint16(f[12:14], 0x0806)
				binary.BigEndian.PutUint16(f[14:16], 1)
				binary.BigEndian.PutUint16(f[16:18], 0x0800)
				f[18], f[19] = 6, 4
				binary.BigEndian.PutUint16(f[20:22], 2)
				copy(f[22:28], mac)
				copy(f[28:32], ip)
				copy(f[32:38], sha)
				copy(f[38:42], spa)
				for k := 0; k < repeat; k++ {
					if k > 0 {
						time.Sleep(every)
					}
					t := time.Now().UnixNano()
					if err := h.WritePacketData(f); err != nil {
						fmt.Fprintln(os.Stderr, "respond: write:", err)
						continue
					}
					mu.Lock()
					if row.ReplySent == 0 {
						row.ReplySent = t
					}
					row.LastReply = t
					row.Replies++
					mu.Unlock()
				}
			}()
		}
	}
	w := hlib.NewOut(out)
	mu.Lock()
	w.Put(row)
	mu.Unlock()
	w.Close()
}
