package main

// Two instant stages of the C16 driver.
//
//	-parse  for every scan command, the command's own flag set parses `--exit-delay D` and
//	        parseRawOptions runs (hook VerifC16ParsedExitDelay); the value the command would hand to
//	        withExitDelay is recorded next to D
//	-rx     the REAL packet.NewReceiver over a scripted reader that behaves like a quiet AF_PACKET
//	        source (N temporary read errors in a row) and then has one frame; records how long after
//	        the frame was available the processor got it

import (
	"context"
	"io"
	"sync"
	"sync/atomic"
	"syscall"
	"time"

	"github.com/google/gopacket"
	"github.com/v-byte-cpu/sx/command"
	"github.com/v-byte-cpu/sx/pkg/packet"
	"verifharness/hlib"
)

type parseRow struct {
	Kind  string `json:"kind"`
	Cmd   string `json:"cmd"`
	Arg   string `json:"arg"`
	Want  int64  `json:"want_ns"`
	Got   int64  `json:"got_ns"`
	Err   string `json:"err,omitempty"`
	Given bool   `json:"given"` // false: the flag was not passed at all (default expected)
}

func parseAll(out string) {
	w := hlib.NewOut(out)
	defer w.Close()
	ds := []struct {
		arg string
		d   time.Duration
	}{{"0s", 0}, {"1ns", 1}, {"300ms", 300 * time.Millisecond}, {"10s", 10 * time.Second},
		{"10.000000001s", 10*time.Second + 1}, {"12s", 12 * time.Second}, {"1h", time.Hour}, {"2m30s", 150 * time.Second}}
	for _, name := range command.VerifC16Commands {
		got, err := command.VerifC16ParsedExitDelay(name, nil)
		r := parseRow{Kind: "parse", Cmd: name, Arg: "", Want: int64(300 * time.Millisecond), Got: int64(got)}
		if err != nil {
			r.Err = err.Error()
		}
		w.Put(r)
		for _, d := range ds {
			for _, form := range [][]string{{"--exit-delay", d.arg}, {"--exit-delay=" + d.arg}} {
				got, err := command.VerifC16ParsedExitDelay(name, form)
				r := parseRow{Kind: "parse", Cmd: name, Arg: d.arg, Want: int64(d.d), Got: int64(got), Given: true}
				if err != nil {
					r.Err = err.Error()
				}
				w.Put(r)
			}
		}
	}
}

type timeoutErr struct{}

func (*timeoutErr) Error() string   { return "i/o timeout" }
func (*timeoutErr) Timeout() bool   { return true }
func (*timeoutErr) Temporary() bool { return true }

// quietReader: n temporary errors (each after `poll`), then one frame, then it blocks until closed.
type quietReader struct {
	mu      sync.Mutex
	n       int
	errs    []error
	k       int
	poll    time.Duration
	t0      time.Time
	frameAt int64
	sent    bool
	stop    chan struct{}
}

func (q *quietReader) ReadPacketData() ([]byte, *gopacket.CaptureInfo, error) {
	q.mu.Lock()
	if q.k < q.n {
		e := q.errs[q.k%len(q.errs)]
		q.k++
		last := q.k == q.n
		q.mu.Unlock()
		time.Sleep(q.poll)
		if last {
			// from now on the frame is available to the next read
			atomic.StoreInt64(&q.frameAt, int64(time.Since(q.t0)))
		}
		return nil, nil, e
	}
	if !q.sent {
		q.sent = true
		q.mu.Unlock()
		return []byte{1, 2, 3, 4}, &gopacket.CaptureInfo{Length: 4, CaptureLength: 4}, nil
	}
	q.mu.Unlock()
	<-q.stop
	return nil, nil, io.EOF
}

type rxProc struct {
	t0   time.Time
	at   int64
	done chan struct{}
	once sync.Once
}

func (p *rxProc) ProcessPacketData(data []byte, ci *gopacket.CaptureInfo) error {
	p.once.Do(func() {
		atomic.StoreInt64(&p.at, int64(time.Since(p.t0)))
		close(p.done)
	})
	return nil
}

type rxRow struct {
	Kind      string `json:"kind"`
	ID        int    `json:"id"`
	ErrKind   string `json:"err_kind"`
	N         int    `json:"n"`
	FrameAt   int64  `json:"frame_at"`
	Processed int64  `json:"processed_at"` // 0: not within the watchdog
}

func rxCase(id, n int, name string, errs []error) rxRow {
	t0 := time.Now()
	q := &quietReader{n: n, errs: errs, poll: 2 * time.Millisecond, t0: t0, stop: make(chan struct{})}
	p := &rxProc{t0: t0, done: make(chan struct{})}
	ctx, cancel := context.WithCancel(context.Background())
	errc := packet.NewReceiver(q, p).ReceivePackets(ctx)
	select {
	case <-p.done:
	case <-time.After(8 * time.Second):
	}
	cancel()
	close(q.stop)
	go func() {
		for range errc {
		}
	}()
	return rxRow{Kind: "rx", ID: id, ErrKind: name, N: n, FrameAt: atomic.LoadInt64(&q.frameAt), Processed: atomic.LoadInt64(&p.at)}
}

func rxAll(out string, maxN int, only int) {
	w := hlib.NewOut(out)
	defer w.Close()
	kinds := []struct {
		name string
		errs []error
	}{{"EAGAIN", []error{syscall.EAGAIN}}, {"ECONNRESET", []error{syscall.ECONNRESET}}, {"timeout", []error{&timeoutErr{}}}}
	var ns []int
	for _, n := range []int{1, 3, 6, 8, 10, 12} {
		if n <= maxN {
			ns = append(ns, n)
		}
	}
	rows := make([]rxRow, len(kinds)*len(ns))
	var wg sync.WaitGroup
	for ki, k := range kinds {
		for ni, n := range ns {
			id := ki*len(ns) + ni
			if only >= 0 && id != only {
				continue
			}
			wg.Add(1)
			go func(id, n int, name string, errs []error) {
				defer wg.Done()
				rows[id] = rxCase(id, n, name, errs)
			}(id, n, k.name, k.errs)
		}
	}
	wg.Wait()
	for _, r := range rows {
		if r.Kind != "" {
			w.Put(r)
		}
	}
}
