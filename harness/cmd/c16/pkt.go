package main

// -pkt mode: the REAL startScanEngine (hook) over the REAL packet engine (scan.SetupPacketEngine:
// real sender, real receiver) on an in-memory link, and over the REAL application engine
// (genericScanCmdOpts.newScanEngine), with the REAL plain logger.  Faults the program can meet:
// a frame write that fails with ENOBUFS (kernel tx queue full), one write to the output that fails
// (ENOSPC / EIO).  Recorded: when every probe was really on the link, when replies were put on the
// link, what the output accepted and when, when the call returned.

import (
	"context"
	"net"
	"strconv"
	"strings"
	"sync"
	"syscall"
	"time"

	"github.com/google/gopacket"
	"github.com/v-byte-cpu/sx/command"
	"github.com/v-byte-cpu/sx/command/log"
	"github.com/v-byte-cpu/sx/pkg/packet"
	"github.com/v-byte-cpu/sx/pkg/scan"
	"verifharness/hlib"
)

type wrec struct {
	Probe int   `json:"probe"`
	At    int64 `json:"at"`
	OK    bool  `json:"ok"`
}

type memLink struct {
	mu       sync.Mutex
	t0       time.Time
	poll     time.Duration
	failOnce map[int]error // probe -> error of its first write attempt
	tries    map[int]int
	writes   []wrec
	queue    [][]byte
	wrote    chan int
}

func (l *memLink) WritePacketData(pkt []byte) error {
	l.mu.Lock()
	idx := int(pkt[0])
	l.tries[idx]++
	if e, ok := l.failOnce[idx]; ok && l.tries[idx] == 1 {
		l.writes = append(l.writes, wrec{idx, int64(time.Since(l.t0)), false})
		l.mu.Unlock()
		return e
	}
	l.writes = append(l.writes, wrec{idx, int64(time.Since(l.t0)), true})
	l.mu.Unlock()
	select {
	case l.wrote <- idx:
	default:
	}
	return nil
}

func (l *memLink) ReadPacketData() ([]byte, *gopacket.CaptureInfo, error) {
	deadline := time.Now().Add(l.poll)
	for {
		l.mu.Lock()
		if len(l.queue) > 0 {
			f := l.queue[0]
			l.queue = l.queue[1:]
			l.mu.Unlock()
			return f, &gopacket.CaptureInfo{Length: len(f), CaptureLength: len(f)}, nil
		}
		l.mu.Unlock()
		if time.Now().After(deadline) {
			return nil, nil, syscall.EAGAIN
		}
		time.Sleep(time.Millisecond)
	}
}

type memMethod struct {
	m       int
	gap     time.Duration
	results chan scan.Result
}

func (pm *memMethod) Packets(ctx context.Context, r *scan.Range) <-chan *packet.BufferData {
	out := make(chan *packet.BufferData)
	go func() {
		defer close(out)
		for i := 1; i <= pm.m; i++ {
			buf := packet.NewSerializeBuffer()
			b, _ := buf.AppendBytes(14)
			b[0] = byte(i)
			select {
			case <-ctx.Done():
				return
			case out <- &packet.BufferData{Buf: buf}:
			}
			time.Sleep(pm.gap)
		}
	}()
	return out
}

func (pm *memMethod) ProcessPacketData(data []byte, ci *gopacket.CaptureInfo) error {
	select {
	case pm.results <- &fakeResult{int64(data[0])}:
	default:
	}
	return nil
}

func (pm *memMethod) Results() <-chan scan.Result { return pm.results }

// faultWriter: the output; call number failNth (1-based, 0 = never) fails with failErr and accepts nothing.
type faultWriter struct {
	mu      sync.Mutex
	t0      time.Time
	buf     strings.Builder
	calls   int
	failNth int
	failErr error
	lost    []string
	at      []int64
}

func (w *faultWriter) Write(p []byte) (int, error) {
	w.mu.Lock()
	defer w.mu.Unlock()
	w.calls++
	if w.calls == w.failNth {
		w.lost = append(w.lost, strings.TrimSpace(string(p)))
		return 0, w.failErr
	}
	w.at = append(w.at, int64(time.Since(w.t0)))
	w.buf.Write(p)
	return len(p), nil
}

type pktRow struct {
	Kind      string     `json:"kind"`
	ID        int        `json:"id"`
	Class     string     `json:"class"`
	Delay     int64      `json:"delay"`
	Probes    int        `json:"probes"`
	FailProbe int        `json:"fail_probe"` // the first write of this probe fails with ENOBUFS (0: none)
	FailWrite int        `json:"fail_write"` // this call of the output's Write fails (0: none)
	FailErr   string     `json:"fail_err"`
	Writes    []wrec     `json:"writes"`
	Injects   [][2]int64 `json:"injects"` // (probe, time the reply was put on the link)
	Output    string     `json:"output"`
	OutAt     []int64    `json:"out_at"`
	Lost      []string   `json:"lost"` // records the failing output write was given
	Returned  bool       `json:"returned"`
	ReturnAt  int64      `json:"return_at"`
	LastScan  int64      `json:"last_scan_end"` // gen: when the last probe finished
	Errors    int        `json:"errors"`
}

func errOf(name string) error {
	switch name {
	case "ENOSPC":
		return syscall.ENOSPC
	case "EIO":
		return syscall.EIO
	}
	return nil
}

func pktCase(id int, class string, delay time.Duration, probes, failProbe, failWrite int, failErr string) pktRow {
	o := pktRow{Kind: "pkt", ID: id, Class: class, Delay: int64(delay), Probes: probes, FailProbe: failProbe, FailWrite: failWrite, FailErr: failErr}
	t0 := time.Now()
	link := &memLink{t0: t0, poll: 20 * time.Millisecond, failOnce: map[int]error{}, tries: map[int]int{}, wrote: make(chan int, 64)}
	if failProbe > 0 {
		link.failOnce[failProbe] = syscall.ENOBUFS
	}
	w := &faultWriter{t0: t0, failNth: failWrite, failErr: errOf(failErr)}
	real, err := log.NewLogger(w, "c16", log.FlushInterval(time.Hour))
	if err != nil {
		return o
	}
	lg := &recLogger{Logger: real}
	pm := &memMethod{m: probes, gap: 30 * time.Millisecond, results: make(chan scan.Result, 64)}
	engine := scan.SetupPacketEngine(link, pm)
	ctx, cancel := context.WithCancel(context.Background())
	defer cancel()
	// the host answers every probe that really arrives, delay-80ms after it was on the link
	var imu sync.Mutex
	stop := make(chan struct{})
	go func() {
		for {
			select {
			case <-stop:
				return
			case idx := <-link.wrote:
				if delay < 120*time.Millisecond {
					continue
				}
				go func(idx int) {
					select {
					case <-time.After(delay - 80*time.Millisecond):
					case <-stop:
						return
					}
					f := make([]byte, 14)
					f[0] = byte(idx)
					link.mu.Lock()
					link.queue = append(link.queue, f)
					link.mu.Unlock()
					imu.Lock()
					o.Injects = append(o.Injects, [2]int64{int64(idx), int64(time.Since(t0))})
					imu.Unlock()
				}(idx)
			}
		}
	}()
	ret := make(chan int64, 1)
	go func() {
		_ = command.VerifC16StartScanEngine(ctx, engine, lg, delay)
		ret <- int64(time.Since(t0))
	}()
	select {
	case t := <-ret:
		o.Returned, o.ReturnAt = true, t
	case <-time.After(delay + 5*time.Second):
	}
	close(stop)
	cancel()
	time.Sleep(20 * time.Millisecond)
	link.mu.Lock()
	o.Writes = append([]wrec(nil), link.writes...)
	link.mu.Unlock()
	w.mu.Lock()
	o.Output, o.OutAt, o.Lost = w.buf.String(), append([]int64(nil), w.at...), append([]string(nil), w.lost...)
	w.mu.Unlock()
	lg.mu.Lock()
	o.Errors = len(lg.errs)
	lg.mu.Unlock()
	return o
}

// rangedEngine starts the wrapped engine on a fixed range (the hook passes an empty one).
type rangedEngine struct {
	scan.EngineResulter
	r *scan.Range
}

func (e *rangedEngine) Start(ctx context.Context, _ *scan.Range) (<-chan interface{}, <-chan error) {
	return e.EngineResulter.Start(ctx, e.r)
}

type resultScanner struct {
	mu   sync.Mutex
	t0   time.Time
	n    int64
	last int64
}

func (s *resultScanner) Scan(ctx context.Context, r *scan.Request) (scan.Result, error) {
	time.Sleep(10 * time.Millisecond)
	s.mu.Lock()
	s.n++
	id := s.n
	s.last = int64(time.Since(s.t0))
	s.mu.Unlock()
	return &fakeResult{id}, nil
}

func genCase(id int, class string, delay time.Duration, failWrite int, failErr string) pktRow {
	o := pktRow{Kind: "gen", ID: id, Class: class, Delay: int64(delay), FailWrite: failWrite, FailErr: failErr}
	t0 := time.Now()
	w := &faultWriter{t0: t0, failNth: failWrite, failErr: errOf(failErr)}
	real, err := log.NewLogger(w, "c16", log.FlushInterval(time.Hour))
	if err != nil {
		return o
	}
	lg := &recLogger{Logger: real}
	ctx, cancel := context.WithCancel(context.Background())
	defer cancel()
	sc := &resultScanner{t0: t0}
	engine, err := command.VerifC15NewGenericEngine(ctx, "", 1, sc)
	if err != nil {
		return o
	}
	_, subnet, _ := net.ParseCIDR("10.9.0.0/30")
	rng := &scan.Range{DstSubnet: subnet, Ports: []*scan.PortRange{{StartPort: 7, EndPort: 8}}}
	ret := make(chan int64, 1)
	go func() {
		_ = command.VerifC16StartScanEngine(ctx, &rangedEngine{EngineResulter: engine, r: rng}, lg, delay)
		ret <- int64(time.Since(t0))
	}()
	select {
	case t := <-ret:
		o.Returned, o.ReturnAt = true, t
	case <-time.After(delay + 5*time.Second):
	}
	cancel()
	sc.mu.Lock()
	o.Probes, o.LastScan = int(sc.n), sc.last
	sc.mu.Unlock()
	w.mu.Lock()
	o.Output, o.OutAt, o.Lost = w.buf.String(), append([]int64(nil), w.at...), append([]string(nil), w.lost...)
	w.mu.Unlock()
	lg.mu.Lock()
	o.Errors = len(lg.errs)
	lg.mu.Unlock()
	return o
}

func pktAll(out string, only int, seed int64) {
	w := hlib.NewOut(out)
	defer w.Close()
	type job func() pktRow
	d := 300 * time.Millisecond
	jobs := []job{
		func() pktRow { return pktCase(0, "pkt/plain", d, 3, 0, 0, "") },
		func() pktRow { return pktCase(1, "pkt/enobufs-last-probe", d, 3, 3, 0, "") },
		func() pktRow { return pktCase(2, "pkt/enobufs-middle-probe", d, 4, 2, 0, "") },
		func() pktRow { return pktCase(3, "pkt/enobufs-only-probe", 400*time.Millisecond, 1, 1, 0, "") },
		func() pktRow { return pktCase(4, "pkt/output-write-fails-once", d, 3, 0, 1, "ENOSPC") },
		func() pktRow { return pktCase(5, "pkt/output-write-fails-once", d, 4, 0, 2, "EIO") },
		func() pktRow { return genCase(6, "gen/plain", 250*time.Millisecond, 0, "") },
		func() pktRow { return genCase(7, "gen/output-write-fails-once", 250*time.Millisecond, 1, "ENOSPC") },
		func() pktRow { return genCase(8, "gen/output-write-fails-once", 250*time.Millisecond, 3, "EIO") },
	}
	rows := make([]pktRow, len(jobs))
	var wg sync.WaitGroup
	var bursts []burstRow
	wg.Add(1)
	go func() { defer wg.Done(); bursts = burstAll(seed, only) }()
	for i, j := range jobs {
		if only >= 0 && i != only {
			continue
		}
		wg.Add(1)
		go func(i int, j job) { defer wg.Done(); rows[i] = j() }(i, j)
	}
	wg.Wait()
	for i, r := range rows {
		if only >= 0 && i != only {
			continue
		}
		w.Put(r)
	}
	for _, b := range bursts {
		w.Put(b)
	}
}

var _ = strconv.Itoa
