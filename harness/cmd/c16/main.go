// Driver for C16 (exit delay).  It runs the REAL command.startScanEngine (hook
// VerifC16StartScanEngine, configuration built by the real newEngineConfig/withExitDelay) with the
// REAL logger of command/log writing to a timestamping buffer, and a scripted engine that closes
// done, offers results and errors, and reacts to ctx.Done() at scripted moments.  It records what
// was MEASURED: when done was closed (timestamp taken just before close), when each result / error
// was offered and whether it was taken, when the engine saw ctx.Done(), when errc / Results() were
// closed, what the logger wrote, when the call returned.  All times in ns relative to the call.
// Every random choice derives from -seed.
package main

import (
	"bytes"
	"context"
	"flag"
	"fmt"
	"os"
	"sort"
	"strconv"
	"strings"
	"sync"
	"time"

	"github.com/v-byte-cpu/sx/command"
	"github.com/v-byte-cpu/sx/command/log"
	"github.com/v-byte-cpu/sx/pkg/scan"
	"verifharness/hlib"
)

const ms = int64(time.Millisecond)

type offer struct {
	At    int64 `json:"at"`    // scripted time
	ID    int64 `json:"id"`
	Start int64 `json:"start"` // measured: the offer began (-1: never offered, the engine had stopped)
	Taken bool  `json:"taken"`
	End   int64 `json:"end"` // measured: the offer ended (taken or given up)
}

type script struct {
	Delay       int64   `json:"delay"`
	Done        int64   `json:"done"`         // -1 never
	Parent      int64   `json:"parent"`       // -1 never
	Results     []offer `json:"results"`
	Errs        []offer `json:"errs"`
	ErrcLag     int64   `json:"errc_lag"`     // -1: errc is never closed
	ResCloseLag int64   `json:"resclose_lag"` // -1: Results() is never closed
	SlowID      int64   `json:"slow_id"`      // the record of this result id is accepted by the output in two pieces ...
	SlowGap     int64   `json:"slow_gap"`     // ... this far apart (a slow standard output); 0: none
}

type row struct {
	ID     int    `json:"id"`
	Seed   int64  `json:"seed"`
	Class  string `json:"class"`
	Script script `json:"script"`
	// measured
	DoneAt      int64    `json:"done_at"`      // -1 never
	ParentAt    int64    `json:"parent_at"`    // -1 never
	CtxDoneAt   int64    `json:"ctx_done_at"`  // engine saw ctx.Done(); -1 never
	ErrcClosed  int64    `json:"errc_closed"`  // -1 never
	ResClosed   int64    `json:"res_closed"`   // -1 never
	Returned    bool     `json:"returned"`
	ReturnAt    int64    `json:"return_at"`
	Output      string   `json:"output"`       // raw logger output
	OutAtReturn string   `json:"out_at_return"` // the bytes the output had accepted at the moment the call returned
	Logged      []int64  `json:"logged"`       // ids parsed from complete lines
	LoggedAt    []int64  `json:"logged_at"`    // write timestamps
	BadOutput   string   `json:"bad_output,omitempty"`
	ErrorsSeen  []int64  `json:"errors_seen"`
	DefaultNs   int64    `json:"default_ns"`
	ExpectHang  bool     `json:"expect_hang"`
}

type fakeResult struct{ id int64 }

func (f *fakeResult) String() string               { return "id=" + strconv.FormatInt(f.id, 10) }
func (f *fakeResult) MarshalJSON() ([]byte, error) { return []byte(`{"id":` + strconv.FormatInt(f.id, 10) + `}`), nil }
func (f *fakeResult) ID() string                   { return strconv.FormatInt(f.id, 10) }

type scriptedErr struct{ id int64 }

func (e *scriptedErr) Error() string { return "scripted error " + strconv.FormatInt(e.id, 10) }

// tsWriter records every Write with its time.
type tsWriter struct {
	mu      sync.Mutex
	t0      time.Time
	buf     bytes.Buffer
	at      []int64
	slow    []byte // a Write of exactly these bytes is accepted in two pieces, slowGap apart
	slowGap time.Duration
}

func (w *tsWriter) Write(p []byte) (int, error) {
	w.mu.Lock()
	w.at = append(w.at, int64(time.Since(w.t0)))
	if len(w.slow) > 0 && bytes.Equal(p, w.slow) && len(p) > 2 {
		// like a nearly full pipe: the first bytes go out, the writer blocks, the rest follows
		w.buf.Write(p[:2])
		w.mu.Unlock()
		time.Sleep(w.slowGap)
		w.mu.Lock()
		defer w.mu.Unlock()
		w.at = append(w.at, int64(time.Since(w.t0)))
		n, err := w.buf.Write(p[2:])
		return n + 2, err
	}
	defer w.mu.Unlock()
	return w.buf.Write(p)
}

// recLogger is the real logger with Error recorded instead of printed through zap.
type recLogger struct {
	log.Logger
	mu   sync.Mutex
	errs []int64
}

func (l *recLogger) Error(err error) {
	l.mu.Lock()
	defer l.mu.Unlock()
	if se, ok := err.(*scriptedErr); ok {
		l.errs = append(l.errs, se.id)
	} else {
		l.errs = append(l.errs, -1)
	}
}

type engine struct {
	k       *script
	o       *row
	t0      time.Time
	results chan scan.Result
	mu      sync.Mutex
	wg      sync.WaitGroup
	resWG   sync.WaitGroup
	errWG   sync.WaitGroup
	frozen  bool // set (under mu) when the watchdog gave up: what happens during clean-up is not an observation
}

func waitTimeout(wg *sync.WaitGroup, d time.Duration) bool {
	c := make(chan struct{})
	go func() { wg.Wait(); close(c) }()
	select {
	case <-c:
		return true
	case <-time.After(d):
		return false
	}
}

func (e *engine) now() int64 { return int64(time.Since(e.t0)) }

func (e *engine) sleepUntil(t int64, stop <-chan struct{}) bool {
	d := time.Duration(t) - time.Since(e.t0)
	if d <= 0 {
		select {
		case <-stop:
			return false
		default:
			return true
		}
	}
	tm := time.NewTimer(d)
	defer tm.Stop()
	select {
	case <-tm.C:
		return true
	case <-stop:
		return false
	}
}

func (e *engine) Results() <-chan scan.Result { return e.results }

func (e *engine) Start(ctx context.Context, r *scan.Range) (<-chan interface{}, <-chan error) {
	done := make(chan interface{})
	errc := make(chan error)
	stopRes := make(chan struct{})
	stopErr := make(chan struct{})
	never := make(chan struct{})
	resWG, errWG := &e.resWG, &e.errWG
	if e.k.Done >= 0 {
		go func() {
			e.sleepUntil(e.k.Done, never)
			e.mu.Lock()
			e.o.DoneAt = e.now()
			e.mu.Unlock()
			close(done)
		}()
	}
	// results: one goroutine, in scripted order; an offer lasts until it is taken or the engine's ctx is Done
	resWG.Add(1)
	go func() {
		defer resWG.Done()
		for i := range e.k.Results {
			of := &e.k.Results[i]
			of.Start = -1
			if !e.sleepUntil(of.At, stopRes) {
				continue
			}
			of.Start = e.now()
			select {
			case e.results <- &fakeResult{of.ID}:
				of.Taken = true
			case <-ctx.Done():
			case <-stopRes:
			}
			of.End = e.now()
		}
	}()
	errWG.Add(1)
	go func() {
		defer errWG.Done()
		for i := range e.k.Errs {
			of := &e.k.Errs[i]
			of.Start = -1
			if !e.sleepUntil(of.At, stopErr) {
				continue
			}
			of.Start = e.now()
			select {
			case errc <- &scriptedErr{of.ID}:
				of.Taken = true
			case <-stopErr:
			}
			of.End = e.now()
		}
	}()
	// reaction to cancellation
	e.wg.Add(1)
	go func() {
		defer e.wg.Done()
		<-ctx.Done()
		seen := e.now()
		e.mu.Lock()
		if !e.frozen {
			e.o.CtxDoneAt = seen
		}
		e.mu.Unlock()
		var w sync.WaitGroup
		if e.k.ErrcLag >= 0 {
			w.Add(1)
			go func() {
				defer w.Done()
				e.sleepUntil(seen+e.k.ErrcLag, never)
				close(stopErr)
				errWG.Wait()
				e.mu.Lock()
				if !e.frozen {
					e.o.ErrcClosed = e.now()
				}
				e.mu.Unlock()
				close(errc)
			}()
		}
		if e.k.ResCloseLag >= 0 {
			w.Add(1)
			go func() {
				defer w.Done()
				e.sleepUntil(seen+e.k.ResCloseLag, never)
				close(stopRes)
				resWG.Wait()
				e.mu.Lock()
				if !e.frozen {
					e.o.ResClosed = e.now()
				}
				e.mu.Unlock()
				close(e.results)
			}()
		}
		w.Wait()
	}()
	return done, errc
}

// ---------------------------------------------------------------- script generation

func genScript(r *hlib.SplitMix64) (script, string) {
	k := script{Parent: -1}
	cls := ""
	switch r.Intn(10) {
	case 0:
		k.Delay, cls = 0, "delay0"
	case 1:
		k.Delay, cls = -5*ms, "delay<0"
	default:
		k.Delay, cls = int64(20+r.Intn(181))*ms, "delay>0"
	}
	k.Done = int64(10+r.Intn(50)) * ms
	eff := k.Delay
	if eff < 0 {
		eff = 0
	}
	cancelAt := k.Done + eff
	switch r.Intn(12) {
	case 0:
		k.Parent, cls = k.Done/2, cls+"/sigint-before-done"
		cancelAt = k.Parent
	case 1:
		if eff >= 40*ms {
			k.Parent, cls = k.Done+eff/2, cls+"/sigint-in-delay"
			cancelAt = k.Parent
		}
	case 2:
		k.Parent, cls = cancelAt+40*ms, cls+"/sigint-late"
	case 3:
		k.Done, k.Parent, cls = -1, int64(30+r.Intn(40))*ms, cls+"/never-done-sigint"
		cancelAt = k.Parent
	}
	k.ErrcLag = []int64{0, 0, 5 * ms, 20 * ms}[r.Intn(4)]
	k.ResCloseLag = []int64{-1, 0, 10 * ms, 25 * ms}[r.Intn(4)]
	hang := false
	if r.Intn(25) == 0 {
		k.ErrcLag, hang, cls = -1, true, cls+"/errc-never-closed"
	}
	if r.Intn(40) == 0 && k.Parent < 0 {
		k.Done, hang, cls = -1, true, cls+"/never-done"
	}
	// results: keep every offer at least `near` before or `far` after the cancellation
	near, far := 12*ms, 45*ms
	n := r.Intn(7)
	id := int64(1)
	var times []int64
	for i := 0; i < n; i++ {
		var t int64
		switch r.Intn(4) {
		case 0: // early, before done
			t = int64(1+r.Intn(9)) * ms
		case 1, 2: // late reply: inside the exit delay
			if k.Done >= 0 && eff >= 40*ms && (k.Parent < 0 || k.Parent > k.Done+eff) {
				t = k.Done + eff/5 + int64(r.Intn(int(eff/2/ms)+1))*ms
			} else {
				t = int64(1+r.Intn(9)) * ms
			}
		default: // after the cancellation: must be lost
			t = cancelAt + far + int64(r.Intn(30))*ms
		}
		if !hang && t > cancelAt-near && t < cancelAt+far {
			continue
		}
		times = append(times, t)
	}
	sort.Slice(times, func(i, j int) bool { return times[i] < times[j] })
	for _, t := range times {
		k.Results = append(k.Results, offer{At: t, ID: id})
		id++
	}
	// errors: well before errc is closed
	ne := r.Intn(3)
	var et []int64
	for i := 0; i < ne; i++ {
		t := int64(1+r.Intn(int(maxi(cancelAt/ms, 2)))) * ms
		if k.ErrcLag >= 0 && t > cancelAt+k.ErrcLag-15*ms {
			continue
		}
		et = append(et, t)
	}
	sort.Slice(et, func(i, j int) bool { return et[i] < et[j] })
	for _, t := range et {
		k.Errs = append(k.Errs, offer{At: t, ID: 100 + int64(len(k.Errs))})
	}
	return k, cls
}

func maxi(a, b int64) int64 {
	if a > b {
		return a
	}
	return b
}

// ---------------------------------------------------------------- one run

func runCase(id int, seed int64, k script, cls string) row {
	o := row{ID: id, Seed: seed, Class: cls, DoneAt: -1, ParentAt: -1, CtxDoneAt: -1, ErrcClosed: -1, ResClosed: -1}
	o.DefaultNs = int64(command.VerifC16DefaultExitDelay())
	o.ExpectHang = k.ErrcLag < 0 || (k.Done < 0 && k.Parent < 0)
	w := &tsWriter{}
	real, err := log.NewLogger(w, "c16", log.FlushInterval(time.Hour))
	if err != nil {
		fmt.Fprintln(os.Stderr, "logger:", err)
		os.Exit(2)
	}
	lg := &recLogger{Logger: real}
	parent, cancelParent := context.WithCancel(context.Background())
	defer cancelParent()
	eng := &engine{k: &k, o: &o, results: make(chan scan.Result)}
	t0 := time.Now()
	eng.t0, w.t0 = t0, t0
	if k.Parent >= 0 {
		go func() {
			eng.sleepUntil(k.Parent, make(chan struct{}))
			eng.mu.Lock()
			o.ParentAt = eng.now()
			eng.mu.Unlock()
			cancelParent()
		}()
	}
	if k.SlowGap > 0 {
		w.slow, w.slowGap = []byte((&fakeResult{k.SlowID}).String()+"\n"), time.Duration(k.SlowGap)
	}
	ret := make(chan int64, 1)
	var snap string
	go func() {
		_ = command.VerifC16StartScanEngine(parent, eng, lg, time.Duration(k.Delay))
		at := int64(time.Since(t0))
		w.mu.Lock()
		snap = w.buf.String()
		w.mu.Unlock()
		ret <- at
	}()
	// watchdog: generous when a return is expected, short after the last scripted moment otherwise
	last := k.Done + maxi(k.Delay, 0)
	if k.Parent > last {
		last = k.Parent
	}
	for _, of := range k.Results {
		last = maxi(last, of.At)
	}
	last += k.SlowGap
	wait := time.Duration(last) + 6*time.Second
	if o.ExpectHang {
		wait = time.Duration(last) + 400*time.Millisecond
	}
	select {
	case t := <-ret:
		o.Returned, o.ReturnAt, o.OutAtReturn = true, t, snap
	case <-time.After(wait - time.Since(t0)):
	}
	if !o.Returned {
		// the watchdog gave up: freeze the observation, then cancel only to let the goroutines go
		eng.mu.Lock()
		eng.frozen = true
		eng.mu.Unlock()
		cancelParent()
	}
	// let every scripted offer run to its end (taken or given up) before reading the script back
	settle := time.Duration(last) + 500*time.Millisecond - time.Since(t0)
	if settle < 100*time.Millisecond {
		settle = 100 * time.Millisecond
	}
	okR := waitTimeout(&eng.resWG, settle)
	okE := true
	if k.ErrcLag >= 0 {
		okE = waitTimeout(&eng.errWG, settle)
	}
	if o.Returned {
		waitTimeout(&eng.wg, settle)
	}
	if !okR || !okE {
		o.BadOutput = "harness: scripted offers did not finish"
	}
	eng.mu.Lock()
	o.Script = k
	eng.mu.Unlock()
	w.mu.Lock()
	o.Output = w.buf.String()
	o.LoggedAt = append([]int64(nil), w.at...)
	w.mu.Unlock()
	out := o.Output
	if out != "" && !strings.HasSuffix(out, "\n") {
		o.BadOutput = "output does not end with a newline"
	}
	for _, line := range strings.Split(strings.TrimSuffix(out, "\n"), "\n") {
		if line == "" {
			continue
		}
		if !strings.HasPrefix(line, "id=") {
			o.BadOutput = "unparseable line: " + line
			continue
		}
		v, err := strconv.ParseInt(line[3:], 10, 64)
		if err != nil {
			o.BadOutput = "unparseable line: " + line
			continue
		}
		o.Logged = append(o.Logged, v)
	}
	lg.mu.Lock()
	o.ErrorsSeen = append([]int64{}, lg.errs...)
	lg.mu.Unlock()
	return o
}

func main() {
	out := flag.String("out", "cases.jsonl", "output file")
	seed := flag.Int64("seed", 1, "seed")
	n := flag.Int("n", 40, "number of scripts")
	par := flag.Int("par", 8, "scripts run concurrently")
	one := flag.Int("one", -1, "replay: only this case id")
	respIface := flag.String("respond", "", "responder mode: interface to listen on")
	respIP := flag.String("ip", "", "responder mode: answer the ARP request for this address")
	respAfter := flag.Duration("after", 200*time.Millisecond, "responder mode: answer this long after the request")
	respTotal := flag.Duration("total", 20*time.Second, "responder mode: overall timeout")
	respRepeat := flag.Int("repeat", 1, "responder mode: send the reply this many times")
	respEvery := flag.Duration("every", 200*time.Millisecond, "responder mode: pause between repeated replies")
	respSkip := flag.Int("skip", 0, "responder mode with -ip any: leave this many requests unanswered first")
	parseMode := flag.Bool("parse", false, "parse mode: --exit-delay through every command's flag set and parseRawOptions")
	rxMode := flag.Int("rx", 0, "rx mode: real receiver over a quiet reader, runs with up to this many consecutive temporary errors")
	rxOnly := flag.Int("rxonly", -1, "rx mode: only this case id")
	pktMode := flag.Bool("pkt", false, "pkt mode: real packet / application engine under startScanEngine with write faults")
	pktOnly := flag.Int("pktonly", -1, "pkt mode: only this case id")
	flag.Parse()
	if *pktMode {
		pktAll(*out, *pktOnly, *seed)
		return
	}
	if *parseMode {
		parseAll(*out)
		return
	}
	if *rxMode > 0 {
		rxAll(*out, *rxMode, *rxOnly)
		return
	}
	if *respIface != "" {
		respond(*out, *respIface, *respIP, *respAfter, *respTotal, *respSkip, *respRepeat, *respEvery)
		return
	}
	w := hlib.NewOut(*out)
	defer w.Close()
	const nslow = 3
	rows := make([]row, *n+nslow)
	sem := make(chan struct{}, *par)
	var wg sync.WaitGroup
	for i := 0; i < *n; i++ {
		if *one >= 0 && i != *one {
			continue
		}
		r := hlib.NewRand(*seed*1000033 + int64(i))
		k, cls := genScript(r)
		wg.Add(1)
		sem <- struct{}{}
		go func(i int, k script, cls string) {
			defer wg.Done()
			defer func() { <-sem }()
			rows[i] = runCase(i, *seed, k, cls)
		}(i, k, cls)
	}
	// a slow standard output: the record of a reply inside the exit delay is accepted in two pieces that span the
	// end of the delay
	for j := 0; j < nslow; j++ {
		i := *n + j
		if *one >= 0 && i != *one {
			continue
		}
		r := hlib.NewRand(*seed*1000033 + int64(i))
		d := int64(120+r.Intn(120)) * ms
		done := int64(15+r.Intn(30)) * ms
		k := script{Delay: d, Done: done, Parent: -1, ErrcLag: []int64{0, 5 * ms}[r.Intn(2)],
			ResCloseLag: []int64{-1, 10 * ms}[r.Intn(2)], SlowID: 2, SlowGap: int64(250+r.Intn(150)) * ms,
			Results: []offer{{At: 5 * ms, ID: 1}, {At: done + d - int64(50+r.Intn(30))*ms, ID: 2}}}
		wg.Add(1)
		sem <- struct{}{}
		go func(i int, k script) {
			defer wg.Done()
			defer func() { <-sem }()
			rows[i] = runCase(i, *seed, k, "slow-writer")
		}(i, k)
	}
	wg.Wait()
	for i := range rows {
		if *one >= 0 && i != *one {
			continue
		}
		w.Put(rows[i])
	}
}
