package main

// burst cases of the -pkt mode: the REAL startScanEngine (hook) over the REAL packet engine with the REAL ARP scan
// method (arp.NewScanMethod over the request / packet generators `sx arp` uses) on the in-memory link, REAL plain
// logger.  Once every probe has left, a burst of frames that pass the capture filter `arp` (ethertype 0x0806) but are
// cut short -- ethernet header + 1..27 bytes of ARP, which the method's decoder rejects -- is queued on the link
// AHEAD of one genuine reply, a few tens of ms after the last probe, i.e. well inside the exit delay.  The property:
// that reply is reported before the call returns, and the call does not return before the delay is over.  Every
// parameter (delay, burst size, length of the runts, when the burst arrives, which host answers) is drawn from -seed.

import (
	"context"
	"fmt"
	"net"
	"runtime"
	"sync"
	"time"

	"github.com/google/gopacket"
	"github.com/google/gopacket/layers"
	"github.com/v-byte-cpu/sx/command"
	"github.com/v-byte-cpu/sx/command/log"
	"github.com/v-byte-cpu/sx/pkg/scan"
	"github.com/v-byte-cpu/sx/pkg/scan/arp"
	"verifharness/hlib"
)

type burstRow struct {
	Kind      string  `json:"kind"`
	ID        int     `json:"id"`
	Class     string  `json:"class"`
	Seed      int64   `json:"seed"`
	Delay     int64   `json:"delay"`
	Subnet    string  `json:"subnet"`
	Probes    int     `json:"probes"`      // probes the scan has to send (addresses of the subnet)
	Burst     int     `json:"burst"`       // undecodable frames queued ahead of the reply
	RuntLen   int     `json:"runt_len"`    // frame length of each of them (14 + 1..27)
	RuntHex   string  `json:"runt_hex"`    // the frame
	Lead      int64   `json:"lead"`        // the burst is queued this long after the last probe was on the link
	Host      string  `json:"host"`        // the host that answers
	HostMAC   string  `json:"host_mac"`    //
	ReplyHex  string  `json:"reply_hex"`   // the genuine reply (last frame queued)
	Writes    []int64 `json:"writes"`      // when each probe was on the link
	InjectAt  int64   `json:"inject_at"`   // when burst + reply were on the link (-1: never, not all probes left)
	Output    string  `json:"output"`      // what the output accepted
	OutAt     []int64 `json:"out_at"`      //
	Returned  bool    `json:"returned"`    //
	ReturnAt  int64   `json:"return_at"`   //
	Errors    int     `json:"errors"`      // errors handed to logger.Error
	LeftQueue int     `json:"left_queued"` // frames still unread on the link when the call returned
}

// probeLink is a memLink that counts whole frames (the ARP requests) instead of reading a probe number from byte 0.
type probeLink struct {
	memLink
	sent []int64
}

func (l *probeLink) WritePacketData(pkt []byte) error {
	l.mu.Lock()
	l.sent = append(l.sent, int64(time.Since(l.t0)))
	l.mu.Unlock()
	return nil
}

func arpReplyFrame(ip net.IP, mac net.HardwareAddr, dstIP net.IP, dstMAC net.HardwareAddr) []byte {
	buf := gopacket.NewSerializeBuffer()
	_ = gopacket.SerializeLayers(buf, gopacket.SerializeOptions{},
		&layers.Ethernet{SrcMAC: mac, DstMAC: dstMAC, EthernetType: layers.EthernetTypeARP},
		&layers.ARP{
			AddrType: layers.LinkTypeEthernet, Protocol: layers.EthernetTypeIPv4,
			HwAddressSize: 6, ProtAddressSize: 4, Operation: layers.ARPReply,
			SourceHwAddress: mac, SourceProtAddress: ip.To4(),
			DstHwAddress: dstMAC, DstProtAddress: dstIP.To4(),
		})
	return append([]byte(nil), buf.Bytes()...)
}

func burstCase(id int, seed int64) burstRow {
	r := hlib.NewRand(seed*1000033 + 7000 + int64(id))
	delay := time.Duration(300+50*r.Intn(3)) * time.Millisecond
	burst := 120 + r.Intn(281)
	runtLen := 14 + 1 + r.Intn(27)
	lead := time.Duration(20+r.Intn(60)) * time.Millisecond
	net3 := byte(r.Intn(200))
	hostLast := byte(1 + r.Intn(2))
	srcIP := net.IPv4(10, 9, net3, 3).To4()
	srcMAC := net.HardwareAddr{0x02, 0, 0, 0, 0, 0x03}
	hostIP := net.IPv4(10, 9, net3, hostLast).To4()
	hostMAC := net.HardwareAddr{0x02, 0, 0, byte(r.Intn(256)), byte(r.Intn(256)), hostLast}
	subnet := &net.IPNet{IP: net.IPv4(10, 9, net3, 0).To4(), Mask: net.CIDRMask(30, 32)}
	reply := arpReplyFrame(hostIP, hostMAC, srcIP, srcMAC)
	runt := append([]byte(nil), reply[:runtLen]...)
	o := burstRow{Kind: "burst", ID: id, Class: "pkt/undecodable-burst-before-reply", Seed: seed, Delay: int64(delay),
		Subnet: subnet.String(), Probes: 4, Burst: burst, RuntLen: runtLen, RuntHex: fmt.Sprintf("%x", runt),
		Lead: int64(lead), Host: hostIP.String(), HostMAC: hostMAC.String(), ReplyHex: fmt.Sprintf("%x", reply), InjectAt: -1}

	t0 := time.Now()
	link := &probeLink{memLink: memLink{t0: t0, poll: 20 * time.Millisecond}}
	w := &faultWriter{t0: t0}
	real, err := log.NewLogger(w, "arp", log.FlushInterval(time.Hour))
	if err != nil {
		return o
	}
	lg := &recLogger{Logger: real}
	ctx, cancel := context.WithCancel(context.Background())
	defer cancel()
	// what newARPScanMethod builds (without the optional exclude / live filters)
	reqgen := scan.NewIPRequestGenerator(scan.NewIPGenerator())
	pktgen := scan.NewPacketMultiGenerator(arp.NewPacketFiller(), runtime.NumCPU())
	m := arp.NewScanMethod(scan.NewPacketSource(reqgen, pktgen), scan.NewResultChan(ctx, 1000))
	engine := scan.SetupPacketEngine(link, m)
	rng := &scan.Range{Interface: &net.Interface{Name: "mem0", HardwareAddr: srcMAC}, DstSubnet: subnet, SrcIP: srcIP, SrcMAC: srcMAC}

	stop := make(chan struct{})
	var iwg sync.WaitGroup
	iwg.Add(1)
	go func() {
		defer iwg.Done()
		// the wire: `lead` after the last probe left, the burst and -- behind it -- the reply arrive
		for {
			select {
			case <-stop:
				return
			case <-time.After(time.Millisecond):
			}
			link.mu.Lock()
			n := len(link.sent)
			var last int64
			if n > 0 {
				last = link.sent[n-1]
			}
			link.mu.Unlock()
			if n >= o.Probes && int64(time.Since(t0)) >= last+int64(lead) {
				break
			}
		}
		link.mu.Lock()
		for i := 0; i < burst; i++ {
			link.queue = append(link.queue, runt)
		}
		link.queue = append(link.queue, reply)
		o.InjectAt = int64(time.Since(t0))
		link.mu.Unlock()
	}()
	ret := make(chan int64, 1)
	go func() {
		_ = command.VerifC16StartScanEngine(ctx, &rangedEngine{EngineResulter: engine, r: rng}, lg, delay)
		ret <- int64(time.Since(t0))
	}()
	select {
	case t := <-ret:
		o.Returned, o.ReturnAt = true, t
	case <-time.After(delay + 8*time.Second):
	}
	link.mu.Lock()
	o.LeftQueue = len(link.queue)
	link.mu.Unlock()
	close(stop)
	cancel()
	iwg.Wait()
	time.Sleep(20 * time.Millisecond)
	link.mu.Lock()
	o.Writes = append([]int64(nil), link.sent...)
	link.mu.Unlock()
	w.mu.Lock()
	o.Output, o.OutAt = w.buf.String(), append([]int64(nil), w.at...)
	w.mu.Unlock()
	lg.mu.Lock()
	o.Errors = len(lg.errs)
	lg.mu.Unlock()
	return o
}

const nBurst = 3

// burstAll runs the burst cases (ids 100..) of the -pkt mode side by side and returns their rows.
func burstAll(seed int64, only int) []burstRow {
	rows := make([]burstRow, nBurst)
	var wg sync.WaitGroup
	for i := 0; i < nBurst; i++ {
		if only >= 0 && 100+i != only {
			continue
		}
		wg.Add(1)
		go func(i int) { defer wg.Done(); rows[i] = burstCase(100+i, seed) }(i)
	}
	wg.Wait()
	var out []burstRow
	for i := range rows {
		if only >= 0 && 100+i != only {
			continue
		}
		out = append(out, rows[i])
	}
	return out
}
