package main

// Engine stage of C09: the probe driven the way `sx socks` drives it -- scan.NewScanEngine with a
// request generator, the real socks5.Scanner and scan.NewResultChan -- against one persistent peer
// per kind of answer.  What counts is what arrives on the RESULT CHANNEL: exactly one record per
// request for a peer that answers 05 00 (carrying its address and port), nothing for any other
// answer.  (The engine's worker emits `result` whenever `result != nil` as an interface.)

import (
	"context"
	"fmt"
	"net"
	"sync"
	"time"

	"github.com/v-byte-cpu/sx/pkg/scan"
	"github.com/v-byte-cpu/sx/pkg/scan/socks5"
)

type engineGroup struct {
	Reply      []int  `json:"peer_reply"`
	IP         string `json:"ip"`
	Port       int    `json:"port"`
	Requests   int    `json:"requests"`
	Records    int    `json:"records_on_result_channel"`
	GoodRecs   int    `json:"records_with_the_probed_address"`
	Errors     int    `json:"errors"`
	FirstRec   string `json:"first_record"`
	PrintPanic string `json:"print_panic,omitempty"`
	What       string `json:"what,omitempty"`
}

type engineRow struct {
	Class   string        `json:"class"`
	Workers int           `json:"workers"`
	Groups  []engineGroup `json:"groups"`
	Bad     []engineGroup `json:"bad"`
}

type fixedRequests struct{ reqs []*scan.Request }

func (g *fixedRequests) GenerateRequests(ctx context.Context, r *scan.Range) (<-chan *scan.Request, error) {
	out := make(chan *scan.Request, len(g.reqs))
	for _, q := range g.reqs {
		out <- q
	}
	close(out)
	return out, nil
}

var engineReplies = [][]int{{5, 0}, {5, 255}, {5, 2}, {4, 0}, {0, 5}, {83, 83}, {83, 83, 72, 45, 50, 46, 48}, {5, 0, 1, 2}, {5, 1}}

func engineStage(perPeer, workers int) engineRow {
	row := engineRow{Class: "engine", Workers: workers}
	var swg sync.WaitGroup
	for i, rep := range engineReplies {
		ip := fmt.Sprintf("127.77.%d.%d", 10+i, 1+i)
		l, err := net.Listen("tcp4", net.JoinHostPort(ip, "0"))
		if err != nil {
			continue
		}
		p := &concPeer{IP: ip, Port: l.Addr().(*net.TCPAddr).Port, Reply: rep, l: l}
		swg.Add(1)
		go p.serve(&swg)
		g := engineGroup{Reply: rep, IP: ip, Port: p.Port, Requests: perPeer}
		var reqs []*scan.Request
		for k := 0; k < perPeer; k++ {
			reqs = append(reqs, &scan.Request{DstIP: net.ParseIP(ip), DstPort: uint16(p.Port)})
		}
		ctx, cancel := context.WithCancel(context.Background())
		scanner := socks5.NewScanner(socks5.WithDialTimeout(1500*time.Millisecond), socks5.WithDataTimeout(1500*time.Millisecond))
		engine := scan.NewScanEngine(&fixedRequests{reqs}, scanner, scan.NewResultChan(ctx, 4*perPeer+16), scan.WithScanWorkerCount(workers))
		done, errc := engine.Start(ctx, &scan.Range{})
		var ewg sync.WaitGroup
		ewg.Add(1)
		go func() {
			defer ewg.Done()
			for range errc {
				g.Errors++
			}
		}()
		select {
		case <-done:
		case <-time.After(20 * time.Second):
			g.What = "the scan engine did not finish"
		}
		ewg.Wait()
	drain:
		for {
			select {
			case r, ok := <-engine.Results():
				if !ok {
					break drain
				}
				g.Records++
				text, pan := describeRecord(r)
				if g.FirstRec == "" {
					g.FirstRec = fmt.Sprintf("%T %s", r, text)
				}
				if pan != "" && g.PrintPanic == "" {
					g.PrintPanic = pan
				}
				if sr, ok := r.(*socks5.ScanResult); ok && sr != nil && sr.IP == ip && int(sr.Port) == p.Port {
					g.GoodRecs++
				}
			case <-time.After(150 * time.Millisecond):
				break drain
			}
		}
		cancel()
		l.Close()
		want := len(rep) >= 2 && rep[0] == 5 && rep[1] == 0
		switch {
		case g.What != "":
		case !want && g.Records > 0:
			g.What = fmt.Sprintf("%d records on the result channel for %d probes of a peer that answers %v, not 05 00", g.Records, perPeer, rep)
			if g.PrintPanic != "" {
				g.What += "; printing the record panics: " + g.PrintPanic
			}
		case want && g.Errors == 0 && (g.Records != perPeer || g.GoodRecs != perPeer):
			g.What = fmt.Sprintf("%d records (%d with the probed address) for %d error-free probes of a peer that answers 05 00", g.Records, g.GoodRecs, perPeer)
		case g.PrintPanic != "":
			g.What = "printing a record panics: " + g.PrintPanic
		}
		row.Groups = append(row.Groups, g)
		if g.What != "" {
			row.Bad = append(row.Bad, g)
		}
	}
	swg.Wait()
	return row
}
