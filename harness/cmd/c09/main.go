// Driver for C09: runs the real socks5.Scanner.Scan against scripted loopback TCP peers and
// records what a caller observes (result / error class / duration) and what the peer received.
//
// A case is: the two timeouts, an optional cancellation time, how the connection attempt goes
// (accepted / refused by a bound-but-not-listening socket / never answered because the accept
// queue of a listener is full / an address the dialer rejects), and for an accepting peer a list
// of timed actions (send bytes, close, reset).  Every random choice derives from -seed.
package main

import (
	"bytes"
	"context"
	"encoding/json"
	"errors"
	"flag"
	"fmt"
	"io"
	"net"
	"os"
	"os/exec"
	"reflect"
	"runtime"
	"sort"
	"strconv"
	"strings"
	"sync"
	"syscall"
	"time"

	"github.com/v-byte-cpu/sx/pkg/scan"
	"github.com/v-byte-cpu/sx/pkg/scan/socks5"
	"verifharness/hlib"
)

type action struct {
	Delay int    `json:"delay"` // ms after the previous action (or after accept / after the greeting was read)
	Kind  string `json:"kind"`  // send | close | rst
	Data  []int  `json:"data,omitempty"`
	Flood int    `json:"flood,omitempty"` // send: append this many further bytes (value 0x41)
}

type rec struct {
	IP      string `json:"ip"`
	Port    int    `json:"port"`
	Version int    `json:"version"`
	Scan    string `json:"scan"`
}

type tcase struct {
	ID        int      `json:"id"`
	Class     string   `json:"class"`
	TDial     int      `json:"tdial"`  // ms; 0 = no dial timeout; negative allowed
	TData     int      `json:"tdata"`  // ms
	Cancel    int      `json:"cancel"` // ms after start; -1 = never
	Mode      string   `json:"mode"`   // accept | refuse | blackhole | badaddr
	ReadFirst bool     `json:"read_first"`
	Actions   []action `json:"actions"`
	IP        string   `json:"ip"`
	// Scanner reuse: before the measured Scan the SAME Scanner makes Prior completed Scans, each under a fresh context of
	// its own, against a peer that answers PriorReply at once.  PriorCancel: each of those contexts is cancelled as soon as
	// its Scan has returned (otherwise they stay live until the case ends).  The measured Scan then runs under ITS OWN
	// context; the property speaks about every Scan call, whatever the Scanner did before.
	Prior       int   `json:"prior,omitempty"`
	PriorCancel bool  `json:"prior_cancel,omitempty"`
	PriorReply  []int `json:"prior_reply,omitempty"`
	PriorObs    []int `json:"prior_obs,omitempty"` // observation: outcome class of each prior Scan
	// observations
	Port        int     `json:"port"`
	Obs         int     `json:"obs"`
	Err         string  `json:"err"`
	DurMS       float64 `json:"dur_ms"`
	Greet       []int   `json:"greet"` // nil: the peer did not look
	Rec         *rec    `json:"rec"`
	JitterMS    float64 `json:"jitter_ms"`    // largest scheduling overshoot of a 5 ms sleep while the case ran
	CPUSlowdown float64 `json:"cpu_slowdown"` // wall / CPU time of a 2 ms burn: 1.0 when quiet (see jitter.go)
	Tries       int     `json:"tries"`
	// end-to-end: run this sx binary (`sx socks -p PORT IP --json -t <tdata>ms`) instead of calling Scan;
	// obs is then 0 (a record was printed) or 1 (none), tdial is ignored (the CLI has one --timeout)
	PrintPanic string `json:"print_panic,omitempty"` // printing the returned record (String / MarshalJSON / ID) panics with this
	E2E        string `json:"e2e,omitempty"`
	Stderr     string `json:"stderr,omitempty"`
}

// cliProbe runs the real command line.
type cliProbe struct {
	bin     string
	timeout int
	stderr  string
}

func (p *cliProbe) Scan(ctx context.Context, r *scan.Request) (scan.Result, error) {
	cmd := exec.CommandContext(ctx, p.bin, "socks", "-p", strconv.Itoa(int(r.DstPort)), r.DstIP.String()+"/32",
		"--json", "-t", fmt.Sprintf("%dms", p.timeout), "--exit-delay", "20ms")
	var so, se bytes.Buffer
	cmd.Stdout, cmd.Stderr = &so, &se
	err := cmd.Run()
	p.stderr = se.String()
	if len(p.stderr) > 300 {
		p.stderr = p.stderr[len(p.stderr)-300:]
	}
	if err != nil {
		if i := strings.Index(se.String(), "panic:"); i >= 0 {
			msg := se.String()[i:]
			if j := strings.Index(msg, "\n"); j > 0 {
				msg = msg[:j]
			}
			return nil, &cliCrash{fmt.Sprintf("sx socks crashed (%v): %s", err, msg)}
		}
		return nil, err
	}
	line := strings.TrimSpace(so.String())
	if line == "" {
		return nil, nil
	}
	var res socks5.ScanResult
	if err := json.Unmarshal([]byte(strings.Split(line, "\n")[0]), &res); err != nil {
		return nil, fmt.Errorf("unparsable output %q", line)
	}
	return &res, nil
}

const (
	obsReport = iota
	obsNothing
	obsDialTimeout
	obsDialRefused
	obsDialOther
	obsLinger
	obsTimeout
	obsEOF
	obsUnexpectedEOF
	obsReset
	obsCancelled
	obsHang
	obsOutOfFuel // unused by the harness (model only)
	obsTypedNil  // err == nil and result != nil as an interface, but it holds a nil pointer: the engine emits a record
	obsCrash     // end-to-end: the sx process died (panic)
)

// cliCrash: the sx process was killed by a panic.
type cliCrash struct{ msg string }

func (c *cliCrash) Error() string { return c.msg }

// typedNil: the interface is not nil (so the engine's `result != nil` emits it as a record) but holds a nil pointer.
func typedNil(res scan.Result) bool {
	if res == nil {
		return false
	}
	v := reflect.ValueOf(res)
	return v.Kind() == reflect.Ptr && v.IsNil()
}

// describeRecord prints a record the way the loggers do, under recover.
func describeRecord(res scan.Result) (text, panicked string) {
	defer func() {
		if r := recover(); r != nil {
			panicked = fmt.Sprint(r)
		}
	}()
	text = res.String()
	if _, err := res.MarshalJSON(); err != nil {
		panicked = "MarshalJSON: " + err.Error()
	}
	_ = res.ID()
	return
}

func classify(res scan.Result, err error) int {
	var crash *cliCrash
	if errors.As(err, &crash) {
		return obsCrash
	}
	if err == nil {
		if res == nil {
			return obsNothing
		}
		if typedNil(res) {
			return obsTypedNil
		}
		return obsReport
	}
	var op *net.OpError
	isDial := errors.As(err, &op) && op.Op == "dial"
	if errors.Is(err, context.Canceled) || errors.Is(err, net.ErrClosed) {
		return obsCancelled
	}
	if isDial {
		if op.Timeout() {
			return obsDialTimeout
		}
		if errors.Is(err, syscall.ECONNREFUSED) {
			return obsDialRefused
		}
		if op.Err != nil && op.Err.Error() == "operation was canceled" {
			return obsCancelled
		}
		return obsDialOther
	}
	if errors.Is(err, os.ErrDeadlineExceeded) {
		return obsTimeout
	}
	if err == io.EOF {
		return obsEOF
	}
	if err == io.ErrUnexpectedEOF {
		return obsUnexpectedEOF
	}
	if errors.Is(err, syscall.ECONNRESET) || errors.Is(err, syscall.EPIPE) {
		return obsReset
	}
	var ne net.Error
	if errors.As(err, &ne) && ne.Timeout() {
		return obsTimeout
	}
	if op != nil && op.Op == "dial" {
		return obsDialOther
	}
	var ae *net.AddrError
	if errors.As(err, &ae) {
		return obsDialOther
	}
	return 99
}

// ---------------------------------------------------------------- peers

// reservePort binds a TCP socket without listening: connecting to it is refused, and nobody else
// can get the port while the case runs.
func reservePort(ip net.IP) (int, func(), error) {
	fd, err := syscall.Socket(syscall.AF_INET, syscall.SOCK_STREAM, 0)
	if err != nil {
		return 0, nil, err
	}
	var a [4]byte
	copy(a[:], ip.To4())
	if err := syscall.Bind(fd, &syscall.SockaddrInet4{Port: 0, Addr: a}); err != nil {
		syscall.Close(fd)
		return 0, nil, err
	}
	sa, err := syscall.Getsockname(fd)
	if err != nil {
		syscall.Close(fd)
		return 0, nil, err
	}
	return sa.(*syscall.SockaddrInet4).Port, func() { syscall.Close(fd) }, nil
}

// blackhole is a listener whose accept queue is full and never drained: further SYNs are dropped.
type blackhole struct {
	port  int
	fd    int
	conns []net.Conn
}

func newBlackhole() (*blackhole, error) {
	fd, err := syscall.Socket(syscall.AF_INET, syscall.SOCK_STREAM, 0)
	if err != nil {
		return nil, err
	}
	if err := syscall.Bind(fd, &syscall.SockaddrInet4{Port: 0, Addr: [4]byte{127, 0, 0, 1}}); err != nil {
		return nil, err
	}
	if err := syscall.Listen(fd, 1); err != nil {
		return nil, err
	}
	sa, _ := syscall.Getsockname(fd)
	b := &blackhole{port: sa.(*syscall.SockaddrInet4).Port, fd: fd}
	addr := fmt.Sprintf("127.0.0.1:%d", b.port)
	full := false
	for i := 0; i < 16; i++ {
		c, err := net.DialTimeout("tcp", addr, 250*time.Millisecond)
		if err != nil {
			full = true
			break
		}
		b.conns = append(b.conns, c)
	}
	if !full {
		return nil, errors.New("accept queue never filled")
	}
	// confirm twice
	for i := 0; i < 2; i++ {
		if c, err := net.DialTimeout("tcp", addr, 150*time.Millisecond); err == nil {
			c.Close()
			return nil, errors.New("blackhole accepted a connection")
		}
	}
	return b, nil
}

// servePeer plays the actions on one accepted connection.
func servePeer(l net.Listener, c *tcase, done <-chan struct{}, greet *[]int, wg *sync.WaitGroup) {
	defer wg.Done()
	conn, err := l.Accept()
	if err != nil {
		return
	}
	tc := conn.(*net.TCPConn)
	closed := false
	defer func() {
		if !closed {
			conn.Close()
		}
	}()
	readGreeting := func(wait time.Duration) {
		buf := make([]byte, 16)
		conn.SetReadDeadline(time.Now().Add(wait))
		n := 0
		for n < 3 {
			k, err := conn.Read(buf[n:])
			n += k
			if err != nil {
				break
			}
		}
		// anything beyond the greeting that is already there
		if n >= 3 {
			conn.SetReadDeadline(time.Now().Add(5 * time.Millisecond))
			k, _ := conn.Read(buf[n:])
			n += k
		}
		g := make([]int, n)
		for i := 0; i < n; i++ {
			g[i] = int(buf[i])
		}
		*greet = g
	}
	if c.ReadFirst {
		readGreeting(2 * time.Second)
	}
	for _, a := range c.Actions {
		if a.Delay > 0 {
			select {
			case <-time.After(time.Duration(a.Delay) * time.Millisecond):
			case <-done:
				return
			}
		}
		switch a.Kind {
		case "send":
			data := make([]byte, 0, len(a.Data)+a.Flood)
			for _, v := range a.Data {
				data = append(data, byte(v))
			}
			for i := 0; i < a.Flood; i++ {
				data = append(data, 0x41)
			}
			conn.SetWriteDeadline(time.Now().Add(300 * time.Millisecond))
			conn.Write(data)
		case "trickle": // one byte (Data[0], default 0x2e) every Delay ms, for ever; the first one after Delay
			b := []byte{0x2e}
			if len(a.Data) > 0 {
				b[0] = byte(a.Data[0])
			}
			for {
				conn.SetWriteDeadline(time.Now().Add(300 * time.Millisecond))
				if _, err := conn.Write(b); err != nil {
					<-done
					return
				}
				select {
				case <-time.After(time.Duration(maxInt(a.Delay, 1)) * time.Millisecond):
				case <-done:
					return
				}
			}
		case "stream": // a continuous flood, ~20 MB/s, for ever
			chunk := make([]byte, 64<<10)
			for i := range chunk {
				chunk[i] = 0x41
			}
			for {
				conn.SetWriteDeadline(time.Now().Add(300 * time.Millisecond))
				conn.Write(chunk) // errors (full buffers) are fine: keep offering data
				select {
				case <-time.After(3 * time.Millisecond):
				case <-done:
					return
				}
			}
		case "close":
			conn.Close()
			closed = true
			<-done
			return
		case "rst":
			tc.SetLinger(0)
			conn.Close()
			closed = true
			<-done
			return
		}
	}
	<-done
	if !c.ReadFirst {
		readGreeting(30 * time.Millisecond)
	}
}

var (
	bh    *blackhole
	bhErr error
)

func runCase(c *tcase) {
	startJitterMonitor()
	caseStart := time.Now()
	defer func() { c.JitterMS, c.CPUSlowdown = loadBetween(caseStart, time.Now()) }()
	c.Tries++
	c.Greet, c.Rec, c.Err = nil, nil, ""
	ip := net.ParseIP(c.IP)
	var cleanup []func()
	defer func() {
		for _, f := range cleanup {
			f()
		}
	}()
	done := make(chan struct{})
	var wg sync.WaitGroup
	var greet []int
	var listener net.Listener
	switch c.Mode {
	case "accept":
		l, err := net.Listen("tcp4", net.JoinHostPort(c.IP, "0"))
		if err != nil {
			c.Obs, c.Err = 98, "harness: "+err.Error()
			return
		}
		c.Port = l.Addr().(*net.TCPAddr).Port
		wg.Add(1)
		go servePeer(l, c, done, &greet, &wg)
		listener = l
	case "refuse":
		port, release, err := reservePort(ip)
		if err != nil {
			c.Obs, c.Err = 98, "harness: "+err.Error()
			return
		}
		c.Port = port
		cleanup = append(cleanup, release)
	case "blackhole":
		if bh == nil {
			c.Obs, c.Err = 98, "harness: no blackhole: "+fmt.Sprint(bhErr)
			return
		}
		c.IP = "127.0.0.1"
		ip = net.ParseIP(c.IP)
		c.Port = bh.port
	case "badaddr":
		c.Port = 1080
	}
	opts := []socks5.ScannerOption{
		socks5.WithDialTimeout(time.Duration(c.TDial) * time.Millisecond),
		socks5.WithDataTimeout(time.Duration(c.TData) * time.Millisecond),
	}
	var s interface {
		Scan(context.Context, *scan.Request) (scan.Result, error)
	} = socks5.NewScanner(opts...)
	var cli *cliProbe
	if c.E2E != "" {
		cli = &cliProbe{bin: c.E2E, timeout: c.TData}
		s = cli
	}
	c.PriorObs = nil
	if c.Prior > 0 && c.E2E == "" {
		if msg := runPrior(c, s, ip, &cleanup); msg != "" {
			c.Obs, c.Err = 98, "harness: "+msg
			close(done)
			if listener != nil {
				listener.Close()
			}
			wg.Wait()
			return
		}
	}
	ctx, cancel := context.WithCancel(context.Background())
	defer cancel()
	req := &scan.Request{DstIP: ip, DstPort: uint16(c.Port)}
	type out struct {
		res scan.Result
		err error
		dur time.Duration
	}
	ch := make(chan out, 1)
	if c.Cancel == 0 {
		cancel()
	}
	start := time.Now()
	if c.Cancel > 0 {
		t := time.AfterFunc(time.Duration(c.Cancel)*time.Millisecond, cancel)
		defer t.Stop()
	}
	go func() {
		res, err := s.Scan(ctx, req)
		ch <- out{res, err, time.Since(start)}
	}()
	// watchdog: far beyond any bound the property allows
	limit := time.Duration(maxInt(c.TDial, 0)+3*maxInt(c.TData, 0))*time.Millisecond + 1500*time.Millisecond
	if c.E2E != "" {
		limit = 4*time.Duration(maxInt(c.TData, 0))*time.Millisecond + 4*time.Second
	}
	if c.Cancel > 0 {
		limit = time.Duration(c.Cancel)*time.Millisecond + 1500*time.Millisecond
	}
	var o out
	hang := false
	select {
	case o = <-ch:
	case <-time.After(limit):
		hang = true
		cancel()
		select {
		case o = <-ch:
		case <-time.After(3 * time.Second):
		}
		o.dur = time.Since(start)
	}
	close(done)
	if listener != nil {
		listener.Close()
	}
	wg.Wait()
	c.DurMS = float64(o.dur.Microseconds()) / 1000
	if hang {
		c.Obs = obsHang
		c.Err = "no return within " + limit.String()
	} else {
		c.Obs = classify(o.res, o.err)
		if o.err != nil {
			c.Err = o.err.Error()
		}
	}
	c.Greet = greet
	if cli != nil {
		c.Stderr = cli.stderr
	}
	if o.res != nil {
		_, c.PrintPanic = describeRecord(o.res)
		if r, ok := o.res.(*socks5.ScanResult); ok && r != nil {
			c.Rec = &rec{IP: r.IP, Port: int(r.Port), Version: r.Version, Scan: r.ScanType}
		} else {
			c.Rec = &rec{IP: fmt.Sprintf("%T", o.res)}
			if typedNil(o.res) {
				c.Err = fmt.Sprintf("Scan returned err == nil and a scan.Result that is != nil but holds a nil %T", o.res)
			}
		}
	}
}

// runPrior: c.Prior completed Scans on the Scanner s, each under a fresh context of its own, each against a fresh
// loopback peer that reads the greeting and answers c.PriorReply at once.  Returns "" or what went wrong in the harness.
func runPrior(c *tcase, s interface {
	Scan(context.Context, *scan.Request) (scan.Result, error)
}, ip net.IP, cleanup *[]func()) string {
	for k := 0; k < c.Prior; k++ {
		l, err := net.Listen("tcp4", net.JoinHostPort(c.IP, "0"))
		if err != nil {
			return err.Error()
		}
		release := make(chan struct{})
		var pw sync.WaitGroup
		pw.Add(1)
		go func() {
			defer pw.Done()
			conn, err := l.Accept()
			if err != nil {
				return
			}
			defer conn.Close()
			buf := make([]byte, 3)
			conn.SetReadDeadline(time.Now().Add(2 * time.Second))
			io.ReadFull(conn, buf)
			rep := make([]byte, len(c.PriorReply))
			for i, v := range c.PriorReply {
				rep[i] = byte(v)
			}
			conn.SetWriteDeadline(time.Now().Add(300 * time.Millisecond))
			conn.Write(rep)
			<-release
		}()
		pctx, pcancel := context.WithCancel(context.Background())
		type pout struct {
			res scan.Result
			err error
		}
		pch := make(chan pout, 1)
		req := &scan.Request{DstIP: ip, DstPort: uint16(l.Addr().(*net.TCPAddr).Port)}
		go func() {
			res, err := s.Scan(pctx, req)
			pch <- pout{res, err}
		}()
		limit := time.Duration(maxInt(c.TDial, 0)+3*maxInt(c.TData, 0))*time.Millisecond + 1500*time.Millisecond
		msg := ""
		select {
		case o := <-pch:
			c.PriorObs = append(c.PriorObs, classify(o.res, o.err))
		case <-time.After(limit):
			msg = fmt.Sprintf("prior Scan %d did not return within %v", k, limit)
		}
		close(release)
		l.Close()
		pw.Wait()
		if c.PriorCancel || msg != "" {
			pcancel()
		} else {
			*cleanup = append(*cleanup, pcancel) // stays live while the measured Scan runs
		}
		if msg != "" {
			return msg
		}
	}
	return ""
}

// ---------------------------------------------------------------- cancel-race sweep
// A stalling peer cancels the scan's context the moment it accepts the connection plus a swept
// busy-wait of 0..100 us, so that the cancellation lands at every point between "dial returned"
// and "blocked in the reply read".  The property alone judges: Scan must return within the
// cancellation + slack, far below the data timeout.
type raceLate struct {
	Attempt   int     `json:"attempt"`
	SpinUS    int     `json:"spin_us"`
	OneByte   bool    `json:"one_byte"`
	LatencyMS float64 `json:"latency_ms"` // Scan's return minus the cancellation
	Err       string  `json:"err"`
	Reported  bool    `json:"reported"`
}

type raceRow struct {
	Class      string     `json:"class"`
	TDial      int        `json:"tdial"`
	TData      int        `json:"tdata"`
	SlackMS    int        `json:"slack_ms"`
	Attempts   int        `json:"attempts"`     // attempts made
	MaxAttempt int        `json:"max_attempts"` // attempts allowed
	SpinMaxUS  int        `json:"spin_max_us"`
	Procs      int        `json:"gomaxprocs"`
	Late       []raceLate `json:"late"`
	WorstMS    float64    `json:"worst_ms"`
	MedianMS   float64    `json:"median_ms"`
	Errors     int        `json:"harness_errors"`
}

func raceAttempt(i, tdial, tdata, spinMax int) (lat float64, late raceLate, ok bool) {
	l, err := net.Listen("tcp4", "127.0.0.1:0")
	if err != nil {
		return 0, late, false
	}
	defer l.Close()
	spin := (i * 2) % (spinMax + 1)
	oneByte := (i/((spinMax+2)/2))%2 == 1
	ctx, cancel := context.WithCancel(context.Background())
	defer cancel()
	cancelAt := make(chan time.Time, 1)
	release := make(chan struct{})
	var wg sync.WaitGroup
	wg.Add(1)
	go func() {
		defer wg.Done()
		conn, err := l.Accept()
		if err != nil {
			cancelAt <- time.Time{}
			return
		}
		defer conn.Close()
		t0 := time.Now()
		for time.Since(t0) < time.Duration(spin)*time.Microsecond {
		}
		at := time.Now()
		cancel()
		cancelAt <- at
		if oneByte {
			conn.Write([]byte{5})
		}
		<-release
	}()
	s := socks5.NewScanner(socks5.WithDialTimeout(time.Duration(tdial)*time.Millisecond),
		socks5.WithDataTimeout(time.Duration(tdata)*time.Millisecond))
	port := l.Addr().(*net.TCPAddr).Port
	res, serr := s.Scan(ctx, &scan.Request{DstIP: net.IPv4(127, 0, 0, 1), DstPort: uint16(port)})
	ret := time.Now()
	var at time.Time
	select {
	case at = <-cancelAt:
	case <-time.After(2 * time.Second):
	}
	close(release)
	l.Close()
	wg.Wait()
	if at.IsZero() {
		return 0, late, false
	}
	lat = float64(ret.Sub(at).Microseconds()) / 1000
	late = raceLate{Attempt: i, SpinUS: spin, OneByte: oneByte, LatencyMS: lat, Reported: res != nil}
	if serr != nil {
		late.Err = serr.Error()
	}
	return lat, late, true
}

func raceSweep(attempts, tdial, tdata, slack, spinMax, par, need int) raceRow {
	if runtime.GOMAXPROCS(0) < 2 {
		runtime.GOMAXPROCS(2)
	}
	row := raceRow{Class: "cancel-race", TDial: tdial, TData: tdata, SlackMS: slack, MaxAttempt: attempts,
		SpinMaxUS: spinMax, Procs: runtime.GOMAXPROCS(0)}
	var mu sync.Mutex
	var lats []float64
	next := 0
	var wg sync.WaitGroup
	for w := 0; w < par; w++ {
		wg.Add(1)
		go func() {
			defer wg.Done()
			for {
				mu.Lock()
				if next >= attempts || len(row.Late) >= need {
					mu.Unlock()
					return
				}
				i := next
				next++
				mu.Unlock()
				lat, l, ok := raceAttempt(i, tdial, tdata, spinMax)
				mu.Lock()
				row.Attempts++
				if !ok {
					row.Errors++
				} else {
					lats = append(lats, lat)
					if lat > row.WorstMS {
						row.WorstMS = lat
					}
					if lat > float64(slack) {
						row.Late = append(row.Late, l)
					}
				}
				mu.Unlock()
			}
		}()
	}
	wg.Wait()
	if len(lats) > 0 {
		sort.Float64s(lats)
		row.MedianMS = lats[len(lats)/2]
	}
	return row
}

func maxInt(a, b int) int {
	if a > b {
		return a
	}
	return b
}

// ---------------------------------------------------------------- generation

type gen struct {
	r     *hlib.SplitMix64
	cases []*tcase
}

func (g *gen) loopIP() string {
	return fmt.Sprintf("127.%d.%d.%d", g.r.Intn(200), g.r.Intn(250), 1+g.r.Intn(250))
}

func (g *gen) add(class, mode string, tdial, tdata, cancel int, readFirst bool, acts ...action) *tcase {
	c := &tcase{ID: len(g.cases), Class: class, Mode: mode, TDial: tdial, TData: tdata, Cancel: cancel,
		ReadFirst: readFirst, Actions: acts, IP: g.loopIP()}
	if mode == "badaddr" {
		c.IP = "::1"
	}
	g.cases = append(g.cases, c)
	return c
}

func send(delay int, data ...int) action { return action{Delay: delay, Kind: "send", Data: data} }

func (g *gen) timeouts() (int, int) { return 100 + g.r.Intn(60), 80 + g.r.Intn(60) }

// reply delivers the two bytes a, b in one of several ways.
func (g *gen) reply(class string, a, b int) {
	td, tt := g.timeouts()
	rf := g.r.Intn(4) != 0
	d0 := []int{0, 0, 3, tt / 3}[g.r.Intn(4)]
	var acts []action
	switch g.r.Intn(5) {
	case 0, 1: // one segment
		acts = []action{send(d0, a, b)}
	case 2: // split, second byte after a pause
		acts = []action{send(d0, a), send([]int{0, 4, tt / 3, tt / 2}[g.r.Intn(4)], b)}
	case 3: // followed by extra bytes in the same segment
		extra := []int{a, b}
		for i := 0; i < 1+g.r.Intn(6); i++ {
			extra = append(extra, g.r.Intn(256))
		}
		acts = []action{send(d0, extra...)}
	default: // followed by more segments, then close
		acts = []action{send(d0, a, b), send(2, g.r.Intn(256), g.r.Intn(256)), {Delay: 25, Kind: "close"}}
	}
	g.add(class, "accept", td, tt, -1, rf, acts...)
}

func (g *gen) faults(n int) {
	for i := 0; i < n; i++ {
		td, tt := g.timeouts()
		a, b := 5, 0
		if g.r.Intn(3) == 0 {
			a, b = g.r.Intn(256), g.r.Intn(256)
		}
		switch g.r.Intn(27) {
		case 0:
			g.add("refused", "refuse", td, tt, -1, false)
		case 1:
			g.add("never-accepts", "blackhole", td, tt, -1, false)
		case 2:
			g.add("bad-address", "badaddr", td, tt, -1, false)
		case 3:
			g.add("accept-stall", "accept", td, tt, -1, g.r.Bool())
		case 4:
			g.add("one-byte-stall", "accept", td, tt, -1, g.r.Bool(), send(g.r.Intn(tt/2), a))
		case 5:
			g.add("one-byte-close", "accept", td, tt, -1, true, send(g.r.Intn(tt/3), a), action{Delay: g.r.Intn(tt / 2), Kind: "close"})
		case 6:
			g.add("close-after-greeting", "accept", td, tt, -1, true, action{Delay: g.r.Intn(tt / 2), Kind: "close"})
		case 7: // closing with the greeting unread makes the kernel send a reset
			g.add("close-unread", "accept", td, tt, -1, false, action{Delay: 20 + g.r.Intn(tt/3), Kind: "close"})
		case 8:
			g.add("reset", "accept", td, tt, -1, true, action{Delay: g.r.Intn(tt / 2), Kind: "rst"})
		case 9:
			g.add("one-byte-reset", "accept", td, tt, -1, true, send(0, a), action{Delay: 20 + g.r.Intn(tt/3), Kind: "rst"})
		case 10:
			g.add("flood", "accept", td, tt, -1, g.r.Bool(), action{Delay: g.r.Intn(5), Kind: "send", Data: []int{a, b}, Flood: 200000 + g.r.Intn(400000)})
		case 11: // second byte too late
			g.add("late-second-byte", "accept", td, tt, -1, true, send(g.r.Intn(tt/3), a), send(tt+40+g.r.Intn(30), b))
		case 12: // first byte too late
			g.add("late-first-byte", "accept", td, tt, -1, true, send(tt+40+g.r.Intn(30), a, b))
		case 13: // both reads slow but in time
			g.add("slow-in-time", "accept", td, tt, -1, true, send(tt/2, a), send(tt/2, b))
		case 14: // cancel while the connection attempt is pending
			g.add("cancel-during-dial", "blackhole", 600, tt, 20+g.r.Intn(60), false)
		case 15: // cancel while waiting for the reply
			g.add("cancel-during-read", "accept", td, 600, 20+g.r.Intn(60), g.r.Bool())
		case 16: // cancel between the two reads
			g.add("cancel-after-one-byte", "accept", td, 600, 30+g.r.Intn(60), true, send(0, a))
		case 17: // cancel long after the probe ended: no effect
			g.add("cancel-late", "accept", td, tt, 400, true, send(2, a, b))
		case 18: // context cancelled before Scan
			g.add("cancel-before", "accept", td, tt, 0, true, send(0, 5, 0))
		case 19: // dial timeout 0 = none: only the cancellation ends the attempt
			g.add("zero-dial-timeout", "blackhole", 0, tt, 150+g.r.Intn(60), false)
		case 20: // data timeout <= 0: every deadline has already expired
			g.add("nonpositive-data-timeout", "accept", td, -g.r.Intn(2)*g.r.Intn(50), -1, g.r.Bool(), send(0, 5, 0))
		case 21: // negative dial timeout: expired before dialling
			g.add("negative-dial-timeout", "accept", -1-g.r.Intn(50), tt, -1, true, send(0, 5, 0))
		case 25: // data timeout <= 0 and a peer that accepts and stays silent: every deadline has already expired
			g.add("nonpositive-data-timeout-stall", "accept", td, -g.r.Intn(2)*g.r.Intn(50), -1, g.r.Bool())
		case 26: // ... or sends one byte and stays silent
			g.add("nonpositive-data-timeout-stall", "accept", td, -g.r.Intn(2)*g.r.Intn(50), -1, g.r.Bool(), send(0, a))
		case 22, 23: // a complete reply, then one byte per fraction of the data timeout, for ever (tarpit, chargen)
			rep := [][]int{{72, 84}, {4, 0}, {5, 255}, {5, 2}, {5, 0}, {a, b}}[g.r.Intn(6)]
			g.add("trickle-after-reply", "accept", td, tt, -1, g.r.Bool(), send(g.r.Intn(tt/3), rep...),
				action{Delay: tt/4 + g.r.Intn(tt/4), Kind: "trickle"})
		case 24: // a complete reply, then an endless flood
			rep := [][]int{{72, 84}, {4, 0}, {5, 255}, {5, 0}, {a, b}}[g.r.Intn(5)]
			g.add("stream-after-reply", "accept", td, tt, -1, g.r.Bool(), send(g.r.Intn(tt/3), rep...),
				action{Delay: g.r.Intn(10), Kind: "stream"})
		}
	}
}

// reuse: the measured Scan is not the Scanner's first one.  The same Scanner has completed 1..3 Scans under OTHER
// contexts (left live, or cancelled after their Scan returned); then the usual cancellation / stall / reply cases run
// under a fresh context.  The property quantifies over every Scan call: prompt end on ITS context's cancellation, the
// time bound, reported iff 05 00.
func (g *gen) reuse(n int) {
	for i := 0; i < n; i++ {
		td, tt := g.timeouts()
		a := 5
		if g.r.Intn(3) == 0 {
			a = g.r.Intn(256)
		}
		var c *tcase
		switch i % 8 {
		case 0, 1: // cancel while waiting for the reply
			c = g.add("reuse:cancel-during-read", "accept", td, 600, 20+g.r.Intn(60), g.r.Bool())
		case 2, 3: // cancel between the two reads
			c = g.add("reuse:cancel-after-one-byte", "accept", td, 600, 30+g.r.Intn(60), true, send(0, a))
		case 4: // cancel while the connection attempt is pending
			c = g.add("reuse:cancel-during-dial", "blackhole", 600, tt, 20+g.r.Intn(60), false)
		case 5: // no cancellation of the measured Scan: the time bound
			c = g.add("reuse:accept-stall", "accept", td, tt, -1, g.r.Bool())
		case 6: // a proxy is still reported
			c = g.add("reuse:reply-05-00", "accept", td, tt, -1, true, send(g.r.Intn(tt/3), 5, 0))
		default: // context cancelled before Scan
			c = g.add("reuse:cancel-before", "accept", td, tt, 0, true, send(0, 5, 0))
		}
		c.Prior = 1 + g.r.Intn(3)
		// the first half keeps the earlier contexts live, the rest is drawn
		c.PriorCancel = i >= n/2 && g.r.Bool()
		c.PriorReply = [][]int{{5, 0}, {5, 0}, {5, 255}, {72, 84}}[g.r.Intn(4)]
	}
}

func main() {
	out := flag.String("out", "cases.jsonl", "output file")
	nreuse := flag.Int("reuse", 32, "number of generated Scanner-reuse cases (a Scan that is not the Scanner's first)")
	seed := flag.Int64("seed", 1, "seed")
	nfault := flag.Int("n", 300, "number of generated fault scripts")
	nsample := flag.Int("sample", 200, "number of sampled two-byte replies besides the 5x / x0 families")
	all := flag.Bool("all", false, "all 65536 two-byte replies instead of the sample")
	par := flag.Int("par", 48, "probes in flight")
	e2e := flag.String("e2e", "", "path of an sx binary: add end-to-end cases through the command line")
	race := flag.Int("race", 0, "run ONLY the cancel-race sweep with this many attempts")
	raceTData := flag.Int("race-tdata", 800, "cancel-race sweep: data timeout, ms")
	raceSlack := flag.Int("race-slack", 300, "cancel-race sweep: a return later than this after the cancellation is late, ms")
	raceNeed := flag.Int("race-need", 3, "cancel-race sweep: stop after this many late returns")
	conc := flag.Int64("conc", 0, "concurrent stage: one Scanner shared by many goroutines, at most this many probes (0: skip)")
	concMS := flag.Int("conc-ms", 2500, "concurrent stage: at most this long")
	concG := flag.Int("conc-g", 64, "concurrent stage: goroutines")
	concOnly := flag.Bool("conc-only", false, "run ONLY the concurrent stage")
	vanish := flag.Bool("vanish", false, "run ONLY the peer-vanishes-after-the-handshake stage (own network namespace, needs root)")
	replay := flag.String("replay", "", "JSON file with a list of cases to run again (inputs are taken, observations overwritten)")
	flag.Parse()

	if *race > 0 {
		// warm-up, then the sweep; nothing else
		raceSweep(12, 1000, *raceTData, *raceSlack, 100, 4, 1000)
		row := raceSweep(*race, 1000, *raceTData, *raceSlack, 100, 4, *raceNeed)
		w := hlib.NewOut(*out)
		w.Put(row)
		w.Close()
		return
	}
	if *vanish {
		if os.Getenv(vanishChildEnv) != "" {
			vanishChild(*out)
		} else {
			vanishParent(*out)
		}
		return
	}
	if *concOnly {
		row := concStage(*seed, *concG, *conc, time.Duration(*concMS)*time.Millisecond, 1500)
		w := hlib.NewOut(*out)
		w.Put(row)
		w.Put(engineStage(12, 4)) // the same probe through scan.NewScanEngine + NewResultChan
		w.Close()
		return
	}
	bh, bhErr = newBlackhole()

	g := &gen{r: hlib.NewRand(*seed)}
	if *replay != "" {
		data, err := os.ReadFile(*replay)
		if err != nil {
			fmt.Fprintln(os.Stderr, err)
			os.Exit(2)
		}
		if err := json.Unmarshal(data, &g.cases); err != nil {
			fmt.Fprintln(os.Stderr, err)
			os.Exit(2)
		}
	} else {
		// the one accepted reply, many deliveries
		for i := 0; i < 24; i++ {
			g.reply("reply-05-00", 5, 0)
		}
		if *all {
			for a := 0; a < 256; a++ {
				for b := 0; b < 256; b++ {
					g.reply("reply-all", a, b)
				}
			}
		} else {
			for x := 0; x < 256; x++ {
				g.reply("reply-05-xx", 5, x)
				g.reply("reply-xx-00", x, 0)
			}
			for i := 0; i < *nsample; i++ {
				g.reply("reply-sample", g.r.Intn(256), g.r.Intn(256))
			}
		}
		g.faults(*nfault)
		g.reuse(*nreuse)
		if *e2e != "" {
			for k := 0; k < 2; k++ {
				for _, c := range []*tcase{
					g.add("e2e:reply-05-00", "accept", 0, 250, -1, true, send(5, 5, 0)),
					g.add("e2e:reply-05-00-split", "accept", 0, 250, -1, k == 0, send(5, 5), send(40, 0, 7, 7)),
					g.add("e2e:reply-05-02", "accept", 0, 250, -1, true, send(5, 5, 2)),
					g.add("e2e:reply-04-00", "accept", 0, 250, -1, true, send(5, 4, 0)),
					g.add("e2e:reply-05-ff", "accept", 0, 250, -1, true, send(5, 5, 255)),
					g.add("e2e:reply-00-05", "accept", 0, 250, -1, true, send(5, 0, 5)),
					g.add("e2e:reply-SSH-banner", "accept", 0, 250, -1, true, send(5, 83, 83, 72, 45, 50)),
					g.add("e2e:one-byte-close", "accept", 0, 250, -1, true, send(5, 5), action{Delay: 20, Kind: "close"}),
					g.add("e2e:accept-stall", "accept", 0, 250+50*k, -1, true),
					g.add("e2e:one-byte-stall", "accept", 0, 250+50*k, -1, true, send(5, 5)),
					g.add("e2e:never-accepts", "blackhole", 0, 250+50*k, -1, false),
					g.add("e2e:refused", "refuse", 0, 250, -1, false),
					g.add("e2e:zero-timeout-stall", "accept", 0, 0, -1, true),
					g.add("e2e:zero-timeout-one-byte-stall", "accept", 0, 0, -1, true, send(0, 5)),
				} {
					c.E2E = *e2e
				}
			}
		}
	}

	// warm-up: the first probes of a process see scheduling delays of tens of milliseconds while the
	// runtime creates its threads; run throw-away probes first
	if *replay == "" {
		var ww sync.WaitGroup
		for i := 0; i < 2**par; i++ {
			ww.Add(1)
			go func() {
				defer ww.Done()
				runCase(&tcase{Mode: "accept", TDial: 200, TData: 200, Cancel: -1, ReadFirst: true,
					Actions: []action{send(10, 5, 0)}, IP: "127.0.0.1"})
			}()
		}
		ww.Wait()
	}

	jobs := make(chan *tcase)
	var wg sync.WaitGroup
	for i := 0; i < *par; i++ {
		wg.Add(1)
		go func() {
			defer wg.Done()
			for c := range jobs {
				runCase(c)
			}
		}()
	}
	for _, c := range g.cases {
		jobs <- c
	}
	close(jobs)
	wg.Wait()

	w := hlib.NewOut(*out)
	defer w.Close()
	for _, c := range g.cases {
		w.Put(c)
	}
	if *conc > 0 && *replay == "" {
		w.Put(concStage(*seed, *concG, *conc, time.Duration(*concMS)*time.Millisecond, 1500))
	}
}
