package main

// Load monitors.  Measured durations (and, with short timeouts, even outcomes) say nothing about the
// code under test while the machine starves the process of CPU, so every case records how bad it was
// while it ran:
//   jitter_ms     a goroutine sleeps 5 ms in a loop; the largest overshoot of a sleep (wake-up latency)
//   cpu_slowdown  a thread-locked goroutine burns 2 ms of its own CPU time every 15 ms; wall time / CPU
//                 time of the slowest burn (1.0 on a quiet machine, 4 when four runnable threads share
//                 each core) -- the scheduler serves sleepers promptly even when CPU-bound work crawls,
//                 so the first number alone underestimates starvation of TLS / JSON / 2 MB bodies
// The check scales the scheduling slack of its duration comparisons with them and uses them to decide
// whether a re-run happened in a quiet window.

import (
	"runtime"
	"sort"
	"sync"
	"syscall"
	"time"
)

type loadSample struct {
	at time.Time
	v  float64
}

type loadSeries struct {
	mu      sync.Mutex
	samples []loadSample
	started time.Time
}

func (s *loadSeries) add(v float64) {
	s.mu.Lock()
	s.samples = append(s.samples, loadSample{time.Now(), v})
	s.mu.Unlock()
}

// maxBetween: the largest sample that ended in [from - pad, to + pad]; if the monitor produced nothing
// in that window although it should have, it was starved itself: then `starved(gap)` says what that means.
func (s *loadSeries) maxBetween(from, to time.Time, pad, period time.Duration, starved func(gap time.Duration) float64) float64 {
	return s.between(from, to, pad, period, starved, false)
}

// medianBetween: like maxBetween but the MEDIAN of the samples: starvation is sustained, a single slow sample
// (process start-up, a GC cycle, the harness's own burst of parallel TLS handshakes) is not starvation.
func (s *loadSeries) medianBetween(from, to time.Time, pad, period time.Duration, starved func(gap time.Duration) float64) float64 {
	return s.between(from, to, pad, period, starved, true)
}

func (s *loadSeries) between(from, to time.Time, pad, period time.Duration, starved func(gap time.Duration) float64, median bool) float64 {
	from, to = from.Add(-pad), to.Add(pad)
	s.mu.Lock()
	defer s.mu.Unlock()
	i := sort.Search(len(s.samples), func(i int) bool { return !s.samples[i].at.Before(from) })
	max := 0.0
	last := s.started
	if i > 0 {
		last = s.samples[i-1].at
	}
	var vals []float64
	for ; i < len(s.samples) && !s.samples[i].at.After(to); i++ {
		if s.samples[i].v > max {
			max = s.samples[i].v
		}
		vals = append(vals, s.samples[i].v)
		last = s.samples[i].at
	}
	if median && len(vals) > 0 {
		sort.Float64s(vals)
		max = vals[(len(vals)-1)/2] // lower median: one of two samples being slow is not sustained either
	}
	if last.Before(from) {
		last = from
	}
	if gap := to.Sub(last) - pad - 3*period; gap > 0 { // nothing for much longer than a period before the window's end
		if v := starved(gap); v > max {
			max = v
		}
	}
	return max
}

var (
	jitterSeries, slowSeries loadSeries
	loadOnce                 sync.Once
)

func threadCPU() time.Duration {
	var ru syscall.Rusage
	if err := syscall.Getrusage(1 /* RUSAGE_THREAD */, &ru); err != nil {
		return 0
	}
	return time.Duration(ru.Utime.Nano() + ru.Stime.Nano())
}

func startJitterMonitor() {
	loadOnce.Do(func() {
		now := time.Now()
		jitterSeries.started, slowSeries.started = now, now
		go func() {
			const period = 5 * time.Millisecond
			for {
				t0 := time.Now()
				time.Sleep(period)
				jitterSeries.add(float64(time.Since(t0)-period) / float64(time.Millisecond))
			}
		}()
		go func() {
			runtime.LockOSThread()
			const burn = 2 * time.Millisecond
			x := uint64(1)
			for {
				c0, w0 := threadCPU(), time.Now()
				for threadCPU()-c0 < burn {
					for k := 0; k < 20000; k++ {
						x = x*6364136223846793005 + 1442695040888963407
					}
				}
				cpu, wall := threadCPU()-c0, time.Since(w0)
				if cpu > 0 {
					slowSeries.add(float64(wall) / float64(cpu))
				}
				if x == 42 {
					runtime.Gosched()
				}
				time.Sleep(15 * time.Millisecond)
			}
		}()
	})
}

// loadBetween returns (jitter_ms, cpu_slowdown) for a case that ran from `from` to `to`.
func loadBetween(from, to time.Time) (float64, float64) {
	j := jitterSeries.maxBetween(from, to, 10*time.Millisecond, 5*time.Millisecond,
		func(gap time.Duration) float64 { return float64(gap) / float64(time.Millisecond) })
	s := slowSeries.medianBetween(from, to, 40*time.Millisecond, 20*time.Millisecond,
		func(gap time.Duration) float64 { return 1 + float64(gap)/float64(2*time.Millisecond) })
	if s < 1 {
		s = 1
	}
	return j, s
}
