package main

// Scheduling-jitter monitor: a goroutine sleeps 5 ms in a loop and records by how much each sleep
// overshoots.  On a quiet machine the overshoot is far below a millisecond; under CPU starvation it
// reaches tens of milliseconds, and then measured durations say nothing about the code under test.
// Every case records the largest overshoot seen while it ran (jitter_ms), which the check uses to
// scale the scheduling slack of duration comparisons and to decide whether a re-run is conclusive.

import (
	"sort"
	"sync"
	"time"
)

type jitterSample struct {
	at time.Time
	ms float64
}

var (
	jitterMu      sync.Mutex
	jitterSamples []jitterSample
	jitterOnce    sync.Once
)

func startJitterMonitor() {
	jitterOnce.Do(func() {
		go func() {
			const period = 5 * time.Millisecond
			for {
				t0 := time.Now()
				time.Sleep(period)
				now := time.Now()
				over := float64(now.Sub(t0)-period) / float64(time.Millisecond)
				jitterMu.Lock()
				jitterSamples = append(jitterSamples, jitterSample{now, over})
				jitterMu.Unlock()
			}
		}()
	})
}

// jitterBetween returns the largest overshoot of a sample that ended in [from - 10 ms, to + 10 ms].
func jitterBetween(from, to time.Time) float64 {
	from, to = from.Add(-10*time.Millisecond), to.Add(10*time.Millisecond)
	jitterMu.Lock()
	defer jitterMu.Unlock()
	i := sort.Search(len(jitterSamples), func(i int) bool { return !jitterSamples[i].at.Before(from) })
	max := 0.0
	for ; i < len(jitterSamples) && !jitterSamples[i].at.After(to); i++ {
		if jitterSamples[i].ms > max {
			max = jitterSamples[i].ms
		}
	}
	// a sample still in flight (the monitor itself is starved) counts with its age
	if n := len(jitterSamples); n > 0 {
		if age := float64(to.Sub(jitterSamples[n-1].at)-15*time.Millisecond) / float64(time.Millisecond); age > max && !jitterSamples[n-1].at.After(to) {
			max = age
		}
	}
	return max
}
