package main

// "Peer vanishes after the handshake" stage of C09.  Everything a local test server can do leaves the
// peer's KERNEL alive, which acknowledges the probe's FIN whatever the application does; so the time
// the probe spends in its final conn.Close() (SO_LINGER makes close(2) wait for that acknowledgement)
// never shows.  Here the harness re-executes itself in a fresh network namespace (CLONE_NEWNET, root),
// brings lo up, lets a server accept the probe and read the greeting, and then brings lo DOWN: nothing
// the probe sends from now on -- in particular its FIN -- is ever acknowledged.  The probe must still
// return within connect timeout + 3 data timeouts (+ slack that covers the ONE second of linger the
// code asks for), both when it runs into its read timeout and when the scan is cancelled.
// Nothing outside the throw-away namespace is touched.

import (
	"context"
	"encoding/json"
	"fmt"
	"io"
	"net"
	"os"
	"os/exec"
	"sync"
	"syscall"
	"time"
	"unsafe"

	"github.com/v-byte-cpu/sx/pkg/scan"
	"github.com/v-byte-cpu/sx/pkg/scan/socks5"
	"verifharness/hlib"
)

const vanishChildEnv = "VERIF_C09_VANISH_CHILD"

type vanishRow struct {
	Class       string  `json:"class"`
	Sub         string  `json:"sub"` // read-timeout | cancelled
	TDial       int     `json:"tdial"`
	TData       int     `json:"tdata"`
	CancelAfter int     `json:"cancel_after_link_down_ms"` // -1: never
	SlackMS     int     `json:"slack_ms"`
	Returned    bool    `json:"returned"`
	DurMS       float64 `json:"dur_ms"`             // Scan's duration, or how long it had been running when the harness gave up
	AfterDownMS float64 `json:"after_link_down_ms"` // ... measured from the moment the peer vanished
	Reported    bool    `json:"reported"`
	Err         string  `json:"err"`
	Unavailable string  `json:"unavailable,omitempty"` // the stage could not be set up (no namespace, ...)
	JitterMS    float64 `json:"jitter_ms"`
	CPUSlowdown float64 `json:"cpu_slowdown"`
}

func setLoopback(up bool) error {
	fd, err := syscall.Socket(syscall.AF_INET, syscall.SOCK_DGRAM, 0)
	if err != nil {
		return err
	}
	defer syscall.Close(fd)
	var ifr struct {
		name  [16]byte
		flags uint16
		_     [22]byte
	}
	copy(ifr.name[:], "lo")
	if _, _, e := syscall.Syscall(syscall.SYS_IOCTL, uintptr(fd), syscall.SIOCGIFFLAGS, uintptr(unsafe.Pointer(&ifr))); e != 0 {
		return e
	}
	if up {
		ifr.flags |= syscall.IFF_UP
	} else {
		ifr.flags &^= syscall.IFF_UP
	}
	if _, _, e := syscall.Syscall(syscall.SYS_IOCTL, uintptr(fd), syscall.SIOCSIFFLAGS, uintptr(unsafe.Pointer(&ifr))); e != 0 {
		return e
	}
	return nil
}

// vanishParent runs the child in a new network namespace and returns its rows.
func vanishParent(out string) {
	w := hlib.NewOut(out)
	defer w.Close()
	fail := func(why string) {
		w.Put(vanishRow{Class: "peer-vanishes", Sub: "setup", Unavailable: why})
	}
	tmp := out + ".child"
	ctx, cancel := context.WithTimeout(context.Background(), 40*time.Second)
	defer cancel()
	cmd := exec.CommandContext(ctx, os.Args[0], "-vanish", "-out", tmp)
	cmd.Env = append(os.Environ(), vanishChildEnv+"=1")
	cmd.SysProcAttr = &syscall.SysProcAttr{Cloneflags: syscall.CLONE_NEWNET}
	if b, err := cmd.CombinedOutput(); err != nil {
		fail(fmt.Sprintf("child in a new network namespace: %v: %s", err, string(b)))
		return
	}
	data, err := os.ReadFile(tmp)
	os.Remove(tmp)
	if err != nil {
		fail(err.Error())
		return
	}
	dec := json.NewDecoder(bytesReader(data))
	n := 0
	for {
		var r vanishRow
		if err := dec.Decode(&r); err != nil {
			break
		}
		w.Put(r)
		n++
	}
	if n == 0 {
		fail("child produced no rows")
	}
}

func vanishChild(out string) {
	startJitterMonitor()
	w := hlib.NewOut(out)
	defer w.Close()
	const tdial, tdata, slack = 500, 300, 2500
	if err := setLoopback(true); err != nil {
		w.Put(vanishRow{Class: "peer-vanishes", Sub: "setup", Unavailable: "lo up: " + err.Error()})
		return
	}
	subs := []struct {
		name   string
		cancel int
	}{{"read-timeout", -1}, {"cancelled", 200}}
	type run struct {
		row      vanishRow
		ctx      context.Context
		cancel   context.CancelFunc
		greeting chan struct{}
		port     int
	}
	runs := make([]*run, len(subs))
	release := make(chan struct{})
	for i, s := range subs {
		ln, err := net.Listen("tcp4", "127.0.0.1:0")
		if err != nil {
			w.Put(vanishRow{Class: "peer-vanishes", Sub: "setup", Unavailable: "listen: " + err.Error()})
			return
		}
		r := &run{greeting: make(chan struct{}), port: ln.Addr().(*net.TCPAddr).Port}
		r.row = vanishRow{Class: "peer-vanishes", Sub: s.name, TDial: tdial, TData: tdata, CancelAfter: s.cancel, SlackMS: slack}
		r.ctx, r.cancel = context.WithCancel(context.Background())
		runs[i] = r
		go func() {
			c, err := ln.Accept()
			if err != nil {
				return
			}
			defer c.Close()
			buf := make([]byte, 3)
			if _, err := io.ReadFull(c, buf); err != nil {
				return
			}
			close(r.greeting)
			<-release // accept, read the greeting and stall
		}()
	}
	type outcome struct {
		res scan.Result
		err error
		at  time.Time
	}
	results := make([]chan outcome, len(runs))
	start := time.Now()
	for i, r := range runs {
		results[i] = make(chan outcome, 1)
		go func(i int, r *run) {
			s := socks5.NewScanner(socks5.WithDialTimeout(tdial*time.Millisecond), socks5.WithDataTimeout(tdata*time.Millisecond))
			res, err := s.Scan(r.ctx, &scan.Request{DstIP: net.IPv4(127, 0, 0, 1).To4(), DstPort: uint16(r.port)})
			results[i] <- outcome{res, err, time.Now()}
		}(i, r)
	}
	// the peer vanishes as soon as it has both greetings
	for _, r := range runs {
		select {
		case <-r.greeting:
		case <-time.After(5 * time.Second):
			w.Put(vanishRow{Class: "peer-vanishes", Sub: "setup", Unavailable: "the greeting never arrived"})
			return
		}
	}
	if err := setLoopback(false); err != nil {
		w.Put(vanishRow{Class: "peer-vanishes", Sub: "setup", Unavailable: "lo down: " + err.Error()})
		return
	}
	down := time.Now()
	for i, s := range subs {
		if s.cancel >= 0 {
			time.AfterFunc(time.Duration(s.cancel)*time.Millisecond, runs[i].cancel)
		}
	}
	bound := time.Duration(tdial+3*tdata+slack) * time.Millisecond
	var wg sync.WaitGroup
	for i, r := range runs {
		wg.Add(1)
		go func(i int, r *run) {
			defer wg.Done()
			select {
			case o := <-results[i]:
				r.row.Returned = true
				r.row.DurMS = float64(o.at.Sub(start).Microseconds()) / 1000
				r.row.AfterDownMS = float64(o.at.Sub(down).Microseconds()) / 1000
				r.row.Reported = o.res != nil
				if o.err != nil {
					r.row.Err = o.err.Error()
				}
			case <-time.After(time.Until(start.Add(bound))):
				r.row.DurMS = float64(time.Since(start).Microseconds()) / 1000
				r.row.AfterDownMS = float64(time.Since(down).Microseconds()) / 1000
				r.row.Err = "Scan has not returned"
			}
		}(i, r)
	}
	wg.Wait()
	for _, r := range runs {
		r.row.JitterMS, r.row.CPUSlowdown = loadBetween(start, time.Now())
		w.Put(r.row)
	}
	// a probe that is still stuck in close(2) dies with this throw-away process
}

type byteReader struct {
	b []byte
	i int
}

func (r *byteReader) Read(p []byte) (int, error) {
	if r.i >= len(r.b) {
		return 0, io.EOF
	}
	n := copy(p, r.b[r.i:])
	r.i += n
	return n, nil
}

func bytesReader(b []byte) io.Reader { return &byteReader{b: b} }
