package main

// Concurrent stage of C09: scan.GenericEngine drives ONE socks5.Scanner from many worker goroutines
// (default 100).  Here one real Scanner, built the way command/socks.go builds it, is shared by G
// goroutines probing a mix of persistent loopback peers that answer the greeting differently.
// Every probe is judged on its own by the property: reported iff ITS peer answered 05 00, and the
// record carries ITS address and port.  A probe that ended with an error (possible under load) is
// counted, never judged as "missed".

import (
	"context"
	"fmt"
	"io"
	"net"
	"sync"
	"sync/atomic"
	"time"

	"github.com/v-byte-cpu/sx/pkg/scan"
	"github.com/v-byte-cpu/sx/pkg/scan/socks5"
	"verifharness/hlib"
)

type concPeer struct {
	IP    string `json:"ip"`
	Port  int    `json:"port"`
	Reply []int  `json:"reply"`
	l     net.Listener
}

type concBad struct {
	Probe    int      `json:"probe"`
	IP       string   `json:"ip"`
	Port     int      `json:"port"`
	Reply    []int    `json:"peer_reply"`
	Reported bool     `json:"reported"`
	Rec      *rec     `json:"rec"`
	What     string   `json:"what"`
	InFlight []string `json:"in_flight_with"` // targets (and their replies) being probed by other goroutines at that moment
}

type concRow struct {
	Class      string     `json:"class"`
	Goroutines int        `json:"goroutines"`
	TimeoutMS  int        `json:"timeout_ms"`
	Peers      []concPeer `json:"peers"`
	Probes     int64      `json:"probes"`
	Judged     int64      `json:"judged"`
	Errors     int64      `json:"errors"`
	Reported   int64      `json:"reported"`
	Bad        []concBad  `json:"bad"`
	ElapsedMS  float64    `json:"elapsed_ms"`
	Seed       int64      `json:"seed"`
}

func (p *concPeer) serve(wg *sync.WaitGroup) {
	defer wg.Done()
	for {
		conn, err := p.l.Accept()
		if err != nil {
			return
		}
		go func(c net.Conn) {
			defer c.Close()
			c.SetDeadline(time.Now().Add(5 * time.Second))
			var g [3]byte
			if _, err := io.ReadFull(c, g[:]); err != nil {
				return
			}
			out := make([]byte, len(p.Reply))
			for i, v := range p.Reply {
				out[i] = byte(v)
			}
			c.Write(out)
			// wait for the client to hang up
			var tmp [8]byte
			c.Read(tmp[:])
		}(conn)
	}
}

// concReplies is the mix of peer answers: several real proxies and several near misses.
var concReplies = [][]int{{5, 0}, {5, 2}, {5, 0}, {5, 255}, {5, 0, 9, 9}, {4, 0}, {5, 0}, {0, 5}, {5, 2}, {5, 0}, {5, 1}, {0, 0}}

func concStage(seed int64, goroutines int, maxProbes int64, maxDur time.Duration, timeoutMS int) concRow {
	r := hlib.NewRand(seed)
	row := concRow{Class: "concurrent", Goroutines: goroutines, TimeoutMS: timeoutMS, Seed: seed}
	var swg sync.WaitGroup
	var peers []*concPeer
	for i, rep := range concReplies {
		ip := fmt.Sprintf("127.%d.%d.%d", 1+r.Intn(200), r.Intn(250), 1+r.Intn(250))
		l, err := net.Listen("tcp4", net.JoinHostPort(ip, "0"))
		if err != nil {
			continue
		}
		p := &concPeer{IP: ip, Port: l.Addr().(*net.TCPAddr).Port, Reply: concReplies[i], l: l}
		_ = rep
		peers = append(peers, p)
		swg.Add(1)
		go p.serve(&swg)
	}
	to := time.Duration(timeoutMS) * time.Millisecond
	// exactly what newSOCKSScanEngine does with --timeout
	s := socks5.NewScanner(socks5.WithDialTimeout(to), socks5.WithDataTimeout(to))
	inflight := make([]atomic.Int32, goroutines) // index of the peer each goroutine is probing, +1
	var next atomic.Int64
	var mu sync.Mutex
	var wg sync.WaitGroup
	start := time.Now()
	deadline := start.Add(maxDur)
	stop := atomic.Bool{}
	for g := 0; g < goroutines; g++ {
		wg.Add(1)
		go func(g int) {
			defer wg.Done()
			rr := hlib.NewRand(seed*1000 + int64(g))
			for !stop.Load() {
				n := next.Add(1)
				if n > maxProbes || time.Now().After(deadline) {
					return
				}
				k := rr.Intn(len(peers))
				p := peers[k]
				inflight[g].Store(int32(k + 1))
				res, err := s.Scan(context.Background(), &scan.Request{DstIP: net.ParseIP(p.IP), DstPort: uint16(p.Port)})
				var others []string
				for j := range inflight {
					if j != g {
						if v := inflight[j].Load(); v > 0 {
							q := peers[v-1]
							others = append(others, fmt.Sprintf("%s:%d%v", q.IP, q.Port, q.Reply))
						}
					}
				}
				inflight[g].Store(0)
				atomic.AddInt64(&row.Probes, 1)
				if err != nil {
					atomic.AddInt64(&row.Errors, 1)
					continue
				}
				atomic.AddInt64(&row.Judged, 1)
				want := len(p.Reply) >= 2 && p.Reply[0] == 5 && p.Reply[1] == 0
				what := ""
				var rc *rec
				if res != nil {
					atomic.AddInt64(&row.Reported, 1)
					if sr, ok := res.(*socks5.ScanResult); ok && sr != nil {
						rc = &rec{IP: sr.IP, Port: int(sr.Port), Version: sr.Version, Scan: sr.ScanType}
					}
					switch {
					case typedNil(res):
						what = fmt.Sprintf("answered with err == nil and a scan.Result that is != nil but holds a nil %T (the engine emits it as a record; printing it panics) although its peer answered %v", res, p.Reply)
					case !want:
						what = fmt.Sprintf("reported although its peer answered %v, not 05 00", p.Reply)
					case rc == nil || rc.IP != p.IP || rc.Port != p.Port:
						what = fmt.Sprintf("the record %+v does not carry the probed address %s:%d", rc, p.IP, p.Port)
					}
				} else if want {
					what = "not reported (no error) although its peer answered 05 00"
				}
				if what != "" {
					mu.Lock()
					if len(row.Bad) < 8 {
						if len(others) > 6 {
							others = others[:6]
						}
						row.Bad = append(row.Bad, concBad{Probe: int(n), IP: p.IP, Port: p.Port, Reply: p.Reply,
							Reported: res != nil, Rec: rc, What: what, InFlight: others})
					}
					if len(row.Bad) >= 3 {
						stop.Store(true)
					}
					mu.Unlock()
				}
			}
		}(g)
	}
	wg.Wait()
	row.ElapsedMS = float64(time.Since(start).Microseconds()) / 1000
	for _, p := range peers {
		p.l.Close()
		row.Peers = append(row.Peers, *p)
	}
	swg.Wait()
	return row
}
