// Driver for C06 over the scan methods as the COMMANDS build them (newTCPScanMethod, newICMPScanMethod,
// newUDPScanMethod, newARPScanMethod through the hook command.VerifC06ScanMethod), in both link modes:
// the same frame generator and observation as cmd/c06.  The result channel of such a method is not
// reachable, so calls are delimited by sentinel replies instead of marker results (see lib.Proc).
package main

import (
	"context"

	"github.com/v-byte-cpu/sx/command"
	"verifharness/cmd/c06/lib"
)

func newProc(kind string, vpn bool) *lib.Proc {
	ctx, cancel := context.WithCancel(context.Background())
	m := command.VerifC06ScanMethod(ctx, kind, vpn && kind != "arp")
	if m == nil {
		panic("kind " + kind)
	}
	return &lib.Proc{P: m, Out: m.Results(), Cancel: cancel}
}

func main() { lib.Run(newProc, map[string]bool{"tcp": true, "icmp": true, "udp": true, "arp": true}) }
