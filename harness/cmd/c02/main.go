// Driver for C02: the real ip.ParseIPNet on generated target strings (with the results of the two library
// parsers it leans on), the real ipGenerator on generated nets (risky ones in a child process, because a
// panic in its goroutine kills the process), the real parseExcludeFile + cidranger + filter stage on
// generated exclusion files.
package main

import (
	"context"
	"encoding/hex"
	"encoding/json"
	"flag"
	"fmt"
	"io"
	"math/rand"
	"net"
	"net/netip"
	"os"
	"os/exec"
	"strings"

	"github.com/v-byte-cpu/sx/command"
	sxip "github.com/v-byte-cpu/sx/pkg/ip"
	"github.com/v-byte-cpu/sx/pkg/scan"
	"verifharness/cmd/c01/tgt"
	"verifharness/hlib"
)

type netJ struct {
	OK   bool   `json:"ok"`
	IP   string `json:"ip"`
	Mask string `json:"mask"`
}

type ipsObs struct {
	Err      int    `json:"err"` // tgt error class of the error IPs returned
	Crashed  bool   `json:"crashed"`
	Complete bool   `json:"complete"`
	Stuck    bool   `json:"stuck"`
	Addrs    string `json:"addrs"` // hex, 4 bytes per address
	Odd      int    `json:"odd"`   // addresses that are not 4 bytes long
}

type parseCase struct {
	Kind  string `json:"kind"`
	Class string `json:"class"`
	S     string `json:"s"` // hex of the string
	Text  string `json:"text"`
	Cidr  netJ   `json:"cidr"`
	Addr  netJ   `json:"addr"` // IP = AsSlice
	Impl  netJ   `json:"impl"`
	// by construction (classes ipv4-host / ipv4-cidr)
	WantIP   string `json:"want_ip,omitempty"`
	WantMask string `json:"want_mask,omitempty"`
	// what the real generator does with the accepted net (first addresses)
	Gen  *ipsObs `json:"gen,omitempty"`
	Seed int64   `json:"seed"`
}

type ipsCase struct {
	Kind   string `json:"kind"`
	Class  string `json:"class"`
	HasNet bool   `json:"has_net"`
	IP     string `json:"ip"`
	Mask   string `json:"mask"`
	Seed   int64  `json:"seed"`
	R1     int64  `json:"r1"`
	R2     int64  `json:"r2"`
	Limit  int    `json:"limit"`
	Obs    ipsObs `json:"obs"`
}

type exclLineJ struct {
	Raw     string `json:"raw"`
	Clean   string `json:"clean"`
	Cidr    netJ   `json:"cidr"`
	Addr    netJ   `json:"addr"`
	Meaning string `json:"meaning"`
	Base    uint32 `json:"base"`
	Prefix  int    `json:"prefix"`
}

type exclCase struct {
	Kind    string      `json:"kind"`
	Class   string      `json:"class"`
	Seed    int64       `json:"seed"`
	Lines   []exclLineJ `json:"lines"`
	ImplOK  bool        `json:"impl_ok"`
	ImplErr string      `json:"impl_err"`
	NetIP   string      `json:"net_ip"`
	NetMask string      `json:"net_mask"`
	NetBase uint32      `json:"net_base"`
	NetK    int         `json:"net_k"`
	Member  string      `json:"member"` // hex, one byte per address of the net
	Extra   [][2]string `json:"extra"`  // [ip hex, answer]
	In      string      `json:"in"`
	Out     string      `json:"out"`
	OutOK   bool        `json:"out_ok"`
	// long files only: the size of the file, and the addresses of the target net that the REAL chain of the tcp/udp
	// commands (address generator x port generator -> exclusion filter) lets through (hex, 4 bytes each)
	Bytes      int    `json:"bytes,omitempty"`
	Chain      string `json:"chain,omitempty"`
	ChainOK    bool   `json:"chain_ok,omitempty"`
	ChainOther int    `json:"chain_other,omitempty"` // requests with an error or without a 4-byte address
}

func cidrOracle(s string) netJ {
	_, n, err := net.ParseCIDR(s)
	if err != nil {
		return netJ{}
	}
	return netJ{OK: true, IP: hex.EncodeToString(n.IP), Mask: hex.EncodeToString(n.Mask)}
}

func addrOracle(s string) netJ {
	a, err := netip.ParseAddr(s)
	if err != nil {
		return netJ{}
	}
	return netJ{OK: true, IP: hex.EncodeToString(a.AsSlice())}
}

// runIPs runs the real generator in this process.
func runIPs(n *net.IPNet, seed int64, limit int) ipsObs {
	var o ipsObs
	rand.Seed(seed)
	ctx, cancel := context.WithCancel(context.Background())
	defer cancel()
	ch, err := scan.NewIPGenerator().IPs(ctx, &scan.Range{DstSubnet: n})
	if err != nil {
		o.Err = tgt.ErrClass(err)
		return o
	}
	var buf []byte
	count := 0
	for count < limit {
		g, ok := <-ch
		if !ok {
			o.Complete = true
			break
		}
		a, _ := g.GetIP()
		if len(a) != 4 {
			o.Odd++
		}
		buf = append(buf, a...)
		count++
	}
	if count == limit {
		// is the channel closed right after the limit?  only look, do not block
		select {
		case _, ok := <-ch:
			if !ok {
				o.Complete = true
			}
		default:
		}
	}
	o.Addrs = hex.EncodeToString(buf)
	return o
}

// runIPsChild runs the generator in a child process so that a panic is an observation.
func runIPsChild(ipHex, maskHex string, hasNet bool, seed int64, limit int) ipsObs {
	arg := "nil"
	if hasNet {
		arg = ipHex + "/" + maskHex
	}
	cmd := exec.Command(os.Args[0], "-child", arg, "-seed", fmt.Sprint(seed), "-limit", fmt.Sprint(limit))
	out, err := cmd.Output()
	var o ipsObs
	if err != nil {
		o.Crashed = true
		return o
	}
	if e := json.Unmarshal(out, &o); e != nil {
		o.Crashed = true
	}
	return o
}

func draws(seed int64) (int64, int64) {
	p := rand.New(rand.NewSource(seed))
	return p.Int63(), p.Int63()
}

// regression inputs that are always run first (the defects found in the code as it was: "::1" probed 0.0.0.0,
// "::/96" walked all of IPv4, "2001:db8::/120" crashed the process, "::ffff:1.2.3.4" was read as 1.2.3.4)
var corpus = []string{"::1", "::/96", "2001:db8::/120", "::ffff:1.2.3.4", "::ffff:1.2.3.0/120", "::/0", "::/64", "::/65", "::/127", "::ffff:0:0/96",
	"fe80::1%eth0", "1.2.3.4", "0.0.0.0/0", "255.255.255.255/32", "10.1.2.3/8", "1.2.3.4/31"}

func v6text(r *hlib.SplitMix64) string {
	fixed := []string{"::1", "::", "::ffff:1.2.3.4", "::ffff:0102:0304", "0:0:0:0:0:ffff:1.2.3.4", "::FFFF:10.0.0.1",
		"64:ff9b::1.2.3.4", "2001:db8::", "2001:db8::1", "fe80::1", "ff02::1", "::1.2.3.4", "::0.0.0.1", "1::", "0::0",
		"2001:0db8:0000:0000:0000:0000:0000:0001", "FE80::ABCD", "::ffff:255.255.255.255", "::ffff:0.0.0.0", "0:0:0:0:0:0:0:1",
		"::ffff:192.168.0.1", "::ffff:c0a8:1"}
	switch r.Intn(3) {
	case 0:
		return fixed[r.Intn(len(fixed))]
	case 1: // eight random groups
		g := make([]string, 8)
		for i := range g {
			g[i] = fmt.Sprintf("%x", r.Intn(65536))
		}
		return strings.Join(g, ":")
	default: // compressed
		n := 1 + r.Intn(6)
		g := make([]string, n)
		for i := range g {
			g[i] = fmt.Sprintf("%x", r.Intn(65536))
		}
		k := r.Intn(n + 1)
		return strings.Join(g[:k], ":") + "::" + strings.Join(g[k:], ":")
	}
}

func garbage(r *hlib.SplitMix64) string {
	fixed := []string{"", " ", "abc", "1.2.3", "1.2.3.4.5", "256.1.1.1", "1.2.3.4/33", "1.2.3.4/-1", "1.2.3.4/", "/24",
		"1.2.3.4/24/8", "1.2.3.4 ", " 1.2.3.4", "0x1.2.3.4", "1.2.3.4/999999999999999999999", "1.2.3.4/1e1", "1.2.3.-4",
		"1..3.4", ".1.2.3.4", "1.2.3.4.", "1,2,3,4", "localhost", "10.0.0.0-10.0.0.255", "10.0.0.*", "1.2.3.4/255.255.255.0",
		"1.2.3.4\n", "1.2.3.4\x00", "\xff\xfe", "1.2.3.4/ 8", "1.2.3.4 /8", "4294967295", "1.2.3.4/32x", "１.２.３.４",
		"fe80::1%eth0", "fe80::1%eth0/64", "::1%lo", "1:2:3:4:5:6:7:8:9", "1:2:3:4:5:6:7", ":::", "::/129", "::/-1", "2001:db8::/",
		"[::1]", "::g", "12345::", "1.2.3.4:80", "::ffff:1.2.3.256", "::ffff:1.2.3"}
	if r.Intn(3) != 0 {
		return fixed[r.Intn(len(fixed))]
	}
	n := r.Intn(12)
	b := make([]byte, n)
	alphabet := "0123456789.:/abcdefx% -"
	for i := range b {
		if r.Intn(8) == 0 {
			b[i] = byte(r.Uint64())
		} else {
			b[i] = alphabet[r.Intn(len(alphabet))]
		}
	}
	return string(b)
}

// isIPv4Text: the generator's own judgement whether a random string is a plain dotted quad or dotted quad
// with a decimal prefix <= 32 (then the class is "odd" and nothing is demanded except IPv4-ness)
func looksIPv4(s string) bool {
	for _, c := range []byte(s) {
		if !(c >= '0' && c <= '9') && c != '.' && c != '/' {
			return false
		}
	}
	return strings.Count(s, ".") == 3
}

func mkParse(r *hlib.SplitMix64, class string) parseCase {
	c := parseCase{Kind: "parse", Class: class, Seed: r.Int63()}
	var s string
	switch class {
	case "ipv4-host":
		a := uint32(r.Uint64())
		if r.Intn(8) == 0 {
			a = []uint32{0, 0xffffffff, 0x7f000001, 0x0a000001, 0xe0000001}[r.Intn(5)]
		}
		s = tgt.Dotted(a)
		c.WantIP, c.WantMask = tgt.Hex(tgt.U32(a)), "ffffffff"
	case "ipv4-cidr":
		a, k := tgt.RandNet4(r, 0, 32, r.Bool())
		s = fmt.Sprintf("%s/%d", tgt.Dotted(a), k)
		var m uint32
		if k > 0 {
			m = ^uint32(0) << uint(32-k)
		}
		c.WantIP, c.WantMask = tgt.Hex(tgt.U32(a&m)), tgt.Hex(tgt.U32(m))
	case "ipv6":
		s = v6text(r)
	case "ipv6-cidr":
		p := []int{0, 1, 64, 95, 96, 97, 104, 112, 119, 120, 121, 126, 127, 128}[r.Intn(14)]
		if r.Intn(3) == 0 {
			p = r.Intn(129)
		}
		s = fmt.Sprintf("%s/%d", v6text(r), p)
	default:
		s = garbage(r)
		if looksIPv4(s) {
			c.Class = "odd"
		}
		if strings.Contains(s, ":") && !strings.Contains(s, "%") {
			// may or may not be valid IPv6: either way it must be refused
			c.Class = "garbage6"
		}
	}
	c.S, c.Text = hex.EncodeToString([]byte(s)), fmt.Sprintf("%q", s)
	c.Cidr, c.Addr = cidrOracle(s), addrOracle(s)
	n, err := sxip.ParseIPNet(s)
	if err == nil && n != nil {
		c.Impl = netJ{OK: true, IP: hex.EncodeToString(n.IP), Mask: hex.EncodeToString(n.Mask)}
		// what would be probed: the first addresses of the real generator on the accepted net
		ones, _ := n.Mask.Size()
		top := len(n.IP) == 4 && (n.IP[0] == 255 || n.IP[0] == 0 || ones < 8) // nets touching either end of the address space
		if len(n.IP) == 4 && len(n.Mask) == 4 && !top {
			o := runIPs(n, c.Seed, 8)
			c.Gen = &o
		} else {
			o := runIPsChild(c.Impl.IP, c.Impl.Mask, true, c.Seed, 8)
			c.Gen = &o
		}
	}
	return c
}

func mkIps(r *hlib.SplitMix64, class string, full int) ipsCase {
	c := ipsCase{Kind: "ips", Class: class, Seed: r.Int63(), HasNet: true}
	var ipb, mask []byte
	child := false
	c.Limit = full + 1
	switch class {
	case "v4-small": // complete walk
		a, k := tgt.RandNet4(r, 20, 32, r.Bool())
		for (1 << uint(32-k)) > full {
			k++
		}
		ipb, mask = tgt.U32(a), []byte(net.CIDRMask(k, 32))
	case "v4-big": // prefix only
		a, k := tgt.RandNet4(r, 0, 19, r.Bool())
		ipb, mask = tgt.U32(a), []byte(net.CIDRMask(k, 32))
		c.Limit = 48
	case "v4-16byte-ip":
		a, k := tgt.RandNet4(r, 24, 32, false)
		ipb, mask = []byte(net.IP(tgt.U32(a)).To16()), []byte(net.CIDRMask(k, 32))
	case "v4-16byte-mask":
		a, k := tgt.RandNet4(r, 24, 32, false)
		ipb, mask = tgt.U32(a), []byte(net.CIDRMask(96+k, 128))
		child = true
	case "v6":
		ipb = r.Bytes(16)
		if r.Bool() {
			copy(ipb, make([]byte, 12))
		}
		if r.Intn(3) == 0 {
			copy(ipb, []byte{0, 0, 0, 0, 0, 0, 0, 0, 0, 0, 0xff, 0xff})
		}
		p := []int{0, 1, 64, 65, 66, 95, 96, 97, 112, 120, 124, 127, 128}[r.Intn(13)]
		mask = []byte(net.CIDRMask(p, 128))
		child = true
		c.Limit = 24
	case "noncanonical-mask":
		ipb, mask = r.Bytes(4), r.Bytes(4)
		child = true
		c.Limit = 24
	case "nil-net":
		c.HasNet = false
	case "nil-ip":
		ipb, mask = nil, []byte(net.CIDRMask(24+r.Intn(9), 32))
		child = true
		c.Limit = 24
	case "length-mismatch":
		ipb, mask = r.Bytes(4+r.Intn(3)*6), r.Bytes([]int{0, 4, 16}[r.Intn(3)])
		child = true
		c.Limit = 24
	}
	c.IP, c.Mask = hex.EncodeToString(ipb), hex.EncodeToString(mask)
	c.R1, c.R2 = draws(c.Seed)
	if !c.HasNet {
		rand.Seed(c.Seed)
		_, err := scan.NewIPGenerator().IPs(context.Background(), &scan.Range{})
		c.Obs = ipsObs{Err: tgt.ErrClass(err)}
		return c
	}
	// always in a child process: a generator that steps outside the 32-bit range panics in its goroutine
	_ = child
	c.Obs = runIPsChild(c.IP, c.Mask, true, c.Seed, c.Limit)
	return c
}

func mkExcl(r *hlib.SplitMix64, class string) exclCase {
	c := exclCase{Kind: "excl", Class: class, Seed: r.Int63()}
	a, k := tgt.RandNet4(r, 22, 32, true)
	if r.Intn(4) == 0 {
		a, k = tgt.RandNet4(r, 20, 24, true)
	}
	c.NetBase, c.NetK = a, k
	c.NetIP, c.NetMask = tgt.Hex(tgt.U32(a)), hex.EncodeToString(net.CIDRMask(k, 32))
	n := 1 + r.Intn(12)
	var ls []tgt.ExclLine
	if class == "nested" {
		// families of related entries (both orders); the target is big enough to hold the differences
		a, k = tgt.RandNet4(r, 22, 27, true)
		c.NetBase, c.NetK = a, k
		c.NetIP, c.NetMask = tgt.Hex(tgt.U32(a)), hex.EncodeToString(net.CIDRMask(k, 32))
		ls = tgt.RandExcludeNested(r, a, k, 1+r.Intn(3))
	} else {
		ls = tgt.RandExclude(r, a, k, n, class == "bad-line")
	}
	finishExcl(r, &c, ls, a, k)
	return c
}

// chainThrough runs the real generator chain of the tcp/udp commands (ipGenerator x portGenerator -> exclusion
// filter, built by ipPortScanCmdOpts.newIPPortGenerator) over a/k with one port and returns the addresses let through.
func chainThrough(c *exclCase, ranger scan.IPContainer, a uint32, k int, seed int64) {
	rand.Seed(seed)
	ctx, cancel := context.WithCancel(context.Background())
	defer cancel()
	rg := command.VerifPacketIPPortGenerator(&command.VerifTargetOpts{ExcludeIPs: ranger})
	ch, err := rg.GenerateRequests(ctx, &scan.Range{DstSubnet: &net.IPNet{IP: net.IP(tgt.U32(a)), Mask: net.CIDRMask(k, 32)},
		Ports: []*scan.PortRange{{StartPort: 443, EndPort: 443}}})
	if err != nil {
		return
	}
	out, complete, _ := tgt.Drain(ch, 0)
	c.ChainOK = complete
	var buf []byte
	for _, q := range out {
		if q.Err != 0 || len(q.IP) != 4 {
			c.ChainOther++
			continue
		}
		buf = append(buf, q.IP...)
	}
	c.Chain = hex.EncodeToString(buf)
}

// ---------------------------------------------------------------- long exclusion files

func padTo(r *hlib.SplitMix64, core string, w int) string {
	// core, possibly indented, filled up to exactly w characters with spaces or a trailing comment
	lead := 0
	if room := w - len(core); room > 0 && r.Intn(3) == 0 {
		if room > 3 {
			room = 3
		}
		lead = r.Intn(room + 1)
	}
	t := strings.Repeat(" ", lead) + core
	room := w - len(t)
	if room >= 3 && r.Intn(3) == 0 {
		sp := r.Intn(room - 1)
		t += strings.Repeat(" ", sp) + "#" + strings.Repeat("-", room-sp-1)
	} else if room > 0 {
		t += strings.Repeat(" ", room)
	}
	return t
}

// longEntry: mostly hosts and small blocks inside the target base..base+host, some unrelated / neighbouring ones,
// so that a good part of the target, but never all of it, is covered.
func longEntry(r *hlib.SplitMix64, base, host uint32) (uint32, int) {
	switch r.Intn(9) {
	case 0, 1, 2, 3, 4:
		return base | (uint32(r.Uint64()) & host), 32
	case 5, 6:
		p := 27 + r.Intn(5)
		return (base | (uint32(r.Uint64()) & host)) &^ ((uint32(1) << uint(32-p)) - 1), p
	case 7:
		return uint32(r.Uint64()), 8 + r.Intn(25)
	default:
		if r.Bool() {
			return base + host + 1 + uint32(r.Intn(3)), 32
		}
		return base - 1 - uint32(r.Intn(3)), 32
	}
}

func entryText(r *hlib.SplitMix64, b uint32, p int) string {
	if p == 32 && r.Intn(4) != 0 {
		return tgt.Dotted(b)
	}
	return fmt.Sprintf("%s/%d", tgt.Dotted(b), p)
}

// modal keeps the candidates whose text has the most frequent length.
func modal(cands []tgt.ExclLine) []tgt.ExclLine {
	cnt := map[int]int{}
	best := 0
	for _, c := range cands {
		cnt[len(c.Text)]++
	}
	for l, n := range cnt {
		if n > cnt[best] || (n == cnt[best] && l > best) {
			best = l
		}
	}
	var out []tgt.ExclLine
	for _, c := range cands {
		if len(c.Text) == best {
			out = append(out, c)
		}
	}
	return out
}

// mkExclLong: exclusion FILES of hundreds to thousands of entries (longer than 4096 bytes, the "huge" ones longer than
// 65536 bytes): lists of hosts of one text width, lists of blocks of one text width, tables padded to one column width
// (entries, comment lines, blank lines), and free-form files of mixed line lengths with comments and blank lines.
// Judged like every other exclusion case (membership of every address of the target and at the boundaries of EVERY
// entry) plus: the real generator chain of the tcp/udp commands over the target lets through exactly the addresses that
// no listed entry covers.
func mkExclLong(r *hlib.SplitMix64, class string) exclCase {
	c := exclCase{Kind: "excl", Class: class, Seed: r.Int63()}
	k := 20 + r.Intn(2)
	if class == "long:huge-padded" {
		k = 19
	}
	a, _ := tgt.RandNet4(r, k, k, true)
	host := (uint32(1) << uint(32-k)) - 1
	c.NetBase, c.NetK = a, k
	c.NetIP, c.NetMask = tgt.Hex(tgt.U32(a)), hex.EncodeToString(net.CIDRMask(k, 32))
	minBytes := 4097 + r.Intn(9000)
	if r.Intn(3) == 0 {
		minBytes = 4097 + r.Intn(200) // just beyond one buffer
	}
	var ls []tgt.ExclLine
	size := 0
	add := func(l tgt.ExclLine) {
		ls = append(ls, l)
		size += len(l.Text) + 1
	}
	switch class {
	case "long:equal-hosts", "long:equal-nets":
		var cands []tgt.ExclLine
		if class == "long:equal-hosts" {
			for i := uint32(0); i <= host; i++ {
				cands = append(cands, tgt.ExclLine{Text: tgt.Dotted(a + i), Meaning: "net", Base: a + i, Prefix: 32})
			}
		} else {
			for p := 27; p <= 31; p++ {
				for i := uint32(0); i <= host; i += uint32(1) << uint(32-p) {
					cands = append(cands, tgt.ExclLine{Text: fmt.Sprintf("%s/%d", tgt.Dotted(a+i), p), Meaning: "net", Base: a + i, Prefix: p})
				}
			}
		}
		cands = modal(cands)
		for i := len(cands) - 1; i > 0; i-- {
			j := r.Intn(i + 1)
			cands[i], cands[j] = cands[j], cands[i]
		}
		l1 := len(cands[0].Text) + 1
		// a heading comment: none, one whose length is a whole number of entry lines, or any
		switch r.Intn(4) {
		case 0:
			add(tgt.ExclLine{Text: "# " + strings.Repeat("-", l1*(1+r.Intn(3))-3), Meaning: "skip"})
		case 1:
			add(tgt.ExclLine{Text: "# excluded " + tgt.Dotted(uint32(r.Uint64())), Meaning: "skip"})
		}
		// at most a third of the candidates, so that most of the target stays to be scanned
		for i := 0; i < len(cands) && (size < minBytes || i < len(cands)/3 && r.Intn(200) != 0); i++ {
			add(cands[i])
		}
	case "long:padded", "long:huge-padded":
		w := 20 + r.Intn(25)
		if class == "long:huge-padded" {
			minBytes = 65537 + r.Intn(8000)
			w = 30 + r.Intn(20)
		}
		for size < minBytes || r.Intn(100) != 0 {
			switch r.Intn(14) {
			case 0:
				add(tgt.ExclLine{Text: strings.Repeat(" ", w), Meaning: "skip"})
			case 1:
				add(tgt.ExclLine{Text: padTo(r, "# "+tgt.Dotted(uint32(r.Uint64())), w), Meaning: "skip"})
			default:
				b, p := longEntry(r, a, host)
				add(tgt.ExclLine{Text: padTo(r, entryText(r, b, p), w), Meaning: "net", Base: b, Prefix: p})
			}
		}
	default: // long:mixed
		for size < minBytes || r.Intn(100) != 0 {
			switch r.Intn(12) {
			case 0:
				add(tgt.ExclLine{Text: "", Meaning: "skip"})
			case 1:
				add(tgt.ExclLine{Text: strings.Repeat(" ", r.Intn(4)) + "# " + tgt.Dotted(uint32(r.Uint64())), Meaning: "skip"})
			case 2:
				add(tgt.ExclLine{Text: strings.Repeat(" ", 1+r.Intn(5)), Meaning: "skip"})
			default:
				b, p := longEntry(r, a, host)
				t := strings.Repeat(" ", r.Intn(3)) + entryText(r, b, p) + strings.Repeat(" ", r.Intn(3))
				if r.Intn(5) == 0 {
					t += "# note"
				}
				add(tgt.ExclLine{Text: t, Meaning: "net", Base: b, Prefix: p})
			}
		}
	}
	c.Bytes = size
	finishExcl(r, &c, ls, a, k)
	return c
}

// finishExcl: the file through the real parseExcludeFile + cidranger (+ filter stage, + the real chain for long files)
func finishExcl(r *hlib.SplitMix64, cp *exclCase, ls []tgt.ExclLine, a uint32, k int) {
	c := *cp
	defer func() { *cp = c }()
	text := tgt.JoinLines(ls)
	for _, l := range ls {
		// the code's own cleaning expressions
		line := l.Text
		if i := strings.Index(line, "#"); i != -1 {
			line = line[:i]
		}
		line = strings.Trim(line, " ")
		c.Lines = append(c.Lines, exclLineJ{Raw: hex.EncodeToString([]byte(l.Text)), Clean: hex.EncodeToString([]byte(line)),
			Cidr: cidrOracle(line), Addr: addrOracle(line), Meaning: l.Meaning, Base: l.Base, Prefix: l.Prefix})
	}
	ranger, err := command.VerifParseExcludeFile(func() (io.ReadCloser, error) {
		return io.NopCloser(strings.NewReader(text)), nil
	})
	if err != nil {
		c.ImplErr = err.Error()
		return
	}
	c.ImplOK = true
	if c.Bytes > 0 {
		chainThrough(&c, ranger, a, k, c.Seed)
	}
	size := 1 << uint(32-k)
	member := make([]byte, size)
	var reqs []*scan.Request
	for i := 0; i < size; i++ {
		x := tgt.U32(a + uint32(i))
		ok, err := ranger.Contains(net.IP(x))
		switch {
		case err != nil:
			member[i] = 2
		case ok:
			member[i] = 1
		}
		if size <= 256 || r.Intn(size/256+1) == 0 {
			q := &scan.Request{DstIP: net.IP(x), DstPort: uint16(r.Intn(65536))}
			// (requests that already carry an error belong to C13 and are exercised by its driver)
			if r.Intn(8) == 0 {
				q.DstIP = q.DstIP.To16()
			}
			reqs = append(reqs, q)
		}
	}
	c.Member = hex.EncodeToString(member)
	extras := [][]byte{nil, {1, 2, 3}, r.Bytes(16), net.IP(tgt.U32(a)).To16(), net.IP(tgt.U32(a + uint32(r.Intn(size)))).To16(), r.Bytes(4)}
	for _, l := range ls {
		if l.Meaning == "net" {
			extras = append(extras, net.IP(tgt.U32(l.Base)).To16(), tgt.U32(l.Base))
			// the boundaries of every entry: first-1, first, last, last+1
			hm := uint32(0)
			if l.Prefix < 32 {
				hm = (uint32(1) << uint(32-l.Prefix)) - 1
			}
			if l.Prefix == 0 {
				hm = 0xffffffff
			}
			first := l.Base &^ hm
			last := first | hm
			extras = append(extras, tgt.U32(first-1), tgt.U32(first), tgt.U32(last), tgt.U32(last+1))
		}
	}
	for _, x := range extras {
		ok, err := ranger.Contains(net.IP(x))
		ans := "0"
		if err != nil {
			ans = "2"
		} else if ok {
			ans = "1"
		}
		c.Extra = append(c.Extra, [2]string{hex.EncodeToString(x), ans})
	}
	// a request without an address and without an error: the lookup itself fails
	reqs = append(reqs, &scan.Request{DstPort: 7})
	var in []tgt.Req
	for _, q := range reqs {
		in = append(in, tgt.FromRequest(q))
	}
	c.In = hex.EncodeToString(tgt.Encode(in))
	ctx, cancel := context.WithCancel(context.Background())
	defer cancel()
	ch, err := scan.NewFilterIPRequestGenerator(&tgt.MockReqGen{Reqs: reqs}, ranger).GenerateRequests(ctx, &scan.Range{})
	if err == nil {
		out, complete, _ := tgt.Drain(ch, 0)
		c.OutOK = complete
		c.Out = hex.EncodeToString(tgt.Encode(out))
	}
}

func main() {
	out := flag.String("out", "cases.jsonl", "output file")
	seed := flag.Int64("seed", 1, "seed")
	count := flag.Int("n", 1000, "number of parse cases")
	nips := flag.Int("nips", 120, "number of generator cases")
	nexcl := flag.Int("nexcl", 60, "number of exclusion cases")
	full := flag.Int("full", 1024, "largest net walked completely")
	nlong := flag.Int("nlong", 8, "number of long exclusion files (> 4096 bytes, some > 65536 bytes)")
	child := flag.String("child", "", "internal: run the generator on iphex/maskhex and print the observation")
	limit := flag.Int("limit", 8, "internal")
	one := flag.String("replay", "", "replay: parse:<hex string> | ips:<iphex>/<maskhex>:<seed>:<limit>")
	flag.Parse()
	if *child != "" {
		var n *net.IPNet
		if *child != "nil" {
			parts := strings.SplitN(*child, "/", 2)
			ipb, _ := hex.DecodeString(parts[0])
			mb, _ := hex.DecodeString(parts[1])
			n = &net.IPNet{IP: ipb, Mask: mb}
			if len(ipb) == 0 {
				n.IP = nil
			}
		}
		o := runIPs(n, *seed, *limit)
		b, _ := json.Marshal(o)
		os.Stdout.Write(b)
		return
	}
	w := hlib.NewOut(*out)
	defer w.Close()
	if *one != "" {
		kind, rest, _ := strings.Cut(*one, ":")
		switch kind {
		case "parse":
			sb, _ := hex.DecodeString(rest)
			s := string(sb)
			c := parseCase{Kind: "parse", Class: "replay", S: rest, Text: fmt.Sprintf("%q", s), Seed: *seed}
			c.Cidr, c.Addr = cidrOracle(s), addrOracle(s)
			if n, err := sxip.ParseIPNet(s); err == nil && n != nil {
				c.Impl = netJ{OK: true, IP: hex.EncodeToString(n.IP), Mask: hex.EncodeToString(n.Mask)}
				o := runIPsChild(c.Impl.IP, c.Impl.Mask, true, c.Seed, 8)
				c.Gen = &o
			}
			w.Put(c)
		case "excl":
			// excl:<hex of the file text>:<base>:<prefix>: the real parser + trie, membership over the net
			f := strings.Split(rest, ":")
			text, _ := hex.DecodeString(f[0])
			if strings.HasPrefix(f[0], "@") { // the text is in a file (long exclusion files)
				text, _ = os.ReadFile(f[0][1:])
			}
			var base uint32
			var k int
			fmt.Sscan(f[1], &base)
			fmt.Sscan(f[2], &k)
			c := exclCase{Kind: "excl", Class: "replay", NetBase: base, NetK: k}
			ranger, err := command.VerifParseExcludeFile(func() (io.ReadCloser, error) {
				return io.NopCloser(strings.NewReader(string(text))), nil
			})
			if err != nil {
				c.ImplErr = err.Error()
			} else {
				c.ImplOK = true
				size := 1 << uint(32-k)
				member := make([]byte, size)
				for i := 0; i < size; i++ {
					ok, err := ranger.Contains(net.IP(tgt.U32(base + uint32(i))))
					if err != nil {
						member[i] = 2
					} else if ok {
						member[i] = 1
					}
				}
				c.Member = hex.EncodeToString(member)
				if len(text) > 4096 {
					c.Bytes = len(text)
					chainThrough(&c, ranger, base, k, *seed)
				}
			}
			w.Put(c)
		case "ips":
			f := strings.Split(rest, ":")
			nm := strings.SplitN(f[0], "/", 2)
			var sd int64
			var lim int
			fmt.Sscan(f[1], &sd)
			fmt.Sscan(f[2], &lim)
			c := ipsCase{Kind: "ips", Class: "replay", HasNet: true, IP: nm[0], Mask: nm[1], Seed: sd, Limit: lim}
			c.R1, c.R2 = draws(sd)
			c.Obs = runIPsChild(nm[0], nm[1], true, sd, lim)
			w.Put(c)
		}
		return
	}
	r := hlib.NewRand(*seed)
	for _, t := range corpus {
		c := parseCase{Kind: "parse", Class: "corpus", S: hex.EncodeToString([]byte(t)), Text: fmt.Sprintf("%q", t), Seed: r.Int63()}
		if strings.Contains(t, ":") {
			c.Class = "ipv6"
		}
		c.Cidr, c.Addr = cidrOracle(t), addrOracle(t)
		if n, err := sxip.ParseIPNet(t); err == nil && n != nil {
			c.Impl = netJ{OK: true, IP: hex.EncodeToString(n.IP), Mask: hex.EncodeToString(n.Mask)}
			o := runIPsChild(c.Impl.IP, c.Impl.Mask, true, c.Seed, 8)
			c.Gen = &o
		}
		w.Put(c)
	}
	classes := []string{"ipv4-host", "ipv4-cidr", "ipv4-cidr", "ipv6", "ipv6", "ipv6-cidr", "ipv6-cidr", "garbage"}
	for i := 0; i < *count; i++ {
		w.Put(mkParse(r, classes[i%len(classes)]))
	}
	iclasses := []string{"v4-small", "v4-small", "v4-small", "v4-big", "v4-16byte-ip", "v4-16byte-mask", "v6", "v6",
		"noncanonical-mask", "nil-net", "nil-ip", "length-mismatch"}
	for i := 0; i < *nips; i++ {
		w.Put(mkIps(r, iclasses[i%len(iclasses)], *full))
	}
	for i := 0; i < *nexcl; i++ {
		class := "valid"
		switch i % 6 {
		case 5:
			class = "bad-line"
		case 1, 3, 4:
			class = "nested"
		}
		w.Put(mkExcl(r, class))
	}
	// long exclusion files, from a generator of their own (the cases above do not depend on their number)
	rl := hlib.NewRand(*seed ^ 0x6c6f6e67)
	lclasses := []string{"long:equal-hosts", "long:padded", "long:equal-nets", "long:huge-padded", "long:mixed", "long:equal-hosts",
		"long:padded", "long:mixed"}
	for i := 0; i < *nlong; i++ {
		w.Put(mkExclLong(rl, lclasses[i%len(lclasses)]))
	}
}
