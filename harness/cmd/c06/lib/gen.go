package lib

import (
	"verifharness/cmd/c06/fr"
)

type config struct {
	kind string
	vpn  bool
}

var allConfigs = []config{
	{"tcp", false}, {"tcp", true}, {"tcpsyn", false}, {"tcpsyn", true},
	{"icmp", false}, {"icmp", true}, {"udp", false}, {"udp", true}, {"arp", false}, {"arp", false},
}

// genKind: the udp scan listens for ICMP, its frames are those of the icmp scan
func genKind(kind string) string {
	if kind == "udp" {
		return "icmp"
	}
	return kind
}

type gen struct {
	g    fr.Gen
	kind string
	vpn  bool
	big  bool
}

type seq struct {
	frames  [][]byte
	classes []string
	ring    int
}

// l2 prepends the link header of this configuration's link mode to an L3 packet.
func (c *gen) l2(etype uint16, l3 []byte) []byte {
	if c.vpn && c.kind != "arp" {
		return fr.Exact(l3)
	}
	return fr.Cat(fr.Eth(c.g.MAC(), c.g.MAC(), etype), l3)
}

func (c *gen) payload(max int) []byte { return c.g.R.Bytes(c.g.R.Intn(max + 1)) }

func (c *gen) tcpFlags() uint16 {
	switch c.g.R.Intn(4) {
	case 0:
		return 0x12 // SYN+ACK
	case 1:
		return fr.Pick[uint16](c.g, 0x14, 0x04, 0x02, 0x10, 0x112, 0x52, 0x92, 0x1ff, 0x00, 0x13, 0x1a)
	}
	return uint16(c.g.R.Intn(512))
}

func (c *gen) ipo(proto uint8) fr.IPOpt {
	return fr.IPOpt{TotalLen: -1, TOS: c.g.U8(), ID: c.g.U16(), FlagsFrag: fr.Pick[uint16](c.g, 0, 0x4000, 0x4000, 0x8000),
		TTL: c.g.U8(), Proto: proto, Src: c.g.IP4(), Dst: c.g.IP4(), Options: c.g.IPOptions()}
}

func (c *gen) tcpSeg() []byte {
	return fr.TCP(fr.TCPOpt{Sport: c.g.U16(), Dport: c.g.U16(), Seq: uint32(c.g.R.Uint64()), Ack: uint32(c.g.R.Uint64()),
		Flags: c.tcpFlags(), Window: c.g.U16(), Csum: c.g.U16(), Urg: c.g.U16(), Options: c.g.TCPOptions()}, c.payload(12))
}

func (c *gen) icmpMsg() []byte {
	return fr.ICMP(fr.Pick[uint8](c.g, 0, 3, 8, 11, 13, 14, c.g.U8()), c.g.U8(), c.g.U16(), c.g.U16(), c.payload(16))
}

func (c *gen) arpBody(hl, pl uint8, n int) []byte {
	return fr.ARP(fr.ARPOpt{HType: fr.Pick[uint16](c.g, 1, 1, 1, 6, c.g.U16()), PType: fr.Pick[uint16](c.g, 0x0800, 0x0800, 0x0800, 0x86dd),
		HLen: hl, PLen: pl, Op: fr.Pick[uint16](c.g, 1, 2, 2, 2, 3, c.g.U16()), Addrs: c.g.R.Bytes(n)})
}

// validOf builds a well-formed reply frame of the given scan kind in this link mode.
func (c *gen) validOf(kind string) []byte {
	switch kind {
	case "tcp", "tcpsyn":
		return c.l2(0x0800, fr.IP(c.ipo(6), c.tcpSeg()))
	case "icmp":
		return c.l2(0x0800, fr.IP(c.ipo(1), c.icmpMsg()))
	}
	body := c.arpBody(6, 4, 20)
	copy(body[8:14], c.g.SenderMAC())
	f := fr.Cat(fr.Eth(c.g.MAC(), c.g.MAC(), 0x0806), body)
	if c.g.R.Bool() {
		f = fr.Pad(f, 60)
	}
	return f
}

func (c *gen) valid() []byte { return c.validOf(c.kind) }

// l3off is the offset of the network header in frames of this link mode.
func (c *gen) l3off() int {
	if c.vpn && c.kind != "arp" {
		return 0
	}
	return 14
}

var fieldValues = []byte{0, 1, 2, 3, 4, 5, 6, 7, 8, 0x0f, 0x10, 0x14, 0x28, 0x40, 0x44, 0x45, 0x46, 0x4f, 0x50, 0x5e, 0x5f, 0x60, 0x7f, 0x80, 0xf0, 0xfe, 0xff}

// mutate sets one length/size/type field of a valid frame to a boundary value.
func (c *gen) mutate() []byte {
	f := c.valid()
	o := c.l3off()
	var offs []int
	if o == 14 {
		offs = append(offs, 12, 13)
	}
	if c.kind == "arp" {
		offs = append(offs, o+0, o+1, o+2, o+3, o+4, o+4, o+4, o+5, o+5, o+5, o+7)
	} else {
		ihl := int(f[o]&15) * 4
		offs = append(offs, o+0, o+0, o+0, o+2, o+3, o+3, o+6, o+7, o+9, o+9)
		for i := o + 20; i < o+ihl && i < len(f); i++ {
			offs = append(offs, i)
		}
		t := o + ihl
		if c.kind != "icmp" {
			offs = append(offs, t+12, t+12, t+12, t+13)
			if t+12 < len(f) {
				for i := t + 20; i < t+int(f[t+12]>>4)*4 && i < len(f); i++ {
					offs = append(offs, i)
				}
			}
		} else {
			offs = append(offs, t+0, t+1)
		}
	}
	k := 1 + c.g.R.Intn(2)
	for ; k > 0; k-- {
		i := offs[c.g.R.Intn(len(offs))]
		if i < len(f) {
			if c.g.R.Intn(4) == 0 {
				f[i] = c.g.U8()
			} else {
				f[i] = fieldValues[c.g.R.Intn(len(fieldValues))]
			}
		}
	}
	return f
}

func (c *gen) truncated() []byte {
	f := c.valid()
	return fr.Exact(f[:c.g.R.Intn(len(f)+1)])
}

// headerless inner packets for nesting
func (c *gen) inner(depth int) []byte {
	proto := fr.Pick[uint8](c.g, 6, 1, 6, 1, 17, 4, 94)
	switch c.g.R.Intn(7) {
	case 0: // bare IPv4 header claiming a transport protocol, no transport header at all
		return fr.IP(fr.IPOpt{TotalLen: -1, TTL: c.g.U8(), Proto: proto, Src: c.g.IP4(), Dst: c.g.IP4()}, nil)
	case 1: // complete inner packet
		if c.g.R.Bool() {
			return fr.IP(c.ipo(6), c.tcpSeg())
		}
		return fr.IP(c.ipo(1), c.icmpMsg())
	case 2: // inner header + a few bytes of transport
		return fr.IP(fr.IPOpt{TotalLen: fr.Pick(c.g, -1, 0, 20, 40), TTL: c.g.U8(), Proto: proto, Src: c.g.IP4(), Dst: c.g.IP4()}, c.payload(19))
	case 3: // one more level
		if depth < 3 {
			return fr.IP(fr.IPOpt{TotalLen: -1, TTL: c.g.U8(), Proto: fr.Pick[uint8](c.g, 4, 94), Src: c.g.IP4(), Dst: c.g.IP4()}, c.inner(depth+1))
		}
		return c.payload(8)
	case 4: // inner fragment
		return fr.IP(fr.IPOpt{TotalLen: -1, FlagsFrag: fr.Pick[uint16](c.g, 0x2000, 0x0001, 0x1fff), TTL: 9, Proto: proto, Src: c.g.IP4(), Dst: c.g.IP4()}, c.payload(24))
	case 5:
		return c.payload(30)
	}
	return fr.IP(fr.IPOpt{TotalLen: -1, TTL: c.g.U8(), Proto: proto, Src: c.g.IP4(), Dst: c.g.IP4()}, nil)
}

func (c *gen) nested() []byte {
	outer := fr.IPOpt{TotalLen: -1, TTL: c.g.U8(), Proto: fr.Pick[uint8](c.g, 4, 4, 94), Src: c.g.IP4(), Dst: c.g.IP4(), Options: c.g.IPOptions()}
	return c.l2(0x0800, fr.IP(outer, c.inner(1)))
}

// ethNested: transparent Ethernet bridging (0x6558) makes gopacket decode Ethernet inside Ethernet.
func (c *gen) ethNested() []byte {
	if c.vpn && c.kind != "arp" {
		return c.nested()
	}
	var in []byte
	switch c.g.R.Intn(8) {
	case 0: // two Ethernet headers, nothing else
		in = fr.Eth(c.g.MAC(), c.g.MAC(), fr.Pick[uint16](c.g, 0x0800, 0x0806, 0x6558, 0x1234, 0x0005))
	case 1: // three Ethernet headers
		in = fr.Cat(fr.Eth(c.g.MAC(), c.g.MAC(), 0x6558), fr.Eth(c.g.MAC(), c.g.MAC(), fr.Pick[uint16](c.g, 0x86dd, 0x0800, 0x0806, 0x6558)))
	case 2: // two headers + unsupported payload
		in = fr.Cat(fr.Eth(c.g.MAC(), c.g.MAC(), fr.Pick[uint16](c.g, 0x86dd, 0x8100, 0x0800, 0x0806)), c.payload(30))
	case 3:
		in = fr.Cat(fr.Eth(c.g.MAC(), c.g.MAC(), 0x0800), fr.IP(c.ipo(6), c.tcpSeg()))
	case 4:
		in = fr.Cat(fr.Eth(c.g.MAC(), c.g.MAC(), 0x0800), fr.IP(c.ipo(1), c.icmpMsg()))
	case 5:
		in = fr.Cat(fr.Eth(c.g.MAC(), c.g.MAC(), 0x0806), c.arpBody(6, 4, 20))
	case 6: // Eth, Eth, bare IP
		in = fr.Cat(fr.Eth(c.g.MAC(), c.g.MAC(), 0x0800), fr.IP(fr.IPOpt{TotalLen: -1, Proto: fr.Pick[uint8](c.g, 6, 1, 17), Src: c.g.IP4(), Dst: c.g.IP4()}, nil))
	default: // Eth, Eth, Eth + payload that no decoder takes
		in = fr.Cat(fr.Eth(c.g.MAC(), c.g.MAC(), 0x6558), fr.Eth(c.g.MAC(), c.g.MAC(), 0x88cc), c.payload(10))
	}
	return fr.Cat(fr.Eth(c.g.MAC(), c.g.MAC(), 0x6558), in)
}

func (c *gen) fragment() []byte {
	o := c.ipo(fr.Pick[uint8](c.g, 6, 1, 17))
	o.FlagsFrag = fr.Pick[uint16](c.g, 0x2000, 0x2001, 0x0001, 0x00b9, 0x1fff, 0x6000, 0xa000, 0x3fff)
	var p []byte
	if o.Proto == 1 {
		p = c.icmpMsg()
	} else {
		p = c.tcpSeg()
	}
	return c.l2(0x0800, fr.IP(o, p))
}

func (c *gen) otherProto() []byte {
	switch c.g.R.Intn(9) {
	case 0: // UDP
		return c.l2(0x0800, fr.IP(c.ipo(17), fr.UDP(c.g.U16(), c.g.U16(), c.payload(12))))
	case 1: // other IP protocols carrying what looks like the transport header
		return c.l2(0x0800, fr.IP(c.ipo(fr.Pick[uint8](c.g, 0, 2, 41, 47, 50, 132, 255, c.g.U8())), c.tcpSeg()))
	case 2: // IPv6
		h := make([]byte, 40)
		h[0] = 0x60
		h[6] = fr.Pick[uint8](c.g, 6, 58, 17)
		h[7] = 64
		return c.l2(0x86dd, fr.Cat(h, c.tcpSeg()))
	case 3: // VLAN-tagged valid packet
		return c.l2(fr.Pick[uint16](c.g, 0x8100, 0x88a8), fr.Cat([]byte{0, 5, 8, 0}, fr.IP(c.ipo(6), c.tcpSeg())))
	case 4: // 802.3 length field instead of a type
		return c.l2(fr.Pick[uint16](c.g, 0, 3, 8, 46, 100, 1500, 1535), c.payload(60))
	case 5: // ethertype just above the 802.3 boundary and other unknown types
		return c.l2(fr.Pick[uint16](c.g, 1536, 0x0801, 0x0805, 0x0807, 0x88cc, 0x8863, 0xffff, c.g.U16()), c.payload(40))
	case 6: // a frame of another scan kind
		return c.validOf(fr.Pick(c.g, "tcp", "icmp", "arp"))
	case 7: // wrong IP version nibble, otherwise valid
		f := c.valid()
		if c.kind != "arp" {
			f[c.l3off()] = f[c.l3off()]&0x0f | fr.Pick[uint8](c.g, 0x00, 0x50, 0x60, 0xf0)
		}
		return f
	}
	return c.l2(0x0800, fr.IP(c.ipo(6), nil)) // IPv4 header announcing TCP, empty payload
}

func (c *gen) random() []byte {
	n := 0
	switch r := c.g.R.Intn(10); {
	case c.big:
		n = 200 + c.g.R.Intn(1319)
	case r < 5:
		n = c.g.R.Intn(41)
	default:
		n = 41 + c.g.R.Intn(80)
	}
	return c.g.R.Bytes(n)
}

// randomTail: valid leading header(s), random rest
func (c *gen) randomTail() []byte {
	switch c.g.R.Intn(3) {
	case 0:
		return c.l2(fr.Pick[uint16](c.g, 0x0800, 0x0806, 0x6558), c.payload(70))
	case 1:
		return c.l2(0x0800, fr.IP(c.ipo(fr.Pick[uint8](c.g, 6, 1, 4)), c.payload(44)))
	}
	f := c.valid()
	k := c.g.R.Intn(len(f))
	copy(f[k:], c.g.R.Bytes(len(f)-k))
	return f
}

var arpSizes = []uint8{0, 0, 1, 2, 3, 4, 5, 6, 6, 7, 8, 16, 20, 60, 100, 122, 123, 124, 125, 128, 200, 248, 255}

// arpVariant: ARP bodies with arbitrary address sizes, consistent or inconsistent with the bytes that follow
func (c *gen) arpVariant() []byte {
	hl, pl := arpSizes[c.g.R.Intn(len(arpSizes))], arpSizes[c.g.R.Intn(len(arpSizes))]
	if c.g.R.Intn(3) == 0 {
		hl, pl = fr.Pick[uint8](c.g, 6, 6, 0, 3, 2), fr.Pick[uint8](c.g, 4, 4, 0, 16, 5)
	}
	n := 2*int(hl) + 2*int(pl)
	switch c.g.R.Intn(5) {
	case 0:
		n = c.g.R.Intn(n + 1)
	case 1:
		n += c.g.R.Intn(20)
	case 2:
		n = int(uint8(n)) // what the uint8 arithmetic of the decoder believes
	}
	f := fr.Cat(fr.Eth(c.g.MAC(), c.g.MAC(), 0x0806), c.arpBody(hl, pl, n))
	if c.g.R.Intn(3) == 0 {
		f = fr.Pad(f, 60)
	}
	return f
}

// badOptions: IPv4 / TCP option blocks that the decoders reject or accept at the boundary
func (c *gen) badOptions() []byte {
	blocks := [][]byte{
		{7, 0, 0, 0}, {7, 1, 0, 0}, {7, 2, 0, 0}, {7, 3, 0, 0}, {7, 4, 0, 0}, {7, 5, 0, 0}, {1, 1, 1, 7},
		{68, 40, 0, 0}, {2, 4, 5, 0xb4}, {2, 0, 0, 0}, {2, 1, 0, 0}, {2, 2, 0, 0}, {2, 5, 0, 0}, {1, 1, 1, 2},
		{0, 9, 9, 9}, {1, 0, 7, 7}, {5, 255, 1, 1}, {1, 1, 3, 3, 0, 0, 0, 0}, {8, 8, 1, 2, 3, 4, 5, 6},
	}
	b := blocks[c.g.R.Intn(len(blocks))]
	if c.kind == "icmp" || c.g.R.Bool() {
		o := c.ipo(6)
		if c.kind == "icmp" {
			o.Proto = 1
		}
		o.Options = b
		if o.Proto == 1 {
			return c.l2(0x0800, fr.IP(o, c.icmpMsg()))
		}
		return c.l2(0x0800, fr.IP(o, c.tcpSeg()))
	}
	o := c.ipo(6)
	return c.l2(0x0800, fr.IP(o, fr.TCP(fr.TCPOpt{Sport: c.g.U16(), Dport: c.g.U16(), Flags: c.tcpFlags(), Options: b}, c.payload(6))))
}

// lenField: IPv4 total length against the real length
func (c *gen) lenField() []byte {
	o := c.ipo(6)
	var p []byte
	if c.kind == "icmp" {
		o.Proto = 1
		p = c.icmpMsg()
	} else {
		p = c.tcpSeg()
	}
	hl := 20 + len(o.Options)
	full := hl + len(p)
	o.TotalLen = fr.Pick(c.g, 0, 1, 19, 20, hl-1, hl, hl+1, hl+7, hl+8, hl+19, hl+20, full-1, full-3, full+1, full+10, 65535)
	if o.TotalLen < 0 {
		o.TotalLen = 0
	}
	f := c.l2(0x0800, fr.IP(o, p))
	if c.g.R.Intn(4) == 0 {
		f = fr.Pad(f, len(f)+c.g.R.Intn(12)) // trailing padding beyond the IP total length
	}
	return f
}

// otherLink: a valid reply framed for the OTHER link mode (Ethernet frame to a raw-IP processor and vice versa)
func (c *gen) otherLink() []byte {
	c2 := *c
	c2.vpn = !c.vpn
	if c.kind == "arp" {
		c2.kind, c2.vpn = fr.Pick(c.g, "tcp", "icmp"), true
	}
	return c2.valid()
}

// quoteOf: the beginning of a probe datagram as an ICMP error message quotes it (RFC 792: the IPv4 header and the
// first 8 bytes of its payload; newer stacks quote more). The quoted destination is the probed host, an address that
// differs from the sender of the error message whenever a router or a firewall answers for it.
func (c *gen) quoteOf() []byte {
	q := fr.IPOpt{TotalLen: -1, TOS: c.g.U8(), ID: c.g.U16(), FlagsFrag: fr.Pick[uint16](c.g, 0, 0x4000), TTL: 1 + c.g.U8()%64,
		Proto: fr.Pick[uint8](c.g, 17, 17, 17, 6, 1), Src: c.g.IP4(), Dst: c.g.IP4()}
	if c.g.R.Intn(5) == 0 {
		q.Options = []byte{1, 1, 1, 0}
	}
	var l4 []byte
	switch q.Proto {
	case 17:
		l4 = fr.UDP(c.g.U16(), c.g.U16(), nil)
	case 6:
		l4 = fr.TCP(fr.TCPOpt{Sport: c.g.U16(), Dport: c.g.U16(), Seq: uint32(c.g.R.Uint64()), Flags: 0x02}, nil)[:8]
	default:
		l4 = fr.ICMP(8, 0, c.g.U16(), c.g.U16(), nil)
	}
	if c.g.R.Intn(4) == 0 {
		l4 = fr.Cat(l4, c.payload(24)) // stacks that quote more than 8 bytes
	}
	if c.g.R.Intn(6) == 0 {
		q.TotalLen = 28 + c.g.R.Intn(1400) // the probe was longer than what is quoted
	}
	return fr.IP(q, l4)
}

// quoted builds an ICMP error message about a probe, in this link mode. shape: "quoted-full" = the complete quoted
// IPv4 header (and at least 8 bytes behind it) follows the ICMP header; "quoted-short" = the sender quotes fewer than
// 20 bytes (nothing, 8 bytes, any number below 20); "quoted-cut" = a complete message that the capture cut inside the
// quoted IPv4 header (the outer total length claims more than what was captured). All three are well-formed
// Ethernet/IPv4/ICMP (IPv4/ICMP) chains: the record of each is due, with the fields of that frame.
func (c *gen) quoted(shape string) []byte {
	typ := fr.Pick[uint8](c.g, 3, 3, 3, 3, 3, 3, 11, 12, 5, 4)
	code := uint8(c.g.R.Intn(16))
	if typ == 3 && c.g.R.Bool() {
		code = fr.Pick[uint8](c.g, 0, 1, 2, 3, 3, 3, 9, 10, 13)
	}
	q := c.quoteOf()
	o := c.ipo(1)
	switch shape {
	case "quoted-short":
		k := fr.Pick(c.g, 0, 0, 8, 8, 4, 16, 19, c.g.R.Intn(20))
		return c.l2(0x0800, fr.IP(o, fr.ICMP(typ, code, 0, 0, q[:k])))
	case "quoted-cut":
		f := c.l2(0x0800, fr.IP(o, fr.ICMP(typ, code, 0, 0, q)))
		return fr.Exact(f[:c.l3off()+20+len(o.Options)+8+c.g.R.Intn(20)])
	}
	return c.l2(0x0800, fr.IP(o, fr.ICMP(typ, code, 0, 0, q)))
}

var quotedShapes = []string{"quoted-full", "quoted-full", "quoted-short", "quoted-cut"}

func (c *gen) quotedAny() []byte { return c.quoted(quotedShapes[c.g.R.Intn(len(quotedShapes))]) }

// quotedHistory: histories of ICMP error messages about probes, in the order a scan sees them: a message with a
// complete quoted header (from a router, about some probed host), later messages of OTHER senders that quote less
// than an IPv4 header (or were cut there), with replies and unrelated frames in between. Every frame has the header
// chain, so every frame yields its own record; nothing of an earlier message may show up in a later record.
func (c *gen) quotedHistory() seq {
	patterns := [][]string{
		{"quoted-full", "quoted-short"},
		{"quoted-full", "quoted-cut"},
		{"quoted-short", "quoted-full", "quoted-cut"},
		{"quoted-full", "quoted-full", "quoted-short"},
		{"quoted-full", "valid", "quoted-short"},
		{"quoted-full", "junk", "quoted-cut", "quoted-short"},
		{"quoted-cut", "quoted-full", "quoted-short", "quoted-full"},
		{"quoted-full", "quoted-short", "quoted-full", "quoted-cut"},
	}
	p := patterns[c.g.R.Intn(len(patterns))]
	var s seq
	for _, shape := range p {
		switch shape {
		case "valid":
			s.frames = append(s.frames, c.valid())
		case "junk":
			s.frames = append(s.frames, c.l2(0x88cc, c.payload(30)))
		default:
			s.frames = append(s.frames, c.quoted(shape))
		}
		s.classes = append(s.classes, shape)
	}
	s.ring = []int{0, 0, 0, 1, 2, 4}[c.g.R.Intn(6)]
	return s
}

type family struct {
	name string
	w    int
	f    func(c *gen) []byte
}

var families = []family{
	{"valid", 22, (*gen).valid},
	{"truncated", 12, (*gen).truncated},
	{"field", 14, (*gen).mutate},
	{"nested-ip", 9, (*gen).nested},
	{"nested-eth", 7, (*gen).ethNested},
	{"fragment", 4, (*gen).fragment},
	{"other-proto", 9, (*gen).otherProto},
	{"random", 6, (*gen).random},
	{"random-tail", 5, (*gen).randomTail},
	{"options", 6, (*gen).badOptions},
	{"ip-length", 6, (*gen).lenField},
	{"other-link", 8, (*gen).otherLink},
	{"quoted", 6, (*gen).quotedAny},
}

func (c *gen) frame() ([]byte, string) {
	if c.kind == "arp" && c.g.R.Intn(3) == 0 {
		return c.arpVariant(), "arp-sizes"
	}
	if c.big && c.g.R.Intn(2) == 0 {
		return c.random(), "random"
	}
	tot := 0
	for _, f := range families {
		tot += f.w
	}
	x := c.g.R.Intn(tot)
	for _, f := range families {
		if x < f.w {
			return f.f(c), f.name
		}
		x -= f.w
	}
	return c.valid(), "valid"
}

// seedFrames: the frames that the thorough tier truncates at every length
func (c *gen) seedFrames() [][]byte {
	return [][]byte{c.valid(), c.nested(), c.ethNested()}
}

// fixedSequences: the shapes of the defects found by reading the code, for every configuration:
// a valid reply followed by frames that have the right NUMBER of layers but no transport header,
// and the ARP frames with odd address sizes.
func (c *gen) fixedSequences() []seq {
	var out []seq
	add := func(classes string, frames ...[]byte) {
		cl := make([]string, len(frames))
		for i := range cl {
			cl[i] = classes
		}
		out = append(out, seq{frames, cl, 0})
	}
	// the same memory is handed out again (zero-copy ring): two replies from different hosts, the second
	// landing in the slot of the first, with 0..2 frames that are not reported in between
	// replies framed for the other link mode: the processor's parser must start at the link type of ITS mode
	out = append(out, seq{[][]byte{c.otherLink(), c.valid(), c.otherLink()}, []string{"other-link", "valid", "other-link"}, 0})
	junk := func() []byte { return c.l2(0x88cc, c.payload(30)) }
	out = append(out, seq{[][]byte{c.valid(), c.valid()}, []string{"ring-valid", "ring-valid"}, 1})
	out = append(out, seq{[][]byte{c.valid(), c.valid(), c.valid()}, []string{"ring-valid", "ring-valid", "ring-valid"}, 1})
	out = append(out, seq{[][]byte{c.valid(), junk(), c.valid()}, []string{"ring-valid", "ring-junk", "ring-valid"}, 2})
	out = append(out, seq{[][]byte{c.valid(), junk(), junk(), c.valid()}, []string{"ring-valid", "ring-junk", "ring-junk", "ring-valid"}, 3})
	bare := func(proto uint8) []byte {
		return fr.IP(fr.IPOpt{TotalLen: -1, TTL: 77, Proto: proto, Src: [4]byte{7, 7, 7, 7}, Dst: [4]byte{192, 168, 0, 9}}, nil)
	}
	if c.kind != "arp" {
		tproto := uint8(6)
		if c.kind == "icmp" {
			tproto = 1
		}
		outer := fr.IPOpt{TotalLen: -1, TTL: 64, Proto: 4, Src: [4]byte{10, 0, 0, 2}, Dst: [4]byte{192, 168, 0, 9}}
		ipip := c.l2(0x0800, fr.IP(outer, bare(tproto)))
		add("seq-valid-then-ipip", c.valid(), ipip)
		add("seq-ipip-first", ipip)
		outer.Proto = 94
		add("seq-valid-then-ipip94", c.valid(), c.l2(0x0800, fr.IP(outer, bare(tproto))), c.valid())
		if !c.vpn {
			e3 := fr.Cat(fr.Eth(c.g.MAC(), c.g.MAC(), 0x6558), fr.Eth(c.g.MAC(), c.g.MAC(), 0x6558), fr.Eth(c.g.MAC(), c.g.MAC(), 0x88cc))
			add("seq-valid-then-eth3", c.valid(), e3)
			add("seq-eth3-first", e3)
			ee := fr.Cat(fr.Eth(c.g.MAC(), c.g.MAC(), 0x6558), fr.Eth(c.g.MAC(), c.g.MAC(), 0x0800), bare(tproto))
			add("seq-valid-then-eth-eth-ip", c.valid(), ee)
		} else {
			// raw IP mode: IPv4 -> IPv4 has two decoded layers starting with IPv4
			add("seq-valid-then-ipip-ipip", c.valid(), ipip, ipip)
		}
		return out
	}
	// vendor lookup over a history: a sender with a registered OUI, then a locally administered and a random one
	withMAC := func(m []byte) []byte {
		body := c.arpBody(6, 4, 20)
		copy(body[8:14], m)
		return fr.Cat(fr.Eth(c.g.MAC(), c.g.MAC(), 0x0806), body)
	}
	oui := fr.OUIs()
	reg := func() []byte {
		p := oui[c.g.R.Intn(len(oui))]
		return append(append([]byte{}, p[:]...), c.g.R.Bytes(3)...)
	}
	local := func() []byte {
		m := c.g.R.Bytes(6)
		m[0] = m[0]&^1 | 2
		return m
	}
	add("arp-oui-then-local", withMAC(reg()), withMAC(local()), withMAC(reg()), withMAC(c.g.R.Bytes(6)))
	add("arp-local-then-oui", withMAC(local()), withMAC(reg()), withMAC(local()))
	z := fr.Cat(fr.Eth(c.g.MAC(), c.g.MAC(), 0x0806), fr.ARP(fr.ARPOpt{HType: 1, PType: 0x0800, HLen: 0, PLen: 0, Op: 2}))
	add("arp-zero-sizes-22", z)
	add("arp-zero-sizes-padded", fr.Pad(fr.Exact(z), 60))
	add("arp-valid-then-zero", c.valid(), z)
	add("arp-sizes-8-16", fr.Cat(fr.Eth(c.g.MAC(), c.g.MAC(), 0x0806), c.arpBody(8, 16, 48)))
	add("arp-sizes-3-4", fr.Cat(fr.Eth(c.g.MAC(), c.g.MAC(), 0x0806), c.arpBody(3, 4, 14)))
	add("arp-sizes-wrap", fr.Cat(fr.Eth(c.g.MAC(), c.g.MAC(), 0x0806), c.arpBody(128, 0, 8)),
		fr.Cat(fr.Eth(c.g.MAC(), c.g.MAC(), 0x0806), c.arpBody(128, 128, 300)),
		fr.Cat(fr.Eth(c.g.MAC(), c.g.MAC(), 0x0806), c.arpBody(124, 0, 248)))
	ee := fr.Cat(fr.Eth(c.g.MAC(), c.g.MAC(), 0x6558), fr.Eth(c.g.MAC(), c.g.MAC(), 0x0800))
	add("arp-eth-eth-first", ee)
	add("arp-valid-then-eth-eth", c.valid(), ee, fr.Cat(ee, c.payload(20)))
	return out
}
