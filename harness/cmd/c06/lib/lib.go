// Package lib is the driver for C06 (shared by cmd/c06: library constructors, and cmd/c06cmd: the methods
// the commands build): feeds sequences of 1..4 raw frames to the real ProcessPacketData of the tcp, icmp
// (also used by udp) and arp scan methods, in both link modes, and records per frame what a receiver
// would observe: records appearing on Results(), the returned error's class, or a panic that escapes
// (= process crash).  Records are observed through scan.NewResultChan / Results(): after every call a
// marker result is Put behind whatever the call emitted and the channel is drained up to the marker,
// so only positive events are observed.
package lib

import (
	"context"
	"encoding/hex"
	"encoding/json"
	"flag"
	"fmt"
	"net"
	"os"
	"strings"
	"time"

	"github.com/google/gopacket/macs"
	"github.com/v-byte-cpu/sx/pkg/packet"
	"github.com/v-byte-cpu/sx/pkg/scan"
	"github.com/v-byte-cpu/sx/pkg/scan/arp"
	"github.com/v-byte-cpu/sx/pkg/scan/icmp"
	"github.com/v-byte-cpu/sx/pkg/scan/tcp"
	"verifharness/cmd/c06/fr"
	"verifharness/hlib"
)

type obs struct {
	K        int    `json:"k"` // 0 none, 1 one record, 2 error, 3 crash, 4 several records
	N        int    `json:"n"` // number of records emitted by this call
	Err      int    `json:"err"`
	ErrText  string `json:"errtext,omitempty"`
	Rec      string `json:"rec,omitempty"` // tcp | icmp | arp
	Scan     string `json:"scan,omitempty"`
	IPText   string `json:"iptext,omitempty"`
	IP       []int  `json:"ip"`
	Port     int    `json:"port"`
	Flags    string `json:"flags"`
	TTL      int    `json:"ttl"`
	Type     int    `json:"type"`
	Code     int    `json:"code"`
	MACText  string `json:"mactext,omitempty"`
	MAC      []int  `json:"mac"`
	Vendor   string `json:"vendor,omitempty"`
	VendorOK bool   `json:"vendor_ok"`
	Panic    string `json:"panic,omitempty"`
}

type caseOut struct {
	ID      int      `json:"id"`
	Kind    string   `json:"kind"` // tcp | tcpsyn | icmp | arp
	VPN     bool     `json:"vpn"`
	Ring    int      `json:"ring"` // 0: every frame in a fresh buffer; n > 0: frames are copied into a ring of n reused slots
	Classes []string `json:"classes"`
	Frames  []string `json:"frames"` // hex
	Obs     []obs    `json:"obs"`
}

type marker struct{ i int }

func (m *marker) String() string               { return "marker" }
func (m *marker) ID() string                   { return fmt.Sprint("marker", m.i) }
func (m *marker) MarshalJSON() ([]byte, error) { return []byte("null"), nil }

var errPrefixes = []struct {
	p string
	c int
}{
	{"Ethernet packet too small", 1},
	{"Invalid ip4 header. Length", 2},
	{"Invalid (too small) IP length", 3},
	{"Invalid (too small) IP header length", 4},
	{"Invalid IP header length > IP length", 5},
	{"Not all IP header bytes available", 6},
	{"Invalid ip4 option length", 7},
	{"IP option length exceeds remaining IP header size", 8},
	{"Invalid IP option type", 9},
	{"Invalid TCP header. Length", 10},
	{"Invalid TCP data offset", 11},
	{"TCP data offset greater than packet length", 12},
	{"Invalid TCP option length. Length", 13},
	{"panic:", 19},
	{"ICMP layer less then 8 bytes", 16},
}

func errClass(e error) int {
	s := e.Error()
	for _, p := range errPrefixes {
		if strings.HasPrefix(s, p.p) {
			return p.c
		}
	}
	if strings.HasPrefix(s, "Invalid TCP option length") {
		if strings.Contains(s, "exceeds remaining") {
			return 15
		}
		return 14
	}
	if strings.HasPrefix(s, "ARP length") {
		if strings.Contains(s, "expected") {
			return 18
		}
		return 17
	}
	return 0
}

// ipBytes inverts net.IP.String for what the processors can produce.
func ipBytes(s string) []int {
	if s == "<nil>" || s == "" {
		return []int{}
	}
	if strings.HasPrefix(s, "?") {
		b, err := hex.DecodeString(s[1:])
		if err != nil {
			return []int{-1}
		}
		return ints(b)
	}
	ip := net.ParseIP(s)
	if ip == nil {
		return []int{-1}
	}
	if !strings.Contains(s, ":") {
		return ints(ip.To4())
	}
	return ints(ip.To16())
}

func macBytes(s string) []int {
	if s == "" {
		return []int{}
	}
	out := []int{}
	for _, p := range strings.Split(s, ":") {
		b, err := hex.DecodeString(p)
		if err != nil || len(b) != 1 {
			return []int{-1}
		}
		out = append(out, int(b[0]))
	}
	return out
}

func ints(b []byte) []int {
	out := make([]int, len(b))
	for i, x := range b {
		out[i] = int(x)
	}
	return out
}

// Proc is one processor under test. With RC set, a marker result is Put after every call to delimit what the
// call emitted; without access to the result channel (methods built by the commands) a sentinel reply of
// each link mode is processed after every call and its record delimits.
type Proc struct {
	P      packet.Processor
	RC     scan.ResultChan
	Out    <-chan scan.Result
	Cancel context.CancelFunc
	kind   string
	nmark  int
	// ring of reused receive buffers, the way the zero-copy AF_PACKET ring hands out packet data:
	// a later frame overwrites the memory an earlier frame's slices still point into
	ring [][]byte
	pos  int
	kept [][]scan.Result // per call: the records it emitted
}

// Factory builds the processor of one configuration; Kinds lists the configurations a driver covers.
type Factory func(kind string, vpn bool) *Proc

func (pt *Proc) call(data []byte) (err error, crashed bool, msg string) {
	defer func() {
		if r := recover(); r != nil {
			crashed, msg = true, fmt.Sprint(r)
		}
	}()
	err = pt.P.ProcessPacketData(data, nil)
	return
}

// feed processes one frame and returns the observation.
func (pt *Proc) feed(frame []byte) obs {
	var data []byte
	if len(pt.ring) == 0 {
		data = fr.Exact(frame) // capacity == length, private copy
	} else {
		slot := pt.ring[pt.pos%len(pt.ring)]
		pt.pos++
		n := copy(slot, frame)
		data = slot[:n:n] // capacity == length, memory shared with every earlier frame of this slot
	}
	err, crashed, msg := pt.call(data)
	var o obs
	o.IP, o.MAC = []int{}, []int{}
	// drain everything the call emitted
	var recs []scan.Result
	if pt.RC != nil {
		pt.nmark++
		pt.RC.Put(&marker{pt.nmark})
		for r := range pt.Out {
			if m, ok := r.(*marker); ok && m.i == pt.nmark {
				break
			}
			recs = append(recs, r)
		}
	} else {
		var lost bool
		recs, lost = pt.drainBySentinel()
		if lost {
			o.IP, o.MAC = []int{}, []int{}
			o.K, o.N, o.ErrText = 5, len(recs), "no sentinel record: the processor reports a plain reply in neither link mode"
			pt.kept = append(pt.kept, recs)
			return o
		}
	}
	o.N = len(recs)
	switch {
	case crashed:
		o.K, o.Panic = 3, msg
	case err != nil:
		o.K, o.Err, o.ErrText = 2, errClass(err), err.Error()
	case len(recs) == 0:
		o.K = 0
	case len(recs) == 1:
		o.K = 1
	default:
		o.K = 4
	}
	if (crashed || err != nil) && len(recs) > 0 {
		o.K = 4 // a record AND an error/crash: never equal to a model outcome
	}
	// the records are RETAINED and read only after the whole sequence was processed (readRecord): that is
	// how the real consumer sees them, the result channel buffers up to 1000 records
	pt.kept = append(pt.kept, recs)
	return o
}

// readRecord reads the fields of the first record a call emitted, after the last frame of the sequence.
const sentinelIP = "203.0.113.250"

// sentinelFrames: a plain reply of the processor's kind from sentinelIP, Ethernet-framed and raw
func sentinelFrames(kind string) [][]byte {
	src := [4]byte{203, 0, 113, 250}
	eth := fr.Eth([]byte{2, 0, 0, 0, 0, 1}, []byte{2, 0, 0, 0, 0, 2}, 0x0800)
	switch genKind(kind) {
	case "tcp", "tcpsyn":
		p := fr.IP(fr.IPOpt{TotalLen: -1, TTL: 64, Proto: 6, Src: src}, fr.TCP(fr.TCPOpt{Sport: 1, Dport: 2, Flags: 0x12}, nil))
		return [][]byte{fr.Cat(eth, p), p}
	case "icmp":
		p := fr.IP(fr.IPOpt{TotalLen: -1, TTL: 64, Proto: 1, Src: src}, fr.ICMP(0, 0, 1, 1, nil))
		return [][]byte{fr.Cat(eth, p), p}
	}
	a := fr.ARP(fr.ARPOpt{HType: 1, PType: 0x0800, HLen: 6, PLen: 4, Op: 2,
		Addrs: fr.Cat([]byte{2, 0, 0, 0, 0, 9}, src[:], make([]byte, 10))})
	return [][]byte{fr.Cat(fr.Eth([]byte{2, 0, 0, 0, 0, 1}, []byte{2, 0, 0, 0, 0, 9}, 0x0806), a)}
}

func recordIP(r scan.Result) string {
	switch x := r.(type) {
	case *tcp.ScanResult:
		return x.IP
	case *icmp.ScanResult:
		return x.IP
	case *arp.ScanResult:
		return x.IP
	}
	return ""
}

func (pt *Proc) drainBySentinel() (recs []scan.Result, lost bool) {
	for _, s := range sentinelFrames(pt.kind) {
		pt.call(fr.Exact(s))
	}
	timeout := time.After(3 * time.Second)
	for {
		select {
		case r, ok := <-pt.Out:
			if !ok {
				return recs, true
			}
			if recordIP(r) == sentinelIP {
				return recs, false
			}
			recs = append(recs, r)
		case <-timeout:
			return recs, true
		}
	}
}

func readRecord(o *obs, recs []scan.Result) {
	if len(recs) == 0 {
		return
	}
	// serialise as the logger does, then read the fields
	if _, err := recs[0].MarshalJSON(); err != nil {
		o.K = 4
	}
	switch r := recs[0].(type) {
	case *tcp.ScanResult:
		o.Rec, o.Scan, o.IPText, o.IP, o.Port, o.Flags = "tcp", r.ScanType, r.IP, ipBytes(r.IP), int(r.Port), r.Flags
	case *icmp.ScanResult:
		o.Rec, o.Scan, o.IPText, o.IP, o.TTL = "icmp", r.ScanType, r.IP, ipBytes(r.IP), int(r.TTL)
		if r.ICMP != nil {
			o.Type, o.Code = int(r.ICMP.Type), int(r.ICMP.Code)
		} else {
			o.K = 4
		}
	case *arp.ScanResult:
		o.Rec, o.IPText, o.IP, o.MACText, o.MAC, o.Vendor = "arp", r.IP, ipBytes(r.IP), r.MAC, macBytes(r.MAC), r.Vendor
		if len(o.MAC) >= 3 && o.MAC[0] >= 0 {
			var k [3]byte
			for i := 0; i < 3; i++ {
				k[i] = byte(o.MAC[i])
			}
			// the vendor must be the OUI table's entry for the sender MAC's own first three bytes
			o.VendorOK = macs.ValidMACPrefixMap[k] == r.Vendor
		}
	default:
		o.K = 4
	}
}

func runCase(newProc Factory, id int, kind string, vpn bool, ring int, frames [][]byte, classes []string) caseOut {
	pt := newProc(kind, vpn)
	pt.kind = kind
	defer pt.Cancel()
	for i := 0; i < ring; i++ {
		pt.ring = append(pt.ring, make([]byte, 4096))
	}
	c := caseOut{ID: id, Kind: kind, VPN: vpn, Ring: ring, Classes: classes}
	for _, f := range frames {
		c.Frames = append(c.Frames, hex.EncodeToString(f))
		o := pt.feed(f)
		c.Obs = append(c.Obs, o)
		if o.K == 3 {
			break // the process is gone
		}
	}
	for i := range c.Obs {
		readRecord(&c.Obs[i], pt.kept[i])
	}
	return c
}

type replayIn struct {
	Kind   string   `json:"kind"`
	VPN    bool     `json:"vpn"`
	Ring   int      `json:"ring"`
	Frames []string `json:"frames"`
}

// Run is the driver: newProc builds the processors, kinds restricts the configurations (nil = all).
func Run(newProc Factory, kinds map[string]bool) {
	var configs []config
	for _, c := range allConfigs {
		if kinds == nil || kinds[c.kind] {
			configs = append(configs, c)
		}
	}
	out := flag.String("out", "cases.jsonl", "output file")
	seed := flag.Int64("seed", 1, "seed")
	n := flag.Int("n", 1800, "number of generated sequences")
	big := flag.Int("big", 20, "number of sequences that contain long random frames")
	quoted := flag.Int("quoted", 40, "number of histories of ICMP error messages with quoted datagrams per icmp/udp configuration")
	trunc := flag.Bool("alltrunc", false, "additionally truncate the seed frames at every length")
	replay := flag.String("replay", "", "replay the sequences of a JSON file ({kind,vpn,frames[hex]} or a list of them)")
	flag.Parse()
	w := hlib.NewOut(*out)
	defer w.Close()
	if *replay != "" {
		raw, err := os.ReadFile(*replay)
		if err != nil {
			panic(err)
		}
		var many []replayIn
		if json.Unmarshal(raw, &many) != nil {
			var one replayIn
			if err := json.Unmarshal(raw, &one); err != nil {
				panic(err)
			}
			many = []replayIn{one}
		}
		for i, in := range many {
			var fs [][]byte
			var cl []string
			for _, h := range in.Frames {
				b, err := hex.DecodeString(h)
				if err != nil {
					panic(err)
				}
				fs = append(fs, b)
				cl = append(cl, "replay")
			}
			w.Put(runCase(newProc, i, in.Kind, in.VPN, in.Ring, fs, cl))
		}
		return
	}
	r := hlib.NewRand(*seed)
	id := 0
	emit := func(kind string, vpn bool, ring int, frames [][]byte, classes []string) {
		w.Put(runCase(newProc, id, kind, vpn, ring, frames, classes))
		id++
	}
	// fixed regression sequences first (the shapes of the known defects), every configuration
	for _, cf := range configs {
		g := &gen{g: fr.Gen{R: r}, kind: genKind(cf.kind), vpn: cf.vpn}
		for _, s := range g.fixedSequences() {
			emit(cf.kind, cf.vpn, s.ring, s.frames, s.classes)
		}
	}
	// histories of ICMP error messages that quote the probe (complete quoted header, then short / cut quotes)
	for _, cf := range configs {
		if genKind(cf.kind) != "icmp" {
			continue
		}
		g := &gen{g: fr.Gen{R: r}, kind: "icmp", vpn: cf.vpn}
		for i := 0; i < *quoted; i++ {
			s := g.quotedHistory()
			emit(cf.kind, cf.vpn, s.ring, s.frames, s.classes)
		}
	}
	if *trunc {
		for _, cf := range configs {
			g := &gen{g: fr.Gen{R: r}, kind: genKind(cf.kind), vpn: cf.vpn}
			for _, base := range g.seedFrames() {
				for l := 0; l <= len(base); l++ {
					emit(cf.kind, cf.vpn, 0, [][]byte{base[:l]}, []string{"trunc-all"})
				}
			}
		}
	}
	for i := 0; i < *n; i++ {
		cf := configs[r.Intn(len(configs))]
		g := &gen{g: fr.Gen{R: r}, kind: genKind(cf.kind), vpn: cf.vpn, big: i < *big}
		k := 1 + r.Intn(4)
		var frames [][]byte
		var classes []string
		for j := 0; j < k; j++ {
			f, c := g.frame()
			frames = append(frames, f)
			classes = append(classes, c)
		}
		// half of the sequences go through reused buffers (ring of 1..4 slots)
		emit(cf.kind, cf.vpn, []int{0, 0, 0, 1, 1, 2, 3, 4}[r.Intn(8)], frames, classes)
	}
}
