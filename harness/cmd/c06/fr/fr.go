// Package fr builds raw frames byte by byte (no gopacket serialiser involved) for the receive-path
// drivers (C06, C03): valid reply frames of every scan kind and their mutants.
package fr

import (
	"bytes"
	"encoding/binary"
	"sort"
	"sync"

	"github.com/google/gopacket/macs"

	"verifharness/hlib"
)

// Eth returns a 14-byte Ethernet II header.
func Eth(dst, src []byte, etype uint16) []byte {
	b := make([]byte, 14)
	copy(b[0:6], dst)
	copy(b[6:12], src)
	binary.BigEndian.PutUint16(b[12:], etype)
	return b
}

// IPOpt describes an IPv4 header; zero values give a plain 20-byte header.
type IPOpt struct {
	Version   int // default 4
	TOS       uint8
	IHL       int    // default 5 + len(Options)/4; -1 = 0
	TotalLen  int    // -1: computed from payload; else verbatim (0 allowed)
	ID        uint16 //
	FlagsFrag uint16 // 3 bits flags + 13 bits offset, verbatim
	TTL       uint8
	Proto     uint8
	Src, Dst  [4]byte
	Options   []byte // appended after the 20 fixed bytes
}

// IP serialises the header followed by payload.
func IP(o IPOpt, payload []byte) []byte {
	hl := 20 + len(o.Options)
	b := make([]byte, hl, hl+len(payload))
	v := o.Version
	if v == 0 {
		v = 4
	}
	ihl := o.IHL
	if ihl == 0 {
		ihl = hl / 4
	} else if ihl < 0 {
		ihl = 0
	}
	b[0] = byte(v<<4) | byte(ihl&15)
	b[1] = o.TOS
	tl := o.TotalLen
	if tl < 0 {
		tl = hl + len(payload)
	}
	binary.BigEndian.PutUint16(b[2:], uint16(tl))
	binary.BigEndian.PutUint16(b[4:], o.ID)
	binary.BigEndian.PutUint16(b[6:], o.FlagsFrag)
	b[8] = o.TTL
	b[9] = o.Proto
	copy(b[12:16], o.Src[:])
	copy(b[16:20], o.Dst[:])
	copy(b[20:], o.Options)
	binary.BigEndian.PutUint16(b[10:], Csum(b[:hl]))
	return append(b, payload...)
}

// Csum is the Internet checksum of b.
func Csum(b []byte) uint16 {
	var s uint32
	for i := 0; i+1 < len(b); i += 2 {
		s += uint32(b[i])<<8 | uint32(b[i+1])
	}
	if len(b)%2 == 1 {
		s += uint32(b[len(b)-1]) << 8
	}
	for s>>16 != 0 {
		s = s&0xffff + s>>16
	}
	return ^uint16(s)
}

// TCPOpt describes a TCP header. Flags: bit0 FIN .. bit7 CWR, bit8 NS.
type TCPOpt struct {
	Sport, Dport uint16
	Seq, Ack     uint32
	Doff         int // 0: computed 5+len(Options)/4; -1 = 0
	Flags        uint16
	Window       uint16
	Csum, Urg    uint16
	Options      []byte
}

func TCP(o TCPOpt, payload []byte) []byte {
	hl := 20 + len(o.Options)
	b := make([]byte, hl, hl+len(payload))
	binary.BigEndian.PutUint16(b[0:], o.Sport)
	binary.BigEndian.PutUint16(b[2:], o.Dport)
	binary.BigEndian.PutUint32(b[4:], o.Seq)
	binary.BigEndian.PutUint32(b[8:], o.Ack)
	d := o.Doff
	if d == 0 {
		d = hl / 4
	} else if d < 0 {
		d = 0
	}
	b[12] = byte(d&15)<<4 | byte(o.Flags>>8&1)
	b[13] = byte(o.Flags)
	binary.BigEndian.PutUint16(b[14:], o.Window)
	binary.BigEndian.PutUint16(b[16:], o.Csum)
	binary.BigEndian.PutUint16(b[18:], o.Urg)
	copy(b[20:], o.Options)
	return append(b, payload...)
}

func ICMP(typ, code uint8, id, seq uint16, payload []byte) []byte {
	b := make([]byte, 8, 8+len(payload))
	b[0], b[1] = typ, code
	binary.BigEndian.PutUint16(b[4:], id)
	binary.BigEndian.PutUint16(b[6:], seq)
	b = append(b, payload...)
	binary.BigEndian.PutUint16(b[2:], Csum(b))
	return b
}

func UDP(sport, dport uint16, payload []byte) []byte {
	b := make([]byte, 8, 8+len(payload))
	binary.BigEndian.PutUint16(b[0:], sport)
	binary.BigEndian.PutUint16(b[2:], dport)
	binary.BigEndian.PutUint16(b[4:], uint16(8+len(payload)))
	return append(b, payload...)
}

// ARPOpt describes an ARP body; the address slices are written verbatim after the 8 fixed bytes.
type ARPOpt struct {
	HType, PType uint16
	HLen, PLen   uint8
	Op           uint16
	Addrs        []byte // sha spa tha tpa concatenated (whatever lengths)
}

func ARP(o ARPOpt) []byte {
	b := make([]byte, 8, 8+len(o.Addrs))
	binary.BigEndian.PutUint16(b[0:], o.HType)
	binary.BigEndian.PutUint16(b[2:], o.PType)
	b[4], b[5] = o.HLen, o.PLen
	binary.BigEndian.PutUint16(b[6:], o.Op)
	return append(b, o.Addrs...)
}

// Cat concatenates into a fresh exact-capacity buffer.
func Cat(parts ...[]byte) []byte {
	n := 0
	for _, p := range parts {
		n += len(p)
	}
	b := make([]byte, 0, n)
	for _, p := range parts {
		b = append(b, p...)
	}
	return b
}

// Exact returns a copy of b whose capacity equals its length.
func Exact(b []byte) []byte {
	c := make([]byte, len(b))
	copy(c, b)
	return c
}

// Pad pads b with zero bytes to at least n bytes.
func Pad(b []byte, n int) []byte {
	for len(b) < n {
		b = append(b, 0)
	}
	return b
}

// Gen draws the random ingredients.
type Gen struct{ R *hlib.SplitMix64 }

func (g Gen) MAC() []byte { return g.R.Bytes(6) }
func (g Gen) IP4() (a [4]byte) {
	copy(a[:], g.R.Bytes(4))
	return
}
func (g Gen) U16() uint16 { return uint16(g.R.Uint64()) }
func (g Gen) U8() uint8   { return uint8(g.R.Uint64()) }

// Pick returns one of the values.
func Pick[T any](g Gen, vs ...T) T { return vs[g.R.Intn(len(vs))] }

// IPOptions returns a well-formed IPv4 option block of 0, 4 or 8 bytes (NOP/EOL/record-route style).
func (g Gen) IPOptions() []byte {
	switch g.R.Intn(6) {
	case 0:
		return []byte{1, 1, 1, 0}
	case 1:
		return []byte{7, 3, 4, 0} // record route, length 3, then EOL
	case 2:
		return []byte{1, 1, 1, 1, 0x94, 4, 0, 0} // NOPs + router alert
	case 3:
		return []byte{0x94, 4, 0, 0}
	}
	return nil
}

// TCPOptions returns a well-formed TCP option block (multiple of 4 bytes).
func (g Gen) TCPOptions() []byte {
	switch g.R.Intn(6) {
	case 0:
		return []byte{2, 4, 5, 0xb4}
	case 1:
		return []byte{2, 4, 5, 0xb4, 4, 2, 1, 3, 3, 7, 0, 0} // mss, sackperm, nop, wscale, eol
	case 2:
		return []byte{1, 1, 1, 0}
	case 3:
		return []byte{1, 1, 8, 10, 0, 0, 0, 1, 0, 0, 0, 2}
	}
	return nil
}

var (
	ouiOnce sync.Once
	ouis    [][3]byte
)

// OUIs returns the registered prefixes of gopacket's vendor table in a fixed order.
func OUIs() [][3]byte {
	ouiOnce.Do(func() {
		for k := range macs.ValidMACPrefixMap {
			ouis = append(ouis, k)
		}
		sort.Slice(ouis, func(i, j int) bool { return bytes.Compare(ouis[i][:], ouis[j][:]) < 0 })
	})
	return ouis
}

// SenderMAC draws a sender hardware address: with a registered OUI (vendor known), locally administered
// (bit 0x02 of the first byte set, no OUI), or random.
func (g Gen) SenderMAC() []byte {
	m := g.R.Bytes(6)
	switch g.R.Intn(10) {
	case 0, 1, 2, 3:
		o := OUIs()
		p := o[g.R.Intn(len(o))]
		copy(m, p[:])
	case 4, 5, 6:
		m[0] = m[0]&^1 | 2
	}
	return m
}
