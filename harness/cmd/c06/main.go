// Driver for C06 over the processors built with the library constructors (tcp.NewScanMethod,
// icmp.NewPacketProcessor, udp.NewScanMethod, arp.NewScanMethod); see lib.
package main

import (
	"context"
	"os"

	"github.com/google/gopacket/layers"
	"github.com/v-byte-cpu/sx/pkg/scan"
	"github.com/v-byte-cpu/sx/pkg/scan/arp"
	"github.com/v-byte-cpu/sx/pkg/scan/icmp"
	"github.com/v-byte-cpu/sx/pkg/scan/tcp"
	"github.com/v-byte-cpu/sx/pkg/scan/udp"
	"verifharness/cmd/c06/lib"
)

// SYN scan result filter as command/tcp_syn.go had it originally (the wiring is C03's business)
func synAck(pkt *layers.TCP) bool { return pkt.SYN && pkt.ACK }

func newProc(kind string, vpn bool) *lib.Proc {
	ctx, cancel := context.WithCancel(context.Background())
	rc := scan.NewResultChan(ctx, 64)
	pt := &lib.Proc{RC: rc, Cancel: cancel}
	switch kind {
	case "tcp":
		m := tcp.NewScanMethod(tcp.FlagsScanType, nil, rc, tcp.WithScanVPNmode(vpn))
		pt.P, pt.Out = m, m.Results()
	case "tcpsyn":
		m := tcp.NewScanMethod(tcp.SYNScanType, nil, rc, tcp.WithScanVPNmode(vpn),
			tcp.WithPacketFilterFunc(synAck), tcp.WithPacketFlagsFunc(tcp.EmptyFlags))
		pt.P, pt.Out = m, m.Results()
	case "icmp":
		m := icmp.NewPacketProcessor(icmp.ScanType, rc, vpn)
		pt.P, pt.Out = m, m.Results()
	case "udp":
		m := udp.NewScanMethod(nil, rc, vpn)
		pt.P, pt.Out = m, m.Results()
	case "arp":
		m := arp.NewScanMethod(nil, rc)
		pt.P, pt.Out = m, m.Results()
	default:
		panic("kind " + kind)
	}
	return pt
}

func main() {
	if len(os.Args) > 1 && os.Args[1] == "-engine" {
		engineStage(os.Args[2:])
		return
	}
	lib.Run(newProc, nil)
}
