package main

// Engine stage: the REAL scan.SetupPacketEngine (sender + receiver(s) + scan method, as every packet scan
// command composes them) over an in-memory packet source that hands out n distinct plain replies back to
// back (as a full rx ring does), GOMAXPROCS > 1.  Whatever the engine does with its reader(s), the records
// must be exactly one per frame, each carrying that frame's own fields.  After the source has handed out
// all frames the driver stops on a positive event (all n records seen) or after 1 s without a new record.

import (
	"context"
	"encoding/hex"
	"flag"
	"fmt"
	"io"
	"runtime"
	"sync"
	"time"

	"github.com/google/gopacket"
	"github.com/v-byte-cpu/sx/pkg/packet"
	"github.com/v-byte-cpu/sx/pkg/scan"
	"github.com/v-byte-cpu/sx/pkg/scan/arp"
	"github.com/v-byte-cpu/sx/pkg/scan/icmp"
	"github.com/v-byte-cpu/sx/pkg/scan/tcp"
	"github.com/v-byte-cpu/sx/pkg/scan/udp"
	"verifharness/cmd/c06/fr"
	"verifharness/hlib"
)

type memSource struct {
	mu     sync.Mutex
	frames [][]byte
	next   int
	ctx    context.Context
}

func (s *memSource) ReadPacketData() ([]byte, *gopacket.CaptureInfo, error) {
	s.mu.Lock()
	if s.next < len(s.frames) {
		f := s.frames[s.next]
		s.next++
		s.mu.Unlock()
		return fr.Exact(f), &gopacket.CaptureInfo{CaptureLength: len(f), Length: len(f)}, nil
	}
	s.mu.Unlock()
	<-s.ctx.Done() // nothing more on the wire
	return nil, nil, io.EOF
}

func (s *memSource) WritePacketData([]byte) error { return nil }

func (s *memSource) handedOut() bool {
	s.mu.Lock()
	defer s.mu.Unlock()
	return s.next >= len(s.frames)
}

type noProbes struct{}

func (noProbes) Packets(ctx context.Context, r *scan.Range) <-chan *packet.BufferData {
	ch := make(chan *packet.BufferData)
	close(ch)
	return ch
}

type engineOut struct {
	Engine  bool     `json:"engine"`
	Kind    string   `json:"kind"`
	N       int      `json:"n"`
	Procs   int      `json:"gomaxprocs"`
	Records int      `json:"records"`
	Foreign int      `json:"foreign"` // records that are no frame's record
	Dups    int      `json:"dups"`    // records beyond the first of a frame
	Missing int      `json:"missing"`
	Errors  int      `json:"errors"`
	Sample  []string `json:"sample,omitempty"` // first offending records
	Frames  []string `json:"frames,omitempty"` // hex of the first frames of the burst (all are built the same way)
	FrameOf string   `json:"frame_of,omitempty"`
	ErrText string   `json:"errtext,omitempty"`
}

// the i-th reply and the record it stands for
func engineFrame(kind string, i int) ([]byte, string) {
	src := [4]byte{10, byte(1 + i>>16), byte(i >> 8), byte(i)}
	ip := fmt.Sprintf("10.%d.%d.%d", 1+i>>16, i>>8&255, i&255)
	mac := []byte{2, 0, 0, byte(i >> 16), byte(i >> 8), byte(i)}
	eth := fr.Eth([]byte{2, 0, 0, 0, 0, 1}, mac, 0x0800)
	switch kind {
	case "tcp":
		port, fl := 1+i%65535, []uint16{0x12, 0x14, 0x11, 0x10, 0x04, 0x18}[i%6]
		p := fr.IP(fr.IPOpt{TotalLen: -1, TTL: 64, Proto: 6, Src: src}, fr.TCP(fr.TCPOpt{Sport: uint16(port), Dport: 9, Flags: fl}, nil))
		return fr.Cat(eth, p), fmt.Sprint(ip, " ", port, " ", map[uint16]string{0x12: "sa", 0x14: "ar", 0x11: "af", 0x10: "a", 0x04: "r", 0x18: "ap"}[fl])
	case "icmp", "udp":
		p := fr.IP(fr.IPOpt{TotalLen: -1, TTL: uint8(1 + i%250), Proto: 1, Src: src}, fr.ICMP(uint8(i%7)*2+1, uint8(i%13), 1, 1, nil))
		return fr.Cat(eth, p), fmt.Sprint(ip, " ", 1+i%250, " ", (i%7)*2+1, " ", i%13)
	}
	a := fr.ARP(fr.ARPOpt{HType: 1, PType: 0x0800, HLen: 6, PLen: 4, Op: 2, Addrs: fr.Cat(mac, src[:], make([]byte, 10))})
	return fr.Cat(fr.Eth([]byte{2, 0, 0, 0, 0, 1}, mac, 0x0806), a), fmt.Sprint(ip, " ", hex.EncodeToString(mac))
}

func resultKey(r scan.Result) string {
	switch x := r.(type) {
	case *tcp.ScanResult:
		return fmt.Sprint(x.IP, " ", x.Port, " ", x.Flags)
	case *icmp.ScanResult:
		if x.ICMP == nil {
			return x.IP + " nil"
		}
		return fmt.Sprint(x.IP, " ", x.TTL, " ", x.ICMP.Type, " ", x.ICMP.Code)
	case *arp.ScanResult:
		hw := ""
		for _, c := range x.MAC {
			if c != ':' {
				hw += string(c)
			}
		}
		return fmt.Sprint(x.IP, " ", hw)
	}
	return "?"
}

func runEngine(kind string, n int) engineOut {
	o := engineOut{Engine: true, Kind: kind, N: n, Procs: runtime.GOMAXPROCS(0)}
	ctx, cancel := context.WithCancel(context.Background())
	defer cancel()
	src := &memSource{ctx: ctx}
	want := map[string]int{}
	for i := 0; i < n; i++ {
		f, k := engineFrame(kind, i)
		src.frames = append(src.frames, f)
		want[k] = i
	}
	for i := 0; i < 3 && i < n; i++ {
		o.Frames = append(o.Frames, hex.EncodeToString(src.frames[i]))
	}
	rc := scan.NewResultChan(ctx, 1000)
	var m scan.PacketMethod
	switch kind {
	case "tcp":
		m = tcp.NewScanMethod(tcp.FlagsScanType, noProbes{}, rc)
	case "icmp":
		m = icmp.NewScanMethod(noProbes{}, rc, false)
	case "udp":
		m = udp.NewScanMethod(noProbes{}, rc, false)
	default:
		m = arp.NewScanMethod(noProbes{}, rc)
	}
	engine := scan.SetupPacketEngine(src, m)
	_, errc := engine.Start(ctx, &scan.Range{})
	got := map[string]int{}
	overall := time.After(120 * time.Second)
L:
	for o.Records < n || !src.handedOut() {
		var idle <-chan time.Time
		if src.handedOut() {
			idle = time.After(time.Second)
		}
		select {
		case r := <-engine.Results():
			o.Records++
			k := resultKey(r)
			got[k]++
			if _, ok := want[k]; !ok {
				o.Foreign++
				if len(o.Sample) < 4 {
					o.Sample = append(o.Sample, "record {"+k+"} is the record of no frame of the burst")
				}
			} else if got[k] > 1 {
				o.Dups++
				if len(o.Sample) < 4 {
					o.Sample = append(o.Sample, "record {"+k+"} appears more than once")
					o.FrameOf = hex.EncodeToString(src.frames[want[k]])
				}
			}
		case e := <-errc:
			if e != nil {
				o.Errors++
				o.ErrText = e.Error()
			}
		case <-idle:
			break L
		case <-overall:
			o.ErrText = "timeout"
			break L
		}
	}
	// a little grace for records beyond n (duplicates arrive late)
	grace := time.After(200 * time.Millisecond)
G:
	for {
		select {
		case r := <-engine.Results():
			o.Records++
			k := resultKey(r)
			got[k]++
			if _, ok := want[k]; !ok {
				o.Foreign++
			} else if got[k] > 1 {
				o.Dups++
			}
		case <-grace:
			break G
		}
	}
	for k := range want {
		if got[k] == 0 {
			o.Missing++
		}
	}
	return o
}

func engineStage(args []string) {
	fs := flag.NewFlagSet("engine", flag.ExitOnError)
	out := fs.String("out", "engine.jsonl", "output file")
	n := fs.Int("n", 20000, "frames per burst")
	fs.Parse(args)
	if runtime.GOMAXPROCS(0) < 4 {
		runtime.GOMAXPROCS(4)
	}
	w := hlib.NewOut(*out)
	defer w.Close()
	for _, kind := range []string{"tcp", "icmp", "udp", "arp"} {
		w.Put(runEngine(kind, *n))
	}
}
