// Driver for C11: runs the REAL ARP-cache path of sx and records what it does, for comparison with
// the Coq model (coq/Spec/C11.v) and for the property judged on the implementation alone ("spec").
//
//	iptext    net.IP(b).String()            mactext   net.HardwareAddr(b).String()
//	parseip   net.ParseIP(s)                parsemac  net.ParseMAC(s)
//	fill      arp.FillCache on a generated cache file, then Cache.Get on query addresses
//	chain     ARP reply frames -> arp.ScanMethod.ProcessPacketData -> JSON logger -> FillCache ->
//	          NewCacheRequestGenerator -> tcp/udp/icmp PacketFiller -> Ethernet destination
//	gw        ipScanCmdOpts.getGatewayMAC (hook command/verif_export_c11.go)
//	race      64 goroutines reading the loaded cache (meaningful when built with -race)
//	big       cache files of 65536 / 65537 / about 70000 / 131072 distinct addresses (more than a /16) through
//	          FillCache, then Get and NewCacheRequestGenerator + a filler for addresses at the edge positions
package main

import (
	"bufio"
	"bytes"
	"context"
	"encoding/hex"
	"encoding/json"
	"errors"
	"flag"
	"fmt"
	"net"
	"runtime"
	"strconv"
	"strings"
	"sync"
	"syscall"
	"time"

	"github.com/google/gopacket"
	"github.com/google/gopacket/layers"
	"github.com/v-byte-cpu/sx/command"
	"github.com/v-byte-cpu/sx/command/log"
	sxip "github.com/v-byte-cpu/sx/pkg/ip"
	"github.com/v-byte-cpu/sx/pkg/packet"
	"github.com/v-byte-cpu/sx/pkg/scan"
	"github.com/v-byte-cpu/sx/pkg/scan/arp"
	"github.com/v-byte-cpu/sx/pkg/scan/icmp"
	"github.com/v-byte-cpu/sx/pkg/scan/tcp"
	"github.com/v-byte-cpu/sx/pkg/scan/udp"
	"github.com/vishvananda/netlink"
	"verifharness/hlib"
)

type query struct {
	IP  string `json:"ip"`  // hex of the address bytes passed to Get
	MAC string `json:"mac"` // hex of what Get returned
	Hit bool   `json:"hit"`
}

type reply struct {
	IP     string `json:"ip"`
	MAC    string `json:"mac"`
	Vendor string `json:"vendor"`
}

type reqObs struct {
	Dst    string `json:"dst"`
	Port   int    `json:"port"`
	Err    bool   `json:"err"`
	DstMAC string `json:"dstmac"`
	Filler string `json:"filler"`
	EthDst string `json:"ethdst"` // first six bytes of the produced frame ("" = no frame)
	FillOK bool   `json:"fill_ok"`
}

type row struct {
	T          string `json:"t"`
	Gen        string `json:"gen"`
	Class      string `json:"class"`
	Spec       string `json:"spec"`
	Nontrivial bool   `json:"nontrivial"`
	// iptext / mactext / parseip / parsemac
	In  string `json:"in,omitempty"`
	Out string `json:"out,omitempty"`
	OK  bool   `json:"ok,omitempty"`
	// fill
	File    string  `json:"file,omitempty"`
	ErrKind int     `json:"errkind"` // 0 loaded, 1 bad JSON, 2 bad IP, 3 bad MAC, 4 line too long
	Queries []query `json:"queries,omitempty"`
	// chain
	Replies []reply  `json:"replies,omitempty"`
	Logged  string   `json:"logged,omitempty"`
	GW      string   `json:"gw,omitempty"`
	HasGW   bool     `json:"has_gw,omitempty"`
	Reqs    []reqObs `json:"reqs,omitempty"`
	// gw
	Flag     string `json:"flag,omitempty"`
	HasFlag  bool   `json:"has_flag,omitempty"`
	GwIP     string `json:"gwip,omitempty"`
	RouteErr bool   `json:"route_err,omitempty"`
	GotMAC   string `json:"gotmac,omitempty"`
	GotNil   bool   `json:"gotnil,omitempty"`
	// big (large cache file: only its construction and an excerpt are recorded, not the megabytes of text)
	Lines    int    `json:"lines,omitempty"`
	Distinct int    `json:"distinct,omitempty"`
	Excerpt  string `json:"excerpt,omitempty"`
}

func hx(b []byte) string { return hex.EncodeToString(b) }

// ---------------------------------------------------------------- generators of addresses and texts

func genIPBytes(r *hlib.SplitMix64) ([]byte, string) {
	switch r.Intn(10) {
	case 0:
		return r.Bytes(4), "v4"
	case 1:
		b := []byte{[]byte{0, 1, 9, 10, 99, 100, 199, 200, 255, 127}[r.Intn(10)], byte(r.Intn(256)), []byte{0, 10, 100, 255}[r.Intn(4)], byte(r.Intn(256))}
		return b, "v4-edges"
	case 2:
		b := append([]byte{0, 0, 0, 0, 0, 0, 0, 0, 0, 0, 0xff, 0xff}, r.Bytes(4)...)
		return b, "v4-mapped"
	case 3:
		return r.Bytes(16), "v6-random"
	case 4, 5: // zero runs of every shape
		b := r.Bytes(16)
		for k := 0; k < 1+r.Intn(3); k++ {
			st, ln := r.Intn(8), 1+r.Intn(8)
			for g := st; g < st+ln && g < 8; g++ {
				b[2*g], b[2*g+1] = 0, 0
			}
		}
		for g := 0; g < 8; g++ { // small groups: few hex digits
			if r.Intn(3) == 0 {
				b[2*g] = 0
				if r.Intn(2) == 0 {
					b[2*g+1] &= 0x0f
				}
			}
		}
		return b, "v6-zero-runs"
	case 6:
		b := make([]byte, 16)
		if r.Bool() {
			b[15] = byte(r.Intn(256))
		}
		if r.Intn(3) == 0 {
			b[0] = byte(r.Intn(256))
		}
		return b, "v6-mostly-zero"
	case 7: // almost mapped
		b := append([]byte{0, 0, 0, 0, 0, 0, 0, 0, 0, 0, 0xff, 0xff}, r.Bytes(4)...)
		b[r.Intn(12)] ^= byte(1 << uint(r.Intn(8)))
		return b, "v6-almost-mapped"
	case 8:
		return nil, "nil"
	default:
		n := 1 + r.Intn(20)
		if n == 4 || n == 16 {
			n++
		}
		return r.Bytes(n), "odd-length"
	}
}

func upperSome(r *hlib.SplitMix64, s string) string {
	b := []byte(s)
	for i := range b {
		if b[i] >= 'a' && b[i] <= 'f' && r.Bool() {
			b[i] -= 32
		}
	}
	return string(b)
}

func genIPText(r *hlib.SplitMix64) (string, string) {
	v4 := func() string { return net.IP(r.Bytes(4)).String() }
	switch r.Intn(16) {
	case 0, 1:
		return v4(), "dotted"
	case 2:
		return fmt.Sprintf("%d.%d.%d.%d", r.Intn(300), r.Intn(256), r.Intn(256), r.Intn(300)), "dotted-range"
	case 3:
		return fmt.Sprintf("%02d.%d.%03d.%d", r.Intn(100), r.Intn(256), r.Intn(256), r.Intn(256)), "dotted-leading-zero"
	case 4:
		return []string{"1.2.3", "1.2.3.4.5", "1..2.3", ".1.2.3", "1.2.3.", "1.2.3.4 ", " 1.2.3.4", "1.2.3.a", "", "1", "....", "1.2.3.4.", "0.0.0.0", "255.255.255.255", "256.1.1.1", "1.2.3.256", "00.0.0.0", "0.00.0.0", "1.2.3.4/24", "1.2.3.-4", "+1.2.3.4", "1.2.3.4\n", "0x1.2.3.4", "1.2.3.4%eth0"}[r.Intn(24)], "dotted-malformed"
	case 5:
		return "::ffff:" + v4(), "mapped-dotted"
	case 6:
		b := r.Bytes(4)
		return fmt.Sprintf("::ffff:%x:%x", int(b[0])<<8|int(b[1]), int(b[2])<<8|int(b[3])), "mapped-hex"
	case 7:
		b, _ := genIPBytes(hlib.NewRand(r.Int63()))
		for len(b) != 16 {
			b = r.Bytes(16)
		}
		return upperSome(r, net.IP(b).String()), "v6-canonical"
	case 8: // expanded, with leading zeros
		b := r.Bytes(16)
		var parts []string
		for g := 0; g < 8; g++ {
			parts = append(parts, fmt.Sprintf([]string{"%x", "%04x", "%02x", "%03x"}[r.Intn(4)], int(b[2*g])<<8|int(b[2*g+1])))
		}
		return strings.Join(parts, ":"), "v6-expanded"
	case 9: // ellipsis at a random place of a short group list
		n := r.Intn(8)
		var parts []string
		for g := 0; g < n; g++ {
			parts = append(parts, fmt.Sprintf("%x", r.Intn(65536)))
		}
		p := r.Intn(n + 1)
		return strings.Join(parts[:p], ":") + "::" + strings.Join(parts[p:], ":"), "v6-ellipsis"
	case 10: // embedded IPv4 tail at various places
		n := r.Intn(7)
		var parts []string
		for g := 0; g < n; g++ {
			parts = append(parts, fmt.Sprintf("%x", r.Intn(65536)))
		}
		s := strings.Join(parts, ":")
		switch r.Intn(3) {
		case 0:
			s += "::" + v4()
		case 1:
			s = "::" + s + ":" + v4()
		default:
			s += ":" + v4()
		}
		return s, "v6-embedded-v4"
	case 11:
		return []string{"::", "::1", "1::", ":", ":::", "1:::2", "1::2::3", "1:2:3:4:5:6:7:8", "1:2:3:4:5:6:7:8:9", "1:2:3:4:5:6:7", "1:2:3:4:5:6:7::", "::1:2:3:4:5:6:7", "::1:2:3:4:5:6:7:8",
			"1:2:3:4:5:6:7:8::", "12345::", "1:2:3:4:5:6:1.2.3.4", "1:2:3:4:5:6:7:1.2.3.4", "1:2:3:4:5:1.2.3.4", "::1.2.3.4", "::1.2.3", "fe80::1%eth0", "fe80::1%", "%eth0", "::g", "1:2", ":1", "1:", "::ffff:1.2.3.04",
			"::ffff:1.2.3.4.5", "0:0:0:0:0:ffff:102:304", "::FFFF:1.2.3.4", "1.2.3.4::", "::1.2.3.4:5", "0::0", "00000::"}[r.Intn(35)], "v6-corner"
	case 12:
		return string(r.Bytes(1 + r.Intn(12))), "random-bytes"
	case 13: // characters from the alphabet
		n := 1 + r.Intn(20)
		b := make([]byte, n)
		for i := range b {
			b[i] = "0123456789abcdefABCDEF:.%"[r.Intn(25)]
		}
		return string(b), "alphabet"
	case 14:
		return fmt.Sprintf("%d.%d.%d.%d", []int{0, 1, 9, 10, 99, 100, 255}[r.Intn(7)], r.Intn(256), []int{0, 1, 9, 10, 99, 100, 255}[r.Intn(7)], r.Intn(256)), "dotted-edges"
	default:
		return v4() + []string{"", ".", ":", "%", "0"}[r.Intn(5)], "dotted-suffix"
	}
}

func macText(r *hlib.SplitMix64, b []byte, form int) string {
	var s string
	switch form {
	case 0:
		s = net.HardwareAddr(b).String()
	case 1:
		s = strings.ReplaceAll(net.HardwareAddr(b).String(), ":", "-")
	default:
		var parts []string
		for i := 0; i+1 < len(b); i += 2 {
			parts = append(parts, fmt.Sprintf("%02x%02x", b[i], b[i+1]))
		}
		s = strings.Join(parts, ".")
	}
	return upperSome(r, s)
}

func genMACText(r *hlib.SplitMix64) (string, string) {
	lens := []int{6, 8, 20}
	switch r.Intn(8) {
	case 0, 1, 2:
		f := r.Intn(3)
		return macText(r, r.Bytes(lens[r.Intn(3)]), f), []string{"colon", "dash", "dotted"}[f]
	case 3:
		n := []int{1, 2, 4, 5, 7, 9, 10, 16, 19, 21, 22}[r.Intn(11)]
		return macText(r, r.Bytes(n), r.Intn(3)), "wrong-length"
	case 4: // damage a valid one
		s := []byte(macText(r, r.Bytes(lens[r.Intn(3)]), r.Intn(3)))
		p := r.Intn(len(s))
		switch r.Intn(3) {
		case 0:
			s[p] = "g:-. z0"[r.Intn(7)]
		case 1:
			s = append(s[:p:p], s[p+1:]...)
		default:
			s = append(s[:p:p], append([]byte{"0:-.a"[r.Intn(5)]}, s[p:]...)...)
		}
		return string(s), "damaged"
	case 5:
		return []string{"", "00:11:22:33:44", "00:11:22:33:44:55:", ":00:11:22:33:44:55", "00:11:22-33:44:55", "0011.2233.4455.", "0011.2233:4455", "001122334455", "00:11:22:33:44:5", "00:11:22:33:44:555",
			"0:1:2:3:4:5:6:7", "00-11-22-33-44-55", "00.11.22.33.44.55", "0011-2233-4455", "00:11:22:33:44:55:66:77", "0011.2233.4455.6677"}[r.Intn(16)], "corner"
	case 6:
		return string(r.Bytes(14 + r.Intn(10))), "random-bytes"
	default:
		return net.HardwareAddr(r.Bytes(6)).String(), "canonical"
	}
}

// ---------------------------------------------------------------- single-function cases

func ipTextCase(r *hlib.SplitMix64, gen string) row {
	b, class := genIPBytes(r)
	s := net.IP(b).String()
	rw := row{T: "iptext", Gen: gen, Class: class, In: hx(b), Out: hx([]byte(s)), Nontrivial: len(b) == 4 || len(b) == 16}
	// property side: what is printed for a 4- or 16-byte address parses back to the same address
	if len(b) == 4 || len(b) == 16 {
		back := net.ParseIP(s)
		if back == nil || !back.Equal(net.IP(b)) {
			rw.Spec = fmt.Sprintf("the printed address %q does not parse back to the address", s)
		}
	}
	return rw
}

func macTextCase(r *hlib.SplitMix64, gen string) row {
	n := []int{6, 6, 6, 0, 1, 2, 8, 20, 3, 5, 7}[r.Intn(11)]
	b := r.Bytes(n)
	s := net.HardwareAddr(b).String()
	rw := row{T: "mactext", Gen: gen, Class: "len" + strconv.Itoa(n), In: hx(b), Out: hx([]byte(s)), Nontrivial: n == 6}
	if n == 6 {
		back, err := net.ParseMAC(s)
		if err != nil || !bytes.Equal(back, b) {
			rw.Spec = fmt.Sprintf("the printed MAC %q does not parse back", s)
		}
	}
	return rw
}

func parseIPCase(r *hlib.SplitMix64, gen string) row {
	s, class := genIPText(r)
	ip := net.ParseIP(s)
	rw := row{T: "parseip", Gen: gen, Class: class, In: hx([]byte(s)), OK: ip != nil, Out: hx(ip), Nontrivial: ip != nil}
	if ip != nil && len(ip) != 16 {
		rw.Spec = "net.ParseIP returned a value that is not 16 bytes long"
	}
	return rw
}

func parseMACCase(r *hlib.SplitMix64, gen string) row {
	s, class := genMACText(r)
	m, err := net.ParseMAC(s)
	return row{T: "parsemac", Gen: gen, Class: class, In: hx([]byte(s)), OK: err == nil, Out: hx(m), Nontrivial: err == nil}
}

// ---------------------------------------------------------------- cache files

func errKind(err error) int {
	var ae *net.AddrError
	switch {
	case err == nil:
		return 0
	case errors.Is(err, bufio.ErrTooLong):
		return 4
	case err.Error() == "invalid IP":
		return 2
	case errors.As(err, &ae):
		return 3
	default:
		return 1
	}
}

type entry struct {
	ip  net.IP // 16-byte
	mac net.HardwareAddr
}

func jsonString(r *hlib.SplitMix64, s string) string {
	// a JSON string literal for s, sometimes with \u escapes for plain characters
	var sb strings.Builder
	sb.WriteByte('"')
	for _, c := range []byte(s) {
		if r.Intn(12) == 0 {
			fmt.Fprintf(&sb, `\u%04x`, c)
		} else if c == '"' || c == '\\' {
			sb.WriteByte('\\')
			sb.WriteByte(c)
		} else {
			sb.WriteByte(c)
		}
	}
	sb.WriteByte('"')
	return sb.String()
}

// genLine produces one valid cache line and the binding it must create.
func genLine(r *hlib.SplitMix64, pool [][]byte) (string, entry, string) {
	ip4 := pool[r.Intn(len(pool))]
	mac := r.Bytes(6)
	e := entry{ip: net.IP(ip4).To16(), mac: mac}
	switch r.Intn(8) {
	case 0, 1, 2: // exactly what the ARP scan prints
		res := &arp.ScanResult{IP: net.IP(ip4).String(), MAC: net.HardwareAddr(mac).String(), Vendor: []string{"", "Apple, Inc.", "D&M Holdings <Inc.>", "Hon Hai \"Precision\""}[r.Intn(4)]}
		b, _ := res.MarshalJSON()
		return string(b), e, "as-printed"
	default:
		ipt := net.IP(ip4).String()
		class := "v4-spelling"
		switch r.Intn(5) {
		case 0:
			ipt = "::ffff:" + ipt
			class = "mapped-spelling"
		case 1:
			ipt = fmt.Sprintf("::FFFF:%x:%x", int(ip4[0])<<8|int(ip4[1]), int(ip4[2])<<8|int(ip4[3]))
			class = "mapped-hex-spelling"
		case 2:
			ipt = fmt.Sprintf("0:0:0:0:0:ffff:%x:%x", int(ip4[0])<<8|int(ip4[1]), int(ip4[2])<<8|int(ip4[3]))
			class = "mapped-expanded-spelling"
		}
		lens := []int{6, 6, 6, 8, 20}
		if n := lens[r.Intn(5)]; n != 6 {
			mac = r.Bytes(n)
			e.mac = mac
		}
		mact := macText(r, mac, r.Intn(3))
		ws := func() string { return []string{"", "", " ", "\t", "  "}[r.Intn(5)] }
		members := []string{
			ws() + jsonString(r, "ip") + ws() + ":" + ws() + jsonString(r, ipt),
			ws() + jsonString(r, "mac") + ws() + ":" + ws() + jsonString(r, mact),
		}
		extras := []string{`"vendor":"x"`, `"vendor":null`, `"extra":{"a":[1,2,{"b":null}],"c":"d"}`, `"n":12.5e3`, `"t":true`, `"ip2":"9.9.9.9"`, `"IP":"8.8.8.8"`, `"mac":null`, `"ip":null`, `"":""`, `"arr":[]`, `"o":{}`, `"s":"😀\n"`}
		for k := 0; k < r.Intn(4); k++ {
			members = append(members, ws()+extras[r.Intn(len(extras))])
			class = "extra-members"
		}
		// an earlier duplicate of ip/mac that must lose against the later one
		if r.Intn(5) == 0 {
			members = append([]string{`"ip":"7.7.7.7"`, `"mac":"77:77:77:77:77:77"`}[r.Intn(2):r.Intn(2)+1], members...)
			class = "duplicate-members"
		} else {
			for i := len(members) - 1; i > 0; i-- {
				j := r.Intn(i + 1)
				members[i], members[j] = members[j], members[i]
			}
			// a shuffled `"ip":null` / `"mac":null` never overrides; but "ip2"/"IP" are other keys
		}
		return ws() + "{" + strings.Join(members, ",") + ws() + "}" + ws(), e, class
	}
}

func genBadLine(r *hlib.SplitMix64) (string, int, string) {
	switch r.Intn(9) {
	case 0:
		return `{"ip":"1.2.3.400","mac":"00:11:22:33:44:55"}`, 2, "bad-ip"
	case 1:
		return `{"mac":"00:11:22:33:44:55"}`, 2, "missing-ip"
	case 2:
		return `{"ip":"1.2.3.4","mac":"00:11:22:33:44"}`, 3, "bad-mac"
	case 3:
		return `{"ip":"1.2.3.4"}`, 3, "missing-mac"
	case 4:
		return `{"ip":5,"mac":"00:11:22:33:44:55"}`, 1, "ip-not-a-string"
	case 5:
		return `garbage`, 1, "not-json"
	case 6:
		return `{"ip":"1.2.3.4","mac":"00:11:22:33:44:55"`, 1, "truncated"
	case 7:
		return `null`, 2, "null-line"
	default:
		return `{"ip":"fe80::1%eth0","mac":"00:11:22:33:44:55"}`, 2, "zone"
	}
}

func fillCase(r *hlib.SplitMix64, gen string) row {
	npool := 1 + r.Intn(6)
	var pool [][]byte
	for i := 0; i < npool; i++ {
		pool = append(pool, []byte{10, byte(r.Intn(2)), byte(r.Intn(3)), byte(r.Intn(256))})
	}
	n := r.Intn(10)
	var file bytes.Buffer
	var ents []entry
	classes := map[string]bool{}
	badAt, badKind := -1, 0
	if r.Intn(4) == 0 {
		badAt = r.Intn(n + 1)
	}
	crlf := r.Intn(5) == 0
	for i := 0; i <= n; i++ {
		if i == badAt {
			s, k, c := genBadLine(r)
			badKind = k
			classes[c] = true
			file.WriteString(s)
		} else if i == n {
			break
		} else {
			s, e, c := genLine(r, pool)
			classes[c] = true
			ents = append(ents, e)
			file.WriteString(s)
		}
		if i == n-1 && badAt != n && r.Intn(4) == 0 {
			classes["unterminated-last-line"] = true
			break
		}
		if crlf {
			file.WriteString("\r\n")
			classes["crlf"] = true
		} else {
			file.WriteString("\n")
		}
	}
	if r.Intn(30) == 0 {
		// one long line in front: clearly overlong, or exactly at the scanner's limit (65535 raw bytes
		// still load, 65536 do not; a CR counts)
		head, tail := `{"ip":"10.0.0.1","mac":"00:11:22:33:44:55","vendor":"`, `"}`
		eol := "\n"
		if r.Intn(3) == 0 {
			eol = "\r\n"
		}
		raw := 65536 + r.Intn(100) // raw length of the line incl. a CR
		switch r.Intn(3) {
		case 0:
			raw = 65535
		case 1:
			raw = 65536
		}
		pad := raw - len(head) - len(tail) - (len(eol) - 1)
		long := head + strings.Repeat("x", pad) + tail + eol
		file = *bytes.NewBuffer(append([]byte(long), file.Bytes()...))
		if raw >= 65536 {
			classes["overlong-line"] = true
			badAt, badKind = 0, 4
		} else {
			classes["longest-line"] = true
			ents = append([]entry{{ip: net.IP{10, 0, 0, 1}.To16(), mac: net.HardwareAddr{0, 0x11, 0x22, 0x33, 0x44, 0x55}}}, ents...)
			pool = append(pool, []byte{10, 0, 0, 1})
		}
	}
	cache := arp.NewCache()
	err := arp.FillCache(cache, bytes.NewReader(file.Bytes()))
	var cl []string
	for c := range classes {
		cl = append(cl, c)
	}
	sortStrings(cl)
	rw := row{T: "fill", Gen: gen, Class: strings.Join(cl, "+"), File: hx(file.Bytes()), ErrKind: errKind(err), Nontrivial: err == nil && len(ents) > 0}
	// queries: every pool address in both forms, plus strangers
	var qs [][]byte
	for _, p := range pool {
		qs = append(qs, p, net.IP(p).To16())
	}
	qs = append(qs, []byte{10, 9, 9, 9}, net.ParseIP("2001:db8::1"), net.ParseIP("::10.0.0.1"), nil, []byte{7, 7, 7, 7})
	for _, q := range qs {
		m := cache.Get(net.IP(q))
		rw.Queries = append(rw.Queries, query{IP: hx(q), MAC: hx(m), Hit: m != nil})
	}
	// the property on the implementation alone: a file of good lines loads, and every address maps to
	// the MAC of its LAST line (in both address forms); a bad line makes the load fail
	if badAt >= 0 {
		if err == nil {
			rw.Spec = "a cache file with a bad line was loaded without error"
		} else if rw.ErrKind != badKind {
			// only the class of the error is compared, and only informational for the property
		}
		return rw
	}
	if err != nil {
		rw.Spec = "a cache file of valid lines is rejected: " + err.Error()
		return rw
	}
	for _, p := range pool {
		var want net.HardwareAddr
		for _, e := range ents {
			if e.ip.Equal(net.IP(p)) {
				want = e.mac
			}
		}
		for _, form := range []net.IP{net.IP(p), net.IP(p).To16()} {
			got := cache.Get(form)
			if !bytes.Equal(got, want) {
				rw.Spec = fmt.Sprintf("address %s (%d-byte form) maps to %s, the last line for it says %s", net.IP(p), len(form), got, want)
				return rw
			}
		}
	}
	return rw
}

func sortStrings(l []string) {
	for i := 1; i < len(l); i++ {
		for j := i; j > 0 && l[j] < l[j-1]; j-- {
			l[j], l[j-1] = l[j-1], l[j]
		}
	}
}

// ---------------------------------------------------------------- the composition

type listGen struct{ reqs []*scan.Request }

func (g *listGen) GenerateRequests(ctx context.Context, _ *scan.Range) (<-chan *scan.Request, error) {
	ch := make(chan *scan.Request, len(g.reqs))
	for _, r := range g.reqs {
		ch <- r
	}
	close(ch)
	return ch, nil
}

type bufWriter struct {
	mu sync.Mutex
	b  bytes.Buffer
}

func (w *bufWriter) Write(p []byte) (int, error) {
	w.mu.Lock()
	defer w.mu.Unlock()
	return w.b.Write(p)
}

var ouis = [][]byte{{0xb0, 0xbe, 0x76}, {0x80, 0xc5, 0xf2}, {0x88, 0x53, 0x95}, {0x00, 0x00, 0x0c}, {0x00, 0x1b, 0xc5}, {0xfc, 0xfb, 0xfb}, {0x00, 0x50, 0x56}}

func arpReplyFrame(srcMAC, srcIP, dstMAC, dstIP []byte, op uint16) []byte {
	eth := &layers.Ethernet{SrcMAC: srcMAC, DstMAC: dstMAC, EthernetType: layers.EthernetTypeARP}
	a := &layers.ARP{AddrType: layers.LinkTypeEthernet, Protocol: layers.EthernetTypeIPv4, HwAddressSize: 6, ProtAddressSize: 4,
		Operation: op, SourceHwAddress: srcMAC, SourceProtAddress: srcIP, DstHwAddress: dstMAC, DstProtAddress: dstIP}
	buf := gopacket.NewSerializeBuffer()
	if err := gopacket.SerializeLayers(buf, gopacket.SerializeOptions{}, eth, a); err != nil {
		panic(err)
	}
	out := append([]byte{}, buf.Bytes()...)
	return out
}

// oddARPFrame hand-builds an Ethernet frame carrying an ARP packet that is (mostly) NOT a well-formed
// Ethernet/IPv4 ARP packet: address sizes other than 6/4 with types that agree or disagree with them,
// truncations, trailers.  wellFormed tells whether the packet still is a complete ARP packet with 6-byte
// hardware and 4-byte protocol addresses (then it is reported like any other; only a trailer was added).
func oddARPFrame(r *hlib.SplitMix64, mac, ip, myMAC, myIP []byte, op uint16) (frame []byte, desc string, wellFormed bool) {
	htype, ptype := uint16(1), uint16(0x0800)
	hlen, plen := 6, 4
	kind := r.Intn(7)
	switch kind {
	case 0: // sizes wrong, types claim Ethernet/IPv4
		hlen = []int{0, 1, 3, 4, 5, 7, 8, 16, 20}[r.Intn(9)]
	case 1:
		plen = []int{0, 1, 3, 5, 6, 8, 16}[r.Intn(7)]
	case 2:
		hlen, plen = []int{4, 8, 20}[r.Intn(3)], []int{6, 16}[r.Intn(2)]
	case 3: // sizes and types agree with another link/protocol
		switch r.Intn(3) {
		case 0:
			htype, hlen = 32, 20 // InfiniBand
		case 1:
			ptype, plen = 0x86dd, 16
		default:
			htype, hlen, ptype, plen = 27, 8, 0x86dd, 16 // EUI-64
		}
	case 4, 5, 6: // well-formed sizes; truncated (4), long trailer (5), cut inside the Ethernet header (6)
	}
	sha, spa := make([]byte, hlen), make([]byte, plen)
	copy(sha, mac)
	copy(spa, ip)
	if hlen > 6 {
		copy(sha[6:], r.Bytes(hlen-6))
	}
	if plen > 4 {
		copy(spa[4:], r.Bytes(plen-4))
	}
	tha, tpa := make([]byte, hlen), make([]byte, plen)
	copy(tha, myMAC)
	copy(tpa, myIP)
	f := append([]byte{}, myMAC...)
	f = append(f, mac...)
	f = append(f, 0x08, 0x06, byte(htype>>8), byte(htype), byte(ptype>>8), byte(ptype), byte(hlen), byte(plen), byte(op>>8), byte(op))
	f = append(f, sha...)
	f = append(f, spa...)
	f = append(f, tha...)
	f = append(f, tpa...)
	desc = fmt.Sprintf("htype=%d ptype=%#04x hlen=%d plen=%d", htype, ptype, hlen, plen)
	switch kind {
	case 4:
		cut := 14 + r.Intn(len(f)-14)
		f = f[:cut]
		desc += fmt.Sprintf(" truncated to %d bytes", cut)
	case 5:
		f = append(f, r.Bytes(1+r.Intn(40))...)
		desc += " with trailer"
		wellFormed = true
	case 6:
		cut := r.Intn(14)
		f = f[:cut]
		desc += fmt.Sprintf(" truncated to %d bytes", cut)
	default:
		if r.Intn(3) == 0 && len(f) < 60 {
			f = append(f, make([]byte, 60-len(f))...)
		}
	}
	return f, desc, wellFormed
}

func chainCase(r *hlib.SplitMix64, gen string) row {
	rw := row{T: "chain", Gen: gen, Class: "chain"}
	ctx, cancel := context.WithCancel(context.Background())
	defer cancel()
	// 1. ARP replies seen by the ARP scan
	npool := 1 + r.Intn(6)
	var pool [][]byte
	for i := 0; i < npool; i++ {
		pool = append(pool, []byte{192, 168, byte(r.Intn(2)), byte(1 + r.Intn(250))})
	}
	nrep := r.Intn(8)
	results := scan.NewResultChan(ctx, 100)
	sm := arp.NewScanMethod(nil, results)
	myMAC, myIP := []byte{2, 0, 0, 0, 0, 1}, []byte{192, 168, 0, 254}
	type bind struct{ ip, mac []byte }
	var binds []bind
	odd := r.Intn(5) < 2 // two chains in five also see frames that are NOT well-formed Ethernet/IPv4 ARP packets
	if odd {
		rw.Class = "chain+odd-frames"
	}
	var oddDesc []string
	for i := 0; i < nrep; i++ {
		ip := pool[r.Intn(npool)]
		mac := r.Bytes(6)
		if r.Intn(3) > 0 {
			copy(mac, ouis[r.Intn(len(ouis))])
		}
		if r.Intn(5) == 0 {
			// odd but valid sender addresses: whatever the scan printed for a host is that host's cache entry
			mac = append([]byte{}, [][]byte{{0, 0, 0, 0, 0, 0}, {0xff, 0xff, 0xff, 0xff, 0xff, 0xff}, {0x01, 0x00, 0x5e, 0x00, 0x00, 0xfb},
				{0x33, 0x33, 0, 0, 0, 1}, {0, 0, 0, 0, 0, 1}, {0x02, 0, 0, 0, 0, 0}}[r.Intn(6)]...)
			if !strings.Contains(rw.Class, "special-macs") {
				rw.Class += "+special-macs"
			}
		}
		op := uint16(layers.ARPReply)
		if r.Intn(6) == 0 {
			op = layers.ARPRequest // the ARP scan reports requests it overhears as well
		}
		if odd && r.Intn(2) == 0 {
			frame, desc, wellFormed := oddARPFrame(r, mac, ip, myMAC, myIP, op)
			_ = sm.ProcessPacketData(frame, nil) // an error is as good as silence here
			if wellFormed {
				binds = append(binds, bind{ip, mac})
			} else {
				oddDesc = append(oddDesc, desc)
			}
			continue
		}
		frame := arpReplyFrame(mac, ip, myMAC, myIP, op)
		if r.Intn(3) == 0 { // Ethernet padding to the minimum frame size
			frame = append(frame, make([]byte, 60-len(frame))...)
		}
		if err := sm.ProcessPacketData(frame, nil); err != nil {
			rw.Spec = "the ARP processor rejects a well-formed ARP frame: " + err.Error()
			return rw
		}
		binds = append(binds, bind{ip, mac})
	}
	// a sentinel reply closes the sequence: the result channel is a FIFO, so everything reported for the
	// frames above comes out before it
	sentMAC, sentIP := []byte{2, 0xfe, 0xfe, 0xfe, 0xfe, 0xfe}, []byte{192, 168, 255, 254}
	if err := sm.ProcessPacketData(arpReplyFrame(sentMAC, sentIP, myMAC, myIP, layers.ARPReply), nil); err != nil {
		rw.Spec = "the ARP processor rejects a well-formed ARP frame: " + err.Error()
		return rw
	}
	var got []scan.Result
	for {
		var x scan.Result
		select {
		case x = <-results.Chan():
		case <-time.After(5 * time.Second):
			rw.Spec = fmt.Sprintf("the ARP processor reported %d results and then nothing for a well-formed reply", len(got))
			return rw
		}
		if a, ok := x.(*arp.ScanResult); ok && a.IP == net.IP(sentIP).String() && a.MAC == net.HardwareAddr(sentMAC).String() {
			break
		}
		got = append(got, x)
		if len(got) > nrep+4 {
			break
		}
	}
	for i, b := range binds {
		vendor := ""
		if i < len(got) {
			if a, ok := got[i].(*arp.ScanResult); ok {
				vendor = a.Vendor
			}
		}
		rw.Replies = append(rw.Replies, reply{IP: hx(b.ip), MAC: hx(b.mac), Vendor: hx([]byte(vendor))})
	}
	// the property on the implementation alone: exactly the well-formed frames are reported, each with its own
	// sender address and MAC, in order; anything else prints nothing
	for i := 0; i < len(got) || i < len(binds); i++ {
		var line string
		if i < len(got) {
			enc, _ := got[i].MarshalJSON()
			line = string(enc)
		}
		switch {
		case i >= len(got):
			rw.Spec = fmt.Sprintf("the well-formed ARP frame of %s (%s) is not reported", net.IP(binds[i].ip), net.HardwareAddr(binds[i].mac))
		case i >= len(binds):
			rw.Spec = fmt.Sprintf("the ARP scan prints %s although only %d well-formed Ethernet/IPv4 ARP frames were seen; odd frames in the sequence: %s", line, len(binds), strings.Join(oddDesc, "; "))
		default:
			a, ok := got[i].(*arp.ScanResult)
			if !ok || a.IP != net.IP(binds[i].ip).String() || a.MAC != net.HardwareAddr(binds[i].mac).String() {
				rw.Spec = fmt.Sprintf("the ARP scan prints %s where the well-formed frame of %s (%s) is due; odd frames in the sequence: %s", line, net.IP(binds[i].ip), net.HardwareAddr(binds[i].mac), strings.Join(oddDesc, "; "))
			} else {
				continue
			}
		}
		break
	}
	// 2. JSON logger
	w := &bufWriter{}
	lg, err := log.NewLogger(w, "arp", log.JSON())
	if err != nil {
		panic(err)
	}
	ch := make(chan scan.Result)
	done := make(chan struct{})
	go func() { lg.LogResults(ctx, ch); close(done) }()
	// one chain in three: the scan also LOGS ERRORS while it prints results (unreadable frame, send
	// failure, ...), through the same logger object as the commands do.  Error records belong on the
	// diagnostic stream; standard output is the ARP cache file of the next command.
	nerr := 0
	logErr := func() {
		if r.Intn(3) == 0 {
			lg.Error(fmt.Errorf("%s", []string{"read packet: network is down", "send: no buffer space available", "invalid \"frame\" {\"ip\":\"6.6.6.6\"}"}[r.Intn(3)]))
			nerr++
		}
	}
	withErrors := r.Intn(3) == 0
	for _, x := range got {
		if withErrors {
			logErr()
		}
		ch <- x
	}
	if withErrors {
		logErr()
		rw.Class += "+logged-errors"
	}
	close(ch)
	<-done
	logged := append([]byte{}, w.b.Bytes()...)
	if nerr > 0 && rw.Spec == "" {
		// judged on the implementation alone: standard output holds result records only
		lines := bytes.Split(bytes.TrimSuffix(logged, []byte{'\n'}), []byte{'\n'})
		if len(logged) == 0 {
			lines = nil
		}
		for i, ln := range lines {
			var rec map[string]interface{}
			hasIP := false
			if json.Unmarshal(ln, &rec) == nil {
				_, hasIP = rec["ip"]
			}
			if !hasIP || len(lines) != len(got) {
				rw.Spec = fmt.Sprintf("%d results printed and %d errors logged through the ARP scan's logger: standard output (the ARP cache file of the next command) has %d lines; line %d is not a result record: %s",
					len(got), nerr, len(lines), i+1, ln)
				if hasIP {
					continue
				}
				break
			}
		}
	}
	rw.Logged = hx(logged)
	// 3. the IP-level scan loads it
	cache := arp.NewCache()
	if err := arp.FillCache(cache, bytes.NewReader(logged)); err != nil {
		first := rw.Spec
		rw.Spec = "the output of the ARP scan is rejected by the ARP-cache loader: " + err.Error()
		if first != "" {
			rw.Spec = first + "; and " + rw.Spec
		} else {
			rw.Spec += "; output: " + strings.TrimSpace(string(logged))
		}
		rw.ErrKind = errKind(err)
		return rw
	}
	// 4. requests through the cache stage and the fillers
	var gw net.HardwareAddr
	if r.Intn(3) > 0 {
		gw = r.Bytes(6)
		rw.GW, rw.HasGW = hx(gw), true
	}
	nreq := 1 + r.Intn(8)
	lg2 := &listGen{}
	for i := 0; i < nreq; i++ {
		var dst []byte
		if r.Intn(3) > 0 {
			dst = pool[r.Intn(npool)]
		} else {
			dst = []byte{192, 168, byte(r.Intn(3)), byte(r.Intn(256))}
		}
		d := net.IP(append([]byte{}, dst...))
		if r.Intn(3) == 0 {
			d = d.To16()
		}
		lg2.reqs = append(lg2.reqs, &scan.Request{SrcIP: net.IP(myIP), DstIP: d, SrcMAC: myMAC, DstPort: uint16(1 + r.Intn(65535))})
	}
	out, err := arp.NewCacheRequestGenerator(lg2, gw, cache).GenerateRequests(ctx, &scan.Range{})
	if err != nil {
		panic(err)
	}
	fillers := []struct {
		name string
		f    scan.PacketFiller
	}{{"tcp", tcp.NewPacketFiller(tcp.WithSYN())}, {"udp", udp.NewPacketFiller()}, {"icmp", icmp.NewPacketFiller(icmp.WithType(8))}}
	i := 0
	for rq := range out {
		o := reqObs{Dst: hx(rq.DstIP), Port: int(rq.DstPort), Err: rq.Err != nil, DstMAC: hx(rq.DstMAC)}
		if rq.Err == nil {
			fl := fillers[r.Intn(len(fillers))]
			o.Filler = fl.name
			buf := gopacket.NewSerializeBuffer()
			if err := fl.f.Fill(buf, rq); err == nil {
				o.FillOK = true
				if b := buf.Bytes(); len(b) >= 14 {
					o.EthDst = hx(b[:6])
				}
			}
		}
		rw.Reqs = append(rw.Reqs, o)
		// the property on the implementation alone
		var want net.HardwareAddr
		for _, b := range binds {
			if net.IP(b.ip).Equal(rq.DstIP) {
				want = b.mac
			}
		}
		if want == nil {
			want = gw
		}
		switch {
		case want == nil && rq.Err == nil:
			rw.Spec = fmt.Sprintf("probe for %s has no cache entry and no gateway MAC but was not replaced by an error", rq.DstIP)
		case want != nil && rq.Err != nil:
			rw.Spec = fmt.Sprintf("probe for %s was replaced by an error although a MAC is known", rq.DstIP)
		case want != nil && !bytes.Equal(rq.DstMAC, want):
			note := ""
			if gw != nil && bytes.Equal(rq.DstMAC, gw) {
				note = " (that is the gateway MAC; the host has a cache entry of its own, from the line the ARP scan printed for it)"
			}
			rw.Spec = fmt.Sprintf("probe for %s is addressed to %s, expected %s%s", rq.DstIP, net.HardwareAddr(rq.DstMAC), want, note)
		case want != nil && o.FillOK && o.EthDst != hx(want):
			rw.Spec = fmt.Sprintf("frame for %s has Ethernet destination %s, expected %s", rq.DstIP, o.EthDst, want)
		case want != nil && !o.FillOK:
			rw.Spec = fmt.Sprintf("no frame could be built for %s", rq.DstIP)
		}
		i++
	}
	if i != nreq && rw.Spec == "" {
		rw.Spec = fmt.Sprintf("%d requests went in, %d came out of the cache stage", nreq, i)
	}
	rw.Nontrivial = nrep > 0
	return rw
}

// ---------------------------------------------------------------- cache stage -> concurrent packet generators -> frames

type chanGen struct{ reqs []*scan.Request }

func (g *chanGen) GenerateRequests(ctx context.Context, _ *scan.Range) (<-chan *scan.Request, error) {
	ch := make(chan *scan.Request, 64)
	go func() {
		defer close(ch)
		for _, r := range g.reqs {
			select {
			case ch <- r:
			case <-ctx.Done():
				return
			}
		}
	}()
	return ch, nil
}

// muxCase: many requests for distinct hosts go through the real cache stage (every host has its own MAC in
// the loaded cache; some hosts are only reachable through the gateway) and then, as in the commands, through
// ONE real filler shared by the workers of scan.NewPacketMultiGenerator.  Judged on the implementation alone,
// per produced frame: the Ethernet destination is the MAC the cache/gateway resolution gives for the frame's
// OWN IPv4 destination.
func muxCase(r *hlib.SplitMix64, gen string) row {
	which := 0
	if p := strings.Split(gen, ":"); len(p) == 3 {
		which, _ = strconv.Atoi(p[1])
	}
	which %= 3
	name := []string{"tcp", "udp", "icmp"}[which]
	var filler scan.PacketFiller
	switch which {
	case 0:
		filler = tcp.NewPacketFiller(tcp.WithSYN())
	case 1:
		filler = udp.NewPacketFiller()
	default:
		filler = icmp.NewPacketFiller(icmp.WithType(8))
	}
	workers := 2 + r.Intn(15)
	n := 2000 + r.Intn(2000)
	rw := row{T: "mux", Gen: gen, Class: fmt.Sprintf("concurrent-%s-filler", name), Nontrivial: true}
	macOf := func(i int) net.HardwareAddr {
		switch i % 11 {
		case 5: // odd but valid entries are entries too
			return net.HardwareAddr{0, 0, 0, 0, 0, 0}
		case 9:
			return net.HardwareAddr{0xff, 0xff, 0xff, 0xff, 0xff, 0xff}
		}
		return net.HardwareAddr{2, 0x11, byte(i >> 24), byte(i >> 16), byte(i >> 8), byte(i)}
	}
	ipOf := func(i int) net.IP { return net.IP{10, byte(i >> 16), byte(i >> 8), byte(i)} }
	gw := net.HardwareAddr{2, 0x99, 0x99, 0x99, 0x99, 0x99}
	var file bytes.Buffer
	for i := 0; i < n; i++ {
		if i%7 != 3 { // every seventh host is off-link: gateway
			fmt.Fprintf(&file, "{\"ip\":%q,\"mac\":%q,\"vendor\":\"\"}\n", ipOf(i).String(), macOf(i).String())
		}
	}
	cache := arp.NewCache()
	if err := arp.FillCache(cache, bytes.NewReader(file.Bytes())); err != nil {
		rw.Spec = "cache of generated lines does not load: " + err.Error()
		return rw
	}
	cg := &chanGen{}
	for i := 0; i < n; i++ {
		cg.reqs = append(cg.reqs, &scan.Request{SrcIP: net.IP{10, 255, 0, 1}, DstIP: ipOf(i), SrcMAC: []byte{2, 0, 0, 0, 0, 1}, DstPort: uint16(1 + i%65000)})
	}
	ctx, cancel := context.WithCancel(context.Background())
	defer cancel()
	reqs, err := arp.NewCacheRequestGenerator(cg, gw, cache).GenerateRequests(ctx, &scan.Range{})
	if err != nil {
		panic(err)
	}
	frames := 0
	deadline := time.After(30 * time.Second)
	pkts := scan.NewPacketMultiGenerator(filler, workers).Packets(ctx, reqs)
	for {
		var bd *packet.BufferData
		var ok bool
		select {
		case bd, ok = <-pkts:
		case <-deadline:
			rw.Spec = "the packet generators do not finish"
			return rw
		}
		if !ok {
			break
		}
		if bd.Err != nil {
			if rw.Spec == "" {
				rw.Spec = "a request with a resolvable destination produced an error instead of a frame: " + bd.Err.Error()
			}
			continue
		}
		b := bd.Buf.Bytes()
		frames++
		if len(b) < 34 || rw.Spec != "" {
			continue
		}
		dst := net.IP(b[30:34])
		i := int(dst[1])<<16 | int(dst[2])<<8 | int(dst[3])
		want := macOf(i)
		if i%7 == 3 {
			want = gw
		}
		if !bytes.Equal(b[0:6], want) {
			other := "another host's MAC"
			if bytes.Equal(b[0:6], gw) {
				other = "the gateway MAC"
			}
			rw.Spec = fmt.Sprintf("%d requests for distinct hosts through the cache stage and %d workers sharing one %s filler: the frame for %s is addressed to %s (%s); the cache/gateway resolution for that host gives %s",
				n, workers, name, dst, net.HardwareAddr(b[0:6]), other, want)
		}
	}
	if rw.Spec == "" && frames != n {
		rw.Spec = fmt.Sprintf("%d requests went in, %d frames came out", n, frames)
	}
	return rw
}

// ---------------------------------------------------------------- gateway MAC

func gwCase(r *hlib.SplitMix64, gen string) row {
	rw := row{T: "gw", Gen: gen, Class: "flag"}
	ifaces, _ := net.Interfaces()
	var iface *net.Interface
	var gwIP net.IP
	var rerr error
	for k := range ifaces {
		ip, err := sxip.GetDefaultGatewayIP(&ifaces[k])
		if iface == nil || (err == nil && ip != nil) {
			iface, gwIP, rerr = &ifaces[k], ip, err
		}
		if err == nil && ip != nil && r.Intn(2) == 0 {
			break
		}
	}
	if iface == nil {
		return row{T: "skip", Gen: gen, Class: "no-interface"}
	}
	if r.Intn(3) == 0 { // an interface without a default route
		for k := range ifaces {
			if ip, err := sxip.GetDefaultGatewayIP(&ifaces[k]); err == nil && ip == nil {
				iface, gwIP, rerr = &ifaces[k], nil, nil
				break
			}
		}
	}
	// a cache file that (sometimes) knows the gateway
	var file bytes.Buffer
	known := gwIP != nil && r.Intn(3) > 0
	var gmac []byte
	if known {
		gmac = r.Bytes(6)
		fmt.Fprintf(&file, "{\"ip\":%q,\"mac\":%q,\"vendor\":\"\"}\n", gwIP.String(), net.HardwareAddr(gmac).String())
	}
	fmt.Fprintf(&file, "{\"ip\":\"10.250.0.1\",\"mac\":\"02:00:00:00:00:09\",\"vendor\":\"\"}\n")
	cache := arp.NewCache()
	if err := arp.FillCache(cache, bytes.NewReader(file.Bytes())); err != nil {
		panic(err)
	}
	var flg net.HardwareAddr
	if r.Intn(2) == 0 {
		flg = r.Bytes(6)
		rw.Flag, rw.HasFlag = hx(flg), true
	} else if gwIP == nil {
		rw.Class = "no-default-route"
	} else if known {
		rw.Class = "gateway-in-cache"
	} else {
		rw.Class = "gateway-not-in-cache"
	}
	got, err := command.VerifGetGatewayMAC(flg, iface, cache)
	rw.File = hx(file.Bytes())
	rw.GwIP = hx(gwIP.To4())
	rw.RouteErr = rerr != nil
	rw.GotMAC, rw.GotNil = hx(got), got == nil
	rw.OK = err == nil
	rw.Nontrivial = true
	switch {
	case flg != nil && !bytes.Equal(got, flg):
		rw.Spec = "the --gwmac value is not used as the gateway MAC"
	case flg == nil && rerr == nil && known && !bytes.Equal(got, gmac):
		rw.Spec = "the gateway's cache entry is not used as the gateway MAC"
	case flg == nil && rerr == nil && !known && got != nil:
		rw.Spec = fmt.Sprintf("a gateway MAC %s appears although neither the flag nor the cache provides one", got)
	}
	return rw
}

// ---------------------------------------------------------------- gateway MAC on a multi-homed host

// multiHomedCases builds, in a fresh network namespace of a locked OS thread (discarded afterwards), a
// host with two uplinks and one stub interface
//
//	up0   10.1.0.2/24  default via 10.1.0.1 metric 100
//	up1   10.2.0.2/24  default via 10.2.0.1 metric 200   (the scan interface of interest)
//	lan0  10.3.0.2/24  no default route
//
// and runs the real getGatewayMAC for every interface against caches that know both / only the own /
// only the other / no gateway.  The gateway address expected for an interface is what THIS driver
// configured for it (not what ip.GetDefaultGatewayIP says).
func multiHomedCases() []row {
	type out struct {
		rows []row
		err  error
	}
	ch := make(chan out, 1)
	go func() {
		runtime.LockOSThread() // never unlocked: the thread dies with its namespace
		var o out
		defer func() { ch <- o }()
		if err := syscall.Unshare(syscall.CLONE_NEWNET); err != nil {
			o.err = fmt.Errorf("unshare(CLONE_NEWNET): %w", err)
			return
		}
		type ifc struct {
			name, addr, gw string
			metric         int
			gwmac          string
		}
		ifcs := []ifc{{"up0", "10.1.0.2/24", "10.1.0.1", 100, "aa:aa:aa:aa:aa:01"}, {"up1", "10.2.0.2/24", "10.2.0.1", 200, "bb:bb:bb:bb:bb:01"},
			{"lan0", "10.3.0.2/24", "", 0, ""}}
		for _, c := range ifcs {
			la := netlink.NewLinkAttrs()
			la.Name = c.name
			if err := netlink.LinkAdd(&netlink.Veth{LinkAttrs: la, PeerName: c.name + "p"}); err != nil {
				o.err = fmt.Errorf("link add %s: %w", c.name, err)
				return
			}
			link, err := netlink.LinkByName(c.name)
			if err != nil {
				o.err = err
				return
			}
			peer, err := netlink.LinkByName(c.name + "p")
			if err != nil {
				o.err = err
				return
			}
			addr, _ := netlink.ParseAddr(c.addr)
			if err := netlink.AddrAdd(link, addr); err != nil {
				o.err = fmt.Errorf("addr add %s: %w", c.name, err)
				return
			}
			if err := netlink.LinkSetUp(link); err != nil {
				o.err = err
				return
			}
			if err := netlink.LinkSetUp(peer); err != nil {
				o.err = err
				return
			}
			if c.gw != "" {
				if err := netlink.RouteAdd(&netlink.Route{LinkIndex: link.Attrs().Index, Gw: net.ParseIP(c.gw), Priority: c.metric}); err != nil {
					o.err = fmt.Errorf("route add %s: %w", c.name, err)
					return
				}
			}
		}
		for _, c := range ifcs {
			iface, err := net.InterfaceByName(c.name)
			if err != nil {
				o.err = err
				return
			}
			for variant := 0; variant < 4; variant++ { // bit 0: own gateway in the cache, bit 1: the other uplinks' gateways
				var file bytes.Buffer
				for _, d := range ifcs {
					if d.gw == "" {
						continue
					}
					own := d.name == c.name
					if (own && variant&1 != 0) || (!own && variant&2 != 0) {
						fmt.Fprintf(&file, "{\"ip\":%q,\"mac\":%q,\"vendor\":\"\"}\n", d.gw, d.gwmac)
					}
				}
				fmt.Fprintf(&file, "{\"ip\":\"10.2.0.9\",\"mac\":\"bb:bb:bb:bb:bb:09\",\"vendor\":\"\"}\n")
				cache := arp.NewCache()
				if err := arp.FillCache(cache, bytes.NewReader(file.Bytes())); err != nil {
					o.err = err
					return
				}
				got, gerr := command.VerifGetGatewayMAC(nil, iface, cache)
				gen := fmt.Sprintf("multihomed:%s:%d", c.name, variant)
				rw := row{T: "gw", Gen: gen, Class: "multi-homed:" + c.name + []string{":no-gateway-cached", ":own-gateway-cached", ":other-gateway-cached", ":both-gateways-cached"}[variant],
					File: hx(file.Bytes()), GwIP: hx(net.ParseIP(c.gw).To4()), GotMAC: hx(got), GotNil: got == nil, OK: gerr == nil, Nontrivial: true}
				var want net.HardwareAddr
				if c.gw != "" && variant&1 != 0 {
					want, _ = net.ParseMAC(c.gwmac)
				}
				// what a probe to a remote address through this interface is then addressed to
				lg := &listGen{reqs: []*scan.Request{{DstIP: net.IPv4(93, 184, 216, 34).To4()}}}
				reqs, _ := arp.NewCacheRequestGenerator(lg, got, cache).GenerateRequests(context.Background(), &scan.Range{Interface: iface})
				var probe *scan.Request
				for rq := range reqs {
					probe = rq
				}
				switch {
				case gerr != nil:
					rw.Spec = "getGatewayMAC fails on a multi-homed host: " + gerr.Error()
				case !bytes.Equal(got, want) && got != nil:
					rw.Spec = fmt.Sprintf("scan through %s (default gateway %s) on a host with default routes up0 via 10.1.0.1 metric 100 and up1 via 10.2.0.1 metric 200: the gateway MAC is %s, which is not the cache entry of %s's own gateway (%v); a probe to 93.184.216.34 is addressed to %s",
						c.name, c.gw, got, c.name, want, net.HardwareAddr(probe.DstMAC))
				case !bytes.Equal(got, want):
					rw.Spec = fmt.Sprintf("scan through %s: its own default gateway %s is in the ARP cache (%s) but no gateway MAC is found; a probe to 93.184.216.34 is replaced by an error", c.name, c.gw, want)
				}
				o.rows = append(o.rows, rw)
			}
		}
	}()
	o := <-ch
	if o.err != nil {
		return []row{{T: "skip", Gen: "multihomed", Class: "network namespace with two uplinks could not be set up: " + o.err.Error()}}
	}
	return o.rows
}

// ---------------------------------------------------------------- concurrent readers

func raceCase(r *hlib.SplitMix64, gen string, readers int) row {
	var file bytes.Buffer
	type kv struct{ ip, mac []byte }
	var ents []kv
	for i := 0; i < 200; i++ {
		e := kv{[]byte{10, 1, byte(i / 200), byte(i % 200)}, r.Bytes(6)}
		ents = append(ents, e)
		fmt.Fprintf(&file, "{\"ip\":%q,\"mac\":%q,\"vendor\":\"\"}\n", net.IP(e.ip).String(), net.HardwareAddr(e.mac).String())
	}
	cache := arp.NewCache()
	if err := arp.FillCache(cache, bytes.NewReader(file.Bytes())); err != nil {
		return row{T: "race", Gen: gen, Class: "readers", Spec: "load failed: " + err.Error()}
	}
	gw := net.HardwareAddr{2, 2, 2, 2, 2, 2}
	var wg sync.WaitGroup
	bad := make(chan string, readers)
	ctx := context.Background()
	for g := 0; g < readers; g++ {
		wg.Add(1)
		seed := r.Int63()
		go func() {
			defer wg.Done()
			rr := hlib.NewRand(seed)
			lg := &listGen{}
			var want [][]byte
			for i := 0; i < 300; i++ {
				if rr.Intn(4) == 0 {
					d := []byte{10, 2, 0, byte(rr.Intn(256))}
					lg.reqs = append(lg.reqs, &scan.Request{DstIP: net.IP(d)})
					want = append(want, gw)
				} else {
					e := ents[rr.Intn(len(ents))]
					d := net.IP(append([]byte{}, e.ip...))
					if rr.Bool() {
						d = d.To16()
					}
					lg.reqs = append(lg.reqs, &scan.Request{DstIP: d})
					want = append(want, e.mac)
				}
			}
			out, _ := arp.NewCacheRequestGenerator(lg, gw, cache).GenerateRequests(ctx, &scan.Range{})
			i := 0
			for rq := range out {
				if rq.Err != nil || !bytes.Equal(rq.DstMAC, want[i]) {
					select {
					case bad <- fmt.Sprintf("reader got %x for %s, expected %x", rq.DstMAC, rq.DstIP, want[i]):
					default:
					}
				}
				i++
			}
		}()
	}
	wg.Wait()
	rw := row{T: "race", Gen: gen, Class: fmt.Sprintf("%d-readers", readers), Nontrivial: true}
	select {
	case s := <-bad:
		rw.Spec = s
	default:
	}
	return rw
}

// ---------------------------------------------------------------- large caches (more than a /16 of distinct hosts)

// bigCase: a cache file as `sx arp --json` prints it for a large network (or several scans concatenated):
// n DISTINCT addresses base+i*stride, each with its own MAC 02:salt:i(4 bytes), some lines in the mapped
// spelling, followed by repeated lines (new MAC) for a few of the addresses, among them the positions around
// 65536.  The file goes through the real FillCache; then Cache.Get (4- and 16-byte form) and the real cache
// request generator + one real filler are asked for the addresses at positions 0, 1, 65535, 65536, 65537,
// n-1, the repeated ones and random ones, plus hosts that are not in the file.  Judged on the implementation
// alone by the property: a probe for X carries exactly the MAC the LAST line for X gives, otherwise the
// gateway MAC, otherwise an error - never the MAC printed for another host.  (A file of this size is not sent
// through the model's vm_compute; the statement for all files is the theorem C11_last_wins/C11_never_other_host.)
func bigCase(r *hlib.SplitMix64, gen string) row {
	n := 65537
	if p := strings.Split(gen, ":"); len(p) == 3 {
		n, _ = strconv.Atoi(p[1])
	}
	if n < 1 {
		n = 1
	}
	if n > 1<<18 {
		n = 1 << 18
	}
	rw := row{T: "big", Gen: gen, Class: fmt.Sprintf("large-cache-%d", n), Nontrivial: true}
	base := uint32(1+r.Intn(100))<<24 | uint32(r.Intn(1<<24))
	stride := uint32([]int{1, 1, 1, 2, 3, 256, 257}[r.Intn(7)])
	salt := byte(r.Intn(256))
	ipOf := func(i int) net.IP {
		v := base + uint32(i)*stride
		return net.IP{byte(v >> 24), byte(v >> 16), byte(v >> 8), byte(v)}
	}
	macOf := func(i int, gen byte) net.HardwareAddr {
		return net.HardwareAddr{2 | gen<<2, salt, byte(i >> 24), byte(i >> 16), byte(i >> 8), byte(i)}
	}
	line := func(i int, mac net.HardwareAddr, mapped bool) string {
		ip := ipOf(i).String()
		if mapped {
			ip = "::ffff:" + ip
		}
		return fmt.Sprintf("{\"ip\":%q,\"mac\":%q,\"vendor\":\"\"}\n", ip, mac.String())
	}
	want := make(map[[4]byte]net.HardwareAddr, n)
	lineNo := make(map[[4]byte]int, n) // 1-based number of the last line for the address
	key := func(ip net.IP) (k [4]byte) { copy(k[:], ip.To4()); return }
	var file bytes.Buffer
	file.Grow(n * 64)
	nlines := 0
	put := func(i int, mac net.HardwareAddr) {
		file.WriteString(line(i, mac, (i+int(salt))%16 == 7))
		nlines++
		want[key(ipOf(i))] = mac
		lineNo[key(ipOf(i))] = nlines
	}
	for i := 0; i < n; i++ {
		put(i, macOf(i, 0))
	}
	// repeated lines (the last line for an address wins): edge positions and random ones
	edges := []int{0, 1, 65535, 65536, 65537, n - 1}
	var repeated []int
	for _, e := range edges {
		if e >= 0 && e < n && r.Intn(3) == 0 {
			repeated = append(repeated, e)
		}
	}
	for k := r.Intn(6); k > 0; k-- {
		repeated = append(repeated, r.Intn(n))
	}
	for _, i := range repeated {
		put(i, macOf(i, 1))
	}
	rw.Lines, rw.Distinct = nlines, len(want)
	cache := arp.NewCache()
	if err := arp.FillCache(cache, bytes.NewReader(file.Bytes())); err != nil {
		rw.ErrKind = errKind(err)
		rw.Spec = fmt.Sprintf("a cache file of %d valid lines (%d distinct addresses) is rejected: %v", nlines, len(want), err)
		return rw
	}
	// positions asked for
	pos := []int{}
	seen := map[int]bool{}
	add := func(i int) {
		if i >= 0 && i < n && !seen[i] {
			seen[i] = true
			pos = append(pos, i)
		}
	}
	for _, e := range edges {
		add(e)
	}
	for _, e := range []int{2, 255, 256, 32767, 32768, 65534, 65538, 131071, n - 2} {
		add(e)
	}
	for _, i := range repeated {
		add(i)
		add(i - 65536)
		add(i + 65536)
	}
	for k := 0; k < 40; k++ {
		add(r.Intn(n))
	}
	describe := func(i int) string {
		k := key(ipOf(i))
		return fmt.Sprintf("position %d of the distinct addresses, last line for it is line %d: %s", i, lineNo[k],
			strings.TrimSpace(line(i, want[k], (i+int(salt))%16 == 7)))
	}
	owner := func(mac net.HardwareAddr) string {
		if len(mac) != 6 || mac[1] != salt || mac[0]&^4 != 2 {
			return ""
		}
		j := int(mac[2])<<24 | int(mac[3])<<16 | int(mac[4])<<8 | int(mac[5])
		if j < n {
			ln := j + 1
			if mac[0] == 6 {
				ln = lineNo[key(ipOf(j))]
			}
			return fmt.Sprintf("; that MAC is printed in line %d for ANOTHER host, %s", ln, ipOf(j))
		}
		return ""
	}
	shape := fmt.Sprintf("cache file of %d lines as printed by `sx arp --json`: %d distinct addresses %s + i*%d (i = 0..%d) with MAC %s..%s, then %d repeated lines",
		nlines, len(want), ipOf(0), stride, n-1, macOf(0, 0), macOf(n-1, 0), len(repeated))
	var ex []string
	// 1. Get on both address forms
	for _, i := range pos {
		ip := ipOf(i)
		w := want[key(ip)]
		for _, form := range []net.IP{ip, ip.To16()} {
			got := cache.Get(form)
			rw.Queries = append(rw.Queries, query{IP: hx(form), MAC: hx(got), Hit: got != nil})
			if rw.Spec == "" && !bytes.Equal(got, w) {
				g := "no entry"
				if got != nil {
					g = got.String()
				}
				rw.Spec = fmt.Sprintf("%s: FillCache accepts it, then Get(%s) (%d-byte form) = %s, but the file maps it to %s (%s)%s",
					shape, ip, len(form), g, w, describe(i), owner(got))
				ex = append(ex, line(0, macOf(0, 0), int(salt)%16 == 7), "...\n", line(i, w, (i+int(salt))%16 == 7))
			}
		}
	}
	// 2. the cache stage of the IP-level scans and a filler
	var gw net.HardwareAddr
	if r.Intn(3) > 0 {
		gw = net.HardwareAddr{0x0a, salt, 0x99, 0x99, 0x99, 0x99}
		rw.GW, rw.HasGW = hx(gw), true
	}
	lg := &listGen{}
	myMAC := []byte{2, 0, 0, 0, 0, 1}
	for k, i := range pos {
		d := ipOf(i)
		if k%3 == 1 {
			d = d.To16()
		}
		lg.reqs = append(lg.reqs, &scan.Request{SrcIP: net.IP{9, 9, 9, 9}, DstIP: d, SrcMAC: myMAC, DstPort: uint16(1 + r.Intn(65535))})
		if k%5 == 0 { // a host that is not in the file: gateway or error
			off := net.IP{225, byte(r.Intn(256)), byte(r.Intn(256)), byte(r.Intn(256))}
			lg.reqs = append(lg.reqs, &scan.Request{SrcIP: net.IP{9, 9, 9, 9}, DstIP: off, SrcMAC: myMAC, DstPort: 80})
		}
	}
	ctx, cancel := context.WithCancel(context.Background())
	defer cancel()
	out, err := arp.NewCacheRequestGenerator(lg, gw, cache).GenerateRequests(ctx, &scan.Range{})
	if err != nil {
		panic(err)
	}
	fillers := []struct {
		name string
		f    scan.PacketFiller
	}{{"tcp", tcp.NewPacketFiller(tcp.WithSYN())}, {"udp", udp.NewPacketFiller()}, {"icmp", icmp.NewPacketFiller(icmp.WithType(8))}}
	fl := fillers[r.Intn(len(fillers))]
	cnt := 0
	for rq := range out {
		cnt++
		o := reqObs{Dst: hx(rq.DstIP), Port: int(rq.DstPort), Err: rq.Err != nil, DstMAC: hx(rq.DstMAC)}
		if rq.Err == nil {
			o.Filler = fl.name
			buf := gopacket.NewSerializeBuffer()
			if err := fl.f.Fill(buf, rq); err == nil {
				o.FillOK = true
				if b := buf.Bytes(); len(b) >= 14 {
					o.EthDst = hx(b[:6])
				}
			}
		}
		rw.Reqs = append(rw.Reqs, o)
		if rw.Spec != "" {
			continue
		}
		w, inFile := want[key(rq.DstIP)]
		where := "it is not in the file"
		if inFile {
			v := uint32(rq.DstIP.To4()[0])<<24 | uint32(rq.DstIP.To4()[1])<<16 | uint32(rq.DstIP.To4()[2])<<8 | uint32(rq.DstIP.To4()[3])
			where = describe(int((v - base) / stride))
		} else {
			w = gw
		}
		switch {
		case w == nil && rq.Err == nil:
			rw.Spec = fmt.Sprintf("%s: probe for %s (no cache entry, no gateway MAC) is not replaced by an error but addressed to %s%s",
				shape, rq.DstIP, net.HardwareAddr(rq.DstMAC), owner(rq.DstMAC))
		case w != nil && rq.Err != nil:
			rw.Spec = fmt.Sprintf("%s: probe for %s is replaced by an error although its MAC %s is known (%s)", shape, rq.DstIP, w, where)
		case w != nil && !bytes.Equal(rq.DstMAC, w):
			rw.Spec = fmt.Sprintf("%s: the cache stage addresses the probe for %s to %s, expected %s (%s)%s",
				shape, rq.DstIP, net.HardwareAddr(rq.DstMAC), w, where, owner(rq.DstMAC))
		case w != nil && o.FillOK && o.EthDst != hx(w):
			rw.Spec = fmt.Sprintf("%s: the %s frame for %s has Ethernet destination %s, expected %s (%s)", shape, fl.name, rq.DstIP, o.EthDst, w, where)
		case w != nil && !o.FillOK:
			rw.Spec = fmt.Sprintf("%s: no %s frame could be built for %s", shape, fl.name, rq.DstIP)
		}
	}
	if rw.Spec == "" && cnt != len(lg.reqs) {
		rw.Spec = fmt.Sprintf("%s: %d requests went in, %d came out of the cache stage", shape, len(lg.reqs), cnt)
	}
	if len(ex) == 0 {
		ex = []string{line(0, macOf(0, 0), int(salt)%16 == 7), "...\n", line(n-1, want[key(ipOf(n-1))], (n-1+int(salt))%16 == 7)}
	}
	rw.Excerpt = shape + "\n" + strings.Join(ex, "")
	return rw
}

// ---------------------------------------------------------------- driver

func derive(seed int64, i int) int64 {
	return hlib.NewRand(seed ^ int64(uint64(i+1)*0x9E3779B97F4A7C15>>1)).Int63()
}

func genCase(gen string) row {
	parts := strings.Split(gen, ":")
	if parts[0] == "multihomed" {
		rows := multiHomedCases()
		for _, rw := range rows {
			if rw.Gen == gen {
				return rw
			}
		}
		return rows[0]
	}
	seed, err := strconv.ParseInt(parts[len(parts)-1], 10, 64)
	if err != nil {
		panic("bad gen string " + gen)
	}
	r := hlib.NewRand(seed)
	switch parts[0] {
	case "iptext":
		return ipTextCase(r, gen)
	case "mactext":
		return macTextCase(r, gen)
	case "parseip":
		return parseIPCase(r, gen)
	case "parsemac":
		return parseMACCase(r, gen)
	case "fill":
		return fillCase(r, gen)
	case "chain":
		return chainCase(r, gen)
	case "gw":
		return gwCase(r, gen)
	case "mux":
		return muxCase(r, gen)
	case "race":
		return raceCase(r, gen, 64)
	case "big":
		return bigCase(r, gen)
	case "ipbyte": // ipbyte:<pos>:<value>: the per-byte sweep of the decimal text round trip
		pos, _ := strconv.Atoi(parts[1])
		b := []byte{10, 20, 30, 40}
		b[pos] = byte(seed)
		s := net.IP(b).String()
		rw := row{T: "iptext", Gen: gen, Class: "byte-sweep", In: hx(b), Out: hx([]byte(s)), Nontrivial: true}
		if back := net.ParseIP(s); back == nil || !back.Equal(net.IP(b)) {
			rw.Spec = "the printed address does not parse back"
		}
		return rw
	case "macbyte":
		pos, _ := strconv.Atoi(parts[1])
		b := []byte{1, 2, 3, 4, 5, 6}
		b[pos] = byte(seed)
		s := net.HardwareAddr(b).String()
		rw := row{T: "mactext", Gen: gen, Class: "byte-sweep", In: hx(b), Out: hx([]byte(s)), Nontrivial: true}
		if back, err := net.ParseMAC(s); err != nil || !bytes.Equal(back, b) {
			rw.Spec = "the printed MAC does not parse back"
		}
		return rw
	}
	panic("bad gen string " + gen)
}

func main() {
	out := flag.String("out", "cases.jsonl", "output file")
	seed := flag.Int64("seed", 1, "seed")
	n := flag.Int("n", 1000, "number of composition chains")
	nfill := flag.Int("fill", 600, "number of cache files")
	ntext := flag.Int("text", 600, "number of cases per text function")
	sweep := flag.Bool("sweep", false, "all 256 values of every address byte")
	race := flag.Int("race", 0, "number of concurrent-reader runs")
	nmux := flag.Int("mux", 9, "number of cache stage -> concurrent packet generator runs")
	nbig := flag.Int("big", 0, "number of additional large cache files of random size (four fixed sizes always run)")
	one := flag.String("replay", "", "replay one case from its generator string")
	flag.Parse()
	w := hlib.NewOut(*out)
	defer w.Close()
	if *one != "" {
		w.Put(genCase(*one))
		return
	}
	positions := []int{0}
	if *sweep {
		positions = []int{0, 1, 2, 3}
	}
	for _, p := range positions {
		for v := 0; v < 256; v++ {
			w.Put(genCase(fmt.Sprintf("ipbyte:%d:%d", p, v)))
		}
	}
	mpos := []int{0}
	if *sweep {
		mpos = []int{0, 1, 2, 3, 4, 5}
	}
	for _, p := range mpos {
		for v := 0; v < 256; v++ {
			w.Put(genCase(fmt.Sprintf("macbyte:%d:%d", p, v)))
		}
	}
	k := 0
	for _, t := range []string{"iptext", "mactext", "parseip", "parsemac"} {
		cnt := *ntext
		if t == "parseip" {
			cnt *= 3
		}
		for i := 0; i < cnt; i++ {
			w.Put(genCase(fmt.Sprintf("%s:%d", t, derive(*seed, k))))
			k++
		}
	}
	for i := 0; i < *nfill; i++ {
		w.Put(genCase(fmt.Sprintf("fill:%d", derive(*seed, k))))
		k++
	}
	for i := 0; i < *n; i++ {
		w.Put(genCase(fmt.Sprintf("chain:%d", derive(*seed, k))))
		k++
	}
	for _, rw := range multiHomedCases() {
		w.Put(rw)
	}
	for i := 0; i < *nmux; i++ {
		w.Put(genCase(fmt.Sprintf("mux:%d:%d", i%3, derive(*seed, k))))
		k++
	}
	// large caches: a full /16, one more, somewhat more, two /16 (plus further sizes with -big)
	bigSizes := []int{65536, 65537, 65538 + int(uint64(derive(*seed, k))%8000), 131072}
	for i := 0; i < *nbig; i++ {
		bigSizes = append(bigSizes, 60000+int(uint64(derive(*seed, k+1+i))%140000))
	}
	for _, sz := range bigSizes {
		w.Put(genCase(fmt.Sprintf("big:%d:%d", sz, derive(*seed, k))))
		k++
	}
	for i := 0; i < 24; i++ {
		w.Put(genCase(fmt.Sprintf("gw:%d", derive(*seed, k))))
		k++
	}
	for i := 0; i < *race; i++ {
		w.Put(genCase(fmt.Sprintf("race:%d", derive(*seed, k))))
		k++
	}
}
