// Driver for C13: generated target files (every bad-line class at random positions) through the real
// generator chains the commands build (file of pairs / file of addresses x ports / icmp address file;
// regular file, stdin, missing file; with and without --exclude; with and without ARP cache / gateway MAC),
// and generated request streams that already carry errors through the real decorators in all four stackings.
// Every case is derived from its own seed so that it can be replayed alone.
package main

import (
	"context"
	"encoding/hex"
	"flag"
	"fmt"
	"io"
	"math/rand"
	"net"
	"os"
	"runtime"
	"strings"

	"github.com/v-byte-cpu/sx/command"
	"github.com/v-byte-cpu/sx/pkg/scan"
	"github.com/v-byte-cpu/sx/pkg/scan/arp"
	"verifharness/cmd/c01/tgt"
	"verifharness/hlib"
)

type lineJ struct {
	Class string `json:"class"`
	Text  string `json:"text"` // first 120 bytes
}

type caseJ struct {
	Kind     string     `json:"kind"` // file | stages
	CaseSeed int64      `json:"case_seed"`
	Cmd      string     `json:"cmd"`
	Mode     int        `json:"mode"` // 0 pairs, 1 addresses x ports, 2 port-less
	Source   string     `json:"source"`
	Lines    []lineJ    `json:"lines"`
	LinesEnc string     `json:"lines_enc"`
	Filter   bool       `json:"filter"`
	Nets     [][2]int64 `json:"nets"` // base, prefix
	Cache    bool       `json:"cache"`
	CacheEnc string     `json:"cache_enc"`
	Gateway  bool       `json:"gateway"`
	Ranges   [][2]int   `json:"ranges"`
	Draws    [][2]int64 `json:"draws"`
	Seed     int64      `json:"seed"`
	Err      int        `json:"err"`
	ErrMsg   string     `json:"err_msg"`
	Out      string     `json:"out"`
	In       string     `json:"in,omitempty"`
	Complete bool       `json:"complete"`
	Stuck    bool       `json:"stuck"`
}

var tmpDir string
var baseGoroutines int

func exclusion(r *hlib.SplitMix64, base uint32, span int) (scan.IPContainer, [][2]int64) {
	var nets [][2]int64
	var sb strings.Builder
	n := 1 + r.Intn(4)
	for i := 0; i < n; i++ {
		a := base + uint32(r.Intn(span))
		p := 32
		if r.Intn(3) == 0 {
			p = 28 + r.Intn(4)
		}
		nets = append(nets, [2]int64{int64(a), int64(p)})
		fmt.Fprintf(&sb, "%s/%d\n", tgt.Dotted(a), p)
	}
	c, err := command.VerifParseExcludeFile(func() (io.ReadCloser, error) { return io.NopCloser(strings.NewReader(sb.String())), nil })
	if err != nil {
		panic(err)
	}
	return c, nets
}

func mkFileCase(caseSeed int64) caseJ {
	tgt.Settle(baseGoroutines)
	r := hlib.NewRand(caseSeed)
	c := caseJ{Kind: "file", CaseSeed: caseSeed, Seed: r.Int63()}
	c.Cmd = []string{"tcp", "udp", "generic", "icmp"}[r.Intn(4)]
	switch c.Cmd {
	case "icmp":
		c.Mode = 2
	default:
		c.Mode = r.Intn(2)
	}
	base := uint32(r.Uint64())
	span := 24
	n := 1 + r.Intn(40)
	nbad := 0
	bad := tgt.BadClasses
	switch r.Intn(5) {
	case 0: // clean file
	case 1:
		nbad = 1
	default:
		nbad = 1 + r.Intn(4)
	}
	if r.Intn(6) != 0 {
		// too long lines are expensive: keep them rare
		bad = bad[:len(bad)-1]
	}
	ls := tgt.RandFile(r, n, base, span, nbad, bad)
	for _, l := range ls {
		t := l.Text
		if len(t) > 120 {
			t = t[:120] + "..."
		}
		c.Lines = append(c.Lines, lineJ{Class: l.Class, Text: t})
	}
	c.LinesEnc = hex.EncodeToString(tgt.EncLines(ls))
	content := tgt.FileText(ls)
	opts := &command.VerifTargetOpts{}
	if r.Bool() {
		c.Filter = true
		opts.ExcludeIPs, c.Nets = exclusion(r, base, span)
	}
	if c.Cmd != "generic" && r.Bool() {
		c.Cache = true
		c.Gateway = r.Intn(3) != 0
		var es []tgt.CacheEntry
		opts.Cache, es, opts.GatewayMAC = tgt.RandCache(r, base, span, r.Intn(8), c.Gateway)
		c.CacheEnc = hex.EncodeToString(tgt.EncCache(es, opts.GatewayMAC))
	}
	if c.Mode == 1 {
		nr := 1 + r.Intn(3)
		rs, _ := tgt.RandRanges(r, nr, 1+r.Intn(6))
		opts.PortRanges = rs
		c.Ranges = tgt.RangesJSON(rs)
		p := rand.New(rand.NewSource(c.Seed))
		for range rs {
			c.Draws = append(c.Draws, [2]int64{p.Int63(), p.Int63()})
		}
	}
	c.Source = "file"
	switch {
	case r.Intn(12) == 0:
		c.Source = "missing"
	case c.Mode == 1 && r.Intn(3) == 0:
		c.Source = "stdin" // only the address-list mode of the port commands reads "-"
	}
	run := func() {
		ctx, cancel := context.WithCancel(context.Background())
		defer cancel()
		var gen scan.RequestGenerator
		switch c.Cmd {
		case "generic":
			gen = command.VerifGenericIPPortGenerator(opts)
		default:
			gen = scan.VerifRequestGenerator(command.VerifScanMethod(ctx, c.Cmd, opts))
		}
		rand.Seed(c.Seed)
		ch, err := gen.GenerateRequests(ctx, &scan.Range{Ports: opts.PortRanges, SrcIP: net.IPv4(10, 0, 0, 1).To4(),
			SrcMAC: net.HardwareAddr{2, 0, 0, 0, 0, 1}})
		if err != nil {
			c.Err, c.ErrMsg = tgt.ErrClass(err), err.Error()
			return
		}
		out, complete, stuck := tgt.Drain(ch, 0)
		c.Complete, c.Stuck = complete, stuck
		c.Out = hex.EncodeToString(tgt.Encode(out))
	}
	switch c.Source {
	case "file":
		opts.IPFile = tgt.WriteTemp(tmpDir, fmt.Sprintf("t%d.jsonl", caseSeed&0xffff), content)
		run()
		os.Remove(opts.IPFile)
	case "missing":
		opts.IPFile = tmpDir + "/does-not-exist.jsonl"
		run()
	case "stdin":
		opts.IPFile = "-"
		tgt.WithStdin(content, run)
	}
	return c
}

// mkStagesCase: a mock stream with error requests through filter / cache in all four stackings.
func mkStagesCase(caseSeed int64) caseJ {
	tgt.Settle(baseGoroutines)
	r := hlib.NewRand(caseSeed)
	c := caseJ{Kind: "stages", CaseSeed: caseSeed, Cmd: "mock"}
	base := uint32(r.Uint64())
	span := 16
	var reqs []*scan.Request
	n := 1 + r.Intn(30)
	errs := []error{scan.ErrIP, scan.ErrPort, scan.ErrJSON, scan.ErrPortRange, scan.ErrSubnet}
	for i := 0; i < n; i++ {
		a := base + uint32(r.Intn(span))
		q := &scan.Request{DstIP: net.IP(tgt.U32(a)), DstPort: uint16(r.Intn(65536))}
		switch r.Intn(8) {
		case 0:
			q.DstIP = q.DstIP.To16()
		case 1:
			q = &scan.Request{Err: errs[r.Intn(len(errs))]}
		case 2:
			q = &scan.Request{DstPort: q.DstPort, Err: errs[r.Intn(len(errs))]}
		case 3:
			q.Err = errs[r.Intn(len(errs))] // an error request that still carries an address
		}
		reqs = append(reqs, q)
	}
	var in []tgt.Req
	for _, q := range reqs {
		in = append(in, tgt.FromRequest(q))
	}
	c.In = hex.EncodeToString(tgt.Encode(in))
	var gen scan.RequestGenerator = &tgt.MockReqGen{Reqs: reqs}
	c.Filter, c.Cache = r.Bool(), r.Bool()
	if c.Filter {
		var ex scan.IPContainer
		ex, c.Nets = exclusion(r, base, span)
		gen = scan.NewFilterIPRequestGenerator(gen, ex)
	}
	if c.Cache {
		c.Gateway = r.Bool()
		cache, es, gw := tgt.RandCache(r, base, span, r.Intn(8), c.Gateway)
		c.CacheEnc = hex.EncodeToString(tgt.EncCache(es, gw))
		gen = arp.NewCacheRequestGenerator(gen, gw, cache)
	}
	ctx, cancel := context.WithCancel(context.Background())
	defer cancel()
	ch, err := gen.GenerateRequests(ctx, &scan.Range{})
	if err != nil {
		c.Err, c.ErrMsg = tgt.ErrClass(err), err.Error()
		return c
	}
	out, complete, stuck := tgt.Drain(ch, 0)
	c.Complete, c.Stuck = complete, stuck
	c.Out = hex.EncodeToString(tgt.Encode(out))
	return c
}

func main() {
	out := flag.String("out", "cases.jsonl", "output file")
	seed := flag.Int64("seed", 1, "seed")
	count := flag.Int("n", 600, "number of file cases")
	nst := flag.Int("nstages", 200, "number of decorator cases")
	one := flag.String("replay", "", "replay one case: file:<case seed> | stages:<case seed>")
	flag.Parse()
	baseGoroutines = runtime.NumGoroutine()
	var err error
	if tmpDir, err = os.MkdirTemp("", "c13-"); err != nil {
		panic(err)
	}
	defer os.RemoveAll(tmpDir)
	w := hlib.NewOut(*out)
	defer w.Close()
	if *one != "" {
		kind, rest, _ := strings.Cut(*one, ":")
		var cs int64
		fmt.Sscan(rest, &cs)
		if kind == "stages" {
			w.Put(mkStagesCase(cs))
		} else {
			w.Put(mkFileCase(cs))
		}
		return
	}
	r := hlib.NewRand(*seed)
	for i := 0; i < *count; i++ {
		w.Put(mkFileCase(r.Int63()))
	}
	for i := 0; i < *nst; i++ {
		w.Put(mkStagesCase(r.Int63()))
	}
}
