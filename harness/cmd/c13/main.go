// Driver for C13: generated target files (every bad-line class at random positions) through the real
// generator chains the commands build (file of pairs / file of addresses x ports / icmp address file;
// regular file, stdin, missing file; with and without --exclude; with and without ARP cache / gateway MAC),
// and generated request streams that already carry errors through the real decorators in all four stackings.
// Every case is derived from its own seed so that it can be replayed alone.
package main

import (
	"context"
	"encoding/hex"
	"flag"
	"fmt"
	"io"
	"math/rand"
	"net"
	"os"
	"runtime"
	"strings"
	"sync"
	"time"

	"github.com/v-byte-cpu/sx/command"
	"github.com/v-byte-cpu/sx/pkg/packet"
	"github.com/v-byte-cpu/sx/pkg/scan"
	"github.com/v-byte-cpu/sx/pkg/scan/arp"
	"verifharness/cmd/c01/tgt"
	"verifharness/hlib"
)

type lineJ struct {
	Class string `json:"class"`
	Text  string `json:"text"` // first 120 bytes
	// over-long lines of the longfile cases: the length of the physical line, the offset of the tail and its first bytes
	Len     int    `json:"len,omitempty"`
	TailAt  int    `json:"tail_at,omitempty"`
	Tail    string `json:"tail,omitempty"`
	Foreign string `json:"foreign,omitempty"` // the address the tail names (no valid line of the file names it)
}

type caseJ struct {
	Kind     string     `json:"kind"` // file | stages
	CaseSeed int64      `json:"case_seed"`
	Cmd      string     `json:"cmd"`
	Mode     int        `json:"mode"` // 0 pairs, 1 addresses x ports, 2 port-less
	Source   string     `json:"source"`
	Lines    []lineJ    `json:"lines"`
	LinesEnc string     `json:"lines_enc"`
	Filter   bool       `json:"filter"`
	Nets     [][2]int64 `json:"nets"` // base, prefix
	Cache    bool       `json:"cache"`
	CacheEnc string     `json:"cache_enc"`
	Gateway  bool       `json:"gateway"`
	// the gateway MAC was obtained from the real getGatewayMAC (loopback: no default route, so none is due)
	GatewayLookup bool       `json:"gateway_lookup,omitempty"`
	LookupMAC     string     `json:"lookup_mac,omitempty"`
	Ranges        [][2]int   `json:"ranges"`
	Draws         [][2]int64 `json:"draws"`
	Seed          int64      `json:"seed"`
	Err           int        `json:"err"`
	ErrMsg        string     `json:"err_msg"`
	Out           string     `json:"out"`
	In            string     `json:"in,omitempty"`
	Complete      bool       `json:"complete"`
	Stuck         bool       `json:"stuck"`
}

var tmpDir string
var baseGoroutines int

func exclusion(r *hlib.SplitMix64, base uint32, span int) (scan.IPContainer, [][2]int64) {
	var nets [][2]int64
	var sb strings.Builder
	n := 1 + r.Intn(4)
	for i := 0; i < n; i++ {
		a := base + uint32(r.Intn(span))
		p := 32
		if r.Intn(3) == 0 {
			p = 28 + r.Intn(4)
		}
		nets = append(nets, [2]int64{int64(a), int64(p)})
		fmt.Fprintf(&sb, "%s/%d\n", tgt.Dotted(a), p)
	}
	c, err := command.VerifParseExcludeFile(func() (io.ReadCloser, error) { return io.NopCloser(strings.NewReader(sb.String())), nil })
	if err != nil {
		panic(err)
	}
	return c, nets
}

// longLine: ONE physical line of more than 64 KiB (outcome LTooLong by construction: the line never fits the 64 KiB
// token buffer, whatever it holds).  Variants: 64..128 KiB; more than 128 KiB where the bytes after the 131072-byte
// mark are a well-formed entry for an address outside the file's pool, are garbage, or are themselves longer than
// 64 KiB; the marks are also missed by a few bytes (a reader that drops the line chunk-wise sees another tail).
func longLine(r *hlib.SplitMix64, addr, foreign uint32) (tgt.Line, lineJ) {
	const chunk = 64 * 1024
	port := 1 + r.Intn(65535)
	head := func(total int) string {
		pre := fmt.Sprintf(`{"ip":"%s","port":%d,"pad":"`, tgt.Dotted(addr), port)
		return pre + strings.Repeat("x", total-len(pre)-2) + `"}`
	}
	fport := 1 + r.Intn(65535)
	entry := fmt.Sprintf(`{"ip":"%s","port":%d}`, tgt.Dotted(foreign), fport)
	l := tgt.Line{Kind: 1}
	j := lineJ{}
	switch r.Intn(6) {
	case 0: // between one and two buffers
		l.Class, l.Text = "toolong-64k-128k", head(chunk+64+r.Intn(chunk-200))
	case 1: // the lost-newline file: an entry boundary exactly at 2 x 64 KiB
		l.Class, l.Text = "toolong-128k-tail-entry", head(2*chunk)+entry
		j.TailAt, j.Foreign = 2*chunk, tgt.Dotted(foreign)
	case 2: // entry boundaries at every multiple of 64 KiB up to 3..5
		k := 3 + r.Intn(3)
		l.Class, l.Text = "toolong-multi-tail-entry", head(chunk)
		for i := 1; i < k; i++ {
			l.Text += head(chunk)
		}
		l.Text += entry
		j.TailAt, j.Foreign = k*chunk, tgt.Dotted(foreign)
	case 3: // the tail is garbage
		l.Class, l.Text = "toolong-128k-tail-garbage", head(2*chunk+1+r.Intn(3000))
		j.TailAt = 2 * chunk
	case 4: // the tail is itself longer than one buffer
		l.Class, l.Text = "toolong-128k-tail-toolong", head(3*chunk+100+r.Intn(chunk))
		j.TailAt = 2 * chunk
	default: // an entry boundary a few bytes off the mark
		l.Class, l.Text = "toolong-128k-tail-offmark", head(2*chunk-8+r.Intn(17))+entry
		j.TailAt = 2 * chunk
	}
	j.Class, j.Text, j.Len = l.Class, l.Text[:120]+"...", len(l.Text)
	if j.TailAt > 0 {
		t := l.Text[j.TailAt:]
		if len(t) > 120 {
			t = t[:120] + "..."
		}
		j.Tail = t
	}
	return l, j
}

// longFile: valid entries, one over-long physical line, more valid entries (and sometimes an ordinary bad one).
func longFile(r *hlib.SplitMix64, base uint32, span int) ([]tgt.Line, []lineJ) {
	var ls []tgt.Line
	var js []lineJ
	put := func(l tgt.Line) {
		t := l.Text
		if len(t) > 120 {
			t = t[:120] + "..."
		}
		ls, js = append(ls, l), append(js, lineJ{Class: l.Class, Text: t})
	}
	for i, n := 0, r.Intn(4); i < n; i++ {
		put(tgt.RandLine(r, tgt.GoodClasses[r.Intn(len(tgt.GoodClasses))], base+uint32(r.Intn(span))))
	}
	// an address no valid line names and no exclusion entry covers
	l, j := longLine(r, base+uint32(r.Intn(span)), base+4096+uint32(r.Intn(64)))
	ls, js = append(ls, l), append(js, j)
	for i, n := 0, 1+r.Intn(4); i < n; i++ {
		put(tgt.RandLine(r, tgt.GoodClasses[r.Intn(len(tgt.GoodClasses))], base+uint32(r.Intn(span))))
	}
	if r.Intn(3) == 0 {
		put(tgt.RandLine(r, []string{"badip", "badport", "noip", "noport"}[r.Intn(4)], base+uint32(r.Intn(span))))
		put(tgt.RandLine(r, "valid", base+uint32(r.Intn(span))))
	}
	return ls, js
}

func mkFileCase(caseSeed int64) caseJ { return mkFileCaseOf(caseSeed, false) }

// mkLongCase: a file with one over-long physical line through the same generator chains / sources / stages.
func mkLongCase(caseSeed int64) caseJ { return mkFileCaseOf(caseSeed, true) }

func mkFileCaseOf(caseSeed int64, long bool) caseJ {
	tgt.Settle(baseGoroutines)
	r := hlib.NewRand(caseSeed)
	c := caseJ{Kind: "file", CaseSeed: caseSeed, Seed: r.Int63()}
	if long {
		c.Kind = "longfile"
	}
	c.Cmd = []string{"tcp", "udp", "generic", "icmp"}[r.Intn(4)]
	switch c.Cmd {
	case "icmp":
		c.Mode = 2
	default:
		c.Mode = r.Intn(2)
	}
	base := uint32(r.Uint64())
	span := 24
	n := 1 + r.Intn(40)
	nbad := 0
	bad := tgt.BadClasses
	switch r.Intn(5) {
	case 0: // clean file
	case 1:
		nbad = 1
	default:
		nbad = 1 + r.Intn(4)
	}
	if r.Intn(6) != 0 {
		// too long lines are expensive: keep them rare
		bad = bad[:len(bad)-1]
	}
	var ls []tgt.Line
	if long {
		ls, c.Lines = longFile(r, base, span)
	} else {
		ls = tgt.RandFile(r, n, base, span, nbad, bad)
		for _, l := range ls {
			t := l.Text
			if len(t) > 120 {
				t = t[:120] + "..."
			}
			c.Lines = append(c.Lines, lineJ{Class: l.Class, Text: t})
		}
	}
	c.LinesEnc = hex.EncodeToString(tgt.EncLines(ls))
	content := tgt.FileText(ls)
	opts := &command.VerifTargetOpts{}
	if r.Bool() {
		c.Filter = true
		opts.ExcludeIPs, c.Nets = exclusion(r, base, span)
	}
	if c.Cmd != "generic" && r.Bool() {
		c.Cache = true
		c.Gateway = r.Intn(3) != 0
		var es []tgt.CacheEntry
		opts.Cache, es, opts.GatewayMAC = tgt.RandCache(r, base, span, r.Intn(8), c.Gateway)
		c.CacheEnc = hex.EncodeToString(tgt.EncCache(es, opts.GatewayMAC))
		if !c.Gateway {
			// no --gwmac: the command asks the cache for the MAC of the default gateway of the interface; an interface
			// without a default route (loopback) has none, so no gateway MAC is known - whatever else the cache holds
			if lo, err := net.InterfaceByName("lo"); err == nil {
				if mac, err := command.VerifGetGatewayMAC(nil, lo, opts.Cache); err == nil {
					c.GatewayLookup = true
					opts.GatewayMAC = mac
					c.LookupMAC = hex.EncodeToString(mac)
				}
			}
		}
	}
	if c.Mode == 1 {
		nr := 1 + r.Intn(3)
		rs, _ := tgt.RandRanges(r, nr, 1+r.Intn(6))
		opts.PortRanges = rs
		c.Ranges = tgt.RangesJSON(rs)
		p := rand.New(rand.NewSource(c.Seed))
		for range rs {
			c.Draws = append(c.Draws, [2]int64{p.Int63(), p.Int63()})
		}
	}
	c.Source = "file"
	switch {
	case r.Intn(12) == 0:
		c.Source = "missing"
	case c.Mode == 1 && r.Intn(3) == 0:
		c.Source = "stdin" // only the address-list mode of the port commands reads "-"
	}
	run := func() {
		ctx, cancel := context.WithCancel(context.Background())
		defer cancel()
		var gen scan.RequestGenerator
		switch c.Cmd {
		case "generic":
			gen = command.VerifGenericIPPortGenerator(opts)
		default:
			gen = scan.VerifRequestGenerator(command.VerifScanMethod(ctx, c.Cmd, opts))
		}
		rand.Seed(c.Seed)
		ch, err := gen.GenerateRequests(ctx, &scan.Range{Ports: opts.PortRanges, SrcIP: net.IPv4(10, 0, 0, 1).To4(),
			SrcMAC: net.HardwareAddr{2, 0, 0, 0, 0, 1}})
		if err != nil {
			c.Err, c.ErrMsg = tgt.ErrClass(err), err.Error()
			return
		}
		out, complete, stuck := tgt.Drain(ch, 0)
		c.Complete, c.Stuck = complete, stuck
		c.Out = hex.EncodeToString(tgt.Encode(out))
	}
	switch c.Source {
	case "file":
		opts.IPFile = tgt.WriteTemp(tmpDir, fmt.Sprintf("t%d.jsonl", caseSeed&0xffff), content)
		run()
		os.Remove(opts.IPFile)
	case "missing":
		opts.IPFile = tmpDir + "/does-not-exist.jsonl"
		run()
	case "stdin":
		opts.IPFile = "-"
		tgt.WithStdin(content, run)
	}
	return c
}

// mkStagesCase: a mock stream with error requests through filter / cache in all four stackings.
func mkStagesCase(caseSeed int64) caseJ {
	tgt.Settle(baseGoroutines)
	r := hlib.NewRand(caseSeed)
	c := caseJ{Kind: "stages", CaseSeed: caseSeed, Cmd: "mock"}
	base := uint32(r.Uint64())
	span := 16
	var reqs []*scan.Request
	n := 1 + r.Intn(30)
	errs := []error{scan.ErrIP, scan.ErrPort, scan.ErrJSON, scan.ErrPortRange, scan.ErrSubnet}
	for i := 0; i < n; i++ {
		a := base + uint32(r.Intn(span))
		q := &scan.Request{DstIP: net.IP(tgt.U32(a)), DstPort: uint16(r.Intn(65536))}
		switch r.Intn(8) {
		case 0:
			q.DstIP = q.DstIP.To16()
		case 1:
			q = &scan.Request{Err: errs[r.Intn(len(errs))]}
		case 2:
			q = &scan.Request{DstPort: q.DstPort, Err: errs[r.Intn(len(errs))]}
		case 3:
			q.Err = errs[r.Intn(len(errs))] // an error request that still carries an address
		case 4:
			// an IPv6 destination (accepted from a target file): its own cache key, never another neighbour's
			v6 := net.ParseIP("2001:db8::1")
			v6[15] = byte(r.Intn(256))
			q.DstIP = v6
		}
		reqs = append(reqs, q)
	}
	var in []tgt.Req
	for _, q := range reqs {
		in = append(in, tgt.FromRequest(q))
	}
	c.In = hex.EncodeToString(tgt.Encode(in))
	var gen scan.RequestGenerator = &tgt.MockReqGen{Reqs: reqs}
	c.Filter, c.Cache = r.Bool(), r.Bool()
	if c.Filter {
		var ex scan.IPContainer
		ex, c.Nets = exclusion(r, base, span)
		gen = scan.NewFilterIPRequestGenerator(gen, ex)
	}
	if c.Cache {
		c.Gateway = r.Bool()
		cache, es, gw := tgt.RandCache(r, base, span, r.Intn(8), c.Gateway)
		c.CacheEnc = hex.EncodeToString(tgt.EncCache(es, gw))
		gen = arp.NewCacheRequestGenerator(gen, gw, cache)
	}
	ctx, cancel := context.WithCancel(context.Background())
	defer cancel()
	ch, err := gen.GenerateRequests(ctx, &scan.Range{})
	if err != nil {
		c.Err, c.ErrMsg = tgt.ErrClass(err), err.Error()
		return c
	}
	out, complete, stuck := tgt.Drain(ch, 0)
	c.Complete, c.Stuck = complete, stuck
	c.Out = hex.EncodeToString(tgt.Encode(out))
	return c
}

// ---------------------------------------------------------------- bursts of bad entries through the engines

type burstJ struct {
	Kind     string         `json:"kind"` // burst
	CaseSeed int64          `json:"case_seed"`
	Engine   string         `json:"engine"` // generic | packet
	Cmd      string         `json:"cmd"`
	Mode     int            `json:"mode"`
	Filter   bool           `json:"filter"`
	Cache    bool           `json:"cache"`
	NBad     map[string]int `json:"nbad"` // error class -> number of bad entries with that cause
	NValid   int            `json:"nvalid"`
	LateMS   int            `json:"late_ms"`
	Errors   map[string]int `json:"errors"` // error class -> records that reached the error stream
	Probes   int            `json:"probes"`
	Done     bool           `json:"done"`
	// tail cases: bad entries at the end of the file through the real startScanEngine
	ExitDelayUS int `json:"exit_delay_us"`
}

type countWriter struct {
	mu sync.Mutex
	n  int
}

func (w *countWriter) WritePacketData(_ []byte) error {
	w.mu.Lock()
	w.n++
	w.mu.Unlock()
	return nil
}

type noReceiver struct{}

func (noReceiver) ReceivePackets(_ context.Context) <-chan error {
	c := make(chan error)
	close(c)
	return c
}

type countScanner struct {
	mu sync.Mutex
	n  int
}

func (s *countScanner) Scan(_ context.Context, _ *scan.Request) (scan.Result, error) {
	s.mu.Lock()
	s.n++
	s.mu.Unlock()
	return nil, nil
}

// mkBurst: a pairs file with a long run of bad entries (more than the 100 slots of the engines' error channels)
// between valid ones, through the real GenericEngine / PacketEngine, with an error consumer that starts late:
// every bad entry must still give exactly one error record.
func mkBurst(caseSeed int64, engine string) burstJ {
	tgt.Settle(baseGoroutines)
	r := hlib.NewRand(caseSeed)
	c := burstJ{Kind: "burst", CaseSeed: caseSeed, Engine: engine, Cmd: "tcp", NBad: map[string]int{}, Errors: map[string]int{},
		LateMS: 300 + r.Intn(200)}
	if engine == "generic" {
		c.Cmd = "generic"
	}
	base := uint32(r.Uint64())
	var ls []tgt.Line
	valid := func(n int) {
		for i := 0; i < n; i++ {
			ls = append(ls, tgt.RandLine(r, "valid", base+uint32(r.Intn(64))))
			c.NValid++
		}
	}
	valid(2)
	nbad := 230 + r.Intn(150)
	classes := []string{"badip", "badip", "badport", "noip", "noport"}
	cause := map[string]int{"badip": tgt.EIP, "noip": tgt.EIP, "badport": tgt.EPort, "noport": tgt.EPort}
	for i := 0; i < nbad; i++ {
		k := classes[r.Intn(len(classes))]
		ls = append(ls, tgt.RandLine(r, k, base+uint32(r.Intn(64))))
		c.NBad[tgt.ClassName[cause[k]]]++
	}
	valid(2)
	opts := &command.VerifTargetOpts{GatewayMAC: net.HardwareAddr{0xee, 1, 2, 3, 4, 5}, Cache: arp.NewCache()}
	c.Cache = engine == "packet"
	opts.IPFile = tgt.WriteTemp(tmpDir, fmt.Sprintf("b%d.jsonl", caseSeed&0xffff), tgt.FileText(ls))
	defer os.Remove(opts.IPFile)
	ctx, cancel := context.WithCancel(context.Background())
	defer cancel()
	rng := &scan.Range{SrcIP: net.IPv4(10, 0, 0, 1).To4(), SrcMAC: net.HardwareAddr{2, 0, 0, 0, 0, 1}}
	var done <-chan interface{}
	var errc <-chan error
	cw, cs := &countWriter{}, &countScanner{}
	if engine == "generic" {
		done, errc = command.VerifGenericScanEngine(ctx, opts, 4, cs).Start(ctx, rng)
	} else {
		ps := command.VerifScanMethod(ctx, "tcp", opts)
		done, errc = scan.NewPacketEngine(ps, packet.NewSender(cw), noReceiver{}).Start(ctx, rng)
	}
	time.Sleep(time.Duration(c.LateMS) * time.Millisecond) // the logger is late
	fin := make(chan struct{})
	go func() {
		defer close(fin)
		for err := range errc {
			c.Errors[tgt.ClassName[tgt.ErrClass(err)]]++
		}
	}()
	select {
	case <-done:
		c.Done = true
	case <-time.After(20 * time.Second):
	}
	select {
	case <-fin:
	case <-time.After(5 * time.Second):
	}
	cw.mu.Lock()
	cs.mu.Lock()
	c.Probes = cw.n + cs.n
	cs.mu.Unlock()
	cw.mu.Unlock()
	return c
}

// recLogger is the logger of a command as startScanEngine sees it: it counts the error records by class; like a real
// logger writing to a terminal it takes a moment per record.
type recLogger struct {
	mu     sync.Mutex
	errors map[string]int
	delay  time.Duration
}

func (l *recLogger) Error(err error) {
	time.Sleep(l.delay)
	l.mu.Lock()
	l.errors[tgt.ClassName[tgt.ErrClass(err)]]++
	l.mu.Unlock()
}

func (l *recLogger) LogResults(ctx context.Context, results <-chan scan.Result) {
	for {
		select {
		case <-ctx.Done():
			return
		case _, ok := <-results:
			if !ok {
				return
			}
		}
	}
}

// mkTail: bad entries at the END of a pairs file through the real startScanEngine (logger goroutines, exit delay,
// cancellation) of the application scans with an exit delay of 0..5 ms: every bad entry must still be logged.
func mkTail(caseSeed int64) burstJ {
	tgt.Settle(baseGoroutines)
	r := hlib.NewRand(caseSeed)
	c := burstJ{Kind: "burst", CaseSeed: caseSeed, Engine: "start", Cmd: "generic", NBad: map[string]int{}, Errors: map[string]int{}}
	c.ExitDelayUS = []int{0, 0, 1000, 5000}[r.Intn(4)]
	base := uint32(r.Uint64())
	var ls []tgt.Line
	for i := 0; i < 3; i++ {
		ls = append(ls, tgt.RandLine(r, "valid", base+uint32(r.Intn(64))))
		c.NValid++
	}
	nbad := 120 + r.Intn(140)
	classes := []string{"badip", "badport", "noip", "noport"}
	cause := map[string]int{"badip": tgt.EIP, "noip": tgt.EIP, "badport": tgt.EPort, "noport": tgt.EPort}
	for i := 0; i < nbad; i++ {
		k := classes[r.Intn(len(classes))]
		ls = append(ls, tgt.RandLine(r, k, base+uint32(r.Intn(64))))
		c.NBad[tgt.ClassName[cause[k]]]++
	}
	opts := &command.VerifTargetOpts{}
	opts.IPFile = tgt.WriteTemp(tmpDir, fmt.Sprintf("t%d.jsonl", caseSeed&0xffff), tgt.FileText(ls))
	defer os.Remove(opts.IPFile)
	ctx, cancel := context.WithCancel(context.Background())
	defer cancel()
	cs := &countScanner{}
	lg := &recLogger{errors: c.Errors, delay: 100 * time.Microsecond}
	fin := make(chan error, 1)
	go func() {
		fin <- command.VerifStartScanEngine(ctx, command.VerifGenericScanEngine(ctx, opts, 4, cs), lg, time.Duration(c.ExitDelayUS)*time.Microsecond)
	}()
	select {
	case <-fin:
		c.Done = true
	case <-time.After(20 * time.Second):
	}
	lg.mu.Lock()
	defer lg.mu.Unlock()
	cs.mu.Lock()
	c.Probes = cs.n
	cs.mu.Unlock()
	return c
}

func main() {
	out := flag.String("out", "cases.jsonl", "output file")
	seed := flag.Int64("seed", 1, "seed")
	count := flag.Int("n", 600, "number of file cases")
	nst := flag.Int("nstages", 200, "number of decorator cases")
	nburst := flag.Int("nburst", 2, "number of error-burst cases (alternating generic / packet engine)")
	nlong := flag.Int("nlong", 40, "number of file cases with one over-long physical line (64 KiB .. 5 x 64 KiB)")
	one := flag.String("replay", "", "replay one case: file:<case seed> | longfile:<case seed> | stages:<case seed>")
	flag.Parse()
	baseGoroutines = runtime.NumGoroutine()
	var err error
	if tmpDir, err = os.MkdirTemp("", "c13-"); err != nil {
		panic(err)
	}
	defer os.RemoveAll(tmpDir)
	w := hlib.NewOut(*out)
	defer w.Close()
	if *one != "" {
		kind, rest, _ := strings.Cut(*one, ":")
		var cs int64
		fmt.Sscan(rest, &cs)
		if kind == "burst-start" {
			w.Put(mkTail(cs))
		} else if kind == "burst-generic" || kind == "burst-packet" {
			w.Put(mkBurst(cs, strings.TrimPrefix(kind, "burst-")))
		} else if kind == "stages" {
			w.Put(mkStagesCase(cs))
		} else if kind == "longfile" {
			w.Put(mkLongCase(cs))
		} else {
			w.Put(mkFileCase(cs))
		}
		return
	}
	r := hlib.NewRand(*seed)
	for i := 0; i < *count; i++ {
		w.Put(mkFileCase(r.Int63()))
	}
	for i := 0; i < *nst; i++ {
		w.Put(mkStagesCase(r.Int63()))
	}
	rl := hlib.NewRand(*seed ^ 0x6c6f6e676c696e65) // its own stream: the other stages keep their cases
	for i := 0; i < *nlong; i++ {
		w.Put(mkLongCase(rl.Int63()))
	}
	for i := 0; i < *nburst; i++ {
		w.Put(mkBurst(r.Int63(), []string{"generic", "packet"}[i%2]))
	}
	for i := 0; i < *nburst; i++ {
		w.Put(mkTail(r.Int63()))
	}
}
