package main

// Failing and negative probes end to end: the real `sx socks|elastic|docker --json -f pairs -w 2 -t 500ms` against
// one good service, one closed port, one peer that accepts and never answers, and (socks) one peer that answers the
// method request with 05 FF (no acceptable method: a negative probe, neither a record nor an error).  The property:
// exactly one output record per probe that detected the service, exactly one error record per failed probe, none for
// a negative probe; the process neither crashes nor stops early.

import (
	"bufio"
	"bytes"
	"encoding/json"
	"fmt"
	"io"
	"net"
	"os"
	"os/exec"
	"path/filepath"
	"strings"
	"sync"
	"syscall"
	"time"

	"verifharness/hlib"
)

type faultObs struct {
	Class      string            `json:"class"`
	Cmd        string            `json:"cmd"`
	Args       []string          `json:"args"`
	Roles      map[string]string `json:"roles"` // target -> good | closed | silent | negative
	Records    map[string]int    `json:"records"`
	ErrRecords int               `json:"err_records"`
	ErrFor     map[string]int    `json:"err_for"` // error records that name the target's port
	Exit       int               `json:"exit"`
	Panic      string            `json:"panic"`
	Stderr     string            `json:"stderr"`
	Ms         int64             `json:"ms"`
}

func runE2EFault(sx, outp string) {
	dir, err := os.MkdirTemp(".", "c08-fault-")
	if err != nil {
		panic(err)
	}
	dir, _ = filepath.Abs(dir)
	defer os.RemoveAll(dir)
	kinds := []string{"socks", "elastic", "docker"}
	res := make([]faultObs, len(kinds))
	var wg sync.WaitGroup
	for i, kind := range kinds {
		wg.Add(1)
		go func(i int, kind string) {
			defer wg.Done()
			o := faultObs{Class: "e2e-fault", Cmd: kind, Roles: map[string]string{}, Records: map[string]int{}, ErrFor: map[string]int{}}
			defer func() { res[i] = o }()
			cnt := &counter{n: map[string]int{}}
			hold := make(chan struct{})
			defer close(hold)
			roles := []string{"good", "closed", "silent"}
			if kind == "socks" {
				roles = append(roles, "negative")
			}
			var file bytes.Buffer
			for _, role := range roles {
				if role == "closed" {
					// a port that is bound but does not listen: connections are refused, and nobody else can get the port meanwhile
					fd, err := syscall.Socket(syscall.AF_INET, syscall.SOCK_STREAM, 0)
					if err != nil {
						return
					}
					defer syscall.Close(fd)
					if err := syscall.Bind(fd, &syscall.SockaddrInet4{Addr: [4]byte{127, 0, 0, 1}}); err != nil {
						return
					}
					sa, err := syscall.Getsockname(fd)
					if err != nil {
						return
					}
					p := sa.(*syscall.SockaddrInet4).Port
					o.Roles[fmt.Sprintf("127.0.0.1:%d", p)] = role
					fmt.Fprintf(&file, "{\"ip\":\"127.0.0.1\",\"port\":%d}\n", p)
					continue
				}
				l, err := net.Listen("tcp4", "127.0.0.1:0")
				if err != nil {
					return
				}
				p := l.Addr().(*net.TCPAddr).Port
				key := fmt.Sprintf("127.0.0.1:%d", p)
				o.Roles[key] = role
				switch role {
				case "good":
					defer l.Close()
					if kind == "socks" {
						go socksServer(l, cnt, key)
					} else {
						go httpServer(l, cnt, key, kind, false)
					}
				case "silent":
					defer l.Close()
					go func() {
						for {
							c, err := l.Accept()
							if err != nil {
								return
							}
							go func(c net.Conn) { io.Copy(io.Discard, c); <-hold; c.Close() }(c)
						}
					}()
				case "negative":
					defer l.Close()
					go func() {
						for {
							c, err := l.Accept()
							if err != nil {
								return
							}
							go func(c net.Conn) {
								defer c.Close()
								buf := make([]byte, 3)
								c.SetDeadline(time.Now().Add(2 * time.Second))
								if _, err := io.ReadFull(c, buf); err == nil {
									c.Write([]byte{5, 0xff})
								}
							}(c)
						}
					}()
				}
				fmt.Fprintf(&file, "{\"ip\":\"127.0.0.1\",\"port\":%d}\n", p)
			}
			fn := filepath.Join(dir, kind+".jsonl")
			os.WriteFile(fn, file.Bytes(), 0o644)
			o.Args = []string{kind, "--json", "-f", fn, "-w", "2", "-t", "500ms", "--exit-delay", "300ms"}
			var stdout, stderr bytes.Buffer
			cmd := exec.Command(sx, o.Args...)
			cmd.Stdout, cmd.Stderr = &stdout, &stderr
			cmd.Env = append(os.Environ(), "HTTP_PROXY=", "http_proxy=", "NO_PROXY=*")
			t0 := time.Now()
			err := cmd.Run()
			o.Ms = time.Since(t0).Milliseconds()
			if ee, ok := err.(*exec.ExitError); ok {
				o.Exit = ee.ExitCode()
			} else if err != nil {
				o.Exit = -1
			}
			for _, line := range strings.Split(stderr.String(), "\n") {
				if strings.HasPrefix(line, "panic:") && o.Panic == "" {
					o.Panic = line
				}
				if strings.Contains(line, "\"level\":\"error\"") {
					o.ErrRecords++
					for key := range o.Roles {
						if strings.Contains(line, key) {
							o.ErrFor[key]++
						}
					}
				}
			}
			o.Stderr = stderr.String()
			if len(o.Stderr) > 900 {
				o.Stderr = o.Stderr[:900]
			}
			s := bufio.NewScanner(&stdout)
			s.Buffer(make([]byte, 1<<20), 1<<20)
			for s.Scan() {
				var v struct {
					IP   string `json:"ip"`
					Host string `json:"host"`
					Port int    `json:"port"`
				}
				if json.Unmarshal(s.Bytes(), &v) != nil {
					o.Records["<not a record> "+s.Text()]++
					continue
				}
				k := fmt.Sprintf("%s:%d", v.IP, v.Port)
				if v.IP == "" {
					k = v.Host[strings.LastIndex(v.Host, "/")+1:]
				}
				o.Records[k]++
			}
		}(i, kind)
	}
	wg.Wait()
	w := hlib.NewOut(outp)
	defer w.Close()
	for i := range res {
		w.Put(res[i])
	}
}
