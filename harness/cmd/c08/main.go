// Driver for C08 (and the cancel runs of C12): runs the REAL application-scan path
// (scan.NewScanEngine + scan.NewResultChan + the real JSON logger + the real startScanEngine via the
// verif hook) with a scripted request generator and Scanner, and records the boundary: Scan calls
// per target, lines printed, errors logged, what had finished when done was closed, whether and
// when the call returned.
package main

import (
	"bufio"
	"bytes"
	"context"
	"encoding/json"
	"flag"
	"fmt"
	"runtime"
	"sort"
	"sync"
	"sync/atomic"
	"time"

	"github.com/v-byte-cpu/sx/command"
	"github.com/v-byte-cpu/sx/command/log"
	"github.com/v-byte-cpu/sx/pkg/scan"
	"verifharness/hlib"
)

type req struct {
	ID  int    `json:"id"`
	Bad bool   `json:"bad"`
	Out string `json:"out"` // pos | neg | fail
}

type idErr struct {
	id   int
	kind string
}

func (e *idErr) Error() string { return fmt.Sprintf("%s:%d", e.kind, e.id) }

type result struct{ id int }

func (r *result) String() string               { return fmt.Sprintf("res %d", r.id) }
func (r *result) ID() string                   { return fmt.Sprint(r.id) }
func (r *result) MarshalJSON() ([]byte, error) { return []byte(fmt.Sprintf(`{"id":%d}`, r.id)), nil }

type scriptGen struct {
	reqs []req
	cap  int
}

func (g *scriptGen) GenerateRequests(ctx context.Context, _ *scan.Range) (<-chan *scan.Request, error) {
	out := make(chan *scan.Request, g.cap)
	go func() {
		defer close(out)
		for i := range g.reqs {
			r := &scan.Request{Meta: map[string]interface{}{"id": g.reqs[i].ID}}
			if g.reqs[i].Bad {
				r.Err = &idErr{g.reqs[i].ID, "req"}
			}
			select {
			case <-ctx.Done():
				return
			case out <- r:
			}
		}
	}()
	return out, nil
}

type scriptScanner struct {
	byID     map[int]req
	mu       sync.Mutex
	calls    map[int]int
	started  int64
	finished int64
	slow     bool
	onScan   func(n int64)
}

func (s *scriptScanner) Scan(ctx context.Context, r *scan.Request) (scan.Result, error) {
	id := r.Meta["id"].(int)
	n := atomic.AddInt64(&s.started, 1)
	s.mu.Lock()
	s.calls[id]++
	s.mu.Unlock()
	if s.onScan != nil {
		s.onScan(n)
	}
	if s.slow {
		runtime.Gosched()
		time.Sleep(time.Duration(id%5) * 20 * time.Microsecond)
	}
	defer atomic.AddInt64(&s.finished, 1)
	switch s.byID[id].Out {
	case "pos":
		return &result{id}, nil
	case "fail":
		return nil, &idErr{id, "scan"}
	}
	return nil, nil
}

// engine wrapper: notes how many probes had finished when done was closed
type watchEngine struct {
	scan.EngineResulter
	sc             *scriptScanner
	startedAtDone  int64
	finishedAtDone int64
	doneSeen       int32
}

func (w *watchEngine) Start(ctx context.Context, r *scan.Range) (<-chan interface{}, <-chan error) {
	done, errc := w.EngineResulter.Start(ctx, r)
	done2 := make(chan interface{})
	go func() {
		<-done
		atomic.StoreInt64(&w.startedAtDone, atomic.LoadInt64(&w.sc.started))
		atomic.StoreInt64(&w.finishedAtDone, atomic.LoadInt64(&w.sc.finished))
		atomic.StoreInt32(&w.doneSeen, 1)
		close(done2)
	}()
	return done2, errc
}

// logger: the real logger for results; errors are recorded instead of going to zap
type recLogger struct {
	log.Logger
	mu   sync.Mutex
	errs []string
}

func (l *recLogger) Error(err error) {
	l.mu.Lock()
	l.errs = append(l.errs, err.Error())
	l.mu.Unlock()
}

type lockedBuf struct {
	mu sync.Mutex
	b  bytes.Buffer
}

func (b *lockedBuf) Write(p []byte) (int, error) {
	b.mu.Lock()
	defer b.mu.Unlock()
	return b.b.Write(p)
}

type obs struct {
	Case           int      `json:"case"`
	Class          string   `json:"class"`
	W              int      `json:"w"`
	Cap            int      `json:"cap"`
	Reqs           []req    `json:"reqs"`
	CancelAt       int      `json:"cancel_at"`
	DelayMs        int      `json:"delay_ms"`
	Scans          []int    `json:"scans"`   // ids scanned, sorted, with multiplicity
	Printed        []int    `json:"printed"` // ids printed, in output order
	BadLines       int      `json:"bad_lines"`
	Errs           []string `json:"errs"`
	StartedAtDone  int64    `json:"started_at_done"`
	FinishedAtDone int64    `json:"finished_at_done"`
	DoneSeen       bool     `json:"done_seen"`
	Returned       bool     `json:"returned"`
	ElapsedMs      int64    `json:"elapsed_ms"`
	Panic          string   `json:"panic"`
	Goroutines     int      `json:"goroutines_left"`
}

func runCase(idx int, class string, w, cap int, reqs []req, cancelAt int, delay time.Duration, slow bool) (o obs) {
	o = obs{Case: idx, Class: class, W: w, Cap: cap, Reqs: reqs, CancelAt: cancelAt, DelayMs: int(delay / time.Millisecond)}
	byID := map[int]req{}
	for _, r := range reqs {
		byID[r.ID] = r
	}
	ctx, cancel := context.WithCancel(context.Background())
	defer cancel()
	sc := &scriptScanner{byID: byID, calls: map[int]int{}, slow: slow}
	if cancelAt >= 0 {
		sc.onScan = func(n int64) {
			if n == int64(cancelAt)+1 {
				cancel()
			}
		}
		if cancelAt == 0 && len(reqs) == 0 {
			cancel()
		}
	}
	out := &lockedBuf{}
	real, err := log.NewLogger(out, "c08", log.JSON())
	if err != nil {
		o.Panic = "logger: " + err.Error()
		return
	}
	lg := &recLogger{Logger: real}
	results := scan.NewResultChan(ctx, 1000)
	engine := &watchEngine{EngineResulter: scan.NewScanEngine(&scriptGen{reqs, cap}, sc, results, scan.WithScanWorkerCount(w)), sc: sc}
	before := runtime.NumGoroutine()
	ret := make(chan string, 1)
	t0 := time.Now()
	go func() {
		defer func() {
			if r := recover(); r != nil {
				ret <- fmt.Sprint("panic: ", r)
			}
		}()
		command.VerifStartScanEngine(ctx, engine, lg, delay)
		ret <- ""
	}()
	select {
	case p := <-ret:
		o.Returned = p == ""
		o.Panic = p
	case <-time.After(20*time.Second + delay):
		o.Returned = false
	}
	o.ElapsedMs = time.Since(t0).Milliseconds()
	o.DoneSeen = atomic.LoadInt32(&engine.doneSeen) != 0
	o.StartedAtDone, o.FinishedAtDone = atomic.LoadInt64(&engine.startedAtDone), atomic.LoadInt64(&engine.finishedAtDone)
	sc.mu.Lock()
	for id, n := range sc.calls {
		for i := 0; i < n; i++ {
			o.Scans = append(o.Scans, id)
		}
	}
	sc.mu.Unlock()
	sort.Ints(o.Scans)
	out.mu.Lock()
	s := bufio.NewScanner(bytes.NewReader(out.b.Bytes()))
	for s.Scan() {
		var v struct {
			ID *int `json:"id"`
		}
		if json.Unmarshal(s.Bytes(), &v) != nil || v.ID == nil {
			o.BadLines++
			continue
		}
		o.Printed = append(o.Printed, *v.ID)
	}
	out.mu.Unlock()
	lg.mu.Lock()
	o.Errs = append([]string(nil), lg.errs...)
	lg.mu.Unlock()
	sort.Strings(o.Errs)
	cancel()
	for i := 0; i < 300 && runtime.NumGoroutine() > before; i++ {
		time.Sleep(time.Millisecond)
	}
	o.Goroutines = runtime.NumGoroutine() - before
	return o
}

func genReqs(r *hlib.SplitMix64, count, pBad, pPos, pFail int) []req {
	reqs := make([]req, count)
	for i := range reqs {
		out := "neg"
		x := r.Intn(100)
		if x < pPos {
			out = "pos"
		} else if x < pPos+pFail {
			out = "fail"
		}
		reqs[i] = req{ID: i, Bad: r.Intn(100) < pBad, Out: out}
	}
	return reqs
}

func main() {
	outp := flag.String("out", "cases.jsonl", "output file")
	seed := flag.Int64("seed", 1, "seed")
	count := flag.Int("n", 30, "number of complete runs")
	cancels := flag.Int("cancel", 0, "number of cancel-at-k runs")
	maxReq := flag.Int("maxreq", 3000, "max requests per run")
	delayMs := flag.Int("delay", 300, "exit delay in ms for complete runs")
	par := flag.Int("par", 12, "runs in parallel")
	only := flag.Int("only", -1, "run only the case with this index (same seed, same script)")
	flag.Parse()
	r := hlib.NewRand(*seed)
	workers := []int{1, 2, 7, 100, 1000}
	type job struct {
		idx, w, cap, cancelAt int
		class                 string
		reqs                  []req
		delay                 time.Duration
		slow                  bool
	}
	var jobs []job
	delay := time.Duration(*delayMs) * time.Millisecond
	jobs = append(jobs, job{0, 1, 1, -1, "empty", nil, delay, false})
	jobs = append(jobs, job{1, 2, 1, -1, "tiny", []req{{0, false, "pos"}, {1, true, "pos"}, {2, false, "neg"}, {3, false, "fail"}, {4, false, "pos"}}, delay, false})
	for i := 0; i < *count; i++ {
		w := workers[r.Intn(len(workers))]
		cnt := r.Intn(*maxReq + 1)
		class, pBad, pPos, pFail := "mixed", 10, 30, 10
		switch r.Intn(5) {
		case 0:
			class, pBad, pPos, pFail = "all-pos", 0, 100, 0 // more results than the 1000-slot buffers when cnt > 1000
		case 1:
			class, pBad, pPos, pFail = "error-burst", 50, 10, 40 // more errors than the 100-slot buffer
		case 2:
			class, pBad, pPos, pFail = "all-neg", 0, 0, 0
		}
		jobs = append(jobs, job{len(jobs), w, []int{0, 1, 100}[r.Intn(3)], -1, class, genReqs(r, cnt, pBad, pPos, pFail), delay, r.Intn(3) == 0})
	}
	for i := 0; i < *cancels; i++ {
		w := workers[r.Intn(len(workers))]
		cnt := 1 + r.Intn(600)
		jobs = append(jobs, job{len(jobs), w, []int{0, 1, 100}[r.Intn(3)], r.Intn(cnt/2 + 2), "cancel", genReqs(r, cnt, 20, 40, 20),
			time.Duration(r.Intn(40)) * time.Millisecond, r.Intn(2) == 0})
	}
	res := make([]obs, len(jobs))
	sem := make(chan struct{}, *par)
	var wg sync.WaitGroup
	for i := range jobs {
		if *only >= 0 && *only != i {
			continue
		}
		wg.Add(1)
		sem <- struct{}{}
		go func(j job) {
			defer wg.Done()
			defer func() { <-sem }()
			res[j.idx] = runCase(j.idx, j.class, j.w, j.cap, j.reqs, j.cancelAt, j.delay, j.slow)
		}(jobs[i])
	}
	wg.Wait()
	w := hlib.NewOut(*outp)
	defer w.Close()
	for i := range res {
		if *only >= 0 && *only != i {
			continue
		}
		res[i].Goroutines = 0 // not meaningful when runs overlap
		w.Put(res[i])
	}
}
