// Driver for C08 (and the cancel runs of C12): runs the REAL application-scan path
// (scan.NewScanEngine + scan.NewResultChan + the real JSON logger + the real startScanEngine via the
// verif hook) with a scripted request generator and Scanner, and records the boundary: Scan calls
// per target, lines printed, errors logged, what had finished when done was closed, whether and
// when the call returned.
package main

import (
	"bufio"
	"bytes"
	"context"
	"encoding/json"
	"flag"
	"fmt"
	"io"
	"net"
	"runtime"
	"sort"
	"sync"
	"sync/atomic"
	"syscall"
	"time"

	"github.com/v-byte-cpu/sx/command"
	"github.com/v-byte-cpu/sx/command/log"
	"github.com/v-byte-cpu/sx/pkg/scan"
	"verifharness/hlib"
)

type req struct {
	ID  int    `json:"id"`
	Bad bool   `json:"bad"`
	Out string `json:"out"` // pos | neg | fail
}

type idErr struct {
	id   int
	kind string
}

func (e *idErr) Error() string { return fmt.Sprintf("%s:%d", e.kind, e.id) }

// a failed probe may be a failure of the timeout class (a net.Error with Timeout(), a wrapped deadline error, a
// temporary errno): it is still ONE failed probe of ONE target
func (e *idErr) Timeout() bool   { return e.kind == "scan" && e.id%4 == 3 }
func (e *idErr) Temporary() bool { return e.Timeout() }
func (e *idErr) Unwrap() error {
	if e.kind != "scan" {
		return nil
	}
	switch e.id % 4 {
	case 1:
		return context.DeadlineExceeded
	case 2:
		return syscall.ECONNREFUSED
	}
	return nil
}

type result struct{ id int }

func (r *result) String() string               { return fmt.Sprintf("res %d", r.id) }
func (r *result) ID() string                   { return fmt.Sprint(r.id) }
func (r *result) MarshalJSON() ([]byte, error) { return []byte(fmt.Sprintf(`{"id":%d}`, r.id)), nil }

type scriptGen struct {
	reqs []req
	cap  int
}

func (g *scriptGen) GenerateRequests(ctx context.Context, _ *scan.Range) (<-chan *scan.Request, error) {
	out := make(chan *scan.Request, g.cap)
	go func() {
		defer close(out)
		for i := range g.reqs {
			r := &scan.Request{Meta: map[string]interface{}{"id": g.reqs[i].ID}}
			if g.reqs[i].Bad {
				r.Err = &idErr{g.reqs[i].ID, "req"}
			}
			select {
			case <-ctx.Done():
				return
			case out <- r:
			}
		}
	}()
	return out, nil
}

type scriptScanner struct {
	byID     map[int]req
	mu       sync.Mutex
	calls    map[int]int
	started  int64
	finished int64
	slow     bool
	onScan   func(n int64)
}

func reqID(r *scan.Request) int {
	if r.Meta != nil {
		return r.Meta["id"].(int)
	}
	return int(r.DstPort) - 1 // requests from the real file generator: id = port - 1
}

func (s *scriptScanner) Scan(ctx context.Context, r *scan.Request) (scan.Result, error) {
	id := reqID(r)
	n := atomic.AddInt64(&s.started, 1)
	s.mu.Lock()
	s.calls[id]++
	s.mu.Unlock()
	if s.onScan != nil {
		s.onScan(n)
	}
	if s.slow {
		runtime.Gosched()
		time.Sleep(time.Duration(id%5) * 20 * time.Microsecond)
	}
	defer atomic.AddInt64(&s.finished, 1)
	switch s.byID[id].Out {
	case "pos":
		return &result{id}, nil
	case "fail":
		return nil, &idErr{id, "scan"}
	}
	return nil, nil
}

// engine wrapper: notes how many probes had finished when done was closed
type watchEngine struct {
	scan.EngineResulter
	sc             *scriptScanner
	startedAtDone  int64
	finishedAtDone int64
	doneSeen       int32
}

func (w *watchEngine) Start(ctx context.Context, r *scan.Range) (<-chan interface{}, <-chan error) {
	done, errc := w.EngineResulter.Start(ctx, r)
	done2 := make(chan interface{})
	go func() {
		<-done
		atomic.StoreInt64(&w.startedAtDone, atomic.LoadInt64(&w.sc.started))
		atomic.StoreInt64(&w.finishedAtDone, atomic.LoadInt64(&w.sc.finished))
		atomic.StoreInt32(&w.doneSeen, 1)
		close(done2)
	}()
	return done2, errc
}

// logger: the real logger for results; errors are recorded instead of going to zap
type recLogger struct {
	log.Logger
	mu   sync.Mutex
	errs []string
}

func (l *recLogger) Error(err error) {
	l.mu.Lock()
	l.errs = append(l.errs, err.Error())
	l.mu.Unlock()
}

type lockedBuf struct {
	mu   sync.Mutex
	b    bytes.Buffer
	gate chan struct{} // when non-nil, every Write waits until it is closed (a slow terminal / pipe)
}

func (b *lockedBuf) Write(p []byte) (int, error) {
	if b.gate != nil {
		<-b.gate
	}
	b.mu.Lock()
	defer b.mu.Unlock()
	return b.b.Write(p)
}

// stalledFile delivers its content and then blocks (an input pipe that stays open) until released
type stalledFile struct {
	r       *bytes.Reader
	release chan struct{}
}

func (f *stalledFile) Read(p []byte) (int, error) {
	if f.r.Len() > 0 {
		return f.r.Read(p)
	}
	<-f.release
	return 0, io.EOF
}
func (f *stalledFile) Close() error { return nil }

type obs struct {
	Case           int      `json:"case"`
	Class          string   `json:"class"`
	W              int      `json:"w"`
	Cap            int      `json:"cap"`
	Reqs           []req    `json:"reqs"`
	CancelAt       int      `json:"cancel_at"`
	DelayMs        int      `json:"delay_ms"`
	Scans          []int    `json:"scans"`   // ids scanned, sorted, with multiplicity
	Printed        []int    `json:"printed"` // ids printed, in output order
	BadLines       int      `json:"bad_lines"`
	Errs           []string `json:"errs"`
	StartedAtDone  int64    `json:"started_at_done"`
	FinishedAtDone int64    `json:"finished_at_done"`
	DoneSeen       bool     `json:"done_seen"`
	Returned       bool     `json:"returned"`
	ElapsedMs      int64    `json:"elapsed_ms"`
	Panic          string   `json:"panic"`
	Goroutines     int      `json:"goroutines_left"`
	ResCap         int      `json:"res_cap"`
	Scenario       string   `json:"scenario"`
	AfterCancelMs  int64    `json:"after_cancel_ms"` // scenario "cancelled during the exit delay": return time after the cancellation
	Rate           string   `json:"rate,omitempty"`  // wired runs: the --rate string
}

func runCase(idx int, class string, w, cap int, reqs []req, cancelAt int, delay time.Duration, slow bool) (o obs) {
	return runCaseX(idx, class, w, cap, reqs, cancelAt, delay, slow, 1000, false, false)
}

// runCaseX: resCap = capacity of the result channels; gated = the output writer blocks until shortly after the
// cancellation; stalled = requests come from the REAL file generator reading an input that delivers all lines
// and then stays open
func runCaseX(idx int, class string, w, cap int, reqs []req, cancelAt int, delay time.Duration, slow bool,
	resCap int, gated, stalled bool) (o obs) {
	o = obs{Case: idx, Class: class, W: w, Cap: cap, Reqs: reqs, CancelAt: cancelAt, DelayMs: int(delay / time.Millisecond), ResCap: resCap}
	if gated {
		o.Scenario = "result path full, slow output"
	} else if stalled {
		o.Scenario = "real file generator on a stalled input"
	}
	byID := map[int]req{}
	for _, r := range reqs {
		byID[r.ID] = r
	}
	ctx, cancel := context.WithCancel(context.Background())
	defer cancel()
	sc := &scriptScanner{byID: byID, calls: map[int]int{}, slow: slow}
	out := &lockedBuf{}
	if gated {
		out.gate = make(chan struct{})
	}
	release := make(chan struct{})
	defer func() {
		select {
		case <-release:
		default:
			close(release)
		}
	}()
	if cancelAt >= 0 {
		var once sync.Once
		sc.onScan = func(n int64) {
			if n == int64(cancelAt)+1 || ((gated || stalled) && n == int64(cancelAt)) {
				once.Do(func() {
					go func() {
						if gated || stalled {
							time.Sleep(3 * time.Millisecond) // let the last probe reach its blocking point
						}
						cancel()
						if gated {
							time.Sleep(5 * time.Millisecond)
							close(out.gate)
						}
					}()
				})
			}
		}
		if cancelAt == 0 && len(reqs) == 0 {
			cancel()
		}
	}
	real, err := log.NewLogger(out, "c08", log.JSON())
	if err != nil {
		o.Panic = "logger: " + err.Error()
		return
	}
	lg := &recLogger{Logger: real}
	var tCancel atomic.Int64
	inDelay := cancelAt == -2
	if inDelay {
		o.Scenario = "cancelled during the exit delay"
	}
	results := scan.NewResultChan(ctx, resCap)
	var gen scan.RequestGenerator = &scriptGen{reqs, cap}
	if stalled {
		var lines bytes.Buffer
		for _, r := range reqs {
			fmt.Fprintf(&lines, "{\"ip\":\"10.0.0.1\",\"port\":%d}\n", r.ID+1)
		}
		gen = scan.NewFileIPPortGenerator(func() (io.ReadCloser, error) {
			return &stalledFile{r: bytes.NewReader(lines.Bytes()), release: release}, nil
		})
	}
	engine := &watchEngine{EngineResulter: scan.NewScanEngine(gen, sc, results, scan.WithScanWorkerCount(w)), sc: sc}
	before := runtime.NumGoroutine()
	ret := make(chan string, 1)
	t0 := time.Now()
	if inDelay {
		// Ctrl-C shortly after the last probe finished, while the exit delay is still running
		go func() {
			for atomic.LoadInt32(&engine.doneSeen) == 0 {
				time.Sleep(time.Millisecond)
			}
			time.Sleep(20 * time.Millisecond)
			tCancel.Store(time.Now().UnixNano())
			cancel()
		}()
	}
	go func() {
		defer func() {
			if r := recover(); r != nil {
				ret <- fmt.Sprint("panic: ", r)
			}
		}()
		command.VerifStartScanEngine(ctx, engine, lg, delay)
		ret <- ""
	}()
	select {
	case p := <-ret:
		o.Returned = p == ""
		o.Panic = p
	case <-time.After(20*time.Second + delay):
		o.Returned = false
	}
	o.ElapsedMs = time.Since(t0).Milliseconds()
	if tc := tCancel.Load(); tc != 0 {
		o.AfterCancelMs = (time.Now().UnixNano() - tc) / 1e6
	}
	o.DoneSeen = atomic.LoadInt32(&engine.doneSeen) != 0
	o.StartedAtDone, o.FinishedAtDone = atomic.LoadInt64(&engine.startedAtDone), atomic.LoadInt64(&engine.finishedAtDone)
	sc.mu.Lock()
	for id, n := range sc.calls {
		for i := 0; i < n; i++ {
			o.Scans = append(o.Scans, id)
		}
	}
	sc.mu.Unlock()
	sort.Ints(o.Scans)
	out.mu.Lock()
	s := bufio.NewScanner(bytes.NewReader(out.b.Bytes()))
	for s.Scan() {
		var v struct {
			ID *int `json:"id"`
		}
		if json.Unmarshal(s.Bytes(), &v) != nil || v.ID == nil {
			o.BadLines++
			continue
		}
		o.Printed = append(o.Printed, *v.ID)
	}
	out.mu.Unlock()
	lg.mu.Lock()
	o.Errs = append([]string(nil), lg.errs...)
	lg.mu.Unlock()
	sort.Strings(o.Errs)
	cancel()
	for i := 0; i < 300 && runtime.NumGoroutine() > before; i++ {
		time.Sleep(time.Millisecond)
	}
	o.Goroutines = runtime.NumGoroutine() - before
	return o
}

// countScanner records every Scan call by target
type countScanner struct {
	mu    sync.Mutex
	calls map[string]int
}

func (c *countScanner) Scan(_ context.Context, r *scan.Request) (scan.Result, error) {
	c.mu.Lock()
	c.calls[fmt.Sprintf("%s:%d", r.DstIP, r.DstPort)]++
	c.mu.Unlock()
	return nil, nil
}

type wiredObs struct {
	Class   string         `json:"class"`
	Rate    string         `json:"rate"`
	Workers int            `json:"workers"`
	Targets []string       `json:"targets"`
	Calls   map[string]int `json:"calls"`
	Done    bool           `json:"done"`
	Err     string         `json:"err"`
	Ms      int64          `json:"ms"`
	BoundMs int64          `json:"bound_ms"`
}

// runWired: the engine exactly as the application-scan commands build it (parseRawOptions on the raw --rate
// string, then genericScanCmdOpts.newScanEngine), real request generator over 127.0.0.0/31 x one port, counting
// scanner. Rates below one per second included.
func runWired(outp string) {
	type cfg struct {
		rate    string
		workers int
		boundMs int64
	}
	var cfgs []cfg
	for _, w := range []int{1, 4, 100} {
		for _, r := range []struct {
			s string
			b int64
		}{{"", 3000}, {"100/s", 3000}, {"5/s", 4000}, {"1/1500ms", 8000}, {"2/3s", 8000}, {"3/4s", 8000}, {"40/m", 8000}} {
			cfgs = append(cfgs, cfg{r.s, w, r.b})
		}
	}
	res := make([]wiredObs, len(cfgs))
	var wg sync.WaitGroup
	for i, c := range cfgs {
		wg.Add(1)
		go func(i int, c cfg) {
			defer wg.Done()
			o := wiredObs{Class: "wired", Rate: c.rate, Workers: c.workers, Targets: []string{"127.0.0.0:80", "127.0.0.1:80"}, BoundMs: c.boundMs}
			defer func() { res[i] = o }()
			ctx, cancel := context.WithCancel(context.Background())
			defer cancel()
			sc := &countScanner{calls: map[string]int{}}
			eng, err := command.VerifC15NewGenericEngine(ctx, c.rate, c.workers, sc)
			if err != nil {
				o.Err = err.Error()
				return
			}
			_, subnet, _ := net.ParseCIDR("127.0.0.0/31")
			subnet.IP = subnet.IP.To4()
			t0 := time.Now()
			done, errc := eng.Start(ctx, &scan.Range{DstSubnet: subnet, Ports: []*scan.PortRange{{StartPort: 80, EndPort: 80}}})
			go func() {
				for range eng.Results() {
				}
			}()
			go func() {
				for range errc {
				}
			}()
			select {
			case <-done:
				o.Done = true
			case <-time.After(time.Duration(c.boundMs) * time.Millisecond):
			}
			o.Ms = time.Since(t0).Milliseconds()
			sc.mu.Lock()
			o.Calls = map[string]int{}
			for k, v := range sc.calls {
				o.Calls[k] = v
			}
			sc.mu.Unlock()
		}(i, c)
	}
	wg.Wait()
	w := hlib.NewOut(outp)
	defer w.Close()
	for i := range res {
		w.Put(res[i])
	}
}

func genReqs(r *hlib.SplitMix64, count, pBad, pPos, pFail int) []req {
	reqs := make([]req, count)
	for i := range reqs {
		out := "neg"
		x := r.Intn(100)
		if x < pPos {
			out = "pos"
		} else if x < pPos+pFail {
			out = "fail"
		}
		reqs[i] = req{ID: i, Bad: r.Intn(100) < pBad, Out: out}
	}
	return reqs
}

func main() {
	outp := flag.String("out", "cases.jsonl", "output file")
	seed := flag.Int64("seed", 1, "seed")
	count := flag.Int("n", 30, "number of complete runs")
	cancels := flag.Int("cancel", 0, "number of cancel-at-k runs")
	maxReq := flag.Int("maxreq", 3000, "max requests per run")
	delayMs := flag.Int("delay", 300, "exit delay in ms for complete runs")
	par := flag.Int("par", 12, "runs in parallel")
	only := flag.Int("only", -1, "run only the case with this index (same seed, same script)")
	wired := flag.Bool("wired", false, "run the engines the socks/docker/elastic commands build (option parsing + newScanEngine) for --rate / --workers settings incl. rates below 1/s")
	e2e := flag.String("e2e", "", "path of the sx binary: run the real socks/elastic/docker commands against loopback services")
	e2ef := flag.String("e2efault", "", "path of the sx binary: the real socks/elastic/docker commands against a good, a closed, a silent and (socks) a negative peer")
	e2ec := flag.String("e2ecancel", "", "path of the sx binary: SIGINT while a probe of the real socks/elastic/docker command is in flight against a silent peer")
	flag.Parse()
	if *e2ec != "" {
		runE2ECancel(*e2ec, *outp)
		return
	}
	if *e2ef != "" {
		runE2EFault(*e2ef, *outp)
		return
	}
	if *e2e != "" {
		runE2E(*e2e, *outp)
		return
	}
	if *wired {
		runWired(*outp)
		return
	}
	r := hlib.NewRand(*seed)
	workers := []int{1, 2, 7, 100, 1000}
	type job struct {
		idx, w, cap, cancelAt int
		class                 string
		reqs                  []req
		delay                 time.Duration
		slow                  bool
		resCap                int
		gated, stalled        bool
	}
	var jobs []job
	delay := time.Duration(*delayMs) * time.Millisecond
	jobs = append(jobs, job{idx: 0, w: 1, cap: 1, cancelAt: -1, class: "empty", delay: delay, resCap: 1000})
	jobs = append(jobs, job{idx: 1, w: 2, cap: 1, cancelAt: -1, class: "tiny", reqs: []req{{0, false, "pos"}, {1, true, "pos"}, {2, false, "neg"}, {3, false, "fail"}, {4, false, "pos"}}, delay: delay, resCap: 1000})
	for i := 0; i < *count; i++ {
		w := workers[r.Intn(len(workers))]
		cnt := r.Intn(*maxReq + 1)
		class, pBad, pPos, pFail := "mixed", 10, 30, 10
		switch r.Intn(5) {
		case 0:
			class, pBad, pPos, pFail = "all-pos", 0, 100, 0 // more results than the 1000-slot buffers when cnt > 1000
		case 1:
			class, pBad, pPos, pFail = "error-burst", 50, 10, 40 // more errors than the 100-slot buffer
		case 2:
			class, pBad, pPos, pFail = "all-neg", 0, 0, 0
		}
		jobs = append(jobs, job{idx: len(jobs), w: w, cap: []int{0, 1, 100}[r.Intn(3)], cancelAt: -1, class: class, reqs: genReqs(r, cnt, pBad, pPos, pFail), delay: delay, slow: r.Intn(3) == 0, resCap: 1000})
	}
	for i := 0; i < *cancels; i++ {
		w := workers[r.Intn(len(workers))]
		cnt := 1 + r.Intn(600)
		if i%7 == 5 {
			// the scan completes; the cancellation falls inside a long exit delay
			jobs = append(jobs, job{idx: len(jobs), w: w, cap: []int{0, 1, 100}[r.Intn(3)], cancelAt: -2, class: "cancel",
				reqs: genReqs(r, 1+r.Intn(60), 20, 40, 20), delay: time.Duration(4+r.Intn(4)) * time.Second, resCap: 1000})
			continue
		}
		switch i % 5 {
		case 3:
			// the whole result path is full when the cancellation falls: every worker is parked in Put
			w = []int{1, 2, 7}[r.Intn(3)]
			rc := 2 + r.Intn(30)
			full := 2*rc + 2 + w
			jobs = append(jobs, job{idx: len(jobs), w: w, cap: 1, cancelAt: full, class: "cancel", reqs: genReqs(r, full+8+r.Intn(20), 0, 100, 0),
				delay: time.Duration(r.Intn(20)) * time.Millisecond, resCap: rc, gated: true})
		case 4:
			// the request source is the real file generator on an input that stays open after k lines
			w = []int{1, 2, 7, 100}[r.Intn(4)]
			k := r.Intn(40)
			jobs = append(jobs, job{idx: len(jobs), w: w, cap: 0, cancelAt: k, class: "cancel", reqs: genReqs(r, k, 0, 40, 20),
				delay: time.Duration(r.Intn(20)) * time.Millisecond, resCap: 1000, stalled: true})
		default:
			jobs = append(jobs, job{idx: len(jobs), w: w, cap: []int{0, 1, 100}[r.Intn(3)], cancelAt: r.Intn(cnt/2 + 2), class: "cancel",
				reqs: genReqs(r, cnt, 20, 40, 20), delay: time.Duration(r.Intn(40)) * time.Millisecond, slow: r.Intn(2) == 0, resCap: 1000})
		}
	}
	res := make([]obs, len(jobs))
	sem := make(chan struct{}, *par)
	var wg sync.WaitGroup
	for i := range jobs {
		if *only >= 0 && *only != i {
			continue
		}
		wg.Add(1)
		sem <- struct{}{}
		go func(j job) {
			defer wg.Done()
			defer func() { <-sem }()
			res[j.idx] = runCaseX(j.idx, j.class, j.w, j.cap, j.reqs, j.cancelAt, j.delay, j.slow, j.resCap, j.gated, j.stalled)
		}(jobs[i])
	}
	wg.Wait()
	w := hlib.NewOut(*outp)
	defer w.Close()
	for i := range res {
		if *only >= 0 && *only != i {
			continue
		}
		res[i].Goroutines = 0 // not meaningful when runs overlap
		w.Put(res[i])
	}
}
