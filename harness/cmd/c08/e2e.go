package main

// End-to-end stage of C08: the REAL `sx socks|elastic|docker --json -f <pairs file>` commands (cobra RunE, option
// parsing, logger plumbing, engine, exit delay) against loopback services, with a target that is listed twice:
// every probe that detects a service must yield exactly one output record (3 probes -> 3 records).

import (
	"bufio"
	"bytes"
	"encoding/json"
	"fmt"
	"io"
	"net"
	"net/http"
	"os"
	"os/exec"
	"path/filepath"
	"strings"
	"sync"
	"time"

	"verifharness/hlib"
)

type e2eObs struct {
	Class   string         `json:"class"`
	Cmd     string         `json:"cmd"`
	Args    []string       `json:"args"`
	Targets []string       `json:"targets"` // in file order, with repetition
	Probes  map[string]int `json:"probes"`  // connections seen per target
	Records map[string]int `json:"records"` // output records per target
	Lines   int            `json:"lines"`
	BadLine string         `json:"bad_line"`
	Exit    int            `json:"exit"`
	Stderr  string         `json:"stderr"`
	Ms      int64          `json:"ms"`
	// bad-entries run: entries of the target file that cannot become a probe, and the error records on stderr
	BadEntries int `json:"bad_entries"`
	ErrRecords int `json:"err_records"`
}

type counter struct {
	mu sync.Mutex
	n  map[string]int
}

func (c *counter) hit(k string) { c.mu.Lock(); c.n[k]++; c.mu.Unlock() }

func socksServer(l net.Listener, c *counter, key string) {
	for {
		conn, err := l.Accept()
		if err != nil {
			return
		}
		go func(conn net.Conn) {
			defer conn.Close()
			buf := make([]byte, 3)
			conn.SetDeadline(time.Now().Add(2 * time.Second))
			if _, err := io.ReadFull(conn, buf); err != nil {
				return
			}
			c.hit(key)
			conn.Write([]byte{5, 0})
		}(conn)
	}
}

func httpServer(l net.Listener, c *counter, key, kind string, secondFails bool) {
	mux := http.NewServeMux()
	mux.HandleFunc("/", func(w http.ResponseWriter, r *http.Request) {
		w.Header().Set("Content-Type", "application/json")
		switch {
		case kind == "elastic" && r.URL.Path == "/":
			c.hit(key)
			fmt.Fprint(w, `{"name":"n-`+key+`","cluster_name":"c","version":{"number":"7.1.0"}}`)
		case kind == "elastic" && secondFails:
			// a secured cluster: the SECOND request of the exchange (the index list) is refused with a non-JSON body;
			// the cluster has been detected by the first one and is still one outcome, reported once
			w.Header().Set("Content-Type", "text/plain")
			w.WriteHeader(http.StatusForbidden)
			fmt.Fprint(w, "missing authentication credentials")
		case kind == "elastic":
			fmt.Fprint(w, `{}`)
		case strings.HasSuffix(r.URL.Path, "/_ping"):
			w.Header().Set("API-Version", "1.41")
			w.Header().Set("Content-Type", "text/plain")
			fmt.Fprint(w, "OK")
		case strings.HasSuffix(r.URL.Path, "/info"):
			c.hit(key)
			fmt.Fprint(w, `{"ID":"id-`+key+`","Name":"d-`+key+`"}`)
		case strings.HasSuffix(r.URL.Path, "/version"):
			fmt.Fprint(w, `{"Version":"20.10.0","ApiVersion":"1.41"}`)
		default:
			http.NotFound(w, r)
		}
	})
	(&http.Server{Handler: mux}).Serve(l)
}

func runE2E(sx, outp string) {
	dir, err := os.MkdirTemp(".", "c08-e2e-")
	if err != nil {
		panic(err)
	}
	dir, _ = filepath.Abs(dir)
	defer os.RemoveAll(dir)
	var res []e2eObs
	var mu sync.Mutex
	var wg sync.WaitGroup
	for _, kind := range []string{"socks", "elastic", "docker", "socks+bad", "socks+bad6000"} {
		wg.Add(1)
		go func(kind string) {
			defer wg.Done()
			bad := 0
			if kind == "socks+bad" {
				// one good target followed by many entries that cannot become a probe: one error record each
				kind, bad = "socks", 260
			}
			if kind == "socks+bad6000" {
				// the same with thousands of them within a second (a target file full of bad lines)
				kind, bad = "socks", 6000
			}
			cnt := &counter{n: map[string]int{}}
			var ports []int
			for i := 0; i < 2; i++ {
				l, err := net.Listen("tcp4", "127.0.0.1:0")
				if err != nil {
					return
				}
				defer l.Close()
				p := l.Addr().(*net.TCPAddr).Port
				ports = append(ports, p)
				key := fmt.Sprintf("127.0.0.1:%d", p)
				if kind == "socks" {
					go socksServer(l, cnt, key)
				} else {
					go httpServer(l, cnt, key, kind, i == 1)
				}
			}
			order := []int{ports[0], ports[1], ports[0]}
			var file bytes.Buffer
			o := e2eObs{Class: "e2e", Cmd: kind, Probes: map[string]int{}, Records: map[string]int{}}
			for _, p := range order {
				fmt.Fprintf(&file, "{\"ip\":\"127.0.0.1\",\"port\":%d}\n", p)
				o.Targets = append(o.Targets, fmt.Sprintf("127.0.0.1:%d", p))
			}
			for i := 0; i < bad; i++ {
				fmt.Fprintf(&file, "{\"ip\":\"10.0.%d.999\",\"port\":%d}\n", i%250, 1000+i)
			}
			o.BadEntries = bad
			if bad > 0 {
				o.Class = "e2e-bad-entries"
			}
			fn := filepath.Join(dir, fmt.Sprintf("%s-%d.jsonl", kind, bad))
			os.WriteFile(fn, file.Bytes(), 0o644)
			o.Args = []string{kind, "--json", "-f", fn, "-w", "1", "--exit-delay", "300ms", "-t", "2s"}
			var stdout, stderr bytes.Buffer
			cmd := exec.Command(sx, o.Args...)
			cmd.Stdout, cmd.Stderr = &stdout, &stderr
			cmd.Env = append(os.Environ(), "HTTP_PROXY=", "http_proxy=", "NO_PROXY=*")
			t0 := time.Now()
			err := cmd.Run()
			o.Ms = time.Since(t0).Milliseconds()
			if ee, ok := err.(*exec.ExitError); ok {
				o.Exit = ee.ExitCode()
			} else if err != nil {
				o.Exit = -1
			}
			for _, line := range strings.Split(stderr.String(), "\n") {
				if strings.Contains(line, "\"level\":\"error\"") {
					o.ErrRecords++
				}
			}
			o.Stderr = stderr.String()
			if len(o.Stderr) > 600 {
				o.Stderr = o.Stderr[:600]
			}
			s := bufio.NewScanner(&stdout)
			s.Buffer(make([]byte, 1<<20), 1<<20)
			for s.Scan() {
				o.Lines++
				var v struct {
					IP   string `json:"ip"`
					Host string `json:"host"`
					Port int    `json:"port"`
				}
				if json.Unmarshal(s.Bytes(), &v) != nil {
					o.BadLine = s.Text()
					continue
				}
				k := fmt.Sprintf("%s:%d", v.IP, v.Port)
				if v.IP == "" { // docker/elastic records carry "host":"scheme://ip:port"
					k = v.Host[strings.LastIndex(v.Host, "/")+1:]
				}
				o.Records[k]++
			}
			cnt.mu.Lock()
			for k, v := range cnt.n {
				o.Probes[k] = v
			}
			cnt.mu.Unlock()
			mu.Lock()
			res = append(res, o)
			mu.Unlock()
		}(kind)
	}
	wg.Wait()
	w := hlib.NewOut(outp)
	defer w.Close()
	for i := range res {
		w.Put(res[i])
	}
}

// ---------------------------------------------------------------------------------------------
// Cancellation end to end (used by C12): the real `sx socks|elastic|docker -t 30s` against a peer that accepts
// the connection and then stays silent (at the first request, or after having answered the first one); SIGINT
// while the request is in flight; the process must exit promptly, printing only complete records.

type cancelObs struct {
	Class    string   `json:"class"`
	Cmd      string   `json:"cmd"`
	Stall    string   `json:"stall"` // which request of the probe never gets an answer
	Args     []string `json:"args"`
	Seen     bool     `json:"request_seen"`
	ExitMs   int64    `json:"exit_ms_after_sigint"`
	Exited   bool     `json:"exited"`
	BadLines int      `json:"bad_lines"`
	Stderr   string   `json:"stderr"`
}

func runE2ECancel(sx, outp string) {
	dir, err := os.MkdirTemp(".", "c08-cancel-")
	if err != nil {
		panic(err)
	}
	dir, _ = filepath.Abs(dir)
	defer os.RemoveAll(dir)
	type plan struct{ kind, stall string }
	plans := []plan{{"socks", "reply"}, {"elastic", "info"}, {"elastic", "aliases"}, {"docker", "ping"}, {"docker", "info"}, {"docker", "version"},
		// the address list comes from a producer on stdin that has not finished (a pipe that stays open)
		{"socks", "stdin-open"}, {"elastic", "stdin-open"}}
	res := make([]cancelObs, len(plans))
	var wg sync.WaitGroup
	for i, pl := range plans {
		wg.Add(1)
		go func(i int, pl plan) {
			defer wg.Done()
			o := cancelObs{Class: "e2e-cancel", Cmd: pl.kind, Stall: pl.stall}
			defer func() { res[i] = o }()
			l, err := net.Listen("tcp4", "127.0.0.1:0")
			if err != nil {
				return
			}
			defer l.Close()
			seen := make(chan struct{}, 16)
			hold := make(chan struct{})
			defer close(hold)
			if pl.kind == "socks" {
				go func() {
					for {
						c, err := l.Accept()
						if err != nil {
							return
						}
						go func(c net.Conn) {
							buf := make([]byte, 3)
							io.ReadFull(c, buf)
							seen <- struct{}{}
							<-hold
							c.Close()
						}(c)
					}
				}()
			} else {
				mux := http.NewServeMux()
				mux.HandleFunc("/", func(w http.ResponseWriter, r *http.Request) {
					w.Header().Set("Content-Type", "application/json")
					path := r.URL.Path
					stallHere := (pl.kind == "elastic" && (pl.stall == "info" || pl.stall == "stdin-open") && path == "/") ||
						(pl.kind == "elastic" && pl.stall == "aliases" && path != "/") ||
						(pl.kind == "docker" && pl.stall == "ping" && strings.HasSuffix(path, "/_ping")) ||
						(pl.kind == "docker" && pl.stall == "info" && strings.HasSuffix(path, "/info")) ||
						// the LAST request of the exchange: ping and info have been answered
						(pl.kind == "docker" && pl.stall == "version" && strings.HasSuffix(path, "/version"))
					if stallHere {
						seen <- struct{}{}
						select {
						case <-hold:
						case <-r.Context().Done():
						}
						return
					}
					switch {
					case pl.kind == "elastic":
						fmt.Fprint(w, `{"name":"n","cluster_name":"c"}`)
					case strings.HasSuffix(path, "/_ping"):
						w.Header().Set("API-Version", "1.41")
						fmt.Fprint(w, "OK")
					default:
						fmt.Fprint(w, `{}`)
					}
				})
				go (&http.Server{Handler: mux}).Serve(l)
			}
			p := l.Addr().(*net.TCPAddr).Port
			fn := filepath.Join(dir, fmt.Sprintf("%s-%s.jsonl", pl.kind, pl.stall))
			os.WriteFile(fn, []byte(fmt.Sprintf("{\"ip\":\"127.0.0.1\",\"port\":%d}\n", p)), 0o644)
			o.Args = []string{pl.kind, "--json", "-f", fn, "-w", "2", "-t", "30s", "--exit-delay", "300ms"}
			var stdout, stderr bytes.Buffer
			cmd := exec.Command(sx, o.Args...)
			cmd.Stdout, cmd.Stderr = &stdout, &stderr
			cmd.Env = append(os.Environ(), "HTTP_PROXY=", "http_proxy=", "NO_PROXY=*")
			wait := 10 * time.Second
			if pl.stall == "stdin-open" {
				o.Args = []string{pl.kind, "--json", "-p", fmt.Sprint(p), "-f", "-", "-w", "2", "-t", "30s", "--exit-delay", "300ms"}
				cmd = exec.Command(sx, o.Args...)
				cmd.Stdout, cmd.Stderr = &stdout, &stderr
				cmd.Env = append(os.Environ(), "HTTP_PROXY=", "http_proxy=", "NO_PROXY=*")
				pr, pw, err := os.Pipe()
				if err != nil {
					return
				}
				defer pr.Close()
				defer pw.Close() // the write end stays open until the run is over
				cmd.Stdin = pr
				fmt.Fprint(pw, "{\"ip\":\"127.0.0.1\"}\n")
				wait = 3 * time.Second
			}
			if err := cmd.Start(); err != nil {
				o.Stderr = err.Error()
				return
			}
			exited := make(chan struct{})
			go func() { cmd.Wait(); close(exited) }()
			select {
			case <-seen:
				o.Seen = true
			case <-exited:
			case <-time.After(wait):
			}
			if o.Seen || pl.stall == "stdin-open" {
				time.Sleep(100 * time.Millisecond)
				t0 := time.Now()
				cmd.Process.Signal(os.Interrupt)
				select {
				case <-exited:
					o.Exited = true
				case <-time.After(8 * time.Second):
					cmd.Process.Kill()
					<-exited
				}
				o.ExitMs = time.Since(t0).Milliseconds()
			} else {
				cmd.Process.Kill()
				<-exited
			}
			s := bufio.NewScanner(&stdout)
			for s.Scan() {
				var v map[string]interface{}
				if json.Unmarshal(s.Bytes(), &v) != nil {
					o.BadLines++
				}
			}
			o.Stderr = stderr.String()
			if len(o.Stderr) > 400 {
				o.Stderr = o.Stderr[:400]
			}
		}(i, pl)
	}
	wg.Wait()
	w := hlib.NewOut(outp)
	defer w.Close()
	for i := range res {
		w.Put(res[i])
	}
}
