// Driver for C05: runs the four real probe frame builders (tcp / udp / icmp / arp PacketFiller.Fill)
// on generated options and requests and records the produced frame bytes.  Options are given either
// through the exported With* constructors ("api") or through the real command line plumbing of
// `sx icmp` / `sx udp` / `sx tcp --flags` ("cli", hook command/verif_export_c05.go).  math/rand is
// seeded per case; the draws the code is expected to make are replayed on a private source and
// recorded (informational).  One serialize buffer is reused for all cases and scribbled on between
// cases, as the pooled buffers of the real pipeline are.
package main

import (
	"encoding/hex"
	"encoding/json"
	"flag"
	"fmt"
	"math/rand"
	"os"
	"time"

	"github.com/google/gopacket"
	"github.com/v-byte-cpu/sx/command"
	"github.com/v-byte-cpu/sx/pkg/scan"
	"github.com/v-byte-cpu/sx/pkg/scan/arp"
	"github.com/v-byte-cpu/sx/pkg/scan/icmp"
	"github.com/v-byte-cpu/sx/pkg/scan/tcp"
	"github.com/v-byte-cpu/sx/pkg/scan/udp"
	"verifharness/hlib"
)

// Case is the input of one Fill call plus what was observed. Integer options are -1 when the option
// is not passed at all (api: the filler default applies; cli: the flag default applies).
type Case struct {
	I       int      `json:"i"`
	Class   string   `json:"class"`
	Kind    string   `json:"kind"` // tcp udp icmp arp
	Via     string   `json:"via"`  // api cli
	VPN     bool     `json:"vpn"`
	Flags   int      `json:"flags"` // tcp: bit0 FIN 1 SYN 2 RST 3 PSH 4 ACK 5 URG 6 ECE 7 CWR 8 NS
	TTL     int      `json:"ttl"`
	IPLen   int      `json:"iplen"`
	Proto   int      `json:"proto"`
	IPFlg   int      `json:"ipflags"`
	Typ     int      `json:"typ"`
	Code    int      `json:"code"`
	HasPl   bool     `json:"has_payload"`
	Pl      string   `json:"payload"`
	SrcIP   string   `json:"src_ip"`
	DstIP   string   `json:"dst_ip"`
	SrcMAC  string   `json:"src_mac"`
	DstMAC  string   `json:"dst_mac"`
	DPort   int      `json:"dport"`
	Seed    int64    `json:"seed"`
	Skip    int      `json:"skip"` // number of Fill calls made (and discarded) after seeding, before the observed one
	Argv    []string `json:"argv,omitempty"`
	Literal bool     `json:"-"`                  // render printable payload bytes and blanks literally on the command line
	Conc    string   `json:"conc,omitempty"`     // concurrent stage: configuration "kind:vpn"
	ConcN   int      `json:"conc_n,omitempty"`   // concurrent stage: Fill calls made on the shared filler
	ConcB   int      `json:"conc_bad,omitempty"` // concurrent stage: frames the pre-filter rejected
	// observation
	Err   string `json:"err"`
	Frame string `json:"frame"`
	// draws predicted by replaying the seed on a private source (only when skip = 0)
	DID     int64  `json:"d_id"`
	DSport  int64  `json:"d_sport"`
	DSeq    int64  `json:"d_seq"`
	DIcmpID int64  `json:"d_icmpid"`
	DPl     string `json:"d_payload"`
}

func tcpFlagOpt(i int) tcp.PacketFillerOption {
	switch i {
	case 0:
		return tcp.WithFIN()
	case 1:
		return tcp.WithSYN()
	case 2:
		return tcp.WithRST()
	case 3:
		return tcp.WithPSH()
	case 4:
		return tcp.WithACK()
	case 5:
		return tcp.WithURG()
	case 6:
		return tcp.WithECE()
	case 7:
		return tcp.WithCWR()
	}
	return tcp.WithNS()
}

func unhex(s string) []byte {
	if s == "nil" {
		return nil
	}
	b, err := hex.DecodeString(s)
	if err != nil {
		panic(err)
	}
	return b
}

func hx(b []byte) string {
	if b == nil {
		return "nil"
	}
	return hex.EncodeToString(b)
}

var buf = gopacket.NewSerializeBuffer()

// scribble leaves recognisable garbage in the memory the next Fill will reuse.
func scribble(n int) {
	buf.Clear()
	b, _ := buf.PrependBytes(n)
	for i := range b {
		b[i] = 0xA5
	}
	a, _ := buf.AppendBytes(96)
	for i := range a {
		a[i] = 0x5A
	}
}

type filler interface {
	Fill(packet gopacket.SerializeBuffer, r *scan.Request) error
}

// build constructs the real filler for the case (consumes global math/rand for icmp).
func build(c *Case) (filler, error) {
	switch c.Kind {
	case "arp":
		return arp.NewPacketFiller(), nil
	case "tcp":
		var opts []tcp.PacketFillerOption
		if c.Via == "cli" {
			o, err := command.VerifC05TCPFlagFillerOptions(c.Argv)
			if err != nil {
				return nil, err
			}
			opts = o
		} else {
			for i := 0; i < 9; i++ {
				if c.Flags&(1<<uint(i)) != 0 {
					opts = append(opts, tcpFlagOpt(i))
				}
			}
		}
		opts = append(opts, tcp.WithFillerVPNmode(c.VPN))
		return tcp.NewPacketFiller(opts...), nil
	case "udp":
		var opts []udp.PacketFillerOption
		if c.Via == "cli" {
			o, err := command.VerifC05UDPFillerOptions(c.Argv, c.VPN)
			if err != nil {
				return nil, err
			}
			opts = o
		} else {
			if c.TTL >= 0 {
				opts = append(opts, udp.WithTTL(uint8(c.TTL)))
			}
			if c.IPLen >= 0 {
				opts = append(opts, udp.WithIPTotalLength(uint16(c.IPLen)))
			}
			if c.Proto >= 0 {
				opts = append(opts, udp.WithIPProtocol(uint8(c.Proto)))
			}
			if c.IPFlg >= 0 {
				opts = append(opts, udp.WithIPFlags(uint8(c.IPFlg)))
			}
			if c.HasPl {
				opts = append(opts, udp.WithPayload(unhex(c.Pl)))
			}
			opts = append(opts, udp.WithVPNmode(c.VPN))
		}
		return udp.NewPacketFiller(opts...), nil
	case "icmp":
		var opts []icmp.PacketFillerOption
		if c.Via == "cli" {
			o, err := command.VerifC05ICMPFillerOptions(c.Argv, c.VPN)
			if err != nil {
				return nil, err
			}
			opts = o
		} else {
			if c.TTL >= 0 {
				opts = append(opts, icmp.WithTTL(uint8(c.TTL)))
			}
			if c.IPLen >= 0 {
				opts = append(opts, icmp.WithIPTotalLength(uint16(c.IPLen)))
			}
			if c.Proto >= 0 {
				opts = append(opts, icmp.WithIPProtocol(uint8(c.Proto)))
			}
			if c.IPFlg >= 0 {
				opts = append(opts, icmp.WithIPFlags(uint8(c.IPFlg)))
			}
			if c.Typ >= 0 {
				opts = append(opts, icmp.WithType(uint8(c.Typ)))
			}
			if c.Code >= 0 {
				opts = append(opts, icmp.WithCode(uint8(c.Code)))
			}
			if c.HasPl {
				opts = append(opts, icmp.WithPayload(unhex(c.Pl)))
			}
			opts = append(opts, icmp.WithVPNmode(c.VPN))
		}
		return icmp.NewPacketFiller(opts...), nil
	}
	panic("kind " + c.Kind)
}

// predict replays the draws the code is expected to make for this case on a private source.
func predict(c *Case) {
	priv := rand.New(rand.NewSource(c.Seed))
	switch c.Kind {
	case "tcp":
		c.DID = int64(priv.Intn(65535))
		c.DSport = int64(priv.Intn(61000 - 32768))
		c.DSeq = int64(priv.Uint32())
	case "udp":
		c.DID = int64(priv.Intn(65535))
		c.DSport = int64(priv.Intn(61000 - 32768))
	case "icmp":
		pl := make([]byte, 48)
		priv.Read(pl)
		c.DPl = hex.EncodeToString(pl)
		c.DID = int64(priv.Intn(65535))
		c.DIcmpID = int64(priv.Intn(65535))
	}
}

func requestOf(c *Case) *scan.Request {
	return &scan.Request{SrcIP: unhex(c.SrcIP), DstIP: unhex(c.DstIP), SrcMAC: unhex(c.SrcMAC),
		DstMAC: unhex(c.DstMAC), DstPort: uint16(c.DPort)}
}

func execCase(c *Case) {
	req := requestOf(c)
	if c.Skip == 0 {
		predict(c)
	}
	rand.Seed(c.Seed)
	f, err := build(c)
	if err != nil {
		c.Err = "options: " + err.Error()
		return
	}
	for i := 0; i < c.Skip; i++ {
		_ = f.Fill(buf, req)
	}
	scribble(200 + len(c.Pl)/2)
	if err := f.Fill(buf, req); err != nil {
		c.Err = err.Error()
		c.Frame = ""
		return
	}
	c.Err = ""
	c.Frame = hex.EncodeToString(buf.Bytes())
}

func main() {
	out := flag.String("out", "cases.jsonl", "output file")
	seed := flag.Int64("seed", 1, "seed")
	n := flag.Int("n", 2000, "approximate number of generated cases")
	maxpl := flag.Int("maxpayload", 1472, "largest payload length of the regular sweep")
	replay := flag.String("replay", "", "replay the case stored in this JSON file (field \"input\")")
	huge := flag.Bool("huge", false, "include payloads around and beyond 65507 bytes")
	capIface := flag.String("capture", "", "capture mode: record frames seen on this interface")
	capCount := flag.Int("count", 16, "capture mode: stop after this many frames")
	capTimeout := flag.Duration("timeout", 3*time.Second, "capture mode: stop after this time")
	capTun := flag.String("tun", "", "capture mode: attach to this tun device and record the packets sent through it")
	capSrc := flag.String("srcmac", "", "capture mode: keep only frames with this Ethernet source (hex)")
	conc := flag.Int("concurrent", 0, "concurrent stage only: Fill calls per shared filler")
	workers := flag.Int("workers", 8, "concurrent stage: goroutines sharing one filler")
	concOnly := flag.String("conc-only", "", "concurrent stage: only this configuration (kind:vpn)")
	wire := flag.Int("wire", 0, "send-path stage only: requests per (filler, link mode) through multi generator + sender")
	wireBusy := flag.Duration("wire-busy", 10*time.Microsecond, "send-path stage: how long the writer is busy with a frame")
	hunt := flag.Int("hunt", 0, "failing-input search: extra Fill calls per builder whose spoofed fields are range-checked")
	flag.Parse()
	w := hlib.NewOut(*out)
	defer w.Close()
	if *capTun != "" {
		captureTun(*capTun, w, *capCount, *capTimeout)
		return
	}
	if *capIface != "" {
		capture(*capIface, w, *capCount, *capTimeout, unhex(*capSrc))
		return
	}
	if *replay != "" {
		raw, err := os.ReadFile(*replay)
		if err != nil {
			panic(err)
		}
		var f struct {
			Input Case `json:"input"`
		}
		if err := json.Unmarshal(raw, &f); err != nil {
			panic(err)
		}
		c := f.Input
		execCase(&c)
		w.Put(c)
		return
	}
	g := &gen{r: hlib.NewRand(*seed), w: w, maxpl: *maxpl, huge: *huge, maxsweep: 1472}
	if *wire > 0 {
		g.wireStage(*wire, *workers, *wireBusy, *concOnly)
		fmt.Fprintf(os.Stderr, "c05: send-path stage, %d cases emitted\n", w.N)
		return
	}
	if *conc > 0 {
		g.concurrentStage(*conc, *workers, *concOnly)
		fmt.Fprintf(os.Stderr, "c05: concurrent stage, %d cases emitted\n", w.N)
		return
	}
	g.all(*n)
	if *hunt > 0 {
		g.hunt(*hunt)
	}
	fmt.Fprintf(os.Stderr, "c05: %d cases\n", w.N)
}
