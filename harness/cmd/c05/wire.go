package main

// Send-path stage of C05: what the property is about are the frames that reach the writer, and the
// fillers do not own their memory -- every frame is serialised into a pooled buffer
// (packet.NewSerializeBuffer in packetGenerator.Packets) that the sender gives back to the pool.
// Here the REAL send path runs: request channel -> scan.NewPacketMultiGenerator(real filler, workers)
// -> packet.NewSender -> a writer that behaves like a device: the write lasts a few microseconds and
// the bytes that "go out" are those the slice holds at the end of the call (copied then, never kept).
// Every request carries its index in the destination address, so each written frame names the request
// it claims to belong to; it is pre-judged against that request like in the concurrent stage, and every
// request must be written exactly once.  Failures and a sample come back as ordinary cases.

import (
	"context"
	"encoding/hex"
	"fmt"
	"runtime"
	"sync"
	"time"

	"github.com/v-byte-cpu/sx/pkg/packet"
	"github.com/v-byte-cpu/sx/pkg/scan"
)

type deviceWriter struct {
	mu     sync.Mutex
	frames [][]byte
	busy   time.Duration
}

func (w *deviceWriter) WritePacketData(pkt []byte) error {
	// the device is busy with the slice for a moment; other goroutines run meanwhile
	runtime.Gosched()
	for t0 := time.Now(); time.Since(t0) < w.busy; {
	}
	c := make([]byte, len(pkt))
	copy(c, pkt)
	w.mu.Lock()
	w.frames = append(w.frames, c)
	w.mu.Unlock()
	return nil
}

func wireRequest(kind string, i int) *scan.Request {
	req := &scan.Request{
		SrcIP:   []byte{172, byte(16 + i%16), byte(i >> 8), byte(i)},
		DstIP:   []byte{10, byte(i >> 16), byte(i >> 8), byte(i)},
		SrcMAC:  []byte{2, 0x33, byte(i % 7), byte(i >> 16), byte(i >> 8), byte(i)},
		DstMAC:  []byte{2, 0x44, byte(i % 5), byte(i), byte(i >> 8), byte(i >> 16)},
		DstPort: uint16(1000 + i*7),
	}
	if kind == "arp" {
		req.DstMAC = nil
	}
	return req
}

// claimedIndex reads the request index out of the destination address of the frame (-1: unreadable).
func claimedIndex(kind string, vpn bool, f []byte) int {
	at := 30
	switch {
	case kind == "arp":
		at = 38
	case vpn:
		at = 16
	}
	if len(f) < at+4 || f[at] != 10 {
		return -1
	}
	return int(f[at+1])<<16 | int(f[at+2])<<8 | int(f[at+3])
}

func (g *gen) wireStage(n, workers int, busy time.Duration, only string) {
	cfgs := []concCfg{{"tcp", false}, {"tcp", true}, {"udp", false}, {"udp", true}, {"icmp", false}, {"icmp", true},
		{"arp", false}}
	for _, cfg := range cfgs {
		name := fmt.Sprintf("%s:%v", cfg.kind, cfg.vpn)
		if only != "" && only != name {
			continue
		}
		tmpl := g.base(cfg.kind, "wire-"+cfg.kind)
		tmpl.VPN = cfg.vpn
		tmpl.Skip = 1
		switch cfg.kind {
		case "tcp":
			tmpl.Flags = g.r.Intn(512)
		case "udp", "icmp":
			tmpl.TTL = 1 + g.r.Intn(255)
			tmpl.IPFlg = g.r.Intn(8)
			g.setPayload(tmpl, 1+g.r.Intn(40))
		}
		f, err := build(tmpl)
		if err != nil {
			panic(err)
		}
		ctx, cancel := context.WithCancel(context.Background())
		in := make(chan *scan.Request, 64)
		go func() {
			defer close(in)
			for i := 0; i < n; i++ {
				in <- wireRequest(cfg.kind, i)
			}
		}()
		w := &deviceWriter{busy: busy}
		pkts := scan.NewPacketMultiGenerator(f, workers).Packets(ctx, in)
		done, errc := packet.NewSender(w).SendPackets(ctx, pkts)
		var errs []string
		var ewg sync.WaitGroup
		ewg.Add(1)
		go func() {
			defer ewg.Done()
			for e := range errc {
				if len(errs) < 5 {
					errs = append(errs, e.Error())
				}
			}
		}()
		<-done
		ewg.Wait()
		cancel()

		emit := func(i int, frame []byte, errText string) {
			req := wireRequest(cfg.kind, i)
			c := *tmpl
			c.SrcIP, c.DstIP, c.SrcMAC, c.DstMAC = hx(req.SrcIP), hx(req.DstIP), hx(req.SrcMAC), hx(req.DstMAC)
			c.DPort = int(req.DstPort)
			if cfg.kind == "arp" {
				c.DPort = 0
			}
			c.Err = errText
			if frame != nil {
				c.Frame = hex.EncodeToString(frame)
			}
			c.I = g.i
			g.i++
			c.Via = "wire"
			c.Conc = name
			c.ConcN = n
			g.w.Put(&c)
		}
		seen := make([]int, n)
		bad := 0
		sampleEvery := n / 100
		if sampleEvery < 1 {
			sampleEvery = 1
		}
		for k, fr := range w.frames {
			i := claimedIndex(cfg.kind, cfg.vpn, fr)
			if i < 0 || i >= n {
				if bad < 20 {
					emit(0, fr, "")
				}
				bad++
				continue
			}
			seen[i]++
			ok := plausible(cfg.kind, cfg.vpn, wireRequest(cfg.kind, i), fr)
			if !ok {
				bad++
			}
			if (!ok && bad <= 20) || (ok && k%sampleEvery == 0) {
				emit(i, fr, "")
			}
		}
		miss := 0
		for i, c := range seen {
			if c != 1 && miss < 5 {
				miss++
				emit(i, nil, fmt.Sprintf("the frame of this request was written %d times (%d requests, %d frames written, pipeline errors %v)",
					c, n, len(w.frames), errs))
			}
		}
	}
}
