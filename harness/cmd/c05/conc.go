package main

// Concurrent stage of C05: the commands hand ONE filler to scan.NewPacketMultiGenerator, whose workers
// call Fill concurrently, so Fill must be re-entrant.  Here one shared filler per (kind, link mode)
// is called from several goroutines, each with its own serialize buffer and its own stream of
// requests that differ in every request-dependent header field (both addresses, both MACs, the
// port; hence also both checksums).  Every produced frame is pre-judged here against ITS request
// (addresses, MACs, port, IPv4 header checksum, transport checksum); every frame that fails and a
// seeded sample of the others are emitted as ordinary cases, so that the Python oracle and the model
// inside Coq give the verdict.

import (
	"encoding/hex"
	"fmt"
	"sync"

	"github.com/google/gopacket"
	"github.com/v-byte-cpu/sx/pkg/scan"
)

func inetSum(parts ...[]byte) uint16 {
	var s uint32
	odd := false
	for _, p := range parts {
		for _, b := range p {
			if odd {
				s += uint32(b)
			} else {
				s += uint32(b) << 8
			}
			odd = !odd
		}
	}
	for s > 0xffff {
		s = s>>16 + s&0xffff
	}
	return uint16(s)
}

func eq(a, b []byte) bool { return string(a) == string(b) }

// plausible is the cheap pre-filter: false when the frame visibly does not belong to its request.
func plausible(kind string, vpn bool, req *scan.Request, f []byte) bool {
	if kind == "arp" {
		return len(f) == 60 && eq(f[6:12], req.SrcMAC) && eq(f[22:28], req.SrcMAC) && eq(f[28:32], req.SrcIP) &&
			eq(f[38:42], req.DstIP)
	}
	d := f
	if !vpn {
		if len(f) < 14 || !eq(f[0:6], req.DstMAC) || !eq(f[6:12], req.SrcMAC) {
			return false
		}
		d = f[14:]
	}
	if len(d) < 28 || !eq(d[12:16], req.SrcIP) || !eq(d[16:20], req.DstIP) || inetSum(d[:20]) != 0xffff {
		return false
	}
	tot := int(d[2])<<8 | int(d[3])
	if tot < 28 || tot > len(d) {
		return false
	}
	l4 := d[20:tot]
	switch kind {
	case "tcp", "udp":
		if int(l4[2])<<8|int(l4[3]) != int(req.DstPort) {
			return false
		}
		proto := byte(6)
		if kind == "udp" {
			proto = 17
		}
		ph := []byte{0, proto, byte(len(l4) >> 8), byte(len(l4))}
		return inetSum(d[12:20], ph, l4) == 0xffff
	default:
		return inetSum(l4) == 0xffff
	}
}

// safeFill turns a panic inside Fill (torn shared state) into an error so that it is reported as a case.
func safeFill(f filler, b gopacket.SerializeBuffer, req *scan.Request) (err error) {
	defer func() {
		if p := recover(); p != nil {
			err = fmt.Errorf("panic in Fill: %v", p)
		}
	}()
	return f.Fill(b, req)
}

type concCfg struct {
	kind string
	vpn  bool
}

// concurrentStage runs n Fill calls per configuration, spread over the workers.
func (g *gen) concurrentStage(n, workers int, only string) {
	cfgs := []concCfg{{"tcp", false}, {"tcp", true}, {"udp", false}, {"udp", true}, {"icmp", false}, {"icmp", true},
		{"arp", false}}
	for _, cfg := range cfgs {
		name := fmt.Sprintf("%s:%v", cfg.kind, cfg.vpn)
		if only != "" && only != name {
			continue
		}
		tmpl := g.base(cfg.kind, "concurrent-"+cfg.kind)
		tmpl.VPN = cfg.vpn
		tmpl.Skip = 1 // the draws are not predictable
		switch cfg.kind {
		case "tcp":
			tmpl.Flags = g.r.Intn(512)
		case "udp", "icmp":
			tmpl.TTL = 1 + g.r.Intn(255)
			tmpl.IPFlg = g.r.Intn(8)
			g.setPayload(tmpl, 1+g.r.Intn(40))
		}
		f, err := build(tmpl)
		if err != nil {
			panic(err)
		}
		sampleEvery := n / 160
		if sampleEvery < 1 {
			sampleEvery = 1
		}
		var mu sync.Mutex
		var out []*Case
		bad := 0
		var wg sync.WaitGroup
		start := make(chan struct{})
		for w := 0; w < workers; w++ {
			wg.Add(1)
			go func(w int) {
				defer wg.Done()
				b := gopacket.NewSerializeBuffer()
				<-start
				for i := w; i < n; i += workers {
					// every request-dependent field is different for every (worker, i)
					req := &scan.Request{
						SrcIP:   []byte{byte(10 + w), byte(i >> 16), byte(i >> 8), byte(i)},
						DstIP:   []byte{byte(100 + w), byte(i >> 8), byte(i), byte(i >> 16)},
						SrcMAC:  []byte{2, byte(w), 0x11, byte(i >> 16), byte(i >> 8), byte(i)},
						DstMAC:  []byte{2, byte(w), 0x22, byte(i), byte(i >> 8), byte(i >> 16)},
						DstPort: uint16(w*8191 + i*7),
					}
					if cfg.kind == "arp" {
						req.DstMAC = nil
					}
					err := safeFill(f, b, req)
					ok := err == nil && plausible(cfg.kind, cfg.vpn, req, b.Bytes())
					if ok && i%sampleEvery != 0 {
						continue
					}
					c := *tmpl
					c.SrcIP, c.DstIP, c.SrcMAC, c.DstMAC = hx(req.SrcIP), hx(req.DstIP), hx(req.SrcMAC), hx(req.DstMAC)
					c.DPort = int(req.DstPort)
					if cfg.kind == "arp" {
						c.DPort = 0
					}
					if err != nil {
						c.Err = err.Error()
					} else {
						c.Frame = hex.EncodeToString(b.Bytes())
					}
					mu.Lock()
					if !ok {
						bad++
					}
					if ok || bad <= 20 {
						out = append(out, &c)
					}
					mu.Unlock()
				}
			}(w)
		}
		close(start)
		wg.Wait()
		for _, c := range out {
			c.I = g.i
			g.i++
			c.Via = "concurrent"
			c.Conc = name
			c.ConcN = n
			c.ConcB = bad
			g.w.Put(c)
		}
	}
}
