package main

// Capture mode for the end-to-end part of C05: records the frames that appear on one interface
// (AF_PACKET raw socket, standard library only), so that the frames a complete `sx` command puts on
// a virtual wire can be judged like the frames of a single Fill call.

import (
	"encoding/hex"
	"fmt"
	"net"
	"os"
	"syscall"
	"time"
	"unsafe"

	"verifharness/hlib"
)

type capFrame struct {
	N     int    `json:"n"`
	Frame string `json:"frame"`
}

func htons(v uint16) uint16 { return v<<8 | v>>8 }

// capture writes up to max frames whose Ethernet source is srcMAC (any source when empty), until the
// timeout expires. It prints "ready" on stdout once the socket is bound.
func capture(iface string, w *hlib.Out, max int, timeout time.Duration, srcMAC []byte) {
	ifi, err := net.InterfaceByName(iface)
	if err != nil {
		fmt.Fprintln(os.Stderr, "capture:", err)
		os.Exit(3)
	}
	fd, err := syscall.Socket(syscall.AF_PACKET, syscall.SOCK_RAW, int(htons(syscall.ETH_P_ALL)))
	if err != nil {
		fmt.Fprintln(os.Stderr, "capture: socket:", err)
		os.Exit(3)
	}
	defer syscall.Close(fd)
	if err := syscall.Bind(fd, &syscall.SockaddrLinklayer{Protocol: htons(syscall.ETH_P_ALL), Ifindex: ifi.Index}); err != nil {
		fmt.Fprintln(os.Stderr, "capture: bind:", err)
		os.Exit(3)
	}
	tv := syscall.Timeval{Sec: 0, Usec: 50000}
	_ = syscall.SetsockoptTimeval(fd, syscall.SOL_SOCKET, syscall.SO_RCVTIMEO, &tv)
	fmt.Println("ready")
	os.Stdout.Sync()
	deadline := time.Now().Add(timeout)
	buf := make([]byte, 70000)
	n := 0
	for n < max && time.Now().Before(deadline) {
		k, _, err := syscall.Recvfrom(fd, buf, 0)
		if err != nil || k < 14 {
			continue
		}
		if len(srcMAC) == 6 && string(buf[6:12]) != string(srcMAC) {
			continue
		}
		w.Put(capFrame{N: n, Frame: hex.EncodeToString(buf[:k])})
		n++
	}
}

// captureTun attaches to the (persistent) tun device and records the IP packets the kernel hands to
// it, i.e. what a sender without link header put on that interface. Prints "ready" once attached.
func captureTun(name string, w *hlib.Out, max int, timeout time.Duration) {
	fd, err := syscall.Open("/dev/net/tun", syscall.O_RDWR, 0)
	if err != nil {
		fmt.Fprintln(os.Stderr, "tun:", err)
		os.Exit(3)
	}
	var ifr struct {
		name  [16]byte
		flags uint16
		_     [22]byte
	}
	copy(ifr.name[:15], name)
	ifr.flags = 0x0001 | 0x1000 // IFF_TUN | IFF_NO_PI
	if _, _, e := syscall.Syscall(syscall.SYS_IOCTL, uintptr(fd), 0x400454ca, uintptr(unsafe.Pointer(&ifr))); e != 0 {
		fmt.Fprintln(os.Stderr, "tun: TUNSETIFF:", e)
		os.Exit(3)
	}
	fmt.Println("ready")
	os.Stdout.Sync()
	type pkt struct{ b []byte }
	ch := make(chan pkt, 64)
	go func() {
		for {
			buf := make([]byte, 70000)
			k, err := syscall.Read(fd, buf)
			if err != nil {
				return
			}
			ch <- pkt{buf[:k]}
		}
	}()
	deadline := time.After(timeout)
	for n := 0; n < max; {
		select {
		case p := <-ch:
			if len(p.b) > 0 && p.b[0]>>4 == 4 {
				w.Put(capFrame{N: n, Frame: hex.EncodeToString(p.b)})
				n++
			}
		case <-deadline:
			return
		}
	}
}
