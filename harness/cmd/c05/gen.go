package main

import (
	"encoding/hex"
	"fmt"
	"math/rand"
	"strconv"
	"strings"

	"verifharness/hlib"
)

type gen struct {
	r        *hlib.SplitMix64
	w        *hlib.Out
	maxpl    int
	huge     bool
	i        int
	maxsweep int
}

var tcpFlagNames = []string{"fin", "syn", "rst", "psh", "ack", "urg", "ece", "cwr", "ns"}

func (g *gen) ip4() string { return hex.EncodeToString(g.r.Bytes(4)) }
func (g *gen) mac() string { return hex.EncodeToString(g.r.Bytes(6)) }

func (g *gen) mapped16() string {
	return "00000000000000000000ffff" + g.ip4()
}

func (g *gen) port() int {
	switch g.r.Intn(6) {
	case 0:
		return []int{0, 1, 22, 80, 255, 256, 443, 32768, 65535}[g.r.Intn(9)]
	default:
		return g.r.Intn(65536)
	}
}

// base returns a case with a well-formed request of the kind the pipeline produces.
func (g *gen) base(kind, class string) *Case {
	c := &Case{Kind: kind, Class: class, Via: "api", TTL: -1, IPLen: -1, Proto: -1, IPFlg: -1, Typ: -1, Code: -1,
		SrcIP: g.ip4(), DstIP: g.ip4(), SrcMAC: g.mac(), DstMAC: g.mac(), DPort: g.port(), Seed: g.r.Int63()}
	if kind == "arp" {
		c.DstMAC = "nil"
		c.DPort = 0
	}
	return c
}

func (g *gen) emit(c *Case) {
	c.I = g.i
	g.i++
	execCase(c)
	g.w.Put(c)
}

func (g *gen) payload(n int) string {
	switch g.r.Intn(8) {
	case 0:
		return strings.Repeat("ff", n)
	case 1:
		return strings.Repeat("00", n)
	}
	return hex.EncodeToString(g.r.Bytes(n))
}

func (g *gen) vpn(c *Case) {
	c.VPN = true
	if g.r.Bool() {
		c.SrcMAC, c.DstMAC = "nil", "nil"
	}
}

// ipOptions sets random values of the IP level options of udp / icmp (no overrides).
func (g *gen) ipOptions(c *Case) {
	if g.r.Intn(4) != 0 {
		c.TTL = []int{0, 1, 37, 64, 128, 255, g.r.Intn(256)}[g.r.Intn(7)]
	}
	if g.r.Intn(3) != 0 {
		c.IPFlg = g.r.Intn(8)
	}
	if c.Kind == "icmp" {
		if g.r.Intn(3) != 0 {
			c.Typ = []int{0, 8, 13, 15, 17, 255, g.r.Intn(256)}[g.r.Intn(7)]
		}
		if g.r.Intn(3) != 0 {
			c.Code = []int{0, 0, 1, 255, g.r.Intn(256)}[g.r.Intn(5)]
		}
	}
	if g.r.Intn(4) == 0 {
		c.IPLen = 0 // explicit "calculate"
	}
}

func (g *gen) setPayload(c *Case, n int) {
	c.HasPl = true
	c.Pl = g.payload(n)
}

func (g *gen) malformed(kind string) {
	c := g.base(kind, "malformed")
	vpnOK := kind != "arp"
	switch g.r.Intn(9) {
	case 0:
		c.SrcMAC = "nil"
	case 1:
		c.SrcMAC = hex.EncodeToString(g.r.Bytes(5))
	case 2:
		c.SrcMAC = hex.EncodeToString(g.r.Bytes(7 + g.r.Intn(3)))
	case 3:
		if kind == "arp" {
			c.DstIP = "nil"
		} else {
			c.DstMAC = []string{"nil", "0102030405", "01020304050607", ""}[g.r.Intn(4)]
		}
	case 4:
		c.SrcIP = "nil"
	case 5:
		c.DstIP = []string{"nil", "010203", "0102030405", ""}[g.r.Intn(4)]
	case 6:
		c.DstIP = hex.EncodeToString(g.r.Bytes(16)) // a real IPv6 address
	case 7:
		c.SrcIP = hex.EncodeToString(g.r.Bytes(16))
	case 8:
		c.SrcIP = hex.EncodeToString(g.r.Bytes(g.r.Intn(3))) // 0..2 bytes
	}
	if vpnOK && g.r.Intn(3) == 0 {
		c.VPN = true
	}
	g.emit(c)
}

func (g *gen) tcpAll() {
	// every one of the 2^9 flag sets, both link modes spread over them
	for fl := 0; fl < 512; fl++ {
		c := g.base("tcp", "tcp-flagset")
		c.Flags = fl
		if g.r.Intn(3) == 0 {
			g.vpn(c)
		}
		g.emit(c)
	}
}

func (g *gen) tcpRandom() {
	c := g.base("tcp", "tcp-random")
	c.Flags = g.r.Intn(512)
	switch g.r.Intn(6) {
	case 0:
		g.vpn(c)
	case 1:
		c.Class = "tcp-mapped16"
		c.DstIP = g.mapped16()
		if g.r.Bool() {
			c.SrcIP = g.mapped16()
		}
	case 2:
		c.Class = "tcp-cli"
		c.Via = "cli"
		var names []string
		for i, nm := range tcpFlagNames {
			if c.Flags&(1<<uint(i)) != 0 {
				if g.r.Intn(3) == 0 {
					nm = strings.ToUpper(nm)
				}
				names = append(names, nm)
			}
		}
		for i := range names {
			j := g.r.Intn(i + 1)
			names[i], names[j] = names[j], names[i]
		}
		if len(names) > 0 && g.r.Intn(4) == 0 {
			names = append(names, names[g.r.Intn(len(names))]) // a repeated name changes nothing
		}
		c.Argv = []string{"--flags", strings.Join(names, ",")}
		if len(names) == 0 {
			c.Argv = []string{}
		}
	}
	g.emit(c)
}

func (g *gen) ipFlagNames(v int) string {
	var names []string
	if v&2 != 0 {
		names = append(names, "df")
	}
	if v&4 != 0 {
		names = append(names, "evil")
	}
	if v&1 != 0 {
		names = append(names, "mf")
	}
	for i := range names {
		j := g.r.Intn(i + 1)
		names[i], names[j] = names[j], names[i]
	}
	for i := range names {
		if g.r.Intn(3) == 0 {
			names[i] = strings.ToUpper(names[i])
		}
	}
	return strings.Join(names, ",")
}

// toCLI turns the option values of a udp / icmp case into a command line; options left at -1 are
// omitted so that the flag defaults apply.
func (g *gen) toCLI(c *Case) {
	if g.r.Intn(3) == 0 {
		c.Literal = true
	}
	c.Via = "cli"
	c.Class = c.Kind + "-cli"
	var a []string
	add := func(name string, v int) {
		if v >= 0 {
			if g.r.Bool() {
				a = append(a, "--"+name, strconv.Itoa(v))
			} else {
				a = append(a, "--"+name+"="+strconv.Itoa(v))
			}
		}
	}
	add("ttl", c.TTL)
	add("ipproto", c.Proto)
	add("iplen", c.IPLen)
	if c.IPFlg >= 0 {
		a = append(a, "--ipflags", g.ipFlagNames(c.IPFlg))
		// an empty --ipflags string leaves the flags at zero
	}
	if c.Kind == "icmp" {
		add("type", c.Typ)
		add("code", c.Code)
	}
	if c.HasPl {
		var sb strings.Builder
		pl := unhex(c.Pl)
		for k := 0; k < len(pl); k++ {
			b := pl[k]
			switch {
			case c.Literal && (b == ' ' || b == '\t' || b == '\v' || b == '\f' || b == '\r' ||
				(b > 0x20 && b < 0x7f && b != '\\' && b != '"')):
				sb.WriteByte(b) // the character itself, blanks included
			case c.Literal && b == 0xc2 && k+1 < len(pl) && (pl[k+1] == 0x85 || pl[k+1] == 0xa0):
				sb.WriteByte(b) // U+0085 / U+00A0 as UTF-8
				sb.WriteByte(pl[k+1])
				k++
			default:
				fmt.Fprintf(&sb, `\x%02x`, b)
			}
		}
		a = append(a, "--payload", sb.String())
		if len(c.Pl) == 0 {
			c.HasPl = false // an empty --payload is "no payload option"
		}
	}
	if a == nil {
		a = []string{}
	}
	c.Argv = a
}

func (g *gen) plen() int {
	switch g.r.Intn(5) {
	case 0:
		return g.r.Intn(9)
	case 1:
		return 9 + g.r.Intn(56)
	case 2:
		return g.maxpl - g.r.Intn(4)
	default:
		return g.r.Intn(g.maxpl + 1)
	}
}

func (g *gen) ipProbe(kind string) {
	c := g.base(kind, kind+"-options")
	g.ipOptions(c)
	if g.r.Intn(5) != 0 {
		g.setPayload(c, g.plen())
	} else {
		c.Class = kind + "-default-payload"
	}
	switch g.r.Intn(10) {
	case 0, 1:
		g.vpn(c)
	case 2:
		c.Class = kind + "-mapped16"
		c.DstIP = g.mapped16()
		if g.r.Bool() {
			c.SrcIP = g.mapped16()
		}
	case 3, 4:
		g.toCLI(c)
		if g.r.Intn(3) == 0 {
			g.vpn(c)
		}
	}
	g.emit(c)
}

func (g *gen) override(kind string) {
	c := g.base(kind, kind+"-override")
	g.ipOptions(c)
	if g.r.Intn(4) != 0 {
		g.setPayload(c, g.r.Intn(80))
	}
	truelen := 28
	if c.HasPl {
		truelen += len(c.Pl) / 2
	} else if kind == "icmp" {
		truelen += 48
	}
	switch g.r.Intn(3) {
	case 0:
		c.Proto = []int{0, 1, 6, 17, 47, 157, 255, g.r.Intn(256)}[g.r.Intn(8)]
	case 1:
		c.IPLen = []int{1, 19, 20, 28, truelen, truelen, truelen + 1, 1500, 65535, 1 + g.r.Intn(65535)}[g.r.Intn(10)]
	default:
		c.Proto = g.r.Intn(256)
		c.IPLen = []int{truelen, 1 + g.r.Intn(65535)}[g.r.Intn(2)]
	}
	switch g.r.Intn(4) {
	case 0:
		g.vpn(c)
	case 1:
		g.toCLI(c)
		c.Class = kind + "-override"
	}
	g.emit(c)
}

func (g *gen) arp() {
	c := g.base("arp", "arp")
	switch g.r.Intn(6) {
	case 5:
		// the 16-byte form of the source address: what `--srcip` parses to before it is normalised
		c.Class = "arp-src16"
		c.SrcIP = g.mapped16()
		if g.r.Bool() {
			c.DstIP = g.mapped16()
		}
	case 0:
		c.Class = "arp-mapped16"
		c.DstIP = g.mapped16()
	case 1:
		c.DstMAC = g.mac() // ignored by the builder
	}
	g.emit(c)
}

// all emits the fixed families first, then about n random cases.
func (g *gen) all(n int) {
	g.tcpAll()
	// payload length sweep: every length 0..70 for both udp and icmp, both parities up to maxpl
	for _, kind := range []string{"udp", "icmp"} {
		for l := 0; l <= 70; l++ {
			c := g.base(kind, kind+"-len-sweep")
			g.setPayload(c, l)
			if l%5 == 4 {
				g.vpn(c)
			}
			g.emit(c)
		}
		for _, l := range []int{255, 256, 257, 511, 512, 1000, 1001, g.maxpl - 1, g.maxpl} {
			c := g.base(kind, kind+"-len-sweep")
			g.setPayload(c, l)
			g.emit(c)
		}
		c := g.base(kind, kind+"-defaults") // no option at all
		g.emit(c)
		c = g.base(kind, kind+"-defaults")
		g.toCLI(c) // empty command line
		c.Class = kind + "-defaults"
		g.emit(c)
	}
	for i := 0; i < 12; i++ {
		g.arp()
	}
	// an explicitly empty --ipflags (no flag at all) together with the other packet options
	for _, kind := range []string{"udp", "icmp"} {
		for k := 0; k < 2; k++ {
			c := g.base(kind, kind+"-cli-empty-ipflags")
			c.IPFlg = 0
			c.TTL = 33
			c.HasPl = true
			c.Pl = hex.EncodeToString([]byte("PING"))
			c.Literal = k == 1
			if k == 1 {
				g.vpn(c)
			}
			g.toCLI(c)
			c.Class = kind + "-cli-empty-ipflags"
			g.emit(c)
		}
	}
	// payloads written literally on the command line whose first / last characters are white space
	// (space, tab, \v, \f, \r, U+0085, U+00A0): the datagram must carry them, payload = unquote(raw) exactly
	blanks := []string{"20", "09", "0b", "0c", "0d", "c285", "c2a0"}
	for _, kind := range []string{"udp", "icmp"} {
		for bi, b := range blanks {
			for shape := 0; shape < 4; shape++ {
				c := g.base(kind, kind+"-cli-blank")
				core := hex.EncodeToString([]byte("PING"))
				switch shape {
				case 0:
					c.Pl = b + core
				case 1:
					c.Pl = core + b
				case 2:
					c.Pl = b
				default:
					c.Pl = b + blanks[(bi+3)%len(blanks)] + core + "20" + core + blanks[(bi+1)%len(blanks)] + b
				}
				c.HasPl = true
				c.Literal = true
				if (bi+shape)%3 == 0 {
					g.vpn(c)
				}
				g.toCLI(c)
				c.Class = kind + "-cli-blank"
				g.emit(c)
			}
		}
	}
	// both addresses in the 16-byte (IPv4-mapped) form, every filler, both link modes
	for _, kind := range []string{"tcp", "udp", "icmp", "arp"} {
		for _, vpn := range []bool{false, true} {
			if kind == "arp" && vpn {
				continue
			}
			for k := 0; k < 3; k++ {
				c := g.base(kind, kind+"-src16")
				c.SrcIP = g.mapped16()
				if k != 1 {
					c.DstIP = g.mapped16()
				}
				if kind == "tcp" {
					c.Flags = g.r.Intn(512)
				}
				if vpn {
					g.vpn(c)
				}
				g.emit(c)
			}
		}
	}
	if g.huge {
		// thorough tier: both link modes for every flag set, every payload length of the regular sweep
		for fl := 0; fl < 1024; fl++ {
			c := g.base("tcp", "tcp-flagset-x-link")
			c.Flags = fl % 512
			if fl >= 512 {
				g.vpn(c)
			}
			g.emit(c)
		}
		for _, kind := range []string{"udp", "icmp"} {
			for l := 71; l <= g.maxsweep; l++ {
				c := g.base(kind, kind+"-len-sweep")
				g.setPayload(c, l)
				if l%7 == 3 {
					g.vpn(c)
				}
				g.emit(c)
			}
		}
		// payloads around and beyond what fits an IPv4 datagram: the 16-bit length fields wrap
		for _, kind := range []string{"udp", "icmp"} {
			for _, l := range []int{65506, 65507, 65508, 65535, 65536, 70001} {
				c := g.base(kind, kind+"-huge")
				g.setPayload(c, l)
				if l%2 == 1 {
					g.vpn(c)
				}
				g.emit(c)
			}
		}
	}
	for i := 0; i < n; i++ {
		switch k := g.r.Intn(20); {
		case k < 4:
			g.tcpRandom()
		case k < 9:
			g.ipProbe("udp")
		case k < 14:
			g.ipProbe("icmp")
		case k < 15:
			g.override("udp")
		case k < 16:
			g.override("icmp")
		case k < 17:
			g.arp()
		default:
			g.malformed([]string{"tcp", "udp", "icmp", "arp"}[g.r.Intn(4)])
		}
	}
}

// hunt makes many Fill calls per builder and emits (as ordinary cases, class "hunt") those whose
// spoofed fields leave their advertised ranges: ip id 0, icmp id 0, source port outside 32768..60999.
func (g *gen) hunt(n int) {
	for _, kind := range []string{"tcp", "udp", "icmp"} {
		c := g.base(kind, "hunt")
		c.VPN = true
		found := 0
		req := requestOf(c)
		rand.Seed(c.Seed)
		f, err := build(c)
		if err != nil {
			continue
		}
		for k := 0; k < n && found < 2; k++ {
			if f.Fill(buf, req) != nil {
				break
			}
			b := buf.Bytes()
			bad := b[4] == 0 && b[5] == 0
			if kind == "icmp" {
				bad = bad || (b[24] == 0 && b[25] == 0)
			} else {
				sp := int(b[20])<<8 | int(b[21])
				bad = bad || sp < 32768 || sp > 60999
			}
			if bad {
				found++
				cc := *c
				cc.Skip = k
				g.emit(&cc)
			}
		}
	}
}
