// Real-source part of the C20 driver: the REAL pkg/packet/afpacket.Source (an AF_PACKET socket on
// `lo` of a private network namespace) read by the real receiver. The source is closed before or
// while the receiver runs, with the context NOT cancelled ("a closed or broken socket ends
// reading"), or left idle / under traffic and then cancelled. A recording wrapper notes every
// distinct error value the source returns, so that the error values the real socket produces --
// not only the ones a mock was told to return -- are what the receiver is judged on.
package main

import (
	"bytes"
	"context"
	"encoding/json"
	"fmt"
	"net"
	"os"
	"os/exec"
	"sort"
	"strings"
	"sync"
	"time"

	"github.com/google/gopacket"
	gafp "github.com/google/gopacket/afpacket"
	"github.com/v-byte-cpu/sx/pkg/packet"
	sxafp "github.com/v-byte-cpu/sx/pkg/packet/afpacket"
	"verifharness/hlib"
)

type srcErr struct {
	Text       string `json:"text"`
	Name       string `json:"name"` // package-level value it is == to ("" if none of the alphabet's)
	Count      int    `json:"count"`
	AfterClose bool   `json:"after_close"` // returned by a read that started after Close() was called
	NetErr     bool   `json:"neterr"`
	Timeout    bool   `json:"timeout"`
}

type srcOut struct {
	Kind       string   `json:"kind"`
	Class      string   `json:"class"`
	Scenario   string   `json:"scenario"`
	Skipped    string   `json:"skipped,omitempty"`
	Traffic    bool     `json:"traffic"`
	ClosedAtMS int      `json:"closed_at_ms"` // -1: never closed (the context is cancelled instead)
	CancelAtMS int      `json:"cancel_at_ms"` // -1: never cancelled
	Ended      bool     `json:"ended"`        // the error channel was closed
	EndedMS    int      `json:"ended_ms"`     // how long after the close / cancel
	WaitedMS   int      `json:"waited_ms"`
	Reads      int      `json:"reads"`
	Frames     int      `json:"frames"`
	Reported   int      `json:"reported"`
	ReportedEx []string `json:"reported_examples"`
	ReadErrs   []srcErr `json:"read_errors"`
	// link-down scenario: what gopacket's own handle on the same interface returned once the link was
	// down (the real library value, before the Source's translation), the class the property gives
	// it, and what the receiver had reported before / after the link went down
	LinkDown       bool   `json:"link_down,omitempty"`
	ControlErr     string `json:"control_err,omitempty"`
	ControlText    string `json:"control_text,omitempty"`
	ControlAllowed string `json:"control_allowed,omitempty"`
	ReportedBefore int    `json:"reported_before,omitempty"`
	ReportedAfter  int    `json:"reported_after,omitempty"`
	ReadsAfter     int    `json:"reads_after,omitempty"`
}

type recReader struct {
	mu     sync.Mutex
	src    *sxafp.Source
	closed bool // Close() has been called
	reads  int
	errs   map[string]*srcErr
}

func (r *recReader) ReadPacketData() ([]byte, *gopacket.CaptureInfo, error) {
	r.mu.Lock()
	after := r.closed
	r.reads++
	r.mu.Unlock()
	data, ci, err := r.src.ReadPacketData()
	if err != nil {
		key := fmt.Sprintf("%v|%T|%v", err.Error(), err, after)
		r.mu.Lock()
		e := r.errs[key]
		if e == nil {
			e = &srcErr{Text: err.Error(), AfterClose: after}
			for _, n := range sentinelNames {
				if err == sentinelValues[n] {
					e.Name = n
					break
				}
			}
			if ne, ok := err.(net.Error); ok {
				e.NetErr, e.Timeout = true, ne.Timeout()
			}
			r.errs[key] = e
		}
		e.Count++
		r.mu.Unlock()
	}
	return data, ci, err
}

type countProc struct {
	mu sync.Mutex
	n  int
}

func (p *countProc) ProcessPacketData(data []byte, ci *gopacket.CaptureInfo) error {
	p.mu.Lock()
	p.n++
	p.mu.Unlock()
	return nil
}

type srcScenario struct {
	name     string
	traffic  bool
	closeMS  int // -1 never; 0 before the receiver starts
	cancelMS int // -1 never
}

var srcScenarios = []srcScenario{
	{"closed-before-receiving", false, 0, -1},
	{"closed-while-idle", false, 260, -1},
	{"closed-while-receiving-traffic", true, 260, -1},
	{"idle-then-cancelled", false, -1, 330},
	{"traffic-then-cancelled", true, -1, 260},
}

// runSource plays one scenario (inside the private namespace).
func runSource(sc srcScenario, waitMS int) srcOut {
	o := srcOut{Kind: "source", Class: "real-source", Scenario: sc.name, Traffic: sc.traffic, ClosedAtMS: sc.closeMS,
		CancelAtMS: sc.cancelMS, ReportedEx: []string{}, ReadErrs: []srcErr{}, WaitedMS: waitMS}
	src, err := sxafp.NewPacketSource("lo", false)
	if err != nil {
		o.Skipped = "cannot open an AF_PACKET source on lo: " + err.Error()
		return o
	}
	rr := &recReader{src: src, errs: map[string]*srcErr{}}
	proc := &countProc{}
	ctx, cancel := context.WithCancel(context.Background())
	defer cancel()
	doClose := func() {
		// reads that START from here on are reads of a closed (or closing) socket
		rr.mu.Lock()
		rr.closed = true
		rr.mu.Unlock()
		src.Close()
	}
	if sc.closeMS == 0 {
		doClose()
	}
	stopTraffic := make(chan struct{})
	if sc.traffic {
		go func() {
			c, err := net.Dial("udp4", "127.0.0.1:9")
			if err != nil {
				return
			}
			defer c.Close()
			for {
				select {
				case <-stopTraffic:
					return
				default:
				}
				c.Write([]byte("verif-c20"))
				time.Sleep(2 * time.Millisecond)
			}
		}()
	}
	errc := packet.NewReceiver(rr, proc).ReceivePackets(ctx)
	ended := make(chan struct{})
	var mu sync.Mutex
	go func() {
		for e := range errc {
			mu.Lock()
			o.Reported++
			if len(o.ReportedEx) < 3 {
				o.ReportedEx = append(o.ReportedEx, e.Error())
			}
			mu.Unlock()
		}
		close(ended)
	}()
	var t0 time.Time
	switch {
	case sc.closeMS == 0:
		t0 = time.Now()
	case sc.closeMS > 0:
		select {
		case <-ended:
		case <-time.After(time.Duration(sc.closeMS) * time.Millisecond):
		}
		doClose()
		t0 = time.Now()
	default:
		select {
		case <-ended:
		case <-time.After(time.Duration(sc.cancelMS) * time.Millisecond):
		}
		cancel()
		t0 = time.Now()
	}
	select {
	case <-ended:
		o.Ended = true
		o.EndedMS = int(time.Since(t0).Milliseconds())
	case <-time.After(time.Duration(waitMS) * time.Millisecond):
	}
	close(stopTraffic)
	cancel()
	if !o.Ended {
		// let the goroutine go before the numbers are read
		select {
		case <-ended:
		case <-time.After(2 * time.Second):
		}
	}
	if sc.closeMS < 0 {
		doClose()
	}
	mu.Lock()
	defer mu.Unlock()
	rr.mu.Lock()
	defer rr.mu.Unlock()
	proc.mu.Lock()
	defer proc.mu.Unlock()
	o.Reads, o.Frames = rr.reads, proc.n
	for _, e := range rr.errs {
		o.ReadErrs = append(o.ReadErrs, *e)
	}
	sort.Slice(o.ReadErrs, func(i, j int) bool {
		return o.ReadErrs[i].Text+fmt.Sprint(o.ReadErrs[i].AfterClose) < o.ReadErrs[j].Text+fmt.Sprint(o.ReadErrs[j].AfterClose)
	})
	return o
}

// runLinkDown: a Source on one end of a veth pair of the namespace, the receiver running; after 300 ms
// of a healthy, quiet link the interface is set down. gopacket's poll then fails (POLLERR, ENETDOWN
// pending on the socket): a second, plain gopacket handle on the same interface tells which value the
// library returns for that; the receiver over the Source must treat the failure as the property says
// for that value (an unknown failure: reported, reading continues).
func runLinkDown(waitMS int) srcOut {
	o := srcOut{Kind: "source", Class: "real-source", Scenario: "link-down-while-receiving", LinkDown: true, ClosedAtMS: -1,
		CancelAtMS: -1, ReportedEx: []string{}, ReadErrs: []srcErr{}, WaitedMS: waitMS}
	ifn, peer := "vc20d0", "vc20d1"
	run := func(args ...string) error {
		out, err := exec.Command(args[0], args[1:]...).CombinedOutput()
		if err != nil {
			return fmt.Errorf("%s: %v: %s", strings.Join(args, " "), err, bytes.TrimSpace(out))
		}
		return nil
	}
	for _, c := range [][]string{{"ip", "link", "add", ifn, "type", "veth", "peer", "name", peer},
		{"ip", "link", "set", ifn, "up"}, {"ip", "link", "set", peer, "up"}} {
		if err := run(c...); err != nil {
			o.Skipped = "cannot create a veth pair: " + err.Error()
			return o
		}
	}
	defer exec.Command("ip", "link", "del", ifn).Run()
	src, err := sxafp.NewPacketSource(ifn, false)
	if err != nil {
		o.Skipped = "cannot open an AF_PACKET source on the veth: " + err.Error()
		return o
	}
	control, err := gafp.NewTPacket(gafp.SocketRaw, gafp.OptInterface(ifn), gafp.OptPollTimeout(100*time.Millisecond))
	if err != nil {
		src.Close()
		o.Skipped = "cannot open the control handle on the veth: " + err.Error()
		return o
	}
	defer control.Close()
	rr := &recReader{src: src, errs: map[string]*srcErr{}}
	proc := &countProc{}
	ctx, cancel := context.WithCancel(context.Background())
	defer cancel()
	errc := packet.NewReceiver(rr, proc).ReceivePackets(ctx)
	ended := make(chan struct{})
	var mu sync.Mutex
	down := false
	go func() {
		for e := range errc {
			mu.Lock()
			o.Reported++
			if down {
				o.ReportedAfter++
			} else {
				o.ReportedBefore++
			}
			if len(o.ReportedEx) < 3 {
				o.ReportedEx = append(o.ReportedEx, e.Error())
			}
			mu.Unlock()
		}
		close(ended)
	}()
	time.Sleep(300 * time.Millisecond)
	mu.Lock()
	down = true
	mu.Unlock()
	rr.mu.Lock()
	readsBefore := rr.reads
	rr.closed = true // marks the errors of reads that start from here on ("after_close" = after the link went down)
	rr.mu.Unlock()
	if err := run("ip", "link", "set", ifn, "down"); err != nil {
		o.Skipped = "cannot set the link down: " + err.Error()
		cancel()
		<-ended
		src.Close()
		return o
	}
	// what the library itself says about the socket now
	for t0 := time.Now(); time.Since(t0) < 2*time.Second; {
		_, _, err := control.ReadPacketData()
		if err != nil && err != gafp.ErrTimeout {
			o.ControlText = err.Error()
			for _, n := range sentinelNames {
				if err == sentinelValues[n] {
					o.ControlErr = n
					for _, a := range alphabet {
						if a.D.K == "sent" && a.D.Name == n {
							o.ControlAllowed = a.Allowed
						}
					}
				}
			}
			break
		}
	}
	// reported, and reported again (reading continues)?
	for t0 := time.Now(); time.Since(t0) < time.Duration(waitMS)*time.Millisecond; time.Sleep(10 * time.Millisecond) {
		mu.Lock()
		n := o.ReportedAfter
		mu.Unlock()
		if n >= 2 {
			break
		}
	}
	t0 := time.Now()
	cancel()
	select {
	case <-ended:
		o.Ended = true
		o.EndedMS = int(time.Since(t0).Milliseconds())
	case <-time.After(time.Duration(waitMS) * time.Millisecond):
	}
	src.Close()
	mu.Lock()
	defer mu.Unlock()
	rr.mu.Lock()
	defer rr.mu.Unlock()
	o.Reads, o.ReadsAfter, o.Frames = rr.reads, rr.reads-readsBefore, proc.n
	for _, e := range rr.errs {
		o.ReadErrs = append(o.ReadErrs, *e)
	}
	sort.Slice(o.ReadErrs, func(i, j int) bool {
		return o.ReadErrs[i].Text+fmt.Sprint(o.ReadErrs[i].AfterClose) < o.ReadErrs[j].Text+fmt.Sprint(o.ReadErrs[j].AfterClose)
	})
	return o
}

// realSourceInner runs every scenario (called inside the namespace) and writes one row each.
func realSourceInner(outPath string, waitMS int) {
	w := hlib.NewOut(outPath)
	defer w.Close()
	linkDown := make(chan srcOut, 1)
	go func() { linkDown <- runLinkDown(waitMS) }() // on its own veth pair
	outs := make([]srcOut, len(srcScenarios))
	// the scenarios without traffic first: all sources listen on the same lo
	for _, traffic := range []bool{false, true} {
		var wg sync.WaitGroup
		for i := range srcScenarios {
			if srcScenarios[i].traffic != traffic {
				continue
			}
			wg.Add(1)
			go func(i int) {
				defer wg.Done()
				outs[i] = runSource(srcScenarios[i], waitMS)
			}(i)
		}
		wg.Wait()
	}
	for _, o := range outs {
		w.Put(o)
	}
	w.Put(<-linkDown)
}

// realSource creates a private network namespace with `lo` up, runs this binary inside it and
// returns the rows it wrote.
func realSource(workDir string, waitMS int) []srcOut {
	skip := func(why string) []srcOut {
		return []srcOut{{Kind: "source", Class: "real-source", Scenario: "all", Skipped: why, ReportedEx: []string{}, ReadErrs: []srcErr{}}}
	}
	ns := fmt.Sprintf("vc20s%d", os.Getpid()%1000000)
	run := func(args ...string) error {
		out, err := exec.Command(args[0], args[1:]...).CombinedOutput()
		if err != nil {
			return fmt.Errorf("%s: %v: %s", strings.Join(args, " "), err, bytes.TrimSpace(out))
		}
		return nil
	}
	if err := run("ip", "netns", "add", ns); err != nil {
		return skip("network namespaces unavailable: " + err.Error())
	}
	defer exec.Command("ip", "netns", "del", ns).Run()
	if err := run("ip", "-n", ns, "link", "set", "lo", "up"); err != nil {
		return skip("cannot bring lo up: " + err.Error())
	}
	self, _ := os.Executable()
	file := fmt.Sprintf("%s/real-source-%d.jsonl", workDir, os.Getpid())
	cmd := exec.Command("ip", "netns", "exec", ns, self, "-realsrc-inner", "-out", file, "-srcwait", fmt.Sprint(waitMS))
	var buf bytes.Buffer
	cmd.Stdout, cmd.Stderr = &buf, &buf
	done := make(chan error, 1)
	if err := cmd.Start(); err != nil {
		return skip("cannot start the real-source run: " + err.Error())
	}
	go func() { done <- cmd.Wait() }()
	select {
	case err := <-done:
		if err != nil {
			return skip("the real-source run failed: " + err.Error() + ": " + buf.String())
		}
	case <-time.After(time.Duration(waitMS+20000) * time.Millisecond):
		cmd.Process.Kill()
		return skip("the real-source run did not finish")
	}
	b, err := os.ReadFile(file)
	if err != nil {
		return skip("no output of the real-source run: " + err.Error())
	}
	var rows []srcOut
	for _, l := range bytes.Split(b, []byte("\n")) {
		if len(bytes.TrimSpace(l)) == 0 {
			continue
		}
		var o srcOut
		if json.Unmarshal(l, &o) == nil {
			rows = append(rows, o)
		}
	}
	return rows
}

// closedSourceErrors: alphabet indices of the package-level values the real source returned from
// reads that started after Close() had returned.
func closedSourceErrors(rows []srcOut) []int {
	seen := map[int]bool{}
	var out []int
	for _, o := range rows {
		if o.LinkDown {
			continue // there "after_close" marks reads after the link went down
		}
		for _, e := range o.ReadErrs {
			if !e.AfterClose || e.Name == "" {
				continue
			}
			for j, a := range alphabet {
				if a.D.K == "sent" && a.D.Name == e.Name && !seen[j] {
					seen[j] = true
					out = append(out, j)
				}
			}
		}
	}
	sort.Ints(out)
	return out
}
