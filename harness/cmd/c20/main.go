// Driver for C20: runs the real packet.NewReceiver over scripted Reader/Processor mocks that
// return REAL error values (syscall.Errno, *net.OpError, *os.SyscallError, fmt.Errorf wrappers,
// io.* values, a timeout net.Error, ...) and records what a caller observes: the frames handed to
// the Processor in order, the errors received from the error channel in order, the number of read
// calls, the closing of the channel, and during which read call the context was cancelled.
//
// Only positive events are observed. A cancellation issued from outside the mocks is attributed to
// a read call under the mock's mutex (see asyncCancel), so that every run is a valid input of the
// model whatever the schedule was.
package main

import (
	"bytes"
	"context"
	"encoding/json"
	"errors"
	"flag"
	"fmt"
	"io"
	"net"
	"os"
	"runtime"
	"sync"
	"syscall"
	"time"

	"github.com/google/gopacket"
	afp "github.com/google/gopacket/afpacket"
	"github.com/v-byte-cpu/sx/pkg/packet"
	"verifharness/hlib"
)

// ------------------------------------------------------------------------------ error alphabet

type edesc struct {
	K       string `json:"k"` // sent | fmt | op | sys | neterr | new
	Name    string `json:"name,omitempty"`
	Text    string `json:"text,omitempty"`
	Timeout bool   `json:"timeout,omitempty"`
	Inner   *edesc `json:"inner,omitempty"`
}

type timeoutErr struct{ timeout bool }

func (e *timeoutErr) Error() string   { return "i/o timeout" }
func (e *timeoutErr) Timeout() bool   { return e.timeout }
func (e *timeoutErr) Temporary() bool { return true }

var sentinelNames = []string{
	"syscall.EAGAIN", "syscall.ECONNRESET", "syscall.EBADF", "syscall.EINVAL", "syscall.EINTR",
	"syscall.ETIMEDOUT", "syscall.ENETDOWN", "syscall.ENOBUFS",
	"io.EOF", "io.ErrUnexpectedEOF", "io.ErrNoProgress", "io.ErrClosedPipe", "io.ErrShortBuffer",
	"io.ErrShortWrite", "os.ErrClosed", "net.ErrClosed", "os.ErrDeadlineExceeded",
	"context.DeadlineExceeded", "context.Canceled", "afpacket.ErrTimeout", "afpacket.ErrPoll",
}

var sentinelValues = map[string]error{
	"syscall.EAGAIN": syscall.EAGAIN, "syscall.ECONNRESET": syscall.ECONNRESET, "syscall.EBADF": syscall.EBADF,
	"syscall.EINVAL": syscall.EINVAL, "syscall.EINTR": syscall.EINTR, "syscall.ETIMEDOUT": syscall.ETIMEDOUT,
	"syscall.ENETDOWN": syscall.ENETDOWN, "syscall.ENOBUFS": syscall.ENOBUFS,
	"io.EOF": io.EOF, "io.ErrUnexpectedEOF": io.ErrUnexpectedEOF, "io.ErrNoProgress": io.ErrNoProgress,
	"io.ErrClosedPipe": io.ErrClosedPipe, "io.ErrShortBuffer": io.ErrShortBuffer, "io.ErrShortWrite": io.ErrShortWrite,
	"os.ErrClosed": os.ErrClosed, "net.ErrClosed": net.ErrClosed, "os.ErrDeadlineExceeded": os.ErrDeadlineExceeded,
	"context.DeadlineExceeded": context.DeadlineExceeded, "context.Canceled": context.Canceled,
	// what the real socket (gopacket/afpacket, used by pkg/packet/afpacket) returns from its poll
	"afpacket.ErrTimeout": afp.ErrTimeout, "afpacket.ErrPoll": afp.ErrPoll,
}

func (d *edesc) build() error {
	switch d.K {
	case "sent":
		v, ok := sentinelValues[d.Name]
		if !ok {
			panic("unknown package-level value " + d.Name)
		}
		return v
	case "fmt":
		return fmt.Errorf(d.Text+": %w", d.Inner.build())
	case "op":
		return &net.OpError{Op: "read", Net: "packet", Err: d.Inner.build()}
	case "sys":
		return os.NewSyscallError("recvfrom", d.Inner.build())
	case "neterr":
		return &timeoutErr{d.Timeout}
	case "new":
		return errors.New(d.Text)
	}
	panic("bad edesc kind " + d.K)
}

func sent(n string) *edesc            { return &edesc{K: "sent", Name: n} }
func wfmt(i *edesc) *edesc            { return &edesc{K: "fmt", Text: "read", Inner: i} }
func wfmtp(p string, i *edesc) *edesc { return &edesc{K: "fmt", Text: p, Inner: i} }
func wop(i *edesc) *edesc             { return &edesc{K: "op", Inner: i} }
func wsys(i *edesc) *edesc            { return &edesc{K: "sys", Inner: i} }
func neterr(t bool) *edesc            { return &edesc{K: "neterr", Timeout: t} }
func newerr(t string) *edesc          { return &edesc{K: "new", Text: t} }

// Allowed: how the property statement lets a receiver treat this error: "t" retried silently
// (would-block, timeout, connection reset), "c" ends reading (closed or broken socket), "u" reported
// once and reading continues. Where the statement does not settle the class (an EOF wrapped by
// fmt.Errorf, a timeout hidden behind a wrapper without the net.Error methods, ...) more than one
// letter is allowed; the model pins down what the code does with those.
type alphaEntry struct {
	D       *edesc
	Allowed string
	Letter  int // letter of the 8-letter class alphabet this entry may stand for (-1 none)
}

const (
	lFrame = iota
	lFrameProcErr
	lWouldBlock
	lTimeout
	lReset
	lUnknown
	lEOF
	lClosedFile
)

var alphabet = []alphaEntry{
	{sent("syscall.EAGAIN"), "t", lWouldBlock},
	{wop(wsys(sent("syscall.EAGAIN"))), "t", lWouldBlock},
	{wfmt(sent("syscall.EAGAIN")), "t", lWouldBlock},
	{sent("syscall.ECONNRESET"), "t", lReset},
	{wop(wsys(sent("syscall.ECONNRESET"))), "t", lReset},
	{wfmt(wop(sent("syscall.ECONNRESET"))), "t", lReset},
	{neterr(true), "t", lTimeout},
	{sent("os.ErrDeadlineExceeded"), "t", lTimeout},
	{wop(sent("os.ErrDeadlineExceeded")), "t", lTimeout},
	{wop(neterr(true)), "t", lTimeout},
	{sent("syscall.ETIMEDOUT"), "tu", -1},
	{sent("context.DeadlineExceeded"), "tu", -1},
	{wop(wsys(sent("syscall.ETIMEDOUT"))), "tu", -1},
	{neterr(false), "u", lUnknown},
	{sent("syscall.EINVAL"), "u", lUnknown},
	{sent("syscall.EINTR"), "tu", -1},
	{newerr("some failure"), "u", lUnknown},
	{wfmt(newerr("checksum mismatch")), "u", lUnknown},
	{wop(sent("syscall.ENETDOWN")), "u", lUnknown},
	{sent("syscall.ENOBUFS"), "u", lUnknown},
	{sent("io.ErrShortWrite"), "u", lUnknown},
	{sent("context.Canceled"), "u", -1},
	{sent("afpacket.ErrTimeout"), "tu", -1},
	{sent("afpacket.ErrPoll"), "u", lUnknown},
	{wfmt(sent("io.EOF")), "uc", -1},
	{wop(sent("syscall.EBADF")), "uc", -1},
	{wfmt(neterr(true)), "ut", -1},
	{wsys(sent("syscall.ETIMEDOUT")), "ut", -1},
	{sent("net.ErrClosed"), "uc", -1},
	{sent("os.ErrClosed"), "uc", -1},
	{sent("io.EOF"), "c", lEOF},
	{sent("io.ErrUnexpectedEOF"), "c", lEOF},
	{sent("io.ErrNoProgress"), "uc", -1},
	{sent("io.ErrClosedPipe"), "c", lEOF},
	{sent("io.ErrShortBuffer"), "uc", -1},
	{sent("syscall.EBADF"), "c", lEOF},
	{newerr("use of closed file"), "c", lClosedFile},
	{newerr("read packet: use of closed file"), "c", lClosedFile},
	{wfmt(newerr("use of closed file")), "c", lClosedFile},
	{wop(newerr("use of closed file")), "c", lClosedFile},
	{wfmtp("use of closed file", sent("syscall.EAGAIN")), "tc", -1},
	{wfmtp("use of closed file", neterr(true)), "tc", -1},
}

var eofIndex = func() int {
	for j, a := range alphabet {
		if a.D.K == "sent" && a.D.Name == "io.EOF" {
			return j
		}
	}
	panic("no io.EOF in the alphabet")
}()

type alphaRow struct {
	D       *edesc `json:"d"`
	Allowed string `json:"allowed"`
	TextL   []int  `json:"text"`
	NetErr  bool   `json:"neterr"`
	Timeout bool   `json:"timeout"`
	Is      []bool `json:"is"`
	Eq      []bool `json:"eq"`
}

func measureAlphabet() []alphaRow {
	rows := make([]alphaRow, len(alphabet))
	for i, a := range alphabet {
		e := a.D.build()
		r := alphaRow{D: a.D, Allowed: a.Allowed}
		for _, b := range []byte(e.Error()) {
			r.TextL = append(r.TextL, int(b))
		}
		if ne, ok := e.(net.Error); ok {
			r.NetErr = true
			r.Timeout = ne.Timeout()
		}
		for _, n := range sentinelNames {
			r.Is = append(r.Is, errors.Is(e, sentinelValues[n]))
			r.Eq = append(r.Eq, e == sentinelValues[n])
		}
		rows[i] = r
	}
	return rows
}

// ------------------------------------------------------------------------------ cases

// step byte: 0 frame, processor ok; 64+j frame, processor returns alphabet[j]; 128+j read returns alphabet[j]
type caseIn struct {
	Class   string `json:"class"`
	Script  []int  `json:"script"`
	Drained bool   `json:"drained"`
	// CancelReq: -2 no scripted cancellation; -1 before ReceivePackets; k >= 0 the Reader mock
	// cancels inside read call k
	CancelReq int `json:"cancel_req"`
	// AsyncUS >= 0: additionally cancel from another goroutine after that many microseconds
	AsyncUS int `json:"async_us"`
	// ClosedSrcAt > 0: the read error at this position is the value the REAL afpacket.Source was seen
	// to return once closed, so the property demands that it ends reading
	ClosedSrcAt int `json:"closed_src_at,omitempty"`
	// NeverDrain (with Drained false): after the cancellation nobody receives from the error channel
	// until the receiver goroutine is gone (seen in the goroutine dump; such cases run one at a time)
	NeverDrain bool `json:"never_drain,omitempty"`
	// Lens (absent, or as long as Script): the length in bytes of the frame a successful read at that
	// position returns; -1 (and every position when absent) is the 5-byte default frame. Length 0 is a nil
	// slice at even positions and an empty non-nil slice at odd ones, both with a nil error: a
	// successfully read frame like any other.
	Lens []int `json:"lens,omitempty"`
}

// frameLen returns the scripted length of the frame at position i, -1 for the default frame.
func frameLen(lens []int, i int) int {
	if i >= 0 && i < len(lens) {
		return lens[i]
	}
	return -1
}

// sizedFrame builds the frame of length n read at position i (every byte depends on i and its offset).
func sizedFrame(i, n int) []byte {
	if n == 0 {
		if i%2 == 0 {
			return nil
		}
		return []byte{}
	}
	b := make([]byte, n)
	for k := range b {
		b[k] = byte(i*7+k*13) ^ 0xa5
	}
	return b
}

type caseOut struct {
	Kind string `json:"kind"`
	caseIn
	// what the mocks actually returned: Script plus a trailing EAGAIN (code 128) when the script was
	// used up and the Reader blocked until cancellation
	Played []int `json:"played"`
	Cancel int   `json:"cancel"` // -2 never cancelled; -1 before the first read call; k during read call k
	Frames []int `json:"frames"`
	Errs   []int `json:"errs"`
	Reads  int   `json:"reads"`
	Closed bool  `json:"closed"`
	Stuck  bool  `json:"stuck"`
	BadCI  bool  `json:"bad_ci,omitempty"`
	// NeverDrain: whether the receiver goroutine ended after the cancellation with nobody receiving,
	// and how long the harness waited for that
	Gone   bool `json:"gone,omitempty"`
	GoneMS int  `json:"gone_ms,omitempty"`
}

type mock struct {
	mu        sync.Mutex
	ctx       context.Context
	cancelFn  context.CancelFunc
	script    []int
	lens      []int
	rerr      []error // read error of position i (nil for frames)
	perr      []error // processor error of the frame at position i (nil: ok)
	played    []int
	calls     int
	cancelReq int
	cancelled bool
	cancelAt  int  // attribution of the cancellation to a read call
	pending   bool // cancelled from outside: a read call entered later takes the attribution
	frames    []int
	badCI     bool
	exhausted chan struct{}
	issued    chan struct{} // closed when the mock cancelled by script
}

func (m *mock) ReadPacketData() ([]byte, *gopacket.CaptureInfo, error) {
	m.mu.Lock()
	i := m.calls
	m.calls++
	if m.cancelled && m.pending {
		// the outside cancellation came after the check at the top of this iteration
		m.cancelAt = i
		m.pending = false
	}
	if !m.cancelled && m.cancelReq == i {
		m.cancelled = true
		m.cancelAt = i
		m.cancelFn()
		close(m.issued)
	}
	if i >= len(m.script) {
		// script used up: behave like a socket with nothing to read: block until the context is
		// cancelled, then report would-block
		first := i == len(m.script)
		if !first {
			// a receiver that keeps reading after the cancellation: end the run
			m.played = append(m.played, 128+eofIndex)
			m.mu.Unlock()
			return nil, nil, io.EOF
		}
		m.played = append(m.played, 128)
		m.mu.Unlock()
		close(m.exhausted)
		<-m.ctx.Done()
		return nil, nil, syscall.EAGAIN
	}
	code := m.script[i]
	m.played = append(m.played, code)
	m.mu.Unlock()
	if code >= 128 {
		var data []byte
		if i%2 == 1 {
			data = []byte{0xde, 0xad, 0xbe, 0xef} // data returned together with an error is not a frame
		}
		return data, nil, m.rerr[i]
	}
	if n := frameLen(m.lens, i); n >= 0 {
		// a frame of a scripted length (0, 1, ... bytes): identified by its capture info
		return sizedFrame(i, n), &gopacket.CaptureInfo{Length: i, CaptureLength: n}, nil
	}
	data := []byte{byte(i >> 24), byte(i >> 16), byte(i >> 8), byte(i), 0x55}
	return data, &gopacket.CaptureInfo{Length: i, CaptureLength: len(data)}, nil
}

func (m *mock) ProcessPacketData(data []byte, ci *gopacket.CaptureInfo) error {
	id := 65535
	sized := false
	if ci != nil && ci.Length < len(m.script) && m.script[ci.Length] < 128 && frameLen(m.lens, ci.Length) >= 0 {
		// a frame of a scripted length: the capture info names the position, the bytes must be that frame's
		id, sized = ci.Length, true
	} else if len(data) == 5 && data[4] == 0x55 {
		id = int(data[0])<<24 | int(data[1])<<16 | int(data[2])<<8 | int(data[3])
	}
	m.mu.Lock()
	defer m.mu.Unlock()
	m.frames = append(m.frames, id)
	if sized {
		if !bytes.Equal(data, sizedFrame(id, frameLen(m.lens, id))) {
			m.badCI = true
		}
	} else if ci == nil || ci.Length != id {
		m.badCI = true
	}
	if id < len(m.perr) {
		return m.perr[id]
	}
	return nil
}

// asyncCancel cancels from outside the mocks and attributes the cancellation to the last read call
// entered (a read call entered afterwards takes it over: the cancellation then fell between the
// check at the top of that iteration and the call).
func (m *mock) asyncCancel() {
	m.mu.Lock()
	defer m.mu.Unlock()
	if m.cancelled {
		return
	}
	m.cancelled = true
	m.cancelAt = m.calls - 1
	m.pending = true
	m.cancelFn()
}

func runCase(in caseIn) caseOut {
	out := caseOut{Kind: "case", caseIn: in, Cancel: -2}
	ctx, cancel := context.WithCancel(context.Background())
	defer cancel()
	m := &mock{ctx: ctx, cancelFn: cancel, script: in.Script, lens: in.Lens, cancelReq: in.CancelReq, cancelAt: -2,
		exhausted: make(chan struct{}), issued: make(chan struct{})}
	m.rerr = make([]error, len(in.Script))
	m.perr = make([]error, len(in.Script))
	for i, c := range in.Script {
		switch {
		case c >= 128:
			m.rerr[i] = alphabet[c-128].D.build()
		case c >= 64:
			m.perr[i] = alphabet[c-64].D.build()
		}
	}
	if in.CancelReq == -1 {
		m.cancelled = true
		m.cancelAt = -1
		cancel()
		close(m.issued)
	}
	errc := packet.NewReceiver(m, m).ReceivePackets(ctx)

	var got []error
	closed := make(chan struct{})
	startDrain := make(chan struct{})
	go func() {
		<-startDrain
		for e := range errc {
			got = append(got, e)
		}
		close(closed)
	}()
	if in.Drained {
		close(startDrain)
	}
	if in.AsyncUS >= 0 {
		go func() {
			if in.AsyncUS == 0 {
				runtime.Gosched()
			} else {
				time.Sleep(time.Duration(in.AsyncUS) * time.Microsecond)
			}
			m.asyncCancel()
		}()
	}
	// wait for a reason to stop: closed by itself (seen only when draining), a scripted cancellation,
	// the script used up, or no read call for a while (blocked on the full channel, or gone)
	watchdog := time.After(30 * time.Second)
	tick := time.NewTicker(3 * time.Millisecond)
	defer tick.Stop()
	lastCalls, lastChange := -1, time.Now()
wait:
	for {
		select {
		case <-closed:
			break wait
		case <-m.issued:
			break wait
		case <-m.exhausted:
			m.asyncCancel()
			break wait
		case <-ctx.Done():
			break wait
		case <-watchdog:
			out.Stuck = true
			break wait
		case <-tick.C:
			m.mu.Lock()
			c := m.calls
			m.mu.Unlock()
			if c != lastCalls {
				lastCalls, lastChange = c, time.Now()
			} else if !in.Drained && time.Since(lastChange) > 40*time.Millisecond {
				m.asyncCancel()
				break wait
			}
		}
	}
	if in.NeverDrain && !in.Drained {
		// cancellation must end the receiver even if nobody ever takes another error: wait for its
		// goroutine to disappear from the goroutine dump before the first receive
		t0 := time.Now()
		buf := make([]byte, 1<<20)
		for time.Since(t0) < time.Duration(neverDrainWaitMS)*time.Millisecond {
			n := runtime.Stack(buf, true)
			if !bytes.Contains(buf[:n], []byte(").ReceivePackets.func")) {
				out.Gone = true
				break
			}
			time.Sleep(5 * time.Millisecond)
		}
		out.GoneMS = int(time.Since(t0).Milliseconds())
	}
	if !in.Drained {
		close(startDrain)
	}
	select {
	case <-closed:
		out.Closed = true
	case <-time.After(30 * time.Second):
		out.Stuck = true
		cancel()
	}
	m.mu.Lock()
	defer m.mu.Unlock()
	out.Played = append([]int{}, m.played...)
	out.Cancel = m.cancelAt
	out.Frames = append([]int{}, m.frames...)
	out.Reads = m.calls
	out.BadCI = m.badCI
	if out.Closed {
		// attribute each received error to the first unused script position holding that value
		used := make([]bool, 2*len(in.Script))
		for _, e := range got {
			code := 65535
			for i := range in.Script {
				if m.rerr[i] != nil && !used[2*i] && m.rerr[i] == e {
					code = 2 * i
					break
				}
				if m.perr[i] != nil && !used[2*i+1] && m.perr[i] == e {
					code = 2*i + 1
					break
				}
			}
			if code != 65535 {
				used[code] = true
			}
			out.Errs = append(out.Errs, code)
		}
	}
	if out.Frames == nil {
		out.Frames = []int{}
	}
	if out.Errs == nil {
		out.Errs = []int{}
	}
	return out
}

// ------------------------------------------------------------------------------ generators

type gen struct {
	r        *hlib.SplitMix64
	byLetter map[int][]int
	byClass  map[string][]int // strict classes "t","u","c"
}

func newGen(seed int64) *gen {
	g := &gen{r: hlib.NewRand(seed), byLetter: map[int][]int{}, byClass: map[string][]int{}}
	for j, a := range alphabet {
		if a.Letter >= 0 {
			g.byLetter[a.Letter] = append(g.byLetter[a.Letter], j)
		}
		g.byClass[a.Allowed] = append(g.byClass[a.Allowed], j)
	}
	return g
}

func (g *gen) pick(l []int) int { return l[g.r.Intn(len(l))] }

// letter -> step code, with a random representative of the letter's class
func (g *gen) letterStep(l int) int {
	switch l {
	case lFrame:
		return 0
	case lFrameProcErr:
		return 64 + g.r.Intn(len(alphabet))
	default:
		return 128 + g.pick(g.byLetter[l])
	}
}

func (g *gen) randomStep() int {
	x := g.r.Intn(100)
	switch {
	case x < 38:
		return 0
	case x < 50:
		return 64 + g.r.Intn(len(alphabet))
	case x < 72:
		return 128 + g.pick(g.byClass["t"])
	case x < 88:
		return 128 + g.pick(g.byClass["u"])
	case x < 91:
		return 128 + g.pick(g.byClass["c"])
	default:
		return 128 + g.r.Intn(len(alphabet))
	}
}

var neverDrainWaitMS = 3000

type eofReader struct{}

func (eofReader) ReadPacketData() ([]byte, *gopacket.CaptureInfo, error) { return nil, nil, io.EOF }
func (eofReader) ProcessPacketData([]byte, *gopacket.CaptureInfo) error  { return nil }

// probeCap reads the capacity of the error channel off the channel the receiver returns, so that
// the bursts exceed whatever buffer the code has now.
func probeCap() int {
	ctx, cancel := context.WithCancel(context.Background())
	cancel()
	c := cap(packet.NewReceiver(eofReader{}, eofReader{}).ReceivePackets(ctx))
	if c > 2000 {
		c = 2000
	}
	return c
}

func (g *gen) cases(n int, exhLen int, exhCancelLen int, pairs int, bursts int, runs int, nlens int) []caseIn {
	var cs []caseIn
	A := len(alphabet)
	// every single step of the full alphabet
	for c := 0; c < 128+A && (n > 0 || exhLen > 0); c++ {
		if c == 0 || (c >= 64 && c < 64+A) || c >= 128 {
			cs = append(cs, caseIn{Class: "single", Script: []int{c, 0}, Drained: true, CancelReq: -2, AsyncUS: -1})
		}
	}
	// pairs over the full alphabet (all of them when pairs < 0)
	var all []int
	all = append(all, 0)
	for j := 0; j < A; j++ {
		all = append(all, 64+j, 128+j)
	}
	if pairs < 0 {
		for _, a := range all {
			for _, b := range all {
				cs = append(cs, caseIn{Class: "pair", Script: []int{a, b, 0}, Drained: true, CancelReq: -2, AsyncUS: -1})
			}
		}
	} else {
		for i := 0; i < pairs; i++ {
			cs = append(cs, caseIn{Class: "pair", Script: []int{g.pick(all), g.pick(all), 0}, Drained: g.r.Intn(4) > 0,
				CancelReq: -2, AsyncUS: -1})
		}
	}
	// all sequences up to exhLen over the 8-letter alphabet, no cancellation
	var rec func(prefix []int, max int, f func([]int))
	rec = func(prefix []int, max int, f func([]int)) {
		if len(prefix) > 0 {
			f(prefix)
		}
		if len(prefix) == max {
			return
		}
		for l := 0; l < 8; l++ {
			rec(append(append([]int{}, prefix...), l), max, f)
		}
	}
	rec(nil, exhLen, func(letters []int) {
		s := make([]int, len(letters))
		for i, l := range letters {
			s[i] = g.letterStep(l)
		}
		cs = append(cs, caseIn{Class: "exhaustive", Script: s, Drained: true, CancelReq: -2, AsyncUS: -1})
	})
	// all sequences up to exhCancelLen x every cancellation position (before the start, in each read)
	rec(nil, exhCancelLen, func(letters []int) {
		for k := -1; k < len(letters); k++ {
			s := make([]int, len(letters))
			for i, l := range letters {
				s[i] = g.letterStep(l)
			}
			cs = append(cs, caseIn{Class: "exhaustive-cancel", Script: s, Drained: g.r.Intn(3) > 0, CancelReq: k, AsyncUS: -1})
		}
	})
	// random longer ones
	for i := 0; i < n; i++ {
		ln := 1 + g.r.Intn(40)
		s := make([]int, ln)
		for j := range s {
			s[j] = g.randomStep()
		}
		c := caseIn{Class: "random", Script: s, Drained: g.r.Intn(5) > 0, CancelReq: -2, AsyncUS: -1}
		switch x := g.r.Intn(100); {
		case x < 35:
		case x < 75:
			c.CancelReq = g.r.Intn(ln)
			c.Class = "random-cancel"
		case x < 78:
			c.CancelReq = -1
			c.Class = "random-cancel"
		default:
			c.AsyncUS = g.r.Intn(400)
			c.Class = "random-async"
		}
		cs = append(cs, c)
	}
	// error bursts beyond the buffer of the error channel
	capacity := probeCap()
	for i := 0; i < bursts; i++ {
		ln := capacity + 5 + g.r.Intn(160)
		s := make([]int, ln)
		// i%4: 0 processor errors only (no 5 ms sleeps: long bursts stay cheap), 1 drained mixed,
		// 2 undrained mixed with a scripted cancellation, 3 undrained, read errors only
		for j := range s {
			x := g.r.Intn(100)
			switch {
			case x < 8:
				s[j] = 0
			case x < 14:
				s[j] = 128 + g.pick(g.byClass["t"])
			case i%4 == 0 || (i%4 != 3 && x < 55):
				s[j] = 64 + g.r.Intn(len(alphabet))
			default:
				s[j] = 128 + g.pick(g.byClass["u"])
			}
		}
		c := caseIn{Class: "burst-undrained", Script: s, Drained: false, CancelReq: -2, AsyncUS: -1}
		switch i % 4 {
		case 1:
			c.Drained = true
			c.Class = "burst-drained"
		case 2:
			c.CancelReq = capacity*4/5 + g.r.Intn(ln-capacity*4/5)
			c.Class = "burst-undrained-cancel"
		}
		cs = append(cs, c)
	}
	// bursts beyond the buffer with a consumer that takes nothing, not even after the cancellation, until
	// the receiver is gone: processor errors only, read errors only, mixed
	for v := 0; v < 3 && runs > 0; v++ {
		s := make([]int, capacity+12)
		for j := range s {
			switch {
			case v == 0 || (v == 2 && j%3 == 0):
				s[j] = 64 + g.r.Intn(len(alphabet))
			default:
				s[j] = 128 + g.pick(g.byClass["u"])
			}
		}
		cs = append(cs, caseIn{Class: "burst-never-drained", Script: s, Drained: false, CancelReq: -2, AsyncUS: -1, NeverDrain: true})
	}
	// long runs of unknown read errors with no frame between them (transient faults interleaved),
	// a consumer that receives all the time, then frames: cap-1, cap, cap+1, 2.5*cap errors
	for _, nerr := range []int{capacity - 1, capacity, capacity + 1, capacity * 5 / 2} {
		if nerr < 1 || runs <= 0 {
			continue
		}
		for v := 0; v < runs; v++ {
			s := []int{0}
			for k := 0; k < nerr; k++ {
				for v > 0 && g.r.Intn(6) == 0 {
					s = append(s, 128+g.pick(g.byClass["t"]))
				}
				s = append(s, 128+g.pick(g.byClass["u"]))
			}
			s = append(s, 0, 0, 128+g.pick(g.byClass["u"]), 0)
			cs = append(cs, caseIn{Class: "run-of-unknown-errors", Script: s, Drained: true, CancelReq: -2, AsyncUS: -1})
		}
	}
	cs = append(cs, g.frameLengths(nlens)...)
	for i := range cs {
		g.uniq(cs[i].Script)
	}
	return cs
}

// frameLengths: successful reads of frames of length 0, 1, 2, ... (and a few larger ones) between
// faults. The property does not depend on the length of a frame: each of them is a successfully read
// frame that is processed once, in order, and whose processing error is reported once.
var smallLens = []int{0, 1, 2, 3, 4, 5, 6, 13, 14, 59, 60, 1514}

func (g *gen) frameLengths(n int) []caseIn {
	var cs []caseIn
	if n <= 0 {
		return cs
	}
	A := len(alphabet)
	// every length alone and after a fault of each strict class, processing ok / failing
	for _, ln := range smallLens {
		for v := 0; v < 2; v++ {
			f := 0
			if v == 1 {
				f = 64 + g.r.Intn(A)
			}
			cs = append(cs, caseIn{Class: "frame-length-single", Script: []int{f, 0}, Lens: []int{ln, -1}, Drained: true,
				CancelReq: -2, AsyncUS: -1})
			for _, cl := range []string{"t", "u"} {
				cs = append(cs, caseIn{Class: "frame-length-after-fault", Script: []int{0, 128 + g.pick(g.byClass[cl]), f, 0},
					Lens: []int{-1, -1, ln, g.pick(smallLens[:6])}, Drained: true, CancelReq: -2, AsyncUS: -1})
			}
		}
	}
	// random scripts whose frames have random lengths, weighted to the smallest ones
	for i := 0; i < n; i++ {
		ln := 1 + g.r.Intn(24)
		s, lens := make([]int, ln), make([]int, ln)
		for j := range s {
			s[j] = g.randomStep()
			lens[j] = -1
			if s[j] < 128 {
				switch x := g.r.Intn(10); {
				case x < 3:
					lens[j] = 0
				case x < 5:
					lens[j] = 1
				case x < 9:
					lens[j] = g.pick(smallLens)
				}
			}
		}
		c := caseIn{Class: "frame-length-random", Script: s, Lens: lens, Drained: g.r.Intn(5) > 0, CancelReq: -2, AsyncUS: -1}
		switch x := g.r.Intn(100); {
		case x < 50:
		case x < 85:
			c.CancelReq = g.r.Intn(ln)
			c.Class = "frame-length-random-cancel"
		default:
			c.AsyncUS = g.r.Intn(400)
			c.Class = "frame-length-random-async"
		}
		cs = append(cs, c)
	}
	return cs
}

// uniq makes the attribution of received errors to script positions unambiguous: a package-level
// value (the same Go value wherever it is used) appears at most once per script; further uses are
// replaced by an entry of the same class that is a fresh pointer on every construction.
func (g *gen) uniq(script []int) {
	used := map[int]bool{}
	for i, c := range script {
		if c < 64 {
			continue
		}
		j := c & 63
		if alphabet[j].D.K != "sent" {
			continue
		}
		if !used[j] {
			used[j] = true
			continue
		}
		var cands []int
		for k, a := range alphabet {
			if a.D.K != "sent" && a.Allowed == alphabet[j].Allowed && (a.Letter == alphabet[j].Letter || alphabet[j].Letter < 0) {
				cands = append(cands, k)
			}
		}
		if len(cands) == 0 {
			for k, a := range alphabet {
				if a.D.K != "sent" && a.Allowed == alphabet[j].Allowed {
					cands = append(cands, k)
				}
			}
		}
		if len(cands) == 0 {
			script[i] = 0
			continue
		}
		script[i] = c - j + g.pick(cands)
	}
}

// readCorpus loads the regression inputs (one JSON case input per file).
func readCorpus(dir string) []caseIn {
	if dir == "" {
		return nil
	}
	ents, err := os.ReadDir(dir)
	if err != nil {
		return nil
	}
	var cs []caseIn
	for _, e := range ents {
		if e.IsDir() || len(e.Name()) < 6 || e.Name()[len(e.Name())-5:] != ".json" {
			continue
		}
		b, err := os.ReadFile(dir + "/" + e.Name())
		if err != nil {
			continue
		}
		var in caseIn
		if err := json.Unmarshal(b, &in); err != nil {
			panic("corpus " + e.Name() + ": " + err.Error())
		}
		in.Class = "corpus"
		cs = append(cs, in)
	}
	return cs
}

func main() {
	outPath := flag.String("out", "cases.jsonl", "output file")
	seed := flag.Int64("seed", 1, "seed")
	n := flag.Int("n", 1500, "number of random cases")
	exh := flag.Int("exh", 3, "all sequences up to this length over the 8-letter alphabet")
	exhc := flag.Int("exhc", 2, "all sequences up to this length x every cancellation position")
	pairs := flag.Int("pairs", 600, "random pairs over the full alphabet (-1: all pairs)")
	bursts := flag.Int("bursts", 16, "error bursts beyond the channel buffer")
	par := flag.Int("par", 96, "receivers running concurrently")
	corpus := flag.String("corpus", "", "directory of JSON case inputs that are run first")
	replay := flag.String("replay", "", "JSON file holding one case input: run it and print the observation")
	runs := flag.Int("runs", 2, "variants of each long run of unknown errors (cap-1, cap, cap+1, 2.5 cap)")
	nlens := flag.Int("lens", 300, "random scripts whose frames have scripted lengths 0, 1, 2, ... (0: no frame-length stage)")
	source := flag.Bool("source", false, "drive the real afpacket.Source on lo of a private network namespace")
	srcInner := flag.Bool("realsrc-inner", false, "internal: the real-source scenarios, inside the namespace")
	flag.IntVar(&neverDrainWaitMS, "goneWait", 3000, "how long a cancelled receiver with a full, unread error channel is given to end, ms")
	srcWait := flag.Int("srcwait", 2000, "how long a closed source is given to end the receiver, ms")
	flag.Parse()
	if *srcInner {
		realSourceInner(*outPath, *srcWait)
		return
	}
	w := hlib.NewOut(*outPath)
	defer w.Close()
	w.Put(map[string]interface{}{"kind": "alpha", "names": sentinelNames, "alpha": measureAlphabet()})
	var cs []caseIn
	if *replay != "" {
		b, err := os.ReadFile(*replay)
		if err != nil {
			panic(err)
		}
		var in caseIn
		if err := json.Unmarshal(b, &in); err != nil {
			panic(err)
		}
		cs = []caseIn{in}
	} else {
		cs = append(readCorpus(*corpus), newGen(*seed).cases(*n, *exh, *exhc, *pairs, *bursts, *runs, *nlens)...)
	}
	var srcRows []srcOut
	if *source && *replay == "" {
		wd, _ := os.Getwd()
		srcRows = realSource(wd, *srcWait)
		// what the real source returns once closed, played by the mock: it must end reading
		for _, j := range closedSourceErrors(srcRows) {
			cs = append(cs, caseIn{Class: "closed-source-error", Script: []int{0, 128 + j, 0}, Drained: true, CancelReq: -2,
				AsyncUS: -1, ClosedSrcAt: 1})
		}
	}
	outs := make([]caseOut, len(cs))
	var wg sync.WaitGroup
	sem := make(chan struct{}, *par)
	for i := range cs {
		if cs[i].NeverDrain {
			continue
		}
		wg.Add(1)
		sem <- struct{}{}
		go func(i int) {
			defer wg.Done()
			outs[i] = runCase(cs[i])
			<-sem
		}(i)
	}
	wg.Wait()
	// one at a time: the goroutine dump must show this receiver only
	for i := range cs {
		if cs[i].NeverDrain {
			outs[i] = runCase(cs[i])
		}
	}
	for i := range outs {
		w.Put(outs[i])
	}
	for i := range srcRows {
		w.Put(srcRows[i])
	}
}
