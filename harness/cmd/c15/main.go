// Driver for C15 (rate limit).  It drives the REAL code:
//
//	lim   go.uber.org/ratelimit.New(n, Per(w), WithClock(fake)) with (n, w) produced by the real
//	      parseRateLimit from a generated --rate string; a fake clock either advanced by the caller
//	      (serial) or fully scripted (any readings, also going backwards); records per Take the clock
//	      reading, the returned time and the time slept
//	wrap  packet.NewRateLimitReadWriter / scan.NewRateLimitScanner around recording delegates with a
//	      counting limiter; records the order of Take / delegate calls and argument / result identity
//	pipe  scan.SetupPacketEngine(NewRateLimitReadWriter(mock, counting), method): the real sender and
//	      receiver goroutines; counts Takes, writes and reads
//	eng   the application-scan engine built by genericScanCmdOpts.newScanEngine (hook) with the real
//	      clock: start time of every probe relative to the start of the scan
//
// Every random choice derives from -seed.
package main

import (
	"context"
	"errors"
	"flag"
	"fmt"
	"io"
	"net"
	"os"
	"sort"
	"strings"
	"sync"
	"sync/atomic"
	"syscall"
	"time"

	"github.com/google/gopacket"
	"github.com/v-byte-cpu/sx/command"
	"github.com/v-byte-cpu/sx/pkg/packet"
	"github.com/v-byte-cpu/sx/pkg/scan"
	"go.uber.org/ratelimit"
	"verifharness/hlib"
)

var base = time.Unix(1700000000, 0)

// ---------------------------------------------------------------- fake clock

type fakeClock struct {
	t        time.Time
	slept    time.Duration
	scripted bool
	script   []time.Time
	idx      int
	nowCalls int
}

func (c *fakeClock) Now() time.Time {
	c.nowCalls++
	if c.scripted {
		if c.idx < len(c.script) {
			c.t = c.script[c.idx]
		}
		c.idx++
	}
	return c.t
}

func (c *fakeClock) Sleep(d time.Duration) {
	c.slept += d
	if !c.scripted {
		c.t = c.t.Add(d)
	}
}

// ---------------------------------------------------------------- rows

type row struct {
	Kind    string `json:"kind"`
	Class   string `json:"class"`
	ID      int    `json:"id"`
	RateStr string `json:"rate_str,omitempty"`
	Rate    int64  `json:"rate"`
	Per     int64  `json:"per"`
	ParseOK bool   `json:"parse_ok"`
	// lim
	Mode     int        `json:"mode"`
	In       []int64    `json:"in,omitempty"`
	Obs      [][3]int64 `json:"obs,omitempty"`
	NowCalls int        `json:"now_calls,omitempty"`
	// wrap
	Ops   [][2]int64 `json:"ops,omitempty"` // (0 write,id) (1 read,0) (2 scan,id)
	Log   [][2]int64 `json:"log,omitempty"` // (0,0) Take (1,id) write (2,0) read (3,id) scan
	RetOK bool       `json:"ret_ok"`
	// pipe
	Sent   int   `json:"sent,omitempty"`
	Takes  int64 `json:"takes"`
	Writes int64 `json:"writes"`
	Reads  int64 `json:"reads"`
	// eng
	Workers int     `json:"workers,omitempty"`
	M       int     `json:"m,omitempty"`
	Starts  []int64 `json:"starts,omitempty"` // sorted probe start offsets (ns) from the scan start
	Scans   int64   `json:"scans"`
	Err     string  `json:"err,omitempty"`
	Script  string  `json:"script,omitempty"` // eng/probe-errors: outcome of the probe started j-th (see errAlphabet)
}

// ---------------------------------------------------------------- rate strings

func genRate(r *hlib.SplitMix64) (string, string) {
	n := func(lo, hi int) int { return lo + r.Intn(hi-lo+1) }
	var cnt int
	ccls := ""
	switch r.Intn(6) {
	case 0:
		cnt, ccls = 1, "n1"
	case 1:
		cnt, ccls = n(2, 20), "nsmall"
	case 2:
		cnt, ccls = n(21, 5000), "nmid"
	case 3:
		cnt, ccls = n(5001, 2000000), "nlarge"
	case 4:
		cnt, ccls = n(2000001, 2147483647), "nhuge"
	default:
		cnt, ccls = []int{7, 10, 100, 1000, 500, 3}[r.Intn(6)], "nround"
	}
	switch r.Intn(9) {
	case 0:
		return fmt.Sprintf("%d", cnt), ccls + "/none"
	case 1:
		return fmt.Sprintf("%d/s", cnt), ccls + "/s"
	case 2:
		return fmt.Sprintf("%d/%ds", cnt, n(2, 60)), ccls + "/Ns"
	case 3:
		return fmt.Sprintf("%d/%dms", cnt, n(1, 999)), ccls + "/Nms"
	case 4:
		return fmt.Sprintf("%d/ms", cnt), ccls + "/ms"
	case 5:
		return fmt.Sprintf("%d/%dus", cnt, n(1, 999999)), ccls + "/Nus"
	case 6:
		return fmt.Sprintf("%d/%dm", cnt, n(1, 5)), ccls + "/Nm"
	case 7:
		return fmt.Sprintf("%d/%d.%ds", cnt, n(1, 9), n(1, 9)), ccls + "/N.Ns"
	default:
		return fmt.Sprintf("%d/%dm%ds", cnt, n(1, 3), n(1, 59)), ccls + "/NmNs"
	}
}

// genFracRate: --rate strings whose window has a fractional count ("30/1.5s", "20/0.5s", "20/.5s", "7/2.5ms",
// "3/1.25s", "12/0.25m", ...) next to the integer and unit-only forms of the same units.  Every fractional window is
// a whole number of nanoseconds, so the duration the string denotes is exact.
func genFracRate(r *hlib.SplitMix64) (string, string) {
	n := func(lo, hi int) int { return lo + r.Intn(hi-lo+1) }
	cnt := []int{1, 2, 3, 5, 7, 10, 12, 20, 30, 50, 100, 250, 1000}[r.Intn(13)]
	if r.Intn(4) == 0 {
		cnt = n(1, 4000)
	}
	unit := []string{"s", "s", "s", "ms", "ms", "us", "m"}[r.Intn(7)]
	maxDigits := map[string]int{"s": 3, "ms": 3, "us": 2, "m": 2}[unit]
	frac := func() string { // 1..maxDigits fractional digits, not all zero
		d := n(1, maxDigits)
		switch r.Intn(3) {
		case 0:
			return "5"
		case 1:
			return []string{"25", "75", "5", "1", "9"}[r.Intn(5)]
		}
		out := ""
		for len(out) < d {
			out += fmt.Sprint(r.Intn(10))
		}
		if strings.Trim(out, "0") == "" {
			out = out[:len(out)-1] + fmt.Sprint(n(1, 9))
		}
		return out
	}
	whole := 9
	if unit == "ms" || unit == "us" {
		whole = 900
	}
	if unit == "m" {
		whole = 3
	}
	switch r.Intn(10) {
	case 0:
		return fmt.Sprintf("%d/%s", cnt, unit), "unit-only:" + unit
	case 1:
		return fmt.Sprintf("%d/%d%s", cnt, n(1, whole), unit), "whole:" + unit
	case 2, 3:
		return fmt.Sprintf("%d/0.%s%s", cnt, frac(), unit), "0.x:" + unit
	case 4, 5:
		return fmt.Sprintf("%d/.%s%s", cnt, frac(), unit), ".x:" + unit
	default:
		return fmt.Sprintf("%d/%d.%s%s", cnt, n(1, whole), frac(), unit), "n.x:" + unit
	}
}

// ---------------------------------------------------------------- lim

func genGaps(r *hlib.SplitMix64, p int64, k int, allowNeg bool) []int64 {
	out := make([]int64, k)
	u := p
	if u == 0 {
		u = 1000
	}
	rnd := func(m int64) int64 {
		if m <= 0 {
			return 0
		}
		return int64(r.Uint64() % uint64(m))
	}
	style := r.Intn(4) // 0 mixed, 1 back-to-back, 2 slow, 3 bursts after idle
	for i := range out {
		var d int64
		switch style {
		case 1:
			d = 0
			if r.Intn(10) == 0 {
				d = rnd(2 * u)
			}
		case 2:
			d = u + rnd(3*u)
		case 3:
			if r.Intn(15) == 0 {
				d = 5*u + rnd(25*u)
			}
		default:
			switch r.Intn(8) {
			case 0, 1, 2:
				d = 0
			case 3:
				d = rnd(2*u + 1)
			case 4:
				d = u
			case 5:
				d = u + 1 - int64(r.Intn(3))
			case 6:
				d = 5*u + rnd(25*u)
			default:
				d = 1
			}
		}
		if d < 0 {
			d = 0
		}
		if allowNeg && r.Intn(6) == 0 {
			d = -rnd(2*u + 1)
		}
		out[i] = d
	}
	return out
}

func limCase(r *hlib.SplitMix64, id int, rateStr, cls string, cnt int, win time.Duration, mode, k int) row {
	o := row{Kind: "lim", ID: id, Class: cls, RateStr: rateStr, Rate: int64(cnt), Per: int64(win), ParseOK: true, Mode: mode}
	p := int64(win) / int64(cnt)
	clk := &fakeClock{t: base, scripted: mode == 1}
	if mode == 0 {
		o.In = genGaps(r, p, k, false)
	} else {
		// scripted readings: cumulative sums of deltas that may be negative
		d := genGaps(r, p, k, true)
		o.In = make([]int64, k)
		var t int64
		for i := range d {
			t += d[i]
			o.In[i] = t
			clk.script = append(clk.script, base.Add(time.Duration(t)))
		}
	}
	lim := ratelimit.New(cnt, ratelimit.Per(win), ratelimit.WithClock(clk))
	for i := 0; i < k; i++ {
		var now int64
		if mode == 0 {
			clk.t = clk.t.Add(time.Duration(o.In[i]))
			now = int64(clk.t.Sub(base))
		} else {
			now = o.In[i]
		}
		before := clk.slept
		g := lim.Take()
		o.Obs = append(o.Obs, [3]int64{now, int64(g.Sub(base)), int64(clk.slept - before)})
	}
	o.NowCalls = clk.nowCalls
	return o
}

// ---------------------------------------------------------------- wrap

type callLog struct {
	mu  sync.Mutex
	log [][2]int64
}

func (l *callLog) add(a, b int64) {
	l.mu.Lock()
	l.log = append(l.log, [2]int64{a, b})
	l.mu.Unlock()
}

type countingLimiter struct {
	l *callLog
	n int64
}

func (c *countingLimiter) Take() time.Time {
	atomic.AddInt64(&c.n, 1)
	if c.l != nil {
		c.l.add(0, 0)
	}
	return time.Time{}
}

type recRW struct {
	l        *callLog
	lastPkt  []byte
	nextErr  error
	readData []byte
	readCI   *gopacket.CaptureInfo
	readErr  error
}

func (d *recRW) WritePacketData(pkt []byte) error {
	id := int64(-1)
	if len(pkt) == 8 {
		id = 0
		for i := 0; i < 8; i++ {
			id |= int64(pkt[i]) << (8 * uint(i))
		}
	}
	d.lastPkt = pkt
	d.l.add(1, id)
	return d.nextErr
}

func (d *recRW) ReadPacketData() ([]byte, *gopacket.CaptureInfo, error) {
	d.l.add(2, 0)
	return d.readData, d.readCI, d.readErr
}

type fakeResult struct{ id int64 }

func (f *fakeResult) String() string               { return fmt.Sprint(f.id) }
func (f *fakeResult) MarshalJSON() ([]byte, error) { return []byte(fmt.Sprint(f.id)), nil }
func (f *fakeResult) ID() string                   { return fmt.Sprint(f.id) }

type recScanner struct {
	l       *callLog
	lastReq *scan.Request
	lastCtx context.Context
	nextRes scan.Result
	nextErr error
}

func (s *recScanner) Scan(ctx context.Context, r *scan.Request) (scan.Result, error) {
	s.lastReq, s.lastCtx = r, ctx
	s.l.add(3, int64(r.DstPort))
	return s.nextRes, s.nextErr
}

type ctxKey struct{}

// timeoutErr is a net.Error whose Timeout() is true (a read deadline that expired).
type timeoutErr struct{}

func (*timeoutErr) Error() string   { return "i/o timeout" }
func (*timeoutErr) Timeout() bool   { return true }
func (*timeoutErr) Temporary() bool { return true }

func wrapCase(r *hlib.SplitMix64, id int) row {
	o := row{Kind: "wrap", ID: id, RetOK: true}
	l := &callLog{}
	lim := &countingLimiter{l: l}
	drw := &recRW{l: l}
	dsc := &recScanner{l: l}
	rw := packet.NewRateLimitReadWriter(drw, lim)
	sc := scan.NewRateLimitScanner(dsc, lim)
	k := 1 + r.Intn(40)
	style := r.Intn(5) // 0 mixed, 1 reads only, 2 writes only, 3 scans only, 4 reads that all fail temporarily
	o.Class = []string{"mixed", "reads-only", "writes-only", "scans-only", "temporary-read-errors"}[style]
	for i := 0; i < k; i++ {
		kind := r.Intn(3)
		switch style {
		case 1, 4:
			kind = 1
		case 2:
			kind = 0
		case 3:
			kind = 2
		}
		switch kind {
		case 0:
			pid := int64(r.Intn(100000))
			pkt := make([]byte, 8)
			for j := 0; j < 8; j++ {
				pkt[j] = byte(pid >> (8 * uint(j)))
			}
			var want error
			if r.Intn(4) == 0 {
				want = errors.New("scripted write error")
			}
			drw.nextErr = want
			got := rw.WritePacketData(pkt)
			if got != want || len(drw.lastPkt) != 8 || &drw.lastPkt[0] != &pkt[0] {
				o.RetOK = false
			}
			o.Ops = append(o.Ops, [2]int64{0, pid})
		case 1:
			drw.readData = []byte{byte(i), 2, 3}
			drw.readCI = &gopacket.CaptureInfo{Length: i}
			drw.readErr = nil
			cls := int64(0)
			// temporary errors (what the afpacket source returns on a quiet wire, what the receiver retries) and others
			switch r.Intn(8) {
			case 0:
				drw.readErr, cls = syscall.EAGAIN, 1
			case 1:
				drw.readErr, cls = syscall.ECONNRESET, 2
			case 2:
				drw.readErr, cls = &timeoutErr{}, 3
			case 3:
				drw.readErr, cls = io.ErrNoProgress, 4
			case 4:
				drw.readErr, cls = fmt.Errorf("wrapped: %w", syscall.EAGAIN), 5
			}
			if style == 4 && cls == 0 {
				drw.readErr, cls = syscall.EAGAIN, 1
			}
			t0 := time.Now()
			data, ci, err := rw.ReadPacketData()
			if time.Since(t0) > 200*time.Millisecond {
				o.RetOK = false
			}
			if err != drw.readErr || ci != drw.readCI || len(data) != 3 || &data[0] != &drw.readData[0] {
				o.RetOK = false
			}
			o.Ops = append(o.Ops, [2]int64{1, cls})
		default:
			port := uint16(r.Intn(65536))
			req := &scan.Request{DstPort: port}
			ctx := context.WithValue(context.Background(), ctxKey{}, i)
			dsc.nextRes, dsc.nextErr = nil, nil
			switch r.Intn(3) {
			case 0:
				dsc.nextRes = &fakeResult{int64(i)}
			case 1:
				dsc.nextErr = errors.New("scripted scan error")
			}
			res, err := sc.Scan(ctx, req)
			if res != dsc.nextRes || err != dsc.nextErr || dsc.lastReq != req || dsc.lastCtx != ctx {
				o.RetOK = false
			}
			o.Ops = append(o.Ops, [2]int64{2, int64(port)})
		}
	}
	o.Log = l.log
	o.Takes = lim.n
	return o
}

// ---------------------------------------------------------------- pipe (real sender + receiver)

type pipeRW struct {
	writes, reads int64
	stop          chan struct{}
}

func (p *pipeRW) WritePacketData(pkt []byte) error {
	atomic.AddInt64(&p.writes, 1)
	return nil
}

func (p *pipeRW) ReadPacketData() ([]byte, *gopacket.CaptureInfo, error) {
	select {
	case <-p.stop:
		return nil, nil, io.EOF
	default:
	}
	atomic.AddInt64(&p.reads, 1)
	return []byte{1, 2, 3, 4}, &gopacket.CaptureInfo{Length: 4, CaptureLength: 4}, nil
}

type pipeMethod struct {
	m       int
	results chan scan.Result
	nproc   int64
}

func (pm *pipeMethod) Packets(ctx context.Context, r *scan.Range) <-chan *packet.BufferData {
	out := make(chan *packet.BufferData)
	go func() {
		defer close(out)
		for i := 0; i < pm.m; i++ {
			buf := packet.NewSerializeBuffer()
			b, _ := buf.AppendBytes(14)
			for j := range b {
				b[j] = byte(i)
			}
			select {
			case <-ctx.Done():
				return
			case out <- &packet.BufferData{Buf: buf}:
			}
		}
	}()
	return out
}

func (pm *pipeMethod) ProcessPacketData(data []byte, ci *gopacket.CaptureInfo) error {
	atomic.AddInt64(&pm.nproc, 1)
	return nil
}

func (pm *pipeMethod) Results() <-chan scan.Result { return pm.results }

func pipeCase(r *hlib.SplitMix64, id int) row {
	m := 1 + r.Intn(300)
	o := row{Kind: "pipe", ID: id, Class: "pipe", Sent: m, RetOK: true}
	lim := &countingLimiter{}
	prw := &pipeRW{stop: make(chan struct{})}
	pm := &pipeMethod{m: m, results: make(chan scan.Result)}
	engine := scan.SetupPacketEngine(packet.NewRateLimitReadWriter(prw, lim), pm)
	ctx, cancel := context.WithCancel(context.Background())
	done, errc := engine.Start(ctx, &scan.Range{})
	select {
	case <-done:
	case <-time.After(20 * time.Second):
		o.Err = "stuck: sender did not finish"
	}
	// let the receiver make progress at least once more, then stop everything
	deadline := time.Now().Add(2 * time.Second)
	for atomic.LoadInt64(&prw.reads) < 10 && time.Now().Before(deadline) {
		time.Sleep(100 * time.Microsecond)
	}
	close(prw.stop)
	cancel()
	for range errc {
	}
	o.Takes, o.Writes, o.Reads = atomic.LoadInt64(&lim.n), atomic.LoadInt64(&prw.writes), atomic.LoadInt64(&prw.reads)
	return o
}

// ---------------------------------------------------------------- rxlat (real sender + receiver, REAL limiter, quiet source)

// quietRW behaves like the afpacket source on a quiet wire: a read blocks for a poll timeout and
// fails with EAGAIN (or another temporary error), until a frame is made available.
type quietRW struct {
	mu        sync.Mutex
	t0        time.Time
	poll      time.Duration
	frameAt   time.Duration // the frame is on the "wire" from this moment on
	delivered bool
	errs      []error
	nerr      int
	writes    int64
}

func (q *quietRW) WritePacketData(pkt []byte) error {
	atomic.AddInt64(&q.writes, 1)
	return nil
}

func (q *quietRW) ReadPacketData() ([]byte, *gopacket.CaptureInfo, error) {
	deadline := time.Now().Add(q.poll)
	for {
		q.mu.Lock()
		if !q.delivered && time.Since(q.t0) >= q.frameAt {
			q.delivered = true
			q.mu.Unlock()
			return []byte{0xde, 0xad, 0xbe, 0xef}, &gopacket.CaptureInfo{Length: 4, CaptureLength: 4}, nil
		}
		q.mu.Unlock()
		if time.Now().After(deadline) {
			q.mu.Lock()
			e := q.errs[q.nerr%len(q.errs)]
			q.nerr++
			q.mu.Unlock()
			return nil, nil, e
		}
		time.Sleep(500 * time.Microsecond)
	}
}

type latMethod struct {
	m        int
	t0       time.Time
	procAt   int64
	results  chan scan.Result
	procDone chan struct{}
	once     sync.Once
}

func (pm *latMethod) Packets(ctx context.Context, r *scan.Range) <-chan *packet.BufferData {
	out := make(chan *packet.BufferData)
	go func() {
		defer close(out)
		for i := 0; i < pm.m; i++ {
			buf := packet.NewSerializeBuffer()
			b, _ := buf.AppendBytes(14)
			b[0] = byte(i)
			select {
			case <-ctx.Done():
				return
			case out <- &packet.BufferData{Buf: buf}:
			}
		}
	}()
	return out
}

func (pm *latMethod) ProcessPacketData(data []byte, ci *gopacket.CaptureInfo) error {
	pm.once.Do(func() {
		atomic.StoreInt64(&pm.procAt, int64(time.Since(pm.t0)))
		close(pm.procDone)
	})
	return nil
}

func (pm *latMethod) Results() <-chan scan.Result { return pm.results }

// rxlatCase: the real sender and receiver (scan.SetupPacketEngine) around the real
// NewRateLimitReadWriter with the REAL limiter at a low rate; the source is quiet (temporary read
// errors) and then delivers one frame.  Observed: how long after the frame was on the wire the
// processor got it.  Receiving must not wait for the limiter.
func rxlatCase(id int) row {
	kinds := [][]error{{syscall.EAGAIN}, {syscall.ECONNRESET}, {&timeoutErr{}}, {syscall.EAGAIN, &timeoutErr{}, syscall.ECONNRESET}}
	names := []string{"EAGAIN", "ECONNRESET", "timeout", "mixed"}
	o := row{Kind: "rxlat", ID: id, Class: "rxlat/" + names[id%len(kinds)], RateStr: "1/400ms", Rate: 1, Per: int64(400 * time.Millisecond), ParseOK: true, RetOK: true}
	t0 := time.Now()
	q := &quietRW{t0: t0, poll: 5 * time.Millisecond, frameAt: 150 * time.Millisecond, errs: kinds[id%len(kinds)]}
	pm := &latMethod{m: 2, t0: t0, results: make(chan scan.Result), procDone: make(chan struct{})}
	lim := ratelimit.New(1, ratelimit.Per(400*time.Millisecond))
	engine := scan.SetupPacketEngine(packet.NewRateLimitReadWriter(q, lim), pm)
	ctx, cancel := context.WithCancel(context.Background())
	_, errc := engine.Start(ctx, &scan.Range{})
	select {
	case <-pm.procDone:
	case <-time.After(3 * time.Second):
	}
	cancel()
	go func() {
		for range errc {
		}
	}()
	o.Starts = []int64{int64(q.frameAt), atomic.LoadInt64(&pm.procAt)} // (frame on the wire, frame processed; 0 = never)
	o.Writes = atomic.LoadInt64(&q.writes)
	q.mu.Lock()
	o.Reads = int64(q.nerr)
	q.mu.Unlock()
	return o
}

// ---------------------------------------------------------------- engslow (worker-bound first, then fast)

type phaseScanner struct {
	mu     sync.Mutex
	t0     time.Time
	slowN  int
	slow   time.Duration
	n      int
	starts []time.Time
}

func (s *phaseScanner) Scan(ctx context.Context, r *scan.Request) (scan.Result, error) {
	t := time.Now()
	s.mu.Lock()
	s.starts = append(s.starts, t)
	s.n++
	slow := s.n <= s.slowN
	s.mu.Unlock()
	if slow {
		select {
		case <-time.After(s.slow):
		case <-ctx.Done():
		}
	}
	return nil, nil
}

// engSlowCase: the application engine (hook: parseRawOptions + newScanEngine) with more than ten
// workers; the first targets are slow (every worker is busy, nobody asks the limiter for longer
// than the number of workers times W/N), the rest answer at once.
func engSlowCase(id int, rateStr string, workers int, slow time.Duration, total int) row {
	o := row{Kind: "eng", ID: id, Class: "eng/slow-then-fast", RateStr: rateStr, Workers: workers, RetOK: true}
	cnt, win, err := command.VerifC15ParseRateLimit(rateStr)
	if err != nil {
		o.Err = "parse: " + err.Error()
		return o
	}
	o.Rate, o.Per, o.ParseOK = int64(cnt), int64(win), true
	ctx, cancel := context.WithCancel(context.Background())
	defer cancel()
	ts := &phaseScanner{slowN: workers, slow: slow}
	engine, err := command.VerifC15NewGenericEngine(ctx, rateStr, workers, ts)
	if err != nil {
		o.Err = "engine: " + err.Error()
		return o
	}
	_, subnet, _ := net.ParseCIDR("10.9.0.0/30")
	rng := &scan.Range{DstSubnet: subnet, Ports: []*scan.PortRange{{StartPort: 1, EndPort: uint16(total / 4)}}}
	o.M = 4 * (total / 4)
	go func() {
		for range engine.Results() {
		}
	}()
	t0 := time.Now()
	done, errc := engine.Start(ctx, rng)
	go func() {
		for range errc {
		}
	}()
	select {
	case <-done:
	case <-time.After(60 * time.Second):
		o.Err = "stuck: engine did not finish"
	}
	ts.mu.Lock()
	for _, t := range ts.starts {
		o.Starts = append(o.Starts, int64(t.Sub(t0)))
	}
	ts.mu.Unlock()
	sort.Slice(o.Starts, func(i, j int) bool { return o.Starts[i] < o.Starts[j] })
	o.Scans = int64(len(o.Starts))
	return o
}

// ---------------------------------------------------------------- engcancel (the scan is interrupted while workers wait)

// engCancelCase: the application engine with more workers than the burst allowance, all of them
// waiting in the limiter (rate slow compared with the probes); the command context is cancelled
// (Ctrl-C) while they wait.  Every probe the engine still starts (Scanner.Scan invoked) is recorded
// for `watch` after the cancellation; they must be paced like all others.
func engCancelCase(id int, rateStr string, workers int, cancelAfter, watch time.Duration) row {
	o := row{Kind: "eng", ID: id, Class: "eng/cancel-while-waiting", RateStr: rateStr, Workers: workers, RetOK: true}
	cnt, win, err := command.VerifC15ParseRateLimit(rateStr)
	if err != nil {
		o.Err = "parse: " + err.Error()
		return o
	}
	o.Rate, o.Per, o.ParseOK = int64(cnt), int64(win), true
	ctx, cancel := context.WithCancel(context.Background())
	defer cancel()
	ts := &timingScanner{}
	engine, err := command.VerifC15NewGenericEngine(ctx, rateStr, workers, ts)
	if err != nil {
		o.Err = "engine: " + err.Error()
		return o
	}
	_, subnet, _ := net.ParseCIDR("10.9.0.0/28")
	rng := &scan.Range{DstSubnet: subnet, Ports: []*scan.PortRange{{StartPort: 1, EndPort: 20}}}
	o.M = 320
	go func() {
		for range engine.Results() {
		}
	}()
	t0 := time.Now()
	done, errc := engine.Start(ctx, rng)
	go func() {
		for range errc {
		}
	}()
	time.Sleep(cancelAfter)
	o.Takes = int64(time.Since(t0)) // when the context was cancelled (ns after the start)
	cancel()
	select {
	case <-done:
	case <-time.After(watch):
	}
	ts.mu.Lock()
	for _, t := range ts.starts {
		o.Starts = append(o.Starts, int64(t.Sub(t0)))
	}
	ts.mu.Unlock()
	sort.Slice(o.Starts, func(i, j int) bool { return o.Starts[i] < o.Starts[j] })
	o.Scans = int64(len(o.Starts))
	return o
}

// ---------------------------------------------------------------- engerr (probes that fail, application engine)

// Outcome of a scripted probe, one character per probe in the order the probes START:
//
//	.  success            r  connection refused      t  i/o timeout (net.Error, Timeout)   g  generic error
//	x  connection reset   u  host unreachable        c  context deadline exceeded
//	M  EMFILE   N  ENFILE   A  EADDRNOTAVAIL   B  ENOBUFS   (local resource errors, as net.Dial reports them:
//	   *net.OpError{Op: "dial"} around *os.SyscallError{"socket" / "connect" / "bind"})
//
// Every failing probe returns at once (nothing is sent), like a dial that fails in the kernel.
const errAlphabet = ".rtgxucMNAB"

func scriptedErr(c byte) error {
	sys := func(op, call string, e syscall.Errno) error {
		return &net.OpError{Op: op, Net: "tcp", Err: os.NewSyscallError(call, e)}
	}
	switch c {
	case 'r':
		return sys("dial", "connect", syscall.ECONNREFUSED)
	case 't':
		return &net.OpError{Op: "dial", Net: "tcp", Err: &timeoutErr{}}
	case 'g':
		return errors.New("scripted probe error")
	case 'x':
		return sys("read", "read", syscall.ECONNRESET)
	case 'u':
		return sys("dial", "connect", syscall.EHOSTUNREACH)
	case 'c':
		return fmt.Errorf("probe: %w", context.DeadlineExceeded)
	case 'M':
		return sys("dial", "socket", syscall.EMFILE)
	case 'N':
		return sys("dial", "socket", syscall.ENFILE)
	case 'A':
		return sys("dial", "connect", syscall.EADDRNOTAVAIL)
	case 'B':
		return fmt.Errorf("probe: %w", sys("dial", "connect", syscall.ENOBUFS))
	}
	return nil
}

// genErrScript: m outcomes; one to three bursts of failing probes (one error class per burst, or a mix) at positions
// chosen by r, plus isolated failures; the rest succeed.
func genErrScript(r *hlib.SplitMix64, m int) (string, string) {
	b := []byte(strings.Repeat(".", m))
	fails := errAlphabet[1:]
	style := r.Intn(4) // 0 one class per burst, 1 mixed classes inside a burst, 2 bursts + isolated failures, 3 everything fails
	cls := []string{"bursts", "mixed-bursts", "bursts+isolated", "all-fail"}[style]
	nb := 1 + r.Intn(3)
	for k := 0; k < nb; k++ {
		l := 18 + r.Intn(30)
		if l > m-2 {
			l = m - 2
		}
		at := 1 + r.Intn(m-l-1+1)
		c := fails[r.Intn(len(fails))]
		for i := at; i < at+l && i < m; i++ {
			if style == 1 {
				c = fails[r.Intn(len(fails))]
			}
			b[i] = c
		}
	}
	if style == 2 {
		for i := range b {
			if r.Intn(8) == 0 {
				b[i] = fails[r.Intn(len(fails))]
			}
		}
	}
	if style == 3 {
		c := fails[r.Intn(len(fails))]
		for i := range b {
			b[i] = c
			if r.Intn(3) == 0 {
				b[i] = fails[r.Intn(len(fails))]
			}
		}
	}
	return string(b), cls
}

type errScanner struct {
	mu     sync.Mutex
	script string
	l      *callLog
	starts []time.Time
}

func (s *errScanner) Scan(ctx context.Context, r *scan.Request) (scan.Result, error) {
	t := time.Now()
	s.mu.Lock()
	pos := len(s.starts)
	s.starts = append(s.starts, t)
	if s.l != nil {
		s.l.add(3, int64(pos))
	}
	s.mu.Unlock()
	if pos < len(s.script) {
		return nil, scriptedErr(s.script[pos])
	}
	return nil, nil
}

var engErrRates = []string{"200/s", "100/500ms", "125/s", "50/250ms", "250/s", "20/100ms", "1000/5s", "150/s"}

// engErrCase: the application engine with a scanner whose probes fail as scripted.
//
//	counted == false  the engine the socks/docker/elastic commands build (hook: parseRawOptions + newScanEngine, the
//	                  REAL limiter on the real clock): start time of every probe
//	counted == true   the same construction (scan.NewScanEngine over the ip/port generator, scan.NewRateLimitScanner)
//	                  around a COUNTING limiter: the order of Take calls and probe starts
func engErrCase(r *hlib.SplitMix64, id int, counted bool) row {
	rateStr := engErrRates[r.Intn(len(engErrRates))]
	workers := []int{1, 2, 3, 4, 6, 8}[r.Intn(6)]
	nports := 9 + r.Intn(8) // 72 .. 128 probes
	m := 8 * nports
	script, cls := genErrScript(r, m)
	o := row{Kind: "eng", ID: id, Class: "eng/probe-errors/" + cls, RateStr: rateStr, Workers: workers, RetOK: true, M: m, Script: script}
	if counted {
		o.Class = "eng/probe-errors-charged/" + cls
	}
	cnt, win, err := command.VerifC15ParseRateLimit(rateStr)
	if err != nil {
		o.Err = "parse: " + err.Error()
		return o
	}
	o.Rate, o.Per, o.ParseOK = int64(cnt), int64(win), true
	ctx, cancel := context.WithCancel(context.Background())
	defer cancel()
	es := &errScanner{script: script}
	var engine scan.EngineResulter
	var lim *countingLimiter
	if counted {
		es.l = &callLog{}
		lim = &countingLimiter{l: es.l}
		engine = scan.NewScanEngine(scan.NewIPPortGenerator(scan.NewIPGenerator(), scan.NewPortGenerator()),
			scan.NewRateLimitScanner(es, lim), scan.NewResultChan(ctx, 1000), scan.WithScanWorkerCount(workers))
	} else {
		engine, err = command.VerifC15NewGenericEngine(ctx, rateStr, workers, es)
		if err != nil {
			o.Err = "engine: " + err.Error()
			return o
		}
	}
	_, subnet, _ := net.ParseCIDR("10.9.0.0/29")
	rng := &scan.Range{DstSubnet: subnet, Ports: []*scan.PortRange{{StartPort: 1, EndPort: uint16(nports)}}}
	go func() {
		for range engine.Results() {
		}
	}()
	t0 := time.Now()
	done, errc := engine.Start(ctx, rng)
	var nerr int64
	errDone := make(chan struct{})
	go func() {
		for range errc {
			nerr++
		}
		close(errDone)
	}()
	select {
	case <-done:
		<-errDone
	case <-time.After(60 * time.Second):
		o.Err = "stuck: engine did not finish"
	}
	es.mu.Lock()
	for _, t := range es.starts {
		o.Starts = append(o.Starts, int64(t.Sub(t0)))
	}
	es.mu.Unlock()
	sort.Slice(o.Starts, func(i, j int) bool { return o.Starts[i] < o.Starts[j] })
	o.Scans = int64(len(o.Starts))
	o.Reads = nerr // errors the engine reported
	if counted {
		es.l.mu.Lock()
		o.Log = append([][2]int64(nil), es.l.log...)
		es.l.mu.Unlock()
		o.Takes = atomic.LoadInt64(&lim.n)
		o.Starts = nil
	}
	return o
}

// ---------------------------------------------------------------- eng (real clock)

type timingScanner struct {
	mu     sync.Mutex
	starts []time.Time
}

func (s *timingScanner) Scan(ctx context.Context, r *scan.Request) (scan.Result, error) {
	t := time.Now()
	s.mu.Lock()
	s.starts = append(s.starts, t)
	s.mu.Unlock()
	return nil, nil
}

func engCase(id int, rateStr string, workers, nports int) row {
	o := row{Kind: "eng", ID: id, Class: "eng", RateStr: rateStr, Workers: workers, RetOK: true}
	cnt, win, err := command.VerifC15ParseRateLimit(rateStr)
	if err != nil {
		o.Err = "parse: " + err.Error()
		return o
	}
	o.Rate, o.Per, o.ParseOK = int64(cnt), int64(win), true
	ctx, cancel := context.WithCancel(context.Background())
	defer cancel()
	ts := &timingScanner{}
	engine, err := command.VerifC15NewGenericEngine(ctx, rateStr, workers, ts)
	if err != nil {
		o.Err = "engine: " + err.Error()
		return o
	}
	_, subnet, _ := net.ParseCIDR("10.9.0.0/29")
	rng := &scan.Range{DstSubnet: subnet, Ports: []*scan.PortRange{{StartPort: 1, EndPort: uint16(nports)}}}
	o.M = 8 * nports
	go func() {
		for range engine.Results() {
		}
	}()
	t0 := time.Now()
	done, errc := engine.Start(ctx, rng)
	go func() {
		for range errc {
		}
	}()
	select {
	case <-done:
	case <-time.After(60 * time.Second):
		o.Err = "stuck: engine did not finish"
	}
	ts.mu.Lock()
	for _, t := range ts.starts {
		o.Starts = append(o.Starts, int64(t.Sub(t0)))
	}
	ts.mu.Unlock()
	sort.Slice(o.Starts, func(i, j int) bool { return o.Starts[i] < o.Starts[j] })
	o.Scans = int64(len(o.Starts))
	return o
}

// ---------------------------------------------------------------- slow (real clock, rates of about one probe per second)

// slowScanner records the start of every probe and cancels the scan as soon as probe number j
// (0-based) starts earlier than (j-10)*p after the scan began: the outcome is then known.
type slowScanner struct {
	mu     sync.Mutex
	t0     time.Time
	p      time.Duration
	starts []int64
	cancel context.CancelFunc
	hit    bool
}

func (s *slowScanner) Scan(ctx context.Context, r *scan.Request) (scan.Result, error) {
	t := time.Since(s.t0)
	s.mu.Lock()
	j := int64(len(s.starts))
	s.starts = append(s.starts, int64(t))
	if !s.hit && t < time.Duration(j-10)*s.p {
		s.hit = true
		s.cancel()
	}
	s.mu.Unlock()
	return nil, nil
}

// slowCase runs the application-scan engine (hook: parseRawOptions + newScanEngine) at a rate whose
// per-second value is fractional, for at most capDur of wall time.
func slowCase(id int, rateStr string, workers int, capDur time.Duration) row {
	o := row{Kind: "slow", ID: id, Class: "slow", RateStr: rateStr, Workers: workers, RetOK: true}
	cnt, win, err := command.VerifC15ParseRateLimit(rateStr)
	if err != nil || cnt <= 0 {
		o.Err = fmt.Sprint("parse: ", err)
		return o
	}
	o.Rate, o.Per, o.ParseOK = int64(cnt), int64(win), true
	ctx, cancel := context.WithCancel(context.Background())
	defer cancel()
	ss := &slowScanner{p: win / time.Duration(cnt), cancel: cancel}
	engine, err := command.VerifC15NewGenericEngine(ctx, rateStr, workers, ss)
	if err != nil {
		o.Err = "engine: " + err.Error()
		return o
	}
	_, subnet, _ := net.ParseCIDR("10.9.0.0/28")
	rng := &scan.Range{DstSubnet: subnet, Ports: []*scan.PortRange{{StartPort: 1, EndPort: 16}}}
	o.M = 256
	go func() {
		for range engine.Results() {
		}
	}()
	ss.t0 = time.Now()
	done, errc := engine.Start(ctx, rng)
	go func() {
		for range errc {
		}
	}()
	select {
	case <-done:
		o.Class = "slow/finished"
	case <-ctx.Done():
		o.Class = "slow/stopped-early"
	case <-time.After(capDur):
		o.Class = "slow/deadline"
	}
	cancel()
	ss.mu.Lock()
	o.Starts = append([]int64(nil), ss.starts...)
	ss.mu.Unlock()
	sort.Slice(o.Starts, func(i, j int) bool { return o.Starts[i] < o.Starts[j] })
	o.Scans = int64(len(o.Starts))
	return o
}

var slowRates = []struct {
	rate    string
	workers int
}{{"1/m", 1}, {"21/20s", 4}, {"41/20s", 1}, {"61/20s", 8}, {"1/15s", 2}, {"81/20s", 3}}

func slowAll(out string, capDur time.Duration, only int) {
	w := hlib.NewOut(out)
	defer w.Close()
	rows := make([]row, len(slowRates))
	var wg sync.WaitGroup
	for i, sr := range slowRates {
		if only >= 0 && i != only {
			continue
		}
		wg.Add(1)
		go func(i int, rate string, workers int) {
			defer wg.Done()
			rows[i] = slowCase(i, rate, workers, capDur)
		}(i, sr.rate, sr.workers)
	}
	wg.Wait()
	for i := range rows {
		if only >= 0 && i != only {
			continue
		}
		w.Put(rows[i])
	}
}

// ---------------------------------------------------------------- chunk boundary witness

// chunkCase replays the witness of C15_chunked_scan_refuted on the real library: two limiters
// constructed one after the other (as startPortScanEngine does per chunk of 200 port ranges), 1/s,
// scripted clock: chunk one asks at 0 s and eleven times at 20 s, chunk two asks at 20.3 s.
func chunkCase() row {
	o := row{Kind: "chunk", Class: "chunk", RateStr: "1/s", Rate: 1, Per: int64(time.Second), ParseOK: true, Mode: 1, RetOK: true}
	nows := [][]int64{{0}, {20300000000}}
	for i := 0; i < 11; i++ {
		nows[0] = append(nows[0], 20000000000)
	}
	for _, chunk := range nows {
		clk := &fakeClock{t: base, scripted: true}
		for _, t := range chunk {
			clk.script = append(clk.script, base.Add(time.Duration(t)))
		}
		lim := ratelimit.New(1, ratelimit.Per(time.Second), ratelimit.WithClock(clk))
		for _, t := range chunk {
			before := clk.slept
			g := lim.Take()
			o.In = append(o.In, t)
			o.Obs = append(o.Obs, [3]int64{t, int64(g.Sub(base)), int64(clk.slept - before)})
		}
	}
	return o
}

// ---------------------------------------------------------------- main

func main() {
	out := flag.String("out", "cases.jsonl", "output file")
	seed := flag.Int64("seed", 1, "seed")
	n := flag.Int("n", 200, "number of limiter runs")
	nwrap := flag.Int("wrap", 60, "number of wrapper op sequences")
	npipe := flag.Int("pipe", 6, "number of sender/receiver runs")
	neng := flag.Int("eng", 3, "number of application-engine wall-clock runs")
	maxk := flag.Int("k", 120, "maximal number of Take calls per run")
	nengerr := flag.Int("engerr", 0, "number of application-engine runs with failing probes (each: one real-clock run, one counting-limiter run)")
	nfrac := flag.Int("frac", 0, "number of fractional-window limiter runs (plus one engine run when -eng > 0)")
	one := flag.String("one", "", "replay: kind,id  (regenerates exactly that case of this seed)")
	capIface := flag.String("capture", "", "capture mode: interface to listen on")
	capMax := flag.Int("max", 1000, "capture mode: stop after this many probes")
	capIdle := flag.Duration("idle", 400*time.Millisecond, "capture mode: stop when no probe arrived for this long")
	capTotal := flag.Duration("total", 30*time.Second, "capture mode: overall timeout")
	capMatch := flag.String("match", "arp", "capture mode: arp | dstmac:<mac> | syn:<ip>")
	slow := flag.Duration("slow", 0, "slow mode: run the fractional per-second rates for at most this long, then exit")
	slowOnly := flag.Int("slowonly", -1, "slow mode: only this rate index")
	flag.Parse()
	if *slow > 0 {
		slowAll(*out, *slow, *slowOnly)
		return
	}
	if *capIface != "" {
		capture(*out, *capIface, *capMatch, *capMax, *capIdle, *capTotal)
		return
	}
	w := hlib.NewOut(*out)
	defer w.Close()
	want := func(kind string, id int) bool {
		return *one == "" || *one == fmt.Sprintf("%s,%d", kind, id)
	}
	for i := 0; i < *n; i++ {
		r := hlib.NewRand(*seed*1000003 + int64(i))
		rateStr, cls := genRate(r)
		mode := r.Intn(3) / 2 // two thirds serial, one third scripted
		k := 2 + r.Intn(*maxk)
		if !want("lim", i) {
			continue
		}
		cnt, win, err := command.VerifC15ParseRateLimit(rateStr)
		if err != nil || cnt <= 0 {
			w.Put(row{Kind: "lim", ID: i, Class: cls + "/rejected", RateStr: rateStr, Err: fmt.Sprint(err)})
			continue
		}
		w.Put(limCase(r, i, rateStr, cls, cnt, win, mode, k))
	}
	// fractional-window stage: the RAW string through the real parseRateLimit, then the real limiter on a fake
	// clock, one caller, mostly back-to-back (the check judges the grants against the duration the STRING denotes)
	for i := 0; i < *nfrac; i++ {
		// (seeds i and i+1 of hlib.NewRand give streams shifted by one draw: hash the case number first)
		r := hlib.NewRand(int64(hlib.NewRand(*seed*5000011+int64(i)).Uint64() >> 1))
		rateStr, cls := genFracRate(r)
		k := 60 + r.Intn(240)
		if !want("frac", i) {
			continue
		}
		cnt, win, err := command.VerifC15ParseRateLimit(rateStr)
		if err != nil || cnt <= 0 {
			w.Put(row{Kind: "frac", ID: i, Class: "frac/" + cls + "/rejected", RateStr: rateStr, Err: fmt.Sprint(err)})
			continue
		}
		o := limCase(r, i, rateStr, "frac/"+cls, cnt, win, 0, k)
		o.Kind = "frac"
		w.Put(o)
	}
	// ... and one application-engine run on the real clock with such a string (parseRawOptions + newScanEngine)
	if *nfrac > 0 && *neng > 0 && want("eng", 200) {
		fr := []struct {
			rate    string
			workers int
			nports  int
		}{{"100/0.5s", 4, 4}, {"60/.25s", 8, 4}, {"300/1.5s", 3, 4}, {"500/2.5s", 16, 4}, {"8/2.5ms", 2, 8}, {"50/0.125s", 5, 4}}
		e := fr[int(uint64(*seed)%uint64(len(fr)))]
		o := engCase(200, e.rate, e.workers, e.nports)
		o.Class = "eng/frac-window"
		w.Put(o)
	}
	for i := 0; i < *nwrap; i++ {
		r := hlib.NewRand(*seed*2000003 + int64(i))
		if want("wrap", i) {
			w.Put(wrapCase(r, i))
		}
	}
	for i := 0; i < *npipe; i++ {
		r := hlib.NewRand(*seed*3000017 + int64(i))
		if want("pipe", i) {
			w.Put(pipeCase(r, i))
		}
	}
	engRates := []struct {
		rate    string
		workers int
		nports  int
	}{{"2000/s", 3, 8}, {"40/20ms", 50, 10}, {"1000", 1, 5}, {"5000/s", 100, 30}, {"300/100ms", 7, 12}, {"100/s", 2, 3}}
	for i := 0; i < *neng && i < len(engRates); i++ {
		e := engRates[(i+int(*seed))%len(engRates)]
		if want("eng", i) {
			w.Put(engCase(i, e.rate, e.workers, e.nports))
		}
	}
	// a window longer than the library's default of one second (about 1.2 s of wall time): only on request
	if *neng > len(engRates) && want("eng", len(engRates)) {
		w.Put(engCase(len(engRates), "60/3s", 4, 3))
	}
	if want("chunk", 0) {
		w.Put(chunkCase())
	}
	if *neng > 0 {
		// slow-then-fast engine run and the quiet-source receive latency runs, side by side
		var wg sync.WaitGroup
		extra := make([]row, 6+2**nengerr)
		run := func(i int, kind string, id int, f func() row) {
			if !want(kind, id) {
				return
			}
			wg.Add(1)
			go func() { defer wg.Done(); extra[i] = f() }()
		}
		run(0, "eng", 100, func() row { return engSlowCase(100, "100/s", 25, 600*time.Millisecond, 100) })
		run(5, "eng", 101, func() row {
			return engCancelCase(101, "20/s", 24, 330*time.Millisecond, 1500*time.Millisecond)
		})
		for k := 0; k < 4; k++ {
			k := k
			run(1+k, "rxlat", k, func() row { return rxlatCase(k) })
		}
		// probes that fail (refused, timeout, reset, generic, local resource errors) in seed-chosen bursts: real-clock
		// runs (ids 300+) side by side, counting-limiter runs (ids 400+)
		for k := 0; k < *nengerr; k++ {
			k := k
			run(6+2*k, "eng", 300+k, func() row {
				return engErrCase(hlib.NewRand(int64(hlib.NewRand(*seed*7000003+int64(k)).Uint64()>>1)), 300+k, false)
			})
			run(7+2*k, "eng", 400+k, func() row {
				return engErrCase(hlib.NewRand(int64(hlib.NewRand(*seed*7000003+int64(k)).Uint64()>>1)), 400+k, true)
			})
		}
		wg.Wait()
		for _, e := range extra {
			if e.Kind != "" {
				w.Put(e)
			}
		}
	}
	if *one != "" && w.N == 0 {
		fmt.Fprintln(os.Stderr, "no such case:", *one)
		os.Exit(2)
	}
}
