package main

// Capture mode for the end-to-end runs: `c15 -capture v1 -max 64 -idle 400ms -total 20s` listens on
// the peer end of a veth pair inside the private network namespace the check created, prints
// "ready" once the socket is open, and writes the kernel timestamps of the ARP requests it sees
// (the probes of `sx arp`) as one JSON row.

import (
	"encoding/binary"
	"fmt"
	"os"
	"time"

	afp "github.com/google/gopacket/afpacket"
	"verifharness/hlib"
)

type capRow struct {
	Kind   string  `json:"kind"`
	Iface  string  `json:"iface"`
	TS     []int64 `json:"ts"`     // ns, relative to the first probe
	Other  int     `json:"other"`  // frames that were not ARP requests
	Reason string  `json:"reason"` // why the capture stopped
}

func capture(out, iface string, max int, idle, total time.Duration) {
	h, err := afp.NewTPacket(afp.SocketRaw, afp.OptInterface(iface), afp.OptPollTimeout(20*time.Millisecond))
	if err != nil {
		fmt.Fprintln(os.Stderr, "capture:", err)
		os.Exit(2)
	}
	defer h.Close()
	fmt.Println("ready")
	os.Stdout.Sync()
	row := capRow{Kind: "cap", Iface: iface}
	var first, last time.Time
	deadline := time.Now().Add(total)
	for {
		if time.Now().After(deadline) {
			row.Reason = "total timeout"
			break
		}
		if len(row.TS) >= max {
			row.Reason = "max"
			break
		}
		if !last.IsZero() && time.Since(last) > idle {
			row.Reason = "idle"
			break
		}
		data, ci, err := h.ZeroCopyReadPacketData()
		if err != nil {
			continue // poll timeout
		}
		// Ethernet: dst(6) src(6) type(2); ARP: htype ptype hlen plen oper(2 at offset 20)
		if len(data) < 22 || binary.BigEndian.Uint16(data[12:14]) != 0x0806 || binary.BigEndian.Uint16(data[20:22]) != 1 {
			row.Other++
			continue
		}
		if first.IsZero() {
			first = ci.Timestamp
		}
		last = time.Now()
		row.TS = append(row.TS, int64(ci.Timestamp.Sub(first)))
	}
	w := hlib.NewOut(out)
	w.Put(row)
	w.Close()
}
