package main

// Capture mode for the end-to-end runs: `c15 -capture v1 -max 64 -idle 400ms -total 20s` listens on
// the peer end of a veth pair inside the private network namespace the check created, prints
// "ready" once the socket is open, and writes the kernel timestamps of the ARP requests it sees
// (the probes of `sx arp`) as one JSON row.

import (
	"bytes"
	"encoding/binary"
	"fmt"
	"net"
	"os"
	"strings"
	"time"

	afp "github.com/google/gopacket/afpacket"
	"verifharness/hlib"
)

type capRow struct {
	Kind   string  `json:"kind"`
	Iface  string  `json:"iface"`
	TS     []int64 `json:"ts"`     // ns, relative to the first probe
	Other  int     `json:"other"`  // frames that were not ARP requests
	Reason string  `json:"reason"` // why the capture stopped
}

// matcher decides whether a frame is a probe; key != "" asks for de-duplication on that key.
type matcher func(data []byte) (ok bool, key string)

func newMatcher(spec string) matcher {
	switch {
	case spec == "" || spec == "arp":
		return func(data []byte) (bool, string) {
			// Ethernet: dst(6) src(6) type(2); ARP: htype ptype hlen plen oper(2 at offset 20)
			return len(data) >= 22 && binary.BigEndian.Uint16(data[12:14]) == 0x0806 && binary.BigEndian.Uint16(data[20:22]) == 1, ""
		}
	case strings.HasPrefix(spec, "dstmac:"):
		mac, err := net.ParseMAC(spec[len("dstmac:"):])
		if err != nil {
			fmt.Fprintln(os.Stderr, "capture: bad mac")
			os.Exit(2)
		}
		return func(data []byte) (bool, string) {
			return len(data) >= 34 && bytes.Equal(data[0:6], mac) && binary.BigEndian.Uint16(data[12:14]) == 0x0800, ""
		}
	case strings.HasPrefix(spec, "syn:"):
		ip := net.ParseIP(spec[len("syn:"):]).To4()
		if ip == nil {
			fmt.Fprintln(os.Stderr, "capture: bad ip")
			os.Exit(2)
		}
		// first SYN (without ACK) per destination port to that address
		return func(data []byte) (bool, string) {
			if len(data) < 54 || binary.BigEndian.Uint16(data[12:14]) != 0x0800 || data[23] != 6 {
				return false, ""
			}
			ihl := int(data[14]&0x0f) * 4
			if len(data) < 14+ihl+14 || !bytes.Equal(data[30:34], ip) {
				return false, ""
			}
			tcp := data[14+ihl:]
			flags := tcp[13]
			if flags&0x02 == 0 || flags&0x10 != 0 {
				return false, ""
			}
			return true, fmt.Sprint(binary.BigEndian.Uint16(tcp[2:4]))
		}
	}
	fmt.Fprintln(os.Stderr, "capture: unknown -match", spec)
	os.Exit(2)
	return nil
}

func capture(out, iface, match string, max int, idle, total time.Duration) {
	isProbe := newMatcher(match)
	seen := map[string]bool{}
	h, err := afp.NewTPacket(afp.SocketRaw, afp.OptInterface(iface), afp.OptPollTimeout(20*time.Millisecond))
	if err != nil {
		fmt.Fprintln(os.Stderr, "capture:", err)
		os.Exit(2)
	}
	defer h.Close()
	fmt.Println("ready")
	os.Stdout.Sync()
	row := capRow{Kind: "cap", Iface: iface}
	var first, last time.Time
	deadline := time.Now().Add(total)
	for {
		if time.Now().After(deadline) {
			row.Reason = "total timeout"
			break
		}
		if len(row.TS) >= max {
			row.Reason = "max"
			break
		}
		if !last.IsZero() && time.Since(last) > idle {
			row.Reason = "idle"
			break
		}
		data, ci, err := h.ZeroCopyReadPacketData()
		if err != nil {
			continue // poll timeout
		}
		ok, key := isProbe(data)
		if !ok {
			row.Other++
			continue
		}
		if key != "" {
			if seen[key] {
				continue
			}
			seen[key] = true
		}
		if first.IsZero() {
			first = ci.Timestamp
		}
		last = time.Now()
		row.TS = append(row.TS, int64(ci.Timestamp.Sub(first)))
	}
	w := hlib.NewOut(out)
	w.Put(row)
	w.Close()
}
