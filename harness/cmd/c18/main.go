// Driver for C18: feeds generated strings and files to the real option parsers (through the
// add-only hook command/verif_export_c18.go, build tag verif) and records what a caller observes:
// accepted or rejected, the value returned, a panic if any.  For TCP and IP flags the value is
// followed to the wire: the real packet fillers are run with the parsed options and the flag bits are
// read back from the serialised header.  Every random choice derives from -seed.
package main

import (
	"bytes"
	"encoding/hex"
	"encoding/json"
	"flag"
	"fmt"
	"io"
	"math"
	"net"
	"os"
	"sort"
	"strconv"
	"strings"
	"unicode"

	"github.com/google/gopacket"
	"github.com/v-byte-cpu/sx/command"
	"github.com/v-byte-cpu/sx/pkg/ip"
	"github.com/v-byte-cpu/sx/pkg/scan"
	"github.com/v-byte-cpu/sx/pkg/scan/tcp"
	"github.com/v-byte-cpu/sx/pkg/scan/udp"
	"verifharness/hlib"
)

type oracleEnt struct {
	Tok  string `json:"tok"` // hex
	Ok   bool   `json:"ok"`
	IP   int64  `json:"ip"`
	Ones int64  `json:"ones"`
}

type row struct {
	Kind     string      `json:"kind"`
	Class    string      `json:"class"`
	In       string      `json:"in"` // hex of the input bytes
	Ok       bool        `json:"ok"`
	Panic    string      `json:"panic,omitempty"`
	Nums     []int64     `json:"nums"`
	Out      string      `json:"out"` // hex
	VOk      int         `json:"vok"` // validatePorts on an accepted list: 1 nil, 0 error, -1 not applicable
	HasWant  bool        `json:"has_want"`
	WantNums []int64     `json:"want_nums,omitempty"`
	WantOut  string      `json:"want_out,omitempty"`
	Oracle   []oracleEnt `json:"oracle,omitempty"`
	Probes   []int64     `json:"probes,omitempty"`
}

var rnd *hlib.SplitMix64

func opener(data []byte) func() (io.ReadCloser, error) {
	return func() (io.ReadCloser, error) { return io.NopCloser(bytes.NewReader(data)), nil }
}

func guard(r *row, f func()) {
	defer func() {
		if e := recover(); e != nil {
			r.Panic = fmt.Sprint(e)
			r.Ok = false
		}
	}()
	f()
}

func flatPorts(rs []*scan.PortRange) []int64 {
	out := make([]int64, 0, 2*len(rs))
	for _, p := range rs {
		out = append(out, int64(p.StartPort), int64(p.EndPort))
	}
	return out
}

func validate(r *row, rs []*scan.PortRange) {
	if scan.VerifValidatePorts(rs) == nil {
		r.VOk = 1
	} else {
		r.VOk = 0
	}
}

// tcpWireBits runs the real filler with the options the command would build and returns the 9 flag
// bits of the serialised TCP header.
func tcpWireBits(names []string) int64 {
	f := tcp.NewPacketFiller(append(command.VerifC18TCPFlagOptions(names), tcp.WithFillerVPNmode(true))...)
	buf := gopacket.NewSerializeBuffer()
	req := &scan.Request{SrcIP: net.IPv4(10, 0, 0, 1).To4(), DstIP: net.IPv4(10, 0, 0, 2).To4(), DstPort: 80}
	if err := f.Fill(buf, req); err != nil {
		panic("tcp Fill: " + err.Error())
	}
	b := buf.Bytes()
	ihl := int(b[0]&0x0f) * 4
	return int64(b[ihl+12]&1)<<8 | int64(b[ihl+13])
}

// ipWireBits runs the real UDP filler with WithIPFlags and returns the 3 flag bits of the IPv4 header.
func ipWireBits(v uint8) int64 {
	f := udp.NewPacketFiller(udp.WithIPFlags(v), udp.WithVPNmode(true))
	buf := gopacket.NewSerializeBuffer()
	req := &scan.Request{SrcIP: net.IPv4(10, 0, 0, 1).To4(), DstIP: net.IPv4(10, 0, 0, 2).To4(), DstPort: 53}
	if err := f.Fill(buf, req); err != nil {
		panic("udp Fill: " + err.Error())
	}
	return int64(buf.Bytes()[6] >> 5)
}

func run(kind, class string, in []byte) row {
	r := row{Kind: kind, Class: class, In: hex.EncodeToString(in), VOk: -1, Nums: []int64{}}
	s := string(in)
	guard(&r, func() {
		switch kind {
		case "portrange":
			p, err := command.VerifC18ParsePortRange(s)
			if r.Ok = err == nil; r.Ok {
				r.Nums = flatPorts([]*scan.PortRange{p})
				validate(&r, []*scan.PortRange{p})
			}
		case "portranges":
			ps, err := command.VerifC18ParsePortRanges(s)
			if r.Ok = err == nil; r.Ok {
				r.Nums = flatPorts(ps)
				validate(&r, ps)
			}
		case "portsfile":
			ps, err := command.VerifC18ParsePortsFile(opener(in))
			if r.Ok = err == nil; r.Ok {
				r.Nums = flatPorts(ps)
				validate(&r, ps)
			}
		case "rate":
			n, w, err := command.VerifC18ParseRateLimit(s)
			if r.Ok = err == nil; r.Ok {
				r.Nums = []int64{int64(n), int64(w)}
			}
		case "payload":
			b, err := command.VerifC18ParsePacketPayload(s)
			if r.Ok = err == nil; r.Ok {
				r.Out = hex.EncodeToString(b)
			}
		case "ipflags":
			v, err := command.VerifC18ParseIPFlags(s)
			if r.Ok = err == nil; r.Ok {
				r.Nums = []int64{int64(v), ipWireBits(v)}
			}
		case "tcpflags":
			names, err := command.VerifC18ParseTCPFlags(s)
			if r.Ok = err == nil; r.Ok {
				r.Out = hex.EncodeToString([]byte(strings.Join(names, ",")))
				r.Nums = []int64{int64(len(names)), tcpWireBits(names)}
			}
		case "exclude":
			r.Oracle, r.Probes = excludeOracle(in)
			c, err := command.VerifC18ParseExcludeFile(opener(in))
			if r.Ok = err == nil; r.Ok {
				for _, p := range r.Probes {
					in4 := net.IP{byte(p >> 24), byte(p >> 16), byte(p >> 8), byte(p)}
					ok, err := c.Contains(in4)
					if err != nil {
						panic("Contains: " + err.Error())
					}
					if ok {
						r.Nums = append(r.Nums, 1)
					} else {
						r.Nums = append(r.Nums, 0)
					}
				}
			}
		default:
			panic("unknown kind " + kind)
		}
	})
	return r
}

// excludeOracle asks the real ip.ParseIPNet about every string a line of the file could be reduced to
// (with and without a trailing carriage return, cut at '#', trimmed of spaces), and derives probe
// addresses from the accepted networks.
func excludeOracle(data []byte) ([]oracleEnt, []int64) {
	seen := map[string]bool{}
	var ents []oracleEnt
	var probes []int64
	add := func(t string) {
		if seen[t] || t == "" {
			return
		}
		seen[t] = true
		e := oracleEnt{Tok: hex.EncodeToString([]byte(t))}
		n, err := ip.ParseIPNet(t)
		if err == nil && n != nil && len(n.IP) == 4 && len(n.Mask) == 4 {
			ones, bits := n.Mask.Size()
			if bits == 32 {
				e.Ok = true
				// cidranger stores the network address
				base := n.IP.Mask(n.Mask)
				e.IP = int64(base[0])<<24 | int64(base[1])<<16 | int64(base[2])<<8 | int64(base[3])
				e.Ones = int64(ones)
				size := int64(1) << uint(32-ones)
				for _, p := range []int64{e.IP, e.IP + size - 1, e.IP - 1, e.IP + size, e.IP + size/2} {
					probes = append(probes, (p+(1<<32))%(1<<32))
				}
			}
		} else if err == nil {
			e.Ok = true
			e.IP, e.Ones = -1, -1 // accepted, but not an IPv4 network: outside the model (see C02)
		}
		ents = append(ents, e)
	}
	for _, seg := range bytes.Split(data, []byte{'\n'}) {
		if len(seg) > 70000 {
			continue
		}
		for _, v := range [][]byte{seg, bytes.TrimSuffix(seg, []byte{'\r'})} {
			t := string(v)
			if i := strings.IndexByte(t, '#'); i >= 0 {
				t = t[:i]
			}
			add(strings.Trim(t, " "))
		}
	}
	if len(probes) > 60 {
		probes = probes[:60]
	}
	probes = append(probes, 0, 1<<32-1, int64(rnd.Uint64()%(1<<32)))
	return ents, probes
}

// ---------------------------------------------------------------- generators

func pick(xs ...string) string { return xs[rnd.Intn(len(xs))] }

func randFrom(alphabet []string, maxLen int) []byte {
	n := rnd.Intn(maxLen + 1)
	var b []byte
	for i := 0; i < n; i++ {
		b = append(b, alphabet[rnd.Intn(len(alphabet))]...)
	}
	return b
}

func randPort() int64 {
	switch rnd.Intn(6) {
	case 0:
		return int64([]int{0, 1, 9, 10, 99, 100, 999, 1000, 9999, 10000, 65534, 65535}[rnd.Intn(12)])
	case 1:
		return int64(rnd.Intn(1024))
	default:
		return int64(rnd.Intn(65536))
	}
}

func dec(n int64, zeros bool) string {
	s := strconv.FormatInt(n, 10)
	if zeros {
		s = strings.Repeat("0", 1+rnd.Intn(3)) + s
	}
	return s
}

// renderRange returns text and the value it denotes.
func renderRange(zeros bool) (string, []int64) {
	a := randPort()
	if rnd.Intn(3) == 0 {
		return dec(a, zeros), []int64{a, a}
	}
	b := randPort()
	if rnd.Intn(4) != 0 && b < a {
		a, b = b, a
	}
	return dec(a, zeros) + "-" + dec(b, zeros && rnd.Bool()), []int64{a, b}
}

var portAlphabet = []string{"0", "1", "2", "5", "6", "9", "-", ",", " ", "+", "x", "\x00", "\n", "65535", "65536", "٣", "_"}

var portNearMiss = []string{"", "-", "--", "1-", "-1", "1-2-3", "1-2-", "1--2", "-1-2", "1-2-x", "80-90-100", "1-65536",
	"65536", "65537", "99999", "4294967376", "18446744073709551616", "18446744073709551617", "340282366920938463463374607431768211536",
	" 1", "1 ", "1 -2", "1- 2", "+1", "+1-2", "1-+2", "0x10", "0b1", "0o7", "1_0", "1e3", "1.0", "٣", "１", "1\x00", "\x001", "1\x002",
	"1-2\n", "1\n", "\t1", "1,2", "1;2", "a", "a-b", "１-２", "00000000000000000000000080", "65535-65535", "0-0", "65535-0"}

func genPortRange(out *hlib.Out, n int) {
	for _, s := range portNearMiss {
		out.Put(run("portrange", "nearmiss", []byte(s)))
	}
	for i := 0; i < n; i++ {
		switch rnd.Intn(10) {
		case 0, 1, 2, 3, 4:
			t, v := renderRange(false)
			r := run("portrange", "canonical", []byte(t))
			r.HasWant, r.WantNums = true, v
			out.Put(r)
		case 5:
			t, v := renderRange(true)
			r := run("portrange", "leading-zeros", []byte(t))
			r.HasWant, r.WantNums = true, v
			out.Put(r)
		case 6:
			// three and more parts
			k := 3 + rnd.Intn(3)
			var ps []string
			for j := 0; j < k; j++ {
				ps = append(ps, pick(dec(randPort(), false), dec(randPort(), false), "", "x", "70000"))
			}
			out.Put(run("portrange", "extra-parts", []byte(strings.Join(ps, "-"))))
		case 7:
			// out of range bounds
			big := pick("65536", "65537", "70000", "131072", "4294967296", "4294967376", "18446744073709551615", "18446744073709551616", "99999999999999999999999")
			t := pick(big, big+"-"+dec(randPort(), false), dec(randPort(), false)+"-"+big)
			out.Put(run("portrange", "out-of-range", []byte(t)))
		default:
			out.Put(run("portrange", "random", randFrom(portAlphabet, 6)))
		}
	}
}

func genPortRanges(out *hlib.Out, n int) {
	for _, s := range []string{"", ",", "80,", ",80", "80,,81", "80;81", "80, 81", "80 ,81", "1-2-3,4", "4,1-2-3", "1,2,3", "5-1", "5-1,1-5",
		"80\x00,81", "80,81\n", "１,2"} {
		out.Put(run("portranges", "nearmiss", []byte(s)))
	}
	for i := 0; i < n; i++ {
		switch rnd.Intn(10) {
		case 0, 1, 2, 3, 4, 5:
			k := 1 + rnd.Intn(6)
			if rnd.Intn(20) == 0 {
				k = 50 + rnd.Intn(200)
			}
			var ts []string
			var vs []int64
			for j := 0; j < k; j++ {
				t, v := renderRange(rnd.Intn(8) == 0)
				ts = append(ts, t)
				vs = append(vs, v...)
			}
			r := run("portranges", "canonical", []byte(strings.Join(ts, ",")))
			r.HasWant, r.WantNums = true, vs
			out.Put(r)
		case 6, 7:
			// one bad piece among good ones
			k := 2 + rnd.Intn(4)
			var ts []string
			for j := 0; j < k; j++ {
				t, _ := renderRange(false)
				ts = append(ts, t)
			}
			ts[rnd.Intn(k)] = portNearMiss[rnd.Intn(len(portNearMiss))]
			out.Put(run("portranges", "one-bad-piece", []byte(strings.Join(ts, ","))))
		default:
			out.Put(run("portranges", "random", randFrom(portAlphabet, 8)))
		}
	}
}

func genPortsFile(out *hlib.Out, n int, long int) {
	for _, s := range []string{"", "\n", "\n\n", "#\n", "80", "80\n", "80\r\n", "80\r", "80\r\r\n", "\r\n", " 80 \n", "\t80\n", "80\t\n",
		"80 # web\n", "80#web\n", "# 80\n90\n", "80 90\n", "80\n\n90\n", "80\n  \n90", "1-2-3\n", "80\n1-2-3\n", "80\nx\n90\n", "80\x00\n",
		"80 \r\n90 \r\n", "80\n#", "80\n #\n", " # \n", "80\v\n", "80\f\n", "\xef\xbb\xbf80\n", "80\n\r90\n", "5-1\n"} {
		out.Put(run("portsfile", "nearmiss", []byte(s)))
	}
	for i := 0; i < n; i++ {
		k := rnd.Intn(8)
		var b []byte
		var vs []int64
		bad := rnd.Intn(5) == 0
		badAt := rnd.Intn(k + 1)
		for j := 0; j < k; j++ {
			if rnd.Intn(4) == 0 {
				b = append(b, pick("", "  ", "# comment", " #x", "#", "   # 80")...)
				b = append(b, pick("\n", "\r\n")...)
			}
			t, v := renderRange(rnd.Intn(10) == 0)
			if bad && j == badAt {
				t = portNearMiss[1+rnd.Intn(len(portNearMiss)-1)]
				if strings.ContainsAny(t, "\n#") || strings.Trim(t, " ") == "" {
					t = "1-2-3"
				}
			} else {
				vs = append(vs, v...)
			}
			b = append(b, pick("", "", " ", "   ")...)
			b = append(b, t...)
			b = append(b, pick("", "", " ", "  # c", "#c", " #")...)
			if j == k-1 && rnd.Bool() {
				b = append(b, pick("", "\r")...)
			} else {
				b = append(b, pick("\n", "\n", "\r\n")...)
			}
		}
		r := run("portsfile", map[bool]string{false: "canonical", true: "one-bad-line"}[bad && badAt < k], b)
		if !(bad && badAt < k) {
			r.HasWant, r.WantNums = true, vs
			if len(vs) == 0 {
				r.Class = "empty-file"
			}
		}
		out.Put(r)
	}
	// lines around the 64 KiB token limit of bufio.Scanner
	for i := 0; i < long; i++ {
		l := []int{65534, 65535, 65536, 65537, 70000, 131072}[i%6]
		filler := pick("#", " ", "x")
		var line []byte
		switch filler {
		case "#":
			line = append([]byte("443 #"), bytes.Repeat([]byte("c"), l-5)...)
		case " ":
			line = append(bytes.Repeat([]byte(" "), l-3), "443"...)
		default:
			line = bytes.Repeat([]byte("7"), l)
		}
		if rnd.Intn(4) == 0 && l > 1 {
			line[len(line)-1] = '\r'
		}
		var b []byte
		b = append(b, "80\n"...)
		b = append(b, line...)
		if rnd.Intn(3) != 0 {
			b = append(b, "\n8080\n"...)
		}
		out.Put(run("portsfile", "long-line", b))
	}
}

var unitNames = []string{"ns", "us", "µs", "μs", "ms", "s", "m", "h"}
var unitVals = []int64{1, 1000, 1000, 1000, 1000000, 1000000000, 60000000000, 3600000000000}

var rateAlphabet = []string{"0", "1", "5", "9", ".", "/", "+", "-", "s", "m", "h", "n", "u", "µ", " ", "ms", "1s", "\x00"}

var rateNearMiss = []string{"", "/", "/s", "5/", "5//s", "5/s/", "5/s/s", "-1", "-0", "+5", "+0", "-5/s", "2147483647", "2147483648", "4294967301",
	"9223372036854775807", "18446744073709551621", " 5", "5 ", "5 /s", "5/ s", "5/1 s", "5/1S", "5/S", "5/1d", "5/d", "5/sec", "5/1", "5/0", "5/00", "5/+0", "5/-0",
	"5/.5s", "5/.s", "5/.", "5/1.s", "5/1.5s", "5/1.5", "5/+3s", "5/-1s", "5/-0s", "5/+s", "5/-s", "5/1s1", "5/s3ms", "5/ms1s", "5/1h30m", "5/1h-30m",
	"5/1µs", "5/1μs", "5/µs", "5/μs", "5/\xb5s", "5/1us", "5/us", "5/0.000000001s", "5/0.0000000001s", "5/1e3s", "5/0x10s", "5/1_0s",
	"1/9223372036854775807ns", "1/9223372036854775808ns", "1/9223372036854775809ns", "1/-9223372036854775808ns",
	"1/2562047h47m16.854775807s", "1/2562047h47m16.854775808s", "1/2562048h", "1/9223372036854775808ns9223372036854775808ns",
	"1/9223372036s", "1/9223372037s", "1/153722867m", "1/153722868m", "1/0.9223372036854775807h", "1/0.99999999999999999999999s",
	"1/1.00000000000000000000000000001s", "1/3.000000000000000000000000000000000000000000001ns", "1/0.3ns", "1/0.9ns", "1/1.9ns",
	"1/0.0000000000025h", "1/0.1h", "1/0.7m", "1/0.123456789123456789h", "٥", "５/s", "5/١s", "0", "00", "007/007s", "1000/1s", "5000/7m"}

func genRate(out *hlib.Out, n int) {
	for _, s := range rateNearMiss {
		out.Put(run("rate", "nearmiss", []byte(s)))
	}
	for i := 0; i < n; i++ {
		cnt := int64(rnd.Intn(1 << 31))
		switch rnd.Intn(4) {
		case 0:
			cnt = int64(rnd.Intn(100000))
		case 1:
			cnt = int64([]int{0, 1, 1<<31 - 1, 1<<31 - 2, 1000}[rnd.Intn(5)])
		}
		c := dec(cnt, rnd.Intn(10) == 0)
		switch rnd.Intn(12) {
		case 0:
			r := run("rate", "count-only", []byte(c))
			r.HasWant, r.WantNums = true, []int64{cnt, 1000000000}
			out.Put(r)
		case 1, 2:
			u := rnd.Intn(len(unitNames))
			r := run("rate", "bare-unit", []byte(c+"/"+unitNames[u]))
			r.HasWant, r.WantNums = true, []int64{cnt, unitVals[u]}
			out.Put(r)
		case 3, 4, 5:
			u := rnd.Intn(len(unitNames))
			max := int64(math.MaxInt64) / unitVals[u]
			k := int64(rnd.Uint64()>>1) % (max + 1)
			if rnd.Bool() {
				k = int64(rnd.Intn(100000))
			}
			r := run("rate", "count-unit", []byte(c+"/"+dec(k, rnd.Intn(10) == 0)+unitNames[u]))
			r.HasWant, r.WantNums = true, []int64{cnt, k * unitVals[u]}
			out.Put(r)
		case 6:
			// several integer components
			var t string
			var sum int64
			for _, u := range []int{7, 6, 5, 4, 1, 0} {
				if rnd.Bool() {
					k := int64(rnd.Intn(1000))
					t += dec(k, false) + unitNames[u]
					sum += k * unitVals[u]
				}
			}
			if t == "" {
				t, sum = "3m", 180000000000
			}
			r := run("rate", "multi-component", []byte(c+"/"+t))
			r.HasWant, r.WantNums = true, []int64{cnt, sum}
			out.Put(r)
		case 7, 8:
			// fractions: no exact expectation here, the model carries Go's float64 arithmetic
			u := rnd.Intn(len(unitNames))
			digs := 1 + rnd.Intn(24)
			fr := make([]byte, digs)
			for j := range fr {
				fr[j] = byte('0' + rnd.Intn(10))
			}
			ip := pick("", "0", "1", dec(int64(rnd.Intn(1000)), false))
			out.Put(run("rate", "fraction", []byte(c+"/"+ip+"."+string(fr)+unitNames[u])))
		case 9:
			// near the int64 limit
			d := int64(math.MaxInt64) - int64(rnd.Intn(3))
			u := rnd.Intn(len(unitNames))
			q, rem := d/unitVals[u], d%unitVals[u]
			t := dec(q+int64(rnd.Intn(2)), false) + unitNames[u]
			if rem > 0 && rnd.Bool() {
				t += dec(rem+int64(rnd.Intn(2)), false) + "ns"
			}
			out.Put(run("rate", "near-overflow", []byte(c+"/"+t)))
		default:
			out.Put(run("rate", "random", randFrom(rateAlphabet, 7)))
		}
	}
}

var payloadNearMiss = []string{"", "abc", `\x01\x02`, `\x0`, `\x`, `\xg0`, `\xG0`, `\xAf`, `\`, `\\`, `\\\`, `"`, `\"`, `a"b`, `a\"b`, `'`, `\'`, "a\nb", `a\nb`, "\r", "\t",
	"\x00", `\0`, `\00`, `\000`, `\377`, `\400`, `\378`, `\8`, `é`, `é`, `\ud800`, `\udfff`, ``, `￿`, `�`, `\u12`, `\U0001F600`, `\U00110000`,
	`\U0010FFFF`, `\UFFFFFFFF`, `\U80000041`, `\U0000D800`, `A`, `\x80`, `\xff`, "\xff", "a\xffb", "\xc3\xa9", "\xc3", "\xc3\\x41", "\xe2\x82\xac", "\xe2\x82", "\xed\xa0\x80",
	"\xf0\x9f\x98\x80", "\xf4\x90\x80\x80", "\xc0\x80", "\xef\xbf\xbd", "é\\n", "\xff\\n", `\q`, `\ `, `\A`, `\N`, `\X41`, "`", "a`b", "\\\n", "\\\"\"", "\"\\\"", `\x41\101AA`}

func genPayload(out *hlib.Out, n int) {
	for _, s := range payloadNearMiss {
		out.Put(run("payload", "nearmiss", []byte(s)))
	}
	const hexd = "0123456789abcdef"
	for i := 0; i < n; i++ {
		switch rnd.Intn(10) {
		case 0, 1, 2:
			l := rnd.Intn(40)
			if rnd.Intn(30) == 0 {
				l = 1000 + rnd.Intn(3000)
			}
			bs := rnd.Bytes(l)
			var t []byte
			upper := rnd.Intn(4) == 0
			for _, b := range bs {
				e := []byte{'\\', 'x', hexd[b>>4], hexd[b&15]}
				if upper {
					e = bytes.ToUpper(e[2:])
					e = append([]byte{'\\', 'x'}, e...)
				}
				t = append(t, e...)
			}
			r := run("payload", "hex-escape", t)
			r.HasWant, r.WantOut = true, hex.EncodeToString(bs)
			out.Put(r)
		case 3, 4:
			l := rnd.Intn(40)
			var t []byte
			for j := 0; j < l; j++ {
				c := byte(32 + rnd.Intn(95))
				if c == '"' || c == '\\' {
					c = 'a'
				}
				t = append(t, c)
			}
			r := run("payload", "printable-ascii", t)
			r.HasWant, r.WantOut = true, hex.EncodeToString(t)
			out.Put(r)
		case 5, 6, 7:
			// a mix of spellings with a known meaning, sometimes with one ill-formed item
			k := 1 + rnd.Intn(8)
			var t, want []byte
			good := true
			for j := 0; j < k; j++ {
				switch rnd.Intn(12) {
				case 0:
					c := byte(32 + rnd.Intn(95))
					if c == '"' || c == '\\' {
						c = 'z'
					}
					t, want = append(t, c), append(want, c)
				case 1:
					p := rnd.Intn(9)
					t = append(t, '\\', "abfnrtv\\\""[p])
					want = append(want, "\a\b\f\n\r\t\v\\\""[p])
				case 2:
					b := byte(rnd.Intn(256))
					t = append(t, '\\', 'x', hexd[b>>4], hexd[b&15])
					want = append(want, b)
				case 3:
					b := rnd.Intn(256)
					t = append(t, fmt.Sprintf("\\%03o", b)...)
					want = append(want, byte(b))
				case 4, 5:
					r := randRune()
					if rnd.Bool() && r < 0x10000 {
						t = append(t, fmt.Sprintf("\\u%04x", r)...)
					} else {
						t = append(t, fmt.Sprintf("\\U%08X", r)...)
					}
					want = append(want, string(r)...)
				case 6, 7:
					r := randRune()
					t, want = append(t, string(r)...), append(want, string(r)...)
				case 8:
					b := byte(rnd.Intn(32))
					if b == '\n' {
						b = 0
					}
					t, want = append(t, b), append(want, b)
				case 9:
					if rnd.Intn(3) == 0 {
						good = false
						t = append(t, pick("\xff", "\xc3", "\xe2\x82", "\xed\xa0\x80", "\xc0\x80", "\x80", "\xf8\x88\x80\x80\x80", "\"", "\n", `\'`, `\q`, `\x4`, `\u123`, `\ud800`, `\U00110000`, `\400`, `\08`)...)
					}
				default:
					t, want = append(t, 'A'), append(want, 'A')
				}
			}
			if !good {
				out.Put(run("payload", "mixed-one-bad", t))
			} else {
				r := run("payload", "mixed", t)
				r.HasWant, r.WantOut = true, hex.EncodeToString(want)
				out.Put(r)
			}
		default:
			out.Put(run("payload", "random", randFrom([]string{"a", "\\", "x", "0", "4", "7", "f", "u", "U", "\"", "'", "\n", "\x00", "\xff", "\xc3", "\xa9", "\xe2", "\x82", "\xac", "n", "D", "8"}, 10)))
		}
	}
}

func randRune() rune {
	for {
		var r rune
		switch rnd.Intn(5) {
		case 0:
			r = rune(rnd.Intn(0x80))
		case 1:
			r = rune(0x80 + rnd.Intn(0x800-0x80))
		case 2:
			r = rune(0x800 + rnd.Intn(0x10000-0x800))
		case 3:
			r = rune(0x10000 + rnd.Intn(0x110000-0x10000))
		default:
			r = []rune{0x7f, 0x80, 0x7ff, 0x800, 0xd7ff, 0xe000, 0xfffd, 0xffff, 0x10000, 0x10ffff}[rnd.Intn(10)]
		}
		if r >= 0xd800 && r <= 0xdfff {
			continue
		}
		if r == '"' || r == '\\' || r == '\n' {
			continue
		}
		return r
	}
}

func randCase(s string) string {
	b := []byte(s)
	switch rnd.Intn(4) {
	case 0:
		return s
	case 1:
		return strings.ToUpper(s)
	}
	for i := range b {
		if rnd.Bool() {
			b[i] = byte(unicode.ToUpper(rune(b[i])))
		}
	}
	return string(b)
}

func genFlags(out *hlib.Out, kind string, names []string, n int, nearmiss []string) {
	for _, s := range nearmiss {
		out.Put(run(kind, "nearmiss", []byte(s)))
	}
	sort.Strings(names)
	k := len(names)
	// every subset once, in a random order and letter case
	for m := 0; m < 1<<uint(k); m++ {
		var sel []string
		for i := 0; i < k; i++ {
			if m>>uint(i)&1 == 1 {
				sel = append(sel, names[i])
			}
		}
		for i := len(sel) - 1; i > 0; i-- {
			j := rnd.Intn(i + 1)
			sel[i], sel[j] = sel[j], sel[i]
		}
		var ws []string
		for _, s := range sel {
			ws = append(ws, randCase(s))
		}
		r := run(kind, "subset", []byte(strings.Join(ws, ",")))
		r.HasWant, r.WantOut = true, hex.EncodeToString([]byte(strings.Join(sel, ",")))
		out.Put(r)
	}
	for i := 0; i < n; i++ {
		l := 1 + rnd.Intn(6)
		var sel, ws []string
		for j := 0; j < l; j++ {
			s := names[rnd.Intn(k)]
			sel, ws = append(sel, s), append(ws, randCase(s))
		}
		switch rnd.Intn(3) {
		case 0:
			r := run(kind, "with-repeats", []byte(strings.Join(ws, ",")))
			r.HasWant, r.WantOut = true, hex.EncodeToString([]byte(strings.Join(sel, ",")))
			out.Put(r)
		case 1:
			ws[rnd.Intn(l)] = pick("", " ", "x", "sy", "synn", "syn ", " ack", "s,yn", "fi\x00n", "ａck", "dff", "d f", "evi1", "m\xfff", "\xff")
			out.Put(run(kind, "one-bad-name", []byte(strings.Join(ws, pick(",", ",", ",", ";", ", ", " ")))))
		default:
			// unicode letters whose lower case is an ASCII letter: U+212A KELVIN SIGN -> k, U+0130 -> i
			p := rnd.Intn(l)
			ws[p] = strings.NewReplacer("k", "\u212a", "K", "\u212a", "i", "\u0130", "I", "\u0130").Replace(ws[p])
			r := run(kind, "unicode-case", []byte(strings.Join(ws, ",")))
			r.HasWant, r.WantOut = true, hex.EncodeToString([]byte(strings.Join(sel, ",")))
			out.Put(r)
		}
	}
}

func randNet() string {
	a := fmt.Sprintf("%d.%d.%d.%d", rnd.Intn(256), rnd.Intn(256), rnd.Intn(256), rnd.Intn(256))
	switch rnd.Intn(4) {
	case 0:
		return a
	case 1:
		return a + "/" + strconv.Itoa(rnd.Intn(33))
	case 2:
		return fmt.Sprintf("10.%d.0.0/%d", rnd.Intn(256), 8+rnd.Intn(17))
	}
	return fmt.Sprintf("192.168.%d.%d/%d", rnd.Intn(256), rnd.Intn(256), 24+rnd.Intn(9))
}

var badNets = []string{"foo", "1.2.3", "300.1.1.1", "1.2.3.4/33", "1.2.3.4/", "/24", "1.2.3.4/-1", "1.2.3.4 /24", "1.2.3.4/24 5.6.7.8", "01.2.3.4", "1.2.3.4\t", "\t1.2.3.4", "1.2.3.4,5.6.7.8", "1.2.3.4/2 4", "１.2.3.4"}

func genExclude(out *hlib.Out, n int, long int) {
	for _, s := range []string{"", "\n", "#\n", "10.0.0.0/8", "10.0.0.0/8\n", "10.0.0.0/8\r\n", " 10.0.0.0/8 \n", "\t10.0.0.0/8\n", "10.0.0.0/8 # lan\n", "10.0.0.0/8#lan\n",
		"# 10.0.0.0/8\n1.2.3.4\n", "10.0.0.0/8\n\n1.2.3.4\n", "10.0.0.0/8\nfoo\n1.2.3.4\n", "10.0.0.0/8\r\r\n", "1.2.3.4\n1.2.3.4\n", "0.0.0.0/0\n", "255.255.255.255/32", "1.2.3.4/0\n"} {
		out.Put(run("exclude", "nearmiss", []byte(s)))
	}
	for i := 0; i < n; i++ {
		k := rnd.Intn(7)
		var b []byte
		bad := rnd.Intn(5) == 0
		badAt := rnd.Intn(k + 1)
		for j := 0; j < k; j++ {
			if rnd.Intn(4) == 0 {
				b = append(b, pick("", "  ", "# comment", " #x", "#", "   # 10.0.0.0/8")...)
				b = append(b, pick("\n", "\r\n")...)
			}
			t := randNet()
			if bad && j == badAt {
				t = badNets[rnd.Intn(len(badNets))]
			}
			b = append(b, pick("", "", " ", "   ")...)
			b = append(b, t...)
			b = append(b, pick("", "", " ", "  # c", "#c", " #")...)
			if j == k-1 && rnd.Bool() {
				b = append(b, pick("", "\r")...)
			} else {
				b = append(b, pick("\n", "\n", "\r\n")...)
			}
		}
		out.Put(run("exclude", map[bool]string{false: "canonical", true: "one-bad-line"}[bad && badAt < k], b))
	}
	for i := 0; i < long; i++ {
		l := []int{65535, 65536, 70000}[i%3]
		line := append([]byte("172.16.0.0/12 #"), bytes.Repeat([]byte("c"), l-15)...)
		var b []byte
		b = append(b, "10.0.0.0/8\n"...)
		b = append(b, line...)
		b = append(b, "\n192.168.0.0/16\n"...)
		out.Put(run("exclude", "long-line", b))
	}
}

// genFuzz feeds every parser unstructured bytes and corrupted canonical strings (totality under recover;
// the model must still agree on accept/reject and value).
func genFuzz(out *hlib.Out, n int) {
	seeds := map[string][]string{
		"portrange":  {"80", "1-65535", "22-4567"},
		"portranges": {"80,443,8000-8100", "1-2,3-4,5"},
		"portsfile":  {"80\n443 # tls\n\n8000-8100\r\n", "# ports\n 22 \n"},
		"rate":       {"1000/s", "5000/7m", "10/1h30m", "7/1.5s", "3/250ms"},
		"payload":    {`\x01\x02abc`, `a\n\t\u00e9\101`, "h\xc3\xa9llo"},
		"ipflags":    {"df,evil,mf", "DF"},
		"tcpflags":   {"syn,ack,fin,rst,psh,urg,ece,cwr,ns", "FIN,ack"},
		"exclude":    {"10.0.0.0/8\n192.168.1.1 # gw\n", "1.2.3.4\r\n"},
	}
	kinds := make([]string, 0, len(seeds))
	for k := range seeds {
		kinds = append(kinds, k)
	}
	sort.Strings(kinds)
	for _, k := range kinds {
		for i := 0; i < n; i++ {
			if rnd.Intn(3) == 0 {
				out.Put(run(k, "fuzz-bytes", rnd.Bytes(rnd.Intn(24))))
				continue
			}
			b := []byte(seeds[k][rnd.Intn(len(seeds[k]))])
			for m := 1 + rnd.Intn(3); m > 0 && len(b) > 0; m-- {
				p := rnd.Intn(len(b))
				switch rnd.Intn(5) {
				case 0:
					b[p] ^= 1 << uint(rnd.Intn(8))
				case 1:
					b = append(b[:p], b[p+1:]...)
				case 2:
					b = append(b[:p], append([]byte{byte(rnd.Intn(256))}, b[p:]...)...)
				case 3:
					b = append(b[:p], append([]byte(pick("-", ",", "/", ".", "\\", "\"", " ", "\n", "#", "0", "s")), b[p:]...)...)
				default:
					b = append(b, b[p:]...)
				}
			}
			out.Put(run(k, "fuzz-mutated", b))
		}
	}
}

// libraryFacts checks the two facts about unicode.ToLower the model of strings.ToLower relies on.
func libraryFacts(out *hlib.Out) {
	var toASCII []int64
	for r := rune(0x80); r <= 0x10FFFF; r++ {
		if l := unicode.ToLower(r); l < 0x80 {
			toASCII = append(toASCII, int64(r), int64(l))
		}
	}
	out.Put(row{Kind: "libfact", Class: "unicode.ToLower-to-ascii", Nums: toASCII, VOk: -1, Ok: true})
}

func main() {
	outPath := flag.String("out", "cases.jsonl", "output file")
	seed := flag.Int64("seed", 1, "seed")
	n := flag.Int("n", 300, "generated cases per parser (on top of the fixed lists)")
	long := flag.Int("long", 6, "cases with lines around the scanner token limit, per file parser")
	one := flag.String("one", "", "replay: kind:hex-input")
	list := flag.String("list", "", "file with one kind:hex-input per line (corpus); only these are run")
	flag.Parse()
	rnd = hlib.NewRand(*seed)
	out := hlib.NewOut(*outPath)
	defer out.Close()
	if *one != "" {
		i := strings.IndexByte(*one, ':')
		if i < 0 {
			fmt.Fprintln(os.Stderr, "bad -one")
			os.Exit(2)
		}
		in, err := hex.DecodeString((*one)[i+1:])
		if err != nil {
			fmt.Fprintln(os.Stderr, err)
			os.Exit(2)
		}
		r := run((*one)[:i], "replay", in)
		out.Put(r)
		b, _ := json.Marshal(r)
		fmt.Println(string(b))
		return
	}
	if *list != "" {
		data, err := os.ReadFile(*list)
		if err != nil {
			fmt.Fprintln(os.Stderr, err)
			os.Exit(2)
		}
		for _, ln := range strings.Split(string(data), "\n") {
			i := strings.IndexByte(ln, ':')
			if i < 0 {
				continue
			}
			in, err := hex.DecodeString(strings.TrimSpace(ln[i+1:]))
			if err != nil {
				fmt.Fprintln(os.Stderr, err)
				os.Exit(2)
			}
			out.Put(run(ln[:i], "corpus", in))
		}
		return
	}
	libraryFacts(out)
	genPortRange(out, *n)
	genPortRanges(out, *n)
	genPortsFile(out, *n, *long)
	genRate(out, *n*2)
	genPayload(out, *n*2)
	genFlags(out, "tcpflags", []string{"syn", "ack", "fin", "rst", "psh", "urg", "ece", "cwr", "ns"}, *n, []string{"", ",", "syn,", ",syn", "syn,,ack", "syn ack", "syn;ack", " syn", "syn ", "SYN", "Syn,ACK",
		"s", "sy", "synn", "all", "none", "0x02", "2", "syn\x00", "f\u0130n", "ac\u212a", "AC\u212a,F\u0130N", "\u017fyn", "p\u017fh", "syn,ack,fin,rst,psh,urg,ece,cwr,ns", "ns,ns,ns", "\xff", "syn,\xff"})
	genFlags(out, "ipflags", []string{"df", "evil", "mf"}, *n/2, []string{"", ",", "df,", ",df", "df,,mf", "df mf", " df", "df ", "DF", "Df,MF", "d", "dff", "dont", "0", "2",
		"ev\u0130l", "EV\u0130L,df", "evi\u0131", "df\x00", "\xff", "df,\xff", "\xffdf", "df,evil,mf", "mf,mf"})
	genExclude(out, *n, *long/2)
	genFuzz(out, *n/2)
}
