package main

// -callerblock K: cancellation while the WRITE PATH of the packet engine is blocked, seen from the caller.
// The real packet engine (real request decorators off, real multi generator, real sender, real receiver) runs
// under the REAL startScanEngine (command.VerifStartScanEngine, the call every packet command ends in) with a
// write path that stays blocked for a long time once the first frames are out:
//   kind "rate":   the real rate-limit wrapper with the real limiter at 1 probe per 30 s (sx ... -r 1/30s):
//                  the sender sleeps in limiter.Take() for its next slot
//   kind "device": a device whose WritePacketData blocks (full send queue of a blocking socket)
// The context is cancelled (Ctrl-C) while the sender is inside that blocked write.  C12: the scan call must
// return promptly; nothing may be written after it returned is not judged here (the frames are scripted).
import (
	"bytes"
	"context"
	"fmt"
	"sync"
	"sync/atomic"
	"time"

	"github.com/v-byte-cpu/sx/command"
	"github.com/v-byte-cpu/sx/command/log"
	"github.com/v-byte-cpu/sx/pkg/packet"
	"github.com/v-byte-cpu/sx/pkg/scan"
	"go.uber.org/ratelimit"
	"verifharness/hlib"
)

type cbObs struct {
	Case          int    `json:"case"`
	Class         string `json:"class"`
	Kind          string `json:"kind"`
	N             int    `json:"n"`
	Requests      int    `json:"requests"`
	BlockAfter    int    `json:"block_after"` // writes that go through before the write path blocks
	Written       int    `json:"written"`
	Returned      bool   `json:"returned"`
	AfterCancelMs int64  `json:"after_cancel_ms"`
	WaitedMs      int64  `json:"waited_ms"`
	Panic         string `json:"panic"`
}

type blockingWriter struct {
	mu       sync.Mutex
	n        int
	after    int // device kind: block from this write on; <0: never
	blocked  chan struct{}
	once     sync.Once
	release  chan struct{}
	inFlight int32
}

func (w *blockingWriter) WritePacketData(b []byte) error {
	w.mu.Lock()
	w.n++
	n := w.n
	w.mu.Unlock()
	if w.after >= 0 && n > w.after {
		w.once.Do(func() { close(w.blocked) })
		<-w.release
	}
	return nil
}

// limiter that is the real one, and tells the harness when the sender is waiting for a slot
type watchLimiter struct {
	real    ratelimit.Limiter
	calls   int32
	after   int
	blocked chan struct{}
	once    sync.Once
}

func (l *watchLimiter) Take() time.Time {
	if int(atomic.AddInt32(&l.calls, 1)) > l.after {
		l.once.Do(func() { close(l.blocked) })
	}
	return l.real.Take()
}

type resOnly struct{ c chan scan.Result }

func (r resOnly) Results() <-chan scan.Result { return r.c }

func runCallerBlock(outp string, seed int64, k int) {
	w := hlib.NewOut(outp)
	defer w.Close()
	r := hlib.NewRand(seed)
	for i := 0; i < k; i++ {
		kind := []string{"rate", "device"}[i%2]
		n := []int{1, 2, 7, 16}[r.Intn(4)]
		cnt := 5 + r.Intn(60)
		o := cbObs{Case: i, Class: "callerblock", Kind: kind, N: n, Requests: cnt}
		reqs := genReqs(r, cnt, 0, 0, 0)
		byID := map[int]req{}
		for _, q := range reqs {
			byID[q.ID] = q
		}
		filler := &scriptFiller{byID: byID}
		reader := &blockReader{release: make(chan struct{})}
		var doneSeen int32
		_ = doneSeen
		bw := &blockingWriter{after: -1, blocked: make(chan struct{}), release: make(chan struct{})}
		var pw packet.Writer = bw
		var blocked chan struct{}
		if kind == "rate" {
			// the limiter's first Take returns at once, every later one waits 30 s for its slot
			o.BlockAfter = 1
			wl := &watchLimiter{real: ratelimit.New(1, ratelimit.Per(30*time.Second)), after: 1, blocked: make(chan struct{})}
			blocked = wl.blocked
			pw = packet.NewRateLimitReadWriter(struct {
				packet.Reader
				packet.Writer
			}{reader, bw}, wl)
		} else {
			o.BlockAfter = r.Intn(cnt - 1)
			bw.after = o.BlockAfter
			blocked = bw.blocked
		}
		ctx, cancel := context.WithCancel(context.Background())
		src := scan.NewPacketSource(&scriptGen{reqs, 1}, scan.NewPacketMultiGenerator(filler, n))
		engine := scan.NewEngineResulter(scan.NewPacketEngine(src, packet.NewSender(pw), packet.NewReceiver(reader, nopProc{})),
			resOnly{make(chan scan.Result)})
		var sink bytes.Buffer
		lg, err := log.NewLogger(&sink, "c12", log.JSON())
		if err != nil {
			o.Panic = "logger: " + err.Error()
			w.Put(o)
			cancel()
			continue
		}
		ret := make(chan string, 1)
		go func() {
			defer func() {
				if p := recover(); p != nil {
					ret <- fmt.Sprint("panic: ", p)
				}
			}()
			command.VerifStartScanEngine(ctx, engine, lg, 300*time.Millisecond)
			ret <- ""
		}()
		select {
		case <-blocked:
		case <-time.After(10 * time.Second):
			o.Panic = "the write path never reached its blocking point"
		}
		time.Sleep(20 * time.Millisecond) // the sender is inside the blocked write now
		t0 := time.Now()
		cancel()
		select {
		case p := <-ret:
			o.Returned, o.Panic = p == "", o.Panic+p
		case <-time.After(8 * time.Second):
		}
		o.AfterCancelMs = time.Since(t0).Milliseconds()
		o.WaitedMs = 8000
		bw.mu.Lock()
		o.Written = bw.n
		bw.mu.Unlock()
		close(reader.release)
		close(bw.release)
		w.Put(o)
		w.Flush()
	}
}
