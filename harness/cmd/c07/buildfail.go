package main

// Build failures through the REAL packet fillers: the real tcp / udp / icmp PacketFiller behind the real
// multi generator, merger, sender and engine, with requests some of which cannot be built (destination MAC of 8 or
// 20 bytes -- net.ParseMAC accepts both --, no destination MAC, a 5-byte source MAC, an IPv6 destination).  The
// property: every failed build yields exactly one error and NO frame; every other request yields exactly one frame,
// which is a well-formed frame of that request.

import (
	"context"
	"encoding/binary"
	"fmt"
	"net"
	"sync"
	"time"

	"github.com/google/gopacket"
	"github.com/v-byte-cpu/sx/pkg/packet"
	"github.com/v-byte-cpu/sx/pkg/scan"
	"github.com/v-byte-cpu/sx/pkg/scan/icmp"
	"github.com/v-byte-cpu/sx/pkg/scan/tcp"
	"github.com/v-byte-cpu/sx/pkg/scan/udp"
	"verifharness/hlib"
)

type bfObs struct {
	Class       string   `json:"class"`
	Kind        string   `json:"kind"`
	Workers     int      `json:"workers"`
	N           int      `json:"n"`
	Unbuildable int      `json:"unbuildable"`
	Errors      int      `json:"errors"`
	Frames      int      `json:"frames"`
	Bad         string   `json:"bad"`
	FirstErrors []string `json:"first_errors"`
	Stuck       bool     `json:"stuck"`
}

type listGen struct{ reqs []*scan.Request }

func (g *listGen) GenerateRequests(ctx context.Context, _ *scan.Range) (<-chan *scan.Request, error) {
	out := make(chan *scan.Request, 100)
	go func() {
		defer close(out)
		for _, r := range g.reqs {
			select {
			case <-ctx.Done():
				return
			case out <- r:
			}
		}
	}()
	return out, nil
}

type recWriter struct {
	mu     sync.Mutex
	frames [][]byte
}

func (w *recWriter) WritePacketData(b []byte) error {
	c := append([]byte(nil), b...)
	w.mu.Lock()
	w.frames = append(w.frames, c)
	w.mu.Unlock()
	return nil
}

func bfDefect(i int) string {
	if i%7 != 3 {
		return ""
	}
	return []string{"dstmac8", "dstmac20", "dstmacnil", "srcmac5", "dstip6"}[(i/7)%5]
}

func runBuildFail(outp string, n int) {
	w := hlib.NewOut(outp)
	defer w.Close()
	for _, kind := range []string{"tcp", "udp", "icmp"} {
		for _, workers := range []int{1, 4, 64} {
			o := bfObs{Class: "buildfail", Kind: kind, Workers: workers, N: n}
			var filler scan.PacketFiller
			proto := byte(6)
			switch kind {
			case "tcp":
				filler = tcp.NewPacketFiller(tcp.WithSYN())
			case "udp":
				filler, proto = udp.NewPacketFiller(), 17
			case "icmp":
				filler, proto = icmp.NewPacketFiller(), 1
			}
			defects := map[int]string{}
			var reqs []*scan.Request
			for i := 0; i < n; i++ {
				ip := make(net.IP, 4)
				binary.BigEndian.PutUint32(ip, 0x0a000000|uint32(i))
				r := &scan.Request{SrcIP: net.IP{192, 168, 0, 1}, DstIP: ip, SrcMAC: []byte{2, 0, 0, 0, 0, 1},
					DstMAC: []byte{2, 0x11, 0, byte(i >> 16), byte(i >> 8), byte(i)}, DstPort: uint16(1000 + i%5000)}
				switch d := bfDefect(i); d {
				case "dstmac8":
					r.DstMAC = []byte{2, 0x11, 0, 0, 0, 0, 0, 1}
				case "dstmac20":
					r.DstMAC = make([]byte, 20)
				case "dstmacnil":
					r.DstMAC = nil
				case "srcmac5":
					r.SrcMAC = []byte{2, 0, 0, 0, 1}
				case "dstip6":
					r.DstIP = net.ParseIP(fmt.Sprintf("2001:db8::%x", i+1))
				}
				if d := bfDefect(i); d != "" {
					defects[i] = d
					o.Unbuildable++
				}
				reqs = append(reqs, r)
			}
			wr := &recWriter{}
			reader := &blockReader{release: make(chan struct{})}
			ctx, cancel := context.WithCancel(context.Background())
			src := scan.NewPacketSource(&listGen{reqs}, scan.NewPacketMultiGenerator(filler, workers))
			engine := scan.NewPacketEngine(src, packet.NewSender(wr), packet.NewReceiver(reader, nopProc{}))
			done, errc := engine.Start(ctx, &scan.Range{})
			watchdog := time.After(30 * time.Second)
			var errs []string
		loop:
			for done != nil || errc != nil {
				select {
				case <-done:
					done = nil
					close(reader.release)
				case e, ok := <-errc:
					if !ok {
						errc = nil
						continue
					}
					errs = append(errs, e.Error())
				case <-watchdog:
					o.Stuck = true
					break loop
				}
			}
			cancel()
			o.Errors = len(errs)
			if len(errs) > 3 {
				errs = errs[:3]
			}
			o.FirstErrors = errs
			wr.mu.Lock()
			frames := wr.frames
			wr.mu.Unlock()
			o.Frames = len(frames)
			seen := map[int]int{}
			for _, f := range frames {
				bad := ""
				switch {
				case len(f) < 14+20+8:
					bad = "is too short to be an Ethernet + IPv4 frame"
				case f[12] != 8 || f[13] != 0:
					bad = "has no IPv4 Ethernet header"
				case f[14] != 0x45:
					bad = "has no plain IPv4 header after the Ethernet header"
				case f[14+9] != proto:
					bad = fmt.Sprintf("carries IP protocol %d", f[14+9])
				case int(binary.BigEndian.Uint16(f[16:18]))+14 > len(f) || (len(f) > 60 && int(binary.BigEndian.Uint16(f[16:18]))+14 != len(f)):
					bad = "has an IPv4 total length that is not the length of the datagram"
				}
				if bad == "" {
					i := int(binary.BigEndian.Uint32(f[30:34]) &^ 0xff000000)
					switch {
					case f[30] != 10 || i >= n:
						bad = "is addressed to an address no request names"
					case defects[i] != "":
						bad = fmt.Sprintf("belongs to request %d, which cannot be built (%s)", i, defects[i])
					case string(f[0:6]) != string(reqs[i].DstMAC) || string(f[6:12]) != string(reqs[i].SrcMAC):
						bad = fmt.Sprintf("of request %d does not carry its MAC addresses", i)
					default:
						seen[i]++
						if seen[i] > 1 {
							bad = fmt.Sprintf("of request %d is written twice", i)
						}
					}
				}
				if bad != "" && o.Bad == "" {
					o.Bad = fmt.Sprintf("a written frame (%d bytes: %x...) %s", len(f), f[:minInt(len(f), 24)], bad)
				}
			}
			if o.Bad == "" {
				for i := 0; i < n; i++ {
					if defects[i] == "" && seen[i] == 0 {
						o.Bad = fmt.Sprintf("the frame of request %d (well-formed) is never written", i)
						break
					}
				}
			}
			w.Put(o)
		}
	}
}

func minInt(a, b int) int {
	if a < b {
		return a
	}
	return b
}

var _ gopacket.SerializeBuffer
