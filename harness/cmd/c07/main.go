// Driver for C07 (and the cancel runs of C12): runs the REAL packet engine
// (scan.NewPacketSource + NewPacketMultiGenerator + packet.NewSender + packet.NewReceiver +
// scan.NewPacketEngine) with a scripted request generator, filler, writer and reader, and records
// what crossed the boundary: frames handed to the writer (id, bytes intact?), errors on the merged
// error stream, when done was closed relative to the writes.
package main

import (
	"context"
	"encoding/binary"
	"errors"
	"flag"
	"fmt"
	"io"
	"net"
	"runtime"
	"sort"
	"sync"
	"sync/atomic"
	"syscall"
	"time"

	"github.com/google/gopacket"
	"github.com/v-byte-cpu/sx/pkg/packet"
	"github.com/v-byte-cpu/sx/pkg/scan"
	"github.com/v-byte-cpu/sx/pkg/scan/arp"
	"verifharness/hlib"
)

type idErr struct {
	id   int
	kind string
}

func (e *idErr) Error() string { return fmt.Sprintf("%s:%d", e.kind, e.id) }

// Unwrap / Timeout: a failed write may be a fault of the "temporary" class (EAGAIN, ECONNRESET, a timeout);
// it is still a failed write: the frame did not reach the wire and must be reported once
func (e *idErr) Unwrap() error {
	switch e.id % 4 {
	case 1:
		return syscall.EAGAIN
	case 2:
		return syscall.ECONNRESET
	}
	return nil
}
func (e *idErr) Timeout() bool   { return e.kind == "write" && e.id%4 == 3 }
func (e *idErr) Temporary() bool { return e.Timeout() }

// request generator: emits the scripted requests, honouring ctx like the real generators do
type scriptGen struct {
	reqs []req
	cap  int
}
type req struct {
	ID   int  `json:"id"`
	Bad  bool `json:"bad"`
	Fill bool `json:"fill"`  // Fill succeeds
	Wr   bool `json:"write"` // WritePacketData succeeds
}

func (g *scriptGen) GenerateRequests(ctx context.Context, _ *scan.Range) (<-chan *scan.Request, error) {
	out := make(chan *scan.Request, g.cap)
	go func() {
		defer close(out)
		for i := range g.reqs {
			r := &scan.Request{DstPort: uint16(g.reqs[i].ID & 0xffff), Meta: map[string]interface{}{"id": g.reqs[i].ID}}
			if g.reqs[i].Bad {
				r.Err = &idErr{g.reqs[i].ID, "req"}
			}
			select {
			case <-ctx.Done():
				return
			case out <- r:
			}
		}
	}()
	return out, nil
}

// filler: frame = 8-byte id, then a length derived from the id filled with a byte pattern
type scriptFiller struct {
	byID  map[int]req
	calls int64
	yield bool
}

func frameFor(id int) []byte {
	n := 20 + id%41
	if id%13 == 7 {
		// frames at and past the Ethernet MTU, jumbo frames, the largest IPv4 datagram: every size must reach the writer whole
		n = []int{1514, 1515, 1516, 2048, 4096, 9014, 16384, 65535}[(id/13)%8]
	}
	b := make([]byte, n)
	binary.BigEndian.PutUint64(b, uint64(id))
	for i := 8; i < n; i++ {
		b[i] = byte(id*31 + i)
	}
	return b
}

func (f *scriptFiller) Fill(buf gopacket.SerializeBuffer, r *scan.Request) error {
	atomic.AddInt64(&f.calls, 1)
	id := r.Meta["id"].(int)
	if !f.byID[id].Fill {
		return &idErr{id, "fill"}
	}
	fr := frameFor(id)
	b, err := buf.AppendBytes(len(fr))
	if err != nil {
		return err
	}
	copy(b, fr)
	if f.yield {
		runtime.Gosched()
	}
	return nil
}

type wireRec struct {
	ID     int  `json:"id"`
	Intact bool `json:"intact"`
}

// writer: records the frame; while "on the wire" it yields and then re-checks that the bytes it was
// handed have not been changed under it (a recycled buffer would show here)
type scriptWriter struct {
	mu        sync.Mutex
	byID      map[int]req
	wire      []wireRec
	afterDone int32
	doneSeen  *int32
	slow      bool
	sentinel  []int // ids of the writes that failed with the bare io.ErrClosedPipe, in order
}

func (w *scriptWriter) WritePacketData(pkt []byte) error {
	if atomic.LoadInt32(w.doneSeen) != 0 {
		atomic.AddInt32(&w.afterDone, 1)
	}
	cp := append([]byte(nil), pkt...)
	id := -1
	if len(cp) >= 8 {
		id = int(binary.BigEndian.Uint64(cp))
	}
	if w.slow {
		runtime.Gosched()
		time.Sleep(time.Microsecond)
	}
	intact := string(cp) == string(pkt) && id >= 0 && string(cp) == string(frameFor(id))
	if id >= 0 && !w.byID[id].Wr {
		if id%8 == 5 {
			// a write error of the class the RECEIVER calls unrecoverable (what a closed AF_PACKET socket returns): it
			// is still one failed write, to be reported once, and the frames after it are still due. The bare sentinel
			// carries no id: remember the order (the sender is one goroutine, its error stream is FIFO)
			w.mu.Lock()
			w.sentinel = append(w.sentinel, id)
			w.mu.Unlock()
			return io.ErrClosedPipe
		}
		return &idErr{id, "write"}
	}
	w.mu.Lock()
	w.wire = append(w.wire, wireRec{id, intact})
	w.mu.Unlock()
	return nil
}

// reader: blocks until released, then reports a closed socket
type blockReader struct{ release chan struct{} }

func (r *blockReader) ReadPacketData() ([]byte, *gopacket.CaptureInfo, error) {
	<-r.release
	return nil, nil, io.EOF
}

type noExclude struct{}

func (noExclude) Contains(net.IP) (bool, error) { return false, nil }

type noWait struct{}

func (noWait) Take() time.Time { return time.Now() }

type nopProc struct{}

func (nopProc) ProcessPacketData([]byte, *gopacket.CaptureInfo) error { return nil }

type obs struct {
	Case       int       `json:"case"`
	Class      string    `json:"class"`
	N          int       `json:"n"`
	Cap        int       `json:"cap"`
	Reqs       []req     `json:"reqs"`
	CancelAt   int       `json:"cancel_at"` // -1: no cancellation; k: cancel after the k-th boundary event
	Wire       []wireRec `json:"wire"`
	Errs       []string  `json:"errs"` // kind:id, sorted
	FillCalls  int64     `json:"fill_calls"`
	DoneClosed bool      `json:"done_closed"`
	ErrcClosed bool      `json:"errc_closed"`
	AfterDone  int32     `json:"writes_after_done"`
	WireAtDone int       `json:"wire_at_done"`
	Panic      string    `json:"panic"`
	Stuck      string    `json:"stuck"`
	Goroutines int       `json:"goroutines_left"`
}

func runCase(idx int, class string, n, cap int, reqs []req, cancelAt int, slow bool) (o obs) {
	o = obs{Case: idx, Class: class, N: n, Cap: cap, Reqs: reqs, CancelAt: cancelAt}
	byID := map[int]req{}
	for _, r := range reqs {
		byID[r.ID] = r
	}
	var doneSeen int32
	filler := &scriptFiller{byID: byID, yield: slow}
	writer := &scriptWriter{byID: byID, doneSeen: &doneSeen, slow: slow}
	reader := &blockReader{release: make(chan struct{})}
	defer func() {
		if r := recover(); r != nil {
			o.Panic = fmt.Sprint(r)
		}
	}()
	ctx, cancel := context.WithCancel(context.Background())
	defer cancel()
	// the request decorators the commands put in front of the packet generators (exclusion filter, ARP-cache stage):
	// none / cache stage / filter + cache stage; a request that carries an error stays one failed request
	var gen scan.RequestGenerator = &scriptGen{reqs, cap}
	switch (idx / 2) % 3 {
	case 1:
		gen = arp.NewCacheRequestGenerator(gen, net.HardwareAddr{2, 0, 0, 0, 0, 1}, arp.NewCache())
	case 2:
		gen = arp.NewCacheRequestGenerator(scan.NewFilterIPRequestGenerator(gen, noExclude{}), net.HardwareAddr{2, 0, 0, 0, 0, 1}, arp.NewCache())
	}
	src := scan.NewPacketSource(gen, scan.NewPacketMultiGenerator(filler, n))
	var pw packet.Writer = writer
	if idx%2 == 1 {
		// every other run: through the real rate-limit wrapper (as with --rate), limiter without waiting
		pw = packet.NewRateLimitReadWriter(struct {
			packet.Reader
			packet.Writer
		}{reader, writer}, noWait{})
	}
	engine := scan.NewPacketEngine(src, packet.NewSender(pw), packet.NewReceiver(reader, nopProc{}))
	before := runtime.NumGoroutine()
	done, errc := engine.Start(ctx, &scan.Range{})
	var errs []string
	events := 0
	cancelled := false
	released := false
	maybeCancel := func() {
		if cancelAt >= 0 && !cancelled && events >= cancelAt {
			cancelled = true
			if !released {
				released = true
				close(reader.release)
			}
			cancel()
		}
	}
	maybeCancel()
	watchdog := time.After(20 * time.Second)
	doneCh := done
	for doneCh != nil || errc != nil {
		// after a cancellation only the merged error stream has to end: startScanEngine does not wait
		// for done once the context is cancelled, and the sender (unconditional error sends) may stay blocked
		if cancelled && cancelAt >= 0 && errc == nil && doneCh != nil {
			select {
			case <-doneCh:
				o.DoneClosed = true
			case <-time.After(50 * time.Millisecond):
			}
			break
		}
		select {
		case <-doneCh:
			atomic.StoreInt32(&doneSeen, 1)
			writer.mu.Lock()
			o.WireAtDone = len(writer.wire)
			writer.mu.Unlock()
			o.DoneClosed = true
			doneCh = nil
			// completion: the receiver's socket is closed (it ends, closing its error stream); the
			// context is NOT cancelled before the merged error stream has been drained to its end --
			// this plays the role of an exit delay that is long enough, without any timing
			if !released {
				released = true
				close(reader.release)
			}
		case e, ok := <-errc:
			if !ok {
				o.ErrcClosed = true
				errc = nil
				continue
			}
			var ie *idErr
			if errors.As(e, &ie) {
				errs = append(errs, ie.Error())
			} else if e == io.ErrClosedPipe {
				writer.mu.Lock()
				if len(writer.sentinel) > 0 {
					errs = append(errs, fmt.Sprintf("write:%d", writer.sentinel[0]))
					writer.sentinel = writer.sentinel[1:]
				} else {
					errs = append(errs, "other:"+e.Error())
				}
				writer.mu.Unlock()
			} else {
				errs = append(errs, "other:"+e.Error())
			}
			events++
			maybeCancel()
		case <-watchdog:
			o.Stuck = fmt.Sprintf("no progress for 20s: done_closed=%v errc_closed=%v", o.DoneClosed, o.ErrcClosed)
			doneCh, errc = nil, nil
		}
	}
	if !released {
		released = true
		close(reader.release)
	}
	cancel()
	sort.Strings(errs)
	o.Errs = errs
	writer.mu.Lock()
	o.Wire = append([]wireRec(nil), writer.wire...)
	writer.mu.Unlock()
	sort.Slice(o.Wire, func(i, j int) bool { return o.Wire[i].ID < o.Wire[j].ID })
	o.FillCalls = atomic.LoadInt64(&filler.calls)
	o.AfterDone = atomic.LoadInt32(&writer.afterDone)
	// goroutines of the engine should all be gone shortly after both streams ended
	for i := 0; i < 200 && runtime.NumGoroutine() > before; i++ {
		time.Sleep(time.Millisecond)
	}
	o.Goroutines = runtime.NumGoroutine() - before
	return o
}

func genReqs(r *hlib.SplitMix64, count int, pBad, pFill, pWr int) []req {
	reqs := make([]req, count)
	for i := range reqs {
		reqs[i] = req{ID: i, Bad: r.Intn(100) < pBad, Fill: r.Intn(100) >= pFill, Wr: r.Intn(100) >= pWr}
	}
	return reqs
}

func main() {
	out := flag.String("out", "cases.jsonl", "output file")
	seed := flag.Int64("seed", 1, "seed")
	count := flag.Int("n", 40, "number of complete runs")
	cancels := flag.Int("cancel", 0, "number of cancel-at-k runs")
	maxReq := flag.Int("maxreq", 1000, "max requests per run")
	only := flag.Int("only", -1, "run only the case with this index (same seed, same script)")
	buildfail := flag.Int("buildfail", 0, "N: requests per configuration through the real tcp/udp/icmp fillers, one in seven unbuildable")
	poolrace := flag.Int("poolrace", 0, "K: runs with 64 generator workers and thousands of error-free requests (buffer pool under the highest turnover)")
	callerblock := flag.Int("callerblock", 0, "K: cancel-while-the-write-path-is-blocked runs under the real startScanEngine")
	flag.Parse()
	if *callerblock > 0 {
		runCallerBlock(*out, *seed, *callerblock)
		return
	}
	if *buildfail > 0 {
		runBuildFail(*out, *buildfail)
		return
	}
	w := hlib.NewOut(*out)
	defer w.Close()
	r := hlib.NewRand(*seed)
	workers := []int{1, 2, 7, 16, 64}
	idx := 0
	put := func(mk func() obs) {
		if *only < 0 || *only == idx {
			w.Put(mk())
			w.Flush()
		}
		idx++
	}
	if *poolrace > 0 {
		for i := 0; i < *poolrace; i++ {
			n := []int{64, 16, 64, 7}[i%4]
			reqs := genReqs(r, 3000+r.Intn(3000), 0, 0, 0)
			slow := i%3 == 2
			put(func() obs { return runCase(idx, "poolrace", n, 100, reqs, -1, slow) })
		}
		return
	}
	// fixed small cases first
	put(func() obs { return runCase(idx, "empty", 1, 1, nil, -1, false) })
	put(func() obs {
		return runCase(idx, "tiny", 2, 1, []req{{0, false, true, true}, {1, true, true, true}, {2, false, false, true}, {3, false, true, false}, {4, false, true, true}}, -1, false)
	})
	for i := 0; i < *count; i++ {
		n := workers[r.Intn(len(workers))]
		cnt := r.Intn(*maxReq + 1)
		class := "mixed"
		pBad, pFill, pWr := 10, 10, 10
		switch r.Intn(5) {
		case 0:
			class, pBad, pFill, pWr = "all-ok", 0, 0, 0
		case 1:
			class, pBad, pFill, pWr = "error-burst", 60, 30, 30 // more than the 100-slot error buffers
		case 2:
			class, pBad, pFill, pWr = "write-fail", 0, 0, 50
		}
		capv, reqs, slow := []int{0, 1, 100}[r.Intn(3)], genReqs(r, cnt, pBad, pFill, pWr), r.Intn(3) == 0
		put(func() obs { return runCase(idx, class, n, capv, reqs, -1, slow) })
	}
	for i := 0; i < *cancels; i++ {
		n := workers[r.Intn(len(workers))]
		cnt := 1 + r.Intn(400)
		k := r.Intn(cnt/2 + 2)
		capv, reqs, slow := []int{0, 1, 100}[r.Intn(3)], genReqs(r, cnt, 40, 20, 20), r.Intn(2) == 0
		put(func() obs { return runCase(idx, "cancel", n, capv, reqs, k, slow) })
	}
}
