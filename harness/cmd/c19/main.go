// Driver for C19: runs the real scan.NewLiveRequestGenerator over a scripted delegate
// RequestGenerator (passes of varying sizes, a failing pass, cancellation anywhere) with a short
// rescan interval and records what happens.
//
// Rendezvous runs (delegate channels of capacity 0, so out has capacity 0): ONE harness goroutine
// offers the next request of the current pass, is ready to receive from out, learns about delegate
// calls, closes the pass channel when everything was delivered, cancels after a scripted number of
// events -- and writes down each event in the order it happened. The model replays that trace.
//
// Buffered runs (capacity > 0, as in `sx arp --live`, where the delegate's channel has capacity 100):
// a feeder goroutine per pass, the harness consumes out and cancels after a scripted number of
// requests; only the received sequence, the delegate calls and time stamps are recorded.
//
// Only positive events are observed; time stamps are used in inequalities only.
package main

import (
	"context"
	"encoding/json"
	"errors"
	"flag"
	"fmt"
	"net"
	"os"
	"strings"
	"sync"
	"time"

	"github.com/v-byte-cpu/sx/pkg/scan"
	"verifharness/hlib"
)

type passIn struct {
	Fail bool  `json:"fail"`
	Reqs []int `json:"reqs"`
}

type caseIn struct {
	Class    string   `json:"class"`
	Script   []passIn `json:"script"`
	Cap      int      `json:"cap"`       // capacity of the delegate's channels (0: rendezvous trace)
	RescanUS int      `json:"rescan_us"` // rescan interval
	// rendezvous: cancel when this many events have been recorded (-1 before GenerateRequests;
	// a huge number: only when the script is used up or a failed pass was seen)
	// buffered: cancel when this many requests have been received from out
	CancelAfter int `json:"cancel_after"`
	// buffered and real runs: the consumer takes this long per request (a pass may then last longer
	// than the rescan interval)
	ConsumeUS int `json:"consume_us,omitempty"`
	// real runs: the delegate is the REAL scan.NewIPRequestGenerator(scan.NewIPGenerator()) over this
	// subnet; Passes complete passes are collected before the cancellation
	// rendezvous runs: cancel this long after the first pass channel was closed, i.e. while the
	// generator pauses between two passes (used with a long rescan interval)
	CancelPauseMS int    `json:"cancel_pause_ms,omitempty"`
	Real          string `json:"real,omitempty"`
	Passes        int    `json:"passes,omitempty"`
}

type caseOut struct {
	Kind string `json:"kind"`
	caseIn
	Effective []passIn        `json:"effective"` // Script plus one empty, never closed pass if the delegate was called beyond it
	StartErr  bool            `json:"start_err"`
	NilOnErr  bool            `json:"nil_on_err"`
	Trace     [][]interface{} `json:"trace"`
	Outs      []int           `json:"outs"`
	Calls     int             `json:"calls"`
	Before    int             `json:"before"`
	Closed    bool            `json:"closed"`
	Starts    []int64         `json:"starts"`
	Closes    []int64         `json:"closes"`
	Stuck     bool            `json:"stuck"`
	Unknown   bool            `json:"unknown_request,omitempty"`
	// real runs
	OutIPs    []string `json:"out_ips,omitempty"`
	Deadlines []bool   `json:"deadlines,omitempty"` // whether the context handed to delegate call k had a deadline
}

type callInfo struct {
	k           int
	t           int64
	fail        bool
	beyond      bool
	ch          chan *scan.Request
	reqs        []*scan.Request
	afterCancel bool
}

var errPass = errors.New("scripted delegate: this pass fails to start")

type delegate struct {
	mu        sync.Mutex
	t0        time.Time
	script    []passIn
	capacity  int
	n         int
	cancelled bool
	calls     chan callInfo
	ids       map[*scan.Request]int
	feed      func(ctx context.Context, ci callInfo) // buffered runs: feeder goroutine
}

func (d *delegate) now() int64 { return time.Since(d.t0).Nanoseconds() }

func (d *delegate) GenerateRequests(ctx context.Context, r *scan.Range) (<-chan *scan.Request, error) {
	d.mu.Lock()
	ci := callInfo{k: d.n, t: d.now(), afterCancel: d.cancelled}
	d.n++
	switch {
	case ci.k >= len(d.script):
		ci.beyond = true
		ci.ch = make(chan *scan.Request, d.capacity)
	case d.script[ci.k].Fail:
		ci.fail = true
	default:
		ci.ch = make(chan *scan.Request, d.capacity)
		for _, id := range d.script[ci.k].Reqs {
			rq := &scan.Request{DstPort: uint16(id)}
			d.ids[rq] = id
			ci.reqs = append(ci.reqs, rq)
		}
	}
	d.calls <- ci
	d.mu.Unlock()
	if ci.fail {
		return nil, errPass
	}
	if d.feed != nil && !ci.beyond {
		go d.feed(ctx, ci)
	}
	return ci.ch, nil
}

func (d *delegate) cancelWith(cancel context.CancelFunc) {
	d.mu.Lock()
	d.cancelled = true
	cancel()
	d.mu.Unlock()
}

func (d *delegate) id(r *scan.Request) (int, bool) {
	d.mu.Lock()
	defer d.mu.Unlock()
	id, ok := d.ids[r]
	return id, ok
}

func start(in caseIn, out *caseOut) (*delegate, context.Context, context.CancelFunc) {
	ctx, cancel := context.WithCancel(context.Background())
	d := &delegate{t0: time.Now(), script: in.Script, capacity: in.Cap, calls: make(chan callInfo, 1024),
		ids: map[*scan.Request]int{}}
	out.Effective = append([]passIn{}, in.Script...)
	return d, ctx, cancel
}

// ------------------------------------------------------------------------------ rendezvous traces

func runTrace(in caseIn) caseOut {
	out := caseOut{Kind: "trace", caseIn: in, Outs: []int{}, Trace: [][]interface{}{}}
	d, ctx, cancel := start(in, &out)
	defer cancel()
	cancelled := false
	kPos := -1 // index of the K event in the trace
	doCancel := func() {
		if cancelled {
			return
		}
		cancelled = true
		d.cancelWith(cancel)
		kPos = len(out.Trace)
		out.Trace = append(out.Trace, []interface{}{"K", d.now()})
	}
	if in.CancelAfter == -1 {
		doCancel()
	}
	rescan := time.Duration(in.RescanUS) * time.Microsecond
	outc, err := scan.NewLiveRequestGenerator(d, rescan).GenerateRequests(ctx, &scan.Range{})
	first := <-d.calls // the synchronous first call
	out.Calls = 1
	out.Starts = append(out.Starts, first.t)
	if err != nil {
		out.StartErr = true
		out.NilOnErr = outc == nil
		return out
	}
	var curCh chan *scan.Request
	var pending []*scan.Request
	var pauseTimer <-chan time.Time
	pauseArmed := false
	closeCur := func() {
		t := d.now()
		close(curCh)
		curCh = nil
		out.Closes = append(out.Closes, t)
		out.Trace = append(out.Trace, []interface{}{"C", t})
		if in.CancelPauseMS > 0 && pauseTimer == nil && !pauseArmed {
			pauseArmed = true
			pauseTimer = time.After(time.Duration(in.CancelPauseMS) * time.Millisecond)
		}
	}
	adopt := func(ci callInfo) {
		curCh, pending = ci.ch, ci.reqs
		if len(pending) == 0 {
			closeCur()
		}
	}
	if first.fail || first.beyond {
		out.Stuck = true // cannot happen: err == nil
		return out
	}
	adopt(first)
	watchdog := time.After(10 * time.Second)
	var failTimer <-chan time.Time
	for {
		if !cancelled && in.CancelAfter >= 0 && len(out.Trace) >= in.CancelAfter {
			doCancel()
		}
		var sendCh chan *scan.Request
		var next *scan.Request
		if curCh != nil && len(pending) > 0 {
			sendCh, next = curCh, pending[0]
		}
		select {
		case sendCh <- next:
			id, _ := d.id(next)
			out.Trace = append(out.Trace, []interface{}{"D", id})
			pending = pending[1:]
			if len(pending) == 0 {
				closeCur()
			}
		case v, ok := <-outc:
			if !ok {
				out.Trace = append(out.Trace, []interface{}{"X"})
				out.Closed = true
				return out
			}
			id, known := d.id(v)
			if !known {
				out.Unknown = true
				id = 65535
			}
			out.Outs = append(out.Outs, id)
			out.Trace = append(out.Trace, []interface{}{"O", id})
		case ci := <-d.calls:
			out.Calls++
			out.Starts = append(out.Starts, ci.t)
			ev := []interface{}{"G", ci.k, ci.t}
			if cancelled && !ci.afterCancel && kPos >= 0 {
				// the call was made before the cancellation; the harness only learns of it now
				out.Trace = append(out.Trace[:kPos], append([][]interface{}{ev}, out.Trace[kPos:]...)...)
				kPos++
			} else {
				out.Trace = append(out.Trace, ev)
			}
			switch {
			case ci.beyond:
				out.Effective = append(out.Effective, passIn{Reqs: []int{}})
				curCh, pending = nil, nil
				doCancel()
			case ci.fail:
				curCh, pending = nil, nil
				// leave the generator alone for a while (a busy loop would show up as further calls),
				// then cancel
				failTimer = time.After(3 * rescan)
			default:
				adopt(ci)
			}
		case <-failTimer:
			failTimer = nil
			doCancel()
		case <-pauseTimer:
			pauseTimer = nil
			doCancel()
		case <-watchdog:
			out.Stuck = true
			cancel()
			return out
		}
	}
}

// ------------------------------------------------------------------------------ buffered runs

func runSeq(in caseIn) caseOut {
	out := caseOut{Kind: "seq", caseIn: in, Outs: []int{}, Trace: [][]interface{}{}}
	d, ctx, cancel := start(in, &out)
	defer cancel()
	var cmu sync.Mutex
	closes := map[int]int64{}
	d.feed = func(ctx context.Context, ci callInfo) {
		for _, rq := range ci.reqs {
			select {
			case ci.ch <- rq:
			case <-ctx.Done():
				// like every generator of pkg/scan: once its context is done it hands out nothing
				// more and closes its channel
				close(ci.ch)
				return
			}
		}
		cmu.Lock()
		closes[ci.k] = d.now()
		cmu.Unlock()
		close(ci.ch)
	}
	cancelled := false
	doCancel := func() {
		if !cancelled {
			cancelled = true
			out.Before = len(out.Outs)
			d.cancelWith(cancel)
		}
	}
	if in.CancelAfter == -1 {
		doCancel()
	}
	rescan := time.Duration(in.RescanUS) * time.Microsecond
	outc, err := scan.NewLiveRequestGenerator(d, rescan).GenerateRequests(ctx, &scan.Range{})
	if err != nil {
		first := <-d.calls
		out.Calls = 1
		out.Starts = append(out.Starts, first.t)
		out.StartErr = true
		out.NilOnErr = outc == nil
		return out
	}
	watchdog := time.After(10 * time.Second)
	var failTimer <-chan time.Time
loop:
	for {
		if !cancelled && in.CancelAfter >= 0 && len(out.Outs) >= in.CancelAfter {
			doCancel()
		}
		select {
		case v, ok := <-outc:
			if !ok {
				out.Closed = true
				break loop
			}
			id, known := d.id(v)
			if !known {
				out.Unknown = true
				id = 65535
			}
			out.Outs = append(out.Outs, id)
			if in.ConsumeUS > 0 && !cancelled {
				time.Sleep(time.Duration(in.ConsumeUS) * time.Microsecond)
			}
		case ci := <-d.calls:
			out.Calls++
			out.Starts = append(out.Starts, ci.t)
			switch {
			case ci.beyond:
				out.Effective = append(out.Effective, passIn{Reqs: []int{}})
				// everything generated has been closed by its feeder; whatever is still in flight is
				// received below, after the cancellation
				doCancel()
			case ci.fail:
				failTimer = time.After(3 * rescan)
			}
		case <-failTimer:
			failTimer = nil
			doCancel()
		case <-watchdog:
			out.Stuck = true
			cancel()
			break loop
		}
	}
	// calls the harness has not looked at yet
	for {
		select {
		case ci := <-d.calls:
			out.Calls++
			out.Starts = append(out.Starts, ci.t)
			if ci.beyond {
				out.Effective = append(out.Effective, passIn{Reqs: []int{}})
			}
			continue
		default:
		}
		break
	}
	cmu.Lock()
	for k := 0; k < out.Calls; k++ {
		t, ok := closes[k]
		if !ok {
			break
		}
		out.Closes = append(out.Closes, t)
	}
	cmu.Unlock()
	return out
}

// ------------------------------------------------------------------------------ real delegate, slow consumer

// realDelegate is the real generator chain of `sx arp` (scan.NewIPRequestGenerator over
// scan.NewIPGenerator); it only notes when it is called and whether the context it is handed has a
// deadline, and passes that context on unchanged.
type realDelegate struct {
	mu        sync.Mutex
	t0        time.Time
	inner     scan.RequestGenerator
	starts    []int64
	deadlines []bool
}

func (d *realDelegate) GenerateRequests(ctx context.Context, r *scan.Range) (<-chan *scan.Request, error) {
	d.mu.Lock()
	d.starts = append(d.starts, time.Since(d.t0).Nanoseconds())
	_, has := ctx.Deadline()
	d.deadlines = append(d.deadlines, has)
	d.mu.Unlock()
	return d.inner.GenerateRequests(ctx, r)
}

func runReal(in caseIn) caseOut {
	out := caseOut{Kind: "real", caseIn: in, Outs: []int{}, Trace: [][]interface{}{}, Effective: []passIn{}, OutIPs: []string{}}
	_, subnet, err := net.ParseCIDR(in.Real)
	if err != nil {
		panic(err)
	}
	ones, bits := subnet.Mask.Size()
	size := 1 << uint(bits-ones)
	ctx, cancel := context.WithCancel(context.Background())
	defer cancel()
	d := &realDelegate{t0: time.Now(), inner: scan.NewIPRequestGenerator(scan.NewIPGenerator())}
	rescan := time.Duration(in.RescanUS) * time.Microsecond
	outc, err := scan.NewLiveRequestGenerator(d, rescan).GenerateRequests(ctx,
		&scan.Range{DstSubnet: subnet, SrcIP: net.IPv4(10, 254, 254, 1).To4(), SrcMAC: net.HardwareAddr{2, 0, 0, 0, 0, 1}})
	if err != nil {
		out.StartErr = true
		return out
	}
	watchdog := time.After(20 * time.Second)
	cancelled := false
loop:
	for {
		if !cancelled && len(out.OutIPs) >= in.Passes*size {
			cancelled = true
			out.Before = len(out.OutIPs)
			cancel()
		}
		select {
		case v, ok := <-outc:
			if !ok {
				out.Closed = true
				break loop
			}
			ip := "<nil>"
			if v.DstIP != nil {
				ip = v.DstIP.String()
			}
			out.OutIPs = append(out.OutIPs, ip)
			if in.ConsumeUS > 0 && !cancelled {
				time.Sleep(time.Duration(in.ConsumeUS) * time.Microsecond)
			}
		case <-watchdog:
			out.Stuck = true
			cancel()
			break loop
		}
	}
	d.mu.Lock()
	out.Calls, out.Starts, out.Deadlines = len(d.starts), append([]int64{}, d.starts...), append([]bool{}, d.deadlines...)
	d.mu.Unlock()
	return out
}

// ------------------------------------------------------------------------------ generators

func genScript(r *hlib.SplitMix64, maxPasses, maxSize int, next *int) []passIn {
	n := 1 + r.Intn(maxPasses)
	s := make([]passIn, 0, n)
	failAt := -1
	switch x := r.Intn(100); {
	case x < 8:
		failAt = 0
	case x < 40:
		failAt = 1 + r.Intn(n)
	}
	for i := 0; i < n; i++ {
		if i == failAt {
			s = append(s, passIn{Fail: true, Reqs: []int{}})
			if i > 0 && r.Bool() {
				break // nothing can follow a failed re-generation; sometimes script more anyway
			}
			continue
		}
		sz := r.Intn(maxSize + 1)
		if r.Intn(6) == 0 {
			sz = 0
		}
		p := passIn{Reqs: make([]int, sz)}
		for j := range p.Reqs {
			p.Reqs[j] = *next
			*next = (*next + 1) % 60000
		}
		s = append(s, p)
	}
	return s
}

func traceLen(s []passIn) int {
	n := 0
	for _, p := range s {
		if p.Fail {
			n++
			break
		}
		n += 2*len(p.Reqs) + 2
	}
	return n + 2
}

func totalReqs(s []passIn) int {
	n := 0
	for i, p := range s {
		if p.Fail {
			if i > 0 {
				break
			}
			continue
		}
		n += len(p.Reqs)
	}
	return n
}

func cases(seed int64, nTrace, nSeq, everyIndex, nSlow int) []caseIn {
	r := hlib.NewRand(seed)
	next := 1
	var cs []caseIn
	const never = 1 << 30
	if nTrace == 0 && nSeq == 0 && everyIndex == 0 && nSlow == 0 {
		return nil
	}
	// fixed small scripts
	if nTrace > 0 || everyIndex > 0 {
		cs = append(cs,
			caseIn{Class: "trace-two-passes", Script: []passIn{{Reqs: []int{1, 2, 3}}, {Reqs: []int{4, 5}}}, RescanUS: 15000, CancelAfter: never},
			caseIn{Class: "trace-fail-second", Script: []passIn{{Reqs: []int{1, 2}}, {Fail: true, Reqs: []int{}}, {Reqs: []int{9}}}, RescanUS: 15000, CancelAfter: never},
			caseIn{Class: "trace-fail-first", Script: []passIn{{Fail: true, Reqs: []int{}}, {Reqs: []int{1}}}, RescanUS: 15000, CancelAfter: never},
			caseIn{Class: "trace-precancel", Script: []passIn{{Reqs: []int{1, 2, 3}}, {Reqs: []int{4}}}, RescanUS: 15000, CancelAfter: -1},
			// cancelled 100 ms into a pause of 1.5 s between two passes: the stream must end, no further pass
			caseIn{Class: "trace-cancel-in-long-pause", Script: []passIn{{Reqs: []int{1, 2}}, {Reqs: []int{3}}, {Reqs: []int{4}}}, RescanUS: 1500000, CancelAfter: never, CancelPauseMS: 100},
			caseIn{Class: "trace-empty-passes", Script: []passIn{{Reqs: []int{}}, {Reqs: []int{}}, {Reqs: []int{7}}}, RescanUS: 8000, CancelAfter: never},
		)
	}
	// cancellation at every index of a few short scripts
	for i := 0; i < everyIndex; i++ {
		next = 1
		s := genScript(r, 3, 3, &next)
		if s[0].Fail {
			s[0] = passIn{Reqs: []int{next}}
			next++
		}
		for k := -1; k <= traceLen(s); k++ {
			cs = append(cs, caseIn{Class: "trace-cancel-every-index", Script: s, RescanUS: 6000 + r.Intn(6000), CancelAfter: k})
		}
	}
	for i := 0; i < nTrace; i++ {
		next = 1
		s := genScript(r, 5, 6, &next)
		c := caseIn{Class: "trace-random", Script: s, RescanUS: 5000 + r.Intn(20000), CancelAfter: never}
		switch x := r.Intn(100); {
		case x < 40:
		case x < 44:
			c.CancelAfter = -1
			c.Class = "trace-random-cancel"
		default:
			c.CancelAfter = r.Intn(traceLen(s) + 1)
			c.Class = "trace-random-cancel"
		}
		cs = append(cs, c)
	}
	for i := 0; i < nSeq; i++ {
		capacity := []int{1, 2, 7, 100}[r.Intn(4)]
		maxSize := 12
		if capacity == 100 && r.Intn(3) == 0 {
			maxSize = 260 // passes bigger than the buffer, as a /24 in `sx arp --live`
		}
		next = 1
		s := genScript(r, 4, maxSize, &next)
		c := caseIn{Class: "seq-random", Script: s, Cap: capacity, RescanUS: 5000 + r.Intn(15000), CancelAfter: never}
		switch x := r.Intn(100); {
		case x < 45:
		case x < 48:
			c.CancelAfter = -1
			c.Class = "seq-random-cancel"
		default:
			c.CancelAfter = r.Intn(totalReqs(s) + 1)
			c.Class = "seq-random-cancel"
		}
		cs = append(cs, c)
	}
	// passes that last longer than the rescan interval: a slow consumer (a rate limit, a big subnet).
	// Every pass must still be complete.
	for i := 0; i < nSlow; i++ {
		next = 1
		npass := 3 + r.Intn(2)
		s := make([]passIn, npass)
		for k := range s {
			sz := 10 + r.Intn(15)
			s[k] = passIn{Reqs: make([]int, sz)}
			for j := range s[k].Reqs {
				s[k].Reqs[j] = next
				next++
			}
		}
		rescan := 6000 + r.Intn(5000)
		cs = append(cs, caseIn{Class: "seq-slow-consumer", Script: s, Cap: []int{1, 7, 2}[i%3], RescanUS: rescan,
			CancelAfter: never, ConsumeUS: rescan * 5 / 2 / 12})
		subnet := fmt.Sprintf("10.%d.%d.%d/%d", 1+r.Intn(200), r.Intn(256), 16*r.Intn(16), 28-i%2)
		if i%2 == 1 {
			subnet = fmt.Sprintf("10.%d.%d.%d/27", 1+r.Intn(200), r.Intn(256), 32*r.Intn(8))
		}
		cs = append(cs, caseIn{Class: "real-generators-slow-consumer", Real: subnet, RescanUS: 15000 + r.Intn(10000),
			ConsumeUS: 2500 + r.Intn(1500), Passes: 3, CancelAfter: never})
	}
	return cs
}

// readCorpus loads the regression inputs (one JSON case input per file).
func readCorpus(dir string) []caseIn {
	if dir == "" {
		return nil
	}
	ents, err := os.ReadDir(dir)
	if err != nil {
		return nil
	}
	var cs []caseIn
	for _, e := range ents {
		if e.IsDir() || len(e.Name()) < 6 || e.Name()[len(e.Name())-5:] != ".json" {
			continue
		}
		b, err := os.ReadFile(dir + "/" + e.Name())
		if err != nil {
			continue
		}
		var in caseIn
		if err := json.Unmarshal(b, &in); err != nil {
			panic("corpus " + e.Name() + ": " + err.Error())
		}
		in.Class = "corpus"
		cs = append(cs, in)
	}
	return cs
}

func main() {
	outPath := flag.String("out", "cases.jsonl", "output file")
	seed := flag.Int64("seed", 1, "seed")
	nTrace := flag.Int("ntrace", 120, "random rendezvous runs")
	nSeq := flag.Int("nseq", 60, "random buffered runs")
	every := flag.Int("every", 4, "short scripts run with a cancellation at every event index")
	nSlow := flag.Int("nslow", 4, "runs with a consumer so slow that a pass lasts longer than the interval (scripted and real delegates)")
	par := flag.Int("par", 48, "runs in parallel")
	corpus := flag.String("corpus", "", "directory of JSON case inputs that are run first")
	replay := flag.String("replay", "", "JSON file holding one case input")
	only := flag.Int("only", -1, "run only case number K of the generated list (its input is written to <out>.input.json first, so that it survives a crash of the process)")
	count := flag.Bool("count", false, "print the number of generated cases and exit")
	capIf := flag.String("capture", "", "internal: log the ARP frames seen on this interface")
	capMS := flag.Int("capms", 2000, "internal: capture duration")
	e2e := flag.Int("e2e", 0, "end-to-end runs of `sx arp --live` in a private network namespace")
	sxPath := flag.String("sx", "", "path of the sx binary for -e2e")
	e2eIdx := flag.String("e2eidx", "", "run only these e2e configurations (comma separated indices), e.g. to confirm a finding")
	e2eBig := flag.Bool("e2ebig", false, "-e2e runs only the rate-limited /23 configurations (passes longer than the interval)")
	flag.Parse()
	if *capIf != "" {
		capture(*capIf, *capMS, *outPath)
		return
	}
	w := hlib.NewOut(*outPath)
	defer w.Close()
	var cs []caseIn
	if *replay != "" {
		b, err := os.ReadFile(*replay)
		if err != nil {
			panic(err)
		}
		var in caseIn
		if err := json.Unmarshal(b, &in); err != nil {
			panic(err)
		}
		cs = []caseIn{in}
	} else {
		cs = append(readCorpus(*corpus), cases(*seed, *nTrace, *nSeq, *every, *nSlow)...)
	}
	if *count {
		fmt.Println(len(cs))
		return
	}
	if *only >= 0 {
		if *only >= len(cs) {
			return
		}
		cs = cs[*only : *only+1]
		if b, err := json.Marshal(cs[0]); err == nil {
			os.WriteFile(*outPath+".input.json", b, 0o644)
		}
		*e2e = 0
	}
	outs := make([]caseOut, len(cs))
	var wg sync.WaitGroup
	sem := make(chan struct{}, *par)
	for i := range cs {
		wg.Add(1)
		sem <- struct{}{}
		go func(i int) {
			defer wg.Done()
			if cs[i].Real != "" {
				outs[i] = runReal(cs[i])
			} else if cs[i].Cap == 0 {
				outs[i] = runTrace(cs[i])
			} else {
				outs[i] = runSeq(cs[i])
			}
			<-sem
		}(i)
	}
	var e2eOuts []e2eOut
	if *e2e > 0 && *sxPath != "" && *replay == "" {
		self, _ := os.Executable()
		wd, _ := os.Getwd()
		configs := []struct {
			interval, run int
			exclude       []string
			rate          int // probes per second (0: no --rate)
			prefix        int
		}{{300, 1100, nil, 0, 29}, {250, 950, []string{"5", "6"}, 0, 29}, {400, 1350, []string{"2"}, 0, 29},
			{200, 900, []string{"0", "7"}, 0, 29},
			// a /20 at 5000 probes/s: a pass lasts ~0.8 s, longer than the interval, and does not fit the pipeline buffers
			{200, 3000, nil, 5000, 20}, {150, 3000, []string{"9", "77"}, 4000, 20}}
		if *e2eBig {
			configs = configs[4:]
		}
		idxs := make([]int, 0, *e2e)
		for i := 0; i < *e2e; i++ {
			idxs = append(idxs, i)
		}
		if *e2eIdx != "" {
			idxs = idxs[:0]
			for _, f := range strings.Split(*e2eIdx, ",") {
				var k int
				if _, err := fmt.Sscan(f, &k); err == nil {
					idxs = append(idxs, k)
				}
			}
		}
		e2eOuts = make([]e2eOut, len(idxs))
		e2eSem := make(chan struct{}, 4) // at most four namespaces with a scan at a time
		for j, i := range idxs {
			wg.Add(1)
			go func(j, i int) {
				defer wg.Done()
				e2eSem <- struct{}{}
				defer func() { <-e2eSem }()
				c := configs[i%len(configs)]
				e2eOuts[j] = runE2E(*sxPath, self, wd, i, c.interval+10*(i/len(configs)), c.run, c.exclude, c.rate, c.prefix)
			}(j, i)
		}
	}
	wg.Wait()
	for i := range outs {
		w.Put(outs[i])
	}
	for i := range e2eOuts {
		w.Put(e2eOuts[i])
	}
}
