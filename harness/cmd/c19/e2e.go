// End-to-end part of the C19 driver: the unmodified `sx arp --live` binary in a private network
// namespace, its ARP requests captured on the veth peer in a second namespace.
package main

import (
	"bufio"
	"bytes"
	"encoding/binary"
	"encoding/json"
	"fmt"
	"net"
	"os"
	"os/exec"
	"os/signal"
	"strings"
	"sync"
	"syscall"
	"time"

	"verifharness/hlib"
)

type arpSeen struct {
	T      int64  `json:"t"` // unix ns
	Op     int    `json:"op"`
	Sender string `json:"sender"`
	Target string `json:"target"`
}

func htons(v uint16) uint16 { return v<<8 | v>>8 }

// capture logs every ARP frame seen on the interface for the given time (run inside the peer namespace).
func capture(ifname string, ms int, outPath string) {
	w := hlib.NewOut(outPath)
	defer w.Close()
	ifi, err := net.InterfaceByName(ifname)
	if err != nil {
		fmt.Fprintln(os.Stderr, "capture:", err)
		os.Exit(3)
	}
	fd, err := syscall.Socket(syscall.AF_PACKET, syscall.SOCK_RAW, int(htons(syscall.ETH_P_ARP)))
	if err != nil {
		fmt.Fprintln(os.Stderr, "capture: socket:", err)
		os.Exit(3)
	}
	defer syscall.Close(fd)
	if err := syscall.Bind(fd, &syscall.SockaddrLinklayer{Protocol: htons(syscall.ETH_P_ARP), Ifindex: ifi.Index}); err != nil {
		fmt.Fprintln(os.Stderr, "capture: bind:", err)
		os.Exit(3)
	}
	// room for bursts of a rate-limited scan of a big subnet (SO_RCVBUFFORCE: we are root)
	syscall.SetsockoptInt(fd, syscall.SOL_SOCKET, 33 /* SO_RCVBUFFORCE */, 32<<20)
	// kernel receive time stamps: the times used in the judgement do not depend on when this process
	// gets the CPU
	syscall.SetsockoptInt(fd, syscall.SOL_SOCKET, 35 /* SO_TIMESTAMPNS */, 1)
	tv := syscall.Timeval{Sec: 0, Usec: 50000}
	syscall.SetsockoptTimeval(fd, syscall.SOL_SOCKET, syscall.SO_RCVTIMEO, &tv)
	stop := make(chan os.Signal, 1)
	signal.Notify(stop, syscall.SIGTERM, syscall.SIGINT)
	fmt.Println("ready")
	end := time.Now().Add(time.Duration(ms) * time.Millisecond)
	buf := make([]byte, 2048)
	oob := make([]byte, 256)
	stopping := false
	for time.Now().Before(end) {
		select {
		case <-stop:
			// drain what is already queued, then leave
			stopping = true
		default:
		}
		n, oobn, _, _, err := syscall.Recvmsg(fd, buf, oob, 0)
		if err != nil || n < 42 {
			if stopping {
				return
			}
			continue
		}
		if binary.BigEndian.Uint16(buf[12:14]) != 0x0806 {
			continue
		}
		t := time.Now().UnixNano()
		if cms, err := syscall.ParseSocketControlMessage(oob[:oobn]); err == nil {
			for _, cm := range cms {
				if cm.Header.Level == syscall.SOL_SOCKET && cm.Header.Type == 35 && len(cm.Data) >= 16 {
					sec := int64(binary.LittleEndian.Uint64(cm.Data[0:8]))
					nsec := int64(binary.LittleEndian.Uint64(cm.Data[8:16]))
					t = sec*1000000000 + nsec
				}
			}
		}
		w.Put(arpSeen{T: t, Op: int(binary.BigEndian.Uint16(buf[20:22])),
			Sender: net.IP(buf[28:32]).String(), Target: net.IP(buf[38:42]).String()})
	}
}

type e2eOut struct {
	Kind       string    `json:"kind"`
	Class      string    `json:"class"`
	Idx        int       `json:"idx"`
	JitterMS   float64   `json:"jitter_ms"` // worst overshoot of a 2 ms sleep of the harness during the run
	Subnet     string    `json:"subnet"`
	SrcIP      string    `json:"src_ip"`
	PeerIP     string    `json:"peer_ip"`
	Exclude    []string  `json:"exclude"`
	IntervalMS int       `json:"interval_ms"`
	Rate       int       `json:"rate"`
	RunMS      int       `json:"run_ms"`
	Skipped    string    `json:"skipped,omitempty"`
	Start      int64     `json:"start"`
	Sigint     int64     `json:"sigint"`
	Exit       int64     `json:"exit"`
	ExitCode   int       `json:"exit_code"`
	Exited     bool      `json:"exited"`
	Stdout     []string  `json:"stdout"`
	Stderr     string    `json:"stderr"`
	Seen       []arpSeen `json:"seen"`
}

func sh(args ...string) error {
	out, err := exec.Command(args[0], args[1:]...).CombinedOutput()
	if err != nil {
		return fmt.Errorf("%s: %v: %s", strings.Join(args, " "), err, bytes.TrimSpace(out))
	}
	return nil
}

var e2eMu sync.Mutex

// runE2E runs `sx arp --live` once. 10.<a>.<b>.0/<prefix>, source .1, peer .2. With a rate and a subnet
// bigger than the buffers of the pipeline a pass lasts longer than the interval.
func runE2E(sxPath, self, workDir string, idx int, intervalMS, runMS int, exclude []string, rate int, prefix int) (o e2eOut) {
	tag := fmt.Sprintf("%d%d", os.Getpid()%100000, idx)
	n1, n2, v1, v2 := "vc19a"+tag, "vc19b"+tag, "vq1"+tag, "vq2"+tag
	third := os.Getpid() % 250
	if prefix < 24 {
		third &^= (1 << uint(24-prefix)) - 1 // align the /23, /22 ...
	}
	base := fmt.Sprintf("10.%d.%d.", 200+idx%50, third)
	plen := fmt.Sprint(prefix)
	o = e2eOut{Kind: "e2e", Class: "e2e-arp-live", Idx: idx, Subnet: base + "0/" + plen, SrcIP: base + "1", PeerIP: base + "2",
		Exclude: append([]string{}, exclude...), IntervalMS: intervalMS, RunMS: runMS, Rate: rate, Stdout: []string{}, Seen: []arpSeen{}}
	for i, x := range o.Exclude {
		o.Exclude[i] = base + x
	}
	cleanup := func() {
		exec.Command("ip", "netns", "del", n1).Run()
		exec.Command("ip", "netns", "del", n2).Run()
	}
	defer cleanup()
	e2eMu.Lock()
	setup := [][]string{
		{"ip", "netns", "add", n1}, {"ip", "netns", "add", n2},
		{"ip", "link", "add", v1, "type", "veth", "peer", "name", v2},
		{"ip", "link", "set", v1, "netns", n1}, {"ip", "link", "set", v2, "netns", n2},
		{"ip", "-n", n1, "addr", "add", o.SrcIP + "/" + plen, "dev", v1}, {"ip", "-n", n2, "addr", "add", o.PeerIP + "/" + plen, "dev", v2},
		{"ip", "-n", n1, "link", "set", v1, "up"}, {"ip", "-n", n2, "link", "set", v2, "up"},
		{"ip", "-n", n1, "link", "set", "lo", "up"},
	}
	for _, c := range setup {
		if err := sh(c...); err != nil {
			e2eMu.Unlock()
			o.Skipped = "network namespaces unavailable: " + err.Error()
			return o
		}
	}
	e2eMu.Unlock()
	capFile := fmt.Sprintf("%s/e2e-cap-%d.jsonl", workDir, idx)
	capCmd := exec.Command("ip", "netns", "exec", n2, self, "-capture", v2, "-capms", fmt.Sprint(runMS+30000), "-out", capFile)
	capOut, _ := capCmd.StdoutPipe()
	capCmd.Stderr = os.Stderr
	if err := capCmd.Start(); err != nil {
		o.Skipped = "cannot start the capture: " + err.Error()
		return o
	}
	ready := make(chan bool, 1)
	go func() {
		sc := bufio.NewScanner(capOut)
		ok := false
		for sc.Scan() {
			if strings.TrimSpace(sc.Text()) == "ready" {
				ok = true
				break
			}
		}
		ready <- ok
	}()
	select {
	case ok := <-ready:
		if !ok {
			capCmd.Wait()
			o.Skipped = "the capture could not open its socket"
			return o
		}
	case <-time.After(5 * time.Second):
		capCmd.Process.Kill()
		o.Skipped = "the capture did not get ready"
		return o
	}
	time.Sleep(150 * time.Millisecond) // let the link settle (duplicate address detection is IPv6 only)
	args := []string{"netns", "exec", n1, sxPath, "arp", "--live", fmt.Sprintf("%dms", intervalMS), "--json"}
	if len(o.Exclude) > 0 {
		exFile := fmt.Sprintf("%s/e2e-exclude-%d.txt", workDir, idx)
		os.WriteFile(exFile, []byte(strings.Join(o.Exclude, "\n")+"\n"), 0o644)
		args = append(args, "--exclude", exFile)
	}
	if rate > 0 {
		args = append(args, "--rate", fmt.Sprintf("%d/s", rate))
	}
	args = append(args, o.Subnet)
	cmd := exec.Command("ip", args...)
	var stdout, stderr bytes.Buffer
	cmd.Stdout, cmd.Stderr = &stdout, &stderr
	// scheduling jitter seen by this process while sx runs
	jstop, jdone := make(chan struct{}), make(chan float64, 1)
	go func() {
		worst := 0.0
		for {
			select {
			case <-jstop:
				jdone <- worst
				return
			default:
			}
			t := time.Now()
			time.Sleep(2 * time.Millisecond)
			if d := float64(time.Since(t)-2*time.Millisecond) / 1e6; d > worst {
				worst = d
			}
		}
	}()
	defer func() {
		close(jstop)
		o.JitterMS = <-jdone
	}()
	o.Start = time.Now().UnixNano()
	if err := cmd.Start(); err != nil {
		capCmd.Process.Kill()
		o.Skipped = "cannot start sx: " + err.Error()
		return o
	}
	done := make(chan error, 1)
	go func() { done <- cmd.Wait() }()
	select {
	case <-done:
		// ended by itself: not what live mode does; recorded (Sigint stays 0)
		o.Exited = true
		o.Exit = time.Now().UnixNano()
	case <-time.After(time.Duration(runMS) * time.Millisecond):
		o.Sigint = time.Now().UnixNano()
		cmd.Process.Signal(syscall.SIGINT)
		select {
		case <-done:
			o.Exited = true
			o.Exit = time.Now().UnixNano()
		case <-time.After(8 * time.Second):
			cmd.Process.Kill()
			<-done
		}
	}
	if cmd.ProcessState != nil {
		o.ExitCode = cmd.ProcessState.ExitCode()
	}
	for _, l := range strings.Split(strings.TrimSpace(stdout.String()), "\n") {
		if l != "" {
			o.Stdout = append(o.Stdout, l)
		}
	}
	o.Stderr = stderr.String()
	if len(o.Stderr) > 600 {
		o.Stderr = o.Stderr[:600]
	}
	time.Sleep(60 * time.Millisecond)
	capCmd.Process.Signal(syscall.SIGTERM)
	capCmd.Wait()
	if f, err := os.Open(capFile); err == nil {
		sc := bufio.NewScanner(f)
		for sc.Scan() {
			var a arpSeen
			if json.Unmarshal(sc.Bytes(), &a) == nil {
				o.Seen = append(o.Seen, a)
			}
		}
		f.Close()
	}
	return o
}
