// Driver for C17 (interface / source selection).
//
// The parent process generates host network configurations (seeded), and for each one re-executes
// itself as a child inside a FRESH ANONYMOUS network namespace (clone(CLONE_NEWNET): the namespace
// has no name and disappears with the child, so nothing can be left behind).  The child builds the
// configuration with `ip` (veth pairs, tun devices without MAC, several IPv4/IPv6 addresses,
// overlapping subnets, default routes with metrics, ...), reads it back through the very calls the
// code under test uses (net.Interfaces, Interface.Addrs, netlink.RouteList(nil, FAMILY_V4)) and then
// runs the REAL option code of /repo (command.VerifC17ScanRange / VerifC17IPScan / VerifC17RunARP,
// add-only hook command/verif_export_c17.go) for every target and every combination of the three
// override flags.  The read-back configuration is the model's input: kernel enumeration order is
// an input, not something the model predicts.
package main

import (
	"bufio"
	"bytes"
	"encoding/hex"
	"encoding/json"
	"errors"
	"flag"
	"fmt"
	"net"
	"net/netip"
	"os"
	"os/exec"
	"path/filepath"
	"sort"
	"strings"
	"sync"
	"syscall"
	"time"

	"github.com/v-byte-cpu/sx/command"
	sxip "github.com/v-byte-cpu/sx/pkg/ip"
	"github.com/vishvananda/netlink"
	"github.com/vishvananda/netlink/nl"
	"verifharness/hlib"
)

// ---------------------------------------------------------------------------- spec (parent -> child)

type CaseIn struct {
	Entry  int    `json:"entry"` // 0 getScanRange, 1 ipScanCmdOpts.parseOptions, 2 run the arp command, 3 run an ip-level command (Cmd)
	Iface  string `json:"iface"`
	SrcIP  string `json:"srcip"`
	SrcMAC string `json:"srcmac"`
	Target string `json:"target"` // "" = no destination subnet
	TClass string `json:"tclass"`
	Cmd    string `json:"cmd,omitempty"` // entry 3: which ip-level command runs ("" = icmp): icmp, udp, tcp, tcp syn, tcp --flags fin,ack, tcp fin, tcp null, tcp xmas
}

type Spec struct {
	ID    int        `json:"id"`
	Seed  int64      `json:"seed"`
	Class string     `json:"class"`
	Cmds  [][]string `json:"cmds"` // argument vectors of `ip`
	Cases []CaseIn   `json:"cases"`
}

// ---------------------------------------------------------------------------- observations (child -> parent)

type AddrOut struct {
	IP    string `json:"ip"`   // hex of IPNet.IP as Go holds it
	Mask  string `json:"mask"` // hex of IPNet.Mask
	IPNet bool   `json:"ipnet"`
	Text  string `json:"text"`
}

type IfaceOut struct {
	Index int       `json:"index"`
	Name  string    `json:"name"`
	MAC   *string   `json:"mac"` // null = nil HardwareAddr
	Up    bool      `json:"up"`
	Peer  int       `json:"peer"` // veth: index of the other end (0 otherwise)
	Addrs []AddrOut `json:"addrs"`
}

type RouteOut struct {
	DstNil bool   `json:"dst_nil"`
	SrcNil bool   `json:"src_nil"`
	Link   int    `json:"link"`
	Prio   int    `json:"prio"`
	Gw     string `json:"gw"` // hex, "" = nil
	Text   string `json:"text"`
}

type CfgOut struct {
	Kind     string     `json:"kind"` // "cfg"
	ID       int        `json:"id"`
	Seed     int64      `json:"seed"`
	Class    string     `json:"class"`
	Ifaces   []IfaceOut `json:"ifaces"`
	Routes   []RouteOut `json:"routes"`
	Routes6  []RouteOut `json:"routes6"` // IPv6 default routes: NOT an input of the model (the code asks for FAMILY_V4), kept for reports
	Cmds     [][]string `json:"cmds"`
	CmdFails []string   `json:"cmd_fails"`
	Unstable bool       `json:"unstable"`
}

type CaseOut struct {
	Kind string `json:"kind"` // "case"
	ID   int    `json:"id"`
	N    int    `json:"n"`
	CaseIn
	SrcIPIn    *string `json:"srcip_in"`  // hex of what pflag's net.ParseIP makes of --srcip; null = absent
	SrcMACIn   *string `json:"srcmac_in"` // hex of net.ParseMAC(--srcmac); null = absent
	DstNil     bool    `json:"dst_nil"`
	DstIP      string  `json:"dst_ip"` // hex of the IPNet ip.ParseIPNet produced
	DstMask    string  `json:"dst_mask"`
	DstRefused bool    `json:"dst_refused"` // the real ip.ParseIPNet refused the argument
	TxtKind    string  `json:"txt_kind"`    // "", "cidr" (net.ParseCIDR ok), "addr" (netip.ParseAddr ok), "junk"
	TxtIs4     bool    `json:"txt_is4"`
	TxtIP      string  `json:"txt_ip"`
	TxtMask    string  `json:"txt_mask"`
	Err        string  `json:"err"` // "", srciface, srcip, srcmac, badtarget, other
	ErrText    string  `json:"errtext"`
	IfIndex    int     `json:"ifindex"`
	IfName     string  `json:"ifname"`
	SrcIP      *string `json:"srcip_out"`  // null = nil SrcIP
	SrcMAC     *string `json:"srcmac_out"` // null = nil SrcMAC
	VPN        bool    `json:"vpn"`
	GwMAC      *string `json:"gwmac"`
	// entry 2 only: frames seen on the wire (peer end of the chosen veth)
	Wire *WireOut `json:"wire,omitempty"`
}

type WireOut struct {
	On      string   `json:"on"`     // interface the capture ran on
	Frames  int      `json:"frames"` // probes (ARP requests / ICMP echo requests for the target) seen
	SrcMACs []string `json:"src_macs"`
	ArpSHA  []string `json:"arp_sha"`
	ArpSPA  []string `json:"arp_spa"`
	Others  []string `json:"others"`            // interfaces the probes left through
	Garbage []string `json:"garbage,omitempty"` // what was read from tun devices and is no IPv4 packet
}

func hexp(b []byte) *string {
	if b == nil {
		return nil
	}
	s := hex.EncodeToString(b)
	return &s
}

// ---------------------------------------------------------------------------- child

func ipCmd(args []string) error {
	cmd := exec.Command("ip", args...)
	out, err := cmd.CombinedOutput()
	if err != nil {
		return fmt.Errorf("ip %s: %v: %s", strings.Join(args, " "), err, strings.TrimSpace(string(out)))
	}
	return nil
}

func readBack() ([]IfaceOut, []RouteOut, error) {
	ifs, err := net.Interfaces()
	if err != nil {
		return nil, nil, err
	}
	peer := map[int]int{}
	if links, err := netlink.LinkList(); err == nil {
		for _, l := range links {
			if l.Type() == "veth" {
				peer[l.Attrs().Index] = l.Attrs().ParentIndex
			}
		}
	}
	var outI []IfaceOut
	for i := range ifs {
		ifi := ifs[i]
		io := IfaceOut{Index: ifi.Index, Name: ifi.Name, Up: ifi.Flags&net.FlagUp != 0, Peer: peer[ifi.Index]}
		if ifi.HardwareAddr != nil {
			io.MAC = hexp(ifi.HardwareAddr)
		}
		addrs, err := ifi.Addrs()
		if err != nil {
			return nil, nil, err
		}
		for _, a := range addrs {
			if n, ok := a.(*net.IPNet); ok {
				io.Addrs = append(io.Addrs, AddrOut{IP: hex.EncodeToString(n.IP), Mask: hex.EncodeToString(n.Mask), IPNet: true, Text: n.String()})
			} else {
				io.Addrs = append(io.Addrs, AddrOut{IPNet: false, Text: a.String()})
			}
		}
		outI = append(outI, io)
	}
	routes, err := netlink.RouteList(nil, nl.FAMILY_V4)
	if err != nil {
		return nil, nil, err
	}
	var outR []RouteOut
	for _, r := range routes {
		outR = append(outR, RouteOut{DstNil: r.Dst == nil, SrcNil: r.Src == nil, Link: r.LinkIndex, Prio: r.Priority,
			Gw: hex.EncodeToString(r.Gw), Text: r.String()})
	}
	return outI, outR, nil
}

// IPv6 default routes of the main table (informational: the code under test must not look at them)
func readBack6() []RouteOut {
	routes, err := netlink.RouteList(nil, nl.FAMILY_V6)
	if err != nil {
		return nil
	}
	var out []RouteOut
	for _, r := range routes {
		if r.Dst == nil {
			out = append(out, RouteOut{DstNil: true, SrcNil: r.Src == nil, Link: r.LinkIndex, Prio: r.Priority,
				Gw: hex.EncodeToString(r.Gw), Text: r.String()})
		}
	}
	return out
}

func sameJSON(a, b interface{}) bool {
	x, _ := json.Marshal(a)
	y, _ := json.Marshal(b)
	return bytes.Equal(x, y)
}

func runChild() {
	var spec Spec
	if err := json.NewDecoder(os.Stdin).Decode(&spec); err != nil {
		fmt.Fprintln(os.Stderr, "child: bad spec:", err)
		os.Exit(3)
	}
	// the code under test prints through zap to stderr and scan results to stdout: keep our protocol
	// on the original stdout and give the code under test /dev/null
	realStdout := os.Stdout
	if devnull, err := os.OpenFile(os.DevNull, os.O_WRONLY, 0); err == nil {
		os.Stdout = devnull
	}
	w := bufio.NewWriterSize(realStdout, 1<<20)
	defer w.Flush()
	put := func(v interface{}) {
		b, _ := json.Marshal(v)
		w.Write(b)
		w.WriteByte('\n')
	}

	cfg := CfgOut{Kind: "cfg", ID: spec.ID, Seed: spec.Seed, Class: spec.Class, Cmds: spec.Cmds}
	for _, c := range spec.Cmds {
		if err := ipCmd(c); err != nil {
			cfg.CmdFails = append(cfg.CmdFails, err.Error())
		}
	}
	attachTuns() // gives the tun devices carrier; done before the configuration is read back
	var rows []CaseOut
	for attempt := 0; attempt < 4; attempt++ {
		ifs, rts, err := readBack()
		if err != nil {
			fmt.Fprintln(os.Stderr, "child: read back:", err)
			os.Exit(3)
		}
		cfg.Ifaces, cfg.Routes, cfg.Routes6 = ifs, rts, readBack6()
		cacheFile := writeArpCache(rts, spec.Cases)
		rows = rows[:0]
		for n, ci := range spec.Cases {
			rows = append(rows, runCase(spec.ID, n, ci, cacheFile, ifs))
		}
		os.Remove(cacheFile)
		ifs2, rts2, err := readBack()
		if err == nil && sameJSON(ifs, ifs2) && sameJSON(rts, rts2) {
			cfg.Unstable = false
			break
		}
		cfg.Unstable = true // the kernel changed the configuration under us (e.g. autoconf): measure again
		time.Sleep(100 * time.Millisecond)
	}
	put(cfg)
	for _, r := range rows {
		put(r)
	}
}

// synthetic ARP cache: every gateway g of the route table has the MAC 02:00:g, so the gatewayMAC the
// real getGatewayMAC finds tells which gateway GetDefaultGatewayIP returned
func writeArpCache(rts []RouteOut, cases []CaseIn) string {
	f, err := os.CreateTemp("", "c17-arp-*.jsonl")
	if err != nil {
		return os.DevNull
	}
	defer f.Close()
	seen := map[string]bool{}
	for _, r := range rts {
		g, _ := hex.DecodeString(r.Gw)
		if len(g) != 4 || seen[r.Gw] {
			continue
		}
		seen[r.Gw] = true
		fmt.Fprintf(f, "{\"ip\":\"%s\",\"mac\":\"02:00:%02x:%02x:%02x:%02x\"}\n", net.IP(g).String(), g[0], g[1], g[2], g[3])
	}
	// the targets of the icmp runs (entry 3) need a destination MAC too
	for _, c := range cases {
		g := net.ParseIP(c.Target).To4()
		if c.Entry != 3 || g == nil || seen[hex.EncodeToString(g)] {
			continue
		}
		seen[hex.EncodeToString(g)] = true
		fmt.Fprintf(f, "{\"ip\":\"%s\",\"mac\":\"02:00:%02x:%02x:%02x:%02x\"}\n", g.String(), g[0], g[1], g[2], g[3])
	}
	return f.Name()
}

func runCase(id, n int, ci CaseIn, cacheFile string, ifs []IfaceOut) CaseOut {
	o := CaseOut{Kind: "case", ID: id, N: n, CaseIn: ci}
	var argv []string
	if ci.Iface != "" {
		argv = append(argv, "--iface", ci.Iface)
	}
	if ci.SrcIP != "" {
		argv = append(argv, "--srcip", ci.SrcIP)
		if p := net.ParseIP(strings.TrimSpace(ci.SrcIP)); p != nil { // what pflag's ipValue.Set stores
			o.SrcIPIn = hexp(p)
		}
	}
	if ci.SrcMAC != "" {
		argv = append(argv, "--srcmac", ci.SrcMAC)
		if m, err := net.ParseMAC(ci.SrcMAC); err == nil {
			o.SrcMACIn = hexp(m)
		}
	}
	if ci.Target == "" {
		o.DstNil = true
	} else {
		// what Go's parsers make of the argument (the model's input) ...
		if _, n, err := net.ParseCIDR(ci.Target); err == nil {
			o.TxtKind, o.TxtIP, o.TxtMask = "cidr", hex.EncodeToString(n.IP), hex.EncodeToString(n.Mask)
		} else if a, err := netip.ParseAddr(ci.Target); err == nil {
			o.TxtKind, o.TxtIs4, o.TxtIP = "addr", a.Is4(), hex.EncodeToString(a.AsSlice())
		} else {
			o.TxtKind = "junk"
		}
		// ... and what the real ParseIPNet decides on it
		if dst, err := sxip.ParseIPNet(ci.Target); err == nil {
			o.DstIP, o.DstMask = hex.EncodeToString(dst.IP), hex.EncodeToString(dst.Mask)
		} else {
			o.DstRefused = true
		}
	}
	var res command.VerifC17Result
	switch ci.Entry {
	case 0:
		if ci.Target != "" {
			argv = append(argv, ci.Target)
		}
		res = command.VerifC17ScanRange(argv)
	case 1:
		argv = append(argv, "--arp-cache", cacheFile)
		if ci.Target != "" {
			argv = append(argv, ci.Target)
		} else {
			argv = append(argv, "--file", os.DevNull)
		}
		res = command.VerifC17IPScan(argv)
	case 2, 3:
		return runWire(o, argv, ifs, cacheFile)
	}
	o.Err = res.ErrClass
	if res.Err != nil {
		o.ErrText = res.Err.Error()
		if errors.Is(res.Err, sxip.ErrInvalidAddr) {
			o.Err = "badtarget"
		}
		return o
	}
	o.IfIndex, o.IfName = res.IfaceIndex, res.IfaceName
	o.SrcIP, o.SrcMAC = hexp(res.SrcIP), hexp(res.SrcMAC)
	o.VPN, o.GwMAC = res.VPNMode, hexp(res.GatewayMAC)
	return o
}

// ---------------------------------------------------------------------------- parent

func probeNamespaces() error {
	cmd := exec.Command("/proc/self/exe", "-probe")
	cmd.SysProcAttr = &syscall.SysProcAttr{Cloneflags: syscall.CLONE_NEWNET}
	out, err := cmd.CombinedOutput()
	if err != nil {
		return fmt.Errorf("%v: %s", err, strings.TrimSpace(string(out)))
	}
	return nil
}

func runProbe() {
	// inside a fresh namespace: only lo may exist, and veth + tun must be creatable
	ifs, err := net.Interfaces()
	if err != nil || len(ifs) > 1 {
		fmt.Println("not a fresh network namespace")
		os.Exit(1)
	}
	if err := ipCmd([]string{"link", "add", "pa0", "type", "veth", "peer", "name", "pb0"}); err != nil {
		fmt.Println(err)
		os.Exit(1)
	}
	if err := ipCmd([]string{"tuntap", "add", "dev", "ptun0", "mode", "tun"}); err != nil {
		fmt.Println(err)
		os.Exit(1)
	}
}

func runSpec(spec *Spec, timeout time.Duration) ([]json.RawMessage, error) {
	in, _ := json.Marshal(spec)
	cmd := exec.Command("/proc/self/exe", "-child")
	cmd.SysProcAttr = &syscall.SysProcAttr{Cloneflags: syscall.CLONE_NEWNET, Pdeathsig: syscall.SIGKILL}
	cmd.Stdin = bytes.NewReader(in)
	var stdout, stderr bytes.Buffer
	cmd.Stdout, cmd.Stderr = &stdout, &stderr
	if err := cmd.Start(); err != nil {
		return nil, err
	}
	done := make(chan error, 1)
	go func() { done <- cmd.Wait() }()
	select {
	case err := <-done:
		if err != nil {
			return nil, fmt.Errorf("child for config %d: %v: %s", spec.ID, err, tail(stderr.String(), 600))
		}
	case <-time.After(timeout):
		cmd.Process.Kill()
		return nil, fmt.Errorf("child for config %d timed out", spec.ID)
	}
	if os.Getenv("C17_DEBUG") != "" {
		os.Stderr.Write(stderr.Bytes())
	}
	var rows []json.RawMessage
	sc := bufio.NewScanner(&stdout)
	sc.Buffer(make([]byte, 1<<20), 1<<26)
	for sc.Scan() {
		if len(bytes.TrimSpace(sc.Bytes())) > 0 {
			rows = append(rows, json.RawMessage(append([]byte(nil), sc.Bytes()...)))
		}
	}
	return rows, nil
}

func tail(s string, n int) string {
	if len(s) > n {
		return s[len(s)-n:]
	}
	return s
}

func main() {
	out := flag.String("out", "cases.jsonl", "output JSONL")
	seed := flag.Int64("seed", 1, "seed")
	n := flag.Int("n", 25, "number of configurations")
	jobs := flag.Int("jobs", 4, "children run in parallel")
	child := flag.Bool("child", false, "internal: run inside the fresh namespace")
	probe := flag.Bool("probe", false, "internal: namespace probe")
	runcmd := flag.Bool("runcmd", false, "internal: one sx command line run in its own process")
	specFile := flag.String("spec", "", "run exactly the spec(s) in this JSON file (replay)")
	wire := flag.Int("wire", 0, "per configuration, number of arp command runs observed on the wire (entry 2)")
	corpus := flag.String("corpus", "", "directory of spec files run before the generated configurations")
	dump := flag.Bool("dumpspecs", false, "print the generated specs instead of running them")
	flag.Parse()
	if *probe {
		runProbe()
		return
	}
	if *child {
		runChild()
		return
	}
	if *runcmd {
		runCmdMode()
		return
	}
	o := hlib.NewOut(*out)
	defer o.Close()
	if err := probeNamespaces(); err != nil {
		o.Put(map[string]interface{}{"kind": "skipped", "why": "private network namespaces are not available: " + err.Error()})
		return
	}
	var specs []*Spec
	if *specFile != "" {
		b, err := os.ReadFile(*specFile)
		if err != nil {
			fmt.Fprintln(os.Stderr, err)
			os.Exit(2)
		}
		var one Spec
		if err := json.Unmarshal(b, &one); err == nil && len(one.Cmds)+len(one.Cases) > 0 {
			specs = append(specs, &one)
		} else if err := json.Unmarshal(b, &specs); err != nil {
			fmt.Fprintln(os.Stderr, "bad spec file:", err)
			os.Exit(2)
		}
	} else {
		if *corpus != "" {
			files, _ := filepath.Glob(filepath.Join(*corpus, "*.json"))
			sort.Strings(files)
			for _, f := range files {
				b, err := os.ReadFile(f)
				var one Spec
				if err == nil {
					err = json.Unmarshal(b, &one)
				}
				if err != nil {
					fmt.Fprintln(os.Stderr, "bad corpus file", f, err)
					os.Exit(2)
				}
				specs = append(specs, &one)
			}
		}
		for i := 0; i < *n; i++ {
			specs = append(specs, genSpec(*seed, i, *wire))
		}
	}
	if *dump {
		enc := json.NewEncoder(os.Stdout)
		for _, s := range specs {
			enc.Encode(s)
		}
		return
	}
	results := make([][]json.RawMessage, len(specs))
	errs := make([]error, len(specs))
	sem := make(chan struct{}, *jobs)
	var wg sync.WaitGroup
	for i := range specs {
		wg.Add(1)
		go func(i int) {
			defer wg.Done()
			sem <- struct{}{}
			defer func() { <-sem }()
			results[i], errs[i] = runSpec(specs[i], 120*time.Second)
		}(i)
	}
	wg.Wait()
	rc, nfail := 0, 0
	for i := range specs {
		if errs[i] != nil {
			// one configuration lost (the child died): recorded, the check decides what it means
			fmt.Fprintln(os.Stderr, errs[i])
			o.Put(map[string]interface{}{"kind": "childfail", "id": specs[i].ID, "why": tail(errs[i].Error(), 1500)})
			nfail++
			continue
		}
		for _, r := range results[i] {
			o.Put(r)
		}
	}
	if nfail*4 > len(specs) {
		rc = 1 // more than a quarter of the configurations lost: the run is not usable
	}
	if rc != 0 {
		o.Close()
		os.Exit(rc)
	}
}
