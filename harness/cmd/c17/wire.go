package main

import (
	"encoding/hex"
	"fmt"
	"os"
	"net"
	"sort"
	"syscall"
	"time"

	"github.com/v-byte-cpu/sx/command"
)

// Entry 2: run the REAL `sx arp` command inside the namespace for a single host target and watch
// every interface of the namespace with one AF_PACKET socket (protocol ARP, not bound to a device).
// The copies the kernel hands to packet sockets when a frame is transmitted (pkttype OUTGOING) say
// through which interface each ARP request left, with which Ethernet source, sender MAC and sender
// IP.  Only positive events are used: frames seen.  The command is given --exit-delay 60ms.

func htons(v uint16) uint16 { return v<<8 | v>>8 }

type arpFrame struct {
	ifindex  int
	outgoing bool
	ethSrc   []byte
	sha      []byte
	spa      []byte
	tpa      []byte
	op       int
	raw      []byte // the ARP body
}

func openCapture() (int, error) {
	fd, err := syscall.Socket(syscall.AF_PACKET, syscall.SOCK_RAW, int(htons(syscall.ETH_P_ARP)))
	if err != nil {
		return -1, err
	}
	tv := syscall.Timeval{Sec: 0, Usec: 120000}
	syscall.SetsockoptTimeval(fd, syscall.SOL_SOCKET, syscall.SO_RCVTIMEO, &tv)
	syscall.SetsockoptInt(fd, syscall.SOL_SOCKET, syscall.SO_RCVBUF, 1<<20)
	return fd, nil
}

func drain(fd int) []arpFrame {
	var out []arpFrame
	buf := make([]byte, 2048)
	for {
		n, from, err := syscall.Recvfrom(fd, buf, 0)
		if err != nil {
			return out // EAGAIN after the timeout: nothing more queued
		}
		ll, ok := from.(*syscall.SockaddrLinklayer)
		if !ok || n < 14+28 {
			continue
		}
		b := buf[:n]
		if b[12] != 0x08 || b[13] != 0x06 {
			continue
		}
		a := b[14:]
		f := arpFrame{ifindex: ll.Ifindex, outgoing: ll.Pkttype == 4,
			ethSrc: append([]byte(nil), b[6:12]...), op: int(a[6])<<8 | int(a[7]),
			sha: append([]byte(nil), a[8:14]...), spa: append([]byte(nil), a[14:18]...), tpa: append([]byte(nil), a[24:28]...), raw: append([]byte(nil), a...)}
		out = append(out, f)
	}
}

func allZero(b []byte) bool {
	for _, x := range b {
		if x != 0 {
			return false
		}
	}
	return true
}

func uniq(xs []string) []string {
	m := map[string]bool{}
	var out []string
	for _, x := range xs {
		if !m[x] {
			m[x] = true
			out = append(out, x)
		}
	}
	sort.Strings(out)
	return out
}

func runWire(o CaseOut, argv []string, ifs []IfaceOut) CaseOut {
	// what will the option code choose? (the same real code, entry 0) -- only to decide whether
	// the engine can start at all on that interface; it is NOT what gets compared
	pre := command.VerifC17ScanRange(append(append([]string{}, argv...), o.Target))
	byName := map[string]IfaceOut{}
	byIndex := map[int]IfaceOut{}
	for _, f := range ifs {
		byName[f.Name], byIndex[f.Index] = f, f
	}
	if pre.Err == nil && pre.SrcMAC != nil {
		f, ok := byName[pre.IfaceName]
		if !ok || !f.Up || f.MAC == nil || f.Peer == 0 || !byIndex[f.Peer].Up {
			o.Err, o.ErrText = "wire-skip", "the chosen interface (or its veth peer) is down or not a veth: nothing can be observed"
			return o
		}
	}
	tip := net.ParseIP(o.Target).To4()
	fd, err := openCapture()
	if err != nil {
		o.Err, o.ErrText = "wire-skip", "capture socket: "+err.Error()
		return o
	}
	defer syscall.Close(fd)
	args := append(append([]string{}, argv...), "--exit-delay", "60ms", o.Target)
	errRun := command.VerifC17RunARP(args)
	time.Sleep(20 * time.Millisecond)
	frames := drain(fd)
	if os.Getenv("C17_DEBUG") != "" {
		for _, f := range frames {
			fmt.Fprintf(os.Stderr, "frame if=%d out=%v op=%d src=%x sha=%x spa=%x tpa=%x\n", f.ifindex, f.outgoing, f.op, f.ethSrc, f.sha, f.spa, f.tpa)
		}
		fmt.Fprintf(os.Stderr, "run err=%v frames=%d\n", errRun, len(frames))
	}
	o.Err = command.VerifC17ErrClass(errRun)
	if errRun != nil {
		o.ErrText = errRun.Error()
	}
	w := &WireOut{}
	var outIf []int
	for _, f := range frames {
		// frames RECEIVED on an interface left through its veth peer (sx transmits through a TX ring
		// that bypasses the packet taps of the sending device, so no OUTGOING copies exist)
		if f.op != 1 || f.outgoing || tip == nil {
			continue
		}
		spa := hex.EncodeToString(f.spa)
		switch {
		case net.IP(f.tpa).Equal(tip):
		case net.IP(f.raw[20:24]).Equal(tip) && allZero(f.raw[14:20]):
			// a 24-byte ARP body: the sender protocol address is missing altogether (nil SrcIP)
			spa = "nil"
		default:
			continue
		}
		w.Frames++
		sender := byIndex[f.ifindex].Peer
		outIf = append(outIf, sender)
		w.SrcMACs = append(w.SrcMACs, hex.EncodeToString(f.ethSrc))
		w.ArpSHA = append(w.ArpSHA, hex.EncodeToString(f.sha))
		w.ArpSPA = append(w.ArpSPA, spa)
	}
	w.SrcMACs, w.ArpSHA, w.ArpSPA = uniq(w.SrcMACs), uniq(w.ArpSHA), uniq(w.ArpSPA)
	seen := map[int]bool{}
	for _, x := range outIf {
		if !seen[x] {
			seen[x] = true
			w.Others = append(w.Others, byIndex[x].Name)
		}
	}
	sort.Strings(w.Others)
	o.Wire = w
	if errRun != nil {
		return o
	}
	// the observation proper: the interface the frames left through and the source they carried
	if len(w.Others) == 1 && len(w.SrcMACs) == 1 && len(w.ArpSHA) == 1 && len(w.ArpSPA) == 1 && w.SrcMACs[0] == w.ArpSHA[0] {
		f := byName[w.Others[0]]
		o.IfIndex, o.IfName = f.Index, f.Name
		o.SrcMAC = &w.ArpSHA[0]
		if w.ArpSPA[0] != "nil" {
			o.SrcIP = &w.ArpSPA[0]
		}
		w.On = f.Name
	} else if w.Frames == 0 {
		o.Err, o.ErrText = "wire-noframes", "the arp command succeeded but no ARP request for the target was seen on any interface"
	} else {
		o.Err, o.ErrText = "wire-mixed", "ARP requests left through several interfaces or with several sources"
	}
	return o
}
