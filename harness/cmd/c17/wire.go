package main

import (
	"bytes"
	"encoding/hex"
	"encoding/json"
	"errors"
	"fmt"
	"net"
	"os"
	"os/exec"
	"sort"
	"strings"
	"syscall"
	"time"
	"unsafe"

	"github.com/v-byte-cpu/sx/command"
	sxip "github.com/v-byte-cpu/sx/pkg/ip"
)

// Entries 2 and 3: run the REAL `sx arp` / `sx icmp` command inside the namespace for a single host
// target and watch the virtual wires:
//   * one AF_PACKET socket (all protocols, not bound to a device) sees every frame RECEIVED by an
//     interface of the namespace; a frame received by one end of a veth pair left through the other
//     end (sx transmits through a TX ring that bypasses the packet taps of the sending device, so
//     there are no OUTGOING copies to look at);
//   * every tun device is attached to (TUNSETIFF) when the child starts, which gives it carrier;
//     whatever is sent out through a tun device is read from its file descriptor, as raw bytes.
// Only positive events are used: frames seen.  The command itself runs in a process of its own
// (same namespace), because the engine of the code under test runs goroutines that cannot be
// recovered when they crash.  The command is given --exit-delay 60ms.

func htons(v uint16) uint16 { return v<<8 | v>>8 }

// the port the tcp / udp commands of entry 3 probe
const wirePort = 80

// IPLevelCommands is the whole family that shares ipScanCmdOpts.parseOptions: every one of them has
// its own RunE and its own way of handing vpnMode to its packet filler.
var IPLevelCommands = []string{"icmp", "udp", "tcp", "tcp syn", "tcp --flags fin,ack", "tcp fin", "tcp null", "tcp xmas"}

type wireFrame struct {
	ifindex int    // interface that received the frame (veth) or tun it was read from
	tun     bool   // read from a tun device: raw bytes as written by the sender
	ethSrc  []byte // nil for tun
	kind    string // "arp", "icmp", "other"
	srcIP   []byte // ARP sender protocol address / IPv4 source; nil = absent
	sha     []byte // ARP sender hardware address
	dstIP   []byte
}

var tunFiles = map[int]*os.File{} // ifindex -> attached tun device

func attachTun(name string) (*os.File, error) {
	fd, err := syscall.Open("/dev/net/tun", syscall.O_RDWR|syscall.O_NONBLOCK, 0)
	if err != nil {
		return nil, err
	}
	var ifr [40]byte
	copy(ifr[:15], name)
	*(*uint16)(unsafe.Pointer(&ifr[16])) = syscall.IFF_TUN | syscall.IFF_NO_PI
	if _, _, e := syscall.Syscall(syscall.SYS_IOCTL, uintptr(fd), uintptr(syscall.TUNSETIFF), uintptr(unsafe.Pointer(&ifr[0]))); e != 0 {
		syscall.Close(fd)
		return nil, e
	}
	return os.NewFile(uintptr(fd), "tun:"+name), nil
}

// attachTuns is called once per child, before the configuration is read back.
func attachTuns() {
	ifs, _ := net.Interfaces()
	for _, f := range ifs {
		if f.HardwareAddr == nil && f.Flags&net.FlagPointToPoint != 0 && f.Flags&net.FlagLoopback == 0 {
			if t, err := attachTun(f.Name); err == nil {
				tunFiles[f.Index] = t
			}
		}
	}
}

func openCapture() (int, error) {
	fd, err := syscall.Socket(syscall.AF_PACKET, syscall.SOCK_RAW, int(htons(syscall.ETH_P_ALL)))
	if err != nil {
		return -1, err
	}
	tv := syscall.Timeval{Sec: 0, Usec: 120000}
	syscall.SetsockoptTimeval(fd, syscall.SOL_SOCKET, syscall.SO_RCVTIMEO, &tv)
	syscall.SetsockoptInt(fd, syscall.SOL_SOCKET, syscall.SO_RCVBUF, 1<<20)
	return fd, nil
}

func parseIPv4(p []byte, f *wireFrame) bool {
	if len(p) < 20 || p[0]>>4 != 4 {
		return false
	}
	f.srcIP, f.dstIP = append([]byte(nil), p[12:16]...), append([]byte(nil), p[16:20]...)
	ihl := int(p[0]&15) * 4
	switch {
	case p[9] == 1 && len(p) >= ihl+8 && p[ihl] == 8:
		f.kind = "icmp"
	case p[9] == 6 && len(p) >= ihl+20 && int(p[ihl+2])<<8|int(p[ihl+3]) == wirePort:
		f.kind = "tcp"
	case p[9] == 17 && len(p) >= ihl+8 && int(p[ihl+2])<<8|int(p[ihl+3]) == wirePort:
		f.kind = "udp"
	}
	return true
}

func drainSocket(fd int, tip net.IP) []wireFrame {
	var out []wireFrame
	buf := make([]byte, 4096)
	for {
		n, from, err := syscall.Recvfrom(fd, buf, 0)
		if err != nil {
			return out // EAGAIN after the timeout: nothing more queued
		}
		ll, ok := from.(*syscall.SockaddrLinklayer)
		if !ok || ll.Pkttype == 4 || n < 14 {
			continue
		}
		b := buf[:n]
		f := wireFrame{ifindex: ll.Ifindex, ethSrc: append([]byte(nil), b[6:12]...), kind: "other"}
		switch {
		case b[12] == 0x08 && b[13] == 0x06 && n >= 14+24:
			a := b[14:]
			if int(a[6])<<8|int(a[7]) != 1 {
				continue // not a request (e.g. the kernel answering for an address it owns)
			}
			f.sha = append([]byte(nil), a[8:14]...)
			switch {
			case n >= 14+28 && net.IP(a[24:28]).Equal(tip):
				f.kind, f.srcIP, f.dstIP = "arp", append([]byte(nil), a[14:18]...), append([]byte(nil), a[24:28]...)
			case net.IP(a[20:24]).Equal(tip) && allZero(a[14:20]):
				// a 24-byte ARP body: the sender protocol address is missing altogether (nil SrcIP)
				f.kind, f.srcIP, f.dstIP = "arp", nil, append([]byte(nil), a[20:24]...)
			default:
				continue
			}
		case b[12] == 0x08 && b[13] == 0x00:
			if !parseIPv4(b[14:], &f) || !net.IP(f.dstIP).Equal(tip) {
				continue
			}
		default:
			continue
		}
		out = append(out, f)
	}
}

func drainTuns(tip net.IP) ([]wireFrame, []string) {
	var out []wireFrame
	var garbage []string
	buf := make([]byte, 4096)
	for idx, t := range tunFiles {
		for {
			n, err := syscall.Read(int(t.Fd()), buf)
			if err != nil || n <= 0 {
				break
			}
			f := wireFrame{ifindex: idx, tun: true, kind: "other"}
			if parseIPv4(buf[:n], &f) {
				if net.IP(f.dstIP).Equal(tip) {
					out = append(out, f)
				}
				continue
			}
			if buf[0]>>4 == 6 {
				continue // IPv6 chatter of the kernel (router solicitations)
			}
			garbage = append(garbage, fmt.Sprintf("%d bytes not starting with an IPv4 header read from tun index %d: %s", n, idx, hex.EncodeToString(buf[:minInt(n, 34)])))
		}
	}
	return out, garbage
}

func allZero(b []byte) bool {
	for _, x := range b {
		if x != 0 {
			return false
		}
	}
	return true
}

func uniq(xs []string) []string {
	m := map[string]bool{}
	var out []string
	for _, x := range xs {
		if !m[x] {
			m[x] = true
			out = append(out, x)
		}
	}
	sort.Strings(out)
	return out
}

type cmdJob struct {
	Argv []string `json:"argv"`
}

type cmdResult struct {
	Err  string `json:"err"`
	Text string `json:"text"`
}

// runCommandIsolated runs one sx command line in a process of its own (same namespace).
func runCommandIsolated(argv []string) (cmdResult, string) {
	in, _ := json.Marshal(cmdJob{Argv: argv})
	cmd := exec.Command("/proc/self/exe", "-runcmd")
	cmd.SysProcAttr = &syscall.SysProcAttr{Pdeathsig: syscall.SIGKILL}
	cmd.Stdin = bytes.NewReader(in)
	var stdout, stderr bytes.Buffer
	cmd.Stdout, cmd.Stderr = &stdout, &stderr
	if err := cmd.Start(); err != nil {
		return cmdResult{}, "cannot start the command process: " + err.Error()
	}
	done := make(chan error, 1)
	go func() { done <- cmd.Wait() }()
	select {
	case err := <-done:
		if err != nil {
			return cmdResult{}, fmt.Sprintf("%v: %s", err, head(stripLogs(stderr.String()), 1800))
		}
	case <-time.After(30 * time.Second):
		cmd.Process.Kill()
		return cmdResult{}, "the command did not return within 30 s"
	}
	var res cmdResult
	if err := json.Unmarshal(bytes.TrimSpace(stdout.Bytes()), &res); err != nil {
		return cmdResult{}, "bad output of the command process: " + head(stdout.String(), 300)
	}
	return res, ""
}

func runCmdMode() {
	var job cmdJob
	if err := json.NewDecoder(os.Stdin).Decode(&job); err != nil {
		fmt.Fprintln(os.Stderr, "runcmd: bad job:", err)
		os.Exit(3)
	}
	realStdout := os.Stdout
	if devnull, err := os.OpenFile(os.DevNull, os.O_WRONLY, 0); err == nil {
		os.Stdout = devnull
	}
	err := command.VerifC17RunCommand(job.Argv)
	res := cmdResult{Err: command.VerifC17ErrClass(err)}
	if err != nil {
		res.Text = err.Error()
		if errors.Is(err, sxip.ErrInvalidAddr) {
			res.Err = "badtarget"
		}
	}
	b, _ := json.Marshal(res)
	realStdout.Write(append(b, '\n'))
}

func head(s string, n int) string {
	if len(s) > n {
		return s[:n]
	}
	return s
}

// zap writes JSON log lines to stderr: drop them, keep the crash report
func stripLogs(s string) string {
	var keep []string
	for _, l := range strings.Split(s, "\n") {
		if !strings.HasPrefix(l, "{\"level\"") {
			keep = append(keep, l)
		}
	}
	return strings.Join(keep, "\n")
}

func runWire(o CaseOut, argv []string, ifs []IfaceOut, cacheFile string) CaseOut {
	byName := map[string]IfaceOut{}
	byIndex := map[int]IfaceOut{}
	for _, f := range ifs {
		byName[f.Name], byIndex[f.Index] = f, f
	}
	tip := net.ParseIP(o.Target).To4()
	// What will the option code choose? (the same real code, entries 0/1) -- used ONLY to decide
	// whether anything can be observed at all on that interface; it is NOT what gets compared.
	var pre command.VerifC17Result
	var full []string
	want := "arp"
	if o.Entry == 2 {
		pre = command.VerifC17ScanRange(append(append([]string{}, argv...), o.Target))
		full = append(append([]string{"arp"}, argv...), "--exit-delay", "60ms", o.Target)
	} else {
		pre = command.VerifC17IPScan(append(append([]string{}, argv...), "--arp-cache", cacheFile, o.Target))
		words := strings.Fields(o.Cmd)
		if len(words) == 0 {
			words = []string{"icmp"}
		}
		want = words[0]
		full = append(append([]string{}, words...), argv...)
		if want != "icmp" {
			full = append(full, "-p", fmt.Sprint(wirePort))
		}
		full = append(full, "--arp-cache", cacheFile, "--exit-delay", "60ms", o.Target)
	}
	willSend := pre.Err == nil && (o.Entry == 3 || pre.SrcMAC != nil)
	if willSend {
		f, ok := byName[pre.IfaceName]
		_, isTun := tunFiles[f.Index]
		switch {
		case !ok || !f.Up:
			o.Err, o.ErrText = "wire-skip", "the chosen interface is down: the engine cannot send"
			return o
		case isTun && pre.SrcMAC != nil:
			o.Err, o.ErrText = "wire-skip", "--srcmac on a MAC-less tun device: Ethernet framing on a raw-IP device (see notes, deviation 4)"
			return o
		case isTun:
		case f.MAC == nil || f.Peer == 0 || !byIndex[f.Peer].Up:
			o.Err, o.ErrText = "wire-skip", "the chosen interface is neither a tun device nor a veth with its peer up: nothing can be observed"
			return o
		}
	}
	if tip == nil && !o.DstRefused {
		o.Err, o.ErrText = "wire-skip", "not a single host target"
		return o
	}
	fd, err := openCapture()
	if err != nil {
		o.Err, o.ErrText = "wire-skip", "capture socket: "+err.Error()
		return o
	}
	defer syscall.Close(fd)
	drainTuns(tip) // forget whatever was sent before this case
	res, crash := runCommandIsolated(full)
	time.Sleep(20 * time.Millisecond)
	frames := drainSocket(fd, tip)
	tframes, garbage := drainTuns(tip)
	frames = append(frames, tframes...)
	if crash != "" {
		o.Err, o.ErrText = "wire-crash", crash
		return o
	}
	o.Err, o.ErrText = res.Err, res.Text
	w := &WireOut{}
	var via []string
	rawIP := false
	for _, f := range frames {
		if f.kind != want {
			continue
		}
		w.Frames++
		if f.tun {
			via = append(via, byIndex[f.ifindex].Name)
			w.SrcMACs = append(w.SrcMACs, "nil")
			rawIP = true
		} else {
			via = append(via, byIndex[byIndex[f.ifindex].Peer].Name)
			w.SrcMACs = append(w.SrcMACs, hex.EncodeToString(f.ethSrc))
		}
		if f.sha != nil {
			w.ArpSHA = append(w.ArpSHA, hex.EncodeToString(f.sha))
		}
		if f.srcIP == nil {
			w.ArpSPA = append(w.ArpSPA, "nil")
		} else {
			w.ArpSPA = append(w.ArpSPA, hex.EncodeToString(f.srcIP))
		}
	}
	w.SrcMACs, w.ArpSHA, w.ArpSPA, w.Others = uniq(w.SrcMACs), uniq(w.ArpSHA), uniq(w.ArpSPA), uniq(via)
	w.Garbage = garbage
	o.Wire = w
	if os.Getenv("C17_DEBUG") != "" {
		fmt.Fprintf(os.Stderr, "wire %v: err=%q frames=%d via=%v macs=%v src=%v garbage=%v\n", full, res.Err, w.Frames, w.Others, w.SrcMACs, w.ArpSPA, garbage)
	}
	if res.Err != "" {
		return o
	}
	// the observation proper: the interface the probes left through and the source they carried
	consistent := len(w.Others) == 1 && len(w.SrcMACs) == 1 && len(w.ArpSPA) == 1 && (want != "arp" || (len(w.ArpSHA) == 1 && w.ArpSHA[0] == w.SrcMACs[0]))
	switch {
	case len(garbage) > 0 && w.Frames == 0:
		o.Err, o.ErrText = "wire-garbage", garbage[0]
	case w.Frames == 0:
		o.Err, o.ErrText = "wire-noframes", "the command succeeded but no probe for the target was seen on any interface"
	case !consistent:
		o.Err, o.ErrText = "wire-mixed", "probes left through several interfaces or with several sources"
	default:
		f := byName[w.Others[0]]
		o.IfIndex, o.IfName, w.On = f.Index, f.Name, f.Name
		if w.SrcMACs[0] != "nil" {
			o.SrcMAC = &w.SrcMACs[0]
		}
		if w.ArpSPA[0] != "nil" {
			o.SrcIP = &w.ArpSPA[0]
		}
		o.VPN = rawIP
	}
	return o
}
