package main

import (
	"fmt"
	"net"
	"strconv"
	"strings"

	"verifharness/hlib"
)

// Generator of host configurations and of the cases run inside each.  Every random choice comes
// from one SplitMix64 stream derived from (-seed, configuration number).

type gAddr struct {
	ip   net.IP
	plen int
	v6   bool
	peer string // point-to-point peer address ("" = none)
}

type gIface struct {
	name  string
	kind  string // veth, vethpeer, tun, lo
	up    bool
	addrs []gAddr
}

var v4Pool = []string{
	"10.1.0.0/16", "10.1.2.0/24", "10.1.2.128/25", "10.1.3.0/24", "10.0.0.0/8", "172.16.0.0/12",
	"172.16.5.0/24", "192.168.5.0/24", "192.168.5.64/26", "100.64.0.0/10", "10.1.2.0/23",
}

var v6Pool = []string{"2001:db8:1::/64", "2001:db8:2::/48", "fd00:aa::/32", "2001:db8:1:0:8000::/65"}

var namePool = []string{"eth0", "eth1", "wan0", "lan7", "ens3", "vx2", "uplink", "br9", "wlp2s0"}

func randHost(r *hlib.SplitMix64, cidr string) (net.IP, int) {
	_, n, _ := net.ParseCIDR(cidr)
	ones, bits := n.Mask.Size()
	ip := make(net.IP, len(n.IP))
	copy(ip, n.IP)
	rnd := r.Bytes(len(ip))
	for i := range ip {
		ip[i] |= rnd[i] &^ n.Mask[i]
	}
	// avoid the all-zero and all-one host parts
	last := len(ip) - 1
	if bits-ones >= 2 {
		ip[last] |= 1
		ip[last] &^= 2
	}
	return ip, ones
}

func genSpec(seed int64, i int, wire int) *Spec {
	r := hlib.NewRand(seed*1000003 + int64(i)*7919 + 17)
	s := &Spec{ID: i, Seed: seed}
	var ifs []*gIface
	class := ""

	// loopback
	lo := &gIface{name: "lo", kind: "lo", up: r.Intn(10) < 7}
	if lo.up {
		s.Cmds = append(s.Cmds, []string{"link", "set", "lo", "up"})
	}

	// veth pairs
	used := map[string]bool{}
	pick := func() string {
		for {
			n := namePool[r.Intn(len(namePool))]
			if !used[n] {
				used[n] = true
				return n
			}
		}
	}
	nveth := 1 + r.Intn(3)
	if i%9 == 8 {
		nveth = 0 // configurations without any Ethernet-like interface
	}
	for k := 0; k < nveth; k++ {
		a := &gIface{name: pick(), kind: "veth", up: r.Intn(100) < 88}
		b := &gIface{name: "p" + a.name, kind: "vethpeer", up: r.Intn(100) < 88}
		s.Cmds = append(s.Cmds, []string{"link", "add", a.name, "type", "veth", "peer", "name", b.name})
		ifs = append(ifs, a, b)
	}
	ntun := r.Intn(3)
	if nveth == 0 && ntun == 0 {
		ntun = 1
	}
	for k := 0; k < ntun; k++ {
		t := &gIface{name: fmt.Sprintf("tun%d", r.Intn(90)+k*100), kind: "tun", up: r.Intn(100) < 85}
		s.Cmds = append(s.Cmds, []string{"tuntap", "add", "dev", t.name, "mode", "tun"})
		ifs = append(ifs, t)
	}
	// random order of bringing links up decides nothing the model depends on, but vary it anyway
	for _, f := range ifs {
		if f.up {
			s.Cmds = append(s.Cmds, []string{"link", "set", f.name, "up"})
		}
	}
	// addresses
	shape := r.Intn(10)
	for _, f := range ifs {
		var n4, n6 int
		switch {
		case f.kind == "vethpeer":
			n4, n6 = r.Intn(2), r.Intn(2)
			if r.Intn(3) > 0 {
				n4 = 0
			}
		case shape == 0: // IPv6-only hosts
			n4, n6 = 0, 1+r.Intn(2)
		case shape == 1: // bare interfaces
			n4, n6 = r.Intn(2), 0
		default:
			n4, n6 = r.Intn(4), r.Intn(3)
		}
		for k := 0; k < n4; k++ {
			ip, pl := randHost(r, v4Pool[r.Intn(len(v4Pool))])
			ga := gAddr{ip: ip, plen: pl}
			if f.kind == "tun" && r.Intn(2) == 0 {
				p, _ := randHost(r, "10.8.0.0/24")
				ga.peer, ga.plen = p.String(), 32
			}
			f.addrs = append(f.addrs, ga)
		}
		for k := 0; k < n6; k++ {
			if r.Intn(8) == 0 {
				// IPv4-mapped IPv6 address: Go reports it as an IPv4 address with a 16-byte mask
				f.addrs = append(f.addrs, gAddr{ip: net.ParseIP("::ffff:10.9.9." + strconv.Itoa(1+r.Intn(250))), plen: 120, v6: true})
				continue
			}
			ip, pl := randHost(r, v6Pool[r.Intn(len(v6Pool))])
			f.addrs = append(f.addrs, gAddr{ip: ip, plen: pl, v6: true})
		}
		// order in which the addresses are configured
		for k := len(f.addrs) - 1; k > 0; k-- {
			j := r.Intn(k + 1)
			f.addrs[k], f.addrs[j] = f.addrs[j], f.addrs[k]
		}
		for _, a := range f.addrs {
			txt := a.ip.String()
			if a.v6 && a.ip.To4() != nil {
				txt = "::ffff:" + a.ip.To4().String()
			}
			c := []string{"addr", "add", txt + "/" + strconv.Itoa(a.plen), "dev", f.name}
			if a.peer != "" {
				c = []string{"addr", "add", txt, "peer", a.peer, "dev", f.name}
			}
			s.Cmds = append(s.Cmds, c)
		}
	}
	if lo.up && r.Intn(6) == 0 {
		s.Cmds = append(s.Cmds, []string{"addr", "add", "10.1.2.200/24", "dev", "lo"})
		lo.addrs = append(lo.addrs, gAddr{ip: net.ParseIP("10.1.2.200").To4(), plen: 24})
	}
	all := append([]*gIface{lo}, ifs...)

	// default routes (and a few others)
	metrics := []int64{0, 5, 5, 50, 100, 100, 600, 2147483646, 2147483647, 4294967295}
	nroutes := r.Intn(4)
	if i%7 == 3 {
		nroutes = 0
	}
	var v4ifs []*gIface
	for _, f := range ifs {
		for _, a := range f.addrs {
			if !a.v6 && f.up {
				v4ifs = append(v4ifs, f)
				break
			}
		}
	}
	for k := 0; k < nroutes; k++ {
		m := strconv.FormatInt(metrics[r.Intn(len(metrics))], 10)
		form := r.Intn(20)
		var dev *gIface
		if len(v4ifs) > 0 && r.Intn(5) > 0 {
			dev = v4ifs[r.Intn(len(v4ifs))]
		} else if len(ifs) > 0 {
			dev = ifs[r.Intn(len(ifs))]
		}
		switch {
		case form == 0:
			s.Cmds = append(s.Cmds, []string{"route", "append", "blackhole", "default", "metric", m})
			class += "B"
		case form == 1 && len(v4ifs) >= 2:
			a, b := v4ifs[0], v4ifs[1]
			s.Cmds = append(s.Cmds, []string{"route", "append", "default", "metric", m,
				"nexthop", "via", gwOf(r, a), "dev", a.name, "onlink", "nexthop", "via", gwOf(r, b), "dev", b.name, "onlink"})
			class += "M"
		case dev == nil:
		case form <= 4:
			s.Cmds = append(s.Cmds, []string{"route", "append", "default", "dev", dev.name, "metric", m})
			class += "D"
		case form <= 7 && firstV4(dev) != nil:
			s.Cmds = append(s.Cmds, []string{"route", "append", "default", "via", gwOf(r, dev), "dev", dev.name, "onlink",
				"src", firstV4(dev).String(), "metric", m})
			class += "S"
		default:
			s.Cmds = append(s.Cmds, []string{"route", "append", "default", "via", gwOf(r, dev), "dev", dev.name, "onlink", "metric", m})
			class += "G"
		}
	}
	if len(v4ifs) > 0 && r.Intn(3) == 0 {
		d := v4ifs[r.Intn(len(v4ifs))]
		s.Cmds = append(s.Cmds, []string{"route", "append", "203.0.113.0/24", "via", gwOf(r, d), "dev", d.name, "onlink", "metric", "1"})
	}
	if len(v4ifs) > 0 && r.Intn(6) == 0 {
		d := v4ifs[r.Intn(len(v4ifs))]
		s.Cmds = append(s.Cmds, []string{"route", "append", "default", "via", gwOf(r, d), "dev", d.name, "onlink", "metric", "1", "table", "100"})
	}
	// IPv6 default routes (own random stream, so that everything else of a configuration stays what it
	// was): on the interface of an IPv4 default route and on other interfaces, with lower and higher
	// metrics than the IPv4 ones.  They are invisible to RouteList(nil, FAMILY_V4) and must not matter.
	r6 := hlib.NewRand(seed*7000003 + int64(i)*104729 + 41)
	var upifs []*gIface
	for _, f := range ifs {
		if f.up {
			upifs = append(upifs, f)
		}
	}
	n6 := 0
	if len(upifs) > 0 && r6.Intn(10) < 7 {
		n6 = 1 + r6.Intn(2)
	}
	m6 := []string{"1", "3", "20", "49", "99", "256", "1024"}
	for k := 0; k < n6; k++ {
		d := upifs[r6.Intn(len(upifs))]
		c := []string{"-6", "route", "append", "default", "dev", d.name, "metric", m6[r6.Intn(len(m6))]}
		if r6.Intn(2) == 0 {
			c = []string{"-6", "route", "append", "default", "via", "fe80::1", "dev", d.name, "metric", m6[r6.Intn(len(m6))]}
		}
		s.Cmds = append(s.Cmds, c)
		class += "6"
	}
	s.Class = fmt.Sprintf("veth%d-tun%d-routes[%s]-shape%d", nveth, ntun, class, shape)

	// ------------------------------------------------------------------ targets
	type tgt struct{ s, class string }
	var tgts []tgt
	var a4, a6 []gAddr
	for _, f := range all {
		for _, a := range f.addrs {
			if a.v6 && a.ip.To4() == nil {
				a6 = append(a6, a)
			} else if !a.v6 {
				a4 = append(a4, a)
			}
		}
	}
	cidr := func(ip net.IP, pl int) string { return ip.String() + "/" + strconv.Itoa(pl) }
	if len(a4) > 0 {
		a := a4[r.Intn(len(a4))]
		base := a.ip.Mask(net.CIDRMask(a.plen, 32))
		if a.peer != "" {
			base = net.ParseIP(a.peer).To4()
		}
		tgts = append(tgts, tgt{cidr(base, a.plen), "attached-net"})
		b := a4[r.Intn(len(a4))]
		h, _ := randHost(r, cidr(b.ip.Mask(net.CIDRMask(b.plen, 32)), b.plen))
		tgts = append(tgts, tgt{h.String(), "attached-host"})
		c := a4[r.Intn(len(a4))]
		if c.plen > 2 {
			sp := c.plen - 1 - r.Intn(minInt(c.plen-1, 9))
			// the target is written with host bits set: ParseCIDR masks them
			tgts = append(tgts, tgt{cidr(c.ip, sp), "supernet"})
		}
		d := a4[r.Intn(len(a4))]
		if d.plen < 30 {
			tgts = append(tgts, tgt{cidr(d.ip, d.plen+1+r.Intn(30-d.plen)), "subnet"})
		}
	} else {
		tgts = append(tgts, tgt{"10.1.2.0/24", "unattached"})
	}
	un := []string{"203.0.113.0/24", "8.8.8.8", "10.1.2.0/24", "192.168.5.77", "0.0.0.0/0", "127.0.0.1", "10.9.9.0/24", "10.8.0.0/24",
		// refused by ParseIPNet: IPv4-mapped IPv6 forms, a zoned address, text that is no address
		"::ffff:10.9.9.0/120", "::ffff:10.1.2.3", "fe80::1%lo", "10.1.2.0/33", "example.org"}
	tgts = append(tgts, tgt{un[r.Intn(len(un))], "fixed"})
	tgts = append(tgts, tgt{"", "no-target"})
	switch {
	case len(a6) > 0 && r.Intn(3) > 0:
		a := a6[r.Intn(len(a6))]
		tgts = append(tgts, tgt{cidr(a.ip.Mask(net.CIDRMask(a.plen, 128)), a.plen), "v6-attached-net"})
	case r.Intn(2) == 0:
		tgts = append(tgts, tgt{"fe80::/64", "v6-linklocal"})
	default:
		tgts = append(tgts, tgt{"2001:db8:1::5", "v6-host"})
	}

	// ------------------------------------------------------------------ cases: all 8 flag combinations
	rz := hlib.NewRand(seed*9000011 + int64(i)*15485863 + 5)
	for _, t := range tgts {
		ifn := all[r.Intn(len(all))].name
		if r.Intn(12) == 0 {
			ifn = "nosuch0"
		}
		srcip := fmt.Sprintf("198.51.100.%d", 1+r.Intn(250))
		switch r.Intn(8) {
		case 0:
			srcip = "2001:db8::99"
		case 1:
			srcip = "::ffff:192.0.2.7" // IPv4-mapped text form
		}
		// the unspecified address given explicitly is still an explicit --srcip: used as given (0.0.0.0 in both
		// textual forms) or refused (::); own random stream, so that everything else stays what it was
		if rz.Intn(5) == 0 {
			srcip = []string{"0.0.0.0", "::ffff:0.0.0.0", "::", "0.0.0.0"}[rz.Intn(4)]
		}
		mb := r.Bytes(6)
		mb[0] = mb[0]&^1 | 2
		srcmac := net.HardwareAddr(mb).String()
		for combo := 0; combo < 8; combo++ {
			ci := CaseIn{Target: t.s, TClass: t.class}
			if combo&1 != 0 {
				ci.Iface = ifn
			}
			if combo&2 != 0 {
				ci.SrcIP = srcip
			}
			if combo&4 != 0 {
				ci.SrcMAC = srcmac
			}
			for entry := 0; entry < 2; entry++ {
				c := ci
				c.Entry = entry
				s.Cases = append(s.Cases, c)
			}
		}
	}
	// ------------------------------------------------------------------ wire cases (entry 2): the arp command
	for k := 0; k < wire; k++ {
		var cand []string
		for _, a := range a4 {
			if a.peer == "" && a.plen <= 30 {
				h, _ := randHost(r, cidr(a.ip.Mask(net.CIDRMask(a.plen, 32)), a.plen))
				if !h.Equal(a.ip) {
					cand = append(cand, h.String())
				}
			}
		}
		for _, a := range a4 {
			if a.peer != "" {
				cand = append(cand, a.peer)
			}
		}
		cand = append(cand, "203.0.113.9")
		ci := CaseIn{Entry: 2 + k%2, Target: cand[r.Intn(len(cand))], TClass: "wire-arp"}
		if ci.Entry == 3 {
			// every command of the ip-level family in turn (no random draw: the rest of the configuration stays)
			ci.Cmd = IPLevelCommands[(i+k/2)%len(IPLevelCommands)]
			ci.TClass = "wire-" + strings.Fields(ci.Cmd)[0]
		}
		combo := r.Intn(8)
		if combo&1 != 0 {
			ci.Iface = all[r.Intn(len(all))].name
		}
		if combo&2 != 0 {
			ci.SrcIP = fmt.Sprintf("198.51.100.%d", 1+r.Intn(250))
			if r.Intn(6) == 0 {
				ci.SrcIP = "2001:db8::99"
			}
		}
		if combo&4 != 0 {
			mb := r.Bytes(6)
			mb[0] = mb[0]&^1 | 2
			ci.SrcMAC = net.HardwareAddr(mb).String()
		}
		s.Cases = append(s.Cases, ci)
	}
	return s
}

func minInt(a, b int) int {
	if a < b {
		return a
	}
	return b
}

func firstV4(f *gIface) net.IP {
	for _, a := range f.addrs {
		if !a.v6 {
			return a.ip
		}
	}
	return nil
}

// a gateway address: inside the first IPv4 network of the interface when it has one
func gwOf(r *hlib.SplitMix64, f *gIface) string {
	for _, a := range f.addrs {
		if !a.v6 && a.peer == "" {
			h, _ := randHost(r, a.ip.Mask(net.CIDRMask(a.plen, 32)).String()+"/"+strconv.Itoa(a.plen))
			return h.String()
		}
	}
	return fmt.Sprintf("192.0.2.%d", 1+r.Intn(250))
}
