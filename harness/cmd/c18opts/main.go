// Driver for the option-plumbing stage of C18: every command that accepts both -p/--ports and
// --ports-file (tcp and its subcommands, udp, socks, docker, elastic) is given the COMBINATION of a
// port list and a ports file on its own flag set, its own parseRawOptions runs (through the add-only
// hook command/verif_export_c18opts.go, build tag verif), and the port ranges the command would scan
// are recorded.  Every random choice derives from -seed.
package main

import (
	"encoding/hex"
	"encoding/json"
	"flag"
	"fmt"
	"os"
	"path/filepath"
	"strconv"
	"strings"

	"github.com/v-byte-cpu/sx/command"
	"verifharness/hlib"
)

type row struct {
	Kind    string   `json:"kind"` // "optcombo"
	Class   string   `json:"class"`
	Cmd     string   `json:"cmd"`
	HasList bool     `json:"has_list"`
	HasFile bool     `json:"has_file"`
	List    string   `json:"list"` // hex of the text given to -p
	File    string   `json:"file"` // hex of the content of the ports file
	Mode    int      `json:"mode"` // spelling and order of the two options
	Argv    []string `json:"argv"`
	Ok      bool     `json:"ok"`
	Panic   string   `json:"panic,omitempty"`
	Nums    []int64  `json:"nums"`
}

var rnd *hlib.SplitMix64
var fileNo int

func run(class, cmd string, hasList, hasFile bool, list string, file []byte, mode int) row {
	r := row{Kind: "optcombo", Class: class, Cmd: cmd, HasList: hasList, HasFile: hasFile, List: hex.EncodeToString([]byte(list)),
		File: hex.EncodeToString(file), Mode: mode, Nums: []int64{}}
	var la, fa []string
	if hasList {
		switch mode % 4 {
		case 0:
			la = []string{"-p", list}
		case 1:
			la = []string{"--ports", list}
		case 2:
			la = []string{"--ports=" + list}
		default:
			la = []string{"-p" + list}
		}
	}
	if hasFile {
		fileNo++
		path, err := filepath.Abs(fmt.Sprintf("optcombo-ports-%d.txt", fileNo))
		if err != nil {
			panic(err)
		}
		if err := os.WriteFile(path, file, 0o644); err != nil {
			panic(err)
		}
		defer os.Remove(path)
		if mode/4%2 == 0 {
			fa = []string{"--ports-file", path}
		} else {
			fa = []string{"--ports-file=" + path}
		}
	}
	if mode/8%2 == 0 {
		r.Argv = append(append(r.Argv, la...), fa...)
	} else {
		r.Argv = append(append(r.Argv, fa...), la...)
	}
	func() {
		defer func() {
			if e := recover(); e != nil {
				r.Panic, r.Ok = fmt.Sprint(e), false
			}
		}()
		ps, err := command.VerifC18ParsedPorts(cmd, append([]string{}, r.Argv...))
		if r.Ok = err == nil; r.Ok {
			for _, p := range ps {
				r.Nums = append(r.Nums, int64(p.StartPort), int64(p.EndPort))
			}
		}
	}()
	return r
}

func pick(xs ...string) string { return xs[rnd.Intn(len(xs))] }

func randPort() int {
	switch rnd.Intn(6) {
	case 0:
		return []int{0, 1, 22, 80, 443, 1023, 1024, 8080, 65534, 65535}[rnd.Intn(10)]
	case 1:
		return rnd.Intn(1024)
	default:
		return rnd.Intn(65536)
	}
}

func randRange() string {
	a := randPort()
	if rnd.Intn(2) == 0 {
		return strconv.Itoa(a)
	}
	b := randPort()
	if a > b {
		a, b = b, a
	}
	return strconv.Itoa(a) + "-" + strconv.Itoa(b)
}

func randList() string {
	k := 1 + rnd.Intn(4)
	parts := make([]string, k)
	for i := range parts {
		parts[i] = randRange()
	}
	return strings.Join(parts, ",")
}

func commentLine() string {
	return pick("", "  ", "# comment", " #x", "#", "   # 80", "# 1-65535") + pick("\n", "\r\n")
}

// randFile: shape 0 ranges (with comments and blanks in between), 1 only comments and blanks, 2 empty,
// 3 ranges with one line that is no port range
func randFile(shape int) []byte {
	var b []byte
	switch shape {
	case 2:
		return nil
	case 1:
		for i, k := 0, 1+rnd.Intn(3); i < k; i++ {
			b = append(b, commentLine()...)
		}
		return b
	}
	k := 1 + rnd.Intn(4)
	badAt := rnd.Intn(k)
	for j := 0; j < k; j++ {
		if rnd.Intn(4) == 0 {
			b = append(b, commentLine()...)
		}
		t := randRange()
		if shape == 3 && j == badAt {
			t = pick("x", "65536", "80-", "-80", "80-x", "8 0", "70000-70001", "+80")
		}
		b = append(b, pick("", "", " ", "   ")...)
		b = append(b, t...)
		b = append(b, pick("", "", " ", "  # c", "#c", " #")...)
		if j == k-1 && rnd.Bool() {
			break
		}
		b = append(b, pick("\n", "\n", "\r\n")...)
	}
	return b
}

func main() {
	outPath := flag.String("out", "optcombo.jsonl", "output file")
	seed := flag.Int64("seed", 1, "seed")
	n := flag.Int("n", 2, "rounds; every round gives every command every shape of the combination")
	one := flag.String("one", "", "replay: JSON {cmd,has_list,has_file,list,file,mode}")
	flag.Parse()
	rnd = hlib.NewRand(*seed)
	out := hlib.NewOut(*outPath)
	defer out.Close()
	if *one != "" {
		var q row
		if err := json.Unmarshal([]byte(*one), &q); err != nil {
			fmt.Fprintln(os.Stderr, err)
			os.Exit(2)
		}
		l, err1 := hex.DecodeString(q.List)
		f, err2 := hex.DecodeString(q.File)
		if err1 != nil || err2 != nil {
			fmt.Fprintln(os.Stderr, "bad hex")
			os.Exit(2)
		}
		r := run("replay", q.Cmd, q.HasList, q.HasFile, string(l), f, q.Mode)
		out.Put(r)
		b, _ := json.Marshal(r)
		fmt.Println(string(b))
		return
	}
	for i := 0; i < *n; i++ {
		for _, cmd := range command.VerifC18PortCommands {
			mode := func() int { return rnd.Intn(16) }
			out.Put(run("list+file", cmd, true, true, randList(), randFile(0), mode()))
			out.Put(run("list+comment-only-file", cmd, true, true, randList(), randFile(1), mode()))
			out.Put(run("list+empty-file", cmd, true, true, randList(), randFile(2), mode()))
			out.Put(run("list+bad-file", cmd, true, true, randList(), randFile(3), mode()))
			out.Put(run("bad-list+file", cmd, true, true, randList()+pick(",", ",x", ",65536", ",80-", "-"), randFile(0), mode()))
			out.Put(run("list-only", cmd, true, false, randList(), nil, mode()))
			out.Put(run("file-only", cmd, false, true, "", randFile(rnd.Intn(3)), mode()))
		}
	}
}
