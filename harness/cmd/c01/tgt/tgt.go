// Package tgt holds what the drivers of C01, C02 and C13 share: encoding of requests, error classes,
// channel draining with a watchdog, generators of target files, exclusion files and port lists.
package tgt

import (
	"bufio"
	"context"
	"encoding/hex"
	"errors"
	"fmt"
	"net"
	"os"
	"runtime"
	"strings"
	"time"

	"github.com/v-byte-cpu/sx/pkg/scan"
	"verifharness/hlib"
)

// Error classes; the numbers are those of gerr_class in coq/Spec/C02.v.
const (
	ENone      = 0
	EPortRange = 1
	ESubnet    = 2
	EIP        = 3
	EPort      = 4
	EJSON      = 5
	ETooLong   = 6
	EOpen      = 7
	ERangeSize = 8
	EGroup     = 9
	EContains  = 11
	ENoMAC     = 12
	EOther     = 99
)

var ClassName = map[int]string{ENone: "", EPortRange: "invalid port range", ESubnet: "invalid subnet", EIP: "invalid ip",
	EPort: "invalid port", EJSON: "invalid json", ETooLong: "line too long", EOpen: "cannot open", ERangeSize: "range size",
	EGroup: "invalid cyclic group", EContains: "exclusion lookup failed", ENoMAC: "no destination MAC", EOther: "other"}

func ErrClass(err error) int {
	if err == nil {
		return ENone
	}
	var pe *os.PathError
	switch {
	case errors.Is(err, scan.ErrPortRange):
		return EPortRange
	case errors.Is(err, scan.ErrSubnet):
		return ESubnet
	case errors.Is(err, scan.ErrIP):
		return EIP
	case errors.Is(err, scan.ErrPort):
		return EPort
	case errors.Is(err, scan.ErrJSON):
		return EJSON
	case errors.Is(err, bufio.ErrTooLong):
		return ETooLong
	case errors.As(err, &pe):
		return EOpen
	case errors.Is(err, scan.VerifErrRangeSize()):
		return ERangeSize
	}
	msg := err.Error()
	// ipError / portError embed the cause without an Unwrap method: fall back to the message
	switch msg {
	case scan.ErrPortRange.Error():
		return EPortRange
	case scan.ErrSubnet.Error():
		return ESubnet
	case scan.ErrIP.Error():
		return EIP
	case scan.ErrPort.Error():
		return EPort
	case scan.ErrJSON.Error():
		return EJSON
	case bufio.ErrTooLong.Error():
		return ETooLong
	case scan.VerifErrRangeSize().Error():
		return ERangeSize
	}
	switch {
	case strings.HasPrefix(msg, "invalid cyclic group"):
		return EGroup
	case strings.Contains(msg, "nvalid network number input"):
		return EContains
	case strings.HasPrefix(msg, "no destination MAC address"):
		return ENoMAC
	}
	return EOther
}

// Req is the projection of scan.Request that is compared.
type Req struct {
	IP   []byte
	Port uint16
	Err  int
	MAC  []byte
	Msg  string
}

func FromRequest(r *scan.Request) Req {
	q := Req{IP: append([]byte(nil), r.DstIP...), Port: r.DstPort, Err: ErrClass(r.Err), MAC: append([]byte(nil), r.DstMAC...)}
	if r.Err != nil {
		q.Msg = r.Err.Error()
	}
	return q
}

// Encode packs requests: len(ip) ip... port_hi port_lo err len(mac) mac...
func Encode(rs []Req) []byte {
	var b []byte
	for _, r := range rs {
		b = append(b, byte(len(r.IP)))
		b = append(b, r.IP...)
		b = append(b, byte(r.Port>>8), byte(r.Port), byte(r.Err), byte(len(r.MAC)))
		b = append(b, r.MAC...)
	}
	return b
}

func Hex(b []byte) string { return hex.EncodeToString(b) }

// Drain reads a request channel until it is closed, limit requests were read, or nothing arrives for 10 s.
func Drain(ch <-chan *scan.Request, limit int) (rs []Req, complete bool, stuck bool) {
	for limit <= 0 || len(rs) < limit {
		select {
		case r, ok := <-ch:
			if !ok {
				return rs, true, false
			}
			rs = append(rs, FromRequest(r))
		case <-time.After(10 * time.Second):
			return rs, false, true
		}
	}
	return rs, false, false
}

// MockReqGen replays a fixed list of requests.
type MockReqGen struct{ Reqs []*scan.Request }

func (m *MockReqGen) GenerateRequests(ctx context.Context, _ *scan.Range) (<-chan *scan.Request, error) {
	out := make(chan *scan.Request, 10)
	go func() {
		defer close(out)
		for _, r := range m.Reqs {
			c := *r
			select {
			case out <- &c:
			case <-ctx.Done():
				return
			}
		}
	}()
	return out, nil
}

// ---------------------------------------------------------------- nets

type Net struct {
	IP   []byte `json:"-"`
	Mask []byte `json:"-"`
}

func (n Net) IPNet() *net.IPNet { return &net.IPNet{IP: net.IP(n.IP), Mask: net.IPMask(n.Mask)} }

func U32(v uint32) []byte { return []byte{byte(v >> 24), byte(v >> 16), byte(v >> 8), byte(v)} }

// RandNet4 returns a.b.c.d/k, aligned or not.
func RandNet4(r *hlib.SplitMix64, kmin, kmax int, aligned bool) (uint32, int) {
	k := kmin + r.Intn(kmax-kmin+1)
	a := uint32(r.Uint64())
	switch r.Intn(6) {
	case 0:
		a = 0
	case 1:
		a = 0xffffffff
	case 2:
		a = 0xffffff00 | uint32(r.Intn(256))
	}
	if aligned && k < 32 {
		a &^= (uint32(1) << uint(32-k)) - 1
	} else if aligned && k == 0 {
		a = 0
	}
	if k == 0 && aligned {
		a = 0
	}
	return a, k
}

func Dotted(a uint32) string {
	return fmt.Sprintf("%d.%d.%d.%d", a>>24, (a>>16)&255, (a>>8)&255, a&255)
}

// ---------------------------------------------------------------- port ranges

// RandRanges returns n valid port ranges: singletons, adjacent, overlapping, 0 and 65535 ends; total is
// the number of ports they denote (with multiplicity), kept below maxPorts.
func RandRanges(r *hlib.SplitMix64, n int, maxPorts int) ([]*scan.PortRange, int) {
	var rs []*scan.PortRange
	total := 0
	var last uint16
	for i := 0; i < n; i++ {
		budget := (maxPorts - total) / (n - i)
		if budget < 1 {
			budget = 1
		}
		w := 1
		if budget > 1 && r.Intn(3) != 0 {
			w = 1 + r.Intn(budget)
			if w > 40 && r.Intn(4) != 0 {
				w = 1 + r.Intn(40)
			}
		}
		var s uint16
		switch r.Intn(7) {
		case 0:
			s = 0
		case 1:
			s = uint16(65535 - (w - 1))
		case 2:
			if i > 0 {
				s = last + 1 // adjacent to the previous one
			} else {
				s = uint16(r.Intn(65536))
			}
		case 3:
			if i > 0 {
				s = last // overlapping the previous one
			} else {
				s = uint16(r.Intn(65536))
			}
		default:
			s = uint16(r.Intn(65536))
		}
		if int(s)+w-1 > 65535 {
			s = uint16(65535 - (w - 1))
		}
		e := s + uint16(w-1)
		rs = append(rs, &scan.PortRange{StartPort: s, EndPort: e})
		last = e
		total += w
	}
	return rs, total
}

func RangesJSON(rs []*scan.PortRange) [][2]int {
	out := make([][2]int, 0, len(rs))
	for _, r := range rs {
		out = append(out, [2]int{int(r.StartPort), int(r.EndPort)})
	}
	return out
}

// ---------------------------------------------------------------- exclusion files

// ExclLine is one generated line of an exclusion file with the meaning it has by construction.
type ExclLine struct {
	Text string
	// Meaning: "net" (Base/Prefix valid), "skip" (blank or comment only), "bad" (must be rejected)
	Meaning string
	Base    uint32
	Prefix  int
}

// RandExclude builds an exclusion file around the target net a/k: hosts and CIDRs inside, covering and
// outside it, nested and overlapping, comments, blank lines, spaces; withBad adds a line that must be refused.
func RandExclude(r *hlib.SplitMix64, a uint32, k int, n int, withBad bool) []ExclLine {
	var ls []ExclLine
	host := uint32(0)
	if k < 32 {
		host = (uint32(1) << uint(32-k)) - 1
	}
	base := a &^ host
	if k == 0 {
		base, host = 0, 0xffffffff
	}
	badAt := -1
	if withBad {
		badAt = r.Intn(n)
	}
	for i := 0; i < n; i++ {
		if i == badAt {
			bad := []string{"abc", "10.0.0.256", "1.2.3.4/33", "::1", "::/96", "2001:db8::/120", "::ffff:1.2.3.4", "1.2.3.4/24/8",
				"\t10.0.0.1", "10.0.0.1\t", "1.2.3", "1.2.3.4.5", "fe80::1%eth0", "::ffff:10.0.0.0/120", "10.0.0.1 10.0.0.2"}
			ls = append(ls, ExclLine{Text: bad[r.Intn(len(bad))], Meaning: "bad"})
			continue
		}
		switch r.Intn(10) {
		case 0:
			ls = append(ls, ExclLine{Text: "", Meaning: "skip"})
			continue
		case 1:
			ls = append(ls, ExclLine{Text: strings.Repeat(" ", r.Intn(4)) + "# " + Dotted(uint32(r.Uint64())), Meaning: "skip"})
			continue
		case 2:
			ls = append(ls, ExclLine{Text: strings.Repeat(" ", 1+r.Intn(5)), Meaning: "skip"})
			continue
		}
		var b uint32
		var p int
		switch r.Intn(6) {
		case 0, 1: // a host inside the target
			b, p = base|(uint32(r.Uint64())&host), 32
		case 2: // a sub-block of the target
			p = k + r.Intn(32-k+1)
			b = base | (uint32(r.Uint64()) & host)
		case 3: // a block that covers (part of) the target from above
			p = r.Intn(k + 1)
			if p == 0 && r.Intn(4) != 0 {
				p = k
			}
			b = base | (uint32(r.Uint64()) & host)
		case 4: // unrelated
			b, p = uint32(r.Uint64()), 8+r.Intn(25)
		default: // neighbour just outside
			b, p = base+host+1+uint32(r.Intn(3)), 32
			if r.Bool() {
				b = base - 1 - uint32(r.Intn(3))
			}
		}
		text := Dotted(b)
		if p < 32 || r.Intn(4) == 0 {
			text = fmt.Sprintf("%s/%d", Dotted(b), p)
		}
		text = strings.Repeat(" ", r.Intn(3)) + text + strings.Repeat(" ", r.Intn(3))
		if r.Intn(5) == 0 {
			text += "# note"
		}
		ls = append(ls, ExclLine{Text: text, Meaning: "net", Base: b, Prefix: p})
	}
	return ls
}

func netLine(r *hlib.SplitMix64, b uint32, p int) ExclLine {
	// the address part may be any address of the block (the parser masks it), or the bare host form for /32
	w := b
	if p < 32 && r.Intn(3) == 0 {
		w = b | (uint32(r.Uint64()) & ((uint32(1) << uint(32-p)) - 1))
	}
	text := fmt.Sprintf("%s/%d", Dotted(w), p)
	if p == 32 && r.Intn(3) != 0 {
		text = Dotted(w)
	}
	text = strings.Repeat(" ", r.Intn(3)) + text + strings.Repeat(" ", r.Intn(3))
	if r.Intn(6) == 0 {
		text += "# note"
	}
	return ExclLine{Text: text, Meaning: "net", Base: w, Prefix: p}
}

// RandExcludeNested builds an exclusion file out of FAMILIES of related entries inside the target net a/k
// (k <= 28): chains of 2..4 nested blocks sharing the network address / sharing the last address / strictly
// interior, in narrow-first, wide-first and shuffled order; duplicates; host-then-net and net-then-host with
// the host at the first, the last or an interior address; adjacent siblings with or without their parent.
// The widest block of every family lies inside the target, so the scanned range reaches into every
// difference between a narrower and a wider entry.
func RandExcludeNested(r *hlib.SplitMix64, a uint32, k int, families int) []ExclLine {
	host := (uint32(1) << uint(32-k)) - 1
	base := a &^ host
	var ls []ExclLine
	order := func(f []ExclLine) []ExclLine {
		switch r.Intn(3) {
		case 0: // as built: narrow first
		case 1: // wide first
			for i, j := 0, len(f)-1; i < j; i, j = i+1, j-1 {
				f[i], f[j] = f[j], f[i]
			}
		default:
			for i := len(f) - 1; i > 0; i-- {
				j := r.Intn(i + 1)
				f[i], f[j] = f[j], f[i]
			}
		}
		return f
	}
	for fi := 0; fi < families; fi++ {
		// the widest block of the family: prefix pw in [k, 30], somewhere inside the target
		pw := k + r.Intn(31-k)
		wsize := uint32(1) << uint(32-pw)
		nb := base + (uint32(r.Uint64())&host)&^(wsize-1)
		var f []ExclLine
		switch r.Intn(7) {
		case 0, 1: // chain sharing the network address (narrow ... wide)
			ps := []int{pw}
			for p := pw; len(ps) < 2+r.Intn(3) && p < 32; {
				p += 1 + r.Intn(32-p)
				ps = append(ps, p)
			}
			for i := len(ps) - 1; i >= 0; i-- {
				f = append(f, netLine(r, nb, ps[i]))
			}
			if len(f) == 1 {
				f = append([]ExclLine{netLine(r, nb, 32)}, f...)
			}
		case 2: // chain sharing the last address
			last := nb + wsize - 1
			ps := []int{pw}
			for p := pw; len(ps) < 2+r.Intn(3) && p < 32; {
				p += 1 + r.Intn(32-p)
				ps = append(ps, p)
			}
			for i := len(ps) - 1; i >= 0; i-- {
				sz := uint32(1) << uint(32-ps[i])
				f = append(f, netLine(r, last&^(sz-1), ps[i]))
			}
		case 3: // strictly interior narrower block(s)
			f = append(f, netLine(r, nb, pw))
			for j := 0; j < 1+r.Intn(2) && pw < 31; j++ {
				p := pw + 2 + r.Intn(31-pw)
				if p > 32 {
					p = 32
				}
				sz := uint32(1) << uint(32-p)
				inner := nb + sz + (uint32(r.Uint64())%(wsize-2*sz+1))&^(sz-1)
				f = append([]ExclLine{netLine(r, inner, p)}, f...)
			}
		case 4: // host and net: host at the first, the last or an interior address
			h := nb
			switch r.Intn(3) {
			case 1:
				h = nb + wsize - 1
			case 2:
				h = nb + uint32(r.Uint64())%wsize
			}
			f = []ExclLine{netLine(r, h, 32), netLine(r, nb, pw)}
		case 5: // duplicates
			l := netLine(r, nb, pw)
			f = []ExclLine{l, netLine(r, nb, pw)}
			if r.Bool() {
				f = append(f, netLine(r, nb, 32))
			}
		default: // adjacent siblings, with or without the parent
			if pw == 32 {
				pw = 31
				nb &^= 1
				wsize = 2
			}
			half := wsize / 2
			if half == 0 {
				half = 1
			}
			f = []ExclLine{netLine(r, nb, pw+1), netLine(r, nb+half, pw+1)}
			if r.Bool() {
				f = append(f, netLine(r, nb, pw))
			}
			if r.Intn(3) == 0 && nb+wsize > nb {
				f = append(f, netLine(r, nb+wsize, pw)) // the neighbour of the parent
			}
		}
		ls = append(ls, order(f)...)
		// unrelated material between families
		switch r.Intn(5) {
		case 0:
			ls = append(ls, ExclLine{Text: "", Meaning: "skip"})
		case 1:
			ls = append(ls, ExclLine{Text: "# " + Dotted(uint32(r.Uint64())), Meaning: "skip"})
		case 2:
			ls = append(ls, netLine(r, uint32(r.Uint64()), 8+r.Intn(25)))
		}
	}
	return ls
}

func JoinLines(ls []ExclLine) string {
	var sb strings.Builder
	for _, l := range ls {
		sb.WriteString(l.Text)
		sb.WriteByte('\n')
	}
	return sb.String()
}

// Covered reports whether address x is covered by an exclusion list (by the meaning of its lines).
func Covered(ls []ExclLine, x uint32) bool {
	for _, l := range ls {
		if l.Meaning != "net" {
			continue
		}
		if l.Prefix == 0 {
			return true
		}
		sh := uint(32 - l.Prefix)
		if x>>sh == l.Base>>sh {
			return true
		}
	}
	return false
}

// Settle waits until the goroutines of earlier cases are gone (a cancelled port generator keeps drawing
// from the global math/rand source while it winds down, which would disturb the next seeded case).
func Settle(base int) {
	deadline := time.Now().Add(3 * time.Second)
	for runtime.NumGoroutine() > base && time.Now().Before(deadline) {
		runtime.Gosched()
		time.Sleep(20 * time.Microsecond)
	}
}
