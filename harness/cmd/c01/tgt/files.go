package tgt

import (
	"fmt"
	"io"
	"net"
	"os"
	"strings"

	"github.com/v-byte-cpu/sx/pkg/scan"
	"github.com/v-byte-cpu/sx/pkg/scan/arp"
	"verifharness/hlib"
)

// Line is one generated line of a target file together with the outcome it has BY CONSTRUCTION
// (the model's LJson / LBad / LTooLong).
type Line struct {
	Text  string
	Class string
	// Kind: 0 LBad, 1 LTooLong, 2 LJson
	Kind int
	// IPF: 0 no "ip" member, 1 an "ip" string net.ParseIP rejects, 2 parsed (IP holds the 16 bytes)
	IPF int
	IP  []byte
	// PortF: 0 no "port" member, 1 present (Port)
	PortF int
	Port  int64
}

// Enc packs a line outcome: kind ipf [16 bytes] portf [sign b7 .. b0] (the magnitude of the port value in 8 bytes)
func (l Line) Enc() []byte {
	b := []byte{byte(l.Kind)}
	if l.Kind != 2 {
		return b
	}
	b = append(b, byte(l.IPF))
	if l.IPF == 2 {
		b = append(b, byte(len(l.IP)))
		b = append(b, l.IP...)
	}
	b = append(b, byte(l.PortF))
	if l.PortF == 1 {
		v, s := uint64(l.Port), byte(0)
		if l.Port < 0 {
			v, s = uint64(-l.Port), 1
		}
		b = append(b, s, byte(v>>56), byte(v>>48), byte(v>>40), byte(v>>32), byte(v>>24), byte(v>>16), byte(v>>8), byte(v))
	}
	return b
}

func EncLines(ls []Line) []byte {
	var b []byte
	for _, l := range ls {
		b = append(b, l.Enc()...)
	}
	return b
}

func FileText(ls []Line) string {
	var sb strings.Builder
	for i, l := range ls {
		sb.WriteString(l.Text)
		if i < len(ls)-1 || l.Class != "no-final-newline" {
			sb.WriteByte('\n')
		}
	}
	return sb.String()
}

var badIPs = []string{"", "1.2.3", "abc", "1.2.3.256", "1.2.3.4/24", " 1.2.3.4", "01.2.3.4", "1.2.3.4.5", "1.2.3.4 ", "fe80::1%eth0", ":::", "1..2.3"}

// out-of-range ports, also values that are a valid port only after truncation to 16 or 32 bits
var badPorts = []int64{0, 65536, -1, 100000, 2147483647, -65535, 65537, 1 << 32, 1<<32 + 80, 1<<32 + 443, 1<<32 + 65535, 1<<32 + 1,
	1<<63 - 1, -(1 << 32) + 80, 1<<16 + 22, 1<<48 + 8080, -(1 << 16) + 80, 1 << 31, 1<<31 + 80}
var badJSON = []string{"{", `{"ip":`, `[1,2]`, `"str"`, `123`, `{"ip":"1.2.3.4","port":80}x`, `{'ip':'1.2.3.4'}`, `{"ip":"1.2.3.4" "port":80}`,
	`{"ip":"1.2.3.4","port":80`, `}`, `{"ip":"1.2.3.4","port":80}}`, `{"ip":"1.2.3.4",}`, `{,}`, `{"ip"}`, `tru`, `{"ip":"1.2.3.4","port":}`}
var badType = []string{`{"ip":5,"port":80}`, `{"ip":"1.2.3.4","port":"80"}`, `{"ip":"1.2.3.4","port":1.5}`, `{"ip":"1.2.3.4","port":1e2}`,
	`{"ip":"1.2.3.4","port":99999999999999999999}`, `{"ip":["1.2.3.4"],"port":80}`, `{"ip":{"a":1},"port":80}`, `{"ip":true,"port":80}`,
	`{"ip":"1.2.3.4","port":true}`, `{"ip":"1.2.3.4","port":[80]}`, `{"ip":"1.2.3.4","port":-}`}

// ipText renders an address the way a user may write it; the parsed form is always what net.ParseIP returns.
func ipText(r *hlib.SplitMix64, a uint32) (string, []byte) {
	ip := net.IP(U32(a)).To16()
	switch r.Intn(8) {
	case 0:
		return "::ffff:" + Dotted(a), ip
	case 1:
		return fmt.Sprintf("::ffff:%x:%x", a>>16, a&0xffff), ip
	}
	return Dotted(a), ip
}

// RandLine generates a line of the wanted class; addrs is the pool valid entries draw their address from.
func RandLine(r *hlib.SplitMix64, class string, addr uint32) Line {
	l := Line{Class: class, Kind: 2}
	txt, ip := ipText(r, addr)
	port := int64(1 + r.Intn(65535))
	switch r.Intn(6) {
	case 0:
		port = 1
	case 1:
		port = 65535
	}
	okLine := func(ipTxt string, p int64) string {
		switch r.Intn(6) {
		case 0:
			return fmt.Sprintf(`{"port":%d,"ip":"%s"}`, p, ipTxt)
		case 1:
			return fmt.Sprintf(` { "ip" : "%s" , "port" : %d } `, ipTxt, p)
		case 2:
			return fmt.Sprintf(`{"x":{"y":[1,2,{"z":null}]},"ip":"%s","n":"s","port":%d,"t":true}`, ipTxt, p)
		}
		return fmt.Sprintf(`{"ip":"%s","port":%d}`, ipTxt, p)
	}
	switch class {
	case "valid":
		l.Text, l.IPF, l.IP, l.PortF, l.Port = okLine(txt, port), 2, ip, 1, port
	case "valid6":
		v6 := net.ParseIP("2001:db8::1")
		v6[15] = byte(r.Intn(256))
		l.Text, l.IPF, l.IP, l.PortF, l.Port = okLine(v6.String(), port), 2, []byte(v6), 1, port
	case "crlf":
		l.Text, l.IPF, l.IP, l.PortF, l.Port = fmt.Sprintf(`{"ip":"%s","port":%d}`, txt, port)+"\r", 2, ip, 1, port
	case "dupkey":
		l.Text = fmt.Sprintf(`{"ip":"9.9.9.9","ip":"%s","port":1,"port":%d}`, txt, port)
		l.IPF, l.IP, l.PortF, l.Port = 2, ip, 1, port
	case "escaped":
		// the address written with JSON escapes
		esc := ""
		for _, ch := range txt {
			esc += fmt.Sprintf(`\u%04x`, ch)
		}
		l.Text, l.IPF, l.IP, l.PortF, l.Port = fmt.Sprintf(`{"ip":"%s","port":%d}`, esc, port), 2, ip, 1, port
	case "noip":
		if r.Bool() {
			l.Text = fmt.Sprintf(`{"port":%d}`, port)
		} else {
			l.Text = fmt.Sprintf(`{"ip":null,"port":%d}`, port)
		}
		l.IPF, l.PortF, l.Port = 0, 1, port
	case "noport":
		if r.Bool() {
			l.Text = fmt.Sprintf(`{"ip":"%s"}`, txt)
		} else {
			l.Text = fmt.Sprintf(`{"ip":"%s","port":null}`, txt)
		}
		l.IPF, l.IP, l.PortF = 2, ip, 0
	case "empty-object":
		l.Text = []string{"{}", "null", " {} ", `{"other":1}`}[r.Intn(4)]
		l.IPF, l.PortF = 0, 0
	case "badip":
		b := badIPs[r.Intn(len(badIPs))]
		l.Text, l.IPF, l.PortF, l.Port = fmt.Sprintf(`{"ip":"%s","port":%d}`, b, port), 1, 1, port
	case "badport":
		p := badPorts[r.Intn(len(badPorts))]
		l.Text, l.IPF, l.IP, l.PortF, l.Port = okLine(txt, p), 2, ip, 1, p
	case "badtype":
		l.Text, l.Kind = badType[r.Intn(len(badType))], 0
	case "badjson":
		l.Text, l.Kind = badJSON[r.Intn(len(badJSON))], 0
	case "blank":
		l.Text, l.Kind = []string{"", " ", "\t", "   "}[r.Intn(4)], 0
	case "toolong":
		l.Text = fmt.Sprintf(`{"ip":"%s","port":%d,"pad":"%s"}`, txt, port, strings.Repeat("x", 66000+r.Intn(3000)))
		l.Kind = 1
	default:
		panic("unknown line class " + class)
	}
	return l
}

var GoodClasses = []string{"valid", "valid", "valid", "valid", "valid6", "crlf", "dupkey", "escaped"}
var BadClasses = []string{"noip", "noport", "empty-object", "badip", "badport", "badtype", "badjson", "blank", "toolong"}

// RandFile generates n lines: mostly valid ones from the address pool base..base+span-1, with nbad bad
// lines (of the given classes) at random positions.
func RandFile(r *hlib.SplitMix64, n int, base uint32, span int, nbad int, bad []string) []Line {
	ls := make([]Line, 0, n)
	pos := map[int]bool{}
	for len(pos) < nbad && len(pos) < n {
		pos[r.Intn(n)] = true
	}
	for i := 0; i < n; i++ {
		addr := base + uint32(r.Intn(span))
		if pos[i] {
			ls = append(ls, RandLine(r, bad[r.Intn(len(bad))], addr))
		} else {
			ls = append(ls, RandLine(r, GoodClasses[r.Intn(len(GoodClasses))], addr))
		}
	}
	return ls
}

// WriteTemp writes a file under dir and returns its path.
func WriteTemp(dir, name, content string) string {
	p := dir + "/" + name
	if err := os.WriteFile(p, []byte(content), 0o644); err != nil {
		panic(err)
	}
	return p
}

// WithStdin runs f with os.Stdin replaced by a pipe that delivers content and then EOF.
func WithStdin(content string, f func()) {
	pr, pw, err := os.Pipe()
	if err != nil {
		panic(err)
	}
	old := os.Stdin
	os.Stdin = pr
	go func() {
		pw.Write([]byte(content))
		pw.Close()
	}()
	defer func() {
		os.Stdin = old
		pr.Close()
	}()
	f()
}

// ---------------------------------------------------------------- ARP cache

type CacheEntry struct {
	IP  []byte
	MAC []byte
}

// RandCache builds an ARP cache over the address pool; gateway may be nil.
func RandCache(r *hlib.SplitMix64, base uint32, span int, n int, withGateway bool) (*arp.Cache, []CacheEntry, net.HardwareAddr) {
	c := arp.NewCache()
	var es []CacheEntry
	for i := 0; i < n; i++ {
		a := base + uint32(r.Intn(span))
		mac := net.HardwareAddr{2, byte(r.Intn(256)), byte(r.Intn(256)), byte(r.Intn(256)), byte(r.Intn(256)), byte(i)}
		ip := net.IP(U32(a))
		if r.Bool() {
			ip = ip.To16()
		}
		if r.Intn(5) == 0 {
			// an IPv6 neighbour (the family of the "valid6" target lines: sometimes a target, mostly a bystander)
			ip = net.ParseIP("2001:db8::1")
			ip[15] = byte(r.Intn(256))
			if r.Bool() {
				ip = net.ParseIP("fe80::1")
				ip[15] = byte(1 + r.Intn(200))
			}
		}
		c.Put(ip, mac)
		es = append(es, CacheEntry{IP: append([]byte(nil), ip...), MAC: append([]byte(nil), mac...)})
	}
	var gw net.HardwareAddr
	if withGateway {
		gw = net.HardwareAddr{0xee, 1, 2, 3, 4, 5}
	}
	return c, es, gw
}

// EncCache packs cache entries: n then per entry len(ip) ip 6 mac bytes; then len(gw) gw.
func EncCache(es []CacheEntry, gw net.HardwareAddr) []byte {
	b := []byte{byte(len(es))}
	for _, e := range es {
		b = append(b, byte(len(e.IP)))
		b = append(b, e.IP...)
		b = append(b, byte(len(e.MAC)))
		b = append(b, e.MAC...)
	}
	b = append(b, byte(len(gw)))
	b = append(b, gw...)
	return b
}

var _ = scan.ErrIP

// V4 is the number of an IPv4 address given in 4- or 16-byte form (0 when it is neither).
func V4(ip []byte) uint32 {
	a := net.IP(ip).To4()
	if a == nil {
		return 0
	}
	return uint32(a[0])<<24 | uint32(a[1])<<16 | uint32(a[2])<<8 | uint32(a[3])
}

// StringOpener opens a reader over a string.
func StringOpener(s string) func() (io.ReadCloser, error) {
	return func() (io.ReadCloser, error) { return io.NopCloser(strings.NewReader(s)), nil }
}
