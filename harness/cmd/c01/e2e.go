package main

// End-to-end runs: the unmodified sx binary in a private network namespace with a veth pair; a packet
// socket on the peer interface is the wire log.  This is the only place where the real engine start
// functions (startPortScanEngine with its chunk loop, startPacketScanEngine, afpacket, BPF) run.

import (
	"crypto/ecdsa"
	"crypto/elliptic"
	crand "crypto/rand"
	"crypto/tls"
	"crypto/x509"
	"encoding/hex"
	"encoding/json"
	"fmt"
	"math/big"
	"net"
	"net/http"
	"os"
	"os/exec"
	"os/signal"
	"sort"
	"strings"
	"sync"
	"syscall"
	"time"

	"verifharness/cmd/c01/tgt"
	"verifharness/hlib"
)

type e2eCase struct {
	Kind     string     `json:"kind"` // e2e
	Class    string     `json:"class"`
	Argv     []string   `json:"argv"`
	Stdin    string     `json:"stdin,omitempty"`
	Proto    string     `json:"proto"`
	Want     [][2]int64 `json:"want"` // address number, port: what the specification denotes, by construction
	NWant    int        `json:"nwant"`
	Frames   string     `json:"frames"` // sorted 6-byte keys seen on the wire
	NFrames  int        `json:"nframes"`
	RC       int        `json:"rc"`
	Stderr   string     `json:"stderr,omitempty"`
	Skipped  string     `json:"skipped,omitempty"`
	Seed     int64      `json:"case_seed"`
	Local    string     `json:"local,omitempty"`    // prefix made local to the namespace (application scans)
	Pin      bool       `json:"pin,omitempty"`      // run sx pinned to ONE cpu (runtime.NumCPU() == 1)
	Opt      string     `json:"opt,omitempty"`      // the option the case combines the exclusion file with
	Bad      string     `json:"bad,omitempty"`      // kind of the refused exclusion line
	Env      []string   `json:"env,omitempty"`      // extra environment of the sx process
	Decoy    string     `json:"decoy,omitempty"`    // hex key (address, port) of the decoy listener nothing may contact
	KillMS   int        `json:"kill_ms,omitempty"`  // interrupt sx after that long (live mode never ends by itself)
	SetSem   bool       `json:"set,omitempty"`      // judged as a set: every due key at least once, nothing else
	Redirect string     `json:"redirect,omitempty"` // the target listeners answer <code>:<Location>
	TLS      bool       `json:"tls,omitempty"`
	Inject   int        `json:"inject,omitempty"` // the far end answers that many TCP probes with a malformed SYN+ACK
}

// firstCPU is one CPU this process may run on (for taskset).
func firstCPU() string {
	b, _ := os.ReadFile("/proc/self/status")
	for _, l := range strings.Split(string(b), "\n") {
		if strings.HasPrefix(l, "Cpus_allowed_list:") {
			f := strings.TrimSpace(strings.TrimPrefix(l, "Cpus_allowed_list:"))
			f = strings.FieldsFunc(f, func(c rune) bool { return c == ',' || c == '-' })[0]
			return f
		}
	}
	return "0"
}

func htons(v uint16) uint16 { return v<<8 | v>>8 }

// sniffMark: the wire log creates <out>.mark once it has seen that many probes (live scans are interrupted after that)
var sniffMark int

// sniffInject: the wire log answers that many TCP probes with a malformed SYN+ACK
var sniffInject int

// sniff records, until SIGTERM, the probes that arrive on iface and writes their sorted keys to path.
func sniff(iface, proto, path string) {
	ifi, err := net.InterfaceByName(iface)
	if err != nil {
		fmt.Fprintln(os.Stderr, err)
		os.Exit(2)
	}
	fd, err := syscall.Socket(syscall.AF_PACKET, syscall.SOCK_RAW, int(htons(syscall.ETH_P_ALL)))
	if err != nil {
		fmt.Fprintln(os.Stderr, err)
		os.Exit(2)
	}
	syscall.SetsockoptInt(fd, syscall.SOL_SOCKET, syscall.SO_RCVBUFFORCE, 64<<20)
	tv := syscall.Timeval{Usec: 20000}
	syscall.SetsockoptTimeval(fd, syscall.SOL_SOCKET, syscall.SO_RCVTIMEO, &tv)
	if err := syscall.Bind(fd, &syscall.SockaddrLinklayer{Protocol: htons(syscall.ETH_P_ALL), Ifindex: ifi.Index}); err != nil {
		fmt.Fprintln(os.Stderr, err)
		os.Exit(2)
	}
	stop := make(chan os.Signal, 1)
	signal.Notify(stop, syscall.SIGTERM)
	fmt.Println("ready")
	var keys [][]byte
	buf := make([]byte, 65536)
	stopping := time.Time{}
	marked := false
	injected := 0
	for {
		select {
		case <-stop:
			stopping = time.Now()
		default:
		}
		if !marked && sniffMark > 0 && len(keys) >= sniffMark {
			marked = true
			os.WriteFile(path+".mark", nil, 0o644)
		}
		n, from, err := syscall.Recvfrom(fd, buf, 0)
		if err != nil {
			if !stopping.IsZero() && time.Since(stopping) > 40*time.Millisecond {
				break
			}
			continue
		}
		if ll, ok := from.(*syscall.SockaddrLinklayer); ok && ll.Pkttype == 4 { // PACKET_OUTGOING
			continue
		}
		f := buf[:n]
		if n < 42 {
			continue
		}
		et := uint16(f[12])<<8 | uint16(f[13])
		if proto == "any" {
			// every frame that arrives: ethertype + (IPv4 destination | ARP target)
			k := []byte{f[12], f[13], 0, 0, 0, 0}
			if et == 0x0800 {
				copy(k[2:], f[30:34])
			} else if et == 0x0806 {
				copy(k[2:], f[38:42])
			}
			keys = append(keys, k)
			continue
		}
		switch {
		case proto == "arp" && et == 0x0806 && f[20] == 0 && f[21] == 1:
			keys = append(keys, []byte{f[38], f[39], f[40], f[41], 0, 0})
		case et == 0x0800 && f[14]>>4 == 4:
			ihl := int(f[14]&15) * 4
			p := f[23]
			dst := f[30:34]
			switch {
			case proto == "tcp" && p == 6 && n >= 14+ihl+4:
				keys = append(keys, []byte{dst[0], dst[1], dst[2], dst[3], f[14+ihl+2], f[14+ihl+3]})
				if sniffInject > 0 && injected < sniffInject && n >= 14+ihl+14 {
					// a misbehaving target: answer the probe with a SYN+ACK whose TCP header is cut to 16 bytes
					injected++
					r := make([]byte, 14+20+16)
					copy(r[0:6], f[6:12])
					copy(r[6:12], f[0:6])
					r[12], r[13] = 8, 0
					ip := r[14:34]
					ip[0], ip[8], ip[9] = 0x45, 64, 6
					ip[2], ip[3] = 0, 36
					copy(ip[12:16], f[30:34])
					copy(ip[16:20], f[26:30])
					var sum uint32
					for i := 0; i < 20; i += 2 {
						sum += uint32(ip[i])<<8 | uint32(ip[i+1])
					}
					for sum>>16 != 0 {
						sum = sum&0xffff + sum>>16
					}
					ip[10], ip[11] = byte(^sum>>8), byte(^sum)
					t := r[34:]
					copy(t[0:2], f[14+ihl+2:14+ihl+4])
					copy(t[2:4], f[14+ihl:14+ihl+2])
					t[12], t[13] = 0x50, 0x12
					t[14], t[15] = 0xff, 0xff
					syscall.Sendto(fd, r, 0, &syscall.SockaddrLinklayer{Protocol: htons(syscall.ETH_P_ALL), Ifindex: ifi.Index, Halen: 6})
				}
			case proto == "udp" && p == 17 && n >= 14+ihl+4:
				keys = append(keys, []byte{dst[0], dst[1], dst[2], dst[3], f[14+ihl+2], f[14+ihl+3]})
			case proto == "icmp" && p == 1 && n >= 14+ihl+1 && f[14+ihl] == 8:
				keys = append(keys, []byte{dst[0], dst[1], dst[2], dst[3], 0, 0})
			}
		}
	}
	os.WriteFile(path, []byte(sortKeys(keys)), 0o644)
}

// listen accepts TCP connections on the given ports (all local addresses) until SIGTERM and writes the
// sorted (local address, port) keys of the connections it accepted to path.
func listen(ports string, path string) {
	var mu sync.Mutex
	var keys [][]byte
	log := func(c net.Conn) {
		a := c.LocalAddr().(*net.TCPAddr)
		ip := a.IP.To4()
		mu.Lock()
		keys = append(keys, []byte{ip[0], ip[1], ip[2], ip[3], byte(a.Port >> 8), byte(a.Port)})
		mu.Unlock()
	}
	// redirect mode: every port but the last one (the decoy's) is an HTTP(S) server that answers every request with
	// the given 3xx status and a Location at the decoy
	code, location := 0, ""
	if listenRedirect != "" {
		f := strings.SplitN(listenRedirect, ":", 2)
		fmt.Sscan(f[0], &code)
		location = f[1]
	}
	plist := strings.Split(ports, ",")
	for i, ps := range plist {
		ln, err := net.Listen("tcp4", "0.0.0.0:"+ps)
		if err != nil {
			fmt.Fprintln(os.Stderr, err)
			os.Exit(2)
		}
		if code != 0 && i < len(plist)-1 {
			srv := &http.Server{Handler: http.HandlerFunc(func(w http.ResponseWriter, r *http.Request) {
				w.Header().Set("Location", location)
				w.Header().Set("Content-Type", "application/json")
				w.Header().Set("Api-Version", "1.41")
				w.WriteHeader(code)
				if r.Method != "HEAD" {
					w.Write([]byte(`{"name":"redirecting","ID":"x","version":{"number":"7.0.0"}}`))
				}
			}), ConnState: func(c net.Conn, st http.ConnState) {
				if st == http.StateNew {
					log(c)
				}
			}}
			if listenTLS {
				cert, err := selfSigned()
				if err != nil {
					fmt.Fprintln(os.Stderr, err)
					os.Exit(2)
				}
				srv.TLSConfig = &tls.Config{Certificates: []tls.Certificate{cert}}
				go srv.ServeTLS(ln, "", "")
			} else {
				go srv.Serve(ln)
			}
			continue
		}
		go func(ln net.Listener) {
			for {
				c, err := ln.Accept()
				if err != nil {
					return
				}
				log(c)
				c.Close()
			}
		}(ln)
	}
	stop := make(chan os.Signal, 1)
	signal.Notify(stop, syscall.SIGTERM)
	fmt.Println("ready")
	<-stop
	time.Sleep(30 * time.Millisecond)
	mu.Lock()
	os.WriteFile(path, []byte(sortKeys(keys)), 0o644)
	mu.Unlock()
}

var listenRedirect string
var listenTLS bool

func selfSigned() (tls.Certificate, error) {
	key, err := ecdsa.GenerateKey(elliptic.P256(), crand.Reader)
	if err != nil {
		return tls.Certificate{}, err
	}
	tpl := &x509.Certificate{SerialNumber: big.NewInt(1), NotBefore: time.Now().Add(-time.Hour), NotAfter: time.Now().Add(time.Hour),
		KeyUsage: x509.KeyUsageDigitalSignature, ExtKeyUsage: []x509.ExtKeyUsage{x509.ExtKeyUsageServerAuth}}
	der, err := x509.CreateCertificate(crand.Reader, tpl, tpl, &key.PublicKey, key)
	if err != nil {
		return tls.Certificate{}, err
	}
	return tls.Certificate{Certificate: [][]byte{der}, PrivateKey: key}, nil
}

func sh(args ...string) error {
	out, err := exec.Command(args[0], args[1:]...).CombinedOutput()
	if err != nil {
		return fmt.Errorf("%s: %v: %s", strings.Join(args, " "), err, out)
	}
	return nil
}

func runE2E(sx string, c *e2eCase, idx int) {
	ns := fmt.Sprintf("c01e%d_%d", os.Getpid(), idx)
	if err := sh("ip", "netns", "add", ns); err != nil {
		c.Skipped = err.Error()
		return
	}
	defer sh("ip", "netns", "del", ns)
	for _, cmd := range [][]string{
		{"ip", "netns", "exec", ns, "sysctl", "-qw", "net.ipv6.conf.all.disable_ipv6=1", "net.ipv6.conf.default.disable_ipv6=1"},
		{"ip", "-n", ns, "link", "add", "v0", "type", "veth", "peer", "name", "v1"},
		{"ip", "-n", ns, "addr", "add", "10.77.0.1/16", "dev", "v0"},
		{"ip", "-n", ns, "link", "set", "v0", "up"},
		{"ip", "-n", ns, "link", "set", "v1", "up"},
		{"ip", "-n", ns, "link", "set", "lo", "up"},
	} {
		if err := sh(cmd...); err != nil {
			c.Skipped = err.Error()
			return
		}
	}
	frames := fmt.Sprintf("%s/frames%d.txt", tmpDir, idx)
	sn := exec.Command("ip", "netns", "exec", ns, os.Args[0], "-sniff", "v1", "-proto", c.Proto, "-out", frames, "-mark", fmt.Sprint(c.NWant),
		"-inject", fmt.Sprint(c.Inject))
	if strings.HasPrefix(c.Proto, "listen:") {
		// application scans: the targets are local addresses of the namespace, a listener is the log
		for _, a := range strings.Split(c.Local, ",") {
			if err := sh("ip", "-n", ns, "addr", "add", a+"/32", "dev", "lo"); err != nil {
				c.Skipped = err.Error()
				return
			}
		}
		largs := []string{"netns", "exec", ns, os.Args[0], "-listen", strings.TrimPrefix(c.Proto, "listen:"), "-out", frames}
		if c.Redirect != "" {
			largs = append(largs, "-redirect", c.Redirect)
			if c.TLS {
				largs = append(largs, "-tls")
			}
		}
		sn = exec.Command("ip", largs...)
	}
	so, _ := sn.StdoutPipe()
	sn.Stderr = os.Stderr
	if err := sn.Start(); err != nil {
		c.Skipped = err.Error()
		return
	}
	ready := make([]byte, 6)
	if _, err := so.Read(ready); err != nil || !strings.HasPrefix(string(ready), "ready") {
		sn.Process.Kill()
		sn.Wait()
		c.Skipped = "the wire log cannot open its packet socket"
		return
	}
	args := []string{"netns", "exec", ns}
	if c.Pin {
		args = append(args, "taskset", "-c", firstCPU())
	}
	if len(c.Env) > 0 {
		args = append(append(args, "env"), c.Env...)
	}
	args = append(append(args, sx), c.Argv...)
	cmd := exec.Command("ip", args...)
	if c.Stdin != "" {
		cmd.Stdin = strings.NewReader(c.Stdin)
	}
	var stderr strings.Builder
	cmd.Stderr = &stderr
	done := make(chan error, 1)
	go func() { done <- cmd.Run() }()
	if c.KillMS > 0 {
		go func() {
			// a live scan: wait until one whole pass has been seen on the wire (at most 15 s), let it run on
			// for KillMS, then interrupt it
			for t := time.Now(); time.Since(t) < 15*time.Second; time.Sleep(20 * time.Millisecond) {
				if _, err := os.Stat(frames + ".mark"); err == nil {
					break
				}
			}
			time.Sleep(time.Duration(c.KillMS) * time.Millisecond)
			if cmd.Process != nil {
				cmd.Process.Signal(syscall.SIGINT)
			}
		}()
	}
	select {
	case err := <-done:
		if err != nil {
			c.RC = 1
			if ee, ok := err.(*exec.ExitError); ok {
				c.RC = ee.ExitCode()
			}
		}
	case <-time.After(60 * time.Second):
		cmd.Process.Kill()
		c.RC = -1
	}
	c.Stderr = stderr.String()
	if len(c.Stderr) > 600 {
		c.Stderr = c.Stderr[:600]
	}
	time.Sleep(30 * time.Millisecond)
	sn.Process.Signal(syscall.SIGTERM)
	sn.Wait()
	b, _ := os.ReadFile(frames)
	c.Frames = string(b)
	c.NFrames = len(b) / 12
}

func crossWant(addrs []uint32, ports []int) [][2]int64 {
	var w [][2]int64
	for _, p := range ports {
		for _, a := range addrs {
			w = append(w, [2]int64{int64(a), int64(p)})
		}
	}
	return w
}

func e2eCases(r *hlib.SplitMix64, n int) []e2eCase {
	base := uint32(10<<24 | 77<<16)
	common := []string{"-i", "v0", "--exit-delay", "150ms", "--json"}
	ip4 := []string{"--gwmac", "02:00:00:00:00:02", "-a", tmpDir + "/empty.cache"}
	os.WriteFile(tmpDir+"/empty.cache", nil, 0o644)
	file := func(name string, addrs []uint32, ports []int) string {
		var sb strings.Builder
		for i, a := range addrs {
			if ports != nil {
				fmt.Fprintf(&sb, "{\"ip\":\"%s\",\"port\":%d}\n", tgt.Dotted(a), ports[i])
			} else {
				fmt.Fprintf(&sb, "{\"ip\":\"%s\"}\n", tgt.Dotted(a))
			}
		}
		return tgt.WriteTemp(tmpDir, name, sb.String())
	}
	seq := func(a uint32, n int) []uint32 {
		var l []uint32
		for i := 0; i < n; i++ {
			l = append(l, a+uint32(i))
		}
		return l
	}
	var cs []e2eCase
	mk := func(class, proto string, argv []string, want [][2]int64, stdin string) {
		c := e2eCase{Kind: "e2e", Class: class, Proto: proto, Argv: argv, Want: want, NWant: len(want), Stdin: stdin, Seed: int64(len(cs))}
		cs = append(cs, c)
	}
	cat := func(a ...[]string) []string {
		var o []string
		for _, x := range a {
			o = append(o, x...)
		}
		return o
	}
	for round := 0; len(cs) < n; round++ {
		if round == 1 {
			// after the first round of scenario cases: every packet command, normally and on one CPU
			cs = append(cs, tableCases(r, len(cs))...)
			if len(cs) >= n {
				break
			}
		}
		o := base + uint32(1+r.Intn(200))<<8
		// 1. tcp subnet x ports with one excluded host
		{
			a := o | 8
			ex := tgt.WriteTemp(tmpDir, fmt.Sprintf("ex%d.txt", round), tgt.Dotted(a+3)+"\n")
			addrs := append(seq(a, 3), seq(a+4, 4)...)
			mk("tcp:subnet", "tcp", cat([]string{"tcp"}, common, ip4, []string{"--exclude", ex, "-p", "80,443,1000-1002", tgt.Dotted(a) + "/29"}),
				crossWant(addrs, []int{80, 443, 1000, 1001, 1002}), "")
		}
		// 2. tcp pairs file, no -p (the chunk loop gets an empty port list)
		{
			addrs := []uint32{o | 33, o | 34, o | 35, o | 33}
			ports := []int{80, 22, 65535, 81}
			var w [][2]int64
			for i := range addrs {
				w = append(w, [2]int64{int64(addrs[i]), int64(ports[i])})
			}
			mk("tcp:pairs", "tcp", cat([]string{"tcp"}, common, ip4, []string{"-f", file(fmt.Sprintf("pairs%d.jsonl", round), addrs, ports)}), w, "")
		}
		// 3. udp address file x ports
		{
			addrs := seq(o|64, 5)
			mk("udp:addresses", "udp", cat([]string{"udp"}, common, ip4, []string{"-p", "53,123,5000-5001", "-f", file(fmt.Sprintf("ips%d.jsonl", round), addrs, nil)}),
				crossWant(addrs, []int{53, 123, 5000, 5001}), "")
		}
		// 4. tcp address list on stdin x several ports
		{
			addrs := seq(o|96, 4)
			var sb strings.Builder
			for _, a := range addrs {
				fmt.Fprintf(&sb, "{\"ip\":\"%s\"}\n", tgt.Dotted(a))
			}
			mk("tcp:stdin", "tcp", cat([]string{"tcp"}, common, ip4, []string{"-p", "22,80,443", "-f", "-"}), crossWant(addrs, []int{22, 80, 443}), sb.String())
		}
		// 5. tcp subnet x more port ranges than one chunk holds
		{
			nr := 401 + r.Intn(60)
			var ps []int
			var sb strings.Builder
			for i := 0; i < nr; i++ {
				p := 1000 + 3*i
				if i > 0 {
					sb.WriteByte(',')
				}
				if i%7 == 0 {
					fmt.Fprintf(&sb, "%d-%d", p, p+1)
					ps = append(ps, p, p+1)
				} else {
					fmt.Fprintf(&sb, "%d", p)
					ps = append(ps, p)
				}
			}
			a := o | 128
			mk("tcp:chunks", "tcp", cat([]string{"tcp"}, common, ip4, []string{"-p", sb.String(), tgt.Dotted(a) + "/31"}), crossWant(seq(a, 2), ps), "")
		}
		// 6. arp
		{
			a := o | 160
			mk("arp:subnet", "arp", cat([]string{"arp"}, common, []string{tgt.Dotted(a) + "/28"}), crossWant(seq(a, 16), []int{0}), "")
		}
		// 8. socks over local addresses with a listener as the log
		{
			a := o | 224
			ex := tgt.WriteTemp(tmpDir, fmt.Sprintf("exs%d.txt", round), tgt.Dotted(a+2)+"/31\n")
			addrs := append(seq(a, 2), seq(a+4, 4)...)
			mk("socks:subnet", "listen:1080,1081,1090", []string{"socks", "--exit-delay", "150ms", "--json", "-t", "500ms", "-w", "8",
				"--exclude", ex, "-p", "1080-1081,1090", tgt.Dotted(a) + "/29"}, crossWant(addrs, []int{1080, 1081, 1090}), "")
			var loc []string
			for _, x := range seq(a, 8) {
				loc = append(loc, tgt.Dotted(x))
			}
			cs[len(cs)-1].Local = strings.Join(loc, ",")
		}
		// 7. icmp
		{
			a := o | 192
			mk("icmp:subnet", "icmp", cat([]string{"icmp"}, common, ip4, []string{tgt.Dotted(a) + "/29"}), crossWant(seq(a, 8), []int{0}), "")
		}
	}
	return cs[:n]
}

const tcpPorts = "20-22,23-25,24-27,100,26-26"
const udpPorts = "53-54,55-56,55-57,123"

var tcpPortList = []int{20, 21, 22, 23, 24, 25, 24, 25, 26, 27, 100, 26}
var udpPortList = []int{53, 54, 55, 56, 55, 56, 57, 123}

// packetCommands: every packet command of newRootCmd with the arguments a small scan needs.
func packetCommands() [][]string {
	ip4 := []string{"--gwmac", "02:00:00:00:00:02", "-a", tmpDir + "/empty.cache"}
	cat := func(a ...[]string) []string {
		var o []string
		for _, x := range a {
			o = append(o, x...)
		}
		return o
	}
	return [][]string{
		{"arp"},
		cat([]string{"icmp"}, ip4),
		// port lists with adjacent and overlapping ranges (the capture filter builder sees them before the generators do)
		cat([]string{"udp"}, ip4, []string{"-p", udpPorts}),
		cat([]string{"tcp"}, ip4, []string{"-p", tcpPorts}),
		cat([]string{"tcp", "syn"}, ip4, []string{"-p", tcpPorts}),
		cat([]string{"tcp", "fin"}, ip4, []string{"-p", tcpPorts}),
		cat([]string{"tcp", "null"}, ip4, []string{"-p", tcpPorts}),
		cat([]string{"tcp", "xmas"}, ip4, []string{"-p", tcpPorts}),
		cat([]string{"tcp", "--flags", "syn,ack"}, ip4, []string{"-p", tcpPorts}),
	}
}

func cmdName(c []string) string {
	if len(c) > 1 && c[0] == "tcp" && !strings.HasPrefix(c[1], "-") {
		return "tcp-" + c[1]
	}
	if len(c) > 1 && c[1] == "--flags" {
		return "tcp-flags"
	}
	return c[0]
}

func cmdProto(c []string) (string, []int) {
	switch c[0] {
	case "arp":
		return "arp", []int{0}
	case "icmp":
		return "icmp", []int{0}
	case "udp":
		return "udp", udpPortList
	}
	return "tcp", tcpPortList
}

// tableCases: every packet command on a /30, once normally and once pinned to one CPU.
func tableCases(r *hlib.SplitMix64, seedBase int) []e2eCase {
	os.WriteFile(tmpDir+"/empty.cache", nil, 0o644)
	var cs []e2eCase
	o := uint32(10<<24|77<<16) + uint32(201+r.Intn(50))<<8
	for i, c := range packetCommands() {
		proto, ports := cmdProto(c)
		for _, pin := range []bool{true, false} {
			a := o | uint32(4*((2*i)%60)) | map[bool]uint32{true: 0, false: 128}[pin]
			var addrs []uint32
			for j := uint32(0); j < 4; j++ {
				addrs = append(addrs, a+j)
			}
			argv := append(append([]string{}, c...), "-i", "v0", "--exit-delay", "150ms", "--json", tgt.Dotted(a)+"/30")
			class := cmdName(c) + ":table"
			if pin {
				class = cmdName(c) + ":one-cpu"
			}
			w := crossWant(addrs, ports)
			cs = append(cs, e2eCase{Kind: "e2e", Class: class, Proto: proto, Argv: argv, Want: w, NWant: len(w), Pin: pin, Seed: int64(seedBase + len(cs))})
		}
	}
	// the same port commands with the ports given by --ports-file only (single ports, a range, a comment, a repeated
	// port): the option parsing of every command must hand the list to the scan exactly once
	pf := tgt.WriteTemp(tmpDir, "ports.txt", "7001\n7002-7003\n# note\n 7003 \n")
	pfPorts := []int{7001, 7002, 7003, 7003}
	for i, c := range packetCommands() {
		proto, _ := cmdProto(c)
		if proto != "tcp" && proto != "udp" {
			continue
		}
		var base []string
		for k := 0; k < len(c); k++ {
			if c[k] == "-p" {
				k++
				continue
			}
			base = append(base, c[k])
		}
		a := o | uint32(4*((2*i+1)%60)) | 64
		var addrs []uint32
		for j := uint32(0); j < 4; j++ {
			addrs = append(addrs, a+j)
		}
		argv := append(base, "--ports-file", pf, "-i", "v0", "--exit-delay", "150ms", "--json", tgt.Dotted(a)+"/30")
		w := crossWant(addrs, pfPorts)
		cs = append(cs, e2eCase{Kind: "e2e", Class: cmdName(c) + ":ports-file", Proto: proto, Argv: argv, Want: w, NWant: len(w), Seed: int64(seedBase + len(cs))})
	}
	// the application scans with every proxy variable of the environment pointing at a decoy listener: the probes
	// still go to the targets (local addresses with a listener), each target is contacted, nothing else is
	ta, decoy := o|224, o|250
	dk := fmt.Sprintf("%s:9999", tgt.Dotted(decoy))
	env := []string{"HTTP_PROXY=http://" + dk, "http_proxy=http://" + dk, "HTTPS_PROXY=http://" + dk, "https_proxy=http://" + dk,
		"ALL_PROXY=socks5://" + dk, "all_proxy=socks5://" + dk, "DOCKER_HOST=tcp://" + dk}
	for _, c := range [][]string{{"socks", "-p", "1080"}, {"elastic", "-p", "9200"}, {"docker", "-p", "2375"}, {"elastic", "--proto", "https", "-p", "9243"}} {
		port := 0
		fmt.Sscan(c[len(c)-1], &port)
		var loc []string
		var addrs []uint32
		for j := uint32(0); j < 4; j++ {
			addrs = append(addrs, ta+j)
			loc = append(loc, tgt.Dotted(ta+j))
		}
		loc = append(loc, tgt.Dotted(decoy))
		name := c[0]
		if len(c) > 3 {
			name += "-https"
		}
		argv := append(append([]string{}, c...), "--exit-delay", "100ms", "-t", "400ms", "-w", "4", tgt.Dotted(ta)+"/30")
		w := crossWant(addrs, []int{port})
		cs = append(cs, e2eCase{Kind: "e2e", Class: name + ":proxy-env", Proto: fmt.Sprintf("listen:%d,9999", port), Argv: argv, Want: w, NWant: len(w),
			Env: env, Local: strings.Join(loc, ","), SetSem: true,
			Decoy: hex.EncodeToString([]byte{byte(decoy >> 24), byte(decoy >> 16), byte(decoy >> 8), byte(decoy), 0x27, 0x0f}), Seed: int64(seedBase + len(cs))})
	}
	// a chunked SYN scan (201 single ports: two engine runs) of one host that misbehaves: the first probes are answered
	// with SYN+ACK segments whose TCP header is cut to 16 bytes (they pass the capture filter and fail to decode); the
	// scan logs the errors - and every port must still be probed
	{
		var sb strings.Builder
		var ports []int
		for p := 41000; p <= 41200; p++ {
			if p > 41000 {
				sb.WriteByte(',')
			}
			fmt.Fprintf(&sb, "%d", p)
			ports = append(ports, p)
		}
		a := o | 77
		argv := []string{"tcp", "syn", "--gwmac", "02:00:00:00:00:02", "-a", tmpDir + "/empty.cache", "-p", sb.String(), "-i", "v0",
			"--exit-delay", "150ms", "--json", tgt.Dotted(a)}
		w := crossWant([]uint32{a}, ports)
		cs = append(cs, e2eCase{Kind: "e2e", Class: "tcp-syn:malformed-reply", Proto: "tcp", Argv: argv, Want: w, NWant: len(w), Inject: 30,
			Seed: int64(seedBase + len(cs))})
	}
	return cs
}

// refusedCases: every command with a target that is not IPv4: nothing may reach the wire, exit status != 0
func refusedCases(r *hlib.SplitMix64, n int) []e2eCase {
	os.WriteFile(tmpDir+"/empty.cache", nil, 0o644)
	targets := []string{"::1", "::/96", "2001:db8::/120", "::ffff:10.77.1.2", "::ffff:10.77.1.0/120", "fe80::1", "::", "2001:db8::1", "::10.77.1.2", "10.77.1.300", "abc"}
	cmds := [][]string{
		{"arp", "-i", "v0", "--exit-delay", "100ms"},
		{"icmp", "-i", "v0", "--exit-delay", "100ms", "--gwmac", "02:00:00:00:00:02", "-a", tmpDir + "/empty.cache"},
		{"tcp", "-i", "v0", "--exit-delay", "100ms", "--gwmac", "02:00:00:00:00:02", "-a", tmpDir + "/empty.cache", "-p", "80"},
		{"udp", "-i", "v0", "--exit-delay", "100ms", "--gwmac", "02:00:00:00:00:02", "-a", tmpDir + "/empty.cache", "-p", "53"},
		{"tcp", "fin", "-i", "v0", "--exit-delay", "100ms", "--gwmac", "02:00:00:00:00:02", "-a", tmpDir + "/empty.cache", "-p", "80"},
		{"socks", "--exit-delay", "100ms", "-p", "1080", "-t", "200ms"},
		{"elastic", "--exit-delay", "100ms", "-p", "9200", "-t", "200ms"},
		{"docker", "--exit-delay", "100ms", "-p", "2375", "-t", "200ms"},
	}
	var cs []e2eCase
	// every target once, commands in rotation
	for i := 0; i < len(targets); i++ {
		argv := append(append([]string{}, cmds[i%len(cmds)]...), targets[i])
		cs = append(cs, e2eCase{Kind: "e2e", Class: "refuse:" + cmds[i%len(cmds)][0], Proto: "any", Argv: argv, Seed: int64(i)})
	}
	// exclusion FILES through the real option parsing of every command: a file with valid lines and one line that
	// must be refused, combined with each of -i / --srcmac / -r (and none): exit status 1, nothing on the wire;
	// and the accepted counterpart: the same valid lines alone -> the scan runs and leaves the listed addresses out
	o := uint32(10<<24|77<<16) + uint32(100+r.Intn(100))<<8
	valid := fmt.Sprintf("%s/30\n# note\n%s\n", tgt.Dotted(o|8), tgt.Dotted(o|3))
	bads := map[string]string{"invalid": "10.0.0.256\n", "ipv6": "fe80::/10\n", "overlong": "10.9.9.9 #" + strings.Repeat("x", 70000) + "\n"}
	badKinds := []string{"invalid", "ipv6", "overlong"}
	files := map[string]string{}
	for k, b := range bads {
		files[k] = tgt.WriteTemp(tmpDir, "exbad-"+k+".txt", valid+b+tgt.Dotted(o|5)+"\n")
	}
	okFile := tgt.WriteTemp(tmpDir, "exok.txt", valid)
	opts := map[string][]string{"none": nil, "iface": {"-i", "v0"}, "srcmac": {"--srcmac", "02:00:00:00:00:09"}, "rate": {"-r", "5000/s"}}
	optNames := []string{"iface", "srcmac", "rate", "none"}
	generic := [][]string{{"socks", "-p", "1080", "-t", "200ms"}, {"elastic", "-p", "9200", "-t", "200ms"}, {"docker", "-p", "2375", "-t", "200ms"}}
	target := tgt.Dotted(o) + "/28"
	mkBad := func(c []string, opt, bad string) {
		argv := append(append(append([]string{}, c...), opts[opt]...), "--exit-delay", "100ms", "--exclude", files[bad], target)
		cs = append(cs, e2eCase{Kind: "e2e", Class: "badexclude:" + cmdName(c), Proto: "any", Argv: argv, Opt: opt, Bad: bad, Seed: int64(len(cs))})
	}
	mkOK := func(c []string, opt string) {
		proto, ports := cmdProto(c)
		var addrs []uint32
		for j := uint32(0); j < 16; j++ {
			if j == 3 || (j >= 8 && j < 12) {
				continue
			}
			addrs = append(addrs, o+j)
		}
		argv := append(append(append([]string{}, c...), opts[opt]...), "--exit-delay", "150ms", "--json", "--exclude", okFile, target)
		w := crossWant(addrs, ports)
		cs = append(cs, e2eCase{Kind: "e2e", Class: "exclude-ok:" + cmdName(c), Proto: proto, Argv: argv, Want: w, NWant: len(w), Opt: opt, Seed: int64(len(cs))})
	}
	// an exclusion list that covers the FIRST address of the target block (only): the rest of the block is still due
	firstA := tgt.WriteTemp(tmpDir, "exfirst-host.txt", tgt.Dotted(o|16)+"\n")
	firstB := tgt.WriteTemp(tmpDir, "exfirst-block.txt", tgt.Dotted(o|16)+"/29\n")
	mkFirst := func(c []string, block bool) {
		proto, ports := cmdProto(c)
		file, from := firstA, uint32(1)
		if block {
			file, from = firstB, 8
		}
		var addrs []uint32
		for j := from; j < 16; j++ {
			addrs = append(addrs, (o|16)+j)
		}
		argv := append(append([]string{}, c...), "-i", "v0", "--exit-delay", "150ms", "--json", "--exclude", file, tgt.Dotted(o|16)+"/28")
		w := crossWant(addrs, ports)
		cs = append(cs, e2eCase{Kind: "e2e", Class: "exclude-ok:" + cmdName(c) + ":first", Proto: proto, Argv: argv, Want: w, NWant: len(w),
			Opt: map[bool]string{false: "first-host", true: "first-block"}[block], Seed: int64(len(cs))})
	}
	mkFirstSocks := func(block bool) {
		file, from := firstA, uint32(1)
		if block {
			file, from = firstB, 8
		}
		var addrs []uint32
		var loc []string
		for j := uint32(0); j < 16; j++ {
			loc = append(loc, tgt.Dotted((o|16)+j))
			if j >= from {
				addrs = append(addrs, (o|16)+j)
			}
		}
		argv := []string{"socks", "-p", "1080", "-t", "400ms", "-w", "4", "--exit-delay", "100ms", "--exclude", file, tgt.Dotted(o|16) + "/28"}
		w := crossWant(addrs, []int{1080})
		cs = append(cs, e2eCase{Kind: "e2e", Class: "exclude-ok:socks:first", Proto: "listen:1080", Argv: argv, Want: w, NWant: len(w),
			Opt: map[bool]string{false: "first-host", true: "first-block"}[block], Local: strings.Join(loc, ","), SetSem: true, Seed: int64(len(cs))})
	}
	pk := packetCommands()
	mkFirst(pk[1], false) // icmp
	mkFirst(pk[3], true)  // tcp
	mkFirst(pk[2], false) // udp
	mkFirstSocks(true)
	// quick rotation: every command once, options and kinds of bad line in rotation (none excluded: it hides nothing)
	for i, c := range pk {
		mkBad(c, optNames[i%3], badKinds[i%3])
	}
	for i, c := range generic {
		mkBad(c, []string{"rate", "none", "rate"}[i], badKinds[i%3])
	}
	for i, c := range pk {
		if i < 4 || i == 6 {
			mkOK(c, optNames[(i+1)%3])
		}
	}
	// application scans under a hostile environment: DOCKER_HOST and the proxy variables point at a decoy listener;
	// every connection must go to a target, none to the decoy.  The targets are local addresses of the namespace
	// with a listener on the scanned port; the decoy is another local address with its own port.
	appCmds := [][]string{{"docker", "-p", "2375"}, {"elastic", "-p", "9200"}, {"socks", "-p", "1080"},
		{"docker", "--proto", "https", "-p", "2376"}, {"elastic", "--proto", "https", "-p", "9243"}}
	ta := o | 224
	decoy := o | 250
	dk := fmt.Sprintf("%s:9999", tgt.Dotted(decoy))
	envs := map[string][]string{
		"DOCKER_HOST": {"DOCKER_HOST=tcp://" + dk},
		"HTTP_PROXY":  {"HTTP_PROXY=http://" + dk, "http_proxy=http://" + dk},
		"HTTPS_PROXY": {"HTTPS_PROXY=http://" + dk, "https_proxy=http://" + dk},
		"ALL_PROXY":   {"ALL_PROXY=socks5://" + dk, "all_proxy=socks5://" + dk},
		"none":        nil,
	}
	mkEnv := func(c []string, env string) {
		port := 0
		fmt.Sscan(c[len(c)-1], &port)
		var loc []string
		var addrs []uint32
		for j := uint32(0); j < 4; j++ {
			addrs = append(addrs, ta+j)
			loc = append(loc, tgt.Dotted(ta+j))
		}
		loc = append(loc, tgt.Dotted(decoy))
		argv := append(append([]string{}, c...), "--exit-delay", "100ms", "-t", "400ms", "-w", "4", tgt.Dotted(ta)+"/30")
		w := crossWant(addrs, []int{port})
		name := c[0]
		if len(c) > 3 {
			name += "-https"
		}
		cs = append(cs, e2eCase{Kind: "e2e", Class: "appenv:" + name, Proto: fmt.Sprintf("listen:%d,9999", port), Argv: argv, Want: w, NWant: len(w),
			Env: envs[env], Opt: env, Local: strings.Join(loc, ","), SetSem: true,
			Decoy: hex.EncodeToString([]byte{byte(decoy >> 24), byte(decoy >> 16), byte(decoy >> 8), byte(decoy), 0x27, 0x0f}), Seed: int64(len(cs))})
	}
	envQuick := [][2]int{{0, 0}, {0, 1}, {1, 1}, {2, 3}, {3, 2}, {4, 2}, {1, 0}, {0, 4}}
	envNames := []string{"DOCKER_HOST", "HTTP_PROXY", "HTTPS_PROXY", "ALL_PROXY", "none"}
	for _, ce := range envQuick {
		mkEnv(appCmds[ce[0]], envNames[ce[1]])
	}
	// targets that answer every request with a redirect to the decoy: the scan must not follow it
	mkRedirect := func(c []string, code int) {
		port := 0
		fmt.Sscan(c[len(c)-1], &port)
		var loc []string
		var addrs []uint32
		for j := uint32(0); j < 2; j++ {
			addrs = append(addrs, ta+j)
			loc = append(loc, tgt.Dotted(ta+j))
		}
		loc = append(loc, tgt.Dotted(decoy))
		https := len(c) > 3
		scheme, name := "http", c[0]
		if https {
			scheme, name = "https", c[0]+"-https"
		}
		argv := append(append([]string{}, c...), "--exit-delay", "100ms", "-t", "600ms", "-w", "2", tgt.Dotted(ta)+"/31")
		w := crossWant(addrs, []int{port})
		cs = append(cs, e2eCase{Kind: "e2e", Class: "redirect:" + name, Proto: fmt.Sprintf("listen:%d,9999", port), Argv: argv, Want: w, NWant: len(w),
			Opt: fmt.Sprint(code), Local: strings.Join(loc, ","), SetSem: true, Redirect: fmt.Sprintf("%d:%s://%s/", code, scheme, dk), TLS: https,
			Decoy: hex.EncodeToString([]byte{byte(decoy >> 24), byte(decoy >> 16), byte(decoy >> 8), byte(decoy), 0x27, 0x0f}), Seed: int64(len(cs))})
	}
	httpCmds := []int{0, 1, 3, 4}
	codes := []int{301, 302, 307, 308}
	for i, ci := range httpCmds {
		mkRedirect(appCmds[ci], codes[i])
	}
	// arp in live mode with an exclusion list: the first passes are observed, then the scan is interrupted
	mkLive := func(opt string) {
		var addrs []uint32
		for j := uint32(0); j < 16; j++ {
			if j == 3 || (j >= 8 && j < 12) {
				continue
			}
			addrs = append(addrs, o+j)
		}
		argv := append(append([]string{"arp"}, opts[opt]...), "--live", "250ms", "--exit-delay", "100ms", "--json", "--exclude", okFile, target)
		w := crossWant(addrs, []int{0})
		cs = append(cs, e2eCase{Kind: "e2e", Class: "exclude-live:arp", Proto: "arp", Argv: argv, Want: w, NWant: len(w), Opt: opt, KillMS: 400,
			SetSem: true, Seed: int64(len(cs))})
	}
	mkLive("iface")
	mkLive("none")
	// the full table
	if n > len(cs) {
		for _, c := range appCmds {
			for _, e := range envNames {
				mkEnv(c, e)
			}
		}
		mkLive("srcmac")
		mkLive("rate")
		for _, ci := range httpCmds {
			for _, code := range codes {
				mkRedirect(appCmds[ci], code)
			}
		}
		for _, c := range pk {
			for _, opt := range optNames {
				for _, bad := range badKinds {
					mkBad(c, opt, bad)
				}
				mkOK(c, opt)
			}
			mkFirst(c, false)
			mkFirst(c, true)
		}
		mkFirstSocks(false)
		for _, c := range generic {
			for _, opt := range []string{"rate", "none"} {
				for _, bad := range badKinds {
					mkBad(c, opt, bad)
				}
			}
		}
	}
	// then random target / command pairs
	for i := len(cs); len(cs) < n; i++ {
		t, c := targets[r.Intn(len(targets))], cmds[r.Intn(len(cmds))]
		argv := append(append([]string{}, c...), t)
		cs = append(cs, e2eCase{Kind: "e2e", Class: "refuse:" + c[0], Proto: "any", Argv: argv, Seed: int64(i)})
	}
	if n < len(cs) {
		cs = cs[:n]
	}
	return cs
}

func mainE2E(w *hlib.Out, sx string, seed int64, n int, set string) {
	r := hlib.NewRand(seed)
	cases := e2eCases
	if set == "refuse" {
		cases = refusedCases
	}
	all := cases(r, n)
	// every run has its own namespace: a few at a time
	sem := make(chan struct{}, 4)
	var wg sync.WaitGroup
	for i := range all {
		wg.Add(1)
		sem <- struct{}{}
		go func(i int) {
			defer wg.Done()
			defer func() { <-sem }()
			runE2E(sx, &all[i], i)
		}(i)
	}
	wg.Wait()
	for _, c := range all {
		sort.Slice(c.Want, func(a, b int) bool {
			if c.Want[a][0] != c.Want[b][0] {
				return c.Want[a][0] < c.Want[b][0]
			}
			return c.Want[a][1] < c.Want[b][1]
		})
		w.Put(c)
	}
}

var _ = hex.EncodeToString
var _ = json.Marshal
