// Driver for C01: (i) the real portGenerator alone with seeded math/rand (exact sequence), (ii) the real
// ipPortGenerator over scripted IP / port sources (exact nested order, error getters, failing re-open),
// (iii) the generator chains the commands build (tcp, udp, icmp, arp through their scan methods; socks /
// docker / elastic through the real GenericEngine with a recording scanner) for subnets x port ranges,
// pairs files, address files x port ranges (regular file and stdin), port-less scans, with and without
// exclusion and ARP cache: multiset of probes and of error records.
package main

import (
	"context"
	"encoding/hex"
	"encoding/json"
	"flag"
	"fmt"
	"math/rand"
	"net"
	"os"
	"os/exec"
	"runtime"
	"sort"
	"strings"
	"sync"
	"time"

	"github.com/v-byte-cpu/sx/command"
	"github.com/v-byte-cpu/sx/pkg/scan"
	"verifharness/cmd/c01/tgt"
	"verifharness/hlib"
)

type caseJ struct {
	Kind     string `json:"kind"` // ports | nested | chain
	CaseSeed int64  `json:"case_seed"`
	Class    string `json:"class"`
	// ports
	Ranges [][2]int   `json:"ranges,omitempty"`
	Draws  [][2]int64 `json:"draws,omitempty"`
	Seed   int64      `json:"seed"`
	// nested
	PortsErr int         `json:"ports_err,omitempty"`
	Ports    [][2]int    `json:"ports,omitempty"` // value, error class
	IPs      []nestedIPs `json:"ips,omitempty"`
	// chain
	Cmd      string     `json:"cmd,omitempty"`
	Portless bool       `json:"portless,omitempty"`
	Target   int        `json:"target"` // 0 subnet, 1 pairs file, 2 address file
	Source   string     `json:"source,omitempty"`
	NetIP    string     `json:"net_ip,omitempty"`
	NetMask  string     `json:"net_mask,omitempty"`
	NetBase  uint32     `json:"net_base,omitempty"`
	NetK     int        `json:"net_k,omitempty"`
	LinesEnc string     `json:"lines_enc,omitempty"`
	NLines   int        `json:"nlines,omitempty"`
	Pairs    [][2]int64 `json:"pairs,omitempty"` // address (number), port of every line, by construction
	Filter   bool       `json:"filter"`
	Nets     [][2]int64 `json:"nets,omitempty"`
	Cache    bool       `json:"cache"`
	CacheEnc string     `json:"cache_enc,omitempty"`
	Gateway  bool       `json:"gateway"`
	// observation
	Err      int    `json:"err"`
	ErrMsg   string `json:"err_msg,omitempty"`
	Complete bool   `json:"complete"`
	Stuck    bool   `json:"stuck"`
	Out      string `json:"out,omitempty"`    // ports: 2 bytes per port; nested: encoded requests
	Probes   string `json:"probes,omitempty"` // chain: sorted 6-byte keys
	NProbes  int    `json:"nprobes"`
	Errors   []int  `json:"errors,omitempty"` // chain: sorted error classes
	Big      bool   `json:"big,omitempty"`
	Forced   bool   `json:"forced,omitempty"`
	Frames   bool   `json:"frames,omitempty"` // observed on decoded frames of the real packet source
	Volume   int    `json:"volume,omitempty"`
	Slow     bool   `json:"slow,omitempty"` // slow consumer of the frames
}

type nestedIPs struct {
	Err   int         `json:"err"`
	Items [][2]string `json:"items"` // ip hex, error class
}

var tmpDir string
var baseGoroutines int

// ---------------------------------------------------------------- (i) ports

func mkPorts(caseSeed int64) caseJ {
	tgt.Settle(baseGoroutines)
	r := hlib.NewRand(caseSeed)
	c := caseJ{Kind: "ports", CaseSeed: caseSeed, Seed: r.Int63(), Class: "valid"}
	var rs []*scan.PortRange
	switch r.Intn(8) {
	case 0:
		c.Class = "empty"
	case 1:
		c.Class = "inverted"
		rs, _ = tgt.RandRanges(r, 1+r.Intn(4), 40)
		i := r.Intn(len(rs))
		rs[i] = &scan.PortRange{StartPort: uint16(1 + r.Intn(65535)), EndPort: 0}
	case 2:
		c.Class = "many"
		rs, _ = tgt.RandRanges(r, 201+r.Intn(250), 1500)
	case 3:
		// wide ranges at both ends of the port space (the model's walk is quadratic in Coq's VM: the whole
		// range 0-65535 is left to the theorem and to the iterator's own check)
		c.Class = "wide"
		w := uint16(1024 + r.Intn(3072))
		rs = []*scan.PortRange{{StartPort: 0, EndPort: w}, {StartPort: 65535 - w, EndPort: 65535}}
		if r.Bool() {
			rs = []*scan.PortRange{{StartPort: 65535 - w, EndPort: 65535}, {StartPort: 65535, EndPort: 65535}, {StartPort: 0, EndPort: 0}}
		}
	default:
		rs, _ = tgt.RandRanges(r, 1+r.Intn(12), 600)
	}
	c.Ranges = tgt.RangesJSON(rs)
	p := rand.New(rand.NewSource(c.Seed))
	for range rs {
		c.Draws = append(c.Draws, [2]int64{p.Int63(), p.Int63()})
	}
	rand.Seed(c.Seed)
	ctx, cancel := context.WithCancel(context.Background())
	defer cancel()
	ch, err := scan.NewPortGenerator().Ports(ctx, &scan.Range{Ports: rs})
	if err != nil {
		c.Err, c.ErrMsg = tgt.ErrClass(err), err.Error()
		return c
	}
	var buf []byte
	for g := range ch {
		p, err := g.GetPort()
		if err != nil {
			c.ErrMsg = "port getter error: " + err.Error()
			buf = append(buf, 0xff, 0xff, 0xff)
			continue
		}
		buf = append(buf, byte(p>>8), byte(p))
	}
	c.Complete = true
	c.Out = hex.EncodeToString(buf)
	return c
}

// ---------------------------------------------------------------- (ii) nested generator over scripts

type scriptPorts struct {
	err   error
	items []scan.PortGetter
}

func (s *scriptPorts) Ports(ctx context.Context, _ *scan.Range) (<-chan scan.PortGetter, error) {
	if s.err != nil {
		return nil, s.err
	}
	out := make(chan scan.PortGetter, 3)
	go func() {
		defer close(out)
		for _, p := range s.items {
			select {
			case out <- p:
			case <-ctx.Done():
				return
			}
		}
	}()
	return out, nil
}

type errPort struct{ error }

func (e errPort) GetPort() (uint16, error) { return 0, e.error }

type errIP struct{ error }

func (e errIP) GetIP() (net.IP, error) { return nil, e.error }

type scriptIPs struct {
	mu    sync.Mutex
	calls []struct {
		err   error
		items []scan.IPGetter
	}
	n int
}

func (s *scriptIPs) IPs(ctx context.Context, _ *scan.Range) (<-chan scan.IPGetter, error) {
	s.mu.Lock()
	k := s.n
	s.n++
	s.mu.Unlock()
	if k >= len(s.calls) {
		out := make(chan scan.IPGetter)
		close(out)
		return out, nil
	}
	if s.calls[k].err != nil {
		return nil, s.calls[k].err
	}
	out := make(chan scan.IPGetter, 2)
	items := s.calls[k].items
	go func() {
		defer close(out)
		for _, p := range items {
			select {
			case out <- p:
			case <-ctx.Done():
				return
			}
		}
	}()
	return out, nil
}

var classErr = map[int]error{tgt.EIP: scan.ErrIP, tgt.EJSON: scan.ErrJSON, tgt.EPortRange: scan.ErrPortRange, tgt.ESubnet: scan.ErrSubnet,
	tgt.ERangeSize: scan.VerifErrRangeSize(), tgt.EPort: scan.ErrPort}

func mkNested(caseSeed int64) caseJ {
	tgt.Settle(baseGoroutines)
	r := hlib.NewRand(caseSeed)
	c := caseJ{Kind: "nested", CaseSeed: caseSeed, Class: "script"}
	errClasses := []int{tgt.EIP, tgt.EJSON, tgt.ERangeSize, tgt.EPort}
	sp := &scriptPorts{}
	if r.Intn(10) == 0 {
		c.PortsErr = tgt.EPortRange
		sp.err = scan.ErrPortRange
		c.Class = "ports-fail"
	}
	np := r.Intn(6)
	for i := 0; i < np; i++ {
		if r.Intn(6) == 0 {
			e := errClasses[r.Intn(len(errClasses))]
			c.Ports = append(c.Ports, [2]int{0, e})
			sp.items = append(sp.items, errPort{classErr[e]})
		} else {
			p := r.Intn(65536)
			c.Ports = append(c.Ports, [2]int{p, 0})
			sp.items = append(sp.items, scan.WrapPort(uint16(p)))
		}
	}
	si := &scriptIPs{}
	ncalls := r.Intn(np + 3)
	for k := 0; k < ncalls; k++ {
		var call struct {
			err   error
			items []scan.IPGetter
		}
		var cj nestedIPs
		if r.Intn(8) == 0 {
			cj.Err = []int{tgt.ESubnet, tgt.ERangeSize}[r.Intn(2)]
			call.err = classErr[cj.Err]
			c.Class = "reopen-fail"
		} else {
			n := r.Intn(5)
			for i := 0; i < n; i++ {
				if r.Intn(7) == 0 {
					e := errClasses[r.Intn(2)]
					cj.Items = append(cj.Items, [2]string{"", fmt.Sprint(e)})
					call.items = append(call.items, errIP{classErr[e]})
				} else {
					ip := r.Bytes(4)
					if r.Intn(4) == 0 {
						ip = []byte(net.IP(ip).To16())
					}
					cj.Items = append(cj.Items, [2]string{hex.EncodeToString(ip), "0"})
					call.items = append(call.items, scan.WrapIP(ip))
				}
			}
		}
		si.calls = append(si.calls, call)
		c.IPs = append(c.IPs, cj)
	}
	ctx, cancel := context.WithCancel(context.Background())
	defer cancel()
	ch, err := scan.NewIPPortGenerator(si, sp).GenerateRequests(ctx, &scan.Range{})
	if err != nil {
		c.Err, c.ErrMsg = tgt.ErrClass(err), err.Error()
		return c
	}
	out, complete, stuck := tgt.Drain(ch, 0)
	c.Complete, c.Stuck = complete, stuck
	c.Out = hex.EncodeToString(tgt.Encode(out))
	return c
}

// ---------------------------------------------------------------- (iii) chains

type recScanner struct {
	mu   sync.Mutex
	keys [][]byte
}

func (s *recScanner) Scan(_ context.Context, r *scan.Request) (scan.Result, error) {
	s.mu.Lock()
	s.keys = append(s.keys, key(r.DstIP, r.DstPort))
	s.mu.Unlock()
	return nil, nil
}

func key(ip net.IP, port uint16) []byte {
	a := ip.To4()
	if a == nil {
		a = []byte{0xde, 0xad, 0xbe, 0xef} // cannot happen with IPv4 targets; shows up as a foreign probe
	}
	return []byte{a[0], a[1], a[2], a[3], byte(port >> 8), byte(port)}
}

func sortKeys(ks [][]byte) string {
	sort.Slice(ks, func(i, j int) bool { return string(ks[i]) < string(ks[j]) })
	var sb strings.Builder
	for _, k := range ks {
		sb.WriteString(hex.EncodeToString(k))
	}
	return sb.String()
}

func mkChain(caseSeed int64, big bool) caseJ {
	tgt.Settle(baseGoroutines)
	r := hlib.NewRand(caseSeed)
	c := caseJ{Kind: "chain", CaseSeed: caseSeed, Seed: r.Int63(), Big: big, Forced: forceFilter}
	c.Cmd = []string{"tcp", "udp", "generic", "generic", "icmp", "arp"}[r.Intn(6)]
	c.Portless = c.Cmd == "icmp" || c.Cmd == "arp"
	switch {
	case c.Cmd == "arp":
		c.Target = 0
	case c.Cmd == "icmp":
		c.Target = []int{0, 2}[r.Intn(2)]
	default:
		c.Target = r.Intn(3)
	}
	c.Class = fmt.Sprintf("%s:%s", c.Cmd, []string{"subnet", "pairs", "addresses"}[c.Target])
	opts := &command.VerifTargetOpts{}
	var dst *net.IPNet
	base := uint32(r.Uint64())
	span := 24
	maxPorts := 40
	if c.Target == 0 {
		kmin := 26
		if big {
			kmin = 20
		}
		a, k := tgt.RandNet4(r, kmin, 32, r.Bool())
		size := 1 << uint(32-k)
		if size > 256 {
			maxPorts = 3
		} else if size > 16 {
			maxPorts = 12
		}
		c.NetBase, c.NetK = a, k
		mask := net.CIDRMask(k, 32)
		ipb := tgt.U32(a)
		if r.Bool() {
			ipb = []byte(net.IP(ipb).Mask(mask)) // as ParseCIDR returns it
		}
		dst = &net.IPNet{IP: ipb, Mask: mask}
		c.NetIP, c.NetMask = hex.EncodeToString(ipb), hex.EncodeToString(mask)
		base, span = a&^(uint32(size)-1), size
		if k == 0 {
			base = 0
		}
	} else {
		// a well-formed file: IPv4 entries only, every spelling
		n := r.Intn(41)
		if r.Intn(10) == 0 {
			n = 0
		}
		classes := []string{"valid", "valid", "crlf", "dupkey", "escaped"}
		var ls []tgt.Line
		for i := 0; i < n; i++ {
			l := tgt.RandLine(r, classes[r.Intn(len(classes))], base+uint32(r.Intn(span)))
			if c.Target == 2 && r.Intn(4) == 0 {
				l = tgt.RandLine(r, "noport", base+uint32(r.Intn(span)))
			}
			ls = append(ls, l)
			c.Pairs = append(c.Pairs, [2]int64{int64(tgt.V4(l.IP)), l.Port})
		}
		c.NLines = n
		c.LinesEnc = hex.EncodeToString(tgt.EncLines(ls))
		content := tgt.FileText(ls)
		c.Source = "file"
		if c.Target == 2 && c.Cmd != "icmp" && r.Intn(3) == 0 {
			c.Source = "stdin"
			opts.IPFile = "-"
		} else {
			opts.IPFile = tgt.WriteTemp(tmpDir, fmt.Sprintf("c%d.jsonl", caseSeed&0xffffff), content)
			defer os.Remove(opts.IPFile)
		}
		// keep the content for the stdin run below
		stdinContent = content
	}
	if !c.Portless && c.Target != 1 {
		nr := 1 + r.Intn(5)
		switch {
		case r.Intn(12) == 0:
			nr = 201 + r.Intn(250) // more ranges than one chunk holds
			maxPorts = nr + r.Intn(100)
			if c.Target == 0 && c.NetK < 30 {
				c.NetK = 30 + r.Intn(3)
				a := c.NetBase
				mask := net.CIDRMask(c.NetK, 32)
				dst = &net.IPNet{IP: tgt.U32(a), Mask: mask}
				c.NetIP, c.NetMask = hex.EncodeToString(tgt.U32(a)), hex.EncodeToString(mask)
				size := 1 << uint(32-c.NetK)
				base, span = a&^(uint32(size)-1), size
			}
		}
		rs, _ := tgt.RandRanges(r, nr, maxPorts)
		opts.PortRanges = rs
		c.Ranges = tgt.RangesJSON(rs)
	}
	if r.Bool() || forceFilter {
		c.Filter = true
		opts.ExcludeIPs, c.Nets = exclusionAround(r, base, span)
	}
	if c.Cmd != "generic" && c.Cmd != "arp" && r.Bool() {
		c.Cache, c.Gateway = true, true // C01: a MAC is known for every destination
		var es []tgt.CacheEntry
		opts.Cache, es, opts.GatewayMAC = tgt.RandCache(r, base, span, r.Intn(6), true)
		c.CacheEnc = hex.EncodeToString(tgt.EncCache(es, opts.GatewayMAC))
	}
	rng := &scan.Range{DstSubnet: dst, Ports: opts.PortRanges, SrcIP: net.IPv4(10, 0, 0, 1).To4(), SrcMAC: net.HardwareAddr{2, 0, 0, 0, 0, 1}}
	run := func() {
		ctx, cancel := context.WithCancel(context.Background())
		defer cancel()
		rand.Seed(c.Seed)
		if c.Cmd == "generic" {
			// the real GenericEngine with a recording scanner
			rec := &recScanner{}
			eng := command.VerifGenericScanEngine(ctx, opts, 1+r.Intn(8), rec)
			done, errc := eng.Start(ctx, rng)
			var wg sync.WaitGroup
			wg.Add(1)
			go func() {
				defer wg.Done()
				for err := range errc {
					c.Errors = append(c.Errors, tgt.ErrClass(err))
					if c.ErrMsg == "" {
						c.ErrMsg = err.Error()
					}
				}
			}()
			<-done
			wg.Wait()
			c.Complete = true
			c.NProbes = len(rec.keys)
			c.Probes = sortKeys(rec.keys)
			sort.Ints(c.Errors)
			return
		}
		gen := scan.VerifRequestGenerator(command.VerifScanMethod(ctx, c.Cmd, opts))
		ch, err := gen.GenerateRequests(ctx, rng)
		if err != nil {
			c.Err, c.ErrMsg = tgt.ErrClass(err), err.Error()
			c.Errors = []int{c.Err}
			return
		}
		out, complete, stuck := tgt.Drain(ch, 0)
		c.Complete, c.Stuck = complete, stuck
		var ks [][]byte
		for _, q := range out {
			if q.Err != 0 {
				c.Errors = append(c.Errors, q.Err)
				if c.ErrMsg == "" {
					c.ErrMsg = q.Msg
				}
				continue
			}
			ks = append(ks, key(net.IP(q.IP), q.Port))
		}
		c.NProbes = len(ks)
		c.Probes = sortKeys(ks)
		sort.Ints(c.Errors)
	}
	if c.Source == "stdin" {
		tgt.WithStdin(stdinContent, run)
	} else {
		run()
	}
	return c
}

// mkFrames: a subnet scan of a packet command through its REAL packet source (request generator, the command's
// own filler, NumCPU packet workers, the merger): the frames are decoded and the multiset of (destination
// address, destination port) on them is the observation.  Thousands of requests, so that workers overlap.
func mkFrames(caseSeed int64, volume int, cmd string) caseJ {
	tgt.Settle(baseGoroutines)
	r := hlib.NewRand(caseSeed)
	c := caseJ{Kind: "chain", CaseSeed: caseSeed, Seed: r.Int63(), Frames: true, Volume: volume}
	c.Cmd = cmd
	c.Portless = c.Cmd == "icmp" || c.Cmd == "arp"
	c.Class = c.Cmd + ":frames"
	opts := &command.VerifTargetOpts{}
	k := 26 + r.Intn(3)
	if c.Portless {
		k = 22 + r.Intn(5)
	}
	if slowFrames {
		// more addresses than any fixed set of buffers between the generator and the filler could hold
		k = 21 + r.Intn(2)
		volume = (1 << uint(32-k)) * (1 + r.Intn(2))
		c.Slow = true
	}
	a, _ := tgt.RandNet4(r, k, k, r.Bool())
	size := 1 << uint(32-k)
	c.NetBase, c.NetK = a, k
	mask := net.CIDRMask(k, 32)
	dst := &net.IPNet{IP: tgt.U32(a), Mask: mask}
	c.NetIP, c.NetMask = hex.EncodeToString(tgt.U32(a)), hex.EncodeToString(mask)
	base := a &^ (uint32(size) - 1)
	if !c.Portless {
		rs, _ := tgt.RandRanges(r, 2+r.Intn(6), volume/size)
		opts.PortRanges = rs
		c.Ranges = tgt.RangesJSON(rs)
	}
	if r.Bool() || slowFrames {
		c.Filter = true
		if slowFrames {
			// a few hosts and small blocks plus one half and one eighth of the net
			opts.ExcludeIPs, c.Nets = exclusionWith(r, base, size, [][2]int64{{int64(base + uint32(r.Intn(2))*uint32(size/2)), int64(k + 1)},
				{int64(base + uint32(r.Intn(8))*uint32(size/8)), int64(k + 3)}})
		} else {
			opts.ExcludeIPs, c.Nets = exclusionAround(r, base, size)
		}
	}
	if c.Cmd != "arp" {
		// as in the commands: outside VPN mode the ARP stage is always there
		c.Cache, c.Gateway = true, true
		var es []tgt.CacheEntry
		opts.Cache, es, opts.GatewayMAC = tgt.RandCache(r, base, size, r.Intn(6), true)
		c.CacheEnc = hex.EncodeToString(tgt.EncCache(es, opts.GatewayMAC))
	}
	rng := &scan.Range{DstSubnet: dst, Ports: opts.PortRanges, SrcIP: net.IPv4(10, 0, 0, 1).To4(), SrcMAC: net.HardwareAddr{2, 0, 0, 0, 0, 1}}
	ctx, cancel := context.WithCancel(context.Background())
	defer cancel()
	rand.Seed(c.Seed)
	var ks [][]byte
	pkts := command.VerifScanMethod(ctx, c.Cmd, opts).Packets(ctx, rng)
	if c.Slow {
		// a consumer slower than the generators (rate limit, slow writes): the pipeline runs ahead and fills its queues
		time.Sleep(150 * time.Millisecond)
	}
	timeout := time.After(60 * time.Second)
loop:
	for {
		select {
		case p, ok := <-pkts:
			if !ok {
				c.Complete = true
				break loop
			}
			if p.Err != nil {
				c.Errors = append(c.Errors, tgt.ErrClass(p.Err))
				if c.ErrMsg == "" {
					c.ErrMsg = p.Err.Error()
				}
				continue
			}
			if c.Slow && len(ks) < 6000 {
				time.Sleep(20 * time.Microsecond)
			}
			f := p.Buf.Bytes()
			switch {
			case len(f) >= 42 && f[12] == 8 && f[13] == 6:
				ks = append(ks, []byte{f[38], f[39], f[40], f[41], 0, 0})
			case len(f) >= 38 && f[12] == 8 && f[13] == 0 && (f[23] == 6 || f[23] == 17):
				ks = append(ks, []byte{f[30], f[31], f[32], f[33], f[36], f[37]})
			case len(f) >= 34 && f[12] == 8 && f[13] == 0:
				ks = append(ks, []byte{f[30], f[31], f[32], f[33], 0, 0})
			default:
				ks = append(ks, []byte{0xde, 0xad, 0xbe, 0xef, 0, 0})
			}
		case <-timeout:
			c.Stuck = true
			break loop
		}
	}
	c.NProbes = len(ks)
	c.Probes = sortKeys(ks)
	sort.Ints(c.Errors)
	return c
}

// mkChunkGen replays the chunk loop of startPortScanEngine on the request generator the tcp / udp commands build
// (newIPPortGenerator): one GenerateRequests call per chunk of 200 port ranges on the SAME generator, each under a child
// context that is cancelled when the chunk is done (as startScanEngine does), for a subnet much larger than the channel
// buffers.  Every chunk must yield every (address, port) of its ranges exactly once.  The probes are checked here (there
// are ~10^6 of them); the observation reported is the list of discrepancies.
type chunkGenJ struct {
	Kind     string   `json:"kind"` // chunkgen
	CaseSeed int64    `json:"case_seed"`
	Class    string   `json:"class"`
	Net      string   `json:"net"`
	NRanges  int      `json:"nranges"`
	Chunks   int      `json:"chunks"`
	Attempts int      `json:"attempts"`
	Total    int      `json:"total"`
	Bad      []string `json:"bad"` // first discrepancies, in words
	NBad     int      `json:"nbad"`
	Err      string   `json:"err,omitempty"`
}

func mkChunkGen(caseSeed int64, attempts int) chunkGenJ {
	tgt.Settle(baseGoroutines)
	r := hlib.NewRand(caseSeed)
	c := chunkGenJ{Kind: "chunkgen", CaseSeed: caseSeed, Class: "tcp-udp:subnet-chunks"}
	k := 20 + r.Intn(2)
	a, _ := tgt.RandNet4(r, k, k, true)
	size := 1 << uint(32-k)
	c.Net = fmt.Sprintf("%s/%d", tgt.Dotted(a), k)
	nr := 201 + r.Intn(3)
	var rs []*scan.PortRange
	p0 := 1000 + r.Intn(30000)
	for i := 0; i < nr; i++ {
		rs = append(rs, &scan.PortRange{StartPort: uint16(p0 + 2*i), EndPort: uint16(p0 + 2*i)})
	}
	c.NRanges = nr
	dst := &net.IPNet{IP: tgt.U32(a), Mask: net.CIDRMask(k, 32)}
	for att := 1; att <= attempts && c.NBad == 0; att++ {
		c.Attempts = att
		gen := command.VerifPacketIPPortGenerator(&command.VerifTargetOpts{PortRanges: rs})
		parent, stop := context.WithCancel(context.Background())
		c.Chunks = 0
		var checks []chunkSeen
		for i := 0; i < len(rs); i += 200 {
			end := i + 200
			if end > len(rs) {
				end = len(rs)
			}
			c.Chunks++
			ctx, cancel := context.WithCancel(parent)
			ch, err := gen.GenerateRequests(ctx, &scan.Range{DstSubnet: dst, Ports: rs[i:end]})
			if err != nil {
				c.Err = err.Error()
				cancel()
				break
			}
			seen := make(map[uint64]int, (end-i)*size)
			for q := range ch {
				c.Total++
				if q.Err != nil {
					c.NBad++
					if len(c.Bad) < 6 {
						c.Bad = append(c.Bad, fmt.Sprintf("chunk of port ranges [%d:%d]: error request '%v'", i, end, q.Err))
					}
					continue
				}
				x := tgt.V4(q.DstIP)
				seen[uint64(x)<<16|uint64(q.DstPort)]++
				if uint64(x) < uint64(a) || uint64(x) >= uint64(a)+uint64(size) {
					c.NBad++
					if len(c.Bad) < 6 {
						c.Bad = append(c.Bad, fmt.Sprintf("chunk of port ranges [%d:%d]: probe for %s:%d is outside the subnet %s", i, end, tgt.Dotted(x), q.DstPort, c.Net))
					}
				}
			}
			cancel() // the engine run is over: startScanEngine cancels its context; the next chunk starts right away
			checks = append(checks, chunkSeen{i, end, seen})
		}
		stop()
		for _, cs := range checks {
			i, end, seen := cs.i, cs.end, cs.seen
			for _, pr := range rs[i:end] {
				for j := 0; j < size; j++ {
					n := seen[uint64(a+uint32(j))<<16|uint64(pr.StartPort)]
					if n != 1 {
						c.NBad++
						if len(c.Bad) < 6 {
							c.Bad = append(c.Bad, fmt.Sprintf("chunk of port ranges [%d:%d]: %s:%d is probed %d times", i, end, tgt.Dotted(a+uint32(j)), pr.StartPort, n))
						}
					}
				}
			}
		}
	}
	return c
}

// mkChunkGenChild runs mkChunkGen in a child process: when the generators corrupt shared state a panic in one of their
// goroutines kills the process, and that is an observation too.
func mkChunkGenChild(caseSeed int64, attempts int) chunkGenJ {
	tmp := fmt.Sprintf("%s/chunkgen%d.jsonl", tmpDir, caseSeed&0xffffff)
	cmd := exec.Command(os.Args[0], "-out", tmp, "-replay", fmt.Sprintf("chunkgenchild:%d:%d", caseSeed, attempts))
	var stderr strings.Builder
	cmd.Stderr = &stderr
	err := cmd.Run()
	var c chunkGenJ
	if b, e := os.ReadFile(tmp); e == nil && err == nil && json.Unmarshal(b, &c) == nil {
		return c
	}
	// regenerate the description of the case (same seed) without running it
	r := hlib.NewRand(caseSeed)
	k := 20 + r.Intn(2)
	a, _ := tgt.RandNet4(r, k, k, true)
	c = chunkGenJ{Kind: "chunkgen", CaseSeed: caseSeed, Class: "tcp-udp:subnet-chunks", Net: fmt.Sprintf("%s/%d", tgt.Dotted(a), k),
		NRanges: 201 + r.Intn(3), Chunks: 2, Attempts: attempts, NBad: 1}
	msg := stderr.String()
	if i := strings.Index(msg, "\n"); i > 0 {
		msg = msg[:i]
	}
	c.Bad = []string{"the process crashes while a later chunk runs (" + msg + ")"}
	return c
}

type chunkSeen struct {
	i, end int
	seen   map[uint64]int
}

var stdinContent string

// forceFilter: every chain case gets an exclusion list (the C02 check drives the chains of all commands this way)
var forceFilter bool

// slowFrames: the frame-level cases get a big subnet, a big exclusion list and a slow consumer
var slowFrames bool

func exclusionAround(r *hlib.SplitMix64, base uint32, span int) (scan.IPContainer, [][2]int64) {
	return exclusionWith(r, base, span, nil)
}

func exclusionWith(r *hlib.SplitMix64, base uint32, span int, more [][2]int64) (scan.IPContainer, [][2]int64) {
	var nets [][2]int64
	var sb strings.Builder
	for _, m := range more {
		nets = append(nets, m)
		fmt.Fprintf(&sb, "%s/%d\n", tgt.Dotted(uint32(m[0])), m[1])
	}
	n := 1 + r.Intn(5)
	for i := 0; i < n; i++ {
		a := base + uint32(r.Intn(span))
		p := 32
		switch r.Intn(4) {
		case 0:
			p = 24 + r.Intn(8)
		case 1:
			a, p = uint32(r.Uint64()), 8+r.Intn(24) // unrelated
		}
		nets = append(nets, [2]int64{int64(a), int64(p)})
		fmt.Fprintf(&sb, "%s/%d\n", tgt.Dotted(a), p)
	}
	c, err := command.VerifParseExcludeFile(tgt.StringOpener(sb.String()))
	if err != nil {
		panic(err)
	}
	return c, nets
}

func main() {
	out := flag.String("out", "cases.jsonl", "output file")
	seed := flag.Int64("seed", 1, "seed")
	nports := flag.Int("nports", 120, "port generator cases")
	nnested := flag.Int("nnested", 300, "nested generator cases")
	nchain := flag.Int("nchain", 300, "chain cases")
	big := flag.Bool("big", false, "subnets down to /20")
	one := flag.String("replay", "", "replay one case: ports:<seed> | nested:<seed> | chain:<seed>[:big]")
	sniffIf := flag.String("sniff", "", "internal: wire log on this interface")
	proto := flag.String("proto", "tcp", "internal: what the wire log records")
	flag.StringVar(&listenRedirect, "redirect", "", "internal: the listeners answer <code>:<Location>")
	flag.BoolVar(&listenTLS, "tls", false, "internal: the redirecting listeners speak TLS")
	flag.IntVar(&sniffInject, "inject", 0, "internal: the wire log answers that many TCP probes with a malformed SYN+ACK")
	flag.IntVar(&sniffMark, "mark", 0, "internal: the wire log marks when it has seen that many probes")
	listenPorts := flag.String("listen", "", "internal: accept connections on these ports and log them")
	sx := flag.String("e2e", "", "end-to-end runs with this sx binary in private network namespaces")
	ne2e := flag.Int("ne2e", 8, "number of end-to-end runs")
	flag.BoolVar(&forceFilter, "forcefilter", false, "every chain case has an exclusion list")
	flag.BoolVar(&slowFrames, "slowframes", false, "frame-level cases with > 1000 addresses, a big exclusion list and a slow consumer")
	nwide := flag.Int("wideprefix", 0, "heads of passes over the widest subnets (/0../3) through the real ip generator")
	nchunkgen := flag.Int("nchunkgen", 0, "replays of the chunk loop on the real tcp/udp request generator (big subnet, > 200 port ranges)")
	chunkAttempts := flag.Int("chunkattempts", 1, "attempts per chunk loop replay (a data race needs the schedule to cooperate)")
	nframes := flag.Int("nframes", 0, "chain cases observed on the frames of the real packet source")
	e2eSet := flag.String("e2eset", "coverage", "coverage | refuse (non-IPv4 targets, for C02)")
	flag.Parse()
	if *sniffIf != "" {
		sniff(*sniffIf, *proto, *out)
		return
	}
	if *listenPorts != "" {
		listen(*listenPorts, *out)
		return
	}
	baseGoroutines = runtime.NumGoroutine()
	var err error
	if tmpDir, err = os.MkdirTemp("", "c01-"); err != nil {
		panic(err)
	}
	defer os.RemoveAll(tmpDir)
	w := hlib.NewOut(*out)
	defer w.Close()
	if *sx != "" {
		mainE2E(w, *sx, *seed, *ne2e, *e2eSet)
		return
	}
	if *nwide > 0 {
		// a stage of its own: own output file, own seed stream
		for i := 0; i < *nwide; i++ {
			w.Put(mkWidePrefix(*seed*1000003+int64(i)*7919+17, i))
			w.Flush()
		}
		return
	}
	if *one != "" {
		f := strings.Split(*one, ":")
		var cs int64
		fmt.Sscan(f[1], &cs)
		switch f[0] {
		case "ports":
			w.Put(mkPorts(cs))
		case "nested":
			w.Put(mkNested(cs))
		case "chunkgen", "chunkgenchild":
			att := 1
			if len(f) > 2 {
				fmt.Sscan(f[2], &att)
			}
			if f[0] == "chunkgenchild" {
				w.Put(mkChunkGen(cs, att))
			} else {
				w.Put(mkChunkGenChild(cs, att))
			}
		case "frames":
			vol, cmd := 2000, "udp"
			if len(f) > 2 {
				fmt.Sscan(f[2], &vol)
			}
			if len(f) > 3 {
				cmd = f[3]
			}
			if len(f) > 4 && f[4] == "slow" {
				slowFrames = true
			}
			w.Put(mkFrames(cs, vol, cmd))
		default:
			big := false
			for _, x := range f[2:] {
				if x == "big" {
					big = true
				}
				if x == "filter" {
					forceFilter = true
				}
			}
			w.Put(mkChain(cs, big))
		}
		return
	}
	r := hlib.NewRand(*seed)
	for i := 0; i < *nports; i++ {
		w.Put(mkPorts(r.Int63()))
	}
	for i := 0; i < *nnested; i++ {
		w.Put(mkNested(r.Int63()))
	}
	for i := 0; i < *nchain; i++ {
		w.Put(mkChain(r.Int63(), *big))
	}
	for i := 0; i < *nchunkgen; i++ {
		w.Put(mkChunkGenChild(r.Int63(), *chunkAttempts))
	}
	for i := 0; i < *nframes; i++ {
		// mostly moderate volumes (also evaluated by the model), every third one a large one
		// every packet command in rotation, moderate volumes (also evaluated by the model); every third case a large
		// udp / tcp one
		vol, cmd := 1500+r.Intn(2000), []string{"udp", "tcp", "icmp", "arp"}[i%4]
		if i%3 == 2 {
			vol, cmd = 20000, []string{"udp", "tcp"}[(i/3)%2]
		}
		w.Put(mkFrames(r.Int63(), vol, cmd))
	}
}
