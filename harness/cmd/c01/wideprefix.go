package main

// -wideprefix K: the head of a pass over the WIDEST subnets (0.0.0.0/0, /1, /2, /3 -- the largest rows of the
// cyclic-group table, where the walk's arithmetic runs next to and above 2^32 and products above 2^63), through
// the real scan.NewIPGenerator with math/rand seeded per case.  A full pass is out of reach of a quick check;
// judged is what the property says about every prefix of a pass: every address lies inside the subnet and no
// address is named twice.
import (
	"context"
	"encoding/binary"
	"fmt"
	"math/rand"
	"net"

	"github.com/v-byte-cpu/sx/pkg/scan"
	"verifharness/hlib"
)

type widePrefixJ struct {
	Type       string `json:"type"`
	ID         string `json:"id"`
	Subnet     string `json:"subnet"`
	RandSeed   int64  `json:"rand_seed"`
	Want       int    `json:"want"` // addresses asked for
	Got        int    `json:"got"`  // addresses delivered before the generator ended / a defect was seen
	Outside    string `json:"outside"`
	OutsideAt  int    `json:"outside_at"`
	Repeated   string `json:"repeated"`
	RepeatedAt int    `json:"repeated_at"`
	FirstAt    int    `json:"first_at"`
	Err        string `json:"err"`
	Ended      bool   `json:"ended"`
}

func mkWidePrefix(caseSeed int64, idx int) (o widePrefixJ) {
	r := hlib.NewRand(caseSeed)
	bits := []int{0, 0, 1, 2, 3, 0}[idx%6]
	base := uint32(0)
	if bits > 0 {
		base = uint32(r.Intn(1<<uint(bits))) << uint(32-bits)
	}
	var b [4]byte
	binary.BigEndian.PutUint32(b[:], base)
	cidr := fmt.Sprintf("%s/%d", net.IP(b[:]).String(), bits)
	o = widePrefixJ{Type: "wideprefix", ID: fmt.Sprintf("wideprefix:%d:%d", caseSeed, idx), Subnet: cidr,
		RandSeed: int64(r.Intn(1 << 30)), Want: 400000, OutsideAt: -1, RepeatedAt: -1, FirstAt: -1}
	_, subnet, err := net.ParseCIDR(cidr)
	if err != nil {
		o.Err = err.Error()
		return
	}
	rand.Seed(o.RandSeed)
	ctx, cancel := context.WithCancel(context.Background())
	defer cancel()
	ips, err := scan.NewIPGenerator().IPs(ctx, &scan.Range{DstSubnet: subnet})
	if err != nil {
		o.Err = err.Error()
		return
	}
	seen := make(map[uint32]int, o.Want)
	for n := 0; n < o.Want; n++ {
		g, ok := <-ips
		if !ok {
			o.Ended = true
			return
		}
		addr, err := g.GetIP()
		if err != nil {
			o.Err = fmt.Sprintf("address %d: %v", n, err)
			return
		}
		o.Got = n + 1
		ip4 := addr.To4()
		if ip4 == nil || !subnet.Contains(ip4) {
			o.Outside, o.OutsideAt = addr.String(), n
			return
		}
		k := binary.BigEndian.Uint32(ip4)
		if at, dup := seen[k]; dup {
			o.Repeated, o.RepeatedAt, o.FirstAt = addr.String(), n, at
			return
		}
		seen[k] = n
	}
	return
}
