package main

// CLI stage: the real command line (cobra RunE of every packet-scan command, through the hook
// command.VerifC17RunCommand) runs in-process on the veth end (Ethernet) or on a tun device (VPN / raw-IP
// mode) of the private namespace, with os.Stdout redirected into a pipe; the JSON lines it prints are the
// observation.  Same sentinel protocol as the engine stage; the command is stopped with SIGINT (its own
// signal.NotifyContext) once the second sentinel's record has been printed.

import (
	"bufio"
	"encoding/hex"
	"encoding/json"
	"fmt"
	"net"
	"os"
	"os/signal"
	"path/filepath"
	"strings"
	"syscall"
	"time"
	"unsafe"

	afp "github.com/google/gopacket/afpacket"
	"github.com/v-byte-cpu/sx/command"
	"verifharness/cmd/c03/lib"
	"verifharness/hlib"
)

// one command line to run, given by the check (which also holds the expected scan class of each)
type cliIn struct {
	Name   string   `json:"name"`
	Argv   []string `json:"argv"`   // e.g. ["tcp","--flags","syn"]; interface, range and output options are appended
	Filter int      `json:"filter"` // which frames to generate: 0 tcp replies with any flags, 1 SYN+ACK-centred, 2 icmp, 3 arp
	Ports  bool     `json:"ports"`  // the command takes -p
	Tun    bool     `json:"tun"`    // run on the tun device (VPN mode)
	Chunks bool     `json:"chunks"` // 201 port ranges = two chunks of startPortScanEngine; the replies belong to the FIRST chunk
	// replay only
	Subnet string   `json:"subnet,omitempty"`
	PortsL [][2]int `json:"portlist,omitempty"`
	Frames []string `json:"frames,omitempty"`
}

type cliRec struct {
	Scan  string `json:"scan"`
	IP    string `json:"ip"`
	Port  int    `json:"port"`
	Flags string `json:"flags"`
	TTL   int    `json:"ttl"`
	ICMP  *struct {
		Type int `json:"type"`
		Code int `json:"code"`
	} `json:"icmp"`
	MAC    string `json:"mac"`
	Vendor string `json:"vendor"`
}

type tunDev struct{ f *os.File }

func openTun(name string) (*tunDev, error) {
	f, err := os.OpenFile("/dev/net/tun", os.O_RDWR, 0)
	if err != nil {
		return nil, err
	}
	var req [40]byte
	copy(req[:15], name)
	*(*uint16)(unsafe.Pointer(&req[16])) = 0x0001 | 0x1000 // IFF_TUN | IFF_NO_PI
	if _, _, e := syscall.Syscall(syscall.SYS_IOCTL, f.Fd(), uintptr(0x400454ca), uintptr(unsafe.Pointer(&req[0]))); e != 0 {
		f.Close()
		return nil, e
	}
	return &tunDev{f}, nil
}

func (t *tunDev) WritePacketData(b []byte) error { _, err := t.f.Write(b); return err }

type injector interface{ WritePacketData([]byte) error }

func ifaceIPv4(ifi *net.Interface) (net.IP, *net.IPNet) {
	addrs, _ := ifi.Addrs()
	for _, a := range addrs {
		if n, ok := a.(*net.IPNet); ok && n.IP.To4() != nil {
			return n.IP.To4(), n
		}
	}
	return nil, nil
}

func runCLI(id int, in cliIn, r *hlib.SplitMix64, ifa *net.Interface, inj injector, tmp string) caseOut {
	c := caseOut{ID: id, E2E: true, Cmd: in.Name, W: -1, Filter: in.Filter, VPN: in.Tun}
	myIP, myNet := ifaceIPv4(ifa)
	if myIP == nil {
		c.Err = "interface has no IPv4 address"
		return c
	}
	g := lib.NewGen(r, lib.Wiring{Cmd: in.Name, Filter: in.Filter, Method: "tcp"}, in.Tun)
	if in.Subnet != "" {
		c.Subnet, c.Ports = in.Subnet, in.PortsL
	} else {
		// a /28 inside the interface's /24, away from the interface address
		base := myNet.IP.To4()
		c.Subnet = fmt.Sprintf("%d.%d.%d.%d/28", base[0], base[1], base[2], 16+16*r.Intn(12))
		if in.Chunks {
			// 201 single-port ranges: startPortScanEngine scans the first 200 with one engine + filter, then the last one
			p0 := 1000 + r.Intn(30000)
			for j := 0; j < 201; j++ {
				c.Ports = append(c.Ports, [2]int{p0 + 3*j, p0 + 3*j})
			}
		} else if in.Ports {
			for j := 1 + r.Intn(3); j > 0; j-- {
				a := 1 + r.Intn(65000)
				c.Ports = append(c.Ports, [2]int{a, a + r.Intn(3)})
			}
		}
	}
	if c.Ports == nil {
		c.Ports = [][2]int{}
	}
	g.SetRange(c.Subnet, c.Ports)
	if in.Chunks && len(c.Ports) > 200 {
		// replies (and sentinels) come from ports of the first chunk, some of them from its last ranges
		g.SetRange(c.Subnet, [][2]int{c.Ports[0], c.Ports[100], c.Ports[198], c.Ports[199]})
	}
	rng := lib.BuildRange(c.Subnet, c.Ports)
	ip4 := rng.DstSubnet.IP.To4()
	c.Net = int64(ip4[0])<<24 | int64(ip4[1])<<16 | int64(ip4[2])<<8 | int64(ip4[3])
	c.Bits, _ = rng.DstSubnet.Mask.Size()
	c.SrcIP = myIP.String()

	frames, classes := g.Frames(8)
	if in.Frames != nil {
		frames, classes = nil, nil
		for _, h := range in.Frames {
			b, err := hex.DecodeString(h)
			if err != nil {
				panic(err)
			}
			frames, classes = append(frames, b), append(classes, "replay")
		}
	}
	var dst [4]byte
	copy(dst[:], myIP)
	g.FixDstIP, g.FixDstMAC = &dst, ifa.HardwareAddr
	if in.Tun {
		g.FixDstMAC = nil
	}
	sa, ipA := g.Sentinel(250)
	sb, ipB := g.Sentinel(251)
	g.FixDstIP, g.FixDstMAC = nil, nil
	c.Sentinel = hex.EncodeToString(sa)

	// the command line
	gw := "02:00:00:00:00:fe"
	arpFile := filepath.Join(tmp, "arp.cache")
	_ = os.WriteFile(arpFile, []byte(fmt.Sprintf("{\"ip\":\"%s\",\"mac\":\"%s\"}\n", ipA, gw)), 0o644)
	argv := append([]string{}, in.Argv...)
	argv = append(argv, "--json", "-i", ifa.Name, "--exit-delay", "60s")
	if in.Argv[0] != "arp" {
		argv = append(argv, "--gwmac", gw, "-a", arpFile)
	}
	if in.Ports {
		var ps []string
		for _, p := range c.Ports {
			ps = append(ps, fmt.Sprintf("%d-%d", p[0], p[1]))
		}
		argv = append(argv, "-p", strings.Join(ps, ","))
	}
	argv = append(argv, c.Subnet)
	c.Text = "sx " + strings.Join(argv, " ")

	// stdout of the command -> records
	pr, pw, err := os.Pipe()
	if err != nil {
		c.Err = err.Error()
		return c
	}
	oldStdout := os.Stdout
	os.Stdout = pw
	out := make(chan rec, 4096)
	go func() {
		sc := bufio.NewScanner(pr)
		for sc.Scan() {
			var x cliRec
			if json.Unmarshal(sc.Bytes(), &x) != nil || x.IP == "" {
				continue
			}
			y := rec{ip: x.IP, mac: x.MAC, flags: x.Flags, port: x.Port, ttl: x.TTL, scan: x.Scan}
			if x.ICMP != nil {
				y.t, y.c = x.ICMP.Type, x.ICMP.Code
			}
			out <- y
		}
		close(out)
	}()
	signalBarrier()
	done := make(chan error, 1)
	go func() { done <- command.VerifC17RunCommand(argv) }()

	var between []rec
	finished := false
	waitFor := func(frame []byte, ip string, collect bool) bool {
		deadline := time.Now().Add(20 * time.Second)
		for time.Now().Before(deadline) {
			if err := inj.WritePacketData(frame); err != nil {
				c.Err = "inject: " + err.Error()
				return false
			}
			tick := time.After(10 * time.Millisecond)
		L:
			for {
				select {
				case x := <-out:
					if x.ip == ip {
						return true
					}
					if collect && x.ip != ipA {
						between = append(between, x)
					}
				case err := <-done:
					finished = true
					c.Err = fmt.Sprint("command returned early: ", err)
					return false
				case <-tick:
					break L
				}
			}
		}
		return false
	}
	if waitFor(sa, ipA, false) {
		seenKey := map[string]bool{}
		for i, f := range frames {
			o := frameObs{Frame: hex.EncodeToString(f), Class: classes[i]}
			ip, port := frameKeyLink(in.Filter, in.Tun, f)
			// records are attributed to frames by source address (and port): every injected frame gets its own
			key := fmt.Sprint(ip, "/", port)
			if y, ok := frameRec(in.Filter, in.Tun, f); ok {
				key = fmt.Sprint(y.ip, "/", y.port, "/", y.ttl, "/", y.t, "/", y.c, "/", y.mac)
			}
			if ip != "" && seenKey[key] {
				c.Frames = append(c.Frames, o)
				continue
			}
			seenKey[key] = true
			minLen := 14
			if in.Tun {
				minLen = 20
			}
			if len(f) >= minLen && len(f) <= 1500 && ip != ipA && ip != ipB && classes[i] != "vlan" {
				o.Sent = inj.WritePacketData(f) == nil
			}
			c.Frames = append(c.Frames, o)
		}
		if in.Chunks {
			// the probes of the first chunk are long out: what follows arrives within its exit delay
			time.Sleep(400 * time.Millisecond)
		}
		if !waitFor(sb, ipB, true) && c.Err == "" {
			c.Err = "second-sentinel-not-reported"
		}
	} else if c.Err == "" {
		c.Err = "sentinel-not-reported"
	}
	// stop the command: its RunE listens for os.Interrupt.  The receiver sits in a poll without timeout, it
	// notices the cancellation only when a frame passes the filter: keep the sentinel coming.
	if !finished {
		stop := time.After(30 * time.Second)
	S:
		for {
			_ = syscall.Kill(os.Getpid(), syscall.SIGINT)
			_ = inj.WritePacketData(sa)
			select {
			case <-done:
				break S
			case <-stop:
				c.Err += " command-did-not-stop"
				break S
			case <-time.After(20 * time.Millisecond):
			}
		}
	}
	os.Stdout = oldStdout
	pw.Close()
	for range out {
	}
	pr.Close()
	matchRecords(&c, in.Filter, in.Tun, between)
	return c
}

var usr1 = make(chan os.Signal, 64)

// signalBarrier returns when every SIGINT this process sent itself so far has been dispatched by the Go runtime
// (to the handlers registered at that time): a later SIGUSR1 is dispatched after them.  Without it a late SIGINT
// meant for the previous command line could cancel the next one right after it registered its NotifyContext.
func signalBarrier() {
	for len(usr1) > 0 {
		<-usr1
	}
	_ = syscall.Kill(os.Getpid(), syscall.SIGUSR1)
	select {
	case <-usr1:
	case <-time.After(5 * time.Second):
	}
	time.Sleep(20 * time.Millisecond)
}

func runCLIStage(file string, w *hlib.Out, seed int64, ifaName, ifbName, tunName string) {
	// never die of our own SIGINTs
	signal.Notify(make(chan os.Signal, 16), os.Interrupt)
	signal.Notify(usr1, syscall.SIGUSR1)
	raw, err := os.ReadFile(file)
	if err != nil {
		panic(err)
	}
	var ins []cliIn
	if err := json.Unmarshal(raw, &ins); err != nil {
		panic(err)
	}
	tmp, _ := os.MkdirTemp("", "c03cli")
	defer os.RemoveAll(tmp)
	r := hlib.NewRand(seed)
	var eth *afp.TPacket
	var tun *tunDev
	stuck := false
	put := func(c caseOut) {
		if strings.Contains(c.Err, "did-not-stop") {
			stuck = true // it still owns stdout and the interface: nothing after it can be observed reliably
		}
		w.Put(c)
	}
	for i, in := range ins {
		if stuck {
			w.Put(caseOut{ID: i, E2E: true, Cmd: in.Name, W: -1, VPN: in.Tun, Err: "skip: an earlier command line did not stop"})
			continue
		}
		if in.Tun {
			if tun == nil {
				if tun, err = openTun(tunName); err != nil {
					w.Put(caseOut{ID: i, E2E: true, Cmd: in.Name, W: -1, Err: "skip: tun: " + err.Error()})
					continue
				}
				time.Sleep(100 * time.Millisecond)
			}
			ifi, err := net.InterfaceByName(tunName)
			if err != nil {
				w.Put(caseOut{ID: i, E2E: true, Cmd: in.Name, W: -1, Err: "skip: tun: " + err.Error()})
				continue
			}
			put(runCLI(i, in, r, ifi, tun, tmp))
			continue
		}
		if eth == nil {
			if eth, err = afp.NewTPacket(afp.SocketRaw, afp.OptInterface(ifbName)); err != nil {
				panic(err)
			}
		}
		ifi, err := net.InterfaceByName(ifaName)
		if err != nil {
			panic(err)
		}
		put(runCLI(i, in, r, ifi, eth, tmp))
	}
}
