// End-to-end driver for C03: runs the REAL startPortScanEngine / startPacketScanEngine of command/root.go
// (through the hook command.VerifC03StartPacketScan) on one end of a veth pair inside a private network
// namespace: real AF_PACKET source, the capture filter exactly as the engine installs it, applied by the
// KERNEL's BPF interpreter with the kernel's snapshot-length cut, real receiver and real ProcessPacketData,
// results taken from the logger the engine feeds.  Frames are injected on the other end of the pair.
//
// Only positive events are observed: a sentinel reply (addressed to the scanning host) is injected until
// its record arrives (the engine is listening), then the test frames once, then a second sentinel until
// its record arrives (everything before it has been through the receiver).  Records in between belong
// to the test frames; they are matched to frames in order by source address (and port).
package main

import (
	"context"
	"encoding/binary"
	"encoding/hex"
	"encoding/json"
	"flag"
	"fmt"
	"net"
	"os"
	"sync"
	"time"

	afp "github.com/google/gopacket/afpacket"
	"github.com/v-byte-cpu/sx/command"
	"github.com/v-byte-cpu/sx/pkg/packet"
	"github.com/v-byte-cpu/sx/pkg/scan"
	"github.com/v-byte-cpu/sx/pkg/scan/arp"
	"github.com/v-byte-cpu/sx/pkg/scan/icmp"
	"github.com/v-byte-cpu/sx/pkg/scan/tcp"
	"verifharness/cmd/c03/lib"
	"verifharness/hlib"
)

type frameObs struct {
	Frame    string `json:"frame"`
	Class    string `json:"class"`
	Sent     bool   `json:"sent"`
	VM       bool   `json:"vm"` // = reported (the kernel's verdict alone is not observable)
	Record   bool   `json:"record"`
	N        int    `json:"n"`
	IP       string `json:"ip,omitempty"`
	Port     int    `json:"port"`
	Flags    string `json:"flags"`
	TTL      int    `json:"ttl"`
	Type     int    `json:"type"`
	Code     int    `json:"code"`
	MAC      string `json:"mac,omitempty"`
	Scan     string `json:"scan,omitempty"`
	VendorOK bool   `json:"vendor_ok"`
}

type caseOut struct {
	ID            int        `json:"id"`
	E2E           bool       `json:"e2e"`
	Cmd           string     `json:"cmd"`
	W             int        `json:"w"`
	VPN           bool       `json:"vpn"`
	Filter        int        `json:"filter"`
	Subnet        string     `json:"subnet"`
	Net           int64      `json:"net"`
	Bits          int        `json:"bits"`
	Ports         [][2]int   `json:"ports"`
	SrcIP         string     `json:"srcip"`
	Text          string     `json:"text"`
	Err           string     `json:"err,omitempty"`       // the engine or the driver failed
	Sentinel      string     `json:"sentinel,omitempty"`  // hex of the first sentinel frame
	Unmatched     []string   `json:"unmatched,omitempty"` // records that belong to no injected frame
	UnmatchedRecs []frameObs `json:"unmatched_recs,omitempty"`
	Frames        []frameObs `json:"frames"`
}

// method = no probes at all + the real processor of the wiring
type method struct {
	lib.Processor
}

func (method) Packets(ctx context.Context, r *scan.Range) <-chan *packet.BufferData {
	ch := make(chan *packet.BufferData)
	close(ch)
	return ch
}

type rec struct {
	scan            string
	ip, mac, flags  string
	port, ttl, t, c int
	vendorOK        bool
}

type logger struct {
	mu   sync.Mutex
	errs []string
	out  chan rec
}

func (l *logger) Error(err error) {
	l.mu.Lock()
	l.errs = append(l.errs, err.Error())
	l.mu.Unlock()
}

func (l *logger) LogResults(ctx context.Context, results <-chan scan.Result) {
	for {
		select {
		case <-ctx.Done():
			return
		case r, ok := <-results:
			if !ok {
				return
			}
			var x rec
			switch v := r.(type) {
			case *tcp.ScanResult:
				x = rec{ip: v.IP, port: int(v.Port), flags: v.Flags}
			case *icmp.ScanResult:
				x = rec{ip: v.IP, ttl: int(v.TTL)}
				if v.ICMP != nil {
					x.t, x.c = int(v.ICMP.Type), int(v.ICMP.Code)
				}
			case *arp.ScanResult:
				x = rec{ip: v.IP, mac: v.MAC}
			}
			select {
			case l.out <- x:
			case <-ctx.Done():
				return
			}
		}
	}
}

// key of the record a frame would produce: source address (+ source port for TCP); "" if the frame has
// not even the fixed layout
func frameKeyLink(filter int, tun bool, f []byte) (string, int) {
	nl := 14
	if tun {
		nl = 0
	}
	if filter == 3 {
		if len(f) < 32 {
			return "", 0
		}
		return net.IP(f[28:32]).String(), 0
	}
	if len(f) < nl+20 {
		return "", 0
	}
	ip := net.IP(f[nl+12 : nl+16]).String()
	if filter <= 1 {
		o := nl + int(f[nl]&15)*4
		if len(f) < o+2 {
			return ip, -1
		}
		return ip, int(binary.BigEndian.Uint16(f[o:]))
	}
	return ip, 0
}

func frameKey(w lib.Wiring, f []byte) (string, int) { return frameKeyLink(w.Filter, false, f) }

// frameRec: the record a frame would produce if it were reported (fixed layout assumed)
func frameRec(filter int, tun bool, f []byte) (x rec, ok bool) {
	ip, port := frameKeyLink(filter, tun, f)
	if ip == "" || port < 0 {
		return x, false
	}
	x.ip, x.port = ip, port
	nl := 14
	if tun {
		nl = 0
	}
	switch {
	case filter == 3:
		if len(f) < 28 {
			return x, false
		}
		x.mac = net.HardwareAddr(f[22:28]).String()
	case filter == 2:
		o := nl + int(f[nl]&15)*4
		if len(f) < o+2 {
			return x, false
		}
		x.ttl, x.t, x.c = int(f[nl+8]), int(f[o]), int(f[o+1])
	default:
		o := nl + int(f[nl]&15)*4
		if len(f) < o+14 {
			return x, false
		}
		fl := int(f[o+12]&1)<<8 | int(f[o+13])
		for _, bc := range []struct {
			b int
			c byte
		}{{1, 's'}, {4, 'a'}, {0, 'f'}, {2, 'r'}, {3, 'p'}, {5, 'u'}, {6, 'e'}, {7, 'c'}, {8, 'n'}} {
			if fl>>uint(bc.b)&1 == 1 {
				x.flags += string(bc.c)
			}
		}
	}
	return x, true
}

// matchRecords assigns the records observed between the sentinels to the injected frames, in order: first
// the next frame whose own fields equal the record's, else the next frame with the record's address (and port).
func matchRecords(c *caseOut, filter int, tun bool, between []rec) {
	j := 0
	for _, x := range between {
		best := -1
		for pass := 0; pass < 2 && best < 0; pass++ {
			for k := j; k < len(c.Frames); k++ {
				if !c.Frames[k].Sent {
					continue
				}
				f, _ := hex.DecodeString(c.Frames[k].Frame)
				y, ok := frameRec(filter, tun, f)
				if !ok || y.ip != x.ip || (filter <= 1 && y.port != x.port) {
					continue
				}
				if pass == 0 && !(y.ttl == x.ttl && y.t == x.t && y.c == x.c && y.mac == x.mac && (x.flags == "" || y.flags == x.flags)) {
					continue
				}
				best = k
				break
			}
		}
		if best < 0 {
			c.Unmatched = append(c.Unmatched, fmt.Sprintf("%+v", x))
			c.UnmatchedRecs = append(c.UnmatchedRecs, frameObs{Record: true, N: 1, IP: x.ip, Port: x.port, Flags: x.flags,
				TTL: x.ttl, Type: x.t, Code: x.c, MAC: x.mac, Scan: x.scan})
			continue
		}
		o := &c.Frames[best]
		o.N++
		o.VM, o.Record = true, true
		o.IP, o.Port, o.Flags, o.TTL, o.Type, o.Code, o.MAC, o.Scan = x.ip, x.port, x.flags, x.ttl, x.t, x.c, x.mac, x.scan
		o.VendorOK = true
		j = best + 1
	}
}

type replayIn struct {
	W      int      `json:"w"`
	Subnet string   `json:"subnet"`
	Ports  [][2]int `json:"ports"`
	Frames []string `json:"frames"`
}

func runCase(id, wi int, w lib.Wiring, r *hlib.SplitMix64, ifa *net.Interface, inj *afp.TPacket, per int, fixed *replayIn) caseOut {
	c := caseOut{ID: id, E2E: true, Cmd: w.Cmd, W: wi, Filter: w.Filter}
	g := lib.NewGen(r, w, false)
	if fixed != nil {
		c.Subnet, c.Ports = fixed.Subnet, fixed.Ports
		g.SetRange(fixed.Subnet, fixed.Ports)
	} else {
		c.Subnet, c.Ports = g.E2ERange()
	}
	if c.Ports == nil {
		c.Ports = [][2]int{}
	}
	rng := lib.BuildRange(c.Subnet, c.Ports)
	if rng.DstSubnet != nil {
		ip4 := rng.DstSubnet.IP.To4()
		c.Net = int64(ip4[0])<<24 | int64(ip4[1])<<16 | int64(ip4[2])<<8 | int64(ip4[3])
		c.Bits, _ = rng.DstSubnet.Mask.Size()
	}
	src := [4]byte{192, 0, 2, byte(1 + r.Intn(200))}
	rng.Interface, rng.SrcIP, rng.SrcMAC = ifa, net.IP(src[:]), ifa.HardwareAddr
	c.SrcIP = rng.SrcIP.String()
	c.Text, _ = lib.FilterText(w.Filter, rng)

	// test frames: addressed to arbitrary hosts (the property does not mention the destination)
	frames, classes := g.Frames(per)
	if fixed != nil {
		frames, classes = nil, nil
		for _, h := range fixed.Frames {
			b, err := hex.DecodeString(h)
			if err != nil {
				panic(err)
			}
			frames, classes = append(frames, b), append(classes, "replay")
		}
	}
	// sentinels: addressed to the scanning host itself
	g.FixDstIP, g.FixDstMAC = &src, ifa.HardwareAddr
	sa, ipA := g.Sentinel(250)
	sb, ipB := g.Sentinel(251)
	g.FixDstIP, g.FixDstMAC = nil, nil
	c.Sentinel = hex.EncodeToString(sa)

	ctx, cancel := context.WithCancel(context.Background())
	defer cancel()
	rc := scan.NewResultChan(ctx, 1000)
	lg := &logger{out: make(chan rec, 4096)}
	done := make(chan error, 1)
	go func() {
		done <- command.VerifC03StartPacketScan(ctx, w.Chunked, rng, false,
			func(r *scan.Range) (string, int) { return lib.FilterText(w.Filter, r) },
			method{lib.NewProcessor(w, false, rc)}, lg, time.Minute)
	}()
	// wait (positively) for a record from host `ip`, re-injecting `frame` every 10 ms; collects other records
	var between []rec
	waitFor := func(frame []byte, ip string, collect bool) bool {
		deadline := time.Now().Add(20 * time.Second)
		for time.Now().Before(deadline) {
			if err := inj.WritePacketData(frame); err != nil {
				c.Err = "inject: " + err.Error()
				return false
			}
			tick := time.After(10 * time.Millisecond)
		L:
			for {
				select {
				case x := <-lg.out:
					if x.ip == ip {
						return true
					}
					if collect && x.ip != ipA {
						between = append(between, x)
					}
				case err := <-done:
					c.Err = fmt.Sprint("engine returned early: ", err)
					return false
				case <-tick:
					break L
				}
			}
		}
		return false
	}
	if !waitFor(sa, ipA, false) {
		if c.Err == "" {
			c.Err = "sentinel-not-reported"
		}
		cancel()
		return c
	}
	seenKey := map[string]bool{}
	for i, f := range frames {
		o := frameObs{Frame: hex.EncodeToString(f), Class: classes[i]}
		ip, port := frameKey(w, f)
		key := fmt.Sprint(ip, "/", port)
		if y, ok := frameRec(w.Filter, false, f); ok {
			key = fmt.Sprint(y.ip, "/", y.port, "/", y.ttl, "/", y.t, "/", y.c, "/", y.mac)
		}
		if ip != "" && seenKey[key] {
			c.Frames = append(c.Frames, o)
			continue
		}
		seenKey[key] = true
		// (802.1Q-tagged frames are left out: the kernel strips the tag before the socket filter runs)
		if len(f) >= 14 && len(f) <= 1514 && ip != ipA && ip != ipB && classes[i] != "vlan" {
			o.Sent = inj.WritePacketData(f) == nil
		}
		c.Frames = append(c.Frames, o)
	}
	if !waitFor(sb, ipB, true) && c.Err == "" {
		c.Err = "second-sentinel-not-reported"
	}
	cancel()
	// the receiver sits in a poll without timeout and sees the cancellation only when a frame passes the
	// filter: keep the sentinel coming until the engine has returned
	stop := time.After(30 * time.Second)
S:
	for {
		_ = inj.WritePacketData(sa)
		select {
		case <-done:
			break S
		case <-stop:
			c.Err += " engine-did-not-stop"
			break S
		case <-time.After(20 * time.Millisecond):
		}
	}
	matchRecords(&c, w.Filter, false, between)
	return c
}

func main() {
	out := flag.String("out", "e2e.jsonl", "output file")
	seed := flag.Int64("seed", 1, "seed")
	n := flag.Int("n", 16, "number of cases")
	per := flag.Int("per", 8, "test frames per case")
	wfile := flag.String("wiring", "", "JSON file with the translated wirings")
	ifaName := flag.String("ifa", "vc3a", "interface the engine listens on")
	ifbName := flag.String("ifb", "vc3b", "peer interface the frames are injected on")
	replay := flag.String("replay", "", "JSON file with explicit cases [{w,subnet,ports,frames}]")
	closerace := flag.Bool("closerace", false, "close-race stage: a frame read before Source.Close is processed after it")
	cli := flag.String("cli", "", "JSON file with command lines to run through the real RunE (CLI stage)")
	tunName := flag.String("tun", "vc3t", "tun device for the VPN-mode command lines")
	flag.Parse()
	if *cli != "" {
		w := hlib.NewOut(*out)
		defer w.Close()
		runCLIStage(*cli, w, *seed, *ifaName, *ifbName, *tunName)
		return
	}
	var ws []lib.Wiring
	raw, err := os.ReadFile(*wfile)
	if err != nil {
		panic(err)
	}
	if err := json.Unmarshal(raw, &ws); err != nil {
		panic(err)
	}
	ifa, err := net.InterfaceByName(*ifaName)
	if err != nil {
		fmt.Fprintln(os.Stderr, "e2e:", err)
		os.Exit(3)
	}
	inj, err := afp.NewTPacket(afp.SocketRaw, afp.OptInterface(*ifbName))
	if err != nil {
		fmt.Fprintln(os.Stderr, "e2e:", err)
		os.Exit(3)
	}
	defer inj.Close()
	w := hlib.NewOut(*out)
	defer w.Close()
	if *closerace {
		closeRaceStage(w, ws, *seed, ifa, inj)
		return
	}
	r := hlib.NewRand(*seed)
	if *replay != "" {
		raw, err := os.ReadFile(*replay)
		if err != nil {
			panic(err)
		}
		var ins []replayIn
		if err := json.Unmarshal(raw, &ins); err != nil {
			panic(err)
		}
		for i := range ins {
			w.Put(runCase(i, ins[i].W, ws[ins[i].W], r, ifa, inj, 0, &ins[i]))
		}
		return
	}
	for i := 0; i < *n; i++ {
		wi := i % len(ws)
		w.Put(runCase(i, wi, ws[wi], r, ifa, inj, *per, nil))
	}
}
