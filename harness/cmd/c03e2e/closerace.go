package main

// Close-race stage (C06): the schedule of every scan end and of every port-chunk boundary -- the receiver
// goroutine has read a frame from the AF_PACKET source, the main goroutine closes the source
// (startPacketScanEngine's deferred ps.Close() does not wait for the receiver), the receiver then processes
// the frame -- made deterministic: read one injected reply through the REAL afpacket.Source, Close it, then
// hand the bytes to the real ProcessPacketData.  The frame must still be processed from intact bytes.
// debug.SetPanicOnFault turns a fault on unmapped ring memory (fatal in the real process) into a panic.

import (
	"context"
	"encoding/hex"
	"fmt"
	"net"
	"runtime/debug"
	"time"

	afp "github.com/google/gopacket/afpacket"
	"github.com/v-byte-cpu/sx/pkg/packet/afpacket"
	"github.com/v-byte-cpu/sx/pkg/scan"
	"github.com/v-byte-cpu/sx/pkg/scan/arp"
	"github.com/v-byte-cpu/sx/pkg/scan/icmp"
	"github.com/v-byte-cpu/sx/pkg/scan/tcp"
	"verifharness/cmd/c03/lib"
	"verifharness/hlib"
)

type closeOut struct {
	CloseRace bool   `json:"closerace"`
	Cmd       string `json:"cmd"`
	W         int    `json:"w"`
	Frame     string `json:"frame"`
	Read      bool   `json:"read"`   // the frame came back from Source.ReadPacketData
	Same      bool   `json:"same"`   // ... with the bytes that were sent
	Record    bool   `json:"record"` // ProcessPacketData after Close emitted a record
	IP        string `json:"ip,omitempty"`
	Port      int    `json:"port"`
	MAC       string `json:"mac,omitempty"`
	Err       string `json:"err,omitempty"`   // error returned by ProcessPacketData
	Panic     string `json:"panic,omitempty"` // panic that escaped it
	Setup     string `json:"setup,omitempty"` // the stage itself could not run
}

func closeRace(wi int, w lib.Wiring, r *hlib.SplitMix64, ifa *net.Interface, inj *afp.TPacket) closeOut {
	o := closeOut{CloseRace: true, Cmd: w.Cmd, W: wi}
	g := lib.NewGen(r, w, false)
	g.SetRange("", nil)
	frame, _ := g.Sentinel(250)
	o.Frame = hex.EncodeToString(frame)
	src, err := afpacket.NewPacketSource(ifa.Name, false)
	if err != nil {
		o.Setup = err.Error()
		return o
	}
	text, snap := lib.FilterText(w.Filter, lib.BuildRange("", nil))
	if err := src.SetBPFFilter(text, snap); err != nil {
		src.Close()
		o.Setup = err.Error()
		return o
	}
	var data []byte
	deadline := time.Now().Add(20 * time.Second)
	for data == nil && time.Now().Before(deadline) {
		if err := inj.WritePacketData(frame); err != nil {
			o.Setup = "inject: " + err.Error()
			break
		}
		for k := 0; k < 3 && data == nil; k++ {
			d, _, err := src.ReadPacketData()
			if err == nil && len(d) == len(frame) {
				data = d
			}
		}
	}
	src.Close() // scan end / chunk boundary
	if data == nil {
		if o.Setup == "" {
			o.Setup = "the injected frame never came back from ReadPacketData"
		}
		return o
	}
	o.Read = true
	ctx, cancel := context.WithCancel(context.Background())
	defer cancel()
	rc := scan.NewResultChan(ctx, 1000)
	p := lib.NewProcessor(w, false, rc)
	func() {
		defer debug.SetPanicOnFault(debug.SetPanicOnFault(true))
		defer func() {
			if x := recover(); x != nil {
				o.Panic = fmt.Sprint(x)
			}
		}()
		o.Same = string(data) == string(frame)
		if err := p.ProcessPacketData(data, nil); err != nil {
			o.Err = err.Error()
		}
	}()
	rc.Put(&endMark{})
	for x := range p.Results() {
		if _, ok := x.(*endMark); ok {
			break
		}
		o.Record = true
		switch v := x.(type) {
		case *tcp.ScanResult:
			o.IP, o.Port = v.IP, int(v.Port)
		case *icmp.ScanResult:
			o.IP = v.IP
		case *arp.ScanResult:
			o.IP, o.MAC = v.IP, v.MAC
		}
	}
	return o
}

type endMark struct{}

func (*endMark) String() string               { return "end" }
func (*endMark) ID() string                   { return "end" }
func (*endMark) MarshalJSON() ([]byte, error) { return []byte("null"), nil }

func closeRaceStage(w *hlib.Out, ws []lib.Wiring, seed int64, ifa *net.Interface, inj *afp.TPacket) {
	r := hlib.NewRand(seed)
	seen := map[string]bool{}
	for i, x := range ws {
		if seen[x.Method] {
			continue
		}
		seen[x.Method] = true
		w.Put(closeRace(i, x, r, ifa, inj))
	}
}
