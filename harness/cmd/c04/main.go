// Driver for C04: runs the real newRangeIterator on generated sizes and seeds and records what a
// caller observes (error, P, G', startI, the first K outputs, whether the walk completed).
package main

import (
	"flag"
	"fmt"
	"math/big"
	"math/rand"

	"github.com/v-byte-cpu/sx/pkg/scan"
	"verifharness/hlib"
)

type obs struct {
	N        int64   `json:"n"`
	Seed     int64   `json:"seed"`
	R1       int64   `json:"r1"`
	R2       int64   `json:"r2"`
	Class    string  `json:"class"`
	Err      string  `json:"err"`
	P        string  `json:"P"`
	G        string  `json:"G"`
	StartI   string  `json:"startI"`
	K        int     `json:"k"`
	Outs     []int64 `json:"outs"`
	Complete bool    `json:"complete"`
	// full-walk mode (failing-input search): outputs are counted and checked against a bitmap
	Walk  bool   `json:"walk,omitempty"`
	Count int64  `json:"count,omitempty"`
	Dup   string `json:"dup,omitempty"`
	OOR   string `json:"oor,omitempty"`
	// jump cases: the element whose predecessor the iterator was moved to, and what one step yielded
	JumpTarget int64  `json:"jump_target,omitempty"`
	JumpGot    string `json:"jump_got,omitempty"`
	// alias cases: the start element the iterator was given and the skipped element the step began at
	JumpStart string `json:"jump_start,omitempty"`
	JumpVia   string `json:"jump_via,omitempty"`
	JumpPred  string `json:"jump_pred,omitempty"`
}

// newIter calls the real constructor; a panic becomes an error text (the property demands an error value)
func newIter(n int64) (it *scan.VerifRangeIterator, kind string) {
	defer func() {
		if r := recover(); r != nil {
			it, kind = nil, fmt.Sprint("panic: ", r)
		}
	}()
	x, err := scan.VerifNewRangeIterator(n)
	if err != nil {
		if err == scan.VerifErrRangeSize() {
			return nil, "RangeSize"
		}
		return nil, "InvalidGroup"
	}
	return x, ""
}

// walkCase walks the whole range (at most limit outputs) without recording it.
func walkCase(n, seed, limit int64) obs {
	o := obs{N: n, Seed: seed, K: int(limit), Class: "walk", Walk: true}
	rand.Seed(seed)
	it, kind := newIter(n)
	if kind != "" {
		o.Err = kind
		return o
	}
	o.P, o.G, o.StartI = it.P().String(), it.G().String(), it.StartI().String()
	seen := make([]uint64, n/64+1)
	for o.Count < limit {
		x := it.Int().Int64()
		if len(o.Outs) < 16 {
			o.Outs = append(o.Outs, x)
		}
		o.Count++
		if x < 1 || x > n {
			if o.OOR == "" {
				o.OOR = it.Int().String()
			}
		} else if seen[x/64]&(1<<uint(x%64)) != 0 {
			if o.Dup == "" {
				o.Dup = it.Int().String()
			}
		} else {
			seen[x/64] |= 1 << uint(x%64)
		}
		if !it.Next() {
			o.Complete = true
			break
		}
	}
	return o
}

// interleavedCase: a walk that is suspended after `before` numbers while `others` further iterators (sizes of the same
// table row and of other rows) are constructed and stepped -- as a scan does: one address walk per port, port and
// address walks of the same group size alive at the same time -- and then continued to its end.
func interleavedCase(n, seed int64, before, others int) obs {
	o := obs{N: n, Seed: seed, K: others, Class: "interleaved", Walk: true}
	rand.Seed(seed)
	it, kind := newIter(n)
	if kind != "" {
		o.Err = kind
		return o
	}
	o.P, o.G, o.StartI = it.P().String(), it.G().String(), it.StartI().String()
	seen := make([]uint64, n/64+1)
	limit := n + 2
	for o.Count < limit {
		x := it.Int().Int64()
		if len(o.Outs) < 16 {
			o.Outs = append(o.Outs, x)
		}
		o.Count++
		if x < 1 || x > n {
			if o.OOR == "" {
				o.OOR = it.Int().String()
			}
		} else if seen[x/64]&(1<<uint(x%64)) != 0 {
			if o.Dup == "" {
				o.Dup = it.Int().String()
			}
		} else {
			seen[x/64] |= 1 << uint(x%64)
		}
		if o.Count == int64(before) {
			for j := 0; j < others; j++ {
				m := n - int64(j%7)
				if j%5 == 4 {
					m = n/2 + 1
				}
				if m < 1 {
					m = 1
				}
				if ot, k := newIter(m); k == "" {
					ot.Next()
					ot.Next()
				}
			}
		}
		if !it.Next() {
			o.Complete = true
			break
		}
	}
	return o
}

func runCase(n, seed int64, k int, class string) obs {
	// replay the draws the code will make on a private source with the same seed
	priv := rand.New(rand.NewSource(seed))
	o := obs{N: n, Seed: seed, K: k, Class: class, R1: priv.Int63(), R2: priv.Int63()}
	rand.Seed(seed)
	it, kind := newIter(n)
	if kind != "" {
		o.Err = kind
		return o
	}
	o.P, o.G, o.StartI = it.P().String(), it.G().String(), it.StartI().String()
	for len(o.Outs) < k {
		o.Outs = append(o.Outs, it.Int().Int64())
		if !it.Next() {
			o.Complete = true
			break
		}
	}
	return o
}

func main() {
	out := flag.String("out", "cases.jsonl", "output file")
	seed := flag.Int64("seed", 1, "seed")
	count := flag.Int("n", 400, "number of generated cases")
	full := flag.Int64("full", 4096, "sizes up to this bound are walked completely")
	prefix := flag.Int("prefix", 300, "number of outputs recorded for larger sizes")
	one := flag.String("replay", "", "replay one case: n,seed,k")
	walk := flag.String("walk", "", "walk one whole range with a bitmap: n,seed,limit")
	sweep := flag.String("sweep", "", "exhaustive small sizes: N,S = every n in 1..N under seeds 1..S, walked completely with a bitmap")
	inter := flag.Bool("interleaved", false, "walks suspended while more than a thousand further iterators of the same and of other table rows are constructed, then continued to their end")
	inter1 := flag.String("interleaved1", "", "replay one interleaved walk: n,seed,others")
	jump := flag.Bool("jump", false, "for sizes at both ends of every table row and around 2^32: from the predecessor of n, n-1, 1 and a middle element one step must yield that element")
	sparse := flag.String("sparse", "", "sparse sizes: LIMIT,S = for every table row with P <= LIMIT the sizes just above the previous row's prime (about half of the group is out of range), walked completely with a bitmap under S seeds")
	flag.Parse()
	w := hlib.NewOut(*out)
	defer w.Close()
	if *inter1 != "" {
		var n, sd int64
		var others int
		if _, err := fmtSscan(*inter1, &n, &sd, &others); err != nil {
			panic(err)
		}
		w.Put(interleavedCase(n, sd, int(n/3)+1, others))
		return
	}
	if *inter {
		for i, n := range []int64{1100, 300, 5000, 40000, 70000, 17, 2000} {
			for y := int64(0); y < 2; y++ {
				w.Put(interleavedCase(n, *seed+int64(i)*101+y, int(n/3)+1, 1100+i*500))
			}
		}
		return
	}
	if *jump {
		// every element of 1..n is yielded: move the iterator to the predecessor (on its own cycle) of chosen targets
		// -- n itself, n-1, 1, and a middle element -- and take one step; also beyond the end: the successor of an
		// element may never be outside 1..n
		rows := scan.VerifCyclicGroups()
		var sizes []int64
		prev := int64(1)
		for _, row := range rows {
			sizes = append(sizes, prev, row[0]-1)
			prev = row[0]
		}
		sizes = append(sizes, 1<<32, 1<<32-1, 1<<31, 1<<16, 255, 256, 2)
		for _, n := range sizes {
			if n < 2 {
				continue
			}
			for y := int64(1); y <= 2; y++ {
				for _, t := range []int64{n, n - 1, 1, n/2 + 1} {
					o := obs{N: n, Seed: y*15485863 + n, K: 1, Class: "jump", Walk: true}
					rand.Seed(o.Seed)
					it, kind := newIter(n)
					if kind != "" {
						o.Err = kind
						w.Put(o)
						continue
					}
					o.P, o.G, o.StartI = it.P().String(), it.G().String(), it.StartI().String()
					target := big.NewInt(t)
					if target.Cmp(it.StartI()) == 0 {
						continue // the walk ends when it comes back to its start: that element was yielded first
					}
					inv := new(big.Int).ModInverse(it.G(), it.P())
					pred := new(big.Int).Mul(target, inv)
					pred.Mod(pred, it.P())
					it.SetI(pred)
					o.JumpTarget = t
					if it.Next() {
						o.Outs = []int64{it.Int().Int64()}
						o.JumpGot = it.Int().String()
					} else {
						o.JumpGot = "end"
					}
					o.Count = 1
					w.Put(o)
				}
			}
		}
		// elements that agree with the start element in their low bits: the walk ends when it is back AT its start, not
		// at an element that looks like it in a machine word. The start is set to k (every in-range element can be drawn
		// as the start), the position to the predecessor of y = k + m*2^b (y in the group, y != k); the step must yield the
		// first in-range element of y, y*G', y*G'^2, ... unless k itself comes first.
		for _, n := range append(sizes, 1<<31+11, 3<<30, 1<<32-61, 40000, 70000, 1<<24+5) {
			if n < 2 {
				continue
			}
			for _, k := range []int64{1, 2, 10, 60, n, n - 1, n/2 + 1} {
				for _, b := range []uint{8, 16, 24, 31, 32} {
					for _, m := range []int64{1, -1} {
						o := obs{N: n, Seed: 32452843 + n, K: 1, Class: "jump", Walk: true}
						rand.Seed(o.Seed)
						it, kind := newIter(n)
						if kind != "" || k < 1 || k > n {
							continue
						}
						P, G := it.P(), it.G()
						y := big.NewInt(k + m<<b)
						if y.Sign() <= 0 || y.Cmp(P) >= 0 {
							continue
						}
						start := big.NewInt(k)
						// expected: first element of y, y*G', ... that is in range; none when the start comes first
						z, lim := new(big.Int).Set(y), big.NewInt(n)
						steps := 0
						for z.Cmp(lim) > 0 && steps < 1<<20 {
							z.Mul(z, G).Mod(z, P)
							steps++
						}
						if z.Cmp(start) == 0 || z.Cmp(lim) > 0 {
							continue
						}
						o.P, o.G, o.StartI = P.String(), G.String(), start.String()
						o.JumpStart, o.JumpVia = start.String(), y.String()
						it.SetStart(start)
						pred := new(big.Int).Mul(y, new(big.Int).ModInverse(G, P))
						it.SetI(pred.Mod(pred, P))
						o.JumpPred = pred.String()
						o.JumpTarget = z.Int64()
						if it.Next() {
							o.Outs = []int64{it.Int().Int64()}
							o.JumpGot = it.Int().String()
						} else {
							o.JumpGot = "end"
						}
						o.Count = 1
						w.Put(o)
					}
				}
			}
		}
		return
	}
	if *sparse != "" {
		var lim, sd int64
		var k int
		if _, err := fmtSscan(*sparse+",0", &lim, &sd, &k); err != nil {
			panic(err)
		}
		prev := int64(1)
		for _, row := range scan.VerifCyclicGroups() {
			if row[0] > lim {
				break
			}
			for _, n := range []int64{prev, prev + 1, prev + (row[0]-prev)/7} {
				if n < 1 || n >= row[0] {
					continue
				}
				for y := int64(1); y <= sd; y++ {
					o := walkCase(n, y*104729+n, n+2)
					o.Class = "sparse"
					w.Put(o)
				}
			}
			prev = row[0]
		}
		return
	}
	if *walk != "" {
		var n, s int64
		var k int
		if _, err := fmtSscan(*walk, &n, &s, &k); err != nil {
			panic(err)
		}
		w.Put(walkCase(n, s, int64(k)))
		return
	}
	if *sweep != "" {
		var n, sd int64
		var k int
		if _, err := fmtSscan(*sweep+",0", &n, &sd, &k); err != nil {
			panic(err)
		}
		for x := int64(1); x <= n; x++ {
			for y := int64(1); y <= sd; y++ {
				o := walkCase(x, y*7919+x, x+2)
				o.Class = "sweep"
				w.Put(o)
			}
		}
		return
	}
	if *one != "" {
		var n, s int64
		var k int
		if _, err := fmtSscan(*one, &n, &s, &k); err != nil {
			panic(err)
		}
		w.Put(runCase(n, s, k, "replay"))
		return
	}
	r := hlib.NewRand(*seed)
	rows := scan.VerifCyclicGroups()
	// reject / accept boundary (fixed)
	for _, n := range []int64{0, -1, -1 << 40, 1<<32 + 60, 1<<32 + 61, 1<<32 + 62, 1 << 62, 1<<63 - 1} {
		w.Put(runCase(n, r.Int63(), 3, "boundary"))
	}
	// both ends of every row's interval: n = prevP (first n served by this row) and n = P-1
	prev := int64(1)
	for _, row := range rows {
		for _, n := range []int64{prev, row[0] - 1} {
			if n >= 1 {
				k := *prefix
				if n <= *full {
					k = int(n) + 1
				}
				w.Put(runCase(n, r.Int63(), k, "row-edge"))
			}
		}
		prev = row[0]
	}
	for i := 0; i < *count; i++ {
		var n int64
		class := ""
		switch r.Intn(4) {
		case 0: // small, complete walk
			n = 1 + int64(r.Intn(int(*full)))
			class = "small"
		case 1: // power of two and neighbours
			n = int64(1)<<uint(r.Intn(33)) + int64(r.Intn(3)) - 1
			class = "pow2"
		case 2: // uniform row, uniform n inside the row
			i := r.Intn(len(rows))
			lo := int64(1)
			if i > 0 {
				lo = rows[i-1][0]
			}
			n = lo + int64(r.Uint64()%uint64(rows[i][0]-lo))
			class = "row-uniform"
		default:
			n = 1 + int64(r.Uint64()%(1<<32))
			class = "uniform32"
		}
		if n < 1 {
			n = 1
		}
		k := *prefix
		if n <= *full {
			k = int(n) + 1
		}
		w.Put(runCase(n, r.Int63(), k, class))
	}
}
