package main

import (
	"fmt"
	"strings"
)

func fmtSscan(s string, n, seed *int64, k *int) (int, error) {
	return fmt.Sscan(strings.ReplaceAll(s, ",", " "), n, seed, k)
}
