// Package hlib holds helpers shared by the per-property harness drivers.
package hlib

import (
	"bufio"
	"encoding/json"
	"fmt"
	"os"
)

// Out writes one JSON object per line.
type Out struct {
	w *bufio.Writer
	f *os.File
	N int
}

func NewOut(path string) *Out {
	f, err := os.Create(path)
	if err != nil {
		fmt.Fprintln(os.Stderr, err)
		os.Exit(2)
	}
	return &Out{w: bufio.NewWriterSize(f, 1<<20), f: f}
}

func (o *Out) Put(v interface{}) {
	b, err := json.Marshal(v)
	if err != nil {
		fmt.Fprintln(os.Stderr, "marshal:", err)
		os.Exit(2)
	}
	o.w.Write(b)
	o.w.WriteByte('\n')
	o.N++
}

// Flush makes what was written so far survive a crash of the process.
func (o *Out) Flush() { o.w.Flush() }

func (o *Out) Close() {
	o.w.Flush()
	o.f.Close()
}

// SplitMix64 is the single PRNG from which every random choice of a driver is derived.
type SplitMix64 struct{ s uint64 }

func NewRand(seed int64) *SplitMix64 { return &SplitMix64{uint64(seed)*0x9E3779B97F4A7C15 + 0x1234567} }

func (r *SplitMix64) Uint64() uint64 {
	r.s += 0x9E3779B97F4A7C15
	z := r.s
	z = (z ^ (z >> 30)) * 0xBF58476D1CE4E5B9
	z = (z ^ (z >> 27)) * 0x94D049BB133111EB
	return z ^ (z >> 31)
}

func (r *SplitMix64) Intn(n int) int {
	if n <= 0 {
		return 0
	}
	return int(r.Uint64() % uint64(n))
}

func (r *SplitMix64) Int63() int64 { return int64(r.Uint64() >> 1) }

func (r *SplitMix64) Bool() bool { return r.Uint64()&1 == 1 }

// Bytes returns n random bytes.
func (r *SplitMix64) Bytes(n int) []byte {
	b := make([]byte, n)
	for i := range b {
		b[i] = byte(r.Uint64())
	}
	return b
}
