"""Shared machinery of bin/check: translator, Coq build, harness build/run, model evaluation inside
Coq (cases.v + vm_compute), verdicts, evidence, known findings."""
import fcntl
import json
import os
import re
import shutil
import subprocess
import sys
import time

ROOT = os.path.dirname(os.path.dirname(os.path.abspath(__file__)))
REPO = os.environ.get("VERIF_REPO", "/repo")
WORK = os.path.join(ROOT, "work")
COQ_SHARED = os.path.join(ROOT, "coq")
if REPO == "/repo":
    COQ = COQ_SHARED
    HBIN = os.path.join(ROOT, "harness", "bin")
else:
    # ... and its own directory of harness binaries (built against that tree)
    HBIN = os.path.join(ROOT, "harness", "bin-" + re.sub(r"\W", "_", REPO))
    # a scratch worktree of the repository gets its own copy of the Coq tree (sources are synced from
    # /verif/coq at the start of every check, Gen/ and the compiled files are its own), so that its
    # translator output can never disturb checks running against /repo or other worktrees
    COQ = os.path.join(WORK, "coq-" + re.sub(r"\W", "_", REPO))
GOENV = dict(os.environ, GOFLAGS="-mod=mod", GOPROXY="off", GOSUMDB="off", GOTOOLCHAIN="local",
             CGO_ENABLED=os.environ.get("CGO_ENABLED", "1"))

FORBIDDEN = [
    r"\bAdmitted\b", r"\badmit\b", r"\bAxiom\b", r"\bAxioms\b", r"\bParameter\b", r"\bParameters\b",
    r"\bConjecture\b", r"Unset\s+Guard\s+Checking", r"Unset\s+Positivity", r"Unset\s+Universe\s+Checking",
    r"bypass_check", r"type-in-type", r"impredicative-set", r"Admit\s+Obligations", r"\bgive_up\b",
    r"\bnative_compute\b",
]

STD_TRUSTED = [
    "Coq 8.16.1 kernel incl. its bytecode VM (vm_compute); native_compute not used",
    "tools/gen (Go AST translator) transcribes tables/constants/wiring of /repo into coq/Gen",
    "correspondence harness (Go, -tags verif) + pylib/verif.py feed the same inputs to code and model and compare",
]


def sh(cmd, timeout=None, env=None, cwd=None, input=None):
    p = subprocess.run(cmd, stdout=subprocess.PIPE, stderr=subprocess.STDOUT, timeout=timeout,
                       env=env, cwd=cwd, input=input, text=True, errors="replace")
    return p.returncode, p.stdout


def strip_comments(text):
    out, depth, i = [], 0, 0
    while i < len(text):
        if text.startswith("(*", i):
            depth += 1
            i += 2
        elif text.startswith("*)", i) and depth > 0:
            depth -= 1
            i += 2
        else:
            if depth == 0:
                out.append(text[i])
            i += 1
    return "".join(out)


def coq_z(n):
    n = int(n)
    return "(%d)" % n if n < 0 else "%d" % n


def coq_list(items):
    return "[" + "; ".join(items) + "]"


def coq_bool(b):
    return "true" if b else "false"


def coq_bytes(bs):
    """list of byte values as list Z"""
    return "[" + ";".join(str(int(b)) for b in bs) + "]"


def coq_packed(bs):
    """bytes -> Coq term of type Base.Bytes.packed (7 bytes per primitive int literal); decode in
    Coq with [unpack]. Requires `From Coq Require Import Uint63.` in the case file."""
    bs = bytes(bs)
    words = []
    for i in range(0, len(bs), 7):
        words.append(str(int.from_bytes(bs[i:i + 7], "little")))
    return "(%d%%nat, [%s]%%uint63)" % (len(bs), ";".join(words))


def coq_string(s):
    """Coq string literal for printable ASCII; other bytes must be passed as byte lists instead."""
    out = ['"']
    for ch in s:
        o = ord(ch)
        if o < 32 or o > 126:
            raise ValueError("non-printable in coq_string")
        out.append('""' if ch == '"' else ch)
    out.append('"')
    return "".join(out)


class Broken(Exception):
    """A tie or proof obligation no longer checks."""

    def __init__(self, what, detail=""):
        super().__init__(what)
        self.what = what
        self.detail = detail


class Ctx:
    def __init__(self, pid, tier, seed, replay=False):
        self.pid = pid
        self.tier = tier
        self.seed = seed
        self.t0 = time.time()
        # a replay run gets its own scratch directory so that the replay file under work/<pid> survives
        self.work = os.path.join(WORK, pid + ("-replay" if replay else "") +
                                 ("" if REPO == "/repo" else "@" + re.sub(r"\W", "_", REPO)))
        if COQ != COQ_SHARED:
            os.makedirs(COQ, exist_ok=True)
            with open(os.path.join(WORK, ".coqsync.lock"), "w") as lk:
                fcntl.flock(lk, fcntl.LOCK_EX)
                sh(["rsync", "-a", "--delete", "--exclude", "/Gen/", "--include", "*/", "--include", "*.v",
                    "--exclude", "*", COQ_SHARED + "/", COQ + "/"], timeout=300)
        # one check of a property per tree at a time: a second one waits (it would wipe the scratch directory)
        os.makedirs(WORK, exist_ok=True)
        self._runlock = open(os.path.join(WORK, ".run-%s.lock" % os.path.basename(self.work)), "w")
        fcntl.flock(self._runlock, fcntl.LOCK_EX)
        shutil.rmtree(self.work, ignore_errors=True)
        os.makedirs(self.work, exist_ok=True)
        # evidence is written to /verif/evidence unless a run against a scratch worktree redirects it
        self.evidence_dir = os.environ.get("VERIF_EVIDENCE_DIR") or os.path.join(ROOT, "evidence")
        os.makedirs(self.evidence_dir, exist_ok=True)
        self.broken = []          # list of (what, detail)
        self.findings = []        # concrete failing inputs: dicts with 'key','what','replay'
        self.info = []            # informational notes
        self.cov = {"evaluations": 0, "distinct_nontrivial": 0, "samples": [], "classes": {},
                    "traces_validated_against_impl": 0}
        self.obligations = 0
        self.discharged = 0
        self.print_assumptions = []
        self.checker_cmds = []
        self.trusted = list(STD_TRUSTED)
        self.assumptions = []
        self.skipped = []
        self._distinct = set()

    def log(self, *a):
        print("[%s %.1fs]" % (self.pid, time.time() - self.t0), *a, flush=True)

    # ---------------------------------------------------------------- translator
    def gen(self):
        gen_bin = os.path.join(ROOT, "bin", "gen")
        with open(os.path.join(ROOT, "tools", ".gen.lock"), "w") as lk:
            fcntl.flock(lk, fcntl.LOCK_EX)
            rc, out = sh(["go", "build", "-o", gen_bin, "."], env=GOENV, cwd=os.path.join(ROOT, "tools", "gen"),
                         timeout=600)
            if rc != 0:
                raise Broken("translator-build", out[-2000:])
            rc, out = sh([gen_bin, "-repo", REPO, "-out", os.path.join(COQ, "Gen")], timeout=120)
        if rc == 3:
            # some translator pieces cannot translate the current sources: their outputs were removed, so exactly
            # the theorems that depend on them stop compiling; everything else is up to date
            try:
                self.gen_failures = json.load(open(os.path.join(COQ, "Gen", "failures.json")))
            except Exception:
                self.gen_failures = {"?": out[-500:]}
            self.info.append("translator pieces that cannot translate the current sources: " +
                             "; ".join("%s (%s)" % kv for kv in sorted(self.gen_failures.items())))
            return True
        if rc != 0:
            self.broken.append(("translator: tools/gen cannot translate the current sources", out[-2000:]))
            return False
        self.gen_failures = {}
        return True

    # ---------------------------------------------------------------- Coq
    def grep_forbidden(self):
        hits = []
        for d, _, fs in os.walk(COQ):
            for f in fs:
                if not f.endswith(".v"):
                    continue
                p = os.path.join(d, f)
                txt = strip_comments(open(p, errors="replace").read())
                for pat in FORBIDDEN:
                    for m in re.finditer(pat, txt):
                        hits.append("%s: %s" % (os.path.relpath(p, COQ), m.group(0)))
                # Variable / Hypothesis / Context are allowed inside a Section only
                depth = 0
                for m in re.finditer(r"(?m)^\s*(Section|Module|End|Variables?|Hypothes[ie]s|Context)\b", txt):
                    w = m.group(1)
                    if w in ("Section", "Module"):
                        depth += 1
                    elif w == "End":
                        depth = max(0, depth - 1)
                    elif depth == 0:
                        hits.append("%s: %s outside a Section" % (os.path.relpath(p, COQ), w))
        return hits

    def coq_build(self, targets, what):
        """Build .vo targets. Returns (ok, output)."""
        cmd = [os.path.join(ROOT, "bin", "coqbuild")] + targets
        self.checker_cmds.append("bin/coqbuild " + " ".join(targets))
        rc, out = sh(cmd, timeout=3600, env=dict(os.environ, VERIF_COQ_DIR=COQ))
        if rc != 0:
            gf = getattr(self, "gen_failures", {})
            m = re.search(r"SX\.Gen\.(\w+)|Gen/(\w+)\.v", out)
            extra = ""
            if gf and m:
                extra = " (translator: %s)" % "; ".join("%s: %s" % kv for kv in sorted(gf.items()))[:600]
            self.broken.append(("%s: coq build of %s failed%s" % (what, " ".join(targets), extra), out[-3000:]))
            return False, out
        return True, out

    def coq_model(self, targets):
        ok, _ = self.coq_build(targets, "model")
        return ok

    def coq_proofs(self, prop_file, allowed_axioms=(), more=()):
        """(Re)compile the property file(s) so Print Assumptions output is fresh; count obligations.
        `more`: further statement files of the same property (e.g. composition theorems)."""
        self.obligations = 0
        self.discharged = 0
        self.theorems = []
        self.print_assumptions = []
        hits = self.grep_forbidden()
        if hits:
            self.broken.append(("proof: forbidden command in the development", "\n".join(hits[:20])))
        ok_all = True
        more = list(more)
        # the source tie of the hand-written model (bin/pin-source), when the property has one
        src_pin = "Properties/%sSource.v" % self.pid
        if os.path.exists(os.path.join(COQ, src_pin)) and src_pin not in more:
            more.append(src_pin)
        for pf in [prop_file] + more:
            ok = self._proofs_one(pf, allowed_axioms)
            if not ok and pf == src_pin:
                self._explain_source_pin()
            ok_all = ok and ok_all
        if not ok_all:
            self.discharged = 0
        elif self.tier == "thorough" and os.environ.get("VERIF_COQCHK", "1") == "1":
            self.coqchk([prop_file] + list(more))
        return ok_all

    def _explain_source_pin(self):
        """name the functions whose statements differ from the pinned ones"""
        try:
            out = self.coq_eval("source_diff", "From Coq Require Import String.\nFrom SX Require Import Model.%sSourceShape.\n"
                                "Open Scope string_scope.\nDefinition D := Eval vm_compute in shape_diff.\nPrint D." % self.pid, timeout=300)
            names = re.findall(r'"([^"]+)"', out)
            if names:
                what, detail = self.broken[-1]
                self.broken[-1] = (what + ": the statements of %s differ from the ones the model was validated against" %
                                   ", ".join(n.replace("__", ".").replace("_", "/", 0) for n in names[:8]), detail)
                self.source_diff = names
        except Exception:
            pass

    def _proofs_one(self, prop_file, allowed_axioms):
        src_path = os.path.join(COQ, prop_file)
        src = strip_comments(open(src_path).read())
        theorems = re.findall(r"^\s*Theorem\s+(\w+)", src, re.M)
        self.obligations += len(theorems)
        self.theorems += theorems
        vo = src_path[:-2] + ".vo"
        if os.path.exists(vo):
            os.remove(vo)
        ok, out = self.coq_build([prop_file[:-2] + ".vo"], "proof")
        if not ok:
            m = re.search(r'File "\./([^"]+)", line (\d+)', out)
            self.broken_theorem = "%s (first error in %s line %s)" % (prop_file, m.group(1), m.group(2)) if m else prop_file
            return False
        closed = len(re.findall(r"Closed under the global context", out))
        axioms = []
        for blk in re.findall(r"Axioms:\n((?:.+\n)+?)(?=\S|\Z)", out):
            for line in blk.splitlines():
                m = re.match(r"^(\S+)\s*:", line)
                if m:
                    axioms.append(m.group(1))
        self.print_assumptions += ["%s: %d x 'Closed under the global context'" % (prop_file, closed)] + sorted(set(axioms))
        bad = [a for a in set(axioms) if a not in allowed_axioms]
        n_pa = len(re.findall(r"^\s*Print\s+Assumptions\s+(\w+)", src, re.M))
        if bad:
            self.broken.append(("proof: unexpected axioms " + ", ".join(sorted(bad)), out[-2000:]))
            return False
        if n_pa < len(theorems) or closed + len(set(axioms)) < len(theorems):
            self.broken.append(("proof: a Theorem in %s lacks Print Assumptions" % prop_file, ""))
        self.discharged += len(theorems)
        return True

    def coqchk(self, prop_files):
        if isinstance(prop_files, str):
            prop_files = [prop_files]
        mods = ["SX." + pf[:-2].replace("/", ".") for pf in prop_files]
        mod = " ".join(mods)
        cmd = ["coqchk", "-silent", "-o", "-Q", COQ, "SX"] + mods
        self.checker_cmds.append(" ".join(cmd))
        t = time.time()
        rc, out = sh(cmd, timeout=7200, cwd=COQ)
        self.info.append("coqchk %s: rc=%d in %.0fs" % (mod, rc, time.time() - t))
        if rc != 0:
            self.broken.append(("proof: coqchk rejects %s" % mod, out[-2000:]))
        else:
            ax = re.findall(r"^\s*(\S+)\s*$", out.split("Axioms:")[-1], re.M) if "Axioms:" in out else []
            self.coqchk_axioms = ax

    def coq_eval(self, name, body, timeout=1500):
        """Write work/<pid>/<name>.v with `body`, compile it, return the joined output text."""
        path = os.path.join(self.work, name + ".v")
        with open(path, "w") as f:
            f.write("Set Printing Depth 1000000.\nSet Printing Width 240.\n" + body)
        rc, out = sh(["coqc", "-Q", COQ, "SX", "-w", "-all", "-noglob", path], timeout=timeout, cwd=self.work)
        for ext in (".vo", ".vok", ".vos"):
            try:
                os.remove(path[:-2] + ext)
            except OSError:
                pass
        if rc != 0:
            raise Broken("model evaluation failed (%s.v)" % name, out[-3000:])
        return out

    def coq_eval_many(self, jobs, timeout=1500, workers=None):
        """jobs: list of (name, body). Evaluated in parallel; returns outputs in order."""
        from concurrent.futures import ThreadPoolExecutor
        workers = workers or int(os.environ.get("VERIF_JOBS", "16"))
        with ThreadPoolExecutor(max_workers=workers) as ex:
            futs = [ex.submit(self.coq_eval, n, b, timeout) for n, b in jobs]
            return [f.result() for f in futs]

    @staticmethod
    def parse_result(out, name):
        """Parse the output of `Print name.` for a value of type list (nat * list Z) etc. Returns
        the raw text between '=' and the trailing ': type'."""
        flat = re.sub(r"%[A-Za-z_]+", "", " ".join(out.split()))
        m = re.search(re.escape(name) + r" = (.*?) : ", flat)
        if not m:
            raise Broken("cannot parse model output for " + name, out[-1000:])
        return m.group(1)

    # ---------------------------------------------------------------- harness
    def harness_build(self, name, race=False):
        hdir = os.path.join(ROOT, "harness")
        os.makedirs(HBIN, exist_ok=True)
        with open(os.path.join(hdir, ".build.lock"), "w") as lk:
            fcntl.flock(lk, fcntl.LOCK_EX)
            cmd = ["go", "build", "-tags", "verif"] + (["-race"] if race else [])
            if REPO == "/repo":
                shutil.copyfile(os.path.join(REPO, "go.sum"), os.path.join(hdir, "go.sum"))
            else:
                # scratch worktree of the repository: alternative go.mod with the replace redirected
                tag = re.sub(r"\W", "_", REPO)
                alt = os.path.join(hdir, "go.%s.mod" % tag)
                with open(alt, "w") as f:
                    f.write(open(os.path.join(hdir, "go.mod")).read().replace("=> /repo", "=> " + REPO))
                shutil.copyfile(os.path.join(REPO, "go.sum"), alt[:-4] + ".sum")
                cmd += ["-modfile", alt]
            rc, out = sh(cmd + ["-o", os.path.join(HBIN, name + ("-race" if race else "")), "./cmd/" + name],
                         env=GOENV, cwd=hdir, timeout=1200)
        if rc != 0:
            self.broken.append(("correspondence: harness %s does not build against the current tree" % name, out[-3000:]))
            return False
        return True

    def harness_run(self, name, args, timeout=1200, env=None, wrap=()):
        exe = os.path.join(HBIN, name)
        e = dict(GOENV)
        if env:
            e.update(env)
        try:
            rc, out = sh(list(wrap) + [exe] + [str(a) for a in args], timeout=timeout, env=e, cwd=self.work)
        except subprocess.TimeoutExpired:
            self.broken.append(("correspondence: harness %s timed out" % name, ""))
            return False, ""
        if rc != 0:
            self.broken.append(("correspondence: harness %s failed (rc=%d)" % (name, rc), out[-3000:]))
            return False, out
        return True, out

    def harness_race_run(self, name, args, what, timeout=1800, env=None):
        """Run the race-detector build of a harness (thorough tier). A reported data race is a finding."""
        if not self.harness_build(name, race=True):
            return
        exe = os.path.join(HBIN, name + "-race")
        e = dict(GOENV, GORACE="halt_on_error=1 exitcode=66")
        if env:
            e.update(env)
        try:
            rc, out = sh([exe] + [str(a) for a in args], timeout=timeout, env=e, cwd=self.work)
        except subprocess.TimeoutExpired:
            self.info.append("race run of %s timed out" % name)
            return
        self.checker_cmds.append("harness/bin/%s-race %s" % (name, " ".join(map(str, args))))
        if rc == 66 or "WARNING: DATA RACE" in out:
            i = out.find("WARNING: DATA RACE")
            path = self.write_replay("race-" + name, {"property": self.pid, "what": "data race reported by the Go race detector " + what,
                                                       "report": out[i:i + 4000], "cmd": "harness/bin/%s-race %s" % (name, " ".join(map(str, args)))})
            self.findings.append({"key": "race:" + name, "what": "data race " + what, "replay": path})
        elif rc != 0:
            self.info.append("race run of %s exited with %d" % (name, rc))
        else:
            self.info.append("race-detector run of %s: no race reported" % name)

    def harness_crash_search(self, name, args, total, timeout=120, env=None):
        """The harness process died (a panic in a goroutine of the code under test cannot be recovered): find
        the case that kills it by re-running the same seeded script one case at a time (`-only k`).
        Returns (index, output tail) or None."""
        exe = os.path.join(HBIN, name)
        e = dict(GOENV)
        if env:
            e.update(env)
        from concurrent.futures import ThreadPoolExecutor

        def one(k):
            try:
                rc, out = sh([exe] + [str(a) for a in args] + ["-only", str(k), "-out", "only_%d.jsonl" % k],
                             timeout=timeout, env=e, cwd=self.work)
            except subprocess.TimeoutExpired:
                return k, 1, "timeout"
            return k, rc, out
        with ThreadPoolExecutor(max_workers=8) as ex:
            for k, rc, out in ex.map(one, range(total)):
                if rc != 0:
                    return k, out[-3000:]
        return None

    def read_jsonl(self, path):
        rows = []
        with open(path) as f:
            for line in f:
                line = line.strip()
                if line:
                    rows.append(json.loads(line))
        return rows

    # ---------------------------------------------------------------- coverage bookkeeping
    def count(self, cls, key, nontrivial=True, sample=None):
        self.cov["evaluations"] += 1
        self.cov["classes"][cls] = self.cov["classes"].get(cls, 0) + 1
        if nontrivial and key not in self._distinct:
            self._distinct.add(key)
            self.cov["distinct_nontrivial"] += 1
        if sample is not None and self.cov["classes"][cls] <= 2 and len(self.cov["samples"]) < 12:
            self.cov["samples"].append(sample)

    # ---------------------------------------------------------------- verdict
    def write_replay(self, tag, obj):
        path = os.path.join(self.work, "replay-%s.json" % tag)
        with open(path, "w") as f:
            json.dump(obj, f, indent=1, default=str)
        return path

    def finish(self, level="proof", rule="", extra=None):
        known = load_known()
        violations = 0
        lines = []
        # every listed finding of this property is printed on every run (observed in this run or not);
        # an observed failing input that matches none of them is a violation
        for k in known:
            if k.get("property") == self.pid:
                lines.append("KNOWN-FINDING: property=%s %s" % (self.pid, k["what"]))
        observed_known = set()
        for fd in self.findings:
            k = match_known(known, self.pid, fd)
            if k is not None:
                observed_known.add(k["key"])
                continue
            violations += 1
            if violations <= 3:
                lines.append("VIOLATION property=%s replay=%s" % (self.pid, fd["replay"]))
        self.info.append("known findings observed in this run: %s" % (sorted(observed_known) or "none"))
        if self.broken and violations == 0:
            # a proof or a tie no longer checks and no concrete failing input was found
            path = self.write_replay("broken", {
                "property": self.pid,
                "no_longer_checks": [w for w, _ in self.broken],
                "details": [d for _, d in self.broken],
                "note": "no concrete failing input was found by the search; the property is no longer shown to hold",
            })
            violations += 1
            lines.append("VIOLATION property=%s replay=%s no-failing-input-found" % (self.pid, path))
        cov = dict(self.cov)
        cov.update({
            "obligations": self.obligations,
            "discharged": self.discharged if not any(w.startswith("proof") for w, _ in self.broken) else 0,
            "checker_cmd": "; ".join(self.checker_cmds) or "none",
            "trusted_base": self.trusted,
            "rule": rule,
            "print_assumptions": self.print_assumptions,
            "theorems": getattr(self, "theorems", []),
            "broken": [w for w, _ in self.broken],
            "info": self.info,
            "skipped": self.skipped,
        })
        if extra:
            cov.update(extra)
        if not cov["samples"]:
            cov["samples"] = ["(no cases were generated: %s)" % "; ".join(w for w, _ in self.broken)]
        ev = {
            "property_id": self.pid, "tier": self.tier, "seed": self.seed, "level": level,
            "coverage": cov, "assumptions": self.assumptions, "wall_s": round(time.time() - self.t0, 2),
            "violations": violations,
        }
        if cov["obligations"] < 1 or cov["discharged"] < 1:
            # proof broken: keep the file schema-valid by falling back to the generic keys
            cov["discharged_count"] = cov.pop("discharged")
        with open(os.path.join(self.evidence_dir, self.pid + ".json"), "w") as f:
            json.dump(ev, f, indent=1, default=str)
        for w, d in self.broken[:6]:
            self.log("BROKEN:", w)
            if d:
                print(d[-800:])
        if len(self.broken) > 6:
            self.log("... and %d more broken obligations/ties" % (len(self.broken) - 6))
        for l in lines:
            print(l, flush=True)
        self.log("done: evaluations=%d distinct_nontrivial=%d obligations=%d discharged=%d violations=%d" % (
            cov["evaluations"], cov["distinct_nontrivial"], self.obligations, self.discharged, violations))
        return 1 if violations else 0


def load_known():
    p = os.path.join(ROOT, "known_findings.json")
    if not os.path.exists(p):
        return []
    data = json.load(open(p))
    return [e for e in data.get("findings", [])]


def match_known(known, pid, fd):
    for k in known:
        if k.get("property") == pid and k.get("key") == fd.get("key"):
            return k
    return None
