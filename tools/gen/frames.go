package main

// Translator piece for C05 (probe frame builders): emits coq/Gen/FrameConsts.v with everything the
// four PacketFiller.Fill functions (pkg/scan/{tcp,udp,icmp,arp}) hand to gopacket:
//   - the constant header fields (version, IHL, TTL, protocol, flags, window, ethertypes, ARP header),
//   - the arithmetic of the spoofed fields (base + rand.Intn(mod)),
//   - the TCP option list, the serialize options, the defaults of NewPacketFiller,
//   - which layer field is fed from which request / filler field (checked for shape here, a
//     deviation is a loud failure), and whether the UDP length is set explicitly,
//   - the flag defaults of `sx icmp` / `sx udp`.
// gopacket's named constants are resolved from the module cache (layers/*.go of the version that
// go.mod requires).

import (
	"bytes"
	"fmt"
	"go/ast"
	"go/constant"
	"go/parser"
	"go/token"
	"os"
	"os/exec"
	"path/filepath"
	"regexp"
	"sort"
	"strings"
)

func init() { register("FrameConsts", genFrameConsts) }

var frLayers *pkgFiles

func frModuleDir(mod string) string {
	gomod, err := os.ReadFile(filepath.Join(*repo, "go.mod"))
	if err != nil {
		die("read go.mod: %v", err)
	}
	re := regexp.MustCompile(`(?m)^\s*(?:require\s+)?` + regexp.QuoteMeta(mod) + `\s+(\S+)`)
	m := re.FindSubmatch(gomod)
	if m == nil {
		die("go.mod does not require %s", mod)
	}
	cache := os.Getenv("GOMODCACHE")
	if cache == "" {
		out, err := exec.Command("go", "env", "GOMODCACHE").Output()
		if err != nil {
			die("go env GOMODCACHE: %v", err)
		}
		cache = strings.TrimSpace(string(out))
	}
	dir := filepath.Join(cache, mod+"@"+string(m[1]))
	if _, err := os.Stat(dir); err != nil {
		die("module %s not in the module cache: %v", mod, err)
	}
	return dir
}

func frParseFiles(dir string, names ...string) *pkgFiles {
	fset := token.NewFileSet()
	pf := &pkgFiles{fset: fset, files: map[string]*ast.File{}}
	for _, n := range names {
		f, err := parser.ParseFile(fset, filepath.Join(dir, n), nil, 0)
		if err != nil {
			die("parse %s: %v", n, err)
		}
		pf.files[n] = f
	}
	return pf
}

// frLayerConst resolves a named constant of gopacket/layers (plain literal or constant expression,
// no iota).
func frLayerConst(name string) constant.Value {
	for _, f := range frLayers.files {
		for _, d := range f.Decls {
			gd, ok := d.(*ast.GenDecl)
			if !ok || gd.Tok != token.CONST {
				continue
			}
			for _, s := range gd.Specs {
				vs := s.(*ast.ValueSpec)
				for i, id := range vs.Names {
					if id.Name == name {
						if i >= len(vs.Values) {
							die("gopacket constant %s has no explicit value (iota?)", name)
						}
						return frEval(frLayers, vs.Values[i])
					}
				}
			}
		}
	}
	die("gopacket constant layers.%s not found", name)
	return nil
}

func frIsSel(e ast.Expr, pkg, name string) bool {
	s, ok := e.(*ast.SelectorExpr)
	if !ok {
		return false
	}
	x, ok := s.X.(*ast.Ident)
	return ok && x.Name == pkg && (name == "" || s.Sel.Name == name)
}

// frConv strips type conversions T(x) for integer-like T (builtin or a layers type).
func frConv(e ast.Expr) ast.Expr {
	for {
		switch x := e.(type) {
		case *ast.ParenExpr:
			e = x.X
			continue
		case *ast.CallExpr:
			if len(x.Args) == 1 {
				if id, ok := x.Fun.(*ast.Ident); ok {
					switch id.Name {
					case "uint8", "uint16", "uint32", "uint64", "int", "int64", "int32", "byte":
						e = x.Args[0]
						continue
					}
				}
				if s, ok := x.Fun.(*ast.SelectorExpr); ok && frIsSel(s, "layers", "") {
					switch s.Sel.Name {
					case "TCPPort", "UDPPort", "IPProtocol", "IPv4Flag", "EthernetType":
						e = x.Args[0]
						continue
					}
				}
			}
		}
		return e
	}
}

// frEval evaluates an integer constant expression; layers.X is looked up in gopacket.
func frEval(p *pkgFiles, e ast.Expr) constant.Value {
	e = frConv(e)
	switch x := e.(type) {
	case *ast.BasicLit:
		v := constant.MakeFromLiteral(x.Value, x.Kind, 0)
		if v.Kind() != constant.Int {
			die("%s: not an integer literal: %s", p.pos(e), x.Value)
		}
		return v
	case *ast.UnaryExpr:
		return constant.UnaryOp(x.Op, frEval(p, x.X), 0)
	case *ast.BinaryExpr:
		a, b := frEval(p, x.X), frEval(p, x.Y)
		if x.Op == token.SHL || x.Op == token.SHR {
			s, ok := constant.Uint64Val(b)
			if !ok {
				die("%s: bad shift", p.pos(e))
			}
			return constant.Shift(a, x.Op, uint(s))
		}
		return constant.BinaryOp(a, x.Op, b)
	case *ast.SelectorExpr:
		if frIsSel(x, "layers", "") {
			return frLayerConst(x.Sel.Name)
		}
	case *ast.Ident:
		if p == frLayers {
			return frLayerConst(x.Name)
		}
	}
	die("%s: unsupported constant expression (%T)", p.pos(e), e)
	return nil
}

func frZ(p *pkgFiles, e ast.Expr) string { return zlit(frEval(p, e)) }

// frFill describes one Fill method: receiver name and the name of its *scan.Request parameter.
type frFill struct {
	p    *pkgFiles
	fn   *ast.FuncDecl
	recv string
	req  string
}

func frFindFill(p *pkgFiles) *frFill {
	fn := p.findFunc("PacketFiller", "Fill")
	f := &frFill{p: p, fn: fn}
	if fn.Recv != nil && len(fn.Recv.List) == 1 && len(fn.Recv.List[0].Names) == 1 {
		f.recv = fn.Recv.List[0].Names[0].Name
	}
	if fn.Type.Params == nil || len(fn.Type.Params.List) != 2 || len(fn.Type.Params.List[1].Names) != 1 {
		die("%s: Fill does not have the parameters (packet, request)", p.pos(fn))
	}
	f.req = fn.Type.Params.List[1].Names[0].Name
	return f
}

// lit returns the key -> value map of the only &layers.<typ>{...} literal of the function, and the
// name of the variable it is assigned to.
func (f *frFill) lit(typ string) (map[string]ast.Expr, string) {
	var found []*ast.CompositeLit
	var names []string
	ast.Inspect(f.fn.Body, func(n ast.Node) bool {
		as, ok := n.(*ast.AssignStmt)
		if !ok || len(as.Lhs) != 1 || len(as.Rhs) != 1 {
			return true
		}
		u, ok := as.Rhs[0].(*ast.UnaryExpr)
		if !ok || u.Op != token.AND {
			return true
		}
		cl, ok := u.X.(*ast.CompositeLit)
		if !ok || !frIsSel(cl.Type, "layers", typ) {
			return true
		}
		id, ok := as.Lhs[0].(*ast.Ident)
		if !ok {
			die("%s: layer literal assigned to a non-identifier", f.p.pos(as))
		}
		found = append(found, cl)
		names = append(names, id.Name)
		return true
	})
	if len(found) != 1 {
		die("%s: expected exactly one &layers.%s{...} literal in Fill, found %d", f.p.pos(f.fn), typ, len(found))
	}
	m := map[string]ast.Expr{}
	for _, el := range found[0].Elts {
		kv, ok := el.(*ast.KeyValueExpr)
		if !ok {
			die("%s: positional field in layers.%s literal", f.p.pos(el), typ)
		}
		k, ok := kv.Key.(*ast.Ident)
		if !ok {
			die("%s: bad key", f.p.pos(el))
		}
		if _, dup := m[k.Name]; dup {
			die("%s: duplicate key %s", f.p.pos(el), k.Name)
		}
		m[k.Name] = kv.Value
	}
	return m, names[0]
}

// take removes key k from m and returns its value (die when absent).
func frTake(p *pkgFiles, what string, m map[string]ast.Expr, k string) ast.Expr {
	e, ok := m[k]
	if !ok {
		die("%s literal lacks field %s", what, k)
	}
	delete(m, k)
	return e
}

func frNoMore(what string, m map[string]ast.Expr) {
	if len(m) != 0 {
		var ks []string
		for k := range m {
			ks = append(ks, k)
		}
		sort.Strings(ks)
		die("%s literal sets fields the model does not know: %v", what, ks)
	}
}

// frField requires e to be <root>.<field> and returns field.
func frField(p *pkgFiles, e ast.Expr, root string) string {
	s, ok := e.(*ast.SelectorExpr)
	if ok {
		if x, ok := s.X.(*ast.Ident); ok && x.Name == root {
			return s.Sel.Name
		}
	}
	die("%s: expected %s.<field>", p.pos(e), root)
	return ""
}

func frExpectField(p *pkgFiles, e ast.Expr, root, field string) {
	if got := frField(p, e, root); got != field {
		die("%s: expected %s.%s, found %s.%s", p.pos(e), root, field, root, got)
	}
}

// frRandAffine matches  conv(base + rand.Intn(mod))  and returns base, mod.
func frRandAffine(p *pkgFiles, e ast.Expr) (string, string) {
	b, ok := frConv(e).(*ast.BinaryExpr)
	if !ok || b.Op != token.ADD {
		die("%s: expected base + rand.Intn(n)", p.pos(e))
	}
	c, ok := b.Y.(*ast.CallExpr)
	if !ok || !frIsSel(c.Fun, "rand", "Intn") || len(c.Args) != 1 {
		die("%s: expected base + rand.Intn(n)", p.pos(e))
	}
	return frZ(p, b.X), frZ(p, c.Args[0])
}

func frByteList(p *pkgFiles, e ast.Expr) []string {
	cl, ok := e.(*ast.CompositeLit)
	if !ok {
		die("%s: expected a byte slice literal", p.pos(e))
	}
	var out []string
	for _, el := range cl.Elts {
		out = append(out, frZ(p, el))
	}
	return out
}

func frBool(p *pkgFiles, e ast.Expr) string {
	if id, ok := e.(*ast.Ident); ok && (id.Name == "true" || id.Name == "false") {
		return id.Name
	}
	die("%s: expected true or false", p.pos(e))
	return ""
}

// frSerializeOpts reads  opt := gopacket.SerializeOptions{...}  (or `var opt gopacket.SerializeOptions`)
// and the optional  if <ip>.Length == 0 { opt.FixLengths = true }.
// Returns fix ("true" / "false" / "iflen0") and checksums.
func (f *frFill) serializeOpts(ipVar string) (string, string) {
	fix, ck := "", ""
	var optVar string
	ast.Inspect(f.fn.Body, func(n ast.Node) bool {
		switch x := n.(type) {
		case *ast.AssignStmt:
			if len(x.Lhs) == 1 && len(x.Rhs) == 1 {
				if cl, ok := x.Rhs[0].(*ast.CompositeLit); ok && frIsSel(cl.Type, "gopacket", "SerializeOptions") {
					if optVar != "" {
						die("%s: second SerializeOptions literal", f.p.pos(x))
					}
					optVar = x.Lhs[0].(*ast.Ident).Name
					fix, ck = "false", "false"
					for _, el := range cl.Elts {
						kv, ok := el.(*ast.KeyValueExpr)
						if !ok {
							die("%s: positional SerializeOptions", f.p.pos(el))
						}
						switch kv.Key.(*ast.Ident).Name {
						case "FixLengths":
							fix = frBool(f.p, kv.Value)
						case "ComputeChecksums":
							ck = frBool(f.p, kv.Value)
						default:
							die("%s: unknown SerializeOptions field", f.p.pos(el))
						}
					}
				}
			}
		case *ast.DeclStmt:
			if gd, ok := x.Decl.(*ast.GenDecl); ok && gd.Tok == token.VAR {
				for _, s := range gd.Specs {
					vs := s.(*ast.ValueSpec)
					if frIsSel(vs.Type, "gopacket", "SerializeOptions") && len(vs.Values) == 0 && len(vs.Names) == 1 {
						if optVar != "" {
							die("%s: second SerializeOptions variable", f.p.pos(x))
						}
						optVar = vs.Names[0].Name
						fix, ck = "false", "false"
					}
				}
			}
		}
		return true
	})
	if optVar == "" {
		die("%s: no gopacket.SerializeOptions in Fill", f.p.pos(f.fn))
	}
	// assignments to opt.X outside the literal
	ast.Inspect(f.fn.Body, func(n ast.Node) bool {
		is, ok := n.(*ast.IfStmt)
		if ok {
			touches := false
			ast.Inspect(is.Body, func(m ast.Node) bool {
				if as, ok := m.(*ast.AssignStmt); ok && len(as.Lhs) == 1 {
					if s, ok := as.Lhs[0].(*ast.SelectorExpr); ok {
						if x, ok := s.X.(*ast.Ident); ok && x.Name == optVar {
							touches = true
						}
					}
				}
				return true
			})
			if touches {
				// must be exactly: if ip.Length == 0 { opt.FixLengths = true }
				c, ok := is.Cond.(*ast.BinaryExpr)
				good := ok && c.Op == token.EQL && is.Init == nil && is.Else == nil && len(is.Body.List) == 1
				if good {
					l, lok := c.X.(*ast.SelectorExpr)
					good = lok && frIsSel(l, ipVar, "Length")
					if lit, ok := c.Y.(*ast.BasicLit); !ok || lit.Value != "0" {
						good = false
					}
				}
				if good {
					as, ok := is.Body.List[0].(*ast.AssignStmt)
					good = ok && len(as.Lhs) == 1 && len(as.Rhs) == 1 && as.Tok == token.ASSIGN &&
						frIsSel(as.Lhs[0], optVar, "FixLengths") && frBool(f.p, as.Rhs[0]) == "true"
				}
				if !good || fix != "false" {
					die("%s: serialize options are changed in a way the model does not know", f.p.pos(is))
				}
				fix = "iflen0"
			}
			return true
		}
		return true
	})
	return fix, ck
}

// frLayerLists returns the layer variable lists of the SerializeLayers calls: (vpn branch, ethernet branch).
func (f *frFill) layerLists() [][]string {
	var out [][]string
	ast.Inspect(f.fn.Body, func(n ast.Node) bool {
		c, ok := n.(*ast.CallExpr)
		if !ok || !frIsSel(c.Fun, "gopacket", "SerializeLayers") {
			return true
		}
		if len(c.Args) < 3 {
			die("%s: SerializeLayers with too few arguments", f.p.pos(c))
		}
		var l []string
		for _, a := range c.Args[2:] {
			switch x := a.(type) {
			case *ast.Ident:
				l = append(l, x.Name)
			case *ast.CallExpr:
				if frIsSel(x.Fun, "gopacket", "Payload") && len(x.Args) == 1 {
					l = append(l, "payload:"+frField(f.p, x.Args[0], f.recv))
				} else {
					die("%s: unknown layer expression", f.p.pos(a))
				}
			default:
				die("%s: unknown layer expression", f.p.pos(a))
			}
		}
		out = append(out, l)
		return true
	})
	return out
}

func frSame(a, b []string) bool {
	if len(a) != len(b) {
		return false
	}
	for i := range a {
		if a[i] != b[i] {
			return false
		}
	}
	return true
}

// frVpnShape checks  if f.vpnMode { return SerializeLayers(ip...) } ; eth := ... ; return SerializeLayers(eth, ip...)
func (f *frFill) checkLayering(ethVar string, inner []string) {
	ls := f.layerLists()
	if len(ls) != 2 || !frSame(ls[0], inner) || !frSame(ls[1], append([]string{ethVar}, inner...)) {
		die("%s: SerializeLayers calls are %v, expected %v and the same behind %s", f.p.pos(f.fn), ls, inner, ethVar)
	}
	// the first call must sit in `if f.vpnMode { return ... }`
	ok := false
	for _, st := range f.fn.Body.List {
		is, isIf := st.(*ast.IfStmt)
		if !isIf {
			continue
		}
		if s, isSel := is.Cond.(*ast.SelectorExpr); isSel && frIsSel(s, f.recv, "vpnMode") && is.Else == nil && len(is.Body.List) == 1 {
			if r, isRet := is.Body.List[0].(*ast.ReturnStmt); isRet && len(r.Results) == 1 {
				if c, isCall := r.Results[0].(*ast.CallExpr); isCall && frIsSel(c.Fun, "gopacket", "SerializeLayers") {
					ok = true
				}
			}
		}
	}
	if !ok {
		die("%s: no `if %s.vpnMode { return gopacket.SerializeLayers(...) }`", f.p.pos(f.fn), f.recv)
	}
}

// frEth checks the Ethernet literal (MACs from the request unless dstConst) and returns the ethertype.
func (f *frFill) eth(dstBroadcast bool) (string, string, []string) {
	m, v := f.lit("Ethernet")
	frExpectField(f.p, frTake(f.p, "Ethernet", m, "SrcMAC"), f.req, "SrcMAC")
	var dst []string
	d := frTake(f.p, "Ethernet", m, "DstMAC")
	if dstBroadcast {
		dst = frByteList(f.p, d)
	} else {
		frExpectField(f.p, d, f.req, "DstMAC")
	}
	et := frZ(f.p, frTake(f.p, "Ethernet", m, "EthernetType"))
	frNoMore("Ethernet", m)
	return v, et, dst
}

type frOut struct{ b bytes.Buffer }

func (o *frOut) def(name, typ, val string) {
	fmt.Fprintf(&o.b, "Definition fc_%s : %s := %s.\n", name, typ, val)
}
func (o *frOut) z(name, val string) { o.def(name, "Z", val) }
func (o *frOut) note(s string)      { fmt.Fprintf(&o.b, "\n(* %s *)\n", s) }

func frZList(xs []string) string { return "[" + strings.Join(xs, "; ") + "]" }

// ipCommon handles the fields every IPv4 literal has: Version, Id, SrcIP, DstIP.
func (f *frFill) ipCommon(o *frOut, pre string, m map[string]ast.Expr) {
	o.z(pre+"_ip_version", frZ(f.p, frTake(f.p, "IPv4", m, "Version")))
	base, mod := frRandAffine(f.p, frTake(f.p, "IPv4", m, "Id"))
	o.z(pre+"_ip_id_base", base)
	o.z(pre+"_ip_id_mod", mod)
	frExpectField(f.p, frTake(f.p, "IPv4", m, "SrcIP"), f.req, "SrcIP")
	frExpectField(f.p, frTake(f.p, "IPv4", m, "DstIP"), f.req, "DstIP")
}

// checksumLayer requires  <l4>.SetNetworkLayerForChecksum(<ip>)  to be called.
func (f *frFill) checksumLayer(l4, ip string) {
	ok := false
	ast.Inspect(f.fn.Body, func(n ast.Node) bool {
		c, isCall := n.(*ast.CallExpr)
		if isCall && frIsSel(c.Fun, l4, "SetNetworkLayerForChecksum") && len(c.Args) == 1 {
			if id, isID := c.Args[0].(*ast.Ident); isID && id.Name == ip {
				ok = true
			}
		}
		return true
	})
	if !ok {
		die("%s: %s.SetNetworkLayerForChecksum(%s) is not called", f.p.pos(f.fn), l4, ip)
	}
}

func genFrameTCP(o *frOut) {
	p := parseDir(filepath.Join(*repo, "pkg/scan/tcp"))
	f := frFindFill(p)
	o.note("pkg/scan/tcp/tcp.go PacketFiller.Fill")
	m, ipVar := f.lit("IPv4")
	f.ipCommon(o, "tcp", m)
	o.z("tcp_ip_flags", frZ(p, frTake(p, "IPv4", m, "Flags")))
	o.z("tcp_ip_ttl", frZ(p, frTake(p, "IPv4", m, "TTL")))
	o.z("tcp_ip_proto", frZ(p, frTake(p, "IPv4", m, "Protocol")))
	frNoMore("IPv4", m)
	t, tcpVar := f.lit("TCP")
	base, mod := frRandAffine(p, frTake(p, "TCP", t, "SrcPort"))
	o.z("tcp_sport_base", base)
	o.z("tcp_sport_mod", mod)
	dp := frConv(frTake(p, "TCP", t, "DstPort"))
	frExpectField(p, dp, f.req, "DstPort")
	if c, ok := frTake(p, "TCP", t, "Seq").(*ast.CallExpr); !ok || !frIsSel(c.Fun, "rand", "Uint32") {
		die("TCP.Seq is not rand.Uint32()")
	}
	o.z("tcp_window", frZ(p, frTake(p, "TCP", t, "Window")))
	// flags: layer field <- filler field of the same name
	var wiring []string
	for _, fl := range []string{"FIN", "SYN", "RST", "PSH", "ACK", "URG", "ECE", "CWR", "NS"} {
		src := frField(p, frTake(p, "TCP", t, fl), f.recv)
		wiring = append(wiring, fmt.Sprintf("(%s, %s)", coqString(fl), coqString(src)))
	}
	o.def("tcp_layer_flag_sources", "list (string * string)", frZList(wiring))
	// options
	ol, ok := frTake(p, "TCP", t, "Options").(*ast.CompositeLit)
	if !ok {
		die("TCP.Options is not a slice literal")
	}
	var opts []string
	for _, el := range ol.Elts {
		cl, ok := el.(*ast.CompositeLit)
		if !ok {
			die("%s: TCP option is not a literal", p.pos(el))
		}
		om := map[string]ast.Expr{}
		for _, e2 := range cl.Elts {
			kv, ok := e2.(*ast.KeyValueExpr)
			if !ok {
				die("%s: positional TCP option", p.pos(e2))
			}
			om[kv.Key.(*ast.Ident).Name] = kv.Value
		}
		kind := frZ(p, frTake(p, "TCPOption", om, "OptionType"))
		ln := frZ(p, frTake(p, "TCPOption", om, "OptionLength"))
		data := []string{}
		if d, ok := om["OptionData"]; ok {
			data = frByteList(p, d)
			delete(om, "OptionData")
		}
		frNoMore("TCPOption", om)
		opts = append(opts, fmt.Sprintf("(%s, %s, %s)", kind, ln, frZList(data)))
	}
	o.def("tcp_options", "list (Z * Z * list Z)", frZList(opts))
	frNoMore("TCP", t)
	f.checksumLayer(tcpVar, ipVar)
	fix, ck := f.serializeOpts(ipVar)
	if fix == "iflen0" {
		die("tcp Fill: unexpected conditional FixLengths")
	}
	o.def("tcp_fix_lengths", "bool", fix)
	o.def("tcp_compute_checksums", "bool", ck)
	ethVar, et, _ := f.eth(false)
	o.z("tcp_ethertype", et)
	f.checkLayering(ethVar, []string{ipVar, tcpVar})

	// With* constructors: which filler field each sets to true
	var sets []string
	for _, fl := range []string{"FIN", "SYN", "RST", "PSH", "ACK", "URG", "ECE", "CWR", "NS"} {
		fn := p.findFunc("", "With"+fl)
		var fields []string
		ast.Inspect(fn.Body, func(n ast.Node) bool {
			as, ok := n.(*ast.AssignStmt)
			if ok && len(as.Lhs) == 1 && len(as.Rhs) == 1 {
				s, ok := as.Lhs[0].(*ast.SelectorExpr)
				if !ok || frBool(p, as.Rhs[0]) != "true" {
					die("%s: unexpected assignment in With%s", p.pos(as), fl)
				}
				fields = append(fields, coqString(s.Sel.Name))
			}
			return true
		})
		sets = append(sets, fmt.Sprintf("(%s, %s)", coqString("With"+fl), frZList(fields)))
	}
	o.def("tcp_with_fields", "list (string * list string)", frZList(sets))
}

// fillerDefaults reads  f := &PacketFiller{...}  of NewPacketFiller.
func frFillerDefaults(p *pkgFiles) map[string]ast.Expr {
	fn := p.findFunc("", "NewPacketFiller")
	var m map[string]ast.Expr
	ast.Inspect(fn.Body, func(n ast.Node) bool {
		u, ok := n.(*ast.UnaryExpr)
		if !ok || u.Op != token.AND {
			return true
		}
		cl, ok := u.X.(*ast.CompositeLit)
		if !ok {
			return true
		}
		if id, ok := cl.Type.(*ast.Ident); !ok || id.Name != "PacketFiller" {
			return true
		}
		if m != nil {
			die("%s: second PacketFiller literal", p.pos(cl))
		}
		m = map[string]ast.Expr{}
		for _, el := range cl.Elts {
			kv, ok := el.(*ast.KeyValueExpr)
			if !ok {
				die("%s: positional PacketFiller literal", p.pos(el))
			}
			m[kv.Key.(*ast.Ident).Name] = kv.Value
		}
		return true
	})
	if m == nil {
		die("NewPacketFiller has no &PacketFiller{...}")
	}
	return m
}

// ipOverridable handles the IPv4 literal of the udp / icmp fillers.
func (f *frFill) ipOverridable(o *frOut, pre string) string {
	m, ipVar := f.lit("IPv4")
	f.ipCommon(o, pre, m)
	o.z(pre+"_ip_ihl", frZ(f.p, frTake(f.p, "IPv4", m, "IHL")))
	frExpectField(f.p, frTake(f.p, "IPv4", m, "Flags"), f.recv, "flags")
	frExpectField(f.p, frTake(f.p, "IPv4", m, "TTL"), f.recv, "ttl")
	frExpectField(f.p, frTake(f.p, "IPv4", m, "Length"), f.recv, "length")
	frExpectField(f.p, frTake(f.p, "IPv4", m, "Protocol"), f.recv, "proto")
	frNoMore("IPv4", m)
	return ipVar
}

// frWithSetters checks that With<Name>(x) stores (a conversion / copy of) x in filler field <field>.
func frWithSetter(p *pkgFiles, name, field string) {
	fn := p.findFunc("", name)
	n := 0
	ast.Inspect(fn.Body, func(nd ast.Node) bool {
		as, ok := nd.(*ast.AssignStmt)
		if ok && len(as.Lhs) == 1 {
			if s, ok := as.Lhs[0].(*ast.SelectorExpr); ok {
				if _, ok := s.X.(*ast.Ident); ok {
					if s.Sel.Name != field {
						die("%s: %s assigns field %s, expected %s", p.pos(as), name, s.Sel.Name, field)
					}
					n++
				}
			}
		}
		return true
	})
	if n != 1 {
		die("%s does not assign filler field %s exactly once", name, field)
	}
}

func genFrameUDP(o *frOut) {
	p := parseDir(filepath.Join(*repo, "pkg/scan/udp"))
	f := frFindFill(p)
	o.note("pkg/scan/udp/udp.go NewPacketFiller defaults and PacketFiller.Fill")
	d := frFillerDefaults(p)
	o.z("udp_default_ttl", frZ(p, frTake(p, "PacketFiller", d, "ttl")))
	o.z("udp_default_proto", frZ(p, frTake(p, "PacketFiller", d, "proto")))
	o.z("udp_default_flags", frZ(p, frTake(p, "PacketFiller", d, "flags")))
	frNoMore("PacketFiller", d)
	ipVar := f.ipOverridable(o, "udp")
	u, udpVar := f.lit("UDP")
	base, mod := frRandAffine(p, frTake(p, "UDP", u, "SrcPort"))
	o.z("udp_sport_base", base)
	o.z("udp_sport_mod", mod)
	frExpectField(p, frConv(frTake(p, "UDP", u, "DstPort")), f.req, "DstPort")
	// Length: absent, or uint16(K + len(f.payload))
	if le, ok := u["Length"]; ok {
		delete(u, "Length")
		b, ok := frConv(le).(*ast.BinaryExpr)
		if !ok || b.Op != token.ADD {
			die("%s: UDP.Length is not K + len(%s.payload)", p.pos(le), f.recv)
		}
		c, ok := b.Y.(*ast.CallExpr)
		if !ok || len(c.Args) != 1 {
			die("%s: UDP.Length is not K + len(%s.payload)", p.pos(le), f.recv)
		}
		if id, ok := c.Fun.(*ast.Ident); !ok || id.Name != "len" {
			die("%s: UDP.Length is not K + len(%s.payload)", p.pos(le), f.recv)
		}
		frExpectField(p, c.Args[0], f.recv, "payload")
		o.def("udp_length_explicit", "bool", "true")
		o.z("udp_length_base", frZ(p, b.X))
	} else {
		o.def("udp_length_explicit", "bool", "false")
		o.z("udp_length_base", "0")
	}
	frNoMore("UDP", u)
	f.checksumLayer(udpVar, ipVar)
	fix, ck := f.serializeOpts(ipVar)
	if fix != "iflen0" {
		die("udp Fill: FixLengths is %s, expected `if ip.Length == 0`", fix)
	}
	o.def("udp_compute_checksums", "bool", ck)
	ethVar, et, _ := f.eth(false)
	o.z("udp_ethertype", et)
	f.checkLayering(ethVar, []string{ipVar, udpVar, "payload:payload"})
	for _, w := range [][2]string{{"WithTTL", "ttl"}, {"WithIPTotalLength", "length"}, {"WithIPProtocol", "proto"},
		{"WithIPFlags", "flags"}, {"WithPayload", "payload"}, {"WithVPNmode", "vpnMode"}} {
		frWithSetter(p, w[0], w[1])
	}
}

func genFrameICMP(o *frOut) {
	p := parseDir(filepath.Join(*repo, "pkg/scan/icmp"))
	f := frFindFill(p)
	o.note("pkg/scan/icmp/icmp.go NewPacketFiller defaults and PacketFiller.Fill")
	d := frFillerDefaults(p)
	o.z("icmp_default_ttl", frZ(p, frTake(p, "PacketFiller", d, "ttl")))
	o.z("icmp_default_proto", frZ(p, frTake(p, "PacketFiller", d, "proto")))
	o.z("icmp_default_flags", frZ(p, frTake(p, "PacketFiller", d, "flags")))
	o.z("icmp_default_type", frZ(p, frTake(p, "PacketFiller", d, "typ")))
	o.z("icmp_default_code", frZ(p, frTake(p, "PacketFiller", d, "code")))
	pl, ok := frTake(p, "PacketFiller", d, "payload").(*ast.Ident)
	if !ok {
		die("icmp default payload is not a variable")
	}
	frNoMore("PacketFiller", d)
	// payload := make([]byte, N); rand.Read(payload)
	nfn := p.findFunc("", "NewPacketFiller")
	plen, read := "", false
	ast.Inspect(nfn.Body, func(n ast.Node) bool {
		switch x := n.(type) {
		case *ast.AssignStmt:
			if len(x.Lhs) == 1 && len(x.Rhs) == 1 {
				if id, ok := x.Lhs[0].(*ast.Ident); ok && id.Name == pl.Name {
					c, ok := x.Rhs[0].(*ast.CallExpr)
					if !ok || len(c.Args) != 2 {
						die("%s: default payload is not make([]byte, N)", p.pos(x))
					}
					if mk, ok := c.Fun.(*ast.Ident); !ok || mk.Name != "make" {
						die("%s: default payload is not make([]byte, N)", p.pos(x))
					}
					plen = frZ(p, c.Args[1])
				}
			}
		case *ast.CallExpr:
			if frIsSel(x.Fun, "rand", "Read") && len(x.Args) == 1 {
				if id, ok := x.Args[0].(*ast.Ident); ok && id.Name == pl.Name {
					read = true
				}
			}
		}
		return true
	})
	if plen == "" || !read {
		die("icmp NewPacketFiller: default payload is not N random bytes")
	}
	o.z("icmp_default_payload_len", plen)
	ipVar := f.ipOverridable(o, "icmp")
	m, icmpVar := f.lit("ICMPv4")
	base, mod := frRandAffine(p, frTake(p, "ICMPv4", m, "Id"))
	o.z("icmp_id_base", base)
	o.z("icmp_id_mod", mod)
	o.z("icmp_seq", frZ(p, frTake(p, "ICMPv4", m, "Seq")))
	tc, ok := frTake(p, "ICMPv4", m, "TypeCode").(*ast.CallExpr)
	if !ok || !frIsSel(tc.Fun, "layers", "CreateICMPv4TypeCode") || len(tc.Args) != 2 {
		die("ICMPv4.TypeCode is not layers.CreateICMPv4TypeCode(f.typ, f.code)")
	}
	frExpectField(p, tc.Args[0], f.recv, "typ")
	frExpectField(p, tc.Args[1], f.recv, "code")
	frNoMore("ICMPv4", m)
	fix, ck := f.serializeOpts(ipVar)
	if fix != "iflen0" {
		die("icmp Fill: FixLengths is %s, expected `if ip.Length == 0`", fix)
	}
	o.def("icmp_compute_checksums", "bool", ck)
	ethVar, et, _ := f.eth(false)
	o.z("icmp_ethertype", et)
	f.checkLayering(ethVar, []string{ipVar, icmpVar, "payload:payload"})
	for _, w := range [][2]string{{"WithTTL", "ttl"}, {"WithIPTotalLength", "length"}, {"WithIPProtocol", "proto"},
		{"WithIPFlags", "flags"}, {"WithType", "typ"}, {"WithCode", "code"}, {"WithPayload", "payload"}, {"WithVPNmode", "vpnMode"}} {
		frWithSetter(p, w[0], w[1])
	}
}

func genFrameARP(o *frOut) {
	p := parseDir(filepath.Join(*repo, "pkg/scan/arp"))
	f := frFindFill(p)
	o.note("pkg/scan/arp/arp.go PacketFiller.Fill")
	_, et, dst := f.eth(true)
	o.z("arp_ethertype", et)
	o.def("arp_eth_dst", "list Z", frZList(dst))
	m, _ := f.lit("ARP")
	o.z("arp_addr_type", frZ(p, frTake(p, "ARP", m, "AddrType")))
	o.z("arp_protocol", frZ(p, frTake(p, "ARP", m, "Protocol")))
	o.z("arp_hw_size", frZ(p, frTake(p, "ARP", m, "HwAddressSize")))
	o.z("arp_prot_size", frZ(p, frTake(p, "ARP", m, "ProtAddressSize")))
	o.z("arp_operation", frZ(p, frTake(p, "ARP", m, "Operation")))
	frExpectField(p, frTake(p, "ARP", m, "SourceHwAddress"), f.req, "SrcMAC")
	// SourceProtAddress: r.SrcIP, or r.SrcIP.To4()
	spa := frTake(p, "ARP", m, "SourceProtAddress")
	if c, ok := spa.(*ast.CallExpr); ok && len(c.Args) == 0 {
		s, ok := c.Fun.(*ast.SelectorExpr)
		if !ok || s.Sel.Name != "To4" {
			die("ARP.SourceProtAddress is neither r.SrcIP nor r.SrcIP.To4()")
		}
		frExpectField(p, s.X, f.req, "SrcIP")
		o.def("arp_spa_to4", "bool", "true")
	} else {
		frExpectField(p, spa, f.req, "SrcIP")
		o.def("arp_spa_to4", "bool", "false")
	}
	o.def("arp_target_hw", "list Z", frZList(frByteList(p, frTake(p, "ARP", m, "DstHwAddress"))))
	// DstProtAddress: r.DstIP.To4()
	c, ok := frTake(p, "ARP", m, "DstProtAddress").(*ast.CallExpr)
	good := ok && len(c.Args) == 0
	if good {
		s, ok := c.Fun.(*ast.SelectorExpr)
		good = ok && s.Sel.Name == "To4"
		if good {
			frExpectField(p, s.X, f.req, "DstIP")
		}
	}
	if !good {
		die("ARP.DstProtAddress is not r.DstIP.To4()")
	}
	frNoMore("ARP", m)
	fix, ck := f.serializeOpts("")
	o.def("arp_fix_lengths", "bool", fix)
	o.def("arp_compute_checksums", "bool", ck)
	ls := f.layerLists()
	if len(ls) != 1 || len(ls[0]) != 2 {
		die("arp Fill: expected one SerializeLayers(packet, opt, eth, arp)")
	}
}

// frCliDefaults reads the flag definitions  cmd.Flags().<T>Var[P](&o.<field>, "<name>", [short,] <default>, usage)
// of one initCliFlags method: flag name -> (field, default expression).
func frCliDefaults(p *pkgFiles, recv string) map[string][2]ast.Expr {
	fn := p.findFunc(recv, "initCliFlags")
	out := map[string][2]ast.Expr{}
	ast.Inspect(fn.Body, func(n ast.Node) bool {
		c, ok := n.(*ast.CallExpr)
		if !ok {
			return true
		}
		s, ok := c.Fun.(*ast.SelectorExpr)
		if !ok || !strings.Contains(s.Sel.Name, "Var") {
			return true
		}
		if inner, ok := s.X.(*ast.CallExpr); !ok || len(inner.Args) != 0 {
			return true
		} else if is, ok := inner.Fun.(*ast.SelectorExpr); !ok || is.Sel.Name != "Flags" {
			return true
		}
		di := 2
		if strings.HasSuffix(s.Sel.Name, "VarP") {
			di = 3
		}
		if len(c.Args) != di+2 {
			die("%s: unexpected flag definition", p.pos(c))
		}
		name := stringLitFr(p, c.Args[1])
		u, ok := c.Args[0].(*ast.UnaryExpr)
		if !ok || u.Op != token.AND {
			die("%s: flag target is not &o.field", p.pos(c))
		}
		out[name] = [2]ast.Expr{u.X, c.Args[di]}
		return true
	})
	return out
}

func stringLitFr(p *pkgFiles, e ast.Expr) string {
	l, ok := e.(*ast.BasicLit)
	if !ok || l.Kind != token.STRING {
		die("%s: expected a string literal", p.pos(e))
	}
	v := constant.StringVal(constant.MakeFromLiteral(l.Value, l.Kind, 0))
	return v
}

// frIPFlagTable reads the switch of parseIPFlags: name -> value or-ed in.
func frIPFlagTable(p *pkgFiles) map[string]constant.Value {
	fn := p.findFunc("", "parseIPFlags")
	out := map[string]constant.Value{}
	ast.Inspect(fn.Body, func(n ast.Node) bool {
		cc, ok := n.(*ast.CaseClause)
		if !ok || len(cc.List) == 0 {
			return true
		}
		if len(cc.List) != 1 || len(cc.Body) != 1 {
			die("%s: unexpected case in parseIPFlags", p.pos(cc))
		}
		as, ok := cc.Body[0].(*ast.AssignStmt)
		if !ok || as.Tok != token.OR_ASSIGN || len(as.Rhs) != 1 {
			die("%s: unexpected case body in parseIPFlags", p.pos(cc))
		}
		out[stringLitFr(p, cc.List[0])] = frEval(p, as.Rhs[0])
		return true
	})
	if len(out) == 0 {
		die("parseIPFlags: no cases found")
	}
	return out
}

func genFrameCLI(o *frOut) {
	p := parseDir(filepath.Join(*repo, "command"))
	tbl := frIPFlagTable(p)
	flagsOf := func(e ast.Expr) string {
		s := strings.ToLower(stringLitFr(p, e))
		v := constant.MakeInt64(0)
		if s != "" {
			for _, nm := range strings.Split(s, ",") {
				x, ok := tbl[nm]
				if !ok {
					die("default --ipflags %q is not accepted by parseIPFlags", s)
				}
				v = constant.BinaryOp(v, token.OR, x)
			}
		}
		return zlit(v)
	}
	for _, k := range []struct {
		pre, recv string
		nums      []string
	}{{"icmp", "icmpCmdOpts", []string{"ttl", "ipproto", "iplen", "type", "code"}},
		{"udp", "udpCmdOpts", []string{"ttl", "ipproto", "iplen"}}} {
		o.note("command/" + k.pre + ".go initCliFlags: flag defaults")
		d := frCliDefaults(p, k.recv)
		for _, nm := range k.nums {
			e, ok := d[nm]
			if !ok {
				die("%s: flag --%s not defined", k.recv, nm)
			}
			o.z(k.pre+"_cli_default_"+nm, frZ(p, e[1]))
		}
		e, ok := d["ipflags"]
		if !ok {
			die("%s: flag --ipflags not defined", k.recv)
		}
		o.z(k.pre+"_cli_default_ipflags", flagsOf(e[1]))
		e, ok = d["payload"]
		if !ok || stringLitFr(p, e[1]) != "" {
			die("%s: --payload does not default to the empty string", k.recv)
		}
		getter := map[string]string{"icmp": "getICMPOptions", "udp": "getUDPOptions"}[k.pre]
		o.note("command/" + k.pre + ".go: flag name, filler option it reaches, raw string parser in between, when it is passed")
		o.def(k.pre+"_cli_chain", "list (string * string * string * string)", frZList(frCliChain(p, k.recv, k.pre, getter)))
	}
}

// frCliChain composes, for one of `sx icmp` / `sx udp`:  flag name -> options field (initCliFlags) -> [raw string
// parser -> parsed field (parseRawOptions)] -> With* constructor fed with that field (get*Options).
func frCliChain(p *pkgFiles, recv, pkg, getter string) []string {
	flags := frCliDefaults(p, recv)
	// parseRawOptions:  o.X, err = parser(o.rawY)
	parsed := map[string][2]string{} // raw field -> (parsed field, parser)
	ast.Inspect(p.findFunc(recv, "parseRawOptions").Body, func(n ast.Node) bool {
		as, ok := n.(*ast.AssignStmt)
		if !ok || len(as.Lhs) != 2 || len(as.Rhs) != 1 {
			return true
		}
		c, ok := as.Rhs[0].(*ast.CallExpr)
		if !ok || len(c.Args) != 1 {
			return true
		}
		fn, ok := c.Fun.(*ast.Ident)
		l, ok2 := as.Lhs[0].(*ast.SelectorExpr)
		a, ok3 := c.Args[0].(*ast.SelectorExpr)
		if ok && ok2 && ok3 {
			parsed[a.Sel.Name] = [2]string{l.Sel.Name, fn.Name}
		}
		return true
	})
	// getter: pkg.WithX(o.field)
	withOf := map[string]string{}
	guarded := map[string]bool{}
	g := p.findFunc(recv, getter)
	var walk func(n ast.Node, inIf bool)
	walk = func(n ast.Node, inIf bool) {
		ast.Inspect(n, func(m ast.Node) bool {
			if is, ok := m.(*ast.IfStmt); ok && m != n {
				// only  if len(o.<payload field>) > 0 { ... }
				c, ok := is.Cond.(*ast.BinaryExpr)
				good := ok && c.Op == token.GTR && is.Else == nil && is.Init == nil
				if good {
					lc, ok := c.X.(*ast.CallExpr)
					good = ok && len(lc.Args) == 1
					if good {
						id, ok := lc.Fun.(*ast.Ident)
						good = ok && id.Name == "len"
					}
					if lit, ok := c.Y.(*ast.BasicLit); !ok || lit.Value != "0" {
						good = false
					}
				}
				if !good {
					die("%s: unexpected condition in %s", p.pos(is), getter)
				}
				walk(is.Body, true)
				return false
			}
			c, ok := m.(*ast.CallExpr)
			if ok && frIsSel(c.Fun, pkg, "") && len(c.Args) == 1 {
				w := c.Fun.(*ast.SelectorExpr).Sel.Name
				a, ok := c.Args[0].(*ast.SelectorExpr)
				if !ok {
					die("%s: argument of %s is not a field", p.pos(c), w)
				}
				if _, dup := withOf[a.Sel.Name]; dup {
					die("%s: field %s feeds two options", p.pos(c), a.Sel.Name)
				}
				withOf[a.Sel.Name] = w
				guarded[w] = inIf
			}
			return true
		})
	}
	walk(g.Body, false)
	var names []string
	for nm := range flags {
		names = append(names, nm)
	}
	sort.Strings(names)
	var rows []string
	for _, nm := range names {
		s, ok := flags[nm][0].(*ast.SelectorExpr)
		if !ok {
			die("flag --%s does not target a field", nm)
		}
		field, parser := s.Sel.Name, ""
		if pr, ok := parsed[field]; ok {
			field, parser = pr[0], pr[1]
		}
		w, ok := withOf[field]
		if !ok {
			continue // not a packet option (json, iface, rate, ...)
		}
		gd := "always"
		if guarded[w] {
			gd = "if-nonempty"
		}
		rows = append(rows, fmt.Sprintf("(%s, %s, %s, %s)", coqString(nm), coqString(w), coqString(parser), coqString(gd)))
	}
	return rows
}

// frWithCall requires e to be tcp.With<X>() and returns "With<X>".
func frWithCall(p *pkgFiles, e ast.Expr) string {
	c, ok := e.(*ast.CallExpr)
	if ok && len(c.Args) == 0 && frIsSel(c.Fun, "tcp", "") {
		return c.Fun.(*ast.SelectorExpr).Sel.Name
	}
	die("%s: expected a tcp.With*() call", p.pos(e))
	return ""
}

// genFrameTCPCommands: which filler options each tcp scan command passes.
func genFrameTCPCommands(o *frOut) {
	p := parseDir(filepath.Join(*repo, "command"))
	o.note("command/tcp.go tcpPacketFlagOptions: --flags name -> filler option")
	ml, ok := p.findVar("tcpPacketFlagOptions").(*ast.CompositeLit)
	if !ok {
		die("tcpPacketFlagOptions is not a map literal")
	}
	pairs := map[string]string{}
	for _, el := range ml.Elts {
		kv, ok := el.(*ast.KeyValueExpr)
		if !ok {
			die("%s: bad map entry", p.pos(el))
		}
		var name string
		switch k := kv.Key.(type) {
		case *ast.BasicLit:
			name = stringLitFr(p, k)
		case *ast.Ident:
			name = stringLitFr(p, p.findConst(k.Name))
		default:
			die("%s: bad map key", p.pos(el))
		}
		if _, dup := pairs[name]; dup {
			die("%s: duplicate flag name %s", p.pos(el), name)
		}
		pairs[name] = frWithCall(p, kv.Value)
	}
	var rows []string
	for _, k := range sortedKeys(pairs) {
		rows = append(rows, fmt.Sprintf("(%s, %s)", coqString(k), coqString(pairs[k])))
	}
	o.def("tcp_cli_flag_options", "list (string * string)", frZList(rows))

	o.note("command/tcp*.go: arguments of withTCPPacketFillerOptions per source file (\"...\" = the --flags loop)")
	byFile := map[string]string{}
	var files []string
	for fn := range p.files {
		files = append(files, fn)
	}
	sort.Strings(files)
	for _, fn := range files {
		ast.Inspect(p.files[fn], func(n ast.Node) bool {
			c, ok := n.(*ast.CallExpr)
			if !ok {
				return true
			}
			id, ok := c.Fun.(*ast.Ident)
			if !ok || id.Name != "withTCPPacketFillerOptions" {
				return true
			}
			if _, dup := byFile[fn]; dup {
				die("%s: second withTCPPacketFillerOptions call in %s", p.pos(c), fn)
			}
			if c.Ellipsis.IsValid() {
				// the --flags command: opts built by  for _, flag := range c.opts.tcpFlags { opts = append(opts, tcpPacketFlagOptions[flag]) }
				if len(c.Args) != 1 {
					die("%s: unexpected variadic call", p.pos(c))
				}
				v, ok := c.Args[0].(*ast.Ident)
				if !ok {
					die("%s: unexpected variadic argument", p.pos(c))
				}
				okLoop := false
				ast.Inspect(p.files[fn], func(m ast.Node) bool {
					rs, ok := m.(*ast.RangeStmt)
					if !ok || len(rs.Body.List) != 1 {
						return true
					}
					as, ok := rs.Body.List[0].(*ast.AssignStmt)
					if !ok || len(as.Lhs) != 1 || len(as.Rhs) != 1 {
						return true
					}
					l, ok := as.Lhs[0].(*ast.Ident)
					ap, ok2 := as.Rhs[0].(*ast.CallExpr)
					if !ok || !ok2 || l.Name != v.Name || len(ap.Args) != 2 {
						return true
					}
					if f, ok := ap.Fun.(*ast.Ident); !ok || f.Name != "append" {
						return true
					}
					ix, ok := ap.Args[1].(*ast.IndexExpr)
					if !ok {
						return true
					}
					mp, ok := ix.X.(*ast.Ident)
					key, ok2 := ix.Index.(*ast.Ident)
					val, ok3 := rs.Value.(*ast.Ident)
					if ok && ok2 && ok3 && mp.Name == "tcpPacketFlagOptions" && key.Name == val.Name {
						if s, ok := rs.X.(*ast.SelectorExpr); ok && s.Sel.Name == "tcpFlags" {
							okLoop = true
						}
					}
					return true
				})
				if !okLoop {
					die("%s: the options of the --flags command are not built by the tcpPacketFlagOptions loop", p.pos(c))
				}
				byFile[fn] = "[\"...\"]"
				return true
			}
			var ws []string
			for _, a := range c.Args {
				ws = append(ws, coqString(frWithCall(p, a)))
			}
			byFile[fn] = frZList(ws)
			return true
		})
	}
	var frows []string
	for _, fn := range sortedKeys(byFile) {
		frows = append(frows, fmt.Sprintf("(%s, %s)", coqString(fn), byFile[fn]))
	}
	o.def("tcp_scan_options", "list (string * list string)", frZList(frows))
	// newTCPScanMethod appends tcp.WithFillerVPNmode(o.vpnMode)
	nm := p.findFunc("tcpCmdOpts", "newTCPScanMethod")
	okVpn := false
	ast.Inspect(nm.Body, func(n ast.Node) bool {
		c, ok := n.(*ast.CallExpr)
		if ok && frIsSel(c.Fun, "tcp", "WithFillerVPNmode") && len(c.Args) == 1 {
			if s, ok := c.Args[0].(*ast.SelectorExpr); ok && s.Sel.Name == "vpnMode" {
				okVpn = true
			}
		}
		return true
	})
	if !okVpn {
		die("newTCPScanMethod does not pass tcp.WithFillerVPNmode(o.vpnMode)")
	}
}

func genFrameConsts() {
	frLayers = frParseFiles(filepath.Join(frModuleDir("github.com/google/gopacket"), "layers"),
		"enums.go", "ip4.go", "tcp.go", "arp.go", "icmp4.go")
	o := &frOut{}
	o.b.WriteString("(* GENERATED by tools/gen/frames.go from pkg/scan/{tcp,udp,icmp,arp}/*.go, command/{icmp,udp,config}.go\n" +
		"   and the constants of gopacket/layers. Do not edit. *)\n")
	o.b.WriteString("From Coq Require Import ZArith List String.\nImport ListNotations.\nLocal Open Scope Z_scope.\nLocal Open Scope string_scope.\n")
	genFrameTCP(o)
	genFrameUDP(o)
	genFrameICMP(o)
	genFrameARP(o)
	genFrameCLI(o)
	genFrameTCPCommands(o)
	writeIfChanged("FrameConsts.v", o.b.Bytes())
}
