package main

// Translator piece for C14: the de-duplication loop of command/log/unique_logger.go (uniqResults).
//
// It DESCRIBES the loop (it does not judge it): the type of the "seen" set, the statements between
// taking a result off the input channel and the membership test, the expression that indexes the
// set in the test and in the insertion, the test-then-insert-then-forward order and what is
// forwarded where.  Output: coq/Gen/UniqLoop.v, a value of Model.Json.uniq_loop_desc.  The
// obligation C14_uniq_loop_shape (Properties/C14.v) demands that the key is exactly `result.ID()`
// on a string-keyed map, tested before it is inserted, and that the received result itself is
// what is forwarded -- the shape the model's [uniq_run] has.  A digest, a truncated or otherwise
// derived key still translates and then fails that obligation.  Only a loop whose skeleton cannot
// be found at all aborts this piece (its output is removed; the obligation stops compiling).

import (
	"bytes"
	"fmt"
	"go/ast"
	"go/printer"
	"go/token"
	"path/filepath"
	"strings"
)

func init() { register("UniqLoop", genUniqLoop) }

func ulText(p *pkgFiles, n ast.Node) string {
	if n == nil {
		return ""
	}
	var b bytes.Buffer
	if err := printer.Fprint(&b, p.fset, n); err != nil {
		die("%s: cannot print: %v", p.pos(n), err)
	}
	return strings.Join(strings.Fields(b.String()), " ")
}

func ulCoqList(l []string) string {
	var parts []string
	for _, s := range l {
		parts = append(parts, coqString(s))
	}
	return "[" + strings.Join(parts, "; ") + "]"
}

func genUniqLoop() {
	p := parseDir(filepath.Join(*repo, "command/log"))
	fd := p.findFunc("UniqueLogger", "uniqResults")
	if fd.Type.Params == nil || len(fd.Type.Params.List) != 2 || len(fd.Type.Params.List[1].Names) != 1 ||
		len(fd.Type.Params.List[0].Names) != 1 {
		die("%s: uniqResults does not take (ctx, in)", p.pos(fd))
	}
	ctxVar := fd.Type.Params.List[0].Names[0].Name
	inVar := fd.Type.Params.List[1].Names[0].Name

	// the returned channel
	outVar := ""
	for _, st := range fd.Body.List {
		if rs, ok := st.(*ast.ReturnStmt); ok && len(rs.Results) == 1 {
			if id, ok := rs.Results[0].(*ast.Ident); ok {
				outVar = id.Name
			}
		}
	}
	if outVar == "" {
		die("%s: uniqResults does not return a channel variable", p.pos(fd))
	}

	// the goroutine
	var goBody *ast.BlockStmt
	for _, st := range fd.Body.List {
		if gs, ok := st.(*ast.GoStmt); ok {
			if fl, ok := gs.Call.Fun.(*ast.FuncLit); ok {
				if goBody != nil {
					die("%s: more than one goroutine in uniqResults", p.pos(gs))
				}
				goBody = fl.Body
			}
		}
	}
	if goBody == nil {
		die("%s: no goroutine in uniqResults", p.pos(fd))
	}

	// every map made in the function: exactly one is expected, the "seen" set
	type mapDecl struct{ name, key, val string }
	var maps []mapDecl
	ast.Inspect(fd.Body, func(n ast.Node) bool {
		as, ok := n.(*ast.AssignStmt)
		if !ok || len(as.Lhs) != 1 || len(as.Rhs) != 1 {
			return true
		}
		ce, ok := as.Rhs[0].(*ast.CallExpr)
		if !ok || len(ce.Args) < 1 {
			return true
		}
		if f, ok := ce.Fun.(*ast.Ident); !ok || f.Name != "make" {
			return true
		}
		mt, ok := ce.Args[0].(*ast.MapType)
		if !ok {
			return true
		}
		if id, ok := as.Lhs[0].(*ast.Ident); ok {
			maps = append(maps, mapDecl{id.Name, ulText(p, mt.Key), ulText(p, mt.Value)})
		}
		return true
	})
	if len(maps) != 1 {
		die("%s: expected exactly one map (the set of seen IDs) in uniqResults, found %d", p.pos(fd), len(maps))
	}
	set := maps[0]

	// the for { select { ... case R, ok := <-in: BODY } } loop
	var recvClause *ast.CommClause
	recvVar, okVar := "", ""
	ast.Inspect(goBody, func(n ast.Node) bool {
		cc, ok := n.(*ast.CommClause)
		if !ok || cc.Comm == nil {
			return true
		}
		as, ok := cc.Comm.(*ast.AssignStmt)
		if !ok || len(as.Rhs) != 1 || len(as.Lhs) != 2 || as.Tok != token.DEFINE {
			return true
		}
		ue, ok := as.Rhs[0].(*ast.UnaryExpr)
		if !ok || ue.Op != token.ARROW {
			return true
		}
		if id, ok := ue.X.(*ast.Ident); !ok || id.Name != inVar {
			return true
		}
		if recvClause != nil {
			die("%s: the input channel is received from in two places", p.pos(cc))
		}
		recvClause = cc
		recvVar, okVar = ulText(p, as.Lhs[0]), ulText(p, as.Lhs[1])
		return true
	})
	if recvClause == nil {
		die("%s: no `case R, ok := <-%s:` in uniqResults", p.pos(fd), inVar)
	}

	// body of that clause: [if !ok { return }] PRE... if TEST { THEN... } [else]
	body := recvClause.Body
	closedGuard := false
	if len(body) > 0 {
		if is, ok := body[0].(*ast.IfStmt); ok && is.Init == nil && is.Else == nil &&
			ulText(p, is.Cond) == "!"+okVar && len(is.Body.List) == 1 && ulText(p, is.Body.List[0]) == "return" {
			closedGuard = true
			body = body[1:]
		}
	}
	// the membership test: the LAST statement of the clause must be an if whose init reads the set
	if len(body) == 0 {
		die("%s: nothing happens with a received result", p.pos(recvClause))
	}
	test, ok := body[len(body)-1].(*ast.IfStmt)
	if !ok {
		die("%s: the handling of a received result does not end with the membership test", p.pos(recvClause))
	}
	var pre []string
	for _, st := range body[:len(body)-1] {
		pre = append(pre, ulText(p, st))
	}
	testBind, testIndex := "", ""
	if as, ok := test.Init.(*ast.AssignStmt); ok && len(as.Rhs) == 1 {
		var l []string
		for _, x := range as.Lhs {
			l = append(l, ulText(p, x))
		}
		testBind = strings.Join(l, ", ")
		testIndex = ulText(p, as.Rhs[0])
	} else if test.Init != nil {
		testBind = ulText(p, test.Init)
	}
	testCond := ulText(p, test.Cond)
	hasElse := test.Else != nil

	// then-branch: statements before the forwarding select, and the select's cases
	var thenPre []string
	type commCase struct{ comm, body string }
	var cases []commCase
	nSelect := 0
	for _, st := range test.Body.List {
		if ss, ok := st.(*ast.SelectStmt); ok {
			nSelect++
			for _, c := range ss.Body.List {
				cc := c.(*ast.CommClause)
				var bs []string
				for _, b := range cc.Body {
					bs = append(bs, ulText(p, b))
				}
				comm := "default"
				if cc.Comm != nil {
					comm = ulText(p, cc.Comm)
				}
				cases = append(cases, commCase{comm, strings.Join(bs, "; ")})
			}
			continue
		}
		if nSelect > 0 {
			thenPre = append(thenPre, "AFTER-FORWARD: "+ulText(p, st))
		} else {
			thenPre = append(thenPre, ulText(p, st))
		}
	}
	if nSelect != 1 {
		// a plain send instead of a select is described as one case
		if nSelect == 0 {
			var keep []string
			for _, s := range thenPre {
				if strings.Contains(s, "<-") {
					cases = append(cases, commCase{s, ""})
				} else {
					keep = append(keep, s)
				}
			}
			thenPre = keep
		} else {
			die("%s: more than one select in the forwarding branch", p.pos(test))
		}
	}

	var b bytes.Buffer
	b.WriteString("(* GENERATED by tools/gen from command/log/unique_logger.go (uniqResults). Do not edit. *)\n")
	b.WriteString("From Coq Require Import String List.\nFrom SX Require Import Model.Json.\nImport ListNotations.\nLocal Open Scope string_scope.\n\n")
	b.WriteString("Definition uniq_loop : uniq_loop_desc := {|\n")
	fmt.Fprintf(&b, "  ul_ctx_var := %s; ul_in_var := %s; ul_out_var := %s;\n", coqString(ctxVar), coqString(inVar), coqString(outVar))
	fmt.Fprintf(&b, "  ul_set_var := %s; ul_set_key_type := %s; ul_set_val_type := %s;\n", coqString(set.name), coqString(set.key), coqString(set.val))
	fmt.Fprintf(&b, "  ul_recv_var := %s; ul_closed_guard := %v;\n", coqString(recvVar), closedGuard)
	fmt.Fprintf(&b, "  ul_pre := %s;\n", ulCoqList(pre))
	fmt.Fprintf(&b, "  ul_test_bind := %s; ul_test_index := %s; ul_test_cond := %s; ul_has_else := %v;\n",
		coqString(testBind), coqString(testIndex), coqString(testCond), hasElse)
	fmt.Fprintf(&b, "  ul_then := %s;\n", ulCoqList(thenPre))
	var cs []string
	for _, c := range cases {
		cs = append(cs, fmt.Sprintf("(%s, %s)", coqString(c.comm), coqString(c.body)))
	}
	fmt.Fprintf(&b, "  ul_forward := [%s] |}.\n", strings.Join(cs, "; "))
	writeIfChanged("UniqLoop.v", b.Bytes())
}
