package main

// Translator piece for C01/C02/C13: which request generator chain every command of command/*.go builds
// (as a constructor-call tree with the option tests it branches on), which engine start function it uses,
// and the chunk loop of startPortScanEngine (chunk size, the "empty list runs once" guard).
// Output: coq/Gen/TargetWiring.v.  Any statement that touches a generator value in a way this file does
// not understand is a loud failure (broken tie).

import (
	"bytes"
	"fmt"
	"go/ast"
	"go/constant"
	"go/printer"
	"go/token"
	"path/filepath"
	"sort"
	"strings"
)

func init() { register("TargetWiring", genTargetWiring) }

// twFail reports a shape this piece does not understand; tools/gen isolates the failure to this piece
// (its output is removed, so exactly the theorems that depend on the target wiring stop compiling).
func twFail(format string, args ...interface{}) {
	die("targets wiring: "+format, args...)
}

type twCtx struct {
	p       *pkgFiles
	structs map[string]*ast.StructType
	methods map[string]map[string]*ast.FuncDecl // receiver type -> method name -> decl
	funcs   map[string]*ast.FuncDecl
}

func twText(p *pkgFiles, n ast.Node) string {
	var b bytes.Buffer
	printer.Fprint(&b, p.fset, n)
	return strings.Join(strings.Fields(b.String()), " ")
}

func twRecvName(fd *ast.FuncDecl) string {
	if fd.Recv == nil || len(fd.Recv.List) != 1 {
		return ""
	}
	t := fd.Recv.List[0].Type
	if st, ok := t.(*ast.StarExpr); ok {
		t = st.X
	}
	if id, ok := t.(*ast.Ident); ok {
		return id.Name
	}
	return ""
}

func twLoad(p *pkgFiles) *twCtx {
	c := &twCtx{p: p, structs: map[string]*ast.StructType{}, methods: map[string]map[string]*ast.FuncDecl{}, funcs: map[string]*ast.FuncDecl{}}
	for _, f := range p.files {
		for _, d := range f.Decls {
			switch x := d.(type) {
			case *ast.GenDecl:
				if x.Tok != token.TYPE {
					continue
				}
				for _, s := range x.Specs {
					ts := s.(*ast.TypeSpec)
					if st, ok := ts.Type.(*ast.StructType); ok {
						c.structs[ts.Name.Name] = st
					}
				}
			case *ast.FuncDecl:
				r := twRecvName(x)
				if r == "" {
					c.funcs[x.Name.Name] = x
					continue
				}
				if c.methods[r] == nil {
					c.methods[r] = map[string]*ast.FuncDecl{}
				}
				c.methods[r][x.Name.Name] = x
			}
		}
	}
	return c
}

// method resolves a method through the chain of embedded structs, Go style (breadth first is not needed:
// the option structs embed exactly one struct each).
func (c *twCtx) method(typ, name string) (*ast.FuncDecl, string) {
	seen := map[string]bool{}
	for typ != "" && !seen[typ] {
		seen[typ] = true
		if m, ok := c.methods[typ][name]; ok {
			return m, typ
		}
		st, ok := c.structs[typ]
		if !ok {
			break
		}
		next := ""
		for _, f := range st.Fields.List {
			if len(f.Names) == 0 { // embedded
				t := f.Type
				if se, ok := t.(*ast.StarExpr); ok {
					t = se.X
				}
				if id, ok := t.(*ast.Ident); ok {
					if next != "" {
						twFail("struct %s embeds more than one struct", typ)
					}
					next = id.Name
				}
			}
		}
		typ = next
	}
	return nil, ""
}

func (c *twCtx) fieldType(typ, field string) string {
	st, ok := c.structs[typ]
	if !ok {
		return ""
	}
	for _, f := range st.Fields.List {
		for _, n := range f.Names {
			if n.Name == field {
				t := f.Type
				if se, ok := t.(*ast.StarExpr); ok {
					t = se.X
				}
				if id, ok := t.(*ast.Ident); ok {
					return id.Name
				}
			}
		}
	}
	return ""
}

// ---------------------------------------------------------------- symbolic evaluation of generator builders

type twEnv struct {
	c      *twCtx
	recv   string            // receiver type of the function being evaluated
	vars   map[string]string // tracked variable -> Coq gexpr
	replay map[string]bool   // variables holding newStdinReplay(os.Stdin)
	result string            // name of the named result, if any
	defers []*ast.FuncLit
}

// equivalent spellings of the option tests (so that a harmless rewrite does not break the tie)
var twConds = map[string]string{
	"len(o.ipFile) == 0":     "CNoFile",
	`o.ipFile == ""`:         "CNoFile",
	"len(o.ipFile) < 1":      "CNoFile",
	"len(o.ipFile) > 0":      "CHasFile",
	"len(o.ipFile) != 0":     "CHasFile",
	`o.ipFile != ""`:         "CHasFile",
	"len(o.portRanges) == 0": "CNoPorts",
	"len(o.portRanges) < 1":  "CNoPorts",
	"o.excludeIPs != nil":    "CExclude",
	"nil != o.excludeIPs":    "CExclude",
	"o.cache != nil":         "CCache",
	"nil != o.cache":         "CCache",
	"o.liveTimeout > 0":      "CLive",
	"o.liveTimeout != 0":     "CLive",
	"0 < o.liveTimeout":      "CLive",
}

func (e *twEnv) cond(x ast.Expr) string {
	if p, ok := x.(*ast.ParenExpr); ok {
		return e.cond(p.X)
	}
	t := twText(e.c.p, x)
	if c, ok := twConds[t]; ok {
		return c
	}
	twFail("%s: unknown condition %q on a generator chain", e.c.p.pos(x), t)
	return ""
}

func twSel(x ast.Expr) string {
	if s, ok := x.(*ast.SelectorExpr); ok {
		if id, ok := s.X.(*ast.Ident); ok {
			return id.Name + "." + s.Sel.Name
		}
	}
	return ""
}

// opener translates the func literal passed to NewFileIPGenerator / NewFileIPPortGenerator.
func (e *twEnv) opener(x ast.Expr) string {
	fl, ok := x.(*ast.FuncLit)
	if !ok {
		twFail("%s: file opener is not a func literal", e.c.p.pos(x))
	}
	body := fl.Body.List
	isOpen := func(s ast.Stmt) bool {
		r, ok := s.(*ast.ReturnStmt)
		return ok && len(r.Results) == 1 && twText(e.c.p, r.Results[0]) == "os.Open(o.ipFile)"
	}
	if len(body) == 1 && isOpen(body[0]) {
		return "GOpenFile"
	}
	if len(body) == 2 && isOpen(body[1]) {
		if is, ok := body[0].(*ast.IfStmt); ok && is.Else == nil && is.Init == nil &&
			twText(e.c.p, is.Cond) == `o.ipFile == "-"` && len(is.Body.List) == 1 {
			if r, ok := is.Body.List[0].(*ast.ReturnStmt); ok {
				t := ""
				for i, res := range r.Results {
					if i > 0 {
						t += ", "
					}
					t += twText(e.c.p, res)
				}
				if t == "io.NopCloser(os.Stdin), nil" {
					return "GOpenStdinRaw"
				}
				if len(r.Results) == 1 {
					if call, ok := r.Results[0].(*ast.CallExpr); ok && len(call.Args) == 0 {
						if s, ok := call.Fun.(*ast.SelectorExpr); ok && s.Sel.Name == "open" {
							if id, ok := s.X.(*ast.Ident); ok && e.replay[id.Name] {
								return "GOpenStdinReplay"
							}
						}
					}
				}
			}
		}
	}
	twFail("%s: file opener of unknown shape: %s", e.c.p.pos(x), twText(e.c.p, fl.Body))
	return ""
}

func (e *twEnv) argIs(call *ast.CallExpr, i int, want string) {
	if i >= len(call.Args) || twText(e.c.p, call.Args[i]) != want {
		twFail("%s: argument %d of %s is not %s", e.c.p.pos(call), i, twText(e.c.p, call.Fun), want)
	}
}

// isGen reports whether an expression can be a generator value (so that statements mentioning it matter).
func (e *twEnv) eval(x ast.Expr) string {
	switch v := x.(type) {
	case *ast.Ident:
		if g, ok := e.vars[v.Name]; ok {
			return g
		}
		twFail("%s: %s is not a known generator value", e.c.p.pos(x), v.Name)
	case *ast.ParenExpr:
		return e.eval(v.X)
	case *ast.CallExpr:
		name := twSel(v.Fun)
		n := len(v.Args)
		switch {
		case name == "scan.NewIPPortGenerator" && n == 2:
			return fmt.Sprintf("(GIPPort %s %s)", e.eval(v.Args[0]), e.eval(v.Args[1]))
		case name == "scan.NewIPGenerator" && n == 0:
			return "GSubnetIPs"
		case name == "scan.NewPortGenerator" && n == 0:
			return "GPorts"
		case name == "scan.NewFileIPPortGenerator" && n == 1:
			return fmt.Sprintf("(GFilePairs %s)", e.opener(v.Args[0]))
		case name == "scan.NewFileIPGenerator" && n == 1:
			return fmt.Sprintf("(GFileIPs %s)", e.opener(v.Args[0]))
		case name == "scan.NewIPRequestGenerator" && n == 1:
			return fmt.Sprintf("(GIPReq %s)", e.eval(v.Args[0]))
		case name == "scan.NewFilterIPRequestGenerator" && n == 2:
			e.argIs(v, 1, "o.excludeIPs")
			return fmt.Sprintf("(GFilter %s)", e.eval(v.Args[0]))
		case name == "arp.NewCacheRequestGenerator" && n == 3:
			e.argIs(v, 1, "o.gatewayMAC")
			e.argIs(v, 2, "o.cache")
			return fmt.Sprintf("(GCache %s)", e.eval(v.Args[0]))
		case name == "scan.NewLiveRequestGenerator" && n == 2:
			e.argIs(v, 1, "o.liveTimeout")
			return fmt.Sprintf("(GLive %s)", e.eval(v.Args[0]))
		case name == "o.newIPPortGenerator" && n == 0:
			m, recv := e.c.method(e.recv, "newIPPortGenerator")
			if m == nil {
				twFail("%s: no method newIPPortGenerator on %s", e.c.p.pos(x), e.recv)
			}
			return twEvalFunc(e.c, m, recv)
		}
		twFail("%s: unknown generator constructor %s", e.c.p.pos(x), twText(e.c.p, v.Fun))
	}
	twFail("%s: unsupported generator expression %s", e.c.p.pos(x), twText(e.c.p, x))
	return ""
}

var twGenCalls = []string{"scan.NewIPPortGenerator", "scan.NewIPGenerator", "scan.NewPortGenerator", "scan.NewFileIPPortGenerator",
	"scan.NewFileIPGenerator", "scan.NewIPRequestGenerator", "scan.NewFilterIPRequestGenerator", "arp.NewCacheRequestGenerator",
	"scan.NewLiveRequestGenerator", "o.newIPPortGenerator", "scan.NewFileIPGenerator"}

// mentions reports whether a node refers to a tracked variable or calls a generator constructor.
func (e *twEnv) mentions(n ast.Node) bool {
	found := false
	ast.Inspect(n, func(x ast.Node) bool {
		switch v := x.(type) {
		case *ast.Ident:
			if _, ok := e.vars[v.Name]; ok {
				found = true
			}
			if v.Name == e.result && e.result != "" {
				found = true
			}
		case *ast.CallExpr:
			s := twSel(v.Fun)
			for _, g := range twGenCalls {
				if s == g {
					found = true
				}
			}
		}
		return !found
	})
	return found
}

func (e *twEnv) assign(lhs ast.Expr, rhs ast.Expr) {
	id, ok := lhs.(*ast.Ident)
	if !ok {
		twFail("%s: generator assigned to a non-variable", e.c.p.pos(lhs))
	}
	// stdin recorder: stdin := newStdinReplay(os.Stdin)
	if call, ok := rhs.(*ast.CallExpr); ok && twText(e.c.p, call) == "newStdinReplay(os.Stdin)" {
		e.replay[id.Name] = true
		return
	}
	e.vars[id.Name] = e.eval(rhs)
}

// stmts evaluates a statement list; it returns the value returned by it ("" when control falls through).
func (e *twEnv) stmts(list []ast.Stmt) string {
	for i, s := range list {
		switch v := s.(type) {
		case *ast.AssignStmt:
			if !e.mentions(v) && !strings.Contains(twText(e.c.p, v), "newStdinReplay") {
				continue
			}
			if len(v.Lhs) != 1 || len(v.Rhs) != 1 {
				twFail("%s: multi-assignment involving a generator", e.c.p.pos(s))
			}
			e.assign(v.Lhs[0], v.Rhs[0])
		case *ast.DeclStmt:
			if !e.mentions(v) {
				continue
			}
			gd, ok := v.Decl.(*ast.GenDecl)
			if !ok || len(gd.Specs) != 1 {
				twFail("%s: unsupported declaration", e.c.p.pos(s))
			}
			vs := gd.Specs[0].(*ast.ValueSpec)
			if len(vs.Names) != 1 || len(vs.Values) != 1 {
				twFail("%s: unsupported declaration", e.c.p.pos(s))
			}
			e.assign(vs.Names[0], vs.Values[0])
		case *ast.DeferStmt:
			fl, ok := v.Call.Fun.(*ast.FuncLit)
			if !ok {
				if e.mentions(v) {
					twFail("%s: unsupported defer", e.c.p.pos(s))
				}
				continue
			}
			if e.mentions(fl) {
				e.defers = append(e.defers, fl)
			}
		case *ast.IfStmt:
			if !e.mentions(v) {
				continue
			}
			if v.Init != nil || v.Else != nil {
				twFail("%s: if with init/else on a generator chain", e.c.p.pos(s))
			}
			c := e.cond(v.Cond)
			// evaluate the body in a copy of the environment
			sub := e.clone()
			ret := sub.stmts(v.Body.List)
			if ret != "" {
				// early return: the rest of the list is the else branch
				rest := e.stmts(list[i+1:])
				if rest == "" {
					twFail("%s: control falls off after a conditional return", e.c.p.pos(s))
				}
				return fmt.Sprintf("(GIf %s %s %s)", c, ret, rest)
			}
			for k, g := range sub.vars {
				old, had := e.vars[k]
				if !had {
					continue // local to the branch
				}
				if g != old {
					e.vars[k] = fmt.Sprintf("(GIf %s %s %s)", c, g, old)
				}
			}
		case *ast.ReturnStmt:
			if len(v.Results) == 0 {
				if e.result == "" {
					twFail("%s: bare return without a named result", e.c.p.pos(s))
				}
				return e.vars[e.result]
			}
			return e.eval(v.Results[0])
		default:
			if e.mentions(s) {
				twFail("%s: statement of unknown kind touches a generator: %s", e.c.p.pos(s), twText(e.c.p, s))
			}
		}
	}
	return ""
}

func (e *twEnv) clone() *twEnv {
	n := &twEnv{c: e.c, recv: e.recv, vars: map[string]string{}, replay: e.replay, result: e.result}
	for k, v := range e.vars {
		n.vars[k] = v
	}
	return n
}

// twEvalFunc evaluates a method that RETURNS a generator (newIPPortGenerator).
func twEvalFunc(c *twCtx, fd *ast.FuncDecl, recv string) string {
	e := &twEnv{c: c, recv: recv, vars: map[string]string{}, replay: map[string]bool{}}
	if fd.Type.Results != nil && len(fd.Type.Results.List) == 1 && len(fd.Type.Results.List[0].Names) == 1 {
		e.result = fd.Type.Results.List[0].Names[0].Name
	}
	ret := e.stmts(fd.Body.List)
	if ret == "" {
		twFail("%s: %s does not return a generator", c.p.pos(fd), fd.Name.Name)
	}
	// deferred wrappers run after the return value is stored in the named result, last registered first
	for i := len(e.defers) - 1; i >= 0; i-- {
		if e.result == "" {
			twFail("%s: deferred generator wrapper without a named result", c.p.pos(fd))
		}
		d := &twEnv{c: c, recv: recv, vars: map[string]string{e.result: ret}, replay: e.replay, result: e.result}
		if r := d.stmts(e.defers[i].Body.List); r != "" {
			twFail("%s: deferred function returns a value", c.p.pos(fd))
		}
		ret = d.vars[e.result]
	}
	return ret
}

// twEvalArg evaluates a method that BUILDS a scan method / engine and returns the generator passed as
// argument argIdx of the first call of callee (scan.NewPacketSource / scan.NewScanEngine).
func twEvalArg(c *twCtx, fd *ast.FuncDecl, recv string, callee string, argIdx int) string {
	e := &twEnv{c: c, recv: recv, vars: map[string]string{}, replay: map[string]bool{}}
	var target *ast.CallExpr
	ast.Inspect(fd.Body, func(n ast.Node) bool {
		if call, ok := n.(*ast.CallExpr); ok && twSel(call.Fun) == callee && target == nil {
			target = call
		}
		return true
	})
	if target == nil {
		return ""
	}
	// evaluate the statements that precede the statement containing the target call
	var prefix []ast.Stmt
	for _, s := range fd.Body.List {
		contains := false
		ast.Inspect(s, func(n ast.Node) bool {
			if n == ast.Node(target) {
				contains = true
			}
			return !contains
		})
		if contains {
			break
		}
		prefix = append(prefix, s)
	}
	if r := e.stmts(prefix); r != "" {
		twFail("%s: %s returns before %s", c.p.pos(fd), fd.Name.Name, callee)
	}
	if len(e.defers) > 0 {
		twFail("%s: deferred generator wrapper in %s", c.p.pos(fd), fd.Name.Name)
	}
	if argIdx >= len(target.Args) {
		twFail("%s: %s has too few arguments", c.p.pos(target), callee)
	}
	return e.eval(target.Args[argIdx])
}

// ---------------------------------------------------------------- commands

// twReach collects the package-level functions/methods reachable from a node by calls, resolving methods
// on the command's option struct.
func twReach(c *twCtx, n ast.Node, optsType string, seen map[*ast.FuncDecl]string, depth int) {
	if depth > 6 {
		return
	}
	ast.Inspect(n, func(x ast.Node) bool {
		call, ok := x.(*ast.CallExpr)
		if !ok {
			return true
		}
		switch f := call.Fun.(type) {
		case *ast.Ident:
			if fd, ok := c.funcs[f.Name]; ok {
				if _, dup := seen[fd]; !dup {
					seen[fd] = ""
					twReach(c, fd.Body, optsType, seen, depth+1)
				}
			}
		case *ast.SelectorExpr:
			// method on the option struct (c.opts.m(...), o.m(...), newXOpts(...).m(...))
			if m, recv := c.method(optsType, f.Sel.Name); m != nil {
				if _, dup := seen[m]; !dup {
					seen[m] = recv
					twReach(c, m.Body, optsType, seen, depth+1)
				}
			}
		}
		return true
	})
}

type twCommand struct{ name, gen, engine string }

func twCommandOf(c *twCtx, ctor string) twCommand {
	fd, ok := c.funcs[ctor]
	if !ok {
		twFail("constructor %s not found", ctor)
	}
	// the command struct: c := &xCmd{}
	cmdType := ""
	ast.Inspect(fd.Body, func(n ast.Node) bool {
		if cl, ok := n.(*ast.CompositeLit); ok && cmdType == "" {
			if id, ok := cl.Type.(*ast.Ident); ok && strings.HasSuffix(id.Name, "Cmd") {
				cmdType = id.Name
			}
		}
		return true
	})
	optsType := c.fieldType(cmdType, "opts")
	if optsType == "" {
		twFail("%s: cannot find the option struct of %s", c.p.pos(fd), ctor)
	}
	// the tcp command delegates to the SYN options when no flags are given: newTCPSYNCmdOpts(c.opts.tcpCmdOpts)
	seen := map[*ast.FuncDecl]string{}
	twReach(c, fd.Body, optsType, seen, 0)
	if ctor == "newTCPFlagsCmd" {
		twReach(c, fd.Body, "tcpSYNCmdOpts", seen, 0)
	}
	engines := map[string]bool{}
	gens := map[string]bool{}
	scan := func(body ast.Node) {
		ast.Inspect(body, func(n ast.Node) bool {
			call, ok := n.(*ast.CallExpr)
			if !ok {
				return true
			}
			if id, ok := call.Fun.(*ast.Ident); ok {
				switch id.Name {
				case "startPortScanEngine":
					engines["EChunked"] = true
				case "startPacketScanEngine":
					engines["EPacketOnce"] = true
				case "startScanEngine":
					engines["EGeneric"] = true
				}
			}
			return true
		})
	}
	scan(fd.Body)
	for m, recv := range seen {
		name := m.Name.Name
		// the engine start functions themselves call each other: only the command's own code counts
		if name == "startPortScanEngine" || name == "startPacketScanEngine" || name == "startScanEngine" {
			continue
		}
		scan(m.Body)
		if recv == "" {
			continue
		}
		if g := twEvalArg(c, m, recv, "scan.NewPacketSource", 0); g != "" {
			gens[g] = true
		}
		if g := twEvalArg(c, m, recv, "scan.NewScanEngine", 0); g != "" {
			gens[g] = true
		}
	}
	if len(engines) != 1 {
		twFail("%s: command %s starts %d kinds of engine", c.p.pos(fd), ctor, len(engines))
	}
	if len(gens) != 1 {
		twFail("%s: command %s builds %d different generator chains", c.p.pos(fd), ctor, len(gens))
	}
	cmd := twCommand{name: ctor}
	for k := range engines {
		cmd.engine = k
	}
	for k := range gens {
		cmd.gen = k
	}
	return cmd
}

// ---------------------------------------------------------------- the chunk loop

func twChunkLoop(c *twCtx) (size string, emptyOnce bool) {
	fd, ok := c.funcs["startPortScanEngine"]
	if !ok {
		twFail("startPortScanEngine not found")
	}
	consts := map[string]constant.Value{}
	var loop *ast.ForStmt
	portsExpr := ""
	for _, s := range fd.Body.List {
		switch v := s.(type) {
		case *ast.AssignStmt:
			if len(v.Lhs) == 1 && len(v.Rhs) == 1 && v.Tok == token.DEFINE {
				if id, ok := v.Lhs[0].(*ast.Ident); ok {
					if bl, ok := v.Rhs[0].(*ast.BasicLit); ok && bl.Kind == token.INT {
						consts[id.Name] = constant.MakeFromLiteral(bl.Value, bl.Kind, 0)
						continue
					}
				}
			}
			twFail("%s: unexpected assignment in startPortScanEngine", c.p.pos(s))
		case *ast.IfStmt:
			// if len(X) == 0 { return startPacketScanEngine(ctx, conf) }
			be, ok := v.Cond.(*ast.BinaryExpr)
			if !ok || v.Init != nil || v.Else != nil || be.Op != token.EQL || twText(c.p, be.Y) != "0" || len(v.Body.List) != 1 {
				twFail("%s: unexpected if in startPortScanEngine", c.p.pos(s))
			}
			lenCall, ok := be.X.(*ast.CallExpr)
			if !ok || twText(c.p, lenCall.Fun) != "len" || len(lenCall.Args) != 1 {
				twFail("%s: unexpected guard in startPortScanEngine", c.p.pos(s))
			}
			ret, ok := v.Body.List[0].(*ast.ReturnStmt)
			if !ok || len(ret.Results) != 1 || twText(c.p, ret.Results[0]) != "startPacketScanEngine(ctx, conf)" {
				twFail("%s: unexpected guard body in startPortScanEngine", c.p.pos(s))
			}
			if loop != nil {
				twFail("%s: empty-list guard after the loop", c.p.pos(s))
			}
			portsExpr = twText(c.p, lenCall.Args[0])
			emptyOnce = true
		case *ast.ForStmt:
			if loop != nil {
				twFail("%s: two loops in startPortScanEngine", c.p.pos(s))
			}
			loop = v
		case *ast.ReturnStmt:
			if len(v.Results) != 1 || twText(c.p, v.Results[0]) != "nil" {
				twFail("%s: unexpected return in startPortScanEngine", c.p.pos(s))
			}
		default:
			twFail("%s: unexpected statement in startPortScanEngine", c.p.pos(s))
		}
	}
	if loop == nil {
		twFail("no loop in startPortScanEngine")
	}
	// for i := 0; i < len(X); i += S
	init, ok := loop.Init.(*ast.AssignStmt)
	if !ok || len(init.Lhs) != 1 || twText(c.p, init.Rhs[0]) != "0" {
		twFail("%s: loop does not start at 0", c.p.pos(loop))
	}
	iv := twText(c.p, init.Lhs[0])
	cond, ok := loop.Cond.(*ast.BinaryExpr)
	if !ok || cond.Op != token.LSS || twText(c.p, cond.X) != iv {
		twFail("%s: unexpected loop condition", c.p.pos(loop))
	}
	lenCall, ok := cond.Y.(*ast.CallExpr)
	if !ok || twText(c.p, lenCall.Fun) != "len" || len(lenCall.Args) != 1 {
		twFail("%s: unexpected loop bound", c.p.pos(loop))
	}
	x := twText(c.p, lenCall.Args[0])
	if x != "conf.scanRange.Ports" || (portsExpr != "" && portsExpr != x) {
		twFail("%s: the loop does not run over conf.scanRange.Ports", c.p.pos(loop))
	}
	post, ok := loop.Post.(*ast.AssignStmt)
	if !ok || post.Tok != token.ADD_ASSIGN || twText(c.p, post.Lhs[0]) != iv {
		twFail("%s: unexpected loop step", c.p.pos(loop))
	}
	step := evalInt(c.p, post.Rhs[0], func(n string) (constant.Value, bool) { v, ok := consts[n]; return v, ok })
	stepName := twText(c.p, post.Rhs[0])
	// body: hi := i + S; if hi > len(X) { hi = len(X) }; copy := *conf; copy.scanRange.Ports = X[i:hi]; run(copy)
	hi, copyName := "", ""
	clamp, sliced, ran := false, false, false
	for _, s := range loop.Body.List {
		t := twText(c.p, s)
		switch v := s.(type) {
		case *ast.AssignStmt:
			lhs := twText(c.p, v.Lhs[0])
			rhs := twText(c.p, v.Rhs[0])
			switch {
			case v.Tok == token.DEFINE && rhs == iv+" + "+stepName:
				hi = lhs
			case v.Tok == token.DEFINE && rhs == "*conf":
				copyName = lhs
			case copyName != "" && lhs == copyName+".scanRange.Ports" && rhs == x+"["+iv+":"+hi+"]":
				sliced = true
			default:
				twFail("%s: unexpected assignment in the chunk loop: %s", c.p.pos(s), t)
			}
		case *ast.IfStmt:
			switch {
			case hi != "" && v.Init == nil && twText(c.p, v.Cond) == hi+" > len("+x+")" && len(v.Body.List) == 1 &&
				twText(c.p, v.Body.List[0]) == hi+" = len("+x+")":
				clamp = true
			case v.Init != nil && copyName != "" && twText(c.p, v.Init) == "err := startPacketScanEngine(ctx, &"+copyName+")" &&
				twText(c.p, v.Cond) == "err != nil" && len(v.Body.List) == 1 && twText(c.p, v.Body.List[0]) == "return err":
				if !sliced {
					twFail("%s: the engine runs before the chunk is cut", c.p.pos(s))
				}
				ran = true
			default:
				twFail("%s: unexpected if in the chunk loop: %s", c.p.pos(s), t)
			}
		default:
			twFail("%s: unexpected statement in the chunk loop: %s", c.p.pos(s), t)
		}
	}
	if !(clamp && sliced && ran) {
		twFail("%s: the chunk loop lacks the clamp, the slice or the engine run", c.p.pos(loop))
	}
	return zlit(step), emptyOnce
}

func genTargetWiring() {
	p := parseDir(filepath.Join(*repo, "command"))
	c := twLoad(p)
	// the commands registered in newRootCmd: every call of a function named new...Cmd
	root, ok := c.funcs["newRootCmd"]
	if !ok {
		twFail("newRootCmd not found")
	}
	var ctors []string
	ast.Inspect(root.Body, func(n ast.Node) bool {
		if call, ok := n.(*ast.CallExpr); ok {
			if id, ok := call.Fun.(*ast.Ident); ok && strings.HasPrefix(id.Name, "new") && strings.HasSuffix(id.Name, "Cmd") {
				ctors = append(ctors, id.Name)
			}
		}
		return true
	})
	if len(ctors) == 0 {
		twFail("no commands found in newRootCmd")
	}
	sort.Strings(ctors)
	var b bytes.Buffer
	b.WriteString("(* GENERATED by tools/gen/targets_wiring.go from command/*.go. Do not edit. *)\n")
	b.WriteString("From Coq Require Import ZArith List String.\nFrom SX Require Import Model.TargetWiring.\nImport ListNotations.\nOpen Scope Z_scope.\nOpen Scope string_scope.\n\n")
	size, once := twChunkLoop(c)
	fmt.Fprintf(&b, "(* startPortScanEngine *)\nDefinition chunk_size : Z := %s.\n", size)
	fmt.Fprintf(&b, "Definition empty_runs_once : bool := %v.\n\n", once)
	b.WriteString("Definition commands : list command := [\n")
	for i, ctor := range ctors {
		cmd := twCommandOf(c, ctor)
		sep := ";"
		if i == len(ctors)-1 {
			sep = ""
		}
		fmt.Fprintf(&b, "  {| c_name := %s;\n     c_gen := %s;\n     c_engine := %s |}%s\n", coqString(cmd.name), cmd.gen, cmd.engine, sep)
	}
	b.WriteString("].\n")
	writeIfChanged("TargetWiring.v", b.Bytes())
}
