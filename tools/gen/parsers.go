package main

// Translator piece for C18 (option parsing): emits coq/Gen/ParserTables.v with
//   - the TCP flag option table of command/tcp.go (flag name -> tcp.With* constructor),
//   - which PacketFiller fields each With* constructor sets (pkg/scan/tcp/tcp.go),
//   - which layers.TCP header field PacketFiller.Fill feeds from which PacketFiller field,
//   - the case table of the parseIPFlags switch and the gopacket IPv4Flag constants it ors in,
//   - the literal arguments the parsers pass to strconv.ParseUint/ParseInt, strings.Split,
//     strings.Index and strings.Trim (bases, bit sizes, separators, comment marker, trim set).
// Anything of an unexpected shape is a loud failure.

import (
	"bytes"
	"fmt"
	"go/ast"
	"go/constant"
	"go/token"
	"os"
	"os/exec"
	"path/filepath"
	"regexp"
	"strconv"
	"strings"
)

func init() { register("ParserTables", genParserTables) }

// stringConst resolves an expression that must be a string literal or a package-level string constant.
func stringConst(p *pkgFiles, e ast.Expr) string {
	switch x := e.(type) {
	case *ast.BasicLit:
		if x.Kind != token.STRING && x.Kind != token.CHAR {
			die("%s: expected a string literal", p.pos(e))
		}
		if x.Kind == token.CHAR {
			r, _, _, err := strconv.UnquoteChar(x.Value[1:len(x.Value)-1], '\'')
			if err != nil {
				die("%s: bad char literal", p.pos(e))
			}
			return string(r)
		}
		s, err := strconv.Unquote(x.Value)
		if err != nil {
			die("%s: bad string literal", p.pos(e))
		}
		return s
	case *ast.Ident:
		return stringConst(p, p.findConst(x.Name))
	case *ast.ParenExpr:
		return stringConst(p, x.X)
	}
	die("%s: expected a string constant, got %T", p.pos(e), e)
	return ""
}

// callsTo returns the calls pkg.name(...) inside the body of fn, in source order.
func callsTo(fn *ast.FuncDecl, pkg, name string) []*ast.CallExpr {
	var out []*ast.CallExpr
	ast.Inspect(fn.Body, func(n ast.Node) bool {
		c, ok := n.(*ast.CallExpr)
		if !ok {
			return true
		}
		if se, ok := c.Fun.(*ast.SelectorExpr); ok && se.Sel.Name == name {
			if id, ok := se.X.(*ast.Ident); ok && id.Name == pkg {
				out = append(out, c)
			}
		}
		return true
	})
	return out
}

// oneStringArg: every call pkg.name in fn has the same constant string as argument number idx.
func oneStringArg(p *pkgFiles, fn *ast.FuncDecl, pkg, name string, idx, wantCalls int) string {
	cs := callsTo(fn, pkg, name)
	if len(cs) != wantCalls {
		die("%s: expected %d call(s) of %s.%s in %s, found %d", p.pos(fn), wantCalls, pkg, name, fn.Name.Name, len(cs))
	}
	res := ""
	for i, c := range cs {
		if len(c.Args) <= idx {
			die("%s: %s.%s has too few arguments", p.pos(c), pkg, name)
		}
		s := stringConst(p, c.Args[idx])
		if i > 0 && s != res {
			die("%s: calls of %s.%s in %s use different constants", p.pos(c), pkg, name, fn.Name.Name)
		}
		res = s
	}
	return res
}

// baseBits: every call strconv.name(_, base, bits) in fn has the same integer constants.
func baseBits(p *pkgFiles, fn *ast.FuncDecl, name string, wantCalls int) (string, string) {
	cs := callsTo(fn, "strconv", name)
	if len(cs) != wantCalls {
		die("%s: expected %d call(s) of strconv.%s in %s, found %d", p.pos(fn), wantCalls, name, fn.Name.Name, len(cs))
	}
	var base, bits string
	for i, c := range cs {
		if len(c.Args) != 3 {
			die("%s: strconv.%s does not have 3 arguments", p.pos(c), name)
		}
		b, s := zlit(evalInt(p, c.Args[1], nil)), zlit(evalInt(p, c.Args[2], nil))
		if i > 0 && (b != base || s != bits) {
			die("%s: calls of strconv.%s in %s use different base/bit size", p.pos(c), name, fn.Name.Name)
		}
		base, bits = b, s
	}
	return base, bits
}

func singleByte(p *pkgFiles, fn *ast.FuncDecl, what, s string) string {
	if len(s) != 1 || s[0] >= 128 {
		die("%s: %s in %s is %q, expected one ASCII character", p.pos(fn), what, fn.Name.Name, s)
	}
	return strconv.Itoa(int(s[0]))
}

func coqStrList(xs []string) string {
	q := make([]string, len(xs))
	for i, x := range xs {
		q[i] = coqString(x)
	}
	return "[" + strings.Join(q, "; ") + "]"
}

// moduleDir finds the directory of a required module of the repository in the module cache.
func moduleDir(mod string) string {
	gomod, err := os.ReadFile(filepath.Join(*repo, "go.mod"))
	if err != nil {
		die("read go.mod: %v", err)
	}
	re := regexp.MustCompile(`(?m)^\s*(?:require\s+)?` + regexp.QuoteMeta(mod) + `\s+(\S+)`)
	m := re.FindSubmatch(gomod)
	if m == nil {
		die("go.mod does not require %s", mod)
	}
	cache := os.Getenv("GOMODCACHE")
	if cache == "" {
		out, err := exec.Command("go", "env", "GOMODCACHE").Output()
		if err != nil {
			die("go env GOMODCACHE: %v", err)
		}
		cache = strings.TrimSpace(string(out))
	}
	// module cache escapes upper-case letters as !lower; the modules used here are lower-case
	dir := filepath.Join(cache, mod+"@"+string(m[1]))
	if _, err := os.Stat(dir); err != nil {
		die("module %s not in the module cache: %v", mod, err)
	}
	return dir
}

func genParserTables() {
	cmd := parseDir(filepath.Join(*repo, "command"))
	tcp := parseDir(filepath.Join(*repo, "pkg/scan/tcp"))
	var b bytes.Buffer
	b.WriteString("(* GENERATED by tools/gen from command/config.go, command/tcp.go, pkg/scan/tcp/tcp.go and gopacket\n" +
		"   layers/ip4.go. Do not edit. *)\n")
	b.WriteString("From Coq Require Import ZArith List String.\nImport ListNotations.\nLocal Open Scope Z_scope.\nLocal Open Scope string_scope.\n\n")

	// ---- tcpPacketFlagOptions: map[string]tcp.PacketFillerOption{ key: tcp.WithX(), ... }
	e := cmd.findVar("tcpPacketFlagOptions")
	cl, ok := e.(*ast.CompositeLit)
	if !ok {
		die("%s: tcpPacketFlagOptions is not a composite literal", cmd.pos(e))
	}
	if _, ok := cl.Type.(*ast.MapType); !ok {
		die("%s: tcpPacketFlagOptions is not a map literal", cmd.pos(e))
	}
	var withs []string
	seenKey := map[string]bool{}
	b.WriteString("(* command/tcp.go tcpPacketFlagOptions: flag name -> constructor of package pkg/scan/tcp *)\n")
	b.WriteString("Definition tcp_flag_options : list (string * string) := [\n")
	for i, el := range cl.Elts {
		kv, ok := el.(*ast.KeyValueExpr)
		if !ok {
			die("%s: map element is not key: value", cmd.pos(el))
		}
		key := stringConst(cmd, kv.Key)
		if seenKey[key] {
			die("%s: duplicate key %q", cmd.pos(el), key)
		}
		seenKey[key] = true
		call, ok := kv.Value.(*ast.CallExpr)
		if !ok || len(call.Args) != 0 {
			die("%s: value of %q is not a call without arguments", cmd.pos(el), key)
		}
		se, ok := call.Fun.(*ast.SelectorExpr)
		if !ok {
			die("%s: value of %q is not tcp.<constructor>()", cmd.pos(el), key)
		}
		if id, ok := se.X.(*ast.Ident); !ok || id.Name != "tcp" {
			die("%s: value of %q is not a constructor of package tcp", cmd.pos(el), key)
		}
		withs = append(withs, se.Sel.Name)
		sep := ";"
		if i == len(cl.Elts)-1 {
			sep = ""
		}
		fmt.Fprintf(&b, "  (%s, %s)%s\n", coqString(key), coqString(se.Sel.Name), sep)
	}
	b.WriteString("].\n\n")

	// ---- the constructors: func WithX() PacketFillerOption { return func(f *PacketFiller) { f.F = true } }
	b.WriteString("(* pkg/scan/tcp/tcp.go: fields of PacketFiller each constructor sets to true *)\n")
	b.WriteString("Definition tcp_with_sets : list (string * list string) := [\n")
	done := map[string]bool{}
	var rows []string
	for _, w := range withs {
		if done[w] {
			continue
		}
		done[w] = true
		fd := tcp.findFunc("", w)
		if fd.Type.Params.NumFields() != 0 || len(fd.Body.List) != 1 {
			die("%s: %s is not a one-statement constructor without parameters", tcp.pos(fd), w)
		}
		ret, ok := fd.Body.List[0].(*ast.ReturnStmt)
		if !ok || len(ret.Results) != 1 {
			die("%s: %s does not return one value", tcp.pos(fd), w)
		}
		fl, ok := ret.Results[0].(*ast.FuncLit)
		if !ok || fl.Type.Params.NumFields() != 1 || len(fl.Type.Params.List[0].Names) != 1 {
			die("%s: %s does not return a func(f *PacketFiller) literal", tcp.pos(fd), w)
		}
		recv := fl.Type.Params.List[0].Names[0].Name
		var fields []string
		for _, st := range fl.Body.List {
			as, ok := st.(*ast.AssignStmt)
			if !ok || as.Tok != token.ASSIGN || len(as.Lhs) != 1 || len(as.Rhs) != 1 {
				die("%s: unexpected statement in %s", tcp.pos(st), w)
			}
			lhs, ok := as.Lhs[0].(*ast.SelectorExpr)
			if !ok {
				die("%s: unexpected assignment target in %s", tcp.pos(st), w)
			}
			if id, ok := lhs.X.(*ast.Ident); !ok || id.Name != recv {
				die("%s: assignment in %s is not to a field of the filler", tcp.pos(st), w)
			}
			rhs, ok := as.Rhs[0].(*ast.Ident)
			if !ok || (rhs.Name != "true" && rhs.Name != "false") {
				die("%s: %s assigns something else than true/false", tcp.pos(st), w)
			}
			if rhs.Name == "true" {
				fields = append(fields, lhs.Sel.Name)
			} else {
				fields = append(fields, "!"+lhs.Sel.Name)
			}
		}
		rows = append(rows, fmt.Sprintf("  (%s, %s)", coqString(w), coqStrList(fields)))
	}
	b.WriteString(strings.Join(rows, ";\n"))
	b.WriteString("\n].\n\n")

	// ---- PacketFiller.Fill: tcp := &layers.TCP{ SYN: f.SYN, ... }
	fill := tcp.findFunc("PacketFiller", "Fill")
	recvName := fill.Recv.List[0].Names[0].Name
	var tcpLit *ast.CompositeLit
	ast.Inspect(fill.Body, func(n ast.Node) bool {
		c, ok := n.(*ast.CompositeLit)
		if !ok {
			return true
		}
		if se, ok := c.Type.(*ast.SelectorExpr); ok && se.Sel.Name == "TCP" {
			if id, ok := se.X.(*ast.Ident); ok && id.Name == "layers" {
				if tcpLit != nil {
					die("%s: more than one layers.TCP literal in Fill", tcp.pos(c))
				}
				tcpLit = c
			}
		}
		return true
	})
	if tcpLit == nil {
		die("%s: no layers.TCP literal in PacketFiller.Fill", tcp.pos(fill))
	}
	// any later assignment to a flag field of the header would escape this table
	flagField := map[string]bool{"FIN": true, "SYN": true, "RST": true, "PSH": true, "ACK": true, "URG": true,
		"ECE": true, "CWR": true, "NS": true}
	ast.Inspect(fill.Body, func(n ast.Node) bool {
		as, ok := n.(*ast.AssignStmt)
		if !ok {
			return true
		}
		for _, l := range as.Lhs {
			if se, ok := l.(*ast.SelectorExpr); ok && flagField[se.Sel.Name] {
				die("%s: Fill assigns header flag %s outside the literal", tcp.pos(as), se.Sel.Name)
			}
		}
		return true
	})
	b.WriteString("(* PacketFiller.Fill: flag field of the layers.TCP header <- field of PacketFiller (\"=true\" for a constant) *)\n")
	b.WriteString("Definition tcp_fill_fields : list (string * string) := [\n")
	rows = nil
	for _, el := range tcpLit.Elts {
		kv, ok := el.(*ast.KeyValueExpr)
		if !ok {
			die("%s: positional layers.TCP literal", tcp.pos(el))
		}
		k, ok := kv.Key.(*ast.Ident)
		if !ok {
			die("%s: bad key", tcp.pos(el))
		}
		if !flagField[k.Name] {
			continue
		}
		switch v := kv.Value.(type) {
		case *ast.SelectorExpr:
			id, ok := v.X.(*ast.Ident)
			if !ok || id.Name != recvName {
				die("%s: header flag %s is not fed from a field of the filler", tcp.pos(el), k.Name)
			}
			rows = append(rows, fmt.Sprintf("  (%s, %s)", coqString(k.Name), coqString(v.Sel.Name)))
		case *ast.Ident:
			if v.Name == "true" {
				rows = append(rows, fmt.Sprintf("  (%s, %s)", coqString(k.Name), coqString("=true")))
			} else if v.Name != "false" {
				die("%s: header flag %s is fed from %s", tcp.pos(el), k.Name, v.Name)
			}
		default:
			die("%s: header flag %s is fed from an expression of shape %T", tcp.pos(el), k.Name, kv.Value)
		}
	}
	b.WriteString(strings.Join(rows, ";\n"))
	b.WriteString("\n].\n\n")

	// ---- parseIPFlags: switch flag { case "df": result |= uint8(layers.IPv4DontFragment) ... default: return 0, err }
	ipf := cmd.findFunc("", "parseIPFlags")
	var sw *ast.SwitchStmt
	ast.Inspect(ipf.Body, func(n ast.Node) bool {
		if s, ok := n.(*ast.SwitchStmt); ok {
			if sw != nil {
				die("%s: more than one switch in parseIPFlags", cmd.pos(s))
			}
			sw = s
		}
		return true
	})
	if sw == nil {
		die("%s: no switch in parseIPFlags", cmd.pos(ipf))
	}
	used := map[string]bool{}
	var usedOrder []string
	b.WriteString("(* command/config.go parseIPFlags: case literal -> gopacket constants or-ed into the result *)\n")
	b.WriteString("Definition ip_flag_cases : list (string * list string) := [\n")
	rows = nil
	hasDefault := false
	for _, st := range sw.Body.List {
		cc := st.(*ast.CaseClause)
		if cc.List == nil {
			hasDefault = true
			if len(cc.Body) != 1 {
				die("%s: default case of parseIPFlags is not a single return", cmd.pos(cc))
			}
			if _, ok := cc.Body[0].(*ast.ReturnStmt); !ok {
				die("%s: default case of parseIPFlags does not return", cmd.pos(cc))
			}
			continue
		}
		var consts []string
		for _, s := range cc.Body {
			as, ok := s.(*ast.AssignStmt)
			if !ok || as.Tok != token.OR_ASSIGN || len(as.Lhs) != 1 || len(as.Rhs) != 1 {
				die("%s: unexpected statement in a case of parseIPFlags", cmd.pos(s))
			}
			if id, ok := as.Lhs[0].(*ast.Ident); !ok || id.Name != "result" {
				die("%s: case does not update result", cmd.pos(s))
			}
			var rhs ast.Expr = as.Rhs[0]
			if call, ok := rhs.(*ast.CallExpr); ok && len(call.Args) == 1 {
				if id, ok := call.Fun.(*ast.Ident); ok && id.Name == "uint8" {
					rhs = call.Args[0]
				}
			}
			se, ok := rhs.(*ast.SelectorExpr)
			if !ok {
				die("%s: case ors in something else than a layers constant", cmd.pos(s))
			}
			if id, ok := se.X.(*ast.Ident); !ok || id.Name != "layers" {
				die("%s: case ors in something else than a layers constant", cmd.pos(s))
			}
			consts = append(consts, se.Sel.Name)
			if !used[se.Sel.Name] {
				used[se.Sel.Name] = true
				usedOrder = append(usedOrder, se.Sel.Name)
			}
		}
		for _, l := range cc.List {
			rows = append(rows, fmt.Sprintf("  (%s, %s)", coqString(stringConst(cmd, l)), coqStrList(consts)))
		}
	}
	if !hasDefault {
		die("%s: parseIPFlags switch has no default case", cmd.pos(sw))
	}
	b.WriteString(strings.Join(rows, ";\n"))
	b.WriteString("\n].\n\n")

	// ---- gopacket constants
	lay := parseDir(filepath.Join(moduleDir("github.com/google/gopacket"), "layers"))
	b.WriteString("(* gopacket layers/ip4.go *)\nDefinition ipv4_flag_consts : list (string * Z) := [\n")
	rows = nil
	for _, n := range usedOrder {
		v := evalInt(lay, lay.findConst(n), nil)
		if v.Kind() != constant.Int {
			die("gopacket constant %s is not an integer", n)
		}
		rows = append(rows, fmt.Sprintf("  (%s, %s)", coqString(n), zlit(v)))
	}
	b.WriteString(strings.Join(rows, ";\n"))
	b.WriteString("\n].\n\n")

	// ---- literal arguments of the library calls
	pr := cmd.findFunc("", "parsePortRange")
	prs := cmd.findFunc("", "parsePortRanges")
	rl := cmd.findFunc("", "parseRateLimit")
	pf := cmd.findFunc("", "parsePortsFile")
	ef := cmd.findFunc("", "parseExcludeFile")
	tf := cmd.findFunc("", "parseTCPFlags")
	base, bits := baseBits(cmd, pr, "ParseUint", 2)
	fmt.Fprintf(&b, "(* parsePortRange: strconv.ParseUint(_, %s, %s), strings.Split(_, sep) *)\n", base, bits)
	fmt.Fprintf(&b, "Definition port_base : Z := %s.\nDefinition port_bits : Z := %s.\n", base, bits)
	fmt.Fprintf(&b, "Definition port_range_sep : Z := %s.\n", singleByte(cmd, pr, "separator", oneStringArg(cmd, pr, "strings", "Split", 1, 1)))
	fmt.Fprintf(&b, "Definition port_list_sep : Z := %s.\n", singleByte(cmd, prs, "separator", oneStringArg(cmd, prs, "strings", "Split", 1, 1)))
	base, bits = baseBits(cmd, rl, "ParseInt", 1)
	fmt.Fprintf(&b, "(* parseRateLimit: strconv.ParseInt(_, %s, %s) *)\n", base, bits)
	fmt.Fprintf(&b, "Definition rate_base : Z := %s.\nDefinition rate_bits : Z := %s.\n", base, bits)
	fmt.Fprintf(&b, "Definition rate_sep : Z := %s.\n", singleByte(cmd, rl, "separator", oneStringArg(cmd, rl, "strings", "Split", 1, 1)))
	fmt.Fprintf(&b, "Definition ip_flag_sep : Z := %s.\n", singleByte(cmd, ipf, "separator", oneStringArg(cmd, ipf, "strings", "Split", 1, 1)))
	fmt.Fprintf(&b, "Definition tcp_flag_sep : Z := %s.\n", singleByte(cmd, tf, "separator", oneStringArg(cmd, tf, "strings", "Split", 1, 1)))
	for _, f := range []struct {
		fn   *ast.FuncDecl
		name string
	}{{pf, "ports_file"}, {ef, "exclude_file"}} {
		fmt.Fprintf(&b, "Definition %s_comment : Z := %s.\n", f.name, singleByte(cmd, f.fn, "comment marker", oneStringArg(cmd, f.fn, "strings", "Index", 1, 1)))
		fmt.Fprintf(&b, "Definition %s_trim : Z := %s.\n", f.name, singleByte(cmd, f.fn, "trim set", oneStringArg(cmd, f.fn, "strings", "Trim", 1, 1)))
	}
	writeIfChanged("ParserTables.v", b.Bytes())
}
