package main

import (
	"bytes"
	"fmt"
	"go/ast"
	"go/printer"
	"go/token"
	"path/filepath"
	"strings"
)

// Concurrency skeletons: for every goroutine-bearing function that is modelled by hand as a
// behaviour of Base/Net.v, the translator extracts the statements that matter for the model
// (channel creation with capacity, go, defer, select and its cases, sends, receives, close,
// WaitGroup calls, loops, branches, returns, and every other call by its text) in order. The Coq
// development pins the skeleton each model was written against (Model/*Shape.v); an edit that
// changes the goroutine structure changes Gen/Skeletons.v and breaks the pin.

func init() { register("Skeletons", genSkeletons) }

type skelTarget struct {
	dir, recv, fn, name string
}

var skelTargets = []skelTarget{
	{"pkg/packet", "sender", "SendPackets", "sender_SendPackets"},
	{"pkg/packet", "", "FreeSerializeBuffer", "FreeSerializeBuffer"},
	{"pkg/scan", "packetGenerator", "Packets", "packetGenerator_Packets"},
	{"pkg/scan", "", "writeBufToChan", "writeBufToChan"},
	{"pkg/scan", "packetMultiGenerator", "Packets", "packetMultiGenerator_Packets"},
	{"pkg/scan", "", "MergeBufferDataChan", "MergeBufferDataChan"},
	{"pkg/scan", "", "mergeErrChan", "mergeErrChan"},
	{"pkg/scan", "PacketEngine", "Start", "PacketEngine_Start"},
	{"pkg/scan", "packetSource", "Packets", "packetSource_Packets"},
	{"pkg/scan", "", "SetupPacketEngine", "SetupPacketEngine"},
	{"pkg/scan", "", "writeError", "writeError"},
	{"pkg/scan", "", "writeRequest", "writeRequest"},
	{"pkg/scan", "GenericEngine", "Start", "GenericEngine_Start"},
	{"pkg/scan", "GenericEngine", "worker", "GenericEngine_worker"},
	{"pkg/scan", "", "NewResultChan", "NewResultChan"},
	{"pkg/scan", "resultChan", "Put", "resultChan_Put"},
	{"pkg/scan", "rateLimitScanner", "Scan", "rateLimitScanner_Scan"},
	{"command", "", "startScanEngine", "startScanEngine"},
	{"command/log", "logger", "LogResults", "logger_LogResults"},
	{"command/log", "UniqueLogger", "uniqResults", "UniqueLogger_uniqResults"},
	{"command/log", "UniqueLogger", "LogResults", "UniqueLogger_LogResults"},
}

type skel struct {
	fset *token.FileSet
	out  []string
}

func (s *skel) text(n ast.Node) string {
	var b bytes.Buffer
	printer.Fprint(&b, s.fset, n)
	return strings.Join(strings.Fields(b.String()), " ")
}

func (s *skel) emit(depth int, format string, a ...interface{}) {
	s.out = append(s.out, strings.Repeat(" ", depth)+fmt.Sprintf(format, a...))
}

func hasCallOrRecv(e ast.Expr) bool {
	found := false
	ast.Inspect(e, func(n ast.Node) bool {
		switch x := n.(type) {
		case *ast.CallExpr:
			found = true
		case *ast.UnaryExpr:
			if x.Op == token.ARROW {
				found = true
			}
		case *ast.FuncLit:
			return false
		}
		return !found
	})
	return found
}

func (s *skel) funcLits(depth int, n ast.Node) {
	// function literals assigned or passed (e.g. multiplex := func(...) {...}) are walked too
	ast.Inspect(n, func(x ast.Node) bool {
		if fl, ok := x.(*ast.FuncLit); ok {
			s.emit(depth, "func{")
			s.block(depth+1, fl.Body.List)
			s.emit(depth, "}")
			return false
		}
		return true
	})
}

func (s *skel) stmt(depth int, st ast.Stmt) {
	switch x := st.(type) {
	case *ast.GoStmt:
		if fl, ok := x.Call.Fun.(*ast.FuncLit); ok {
			s.emit(depth, "go{")
			s.block(depth+1, fl.Body.List)
			s.emit(depth, "}")
		} else {
			s.emit(depth, "go %s", s.text(x.Call))
		}
	case *ast.DeferStmt:
		if fl, ok := x.Call.Fun.(*ast.FuncLit); ok {
			s.emit(depth, "defer{")
			s.block(depth+1, fl.Body.List)
			s.emit(depth, "}")
		} else {
			s.emit(depth, "defer %s", s.text(x.Call))
		}
	case *ast.SelectStmt:
		s.emit(depth, "select{")
		for _, c := range x.Body.List {
			cc := c.(*ast.CommClause)
			if cc.Comm == nil {
				s.emit(depth+1, "default:")
			} else {
				s.emit(depth+1, "case %s:", s.text(cc.Comm))
			}
			s.block(depth+2, cc.Body)
		}
		s.emit(depth, "}")
	case *ast.SendStmt:
		s.emit(depth, "send %s", s.text(x))
	case *ast.ForStmt:
		hdr := ""
		if x.Cond != nil {
			hdr = s.text(x.Cond)
		}
		s.emit(depth, "for %s{", hdr)
		s.block(depth+1, x.Body.List)
		s.emit(depth, "}")
	case *ast.RangeStmt:
		s.emit(depth, "range %s{", s.text(x.X))
		s.block(depth+1, x.Body.List)
		s.emit(depth, "}")
	case *ast.IfStmt:
		if x.Init != nil {
			s.stmt(depth, x.Init)
		}
		s.emit(depth, "if %s{", s.text(x.Cond))
		s.block(depth+1, x.Body.List)
		if x.Else != nil {
			s.emit(depth, "}else{")
			switch e := x.Else.(type) {
			case *ast.BlockStmt:
				s.block(depth+1, e.List)
			default:
				s.stmt(depth+1, e)
			}
		}
		s.emit(depth, "}")
	case *ast.SwitchStmt:
		s.emit(depth, "switch %s{", s.text(x.Tag))
		for _, c := range x.Body.List {
			cc := c.(*ast.CaseClause)
			s.emit(depth+1, "case:")
			s.block(depth+2, cc.Body)
		}
		s.emit(depth, "}")
	case *ast.BlockStmt:
		s.block(depth, x.List)
	case *ast.ReturnStmt:
		s.emit(depth, "%s", s.text(x))
	case *ast.BranchStmt:
		s.emit(depth, "%s", x.Tok.String())
	case *ast.ExprStmt:
		if _, ok := x.X.(*ast.CallExpr); ok || hasCallOrRecv(x.X) {
			s.emit(depth, "do %s", s.textNoLits(x.X))
			s.funcLits(depth+1, x.X)
		}
	case *ast.AssignStmt:
		keep := false
		for _, r := range x.Rhs {
			if hasCallOrRecv(r) {
				keep = true
			}
			if _, ok := r.(*ast.FuncLit); ok {
				keep = true
			}
		}
		if keep {
			s.emit(depth, "assign %s", s.textNoLits(x))
			s.funcLits(depth+1, x)
		}
	case *ast.DeclStmt, *ast.IncDecStmt, *ast.EmptyStmt, *ast.LabeledStmt:
		// not relevant for the concurrency structure
	default:
		die("skeleton: unsupported statement %T at %s", st, s.fset.Position(st.Pos()))
	}
}

// textNoLits prints a node with function literal bodies elided (they are walked separately).
func (s *skel) textNoLits(n ast.Node) string {
	t := s.text(n)
	if i := strings.Index(t, "func("); i >= 0 {
		if j := strings.Index(t[i:], "{"); j >= 0 {
			return t[:i+j] + "{...}"
		}
	}
	return t
}

func (s *skel) block(depth int, l []ast.Stmt) {
	for _, st := range l {
		s.stmt(depth, st)
	}
}

func genSkeletons() {
	var b bytes.Buffer
	b.WriteString("(* GENERATED by tools/gen (skeleton.go): concurrency skeletons of the goroutine-bearing functions. Do not edit. *)\n")
	b.WriteString("From Coq Require Import String List.\nImport ListNotations.\nLocal Open Scope string_scope.\n\n")
	cache := map[string]*pkgFiles{}
	for _, t := range skelTargets {
		p := cache[t.dir]
		if p == nil {
			p = parseDir(filepath.Join(*repo, t.dir))
			cache[t.dir] = p
		}
		// a function whose shape cannot be extracted only breaks the pins of THAT function
		lines := func() (out []string) {
			defer func() {
				if r := recover(); r != nil {
					msg := fmt.Sprint(r)
					if gf, ok := r.(genFailure); ok {
						msg = gf.msg
					}
					out = []string{"<skeleton not extractable: " + strings.Map(func(c rune) rune {
						if c < 32 || c > 126 || c == '"' {
							return '?'
						}
						return c
					}, msg) + ">"}
				}
			}()
			fd := p.findFunc(t.recv, t.fn)
			if fd.Body == nil {
				die("skeleton: %s has no body", t.name)
			}
			// local names are made canonical (v0, v1, ...) so that a renaming is not a change of shape
			canonRename(p, fd)
			s := &skel{fset: p.fset}
			s.block(0, fd.Body.List)
			return s.out
		}()
		s := &skel{out: lines}
		fmt.Fprintf(&b, "Definition skel_%s : list string := [\n", t.name)
		for i, l := range s.out {
			sep := ";"
			if i == len(s.out)-1 {
				sep = ""
			}
			fmt.Fprintf(&b, "  %s%s\n", coqString(l), sep)
		}
		b.WriteString("].\n\n")
	}
	writeIfChanged("Skeletons.v", b.Bytes())
}
