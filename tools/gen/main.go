// Command gen reads the Go sources of /repo (go/parser, go/ast only) and emits Coq definitions
// under coq/Gen. It fails loudly on any shape it does not understand: a failed translation is a
// broken tie, never a silent default.
package main

import (
	"bytes"
	"encoding/json"
	"flag"
	"fmt"
	"go/ast"
	"go/constant"
	"go/parser"
	"go/token"
	"os"
	"path/filepath"
	"sort"
	"strconv"
	"strings"
)

var (
	repo   = flag.String("repo", "/repo", "repository root")
	outDir = flag.String("out", "/verif/coq/Gen", "output directory")
)

// genFailure is what die() raises: the translator piece that is running cannot translate the current
// sources. Pieces are independent: a failing piece removes ITS outputs (so that exactly the theorems that
// depend on them stop compiling) and the others still run.
type genFailure struct{ msg string }

var (
	current  string                  // name of the generator that is running
	outputs  = map[string][]string{} // generator -> files it wrote in this run
	initDone bool
)

func die(format string, args ...interface{}) {
	msg := fmt.Sprintf(format, args...)
	if !initDone || current == "" {
		fmt.Fprintf(os.Stderr, "gen: %s\n", msg)
		os.Exit(2)
	}
	panic(genFailure{msg})
}

type pkgFiles struct {
	fset  *token.FileSet
	files map[string]*ast.File
}

func parseDir(dir string) *pkgFiles {
	fset := token.NewFileSet()
	pf := &pkgFiles{fset: fset, files: map[string]*ast.File{}}
	ents, err := os.ReadDir(dir)
	if err != nil {
		die("read %s: %v", dir, err)
	}
	for _, e := range ents {
		n := e.Name()
		if e.IsDir() || !strings.HasSuffix(n, ".go") || strings.HasSuffix(n, "_test.go") {
			continue
		}
		if strings.HasPrefix(n, "verif_") {
			continue
		}
		f, err := parser.ParseFile(fset, filepath.Join(dir, n), nil, parser.ParseComments)
		if err != nil {
			die("parse %s: %v", n, err)
		}
		pf.files[n] = f
	}
	return pf
}

func (p *pkgFiles) pos(n ast.Node) string { return p.fset.Position(n.Pos()).String() }

// findVar returns the value expression of a package-level `var name = expr`.
func (p *pkgFiles) findVar(name string) ast.Expr {
	for _, f := range p.files {
		for _, d := range f.Decls {
			gd, ok := d.(*ast.GenDecl)
			if !ok || gd.Tok != token.VAR {
				continue
			}
			for _, s := range gd.Specs {
				vs := s.(*ast.ValueSpec)
				for i, id := range vs.Names {
					if id.Name == name && i < len(vs.Values) {
						return vs.Values[i]
					}
				}
			}
		}
	}
	die("package variable %s not found", name)
	return nil
}

// consts collects package-level constants whose value is a literal or a constant expression of
// literals and other such constants (ints, strings, time.X units handled by caller).
func (p *pkgFiles) findConst(name string) ast.Expr {
	for _, f := range p.files {
		for _, d := range f.Decls {
			gd, ok := d.(*ast.GenDecl)
			if !ok || gd.Tok != token.CONST {
				continue
			}
			for _, s := range gd.Specs {
				vs := s.(*ast.ValueSpec)
				for i, id := range vs.Names {
					if id.Name == name && i < len(vs.Values) {
						return vs.Values[i]
					}
				}
			}
		}
	}
	die("package constant %s not found", name)
	return nil
}

func (p *pkgFiles) findFunc(recv, name string) *ast.FuncDecl {
	for _, f := range p.files {
		for _, d := range f.Decls {
			fd, ok := d.(*ast.FuncDecl)
			if !ok || fd.Name.Name != name {
				continue
			}
			r := ""
			if fd.Recv != nil && len(fd.Recv.List) == 1 {
				t := fd.Recv.List[0].Type
				if st, ok := t.(*ast.StarExpr); ok {
					t = st.X
				}
				if id, ok := t.(*ast.Ident); ok {
					r = id.Name
				}
			}
			if r == recv {
				return fd
			}
		}
	}
	die("func %s.%s not found", recv, name)
	return nil
}

// evalInt evaluates an integer constant expression built from literals, + - * << and parentheses,
// and identifiers resolved by env.
func evalInt(p *pkgFiles, e ast.Expr, env func(string) (constant.Value, bool)) constant.Value {
	switch x := e.(type) {
	case *ast.BasicLit:
		v := constant.MakeFromLiteral(x.Value, x.Kind, 0)
		if v.Kind() == constant.Unknown {
			die("%s: bad literal %s", p.pos(e), x.Value)
		}
		return v
	case *ast.ParenExpr:
		return evalInt(p, x.X, env)
	case *ast.UnaryExpr:
		return constant.UnaryOp(x.Op, evalInt(p, x.X, env), 0)
	case *ast.BinaryExpr:
		a, b := evalInt(p, x.X, env), evalInt(p, x.Y, env)
		if x.Op == token.SHL || x.Op == token.SHR {
			s, ok := constant.Uint64Val(b)
			if !ok {
				die("%s: bad shift", p.pos(e))
			}
			return constant.Shift(a, x.Op, uint(s))
		}
		return constant.BinaryOp(a, x.Op, b)
	case *ast.Ident:
		if env != nil {
			if v, ok := env(x.Name); ok {
				return v
			}
		}
		die("%s: unknown identifier %s in constant expression", p.pos(e), x.Name)
	case *ast.CallExpr:
		// conversions like uint8(6), int64(x)
		if len(x.Args) == 1 {
			if id, ok := x.Fun.(*ast.Ident); ok {
				switch id.Name {
				case "uint8", "uint16", "uint32", "uint64", "int", "int64", "int32", "byte":
					return evalInt(p, x.Args[0], env)
				}
			}
		}
		die("%s: unsupported call in constant expression", p.pos(e))
	}
	die("%s: unsupported constant expression %T", p.pos(e), e)
	return nil
}

func zlit(v constant.Value) string {
	s := v.ExactString()
	if strings.HasPrefix(s, "-") {
		return "(" + s + ")"
	}
	return s
}

func coqString(s string) string {
	// Coq string literal: only " needs doubling; we restrict to printable ASCII
	var b strings.Builder
	b.WriteByte('"')
	for _, c := range []byte(s) {
		if c < 32 || c > 126 {
			die("non-printable byte in string constant %q", s)
		}
		if c == '"' {
			b.WriteString(`""`)
		} else {
			b.WriteByte(c)
		}
	}
	b.WriteByte('"')
	return b.String()
}

// writeIfChanged keeps timestamps stable so make does not rebuild needlessly.
func writeIfChanged(name string, content []byte) {
	if current != "" {
		outputs[current] = append(outputs[current], name)
	}
	path := filepath.Join(*outDir, name)
	old, err := os.ReadFile(path)
	if err == nil && bytes.Equal(old, content) {
		return
	}
	if err := os.MkdirAll(*outDir, 0o755); err != nil {
		die("%v", err)
	}
	// atomic replace: a Coq build of another check may be reading the file
	tmp := path + ".tmp"
	if err := os.WriteFile(tmp, content, 0o644); err != nil {
		die("%v", err)
	}
	if err := os.Rename(tmp, path); err != nil {
		die("%v", err)
	}
}

func sortedKeys(m map[string]string) []string {
	ks := make([]string, 0, len(m))
	for k := range m {
		ks = append(ks, k)
	}
	sort.Strings(ks)
	return ks
}

var _ = strconv.Itoa

// generators are registered from init() functions, one per translated topic (file), so that adding
// a translator never edits a shared file.
var generators = map[string]func(){}

func register(name string, f func()) {
	if _, dup := generators[name]; dup {
		die("duplicate generator %s", name)
	}
	generators[name] = f
}

func runOne(name string) (failed string) {
	defer func() {
		if r := recover(); r != nil {
			if gf, ok := r.(genFailure); ok {
				failed = gf.msg
				return
			}
			failed = fmt.Sprint("panic: ", r)
		}
	}()
	current = name
	generators[name]()
	return ""
}

func main() {
	flag.Parse()
	initDone = true
	names := make([]string, 0, len(generators))
	for n := range generators {
		names = append(names, n)
	}
	sort.Strings(names)
	// which files each generator wrote the last time it succeeded
	known := map[string][]string{}
	outPath := filepath.Join(*outDir, "outputs.json")
	if b, err := os.ReadFile(outPath); err == nil {
		_ = json.Unmarshal(b, &known)
	}
	failures := map[string]string{}
	for _, n := range names {
		outputs[n] = nil
		if msg := runOne(n); msg != "" {
			failures[n] = msg
			fmt.Fprintf(os.Stderr, "gen: %s: %s\n", n, msg)
			// remove what this piece produced before (and in this run), so that its dependants break loudly
			for _, f := range append(known[n], outputs[n]...) {
				os.Remove(filepath.Join(*outDir, f))
			}
			continue
		}
		known[n] = outputs[n]
	}
	current = ""
	if b, err := json.MarshalIndent(known, "", " "); err == nil {
		old, _ := os.ReadFile(outPath)
		if !bytes.Equal(old, b) {
			_ = os.WriteFile(outPath, b, 0o644)
		}
	}
	fb, _ := json.MarshalIndent(failures, "", " ")
	_ = os.WriteFile(filepath.Join(*outDir, "failures.json"), fb, 0o644)
	if len(failures) > 0 {
		os.Exit(3) // some pieces failed; the others are up to date
	}
}
